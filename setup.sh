#!/bin/sh
# Build the framework from files on disk only (offline): the Coq development (full .vo build)
# and the Rust harness against /repo's current tree.
set -e
cd "$(dirname "$0")"
export CARGO_NET_OFFLINE=true
( cd coq && coq_makefile -f _CoqProject -o Makefile >/dev/null && timeout 3000 make -j16 )
if [ -n "$HT_REPO" ]; then sed -i "s#path = \"[^\"]*/\(packages\|contracts\)/#path = \"$HT_REPO/\1/#" harness/Cargo.toml; fi
( cd harness && [ -f Cargo.lock ] || cp /repo/Cargo.lock . ; \
  RUSTFLAGS="--cfg halotrade_zone_halotrade_contracts_verif" timeout 3000 cargo build --offline --quiet && \
  RUSTFLAGS="--cfg halotrade_zone_halotrade_contracts_verif" timeout 3000 cargo build --offline --quiet --profile deploy )
mkdir -p build evidence replays
echo setup-ok
