//! Function-level families: numbers, text, formulas, guards.
use crate::util::*;
use bigint::U256;
use bignumber::{Decimal256, Uint256};
use cosmwasm_std::{from_slice, to_vec, Addr, Coin, Decimal, MessageInfo, Uint128};
use haloswap::asset::{Asset, AssetInfo, AssetInfoRaw, CreatePairRequirements, PairInfoRaw};
use haloswap::formulas;
use haloswap::router::SwapOperation;
use std::convert::TryFrom;
use std::str::FromStr;

fn b(x: bool) -> u8 {
    x as u8
}

fn asset_info(kind: &str, idhex: &str) -> AssetInfo {
    let s = String::from_utf8(unhex(idhex)).expect("harness: non-utf8 id");
    match kind {
        "n" => AssetInfo::NativeToken { denom: s },
        "t" => AssetInfo::Token { contract_addr: s },
        _ => panic!("harness: bad asset kind"),
    }
}

fn limbs(u: &U256) -> String {
    let U256(ref a) = *u;
    format!("{} {} {} {}", a[0], a[1], a[2], a[3])
}

pub fn run(t: &[&str]) -> String {
    guarded(|| match t[0] {
        // ---------------- formulas ----------------
        #[cfg(feature = "fn_compute_swap")]
        "compute_swap" => {
            let (r, s, c) =
                formulas::compute_swap(uint128(t[1]), uint128(t[2]), uint128(t[3]), dec256(t[4]));
            format!("ok {} {} {}", r, s, c)
        }
        #[cfg(feature = "fn_compute_offer_amount")]
        "compute_offer_amount" => {
            let (o, s, c) = formulas::compute_offer_amount(
                uint128(t[1]),
                uint128(t[2]),
                uint128(t[3]),
                dec256(t[4]),
            );
            format!("ok {} {} {}", o, s, c)
        }
        #[cfg(feature = "fn_lp_share")]
        "lp_share" => {
            // wl min0 min1 S d0 d1 r0 r1
            let wl = t[1] == "1";
            let info = MessageInfo {
                sender: Addr::unchecked("alice"),
                funds: vec![],
            };
            let pi = PairInfoRaw {
                asset_infos: [
                    AssetInfoRaw::NativeToken {
                        denom: "a".to_string(),
                    },
                    AssetInfoRaw::NativeToken {
                        denom: "b".to_string(),
                    },
                ],
                contract_addr: vec![].into(),
                liquidity_token: vec![].into(),
                asset_decimals: [6, 6],
                requirements: CreatePairRequirements {
                    whitelist: if wl {
                        vec![Addr::unchecked("carol"), Addr::unchecked("alice")]
                    } else {
                        vec![Addr::unchecked("bob")]
                    },
                    first_asset_minimum: uint128(t[2]),
                    second_asset_minimum: uint128(t[3]),
                },
                commission_rate: Decimal256::zero(),
            };
            let pools = [
                Asset {
                    info: AssetInfo::NativeToken {
                        denom: "a".to_string(),
                    },
                    amount: uint128(t[7]),
                },
                Asset {
                    info: AssetInfo::NativeToken {
                        denom: "b".to_string(),
                    },
                    amount: uint128(t[8]),
                },
            ];
            contract_result(
                formulas::calculate_lp_token_amount_to_user(
                    &info,
                    &pi,
                    uint128(t[4]),
                    [uint128(t[5]), uint128(t[6])],
                    pools,
                )
                .map(ok1),
            )
        }
        "calc_price_drop" => ok1(
            formulas::calc_price_drop(uint256(t[1]), uint256(t[2]), dec256(t[3])).0,
        ),
        "calc_slippage_tolerance" => {
            ok1(formulas::calc_slippage_tolerance(uint256(t[1]), uint256(t[2])).0)
        }
        // ---------------- Uint256 ----------------
        "u_add" => ok1(uint256(t[1]) + uint256(t[2])),
        "u_addassign" => {
            let mut a = uint256(t[1]);
            a += uint256(t[2]);
            ok1(a)
        }
        "u_sub" => ok1(uint256(t[1]) - uint256(t[2])),
        "u_mul" => ok1(uint256(t[1]) * uint256(t[2])),
        "u_mulratio" => ok1(uint256(t[1]).multiply_ratio(u256(t[2]), u256(t[3]))),
        "u_muldec" => ok1(uint256(t[1]) * dec256(t[2])),
        "d_muluint" => ok1(dec256(t[1]) * uint256(t[2])),
        "u_divdec" => ok1(uint256(t[1]) / dec256(t[2])),
        "u_cmp" => {
            let (a, c) = (uint256(t[1]), uint256(t[2]));
            format!(
                "ok {} {} {} {} {} {}",
                b(a < c),
                b(a <= c),
                b(a > c),
                b(a >= c),
                b(a == c),
                b(a.is_zero())
            )
        }
        // ---------------- Decimal256 ----------------
        "d_add" => ok1((dec256(t[1]) + dec256(t[2])).0),
        "d_addassign" => {
            let mut a = dec256(t[1]);
            a += dec256(t[2]);
            ok1(a.0)
        }
        "d_sub" => ok1((dec256(t[1]) - dec256(t[2])).0),
        "d_mul" => ok1((dec256(t[1]) * dec256(t[2])).0),
        "d_div" => ok1((dec256(t[1]) / dec256(t[2])).0),
        "d_from_ratio" => ok1(Decimal256::from_ratio(u256(t[1]), u256(t[2])).0),
        "d_from_uint" => ok1(Decimal256::from_uint256(uint256(t[1])).0),
        "d_cmp" => {
            let (a, c) = (dec256(t[1]), dec256(t[2]));
            format!(
                "ok {} {} {} {} {} {}",
                b(a < c),
                b(a <= c),
                b(a > c),
                b(a >= c),
                b(a == c),
                b(a.is_zero())
            )
        }
        "d_percent" => ok1(Decimal256::percent(t[1].parse::<u64>().unwrap()).0),
        "d_permille" => ok1(Decimal256::permille(t[1].parse::<u64>().unwrap()).0),
        "d_consts" => format!(
            "ok {} {} {} {} {}",
            Decimal256::one().0,
            Decimal256::zero().0,
            Decimal256::MAX.0,
            Uint256::one(),
            Uint256::zero()
        ),
        // ---------------- widths ----------------
        "u_from_u128" => {
            let v = Uint256::from(u128_(t[1]));
            format!("ok {} {}", v, limbs(&v.0))
        }
        "u_from_uint128" => {
            let v = Uint256::from(uint128(t[1]));
            format!("ok {} {}", v, limbs(&v.0))
        }
        "u_from_u64" => {
            let v = Uint256::from(t[1].parse::<u64>().unwrap());
            format!("ok {} {}", v, limbs(&v.0))
        }
        "u_to_u128" => {
            let v: u128 = uint256(t[1]).into();
            ok1(v)
        }
        "u_to_uint128" => {
            let v: Uint128 = uint256(t[1]).into();
            ok1(v)
        }
        "d_to_cwdec" => {
            let v: Decimal = dec256(t[1]).into();
            ok1(v.atomics())
        }
        "d_from_cwdec" => {
            let v: Decimal256 = cwdec(t[1]).into();
            ok1(v.0)
        }
        // ---------------- text ----------------
        "u_display" => ok1(hex(uint256(t[1]).to_string().as_bytes())),
        "u_string" => ok1(hex(String::from(uint256(t[1])).as_bytes())),
        "u_fromstr" => {
            let s = String::from_utf8(unhex(t[1])).unwrap();
            std_result(Uint256::from_str(&s).map(ok1))
        }
        "u_tryfrom" => {
            let s = String::from_utf8(unhex(t[1])).unwrap();
            std_result(Uint256::try_from(s.as_str()).map(ok1))
        }
        "d_display" => ok1(hex(dec256(t[1]).to_string().as_bytes())),
        "d_fromstr" => {
            let s = String::from_utf8(unhex(t[1])).unwrap();
            std_result(Decimal256::from_str(&s).map(|d| ok1(d.0)))
        }
        "u_rt_back" => std_result(Uint256::from_str(&uint256(t[1]).to_string()).map(ok1)),
        "d_rt_back" => std_result(Decimal256::from_str(&dec256(t[1]).to_string()).map(|d| ok1(d.0))),
        "u_rt_json" => std_result(
            from_slice::<Uint256>(&to_vec(&uint256(t[1])).unwrap()).map(ok1),
        ),
        "d_rt_json" => std_result(
            from_slice::<Decimal256>(&to_vec(&dec256(t[1])).unwrap()).map(|d| ok1(d.0)),
        ),
        "u_json" => ok1(hex(&to_vec(&uint256(t[1])).unwrap())),
        "d_json" => ok1(hex(&to_vec(&dec256(t[1])).unwrap())),
        "u_unjson" => std_result(from_slice::<Uint256>(&unhex(t[1])).map(ok1)),
        "d_unjson" => std_result(from_slice::<Decimal256>(&unhex(t[1])).map(|d| ok1(d.0))),
        // ---------------- guards ----------------
        #[cfg(not(feature = "fn_compute_swap"))]
        "compute_swap" => panic!("harness: built without the direct call to compute_swap (its signature no longer matches)"),
        #[cfg(not(feature = "fn_compute_offer_amount"))]
        "compute_offer_amount" => panic!("harness: built without the direct call to compute_offer_amount (its signature no longer matches)"),
        #[cfg(not(feature = "fn_lp_share"))]
        "lp_share" => panic!("harness: built without the direct call to lp_share (its signature no longer matches)"),
        #[cfg(not(feature = "fn_max_spread"))]
        "max_spread" => panic!("harness: built without the direct call to max_spread (its signature no longer matches)"),
        #[cfg(not(feature = "fn_slippage"))]
        "slippage" => panic!("harness: built without the direct call to slippage (its signature no longer matches)"),
        #[cfg(not(feature = "fn_sent_native"))]
        "sent_native" => panic!("harness: built without the direct call to sent_native (its signature no longer matches)"),
        #[cfg(not(feature = "fn_assert_ops"))]
        "assert_ops" => panic!("harness: built without the direct call to assert_ops (its signature no longer matches)"),
        #[cfg(feature = "fn_max_spread")]
        "max_spread" => {
            // bp ms offer ret spread od rd
            let offer = Asset {
                info: AssetInfo::NativeToken {
                    denom: "a".to_string(),
                },
                amount: uint128(t[3]),
            };
            let ret = Asset {
                info: AssetInfo::NativeToken {
                    denom: "b".to_string(),
                },
                amount: uint128(t[4]),
            };
            contract_result(
                halo_pair::assert::assert_max_spread(
                    opt_cwdec(t[1]),
                    opt_cwdec(t[2]),
                    offer,
                    ret,
                    uint128(t[5]),
                    t[6].parse::<u8>().unwrap(),
                    t[7].parse::<u8>().unwrap(),
                )
                .map(|_| "ok".to_string()),
            )
        }
        #[cfg(feature = "fn_slippage")]
        "slippage" => {
            // t d0 d1 p0 p1
            let pools = [
                Asset {
                    info: AssetInfo::NativeToken {
                        denom: "a".to_string(),
                    },
                    amount: uint128(t[4]),
                },
                Asset {
                    info: AssetInfo::NativeToken {
                        denom: "b".to_string(),
                    },
                    amount: uint128(t[5]),
                },
            ];
            contract_result(
                halo_pair::assert::assert_slippage_tolerance(
                    &opt_cwdec(t[1]),
                    &[uint128(t[2]), uint128(t[3])],
                    &pools,
                )
                .map(|_| "ok".to_string()),
            )
        }
        #[cfg(feature = "fn_sent_native")]
        "sent_native" => {
            // kind idhex amount nfunds (denomhex amount)*
            let asset = Asset {
                info: asset_info(t[1], t[2]),
                amount: uint128(t[3]),
            };
            let n: usize = t[4].parse().unwrap();
            let mut funds = vec![];
            for i in 0..n {
                funds.push(Coin {
                    denom: String::from_utf8(unhex(t[5 + 2 * i])).unwrap(),
                    amount: uint128(t[6 + 2 * i]),
                });
            }
            let info = MessageInfo {
                sender: Addr::unchecked("alice"),
                funds,
            };
            std_result(
                asset
                    .assert_sent_native_token_balance(&info)
                    .map(|_| "ok".to_string()),
            )
        }
        #[cfg(feature = "fn_assert_ops")]
        "assert_ops" => {
            // n (kind idhex kind idhex)*
            let n: usize = t[1].parse().unwrap();
            let mut ops = vec![];
            for i in 0..n {
                ops.push(SwapOperation::HaloSwap {
                    offer_asset_info: asset_info(t[2 + 4 * i], t[3 + 4 * i]),
                    ask_asset_info: asset_info(t[4 + 4 * i], t[5 + 4 * i]),
                });
            }
            std_result(halo_router::assert::assert_operations(&ops).map(|_| "ok".to_string()))
        }
        _ => panic!("harness: unknown op"),
    })
}
