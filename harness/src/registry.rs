//! Storage-level registry family: the real `pair_key`, `PAIRS` and `read_pairs`
//! of halo-factory on `MockStorage` / `MockApi`.
//!
//! Assets are given as `<kind> <idhex>` with kind `n` (native denom) or `t`
//! (token, human address canonicalised by MockApi).  An entry's identity is its
//! index in the input; it is stored in the record's `contract_addr`.
use crate::util::*;
use bignumber::Decimal256;
use cosmwasm_std::testing::{mock_env, MockApi, MockQuerier, MockStorage};
use cosmwasm_std::{from_binary, Api, OwnedDeps, StdResult};
use halo_factory::state::{pair_key, PAIRS};
use haloswap::asset::{AssetInfo, AssetInfoRaw, CreatePairRequirements, PairInfo, PairInfoRaw};
use haloswap::factory::{PairsResponse, QueryMsg};
use std::marker::PhantomData;

const SEP: u64 = 999_999;
const LOOP: u64 = 888_888;

fn raw(api: &MockApi, kind: &str, idhex: &str) -> AssetInfoRaw {
    let s = String::from_utf8(unhex(idhex)).expect("harness: non-utf8 id");
    match kind {
        "n" => AssetInfoRaw::NativeToken { denom: s },
        "t" => AssetInfoRaw::Token {
            contract_addr: api
                .addr_canonicalize(&s)
                .expect("harness: token address does not canonicalize"),
        },
        _ => panic!("harness: bad asset kind"),
    }
}

fn entry_addr(i: usize) -> String {
    format!("pair{:05}", i)
}

fn index_of(p: &PairInfo) -> usize {
    p.contract_addr[4..].parse::<usize>().expect("harness: bad pair index")
}

fn build(api: &MockApi, t: &[&str], n: usize) -> (MockStorage, Vec<[AssetInfoRaw; 2]>) {
    let mut st = MockStorage::new();
    let mut entries = vec![];
    for i in 0..n {
        let a = raw(api, t[4 * i], t[4 * i + 1]);
        let b = raw(api, t[4 * i + 2], t[4 * i + 3]);
        let infos = [a, b];
        let key = pair_key(&infos);
        PAIRS
            .save(
                &mut st,
                &key,
                &PairInfoRaw {
                    asset_infos: infos.clone(),
                    contract_addr: api.addr_canonicalize(&entry_addr(i)).unwrap(),
                    liquidity_token: api.addr_canonicalize("lptoken").unwrap(),
                    asset_decimals: [6, 6],
                    requirements: CreatePairRequirements {
                        whitelist: vec![],
                        first_asset_minimum: 0u128.into(),
                        second_asset_minimum: 0u128.into(),
                    },
                    commission_rate: Decimal256::zero(),
                },
            )
            .unwrap();
        entries.push(infos);
    }
    (st, entries)
}

/// One page of the listing, asked the way a client asks: through the factory's `query` entry point with the
/// continuation cursor in its human form.
fn page_via_query(
    st: MockStorage,
    cursor: Option<[AssetInfo; 2]>,
    limit: Option<u32>,
) -> (MockStorage, StdResult<Vec<PairInfo>>) {
    let deps = OwnedDeps {
        storage: st,
        api: MockApi::default(),
        querier: MockQuerier::default(),
        custom_query_type: PhantomData,
    };
    let r = halo_factory::contract::query(
        deps.as_ref(),
        mock_env(),
        QueryMsg::Pairs {
            start_after: cursor,
            limit,
        },
    )
    .and_then(|b| from_binary::<PairsResponse>(&b))
    .map(|r| r.pairs);
    (deps.storage, r)
}

pub fn run(t: &[&str]) -> String {
    guarded(|| {
        let api = MockApi::default();
        match t[0] {
            "reg_bytes" => ok1(hex(raw(&api, t[1], t[2]).as_bytes())),
            "reg_key" => ok1(hex(&pair_key(&[raw(&api, t[1], t[2]), raw(&api, t[3], t[4])]))),
            // reg_walk L n entries...
            // reg_walk_sw: the same walk by a client that hands the last pair back with its two assets in the other order
            "reg_walk" | "reg_walk_sw" => {
                let limit: Option<u32> = if t[1] == "-" { None } else { Some(t[1].parse().unwrap()) };
                let n: usize = t[2].parse().unwrap();
                let (mut st, _) = build(&api, &t[3..], n);
                let mut out = vec![];
                let mut cursor: Option<[AssetInfo; 2]> = None;
                let mut pages = 0;
                loop {
                    let (st2, r) = page_via_query(st, cursor.clone(), limit);
                    st = st2;
                    let page = match r {
                        Ok(p) => p,
                        Err(_) => return "err std".to_string(),
                    };
                    if page.is_empty() {
                        break;
                    }
                    for p in page.iter() {
                        out.push(index_of(p) as u64);
                    }
                    out.push(SEP);
                    let last = page.last().unwrap().asset_infos.clone();
                    cursor = Some(if t[0] == "reg_walk_sw" {
                        [last[1].clone(), last[0].clone()]
                    } else {
                        last
                    });
                    pages += 1;
                    if pages > 200 {
                        out.push(LOOP);
                        break;
                    }
                }
                format!(
                    "ok {}",
                    out.iter().map(|x| x.to_string()).collect::<Vec<_>>().join(" ")
                )
            }
            // reg_page L cursor(- | idx) swap(0|1) n entries...
            "reg_page" => {
                let limit: Option<u32> = if t[1] == "-" { None } else { Some(t[1].parse().unwrap()) };
                let n: usize = t[4].parse().unwrap();
                let (st, entries) = build(&api, &t[5..], n);
                let cursor = if t[2] == "-" {
                    None
                } else {
                    let e = entries[t[2].parse::<usize>().unwrap()].clone();
                    let h = [e[0].to_normal(&api).unwrap(), e[1].to_normal(&api).unwrap()];
                    if t[3] == "1" {
                        Some([h[1].clone(), h[0].clone()])
                    } else {
                        Some(h)
                    }
                };
                match page_via_query(st, cursor, limit).1 {
                    Ok(page) => format!(
                        "ok {}",
                        page.iter()
                            .map(|p| index_of(p).to_string())
                            .collect::<Vec<_>>()
                            .join(" ")
                    ),
                    Err(_) => "err std".to_string(),
                }
            }
            // reg_lookup k id k id n entries...   -> index of the record found under pair_key(query)
            "reg_lookup" => {
                let q = [raw(&api, t[1], t[2]), raw(&api, t[3], t[4])];
                let n: usize = t[5].parse().unwrap();
                let (st, _) = build(&api, &t[6..], n);
                match PAIRS.load(&st, &pair_key(&q)) {
                    Ok(p) => {
                        let pi = p.to_normal(&api).unwrap();
                        ok1(index_of(&pi))
                    }
                    Err(_) => "err std".to_string(),
                }
            }
            _ => panic!("harness: unknown op"),
        }
    })
}
