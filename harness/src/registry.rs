//! Storage-level registry family (pair_key, PAIRS, read_pairs on MockStorage).
pub fn run(_t: &[&str]) -> String {
    "BAD registry not built yet".to_string()
}
