//! Correspondence harness: runs the real halotrade-contracts code on cases read
//! from stdin (one per line) and prints one canonical result line per case.
//!
//! Result lines:  `ok <v1> <v2> ...`  |  `err <kind>`
//! kinds: panic std unauthorized asset_mismatch max_spread max_slippage zero_amount
mod fnlevel;
mod registry;
mod util;
mod world;

use std::io::{self, BufRead, Write};

fn main() {
    std::panic::set_hook(Box::new(|_| {}));
    let args: Vec<String> = std::env::args().collect();
    if args.len() > 1 && args[1] == "world" {
        world::serve();
        return;
    }
    let stdin = io::stdin();
    let stdout = io::stdout();
    let mut out = io::BufWriter::new(stdout.lock());
    for line in stdin.lock().lines() {
        let line = line.expect("read");
        let line = line.trim();
        if line.is_empty() || line.starts_with('#') {
            continue;
        }
        let toks: Vec<&str> = line.split_whitespace().collect();
        let res = if toks[0].starts_with("reg_") {
            registry::run(&toks)
        } else {
            fnlevel::run(&toks)
        };
        writeln!(out, "{}", res).unwrap();
    }
    out.flush().unwrap();
}
