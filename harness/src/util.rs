use bigint::U256;
use bignumber::{Decimal256, Uint256};
use cosmwasm_std::{Decimal, StdError, Uint128};
use haloswap::error::ContractError;
use std::panic::{catch_unwind, AssertUnwindSafe};

pub fn u256(s: &str) -> U256 {
    U256::from_dec_str(s).expect("harness: bad U256 literal")
}
pub fn uint256(s: &str) -> Uint256 {
    Uint256(u256(s))
}
pub fn dec256(s: &str) -> Decimal256 {
    Decimal256(u256(s))
}
pub fn u128_(s: &str) -> u128 {
    s.parse::<u128>().expect("harness: bad u128 literal")
}
pub fn uint128(s: &str) -> Uint128 {
    Uint128::from(u128_(s))
}
/// cosmwasm Decimal from atomics ("-" = None)
pub fn cwdec(s: &str) -> Decimal {
    Decimal::new(uint128(s))
}
pub fn opt_cwdec(s: &str) -> Option<Decimal> {
    if s == "-" {
        None
    } else {
        Some(cwdec(s))
    }
}
pub fn unhex(s: &str) -> Vec<u8> {
    if s == "_" {
        return vec![];
    }
    (0..s.len())
        .step_by(2)
        .map(|i| u8::from_str_radix(&s[i..i + 2], 16).expect("harness: bad hex"))
        .collect()
}
pub fn hex(b: &[u8]) -> String {
    if b.is_empty() {
        return "_".to_string();
    }
    b.iter().map(|x| format!("{:02x}", x)).collect()
}

pub fn kind_of_contract_error(e: &ContractError) -> &'static str {
    match e {
        ContractError::Std(_) => "std",
        ContractError::OverflowError(_) => "std",
        ContractError::Unauthorized {} => "unauthorized",
        ContractError::InvalidZeroAmount {} => "zero_amount",
        ContractError::MaxSpreadAssertion {} => "max_spread",
        ContractError::MaxSlippageAssertion {} => "max_slippage",
        ContractError::AssetMismatch {} => "asset_mismatch",
    }
}

/// Run `f`, turning a panic into `err panic`.  A panic raised by the harness
/// itself (message starting with "harness:") is reported as a `BAD` line so that
/// it can never be mistaken for behaviour of the code under test.
pub fn guarded<F: FnOnce() -> String>(f: F) -> String {
    match catch_unwind(AssertUnwindSafe(f)) {
        Ok(s) => s,
        Err(e) => {
            let msg = if let Some(s) = e.downcast_ref::<&str>() {
                s.to_string()
            } else if let Some(s) = e.downcast_ref::<String>() {
                s.clone()
            } else {
                String::new()
            };
            if msg.starts_with("harness:") {
                format!("BAD {}", msg)
            } else {
                "err panic".to_string()
            }
        }
    }
}

pub fn ok1<T: std::fmt::Display>(v: T) -> String {
    format!("ok {}", v)
}

pub fn std_result(r: Result<String, StdError>) -> String {
    match r {
        Ok(s) => s,
        Err(_) => "err std".to_string(),
    }
}
pub fn contract_result(r: Result<String, ContractError>) -> String {
    match r {
        Ok(s) => s,
        Err(e) => format!("err {}", kind_of_contract_error(&e)),
    }
}
