//! World-level family: the real factory / pair / router contracts and the real cw20-base inside
//! cw-multi-test.  Line protocol on stdin/stdout (see gen/fam_world.py):
//!   init <nu> <nd> <nt> <maxp> <ubal> <fbal> <tdec>*nt     -> ok <full snapshot>
//!   op <...>      -> ok|fail <nextras> <extras>* <ndelta> (<idx> <val>)*
//!   q <...>       -> ok <vals>* | fail
//! Addresses: contract n = "contract{n}", user i = 1000+i = "user{i}"; denom d = "denom{d}".
use cosmwasm_std::{
    coin, to_binary, Addr, Binary, Coin, Decimal, Empty, QueryRequest, Uint128, WasmQuery,
};
use cw20::{BalanceResponse, Cw20Coin, Cw20ExecuteMsg, Cw20QueryMsg, MinterResponse, TokenInfoResponse};
use cw_multi_test::{App, AppResponse, Contract, ContractWrapper, Executor};
use haloswap::asset::{Asset, AssetInfo, CreatePairRequirements, LPTokenInfo, PairInfo};
use haloswap::factory::{
    ConfigResponse, ExecuteMsg as FactoryExecuteMsg, InstantiateMsg as FactoryInstantiateMsg,
    NativeTokenDecimalsResponse, QueryMsg as FactoryQueryMsg,
};
use haloswap::pair::{
    Cw20HookMsg as PairHook, ExecuteMsg as PairExecuteMsg, QueryMsg as PairQueryMsg,
    ReverseSimulationResponse, SimulationResponse,
};
use haloswap::router::{
    ExecuteMsg as RouterExecuteMsg, InstantiateMsg as RouterInstantiateMsg,
    QueryMsg as RouterQueryMsg, SimulateSwapOperationsResponse, SwapOperation,
};
use std::io::{self, BufRead, Write};
use std::panic::{catch_unwind, AssertUnwindSafe};

fn factory_contract() -> Box<dyn Contract<Empty>> {
    Box::new(
        ContractWrapper::new(
            halo_factory::contract::execute,
            halo_factory::contract::instantiate,
            halo_factory::contract::query,
        )
        .with_reply(halo_factory::contract::reply),
    )
}
fn pair_contract() -> Box<dyn Contract<Empty>> {
    Box::new(
        ContractWrapper::new(
            halo_pair::contract::execute,
            halo_pair::contract::instantiate,
            halo_pair::contract::query,
        )
        .with_reply(halo_pair::contract::reply)
        .with_migrate(halo_pair::contract::migrate),
    )
}
fn token_contract() -> Box<dyn Contract<Empty>> {
    Box::new(ContractWrapper::new(
        cw20_base::contract::execute,
        cw20_base::contract::instantiate,
        cw20_base::contract::query,
    ))
}
// A cw20 that is NOT laid out like stock cw20-base: the same code running under a storage namespace (as a token embedded
// in a larger contract, or an older layout, would be).  To every query and message of the cw20 interface it behaves exactly
// like cw20-base, so the model's token is exact for it; only code that reads a token's raw storage can tell the difference.
const LEDGER_NAMESPACE: &[u8] = b"ledger";
fn ns_instantiate(
    deps: cosmwasm_std::DepsMut,
    env: cosmwasm_std::Env,
    info: cosmwasm_std::MessageInfo,
    msg: cw20_base::msg::InstantiateMsg,
) -> Result<cosmwasm_std::Response, cw20_base::ContractError> {
    let mut storage = cosmwasm_storage::PrefixedStorage::new(deps.storage, LEDGER_NAMESPACE);
    let deps = cosmwasm_std::DepsMut {
        storage: &mut storage,
        api: deps.api,
        querier: deps.querier,
    };
    cw20_base::contract::instantiate(deps, env, info, msg)
}
fn ns_execute(
    deps: cosmwasm_std::DepsMut,
    env: cosmwasm_std::Env,
    info: cosmwasm_std::MessageInfo,
    msg: cw20_base::msg::ExecuteMsg,
) -> Result<cosmwasm_std::Response, cw20_base::ContractError> {
    let mut storage = cosmwasm_storage::PrefixedStorage::new(deps.storage, LEDGER_NAMESPACE);
    let deps = cosmwasm_std::DepsMut {
        storage: &mut storage,
        api: deps.api,
        querier: deps.querier,
    };
    cw20_base::contract::execute(deps, env, info, msg)
}
fn ns_query(
    deps: cosmwasm_std::Deps,
    env: cosmwasm_std::Env,
    msg: cw20_base::msg::QueryMsg,
) -> cosmwasm_std::StdResult<cosmwasm_std::Binary> {
    let storage = cosmwasm_storage::ReadonlyPrefixedStorage::new(deps.storage, LEDGER_NAMESPACE);
    let deps = cosmwasm_std::Deps {
        storage: &storage,
        api: deps.api,
        querier: deps.querier,
    };
    cw20_base::contract::query(deps, env, msg)
}
fn namespaced_token_contract() -> Box<dyn Contract<Empty>> {
    Box::new(ContractWrapper::new(ns_execute, ns_instantiate, ns_query))
}
fn router_contract() -> Box<dyn Contract<Empty>> {
    Box::new(ContractWrapper::new(
        halo_router::contract::execute,
        halo_router::contract::instantiate,
        halo_router::contract::query,
    ))
}

// "proxies k": from the next init on, the LAST k users of the world are generic proxy CONTRACTS (they forward whatever
// messages their operator hands them, hold their own balances, and have no cw20 Receive entry point).  To the model they
// are ordinary accounts 1000+i; on the chain they live at the contract addresses right after the asset tokens, so every
// later contract (pairs, LP tokens) sits `k` addresses further than its model address.
static N_PROXIES: std::sync::atomic::AtomicU64 = std::sync::atomic::AtomicU64::new(0);
static N_USERS: std::sync::atomic::AtomicU64 = std::sync::atomic::AtomicU64::new(0);
static N_TOKENS: std::sync::atomic::AtomicU64 = std::sync::atomic::AtomicU64::new(0);
fn layout3() -> (u128, u128, u128) {
    use std::sync::atomic::Ordering::SeqCst;
    (
        N_PROXIES.load(SeqCst) as u128,
        N_USERS.load(SeqCst) as u128,
        N_TOKENS.load(SeqCst) as u128,
    )
}
// accounts 1990.. : callers whose NAMES are unusual (too short or too long for the address codec, upper case); they hold
// nothing and sit outside every roster, to the model they are ordinary strangers
fn odd_name(id: u128) -> Option<String> {
    match id {
        1990 => Some("z".to_string()),
        1991 => Some("zz".to_string()),
        1992 => Some("zzz".to_string()),
        1993 => Some("y".repeat(54)),
        1994 => Some("y".repeat(55)),
        1995 => Some("y".repeat(70)),
        1996 => Some("USER0".to_string()),
        1997 => Some("y".repeat(91)),
        _ => None,
    }
}
fn addr_s(id: u128) -> String {
    let (np, nu, nt) = layout3();
    if let Some(s) = odd_name(id) {
        return s;
    }
    if id >= 1000 {
        let k = id - 1000;
        if np > 0 && k < nu && k >= nu - np {
            format!("contract{}", 2 + nt + (k - (nu - np)))
        } else {
            format!("user{}", k)
        }
    } else if id >= 2 + nt {
        format!("contract{}", id + np)
    } else {
        format!("contract{}", id)
    }
}
fn addr_id(s: &str) -> u128 {
    let (np, nu, nt) = layout3();
    if let Some(id) = (1990..1998u128).find(|i| odd_name(*i).as_deref() == Some(s)) {
        return id;
    }
    if let Some(r) = s.strip_prefix("user") {
        1000 + r.parse::<u128>().expect("harness: bad user address")
    } else if let Some(r) = s.strip_prefix("contract") {
        let n = r.parse::<u128>().expect("harness: bad contract address");
        if n < 2 + nt {
            n
        } else if n < 2 + nt + np {
            1000 + (nu - np) + (n - (2 + nt))
        } else {
            n - np
        }
    } else {
        panic!("harness: unknown address {}", s)
    }
}
fn is_proxy(s: &str) -> bool {
    let (np, _, nt) = layout3();
    match s.strip_prefix("contract").and_then(|r| r.parse::<u128>().ok()) {
        Some(n) => n >= 2 + nt && n < 2 + nt + np,
        None => false,
    }
}
#[derive(serde::Serialize, serde::Deserialize, Clone, Debug, PartialEq)]
pub struct ProxyExec {
    pub msgs: Vec<cosmwasm_std::CosmosMsg>,
}
fn proxy_execute(
    _deps: cosmwasm_std::DepsMut,
    _env: cosmwasm_std::Env,
    _info: cosmwasm_std::MessageInfo,
    msg: ProxyExec,
) -> cosmwasm_std::StdResult<cosmwasm_std::Response> {
    Ok(cosmwasm_std::Response::new().add_messages(msg.msgs))
}
fn proxy_instantiate(
    _deps: cosmwasm_std::DepsMut,
    _env: cosmwasm_std::Env,
    _info: cosmwasm_std::MessageInfo,
    _msg: Empty,
) -> cosmwasm_std::StdResult<cosmwasm_std::Response> {
    Ok(cosmwasm_std::Response::default())
}
fn proxy_query(_deps: cosmwasm_std::Deps, _env: cosmwasm_std::Env, _msg: Empty) -> cosmwasm_std::StdResult<cosmwasm_std::Binary> {
    Err(cosmwasm_std::StdError::generic_err("the proxy answers no queries"))
}
fn proxy_contract() -> Box<dyn Contract<Empty>> {
    Box::new(ContractWrapper::new(proxy_execute, proxy_instantiate, proxy_query))
}
/// Execute `msg` on `target` as `caller`: directly for a plain account, through the proxy's forwarder when the caller
/// is one of the proxy contracts (the funds then come out of the proxy's own balance).
fn xc<T: serde::Serialize + std::fmt::Debug>(
    app: &mut App,
    caller: &str,
    target: &str,
    msg: &T,
    funds: &[Coin],
) -> anyhow::Result<AppResponse> {
    if is_proxy(caller) {
        let inner = cosmwasm_std::WasmMsg::Execute {
            contract_addr: target.to_string(),
            msg: cosmwasm_std::to_binary(msg)?,
            funds: funds.to_vec(),
        };
        app.execute_contract(
            Addr::unchecked("operator"),
            Addr::unchecked(caller),
            &ProxyExec {
                msgs: vec![inner.into()],
            },
            &[],
        )
    } else {
        app.execute_contract(Addr::unchecked(caller), Addr::unchecked(target), msg, funds)
    }
}
fn xbank(app: &mut App, from: &str, to: &str, coins: &[Coin]) -> anyhow::Result<AppResponse> {
    if is_proxy(from) {
        let inner = cosmwasm_std::BankMsg::Send {
            to_address: to.to_string(),
            amount: coins.to_vec(),
        };
        app.execute_contract(
            Addr::unchecked("operator"),
            Addr::unchecked(from),
            &ProxyExec {
                msgs: vec![inner.into()],
            },
            &[],
        )
    } else {
        app.send_tokens(Addr::unchecked(from), Addr::unchecked(to), coins)
    }
}
// "lookalike d t": from the next init on, bank denom d is spelled exactly like the address of contract t
// "tfdenom d u": from the next init on, bank denom d is the token-factory denom of user u: "factory/<address of u>/sub"
static TF_D: std::sync::atomic::AtomicU64 = std::sync::atomic::AtomicU64::new(u64::MAX);
static TF_U: std::sync::atomic::AtomicU64 = std::sync::atomic::AtomicU64::new(0);
// "rogue t p": from the next init on, asset token t (which no pair should trade) names contract p - the address a pair will
// get - as its MINTER: a counterfeit "share token" of that pair.  Nobody mints it in such a history; the snapshot keeps
// reporting the minter the model knows (user0), the way code-id copies are kept out of the model.
static CREATE_COUNT: std::sync::atomic::AtomicU64 = std::sync::atomic::AtomicU64::new(0);
static ROGUE_T: std::sync::atomic::AtomicU64 = std::sync::atomic::AtomicU64::new(u64::MAX);
static ROGUE_P: std::sync::atomic::AtomicU64 = std::sync::atomic::AtomicU64::new(0);
static LOOK_D: std::sync::atomic::AtomicU64 = std::sync::atomic::AtomicU64::new(u64::MAX);
static LOOK_T: std::sync::atomic::AtomicU64 = std::sync::atomic::AtomicU64::new(0);
fn denom_s(d: u128) -> String {
    use std::sync::atomic::Ordering::SeqCst;
    if d as u64 == LOOK_D.load(SeqCst) {
        return addr_s(LOOK_T.load(SeqCst) as u128);
    }
    if d as u64 == TF_D.load(SeqCst) {
        return format!("factory/{}/sub", addr_s(TF_U.load(SeqCst) as u128));
    }
    // realistic spellings: an IBC denom with upper-case hex, a denom that differs from denom 0 only by letter case,
    // and one that has denom 0 as a proper prefix (bank denoms are case-sensitive, exact strings)
    match d {
        0 => "uaura".to_string(),
        1 => "ibc/27394FB092D2ECCD56123C74F36E4C1F926001CEADA9CA97EA622B25F41E5EB2".to_string(),
        2 => "UAURA".to_string(),
        3 => "uaurax".to_string(),
        // denom 0 as a proper suffix of a denom that sorts last, and a denom that sorts after "uaurax" (so that a denom
        // with denom 0 as a proper prefix can be the smaller identifier of a pair)
        4 => "xuaura".to_string(),
        5 => "uzzz".to_string(),
        // a second IBC voucher that shares its first 16 and its last 8 characters with denom 1 (long identifiers that differ
        // in the middle only)
        6 => "ibc/27394FB092D2A17B56123C74F36E4C1F926001CEADA9CA97EA622B25F41E5EB2".to_string(),
        // denoms that contain the dash some renderings use as a separator: {axl-usdc, weth} and {axl, usdc-weth} print alike
        // when their sorted parts are joined with "-" but are different sets under different registry keys
        7 => "axl-usdc".to_string(),
        8 => "weth".to_string(),
        9 => "axl".to_string(),
        10 => "usdc-weth".to_string(),
        // a denom that is denom 0 with a DIGIT in front: "15uaura" reads as 15 of uaura and as 1 of 5uaura
        11 => "5uaura".to_string(),
        _ => format!("denom{}", d),
    }
}
fn denom_id(s: &str) -> Option<u128> {
    use std::sync::atomic::Ordering::SeqCst;
    let ld = LOOK_D.load(SeqCst);
    if ld != u64::MAX && s == denom_s(ld as u128) {
        return Some(ld as u128);
    }
    let td = TF_D.load(SeqCst);
    if td != u64::MAX && s == denom_s(td as u128) {
        return Some(td as u128);
    }
    (0..64u128).find(|d| *d as u64 != ld && *d as u64 != td && denom_s(*d) == s)
}

struct Cur<'a> {
    t: Vec<&'a str>,
    i: usize,
}
impl<'a> Cur<'a> {
    fn next(&mut self) -> &'a str {
        let s = self.t.get(self.i).copied().expect("harness: missing token");
        self.i += 1;
        s
    }
    fn more(&self) -> bool {
        self.i < self.t.len()
    }
    fn num(&mut self) -> u128 {
        self.next().parse::<u128>().expect("harness: bad number")
    }
    fn opt_num(&mut self) -> Option<u128> {
        let s = self.next();
        if s == "-" {
            None
        } else {
            Some(s.parse::<u128>().expect("harness: bad number"))
        }
    }
    fn addr(&mut self) -> String {
        let n = self.num();
        addr_s(n)
    }
    fn opt_addr(&mut self) -> Option<String> {
        self.opt_num().map(addr_s)
    }
    fn opt_dec(&mut self) -> Option<Decimal> {
        self.opt_num().map(|a| Decimal::new(Uint128::from(a)))
    }
    fn asset(&mut self) -> AssetInfo {
        let s = self.next();
        let (k, v) = s.split_once(':').expect("harness: bad asset");
        let v = v.parse::<u128>().expect("harness: bad asset id");
        match k {
            "n" => AssetInfo::NativeToken { denom: denom_s(v) },
            "t" => AssetInfo::Token {
                contract_addr: addr_s(v),
            },
            // the same contract address written in upper case: not the normalised spelling of any account
            "T" => AssetInfo::Token {
                contract_addr: addr_s(v).to_uppercase(),
            },
            _ => panic!("harness: bad asset kind"),
        }
    }
    fn coins(&mut self) -> Vec<Coin> {
        let k = self.num();
        (0..k)
            .map(|_| {
                let d = self.num();
                let a = self.num();
                coin(a, denom_s(d))
            })
            .collect()
    }
    fn ops(&mut self) -> Vec<SwapOperation> {
        let k = self.num();
        (0..k)
            .map(|_| {
                let o = self.asset();
                let a = self.asset();
                SwapOperation::HaloSwap {
                    offer_asset_info: o,
                    ask_asset_info: a,
                }
            })
            .collect()
    }
    /// hook message as the binary payload of a Cw20 Send / Receive
    fn hook(&mut self) -> Binary {
        match self.next() {
            "hswap" => {
                let info = self.asset();
                let amount = self.num();
                let bp = self.opt_dec();
                let ms = self.opt_dec();
                let to = self.opt_addr();
                // hook payloads are written at the WIRE level (the JSON documents wallets and front-ends send), not built
                // from the crate's own message types: a change of the wire spelling must not be invisible to the driver
                wire(serde_json::json!({"swap": {
                    "offer_asset": {"info": ai_json(&info), "amount": amount.to_string()},
                    "belief_price": bp.map(|d| d.to_string()),
                    "max_spread": ms.map(|d| d.to_string()),
                    "to": to,
                }}))
            }
            "hwithdraw" => Binary::from(b"{\"withdraw_liquidity\":{}}".to_vec()),
            "hrouter" => {
                let operations = self.ops();
                let m = self.opt_num();
                let to = self.opt_addr();
                let ops_json: Vec<serde_json::Value> = operations
                    .iter()
                    .map(|o| match o {
                        SwapOperation::HaloSwap {
                            offer_asset_info,
                            ask_asset_info,
                        } => serde_json::json!({"halo_swap": {
                            "offer_asset_info": ai_json(offer_asset_info),
                            "ask_asset_info": ai_json(ask_asset_info),
                        }}),
                    })
                    .collect();
                wire(serde_json::json!({"execute_swap_operations": {
                    "operations": ops_json,
                    "minimum_receive": m.map(|v| v.to_string()),
                    "to": to,
                }}))
            }
            "hgarbage" => Binary::from(b"{\"nonsense\":{}}".to_vec()),
            // payloads that are well-formed messages of the RECEIVING contract's execute interface but not hook
            // messages (to the model: garbage): the router's internal single hop / minimum-receive assertion, the
            // pair's own execute-swap and the factory-only decimals update
            "hraw_rop" => {
                let o = self.asset();
                let a = self.asset();
                let to = self.opt_addr();
                to_binary(&RouterExecuteMsg::ExecuteSwapOperation {
                    operation: SwapOperation::HaloSwap {
                        offer_asset_info: o,
                        ask_asset_info: a,
                    },
                    to,
                })
                .unwrap()
            }
            "hraw_rassert" => {
                let a = self.asset();
                let prev = self.num();
                let min = self.num();
                let rcv = self.addr();
                to_binary(&RouterExecuteMsg::AssertMinimumReceive {
                    asset_info: a,
                    prev_balance: prev.into(),
                    minimum_receive: min.into(),
                    receiver: rcv,
                })
                .unwrap()
            }
            // a complete Receive ENVELOPE of the pair's execute interface, written by the caller, as the payload of the real
            // one: envelope sender, envelope amount, then a swap hook (asset, amount, to) - garbage to the model
            "hraw_precv" => {
                let snd = self.addr();
                let amt = self.num();
                let o = self.asset();
                let n = self.num();
                let to = self.opt_addr();
                let inner = to_binary(&PairHook::Swap {
                    offer_asset: Asset {
                        info: o,
                        amount: n.into(),
                    },
                    belief_price: None,
                    max_spread: None,
                    to,
                })
                .unwrap();
                to_binary(&PairExecuteMsg::Receive(cw20::Cw20ReceiveMsg {
                    sender: snd,
                    amount: amt.into(),
                    msg: inner,
                }))
                .unwrap()
            }
            "hraw_pdec" => {
                let d = self.num();
                let a = self.num();
                let b = self.num();
                to_binary(&PairExecuteMsg::UpdateNativeTokenDecimals {
                    denom: denom_s(d),
                    asset_decimals: [a as u8, b as u8],
                })
                .unwrap()
            }
            _ => panic!("harness: bad hook"),
        }
    }
}

fn ai_json(a: &AssetInfo) -> serde_json::Value {
    match a {
        AssetInfo::NativeToken { denom } => serde_json::json!({"native_token": {"denom": denom}}),
        AssetInfo::Token { contract_addr } => serde_json::json!({"token": {"contract_addr": contract_addr}}),
    }
}
fn wire(v: serde_json::Value) -> Binary {
    Binary::from(serde_json::to_vec(&v).unwrap())
}

struct World {
    app: App,
    nu: u128,
    nd: u128,
    nt: u128,
    maxp: u128,
    prev: Vec<u128>,
}

impl World {
    fn n_init(&self) -> u128 {
        2 + self.nt
    }
    fn n_contracts(&self) -> u128 {
        self.n_init() + 2 * self.maxp
    }
    fn accounts(&self) -> Vec<u128> {
        (0..self.nu)
            .map(|i| 1000 + i)
            .chain(0..self.n_contracts())
            .collect()
    }
    fn pair_ids(&self) -> Vec<u128> {
        (0..self.maxp).map(|i| self.n_init() + 2 * i).collect()
    }
    fn token_ids(&self) -> Vec<u128> {
        (0..self.nt)
            .map(|i| 2 + i)
            .chain((0..self.maxp).map(|i| self.n_init() + 2 * i + 1))
            .collect()
    }
    fn bank(&self, a: u128, d: u128) -> u128 {
        self.app
            .wrap()
            .query_balance(addr_s(a), denom_s(d))
            .map(|c| c.amount.u128())
            .unwrap_or(0)
    }
    fn token_info(&self, t: u128) -> Option<TokenInfoResponse> {
        self.app
            .wrap()
            .query_wasm_smart(addr_s(t), &Cw20QueryMsg::TokenInfo {})
            .ok()
    }
    fn asset_code(a: &AssetInfo) -> (u128, u128) {
        match a {
            AssetInfo::NativeToken { denom } => (
                0,
                denom_id(denom)
                    .expect("harness: foreign denom"),
            ),
            AssetInfo::Token { contract_addr } => (1, addr_id(contract_addr)),
        }
    }
    fn wl_comb(wl: &[Addr]) -> u128 {
        wl.iter()
            .enumerate()
            .map(|(i, a)| (i as u128 + 1) * addr_id(a.as_str()))
            .sum()
    }

    fn snapshot(&self) -> Vec<u128> {
        let mut s = vec![];
        let accounts = self.accounts();
        for &a in &accounts {
            for d in 0..self.nd {
                s.push(self.bank(a, d));
            }
        }
        let toks = self.token_ids();
        for &t in &toks {
            match self.token_info(t) {
                None => {
                    s.extend(std::iter::repeat(0).take(4 + accounts.len()));
                }
                Some(ti) => {
                    let minter: Option<MinterResponse> = self
                        .app
                        .wrap()
                        .query_wasm_smart(addr_s(t), &Cw20QueryMsg::Minter {})
                        .unwrap();
                    s.push(1);
                    s.push(ti.total_supply.u128());
                    s.push(ti.decimals as u128);
                    if ROGUE_T.load(std::sync::atomic::Ordering::SeqCst) as u128 == t {
                        s.push(1000 + 1); // by convention: the minter the model knows (user0), see "rogue"
                    } else {
                        s.push(minter.map(|m| addr_id(&m.minter) + 1).unwrap_or(0));
                    }
                    for &a in &accounts {
                        let b: BalanceResponse = self
                            .app
                            .wrap()
                            .query_wasm_smart(addr_s(t), &Cw20QueryMsg::Balance { address: addr_s(a) })
                            .unwrap();
                        s.push(b.balance.u128());
                    }
                }
            }
        }
        let pairs = self.pair_ids();
        for &t in &toks {
            let exists = self.token_info(t).is_some();
            for i in 0..self.nu {
                for &p in &pairs {
                    if !exists {
                        s.push(0);
                        continue;
                    }
                    // an allowance entry exists iff it shows up in AllAllowances; Allowance{} alone
                    // cannot tell "no entry" from "entry of 0"
                    let all: cw20::AllAllowancesResponse = self
                        .app
                        .wrap()
                        .query_wasm_smart(
                            addr_s(t),
                            &Cw20QueryMsg::AllAllowances {
                                owner: addr_s(1000 + i),
                                start_after: None,
                                limit: Some(30),
                            },
                        )
                        .unwrap();
                    let e = all.allowances.iter().find(|a| a.spender == addr_s(p));
                    s.push(e.map(|a| a.allowance.u128() + 1).unwrap_or(0));
                }
            }
        }
        let cfg: ConfigResponse = self
            .app
            .wrap()
            .query_wasm_smart(addr_s(0), &FactoryQueryMsg::Config {})
            .unwrap();
        s.push(addr_id(&cfg.owner));
        for d in 0..self.nd {
            let r: Result<NativeTokenDecimalsResponse, _> = self
                .app
                .wrap()
                .query_wasm_smart(addr_s(0), &FactoryQueryMsg::NativeTokenDecimals { denom: denom_s(d) });
            s.push(r.map(|x| x.decimals as u128 + 1).unwrap_or(0));
        }
        for &p in &pairs {
            let pi: Result<PairInfo, _> = self
                .app
                .wrap()
                .query_wasm_smart(addr_s(p), &PairQueryMsg::Pair {});
            match pi {
                Err(_) => s.extend(std::iter::repeat(0).take(36)),
                Ok(pi) => {
                    s.push(1);
                    for a in pi.asset_infos.iter() {
                        let (k, v) = Self::asset_code(a);
                        s.push(k);
                        s.push(v);
                    }
                    s.push(pi.asset_decimals[0] as u128);
                    s.push(pi.asset_decimals[1] as u128);
                    s.push(addr_id(&pi.liquidity_token));
                    s.push(pi.requirements.first_asset_minimum.u128());
                    s.push(pi.requirements.second_asset_minimum.u128());
                    s.push(crate::util::u256(&pi.commission_rate.0.to_string()).low_u128_checked());
                    s.push(pi.requirements.whitelist.len() as u128);
                    s.push(Self::wl_comb(&pi.requirements.whitelist));
                    let rec: Result<PairInfo, _> = self.app.wrap().query_wasm_smart(
                        addr_s(0),
                        &FactoryQueryMsg::Pair {
                            asset_infos: pi.asset_infos.clone(),
                        },
                    );
                    match rec {
                        Err(_) => s.extend(std::iter::repeat(0).take(14)),
                        Ok(r) => {
                            s.push(1);
                            s.push(addr_id(&r.contract_addr));
                            s.push(addr_id(&r.liquidity_token));
                            for a in r.asset_infos.iter() {
                                let (k, v) = Self::asset_code(a);
                                s.push(k);
                                s.push(v);
                            }
                            s.push(r.asset_decimals[0] as u128);
                            s.push(r.asset_decimals[1] as u128);
                            s.push(r.requirements.first_asset_minimum.u128());
                            s.push(r.requirements.second_asset_minimum.u128());
                            s.push(crate::util::u256(&r.commission_rate.0.to_string()).low_u128_checked());
                            s.push(r.requirements.whitelist.len() as u128);
                            s.push(Self::wl_comb(&r.requirements.whitelist));
                        }
                    }
                    // the same lookup with the two assets in the other order
                    let rev: Result<PairInfo, _> = self.app.wrap().query_wasm_smart(
                        addr_s(0),
                        &FactoryQueryMsg::Pair {
                            asset_infos: [pi.asset_infos[1].clone(), pi.asset_infos[0].clone()],
                        },
                    );
                    match rev {
                        Err(_) => s.extend(std::iter::repeat(0).take(8)),
                        Ok(r) => {
                            s.push(1);
                            s.push(addr_id(&r.contract_addr));
                            for a in r.asset_infos.iter() {
                                let (k, v) = Self::asset_code(a);
                                s.push(k);
                                s.push(v);
                            }
                            s.push(r.asset_decimals[0] as u128);
                            s.push(r.asset_decimals[1] as u128);
                        }
                    }
                    // which USERS the pair's whitelist names, as a bit mask over user indices
                    let mut mask = 0u128;
                    for a in pi.requirements.whitelist.iter() {
                        let id = addr_id(a.as_str());
                        if id >= 1000 && id < 1000 + 120 {
                            mask |= 1u128 << (id - 1000);
                        }
                    }
                    s.push(mask);
                }
            }
        }
        // number of contracts instantiated so far = next address
        let mut n = 0u128;
        while self
            .app
            .wrap()
            .query_wasm_contract_info(addr_s(n))
            .is_ok()
        {
            n += 1;
        }
        s.push(n);
        s
    }
}

trait LowChecked {
    fn low_u128_checked(&self) -> u128;
}
impl LowChecked for bigint::U256 {
    fn low_u128_checked(&self) -> u128 {
        let bigint::U256(ref a) = *self;
        if a[2] != 0 || a[3] != 0 {
            panic!("harness: commission rate does not fit 128 bits");
        }
        ((a[1] as u128) << 64) + a[0] as u128
    }
}

fn swap_extras(res: &AppResponse) -> Vec<u128> {
    let mut out = vec![];
    for ev in res.events.iter() {
        if ev.ty != "wasm" {
            continue;
        }
        let is_swap = ev
            .attributes
            .iter()
            .any(|a| a.key == "action" && a.value == "swap");
        if !is_swap {
            continue;
        }
        for key in ["offer_amount", "return_amount", "spread_amount", "commission_amount"] {
            let v = ev
                .attributes
                .iter()
                .find(|a| a.key == key)
                .map(|a| a.value.parse::<u128>().unwrap_or(0))
                .unwrap_or(0);
            out.push(v);
        }
    }
    out
}

fn exec(w: &mut World, c: &mut Cur) -> Result<AppResponse, String> {
    let kind = c.next();
    let app = &mut w.app;
    let e = |r: anyhow::Result<AppResponse>| r.map_err(|e| format!("{:#}", e));
    match kind {
        // the chain moves on: n blocks, 5 seconds each.  Not an operation of any contract: reported as a refused call (nothing
        // changes), the model sees a rejected router-internal message in its place
        "block" => {
            let n = c.num() as u64;
            app.update_block(|b| {
                b.height += n;
                b.time = b.time.plus_seconds(5 * n);
            });
            Err("block advanced".to_string())
        }
        "bank" => {
            let from = c.addr();
            let to = c.addr();
            let coins = c.coins();
            e(xbank(app, &from, &to, &coins))
        }
        "transfer" => {
            let ta = c.addr();
            let from = c.addr();
            let to = c.addr();
            let n = c.num();
            e(xc(
                app,
                &from,
                &ta,
                &Cw20ExecuteMsg::Transfer {
                    recipient: to,
                    amount: n.into(),
                },
                &[],
            ))
        }
        "transfer_from" => {
            let ta = c.addr();
            let sp = c.addr();
            let ow = c.addr();
            let to = c.addr();
            let n = c.num();
            e(xc(
                app,
                &sp,
                &ta,
                &Cw20ExecuteMsg::TransferFrom {
                    owner: ow,
                    recipient: to,
                    amount: n.into(),
                },
                &[],
            ))
        }
        "incr_allow" => {
            let ta = c.addr();
            let ow = c.addr();
            let sp = c.addr();
            let n = c.num();
            e(xc(
                app,
                &ow,
                &ta,
                &Cw20ExecuteMsg::IncreaseAllowance {
                    spender: sp,
                    amount: n.into(),
                    expires: None,
                },
                &[],
            ))
        }
        "mint" => {
            let ta = c.addr();
            let s = c.addr();
            let to = c.addr();
            let n = c.num();
            e(xc(
                app,
                &s,
                &ta,
                &Cw20ExecuteMsg::Mint {
                    recipient: to,
                    amount: n.into(),
                },
                &[],
            ))
        }
        "burn" => {
            let ta = c.addr();
            let s = c.addr();
            let n = c.num();
            e(xc(
                app,
                &s,
                &ta,
                &Cw20ExecuteMsg::Burn { amount: n.into() },
                &[],
            ))
        }
        "send" => {
            let ta = c.addr();
            let s = c.addr();
            let target = c.addr();
            let n = c.num();
            let msg = c.hook();
            e(xc(
                app,
                &s,
                &ta,
                &Cw20ExecuteMsg::Send {
                    contract: target,
                    amount: n.into(),
                    msg,
                },
                &[],
            ))
        }
        "send_from" => {
            let ta = c.addr();
            let sp = c.addr();
            let ow = c.addr();
            let target = c.addr();
            let n = c.num();
            let msg = c.hook();
            e(xc(
                app,
                &sp,
                &ta,
                &Cw20ExecuteMsg::SendFrom {
                    owner: ow,
                    contract: target,
                    amount: n.into(),
                    msg,
                },
                &[],
            ))
        }
        "burn_from" => {
            let ta = c.addr();
            let sp = c.addr();
            let ow = c.addr();
            let n = c.num();
            e(xc(
                app,
                &sp,
                &ta,
                &Cw20ExecuteMsg::BurnFrom {
                    owner: ow,
                    amount: n.into(),
                },
                &[],
            ))
        }
        "decr_allow" => {
            let ta = c.addr();
            let ow = c.addr();
            let sp = c.addr();
            let n = c.num();
            e(xc(
                app,
                &ow,
                &ta,
                &Cw20ExecuteMsg::DecreaseAllowance {
                    spender: sp,
                    amount: n.into(),
                    expires: None,
                },
                &[],
            ))
        }
        "provide" => {
            let p = c.addr();
            let caller = c.addr();
            let funds = c.coins();
            let l0 = c.asset();
            let n0 = c.num();
            let l1 = c.asset();
            let n1 = c.num();
            let tol = c.opt_dec();
            let receiver = c.opt_addr();
            e(xc(
                app,
                &caller,
                &p,
                &PairExecuteMsg::ProvideLiquidity {
                    assets: [
                        Asset {
                            info: l0,
                            amount: n0.into(),
                        },
                        Asset {
                            info: l1,
                            amount: n1.into(),
                        },
                    ],
                    slippage_tolerance: tol,
                    receiver,
                },
                &funds,
            ))
        }
        "swap" => {
            let p = c.addr();
            let caller = c.addr();
            let funds = c.coins();
            let info = c.asset();
            let amount = c.num();
            let bp = c.opt_dec();
            let ms = c.opt_dec();
            let to = c.opt_addr();
            e(xc(
                app,
                &caller,
                &p,
                &PairExecuteMsg::Swap {
                    offer_asset: Asset {
                        info,
                        amount: amount.into(),
                    },
                    belief_price: bp,
                    max_spread: ms,
                    to,
                },
                &funds,
            ))
        }
        "pair_receive" => {
            let p = c.addr();
            let caller = c.addr();
            let funds = c.coins();
            let cs = c.addr();
            let ca = c.num();
            let msg = c.hook();
            e(xc(
                app,
                &caller,
                &p,
                &PairExecuteMsg::Receive(cw20::Cw20ReceiveMsg {
                    sender: cs,
                    amount: ca.into(),
                    msg,
                }),
                &funds,
            ))
        }
        "pair_upd_dec" => {
            let p = c.addr();
            let caller = c.addr();
            let dn = c.num();
            let d0 = c.num() as u8;
            let d1 = c.num() as u8;
            e(xc(
                app,
                &caller,
                &p,
                &PairExecuteMsg::UpdateNativeTokenDecimals {
                    denom: denom_s(dn),
                    asset_decimals: [d0, d1],
                },
                &[],
            ))
        }
        "router_ops" => {
            let caller = c.addr();
            let funds = c.coins();
            let operations = c.ops();
            let m = c.opt_num();
            let to = c.opt_addr();
            e(xc(
                app,
                &caller,
                &addr_s(1),
                &RouterExecuteMsg::ExecuteSwapOperations {
                    operations,
                    minimum_receive: m.map(Uint128::from),
                    to,
                },
                &funds,
            ))
        }
        "router_op" => {
            let caller = c.addr();
            let funds = c.coins();
            let o = c.asset();
            let a = c.asset();
            let to = c.opt_addr();
            e(xc(
                app,
                &caller,
                &addr_s(1),
                &RouterExecuteMsg::ExecuteSwapOperation {
                    operation: SwapOperation::HaloSwap {
                        offer_asset_info: o,
                        ask_asset_info: a,
                    },
                    to,
                },
                &funds,
            ))
        }
        "router_assert_min" => {
            let caller = c.addr();
            let target = c.asset();
            let prev = c.num();
            let m = c.num();
            let receiver = c.addr();
            e(xc(
                app,
                &caller,
                &addr_s(1),
                &RouterExecuteMsg::AssertMinimumReceive {
                    asset_info: target,
                    prev_balance: prev.into(),
                    minimum_receive: m.into(),
                    receiver,
                },
                &[],
            ))
        }
        "router_receive" => {
            let caller = c.addr();
            let cs = c.addr();
            let ca = c.num();
            let msg = c.hook();
            e(xc(
                app,
                &caller,
                &addr_s(1),
                &RouterExecuteMsg::Receive(cw20::Cw20ReceiveMsg {
                    sender: cs,
                    amount: ca.into(),
                    msg,
                }),
                &[],
            ))
        }
        "fac_update_config" => {
            let caller = c.addr();
            let owner = c.opt_addr();
            // optional shape: bit 0 names the token code id, bit 1 the pair code id, both at their
            // current values, so the modelled part of the factory's state moves exactly as without them;
            // bit 2 / bit 3 point the factory at the OTHER stored copy of the same token / pair code
            let shape = if c.more() { c.num() } else { 0 };
            let other = |id: u64| match id {
                2 => 5,
                5 => 2,
                3 => 6,
                6 => 3,
                x => x,
            };
            let cfg: haloswap::factory::ConfigResponse = app
                .wrap()
                .query_wasm_smart(addr_s(0), &FactoryQueryMsg::Config {})
                .expect("harness: factory config query");
            e(xc(
                app,
                &caller,
                &addr_s(0),
                &FactoryExecuteMsg::UpdateConfig {
                    owner,
                    token_code_id: if shape & 4 != 0 {
                        Some(other(cfg.token_code_id))
                    } else if shape & 1 != 0 {
                        Some(cfg.token_code_id)
                    } else {
                        None
                    },
                    pair_code_id: if shape & 8 != 0 {
                        Some(other(cfg.pair_code_id))
                    } else if shape & 2 != 0 {
                        Some(cfg.pair_code_id)
                    } else {
                        None
                    },
                },
                &[],
            ))
        }
        "fac_create_pair" => {
            let caller = c.addr();
            let a0 = c.asset();
            let a1 = c.asset();
            let nwl = c.num();
            let whitelist: Vec<Addr> = (0..nwl).map(|_| Addr::unchecked(c.addr())).collect();
            let min0 = c.num();
            let min1 = c.num();
            let comm = c.opt_num();
            let lpdec = c.opt_num();
            e(xc(
                app,
                &caller,
                &addr_s(0),
                &FactoryExecuteMsg::CreatePair {
                    asset_infos: [a0, a1],
                    requirements: CreatePairRequirements {
                        whitelist,
                        first_asset_minimum: min0.into(),
                        second_asset_minimum: min1.into(),
                    },
                    commission_rate: comm.map(|a| bignumber::Decimal256(bigint::U256::from_dec_str(&a.to_string()).unwrap())),
                    lp_token_info: LPTokenInfo {
                        // display names are free text (cw20-base asks for 3..50 bytes): every other pair is created with a name
                        // that is three spaces, the others with an ordinary one; the contracts do nothing with the name - unless
                        // a change makes them (C20-agent21: echoed into a response attribute, which the runtime refuses when blank)
                        lp_token_name: if CREATE_COUNT.fetch_add(1, std::sync::atomic::Ordering::SeqCst) % 2 == 1 {
                            "   ".to_string()
                        } else {
                            "halo-lp".to_string()
                        },
                        lp_token_symbol: "HALOLP".to_string(),
                        lp_token_decimals: lpdec.map(|d| d as u8),
                    },
                },
                &[],
            ))
        }
        "fac_add_native" => {
            let caller = c.addr();
            let dn = c.num();
            let k = c.num() as u8;
            e(xc(
                app,
                &caller,
                &addr_s(0),
                &FactoryExecuteMsg::AddNativeTokenDecimals {
                    denom: denom_s(dn),
                    decimals: k,
                },
                &[],
            ))
        }
        "fac_migrate" => {
            let caller = c.addr();
            let contract = c.addr();
            // optional selector: 0 no code id, 1 the factory's current pair code id, 2 the other stored copy
            let sel = if c.more() { c.num() } else { 0 };
            let cfg: haloswap::factory::ConfigResponse = app
                .wrap()
                .query_wasm_smart(addr_s(0), &FactoryQueryMsg::Config {})
                .expect("harness: factory config query");
            let code_id = match sel {
                0 => None,
                1 => Some(cfg.pair_code_id),
                _ => Some(if cfg.pair_code_id == 2 { 5 } else { 2 }),
            };
            e(xc(
                app,
                &caller,
                &addr_s(0),
                &FactoryExecuteMsg::MigratePair {
                    contract,
                    code_id,
                },
                &[],
            ))
        }
        _ => panic!("harness: unknown world op"),
    }
}

fn query(w: &World, c: &mut Cur) -> Result<Vec<u128>, String> {
    let q = w.app.wrap();
    match c.next() {
        "sim" => {
            let p = c.addr();
            let info = c.asset();
            let amount = c.num();
            let r: SimulationResponse = q
                .query(&QueryRequest::Wasm(WasmQuery::Smart {
                    contract_addr: p,
                    msg: to_binary(&PairQueryMsg::Simulation {
                        offer_asset: Asset {
                            info,
                            amount: amount.into(),
                        },
                    })
                    .unwrap(),
                }))
                .map_err(|e| e.to_string())?;
            Ok(vec![
                r.return_amount.u128(),
                r.spread_amount.u128(),
                r.commission_amount.u128(),
            ])
        }
        "revsim" => {
            let p = c.addr();
            let info = c.asset();
            let amount = c.num();
            let r: ReverseSimulationResponse = q
                .query(&QueryRequest::Wasm(WasmQuery::Smart {
                    contract_addr: p,
                    msg: to_binary(&PairQueryMsg::ReverseSimulation {
                        ask_asset: Asset {
                            info,
                            amount: amount.into(),
                        },
                    })
                    .unwrap(),
                }))
                .map_err(|e| e.to_string())?;
            Ok(vec![
                r.offer_amount.u128(),
                r.spread_amount.u128(),
                r.commission_amount.u128(),
            ])
        }
        "rsim" => {
            let amount = c.num();
            let operations = c.ops();
            let r: SimulateSwapOperationsResponse = q
                .query_wasm_smart(
                    addr_s(1),
                    &RouterQueryMsg::SimulateSwapOperations {
                        offer_amount: amount.into(),
                        operations,
                    },
                )
                .map_err(|e| e.to_string())?;
            Ok(vec![r.amount.u128()])
        }
        "rrevsim" => {
            let amount = c.num();
            let operations = c.ops();
            let r: SimulateSwapOperationsResponse = q
                .query_wasm_smart(
                    addr_s(1),
                    &RouterQueryMsg::ReverseSimulateSwapOperations {
                        ask_amount: amount.into(),
                        operations,
                    },
                )
                .map_err(|e| e.to_string())?;
            Ok(vec![r.amount.u128()])
        }
        // walk the factory's pair listing the way a client does (continue after the last pair returned) with the given page
        // size; answer: the pair contracts visited, in ascending address order (duplicates kept)
        "walk" => {
            let limit: Option<u32> = c.opt_num().map(|x| x as u32);
            let mut seen: Vec<u128> = vec![];
            let mut cursor: Option<[AssetInfo; 2]> = None;
            let mut pages = 0;
            loop {
                let r: haloswap::factory::PairsResponse = q
                    .query_wasm_smart(
                        addr_s(0),
                        &FactoryQueryMsg::Pairs {
                            start_after: cursor.clone(),
                            limit,
                        },
                    )
                    .map_err(|e| e.to_string())?;
                if r.pairs.is_empty() {
                    break;
                }
                for p in r.pairs.iter() {
                    seen.push(addr_id(&p.contract_addr));
                }
                cursor = Some(r.pairs.last().unwrap().asset_infos.clone());
                pages += 1;
                if pages > 400 {
                    return Err("the walk does not end".to_string());
                }
            }
            seen.sort();
            Ok(seen)
        }
        _ => panic!("harness: unknown query"),
    }
}

fn init(c: &mut Cur) -> World {
    let nu = c.num();
    let nd = c.num();
    let nt = c.num();
    let maxp = c.num();
    let ubal = c.num();
    let fbal = c.num();
    let tdec: Vec<u128> = (0..nt).map(|_| c.num()).collect();
    {
        use std::sync::atomic::Ordering::SeqCst;
        N_USERS.store(nu as u64, SeqCst);
        N_TOKENS.store(nt as u64, SeqCst);
        if N_PROXIES.load(SeqCst) as u128 >= nu {
            panic!("harness: more proxies than users (user 0 owns the factory and must be a plain account)");
        }
    }
    let mut app = App::default();
    app.init_modules(|router, _, storage| {
        for i in 0..nu {
            let coins: Vec<Coin> = (0..nd).map(|d| coin(ubal, denom_s(d))).collect();
            if !coins.is_empty() && ubal > 0 {
                router
                    .bank
                    .init_balance(storage, &Addr::unchecked(addr_s(1000 + i)), coins)
                    .unwrap();
            }
        }
        let coins: Vec<Coin> = (0..nd).map(|d| coin(fbal, denom_s(d))).collect();
        if !coins.is_empty() && fbal > 0 {
            router
                .bank
                .init_balance(storage, &Addr::unchecked(addr_s(0)), coins)
                .unwrap();
        }
    });
    let factory_code = app.store_code(factory_contract());
    let pair_code = app.store_code(pair_contract());
    let token_code = app.store_code(token_contract());
    let router_code = app.store_code(router_contract());
    // second copies of the pair and LP-token code under other code ids: the same behaviour, so the model (which has no
    // code ids) stays exact when the factory is pointed at them or a pair is migrated to them
    let pair_code2 = app.store_code(pair_contract());
    let token_code2 = app.store_code(token_contract());
    assert_eq!((pair_code, token_code, pair_code2, token_code2), (2, 3, 5, 6));
    let ns_token_code = app.store_code(namespaced_token_contract());
    let owner = Addr::unchecked(addr_s(1000));
    let f = app
        .instantiate_contract(
            factory_code,
            owner.clone(),
            &FactoryInstantiateMsg {
                pair_code_id: pair_code,
                token_code_id: token_code,
            },
            &[],
            "factory",
            // the factory has a chain-level (wasm) admin who is NOT its owner: the last user.  The contracts never ask who
            // that is, so nothing depends on it - unless a change makes them (C14-agent18)
            if nu >= 2 { Some(addr_s(1000 + nu - 1)) } else { None },
        )
        .unwrap();
    assert_eq!(f.as_str(), "contract0");
    let r = app
        .instantiate_contract(
            router_code,
            owner.clone(),
            &RouterInstantiateMsg {
                halo_factory: f.to_string(),
            },
            &[],
            "router",
            None,
        )
        .unwrap();
    assert_eq!(r.as_str(), "contract1");
    for (i, d) in tdec.iter().enumerate() {
        // the last of several asset tokens is the namespaced cw20
        let code = if i + 1 == tdec.len() && tdec.len() >= 2 {
            ns_token_code
        } else {
            token_code
        };
        let t = app
            .instantiate_contract(
                code,
                owner.clone(),
                &cw20_base::msg::InstantiateMsg {
                    name: format!("token{}", i),
                    symbol: "TOK".to_string(),
                    decimals: *d as u8,
                    initial_balances: (0..nu)
                        .filter(|_| ubal > 0)
                        .map(|u| Cw20Coin {
                            address: addr_s(1000 + u),
                            amount: ubal.into(),
                        })
                        .collect(),
                    mint: Some(MinterResponse {
                        minter: if ROGUE_T.load(std::sync::atomic::Ordering::SeqCst) == 2 + i as u64 {
                            addr_s(ROGUE_P.load(std::sync::atomic::Ordering::SeqCst) as u128)
                        } else {
                            owner.to_string()
                        },
                        cap: None,
                    }),
                    marketing: None,
                },
                &[],
                "token",
                None,
            )
            .unwrap();
        assert_eq!(t.as_str(), format!("contract{}", 2 + i));
    }
    // the proxy contracts, right after the asset tokens (see addr_s)
    let n_proxies = layout3().0;
    if n_proxies > 0 {
        let proxy_code = app.store_code(proxy_contract());
        for j in 0..n_proxies {
            let pa = app
                .instantiate_contract(proxy_code, Addr::unchecked("operator"), &Empty {}, &[], "proxy", None)
                .unwrap();
            assert_eq!(pa.as_str(), addr_s(1000 + (nu - n_proxies) + j));
        }
    }
    let mut w = World {
        app,
        nu,
        nd,
        nt,
        maxp,
        prev: vec![],
    };
    w.prev = w.snapshot();
    w
}

fn join(v: &[u128]) -> String {
    v.iter().map(|x| x.to_string()).collect::<Vec<_>>().join(" ")
}

pub fn serve() {
    let stdin = io::stdin();
    let stdout = io::stdout();
    let mut out = stdout.lock();
    let mut world: Option<World> = None;
    for line in stdin.lock().lines() {
        let line = line.expect("read");
        let line = line.trim().to_string();
        if line.is_empty() {
            continue;
        }
        let toks: Vec<&str> = line.split_whitespace().collect();
        let mut c = Cur { t: toks, i: 0 };
        let resp = match c.next() {
            "tfdenom" => {
                use std::sync::atomic::Ordering::SeqCst;
                TF_D.store(c.num() as u64, SeqCst);
                TF_U.store(c.num() as u64, SeqCst);
                "ok".to_string()
            }
            "proxies" => {
                use std::sync::atomic::Ordering::SeqCst;
                N_PROXIES.store(c.num() as u64, SeqCst);
                "ok".to_string()
            }
            "rogue" => {
                use std::sync::atomic::Ordering::SeqCst;
                ROGUE_T.store(c.num() as u64, SeqCst);
                ROGUE_P.store(c.num() as u64, SeqCst);
                "ok".to_string()
            }
            "lookalike" => {
                use std::sync::atomic::Ordering::SeqCst;
                LOOK_D.store(c.num() as u64, SeqCst);
                LOOK_T.store(c.num() as u64, SeqCst);
                "ok".to_string()
            }
            "init" => {
                let w = init(&mut c);
                let s = format!("ok {}", join(&w.prev));
                world = Some(w);
                s
            }
            "op" => {
                let w = world.as_mut().expect("harness: no world");
                let r = catch_unwind(AssertUnwindSafe(|| exec(w, &mut c)));
                let (okflag, extras) = match r {
                    Ok(Ok(res)) => ("ok", swap_extras(&res)),
                    // a refused transaction reports the class of its error text (1 the pair's max-spread assertion, 2 its
                    // max-slippage assertion, 0 anything else), so that "rejected by this guard" can be told from other refusals
                    Ok(Err(msg)) => (
                        {
                            if std::env::var("HT_TRACE").is_ok() {
                                eprintln!("refused: {}", msg);
                            }
                            "fail"
                        },
                        vec![if msg.contains("Max spread assertion") {
                            1
                        } else if msg.contains("Max slippage assertion") {
                            2
                        } else {
                            0
                        }],
                    ),
                    Err(p) => {
                        let msg = if let Some(s) = p.downcast_ref::<&str>() {
                            s.to_string()
                        } else if let Some(s) = p.downcast_ref::<String>() {
                            s.clone()
                        } else {
                            String::new()
                        };
                        if msg.starts_with("harness:") {
                            writeln!(out, "BAD {}", msg).unwrap();
                            out.flush().unwrap();
                            continue;
                        }
                        ("fail", vec![])
                    }
                };
                let snap = w.snapshot();
                let mut delta = vec![];
                for (i, (a, b)) in w.prev.iter().zip(snap.iter()).enumerate() {
                    if a != b {
                        delta.push(i as u128);
                        delta.push(*b);
                    }
                }
                w.prev = snap;
                format!(
                    "{} {} {} {} {}",
                    okflag,
                    extras.len(),
                    join(&extras),
                    delta.len() / 2,
                    join(&delta)
                )
            }
            "q" => {
                let w = world.as_ref().expect("harness: no world");
                match catch_unwind(AssertUnwindSafe(|| query(w, &mut c))) {
                    Ok(Ok(v)) => format!("ok {}", join(&v)),
                    Ok(Err(_)) => "fail".to_string(),
                    Err(_) => "fail".to_string(),
                }
            }
            "snap" => {
                let w = world.as_ref().expect("harness: no world");
                format!("ok {}", join(&w.snapshot()))
            }
            _ => "BAD unknown command".to_string(),
        };
        writeln!(out, "{}", resp).unwrap();
        out.flush().unwrap();
    }
}
