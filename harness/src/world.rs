//! World-level family: the real contracts inside cw-multi-test.
pub fn serve() {
    println!("BAD world not built yet");
}
