(* The escape-aware JSON string decoder (Num/Text.v: unescape, json_decode_esc) reads every spelling of a
   text - each byte written plainly or as the escape \u00XY - as that text; hence every spelling of a numeral
   the library writes is read back as the number (C18). *)
From HT Require Import Base.Prelude Num.Arith Num.Text Proofs.NumProofs Proofs.TextProofs.

(* a byte that may appear literally inside a JSON string: printable ASCII other than the double quote and the backslash *)
Definition plain_byte (b : N) : bool := (32 <=? b) && (b <? 128) && negb (b =? QUOTE) && negb (b =? BACKSLASH).

Lemma plain_byte_spec (b : N) : plain_byte b = true -> 32 <= b /\ b < 128 /\ b <> 34 /\ b <> 92.
Proof. unfold plain_byte, QUOTE, BACKSLASH. intros H. lia. Qed.

(* ------------------------------------------------------------------ *)
(* hex digits                                                          *)
(* ------------------------------------------------------------------ *)

Lemma hexv_hexdigit (k : N) : k < 16 -> hexv (hexdigit k) = Some k.
Proof.
  intros Hk. unfold hexv, hexdigit. destruct (k <? 10) eqn:E.
  - apply N.ltb_lt in E.
    assert (H1 : (48 <=? 48 + k) && (48 + k <=? 57) = true) by (clear - E; lia).
    rewrite H1. f_equal. clear. lia.
  - apply N.ltb_ge in E.
    assert (H1 : (48 <=? 87 + k) && (87 + k <=? 57) = false) by (clear - E; lia).
    assert (H2 : (97 <=? 87 + k) && (87 + k <=? 102) = true) by (clear - E Hk; lia).
    rewrite H1, H2. f_equal. clear. lia.
Qed.

(* ------------------------------------------------------------------ *)
(* one step of unescape                                                *)
(* ------------------------------------------------------------------ *)

Lemma unescape_plain_cons (b : N) (rest : str) : plain_byte b = true ->
  unescape (b :: rest) = match unescape rest with Ok t => Ok (b :: t) | Err x => Err x end.
Proof.
  intros Hb. apply plain_byte_spec in Hb.
  assert (H1 : (b =? BACKSLASH) = false) by (unfold BACKSLASH; clear - Hb; lia).
  assert (H2 : (b =? QUOTE) || (b <? 32) = false) by (unfold QUOTE; clear - Hb; lia).
  cbn [unescape]. rewrite H1, H2. reflexivity.
Qed.

Lemma unescape_u (h1 h2 h3 h4 : N) (rest : str) :
  unescape (BACKSLASH :: 117 :: h1 :: h2 :: h3 :: h4 :: rest) =
  match hexv h1, hexv h2, hexv h3, hexv h4 with
  | Some a, Some b, Some c', Some d =>
      match unescape rest with
      | Ok t => Ok (code_point_byte (((a * 16 + b) * 16 + c') * 16 + d) :: t)
      | Err x => Err x
      end
  | _, _, _, _ => Err EStd
  end.
Proof. reflexivity. Qed.

Lemma unescape_esc_byte (b : N) (rest : str) : plain_byte b = true ->
  unescape (esc_byte b ++ rest) = match unescape rest with Ok t => Ok (b :: t) | Err x => Err x end.
Proof.
  intros Hb. apply plain_byte_spec in Hb.
  unfold esc_byte. cbn [app]. rewrite unescape_u.
  change (hexv 48) with (Some 0).
  rewrite (hexv_hexdigit (b / 16)) by (clear - Hb; lia).
  rewrite (hexv_hexdigit (b mod 16)) by (clear; lia).
  cbv iota beta.
  assert (Hcp : ((0 * 16 + 0) * 16 + b / 16) * 16 + b mod 16 = b) by (clear; lia).
  rewrite Hcp. unfold code_point_byte.
  assert (Hlt : (b <? 128) = true) by (clear - Hb; lia).
  rewrite Hlt. reflexivity.
Qed.

(* ------------------------------------------------------------------ *)
(* unescape on plain texts and on spellings                            *)
(* ------------------------------------------------------------------ *)

Theorem unescape_plain : forall s, forallb plain_byte s = true -> unescape s = Ok s.
Proof.
  induction s as [|b s IH]; intros Hs.
  - reflexivity.
  - cbn [forallb] in Hs. apply andb_true_iff in Hs. destruct Hs as [Hb Hs].
    rewrite (unescape_plain_cons b s Hb), (IH Hs). reflexivity.
Qed.

Lemma spell_cons (b : N) (e : bool) (l : list (N * bool)) :
  spell ((b, e) :: l) = (if e then esc_byte b else [b]) ++ spell l.
Proof. reflexivity. Qed.

Theorem unescape_spelling : forall l,
  forallb (fun be : N * bool => plain_byte (fst be)) l = true ->
  unescape (spell l) = Ok (map fst l).
Proof.
  induction l as [|[b e] l IH]; intros Hl.
  - reflexivity.
  - cbn [forallb fst] in Hl. apply andb_true_iff in Hl. destruct Hl as [Hb Hl].
    rewrite spell_cons. cbn [map fst]. destruct e.
    + rewrite (unescape_esc_byte b (spell l) Hb), (IH Hl). reflexivity.
    + cbn [app]. rewrite (unescape_plain_cons b (spell l) Hb), (IH Hl). reflexivity.
Qed.

(* ------------------------------------------------------------------ *)
(* the quoted document                                                 *)
(* ------------------------------------------------------------------ *)

Lemma json_decode_esc_quoted (body : str) :
  json_decode_esc ([QUOTE] ++ body ++ [QUOTE]) = unescape body.
Proof.
  unfold json_decode_esc. cbn [app]. rewrite rev_unit.
  change (QUOTE =? QUOTE) with true. cbn [andb]. rewrite rev_involutive. reflexivity.
Qed.

Theorem json_decode_esc_spelling : forall l,
  forallb (fun be : N * bool => plain_byte (fst be)) l = true ->
  json_decode_esc ([QUOTE] ++ spell l ++ [QUOTE]) = Ok (map fst l).
Proof. intros l Hl. rewrite json_decode_esc_quoted. apply unescape_spelling. exact Hl. Qed.

(* every spelling of a numeral is read as the numeral's plain spelling is *)
Theorem uint_json_spelling_invariant : forall l,
  forallb (fun be : N * bool => plain_byte (fst be)) l = true ->
  uint_of_json_esc ([QUOTE] ++ spell l ++ [QUOTE]) = from_dec_str (map fst l).
Proof. intros l Hl. unfold uint_of_json_esc. rewrite (json_decode_esc_spelling l Hl). reflexivity. Qed.

Theorem dec_json_spelling_invariant : forall l,
  forallb (fun be : N * bool => plain_byte (fst be)) l = true ->
  dec_of_json_esc ([QUOTE] ++ spell l ++ [QUOTE]) = dec_from_str (map fst l).
Proof. intros l Hl. unfold dec_of_json_esc. rewrite (json_decode_esc_spelling l Hl). reflexivity. Qed.

(* ------------------------------------------------------------------ *)
(* what the library writes is plain                                    *)
(* ------------------------------------------------------------------ *)

Lemma text_plain_byte (b : N) : is_text b = true -> plain_byte b = true.
Proof.
  unfold is_text, is_digit, DOT, plain_byte, QUOTE, BACKSLASH. intros H. lia.
Qed.

Lemma text_plain (s : str) : forallb is_text s = true -> forallb plain_byte s = true.
Proof.
  intros H. apply forallb_forall. intros x Hx. apply text_plain_byte.
  exact (proj1 (forallb_forall _ _) H x Hx).
Qed.

Lemma render_plain (n : N) : forallb plain_byte (render n) = true.
Proof. destruct (render_canonical n) as (H1 & _). apply text_plain, digits_text, H1. Qed.

Lemma dec_render_plain (v : N) : forallb plain_byte (dec_render v) = true.
Proof. apply text_plain, dec_render_text. Qed.

(* the escape-aware decoder agrees with the old one on the documents the library writes *)
Lemma json_esc_roundtrip_str (s : str) : forallb is_text s = true -> json_decode_esc (json_encode s) = Ok s.
Proof.
  intros Hs. unfold json_encode. rewrite json_decode_esc_quoted. apply unescape_plain, text_plain, Hs.
Qed.

Lemma json_esc_agrees_str (s : str) : forallb is_text s = true ->
  json_decode_esc (json_encode s) = json_decode (json_encode s).
Proof. intros Hs. rewrite (json_esc_roundtrip_str s Hs), (json_roundtrip_str s Hs). reflexivity. Qed.

(* round trips through the escape-aware decoder, for what the library writes and for any re-spelling of it *)
Theorem json_esc_roundtrip_uint : forall n, n < W256 -> uint_of_json_esc (uint_to_json n) = Ok n.
Proof.
  intros n Hn. unfold uint_of_json_esc, uint_to_json.
  destruct (render_canonical n) as (H1 & _).
  rewrite (json_esc_roundtrip_str _ (digits_text _ H1)). cbn [bind]. apply render_roundtrip. exact Hn.
Qed.

Theorem json_esc_roundtrip_dec : forall v, v < W256 -> dec_of_json_esc (dec_to_json v) = Ok v.
Proof.
  intros v Hv. unfold dec_of_json_esc, dec_to_json.
  rewrite (json_esc_roundtrip_str _ (dec_render_text v)). cbn [bind]. apply dec_render_roundtrip. exact Hv.
Qed.

(* ------------------------------------------------------------------ *)
(* re-spellings                                                        *)
(* ------------------------------------------------------------------ *)

Lemma map_fst_combine_le (s : str) : forall m : list bool,
  (length s <= length m)%nat -> map fst (combine s m) = s.
Proof.
  induction s as [|b s IH]; intros m Hm.
  - reflexivity.
  - destruct m as [|e m]; cbn [length] in Hm; [lia|].
    cbn [combine map fst]. rewrite (IH m) by lia. reflexivity.
Qed.

Lemma map_fst_respell (s : str) (mask : list bool) :
  map fst (combine s (mask ++ repeat false (length s))) = s.
Proof.
  apply map_fst_combine_le. rewrite app_length, repeat_length. lia.
Qed.

Lemma forallb_fst (f : N -> bool) (l : list (N * bool)) :
  forallb (fun be : N * bool => f (fst be)) l = forallb f (map fst l).
Proof.
  induction l as [|x l IH]; cbn [forallb map]; [reflexivity|]. rewrite IH. reflexivity.
Qed.

Lemma respell_plain (s : str) (mask : list bool) : forallb plain_byte s = true ->
  forallb (fun be : N * bool => plain_byte (fst be)) (combine s (mask ++ repeat false (length s))) = true.
Proof. intros Hs. rewrite forallb_fst, map_fst_respell. exact Hs. Qed.

Theorem json_esc_roundtrip_uint_respelled : forall n (mask : list bool), n < W256 ->
  uint_of_json_esc ([QUOTE] ++ spell (combine (render n) (mask ++ repeat false (length (render n)))) ++ [QUOTE]) = Ok n.
Proof.
  intros n mask Hn.
  rewrite (uint_json_spelling_invariant _ (respell_plain _ mask (render_plain n))).
  rewrite map_fst_respell. apply render_roundtrip. exact Hn.
Qed.

Theorem json_esc_roundtrip_dec_respelled : forall v (mask : list bool), v < W256 ->
  dec_of_json_esc ([QUOTE] ++ spell (combine (dec_render v) (mask ++ repeat false (length (dec_render v)))) ++ [QUOTE]) = Ok v.
Proof.
  intros v mask Hv.
  rewrite (dec_json_spelling_invariant _ (respell_plain _ mask (dec_render_plain v))).
  rewrite map_fst_respell. apply dec_render_roundtrip. exact Hv.
Qed.

(* ------------------------------------------------------------------ *)
(* concrete documents                                                  *)
(* ------------------------------------------------------------------ *)

(* "0.003" reads as "0.003"; "12" reads as 12; "1\u003", "1\x31" and "1\" are malformed *)
Example json_spelling_example :
  dec_of_json_esc [34; 48; 92; 117; 48; 48; 50; 101; 48; 48; 51; 34] = Ok 3000000000000000 /\
  dec_of_json_esc [34; 48; 92; 117; 48; 48; 50; 101; 48; 48; 51; 34] = dec_of_json_esc [34; 48; 46; 48; 48; 51; 34] /\
  uint_of_json_esc [34; 92; 117; 48; 48; 51; 49; 92; 117; 48; 48; 51; 50; 34] = Ok 12 /\
  uint_of_json_esc [34; 49; 50; 34] = Ok 12 /\
  is_ok (uint_of_json_esc [34; 49; 92; 117; 48; 48; 51; 34]) = false /\
  is_ok (uint_of_json_esc [34; 49; 92; 120; 51; 49; 34]) = false /\
  is_ok (uint_of_json_esc [34; 49; 92; 34]) = false /\
  is_ok (dec_of_json_esc [34; 49; 92; 117; 48; 48; 51; 34]) = false /\
  is_ok (dec_of_json_esc [34; 49; 92; 120; 51; 49; 34]) = false /\
  is_ok (dec_of_json_esc [34; 49; 92; 34]) = false /\
  json_decode_esc [34; 49; 92; 117; 48; 48; 51; 34] = Err EStd /\
  json_decode_esc [34; 49; 92; 120; 51; 49; 34] = Err EStd /\
  json_decode_esc [34; 49; 92; 34] = Err EStd.
Proof. vm_compute. repeat split. Qed.

Print Assumptions unescape_plain.
Print Assumptions unescape_spelling.
Print Assumptions json_decode_esc_spelling.
Print Assumptions uint_json_spelling_invariant.
Print Assumptions dec_json_spelling_invariant.
Print Assumptions json_esc_roundtrip_uint.
Print Assumptions json_esc_roundtrip_dec.
Print Assumptions json_esc_roundtrip_uint_respelled.
Print Assumptions json_esc_roundtrip_dec_respelled.
Print Assumptions json_spelling_example.
