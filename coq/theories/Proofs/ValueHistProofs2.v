(* C03 over histories, the strong form: over any history of user operations none of whose swaps falls in the
   recorded class [kf_c01], the value of every pair never decreases.  Built on the machinery of ValueHistProofs.v. *)
From HT Require Import Base.Prelude Num.Arith Amm.Formulas Amm.Guards Amm.Known World.World World.Observe
  Proofs.NumProofs Proofs.ValueProofs Proofs.ValueLinks Proofs.LedgerProofs Proofs.SystemPoolProofs Proofs.FrameProofs
  Proofs.LivenessProofs Proofs.WFProofs Proofs.ConserveProofs Proofs.ReachProofs Proofs.SolventProofs Proofs.LockedProofs
  Proofs.TxEffectProofs Proofs.InitProofs Proofs.ValueHistProofs.

(* ------------------------------------------------------------------------------------ *)
(* 1. clean operations                                                                   *)
(* ------------------------------------------------------------------------------------ *)
(* evaluated in the world the operation is applied to: the operation cannot swap, or it is a direct swap (either
   entry point) whose inputs are outside the recorded class.  The last disjunct is the general-funds form of
   [exec_direct_swap_value_funds]: the condition is taken on the reserves after the attached funds arrive. *)
Definition clean_op (w : world) (o : op) : Prop :=
  swapless o = true \/
  (exists p' ps' c d amount bp ms to, o = OSwap p' c [(d, amount)] (ANative d) amount bp ms to /\ w_pairs w p' = Some ps' /\
     kf_c01 (bal w (ANative d) p') (bal w (if asset_eqb (ANative d) (p_a0 ps') then p_a1 ps' else p_a0 ps') p')
            amount (p_comm ps') = false) \/
  (exists ta sender p' ps' n offer amount bp ms to, o = OSend ta sender p' n (HSwap offer amount bp ms to) /\
     w_pairs w p' = Some ps' /\
     kf_c01 (bal w offer p') (bal w (if asset_eqb offer (p_a0 ps') then p_a1 ps' else p_a0 ps') p')
            amount (p_comm ps') = false) \/
  (exists p' ps' c funds offer amount bp ms to, o = OSwap p' c funds offer amount bp ms to /\ w_pairs w p' = Some ps' /\
     forall w1, move_funds w c p' funds = Ok w1 ->
       kf_c01 (bal w1 offer p' - amount) (bal w1 (if asset_eqb offer (p_a0 ps') then p_a1 ps' else p_a0 ps') p')
              amount (p_comm ps') = false).

(* a history is clean when every operation that SUCCEEDS is clean in the world it is applied to; rejected calls
   need no condition (they change nothing) *)
Fixpoint cl_ops (Cl : world -> op -> Prop) (w : world) (ops : list op) : Prop :=
  match ops with
  | [] => True
  | o :: rest => (forall w', exec w o = Ok w' -> Cl w o) /\ cl_ops Cl (step w o) rest
  end.
Definition clean_ops : world -> list op -> Prop := cl_ops clean_op.

(* the condition exactly as first proposed (every operation, succeeding or not) implies it *)
Fixpoint clean_ops_strict (w : world) (ops : list op) : Prop :=
  match ops with [] => True | o :: rest => clean_op w o /\ clean_ops_strict (step w o) rest end.
Lemma clean_ops_of_strict ops : forall w, clean_ops_strict w ops -> clean_ops w ops.
Proof.
  induction ops as [|o ops IH]; intros w H; [exact I|]. destruct H as (H1 & H2).
  split; [intros w' _; exact H1|apply IH; exact H2].
Qed.

(* ------------------------------------------------------------------------------------ *)
(* 2. one clean transaction                                                              *)
(* ------------------------------------------------------------------------------------ *)
Theorem exec_clean_value : forall w o w' p ps,
  WF w -> Solvent w -> Inert' w -> ~ is_contract w (caller_of o) -> clean_op w o ->
  exec w o = Ok w' -> w_pairs w p = Some ps -> 0 < supply w (p_lp ps) ->
  path false (pool_at w p ps) (pool_at w' p ps).
Proof.
  intros w o w' p ps HW HS HI Hc Hcl H Hp Hpos.
  destruct Hcl as [Hs|[(p' & ps' & c & d & amount & bp & ms & to & -> & Hp' & Hk)|
                      [(ta & sender & p' & ps' & n & offer & amount & bp & ms & to & -> & Hp' & Hk)|
                       (p' & ps' & c & funds & offer & amount & bp & ms & to & -> & Hp' & Hk)]]].
  - exact (exec_swapless_value w o w' p ps HW HS HI Hc Hs H Hp Hpos).
  - cbn [caller_of] in Hc.
    exact (exec_direct_swap_value_variant w p' ps' c d amount bp ms to w' p ps HW HS HI Hc Hp' Hk H Hp Hpos).
  - cbn [caller_of] in Hc.
    exact (exec_hook_swap_value w ta sender p' ps' n offer amount bp ms to w' p ps HW HS HI Hc Hp' Hk H Hp Hpos).
  - cbn [caller_of] in Hc.
    exact (exec_direct_swap_value_funds w p' ps' c funds offer amount bp ms to w' p ps HW HS HI Hc Hp' Hk H Hp Hpos).
Qed.

(* ------------------------------------------------------------------------------------ *)
(* 3. histories: a generic induction                                                     *)
(* ------------------------------------------------------------------------------------ *)
(* [Ex] is an extra invariant of worlds (trivial below, "the router is not a pair" in section 4) *)
Lemma run_path_false_gen (Cl : world -> op -> Prop) (Ex : world -> Prop) :
  (forall w o w', WF w -> Inert' w -> Ex w -> ~ is_contract w (caller_of o) -> exec w o = Ok w' -> Ex w') ->
  (forall w o w' p ps, WF w -> Solvent w -> Inert' w -> Ex w -> ~ is_contract w (caller_of o) -> Cl w o ->
     exec w o = Ok w' -> w_pairs w p = Some ps -> 0 < supply w (p_lp ps) ->
     path false (pool_at w p ps) (pool_at w' p ps)) ->
  forall ops w p ps, WF w -> Solvent w -> Inert' w -> Ex w -> user_ops w ops -> w_next (run w ops) <= 1000 ->
    cl_ops Cl w ops -> w_pairs w p = Some ps -> 0 < supply w (p_lp ps) ->
    path false (pool_at w p ps) (pool_at (run w ops) p ps).
Proof.
  intros HEx Hstep. induction ops as [|o ops IH]; intros w p ps HW HS HI HE Hu Hb Hcl Hp Hpos.
  - apply path_nil.
  - change (run w (o :: ops)) with (run (step w o) ops) in *.
    cbn [user_ops] in Hu. destruct Hu as (Hc & Hu).
    cbn [cl_ops] in Hcl. destruct Hcl as (Hcl1 & Hcl).
    assert (Hb1 : w_next (step w o) <= 1000).
    { eapply N.le_trans; [apply run_next_mono|exact Hb]. }
    pose proof (step_room _ _ Hb1) as Hroom.
    unfold step in *. destruct (exec w o) as [w1|e] eqn:E.
    + destruct Hroom as [Hroom|Hsame].
      2:{ subst w1. exact (IH w p ps HW HS HI HE Hu Hb Hcl Hp Hpos). }
      assert (HW1 : WF w1) by (exact (exec_preserves_WF w o w1 HW E)).
      assert (HS1 : Solvent w1) by (exact (exec_preserves_Solvent w o w1 HW HS E)).
      assert (HI1 : Inert' w1) by (exact (exec_preserves_Inert_variant w o w1 HW HI Hc Hroom E)).
      assert (HE1 : Ex w1) by (exact (HEx w o w1 HW HI HE Hc E)).
      destruct (exec_pair_sim _ _ _ _ _ HW E Hp) as (ps1 & Hp1 & Hsim).
      pose proof (Hstep w o w1 p ps HW HS HI HE Hc (Hcl1 w1 eq_refl) E Hp Hpos) as X.
      assert (Hpos1 : 0 < supply w1 (p_lp ps1)).
      { pose proof (path_supply_pos _ _ _ X Hpos) as Q.
        destruct Hsim as (_ & _ & El & _). rewrite El. exact Q. }
      pose proof (IH w1 p ps1 HW1 HS1 HI1 HE1 Hu Hb Hcl Hp1 Hpos1) as Y.
      rewrite !(pool_at_sim _ _ _ _ Hsim) in Y.
      exact (path_app false false _ _ _ X Y).
    + exact (IH w p ps HW HS HI HE Hu Hb Hcl Hp Hpos).
Qed.

Theorem run_clean_path : forall ops w p ps,
  WF w -> Solvent w -> Inert' w -> user_ops w ops -> w_next (run w ops) <= 1000 -> clean_ops w ops ->
  w_pairs w p = Some ps -> 0 < supply w (p_lp ps) ->
  path false (pool_at w p ps) (pool_at (run w ops) p ps).
Proof.
  intros ops w p ps HW HS HI Hu Hb Hcl Hp Hpos.
  apply (run_path_false_gen clean_op (fun _ => True)); try assumption; [intros; exact I| |exact I].
  intros w0 o w' p0 ps0 HW0 HS0 HI0 _. apply exec_clean_value; assumption.
Qed.

(* over ANY history of user operations consisting of provisions, withdrawals, transfers, mints, burns, donations,
   factory operations, rejected calls and direct swaps (either entry point) none of which falls in the recorded
   class, the value of every pair never decreases *)
Theorem run_clean_value : forall ops w p ps,
  WF w -> Solvent w -> Inert' w -> user_ops w ops -> w_next (run w ops) <= 1000 -> clean_ops w ops ->
  w_pairs w p = Some ps -> 0 < supply w (p_lp ps) ->
  value_le (pool_at w p ps) (pool_at (run w ops) p ps) /\ 0 < supply (run w ops) (p_lp ps).
Proof.
  intros ops w p ps HW HS HI Hu Hb Hcl Hp Hpos.
  apply (path_false_value (pool_at w p ps) (pool_at (run w ops) p ps)); [|exact Hpos].
  apply run_clean_path; assumption.
Qed.

(* ------------------------------------------------------------------------------------ *)
(* 4. routes                                                                             *)
(* ------------------------------------------------------------------------------------ *)
(* one hop, in the world it starts from: the pair found for (offer, ask), the router's whole balance of the offer as
   amount, that pair's reserves at that moment *)
Definition hop_clean (w : world) (offer ask : asset) : Prop :=
  match reg_find (w_reg w) offer ask with
  | Some r =>
      match w_pairs w (f_pair r) with
      | Some ps' =>
          kf_c01 (bal w offer (f_pair r))
                 (bal w (if asset_eqb offer (p_a0 ps') then p_a1 ps' else p_a0 ps') (f_pair r))
                 (bal w offer (w_rtr w)) (p_comm ps') = false
      | None => True
      end
  | None => True
  end.
(* mirrors [router_hops]: every hop is judged in the world the previous hops produced *)
Fixpoint hops_clean (w : world) (ops : list (asset * asset)) : Prop :=
  match ops with
  | [] => True
  | [(o, a)] => hop_clean w o a
  | (o, a) :: rest =>
      hop_clean w o a /\ match router_hop w o a None with Ok w1 => hops_clean w1 rest | Err _ => True end
  end.

Lemma hops_clean_cons2 w q q2 rest :
  hops_clean w (q :: q2 :: rest) =
  (hop_clean w (fst q) (snd q) /\
   match router_hop w (fst q) (snd q) None with Ok w1 => hops_clean w1 (q2 :: rest) | Err _ => True end).
Proof. destruct q; reflexivity. Qed.

Definition clean_op_r (w : world) (o : op) : Prop :=
  clean_op w o \/
  (exists caller funds rops m to, o = ORouterOps caller funds rops m to /\
     forall w1, move_funds w caller (w_rtr w) funds = Ok w1 -> hops_clean w1 rops) \/
  (exists ta sender target n rops m to, o = OSend ta sender target n (HRouterOps rops m to) /\
     forall w1, with_token w ta (fun t => tok_transfer t sender target n) = Ok w1 -> hops_clean w1 rops) \/
  (exists caller cs ca rops m to, o = ORouterReceive caller cs ca (HRouterOps rops m to) /\ hops_clean w rops).
Definition clean_ops_r : world -> list op -> Prop := cl_ops clean_op_r.

Lemma clean_ops_r_of_clean ops : forall w, clean_ops w ops -> clean_ops_r w ops.
Proof.
  induction ops as [|o ops IH]; intros w H; [exact I|]. destruct H as (H1 & H2).
  split; [intros w' E; left; exact (H1 w' E)|apply IH; exact H2].
Qed.

Lemma router_hop_clean_path w offer ask to w' p ps :
  asset_eqb (p_a0 ps) (p_a1 ps) = false -> p_comm ps <= D ->
  Solvent w -> w_pairs w p = Some ps -> w_rtr w <> p -> hop_clean w offer ask ->
  router_hop w offer ask to = Ok w' -> path false (pool_at w p ps) (pool_at w' p ps).
Proof.
  intros H01 Hc HS Hp Hr Hcl H. apply router_hop_inv in H.
  destruct H as (r & ps' & w1 & funds & out & Er & Hp' & Hpay & Hs).
  unfold hop_clean in Hcl. rewrite Er, Hp' in Hcl.
  assert (Hps : f_pair r = p -> ps' = ps) by (intros E; rewrite E in Hp'; congruence).
  pose proof (pay_then_swap_path w w1 w' p ps (f_pair r) ps' funds (w_rtr w) offer (bal w offer (w_rtr w))
                None None to out H01 Hc HS Hr Hps Hpay Hs) as X.
  apply (pathx_cond _ _ _ _ X). intros E. rewrite (Hps E), E in Hcl. exact Hcl.
Qed.

Lemma router_hops_clean_path ops : forall w to w' p ps,
  asset_eqb (p_a0 ps) (p_a1 ps) = false -> p_comm ps <= D ->
  Solvent w -> w_pairs w p = Some ps -> w_rtr w <> p -> hops_clean w ops ->
  router_hops w ops to = Ok w' -> path false (pool_at w p ps) (pool_at w' p ps).
Proof.
  induction ops as [|q ops IH]; intros w to w' p ps H01 Hc HS Hp Hr Hcl H.
  - cbn [router_hops] in H. inversion H. apply path_nil.
  - destruct ops as [|q2 rest].
    + destruct q as [o a]. cbn [router_hops] in H. cbn [hops_clean] in Hcl.
      eapply router_hop_clean_path; eassumption.
    + rewrite router_hops_cons2 in H. bnd H w1 H1.
      rewrite hops_clean_cons2, H1 in Hcl. destruct Hcl as (Hcl1 & Hcl2).
      pose proof (router_hop_pres _ _ _ _ _ H1 HS) as HS1.
      pose proof (router_hop_both _ _ _ _ _ H1) as (_ & _ & Kr & Kp).
      apply (path_app false false _ (pool_at w1 p ps)).
      * eapply router_hop_clean_path; eassumption.
      * apply (IH w1 to w' p ps H01 Hc HS1); [rewrite Kp; exact Hp|rewrite Kr; exact Hr|exact Hcl2|exact H].
Qed.

Lemma router_exec_ops_clean_path w sender ops m to w' p ps :
  asset_eqb (p_a0 ps) (p_a1 ps) = false -> p_comm ps <= D ->
  Solvent w -> w_pairs w p = Some ps -> w_rtr w <> p -> hops_clean w ops ->
  router_exec_ops w sender ops m to = Ok w' -> path false (pool_at w p ps) (pool_at w' p ps).
Proof.
  intros H01 Hc HS Hp Hr Hcl H. unfold router_exec_ops in H. destruct ops as [|q ops]; [discriminate|].
  bnd H u Hu. cbv zeta in H.
  assert (Hh : exists w1, router_hops w (q :: ops) (match to with Some t => t | None => sender end) = Ok w1 /\ w' = w1).
  { destruct m as [m|].
    - bnd H prev Hpv. bnd H w1 H1. apply router_assert_min_same in H. eauto.
    - eauto. }
  destruct Hh as (w1 & Hh & ->). eapply router_hops_clean_path; eassumption.
Qed.

(* one clean transaction, routes included; the router must not be a pair (see ValueHistProofs.v) *)
Theorem exec_clean_value_router : forall w o w' p ps,
  WF w -> Solvent w -> Inert' w -> w_pairs w (w_rtr w) = None -> ~ is_contract w (caller_of o) -> clean_op_r w o ->
  exec w o = Ok w' -> w_pairs w p = Some ps -> 0 < supply w (p_lp ps) ->
  path false (pool_at w p ps) (pool_at w' p ps).
Proof.
  intros w o w' p ps HW HS HI Hrt Hc Hcl H Hp Hpos.
  destruct Hcl as [Hcl|Hcl]; [exact (exec_clean_value w o w' p ps HW HS HI Hc Hcl H Hp Hpos)|].
  destruct (WF_pair _ _ _ HW Hp) as (_ & _ & _ & _ & H01 & _ & _ & _ & Hcm & _).
  assert (Hpc : is_contract w p) by (right; right; left; rewrite Hp; discriminate).
  assert (Hpu : p <> caller_of o) by (intros E; apply Hc; rewrite <- E; exact Hpc).
  assert (Hrp : w_rtr w <> p) by (intros E; rewrite E in Hrt; congruence).
  destruct Hcl as [(caller & funds & rops & m & to & -> & Hcl)|
                   [(ta & sender & target & n & rops & m & to & -> & Hcl)|
                    (caller & cs & ca & rops & m & to & -> & Hcl)]]; cbn [caller_of] in Hpu.
  - cbn [exec] in H. bnd H w1 H1.
    pose proof (move_funds_keeps _ _ _ _ _ H1) as (_ & Kr & Kp).
    apply (path_app false false _ (pool_at w1 p ps)).
    + apply Don_path. exact (move_funds_Don p (p_lp ps) _ _ _ _ _ Hpu H1).
    + apply (router_exec_ops_clean_path w1 caller rops m to w' p ps H01 Hcm (move_funds_pres _ _ _ _ _ H1 HS));
        [rewrite Kp; exact Hp|rewrite Kr; exact Hrp|exact (Hcl w1 H1)|exact H].
  - cbn [exec] in H. unfold cw20_send in H. bnd H w1 H1.
    rewrite (with_token_pairs _ _ _ _ H1) in H.
    destruct (w_pairs w target) as [pst|]; [cbn [pair_receive] in H; discriminate|].
    destruct (target =? w_rtr w1); [|discriminate].
    pose proof (with_token_keeps _ _ _ _ H1) as (_ & Kr & Kp).
    apply (path_app false false _ (pool_at w1 p ps)).
    + apply Don_path. exact (transfer_Don p (p_lp ps) _ _ _ _ _ _ Hpu H1).
    + apply (router_exec_ops_clean_path w1 sender rops m to w' p ps H01 Hcm (tok_transfer_pres _ _ _ _ _ _ H1 HS));
        [rewrite Kp; exact Hp|rewrite Kr; exact Hrp|exact (Hcl w1 H1)|exact H].
  - cbn [exec] in H.
    exact (router_exec_ops_clean_path w cs rops m to w' p ps H01 Hcm HS Hp Hrp Hcl H).
Qed.

Theorem run_clean_path_router : forall ops w p ps,
  WF w -> Solvent w -> Inert' w -> w_pairs w (w_rtr w) = None -> user_ops w ops -> w_next (run w ops) <= 1000 ->
  clean_ops_r w ops -> w_pairs w p = Some ps -> 0 < supply w (p_lp ps) ->
  path false (pool_at w p ps) (pool_at (run w ops) p ps).
Proof.
  intros ops w p ps HW HS HI Hrt Hu Hb Hcl Hp Hpos.
  apply (run_path_false_gen clean_op_r (fun w => w_pairs w (w_rtr w) = None)); try assumption.
  - intros w0 o w' _ HI0 Hr0 Hc0 E. exact (exec_rtr_not_pair w0 o w' HI0 Hc0 Hr0 E).
  - intros w0 o w' p0 ps0. apply exec_clean_value_router.
Qed.

(* the value of every pair never decreases over any history of user operations, routes included, none of whose
   swaps (direct or as a hop of a route) falls in the recorded class *)
Theorem run_clean_value_router : forall ops w p ps,
  WF w -> Solvent w -> Inert' w -> w_pairs w (w_rtr w) = None -> user_ops w ops -> w_next (run w ops) <= 1000 ->
  clean_ops_r w ops -> w_pairs w p = Some ps -> 0 < supply w (p_lp ps) ->
  value_le (pool_at w p ps) (pool_at (run w ops) p ps) /\ 0 < supply (run w ops) (p_lp ps).
Proof.
  intros ops w p ps HW HS HI Hrt Hu Hb Hcl Hp Hpos.
  apply (path_false_value (pool_at w p ps) (pool_at (run w ops) p ps)); [|exact Hpos].
  apply run_clean_path_router; assumption.
Qed.

(* ------------------------------------------------------------------------------------ *)
(* 5. a concrete clean history with real swaps                                           *)
(* ------------------------------------------------------------------------------------ *)
(* from the world [ex_w] of ValueHistProofs.v (two funded pairs, reached from [init_world]): a native swap, a
   cw20-hook swap, a withdrawal, a rejected call, a burn of LP; and the same with a route through the router *)
Definition ex_clean : list op :=
  [ OSwap 5 1001 [(0, 5000)] (ANative 0) 5000 None None None;
    OSend 2 1001 5 700 (HSwap (AToken 2) 700 None None None);
    OSend 6 1000 5 1000 HWithdraw;
    OSwap 5 1002 [] (ANative 0) 5000 None None None;
    OBurn 6 1000 10 ].
Definition ex_clean_r : list op :=
  [ OSwap 5 1001 [(0, 5000)] (ANative 0) 5000 None None None;
    ORouterOps 1002 [(0, 300)] [(ANative 0, AToken 2)] None None;
    OSend 2 1001 5 700 (HSwap (AToken 2) 700 None None None);
    OSend 3 1002 1 400 (HRouterOps [(AToken 3, ANative 0); (ANative 0, AToken 2)] None None) ].

Lemma ex_clean_user : user_ops ex_w ex_clean.
Proof. unfold ex_clean. cbn [user_ops]. repeat split; not_contract. Qed.
Lemma ex_clean_r_user : user_ops ex_w ex_clean_r.
Proof. unfold ex_clean_r. cbn [user_ops]. repeat split; not_contract. Qed.

Lemma ex_clean_ops : clean_ops ex_w ex_clean.
Proof.
  unfold clean_ops, ex_clean. cbn [cl_ops]. repeat split; intros w' E.
  - right. left. eexists 5, _, 1001, 0, 5000, None, None, None. split; [reflexivity|].
    split; [vm_compute; reflexivity|vm_compute; reflexivity].
  - right. right. left. eexists 2, 1001, 5, _, 700, (AToken 2), 700, None, None, None. split; [reflexivity|].
    split; [vm_compute; reflexivity|vm_compute; reflexivity].
  - left. reflexivity.
  - vm_compute in E. discriminate E.
  - left. reflexivity.
Qed.

Example run_clean_value_example :
  exists ps, w_pairs ex_w 5 = Some ps /\
    pool_at ex_w 5 ps = (1000000, 1000000, 1000000) /\
    pool_at (run ex_w ex_clean) 5 ps = (1003292, 994744, 998990) /\
    value_le (pool_at ex_w 5 ps) (pool_at (run ex_w ex_clean) 5 ps) /\ 0 < supply (run ex_w ex_clean) (p_lp ps).
Proof.
  destruct ex_w_inv as (HW & HS & HI & Hr).
  destruct (w_pairs ex_w 5) as [ps|] eqn:Ep; [|vm_compute in Ep; discriminate Ep].
  exists ps. split; [reflexivity|].
  assert (Hpos : 0 < supply ex_w (p_lp ps)).
  { vm_compute in Ep. inversion Ep. vm_compute. reflexivity. }
  split; [vm_compute in Ep; inversion Ep; vm_compute; reflexivity|].
  split; [vm_compute in Ep; inversion Ep; vm_compute; reflexivity|].
  apply run_clean_value; try assumption.
  - exact ex_clean_user.
  - vm_compute. intros E. discriminate E.
  - exact ex_clean_ops.
Qed.

Lemma ex_clean_r_ops : clean_ops_r ex_w ex_clean_r.
Proof.
  unfold clean_ops_r, ex_clean_r. cbn [cl_ops]. repeat split; intros w' E.
  - left. right. left. eexists 5, _, 1001, 0, 5000, None, None, None. split; [reflexivity|].
    split; [vm_compute; reflexivity|vm_compute; reflexivity].
  - right. left. eexists 1002, _, _, None, None. split; [reflexivity|].
    intros w1 Hm. vm_compute in Hm. inversion Hm. subst w1. vm_compute. reflexivity.
  - left. right. right. left. eexists 2, 1001, 5, _, 700, (AToken 2), 700, None, None, None. split; [reflexivity|].
    split; [vm_compute; reflexivity|vm_compute; reflexivity].
  - right. right. left. eexists 3, 1002, 1, 400, _, None, None. split; [reflexivity|].
    intros w1 Hm. vm_compute in Hm. inversion Hm. subst w1. vm_compute. split; reflexivity.
Qed.

Example run_clean_value_router_example :
  exists ps, w_pairs ex_w 5 = Some ps /\
    value_le (pool_at ex_w 5 ps) (pool_at (run ex_w ex_clean_r) 5 ps) /\ 0 < supply (run ex_w ex_clean_r) (p_lp ps) /\
    pool_at (run ex_w ex_clean_r) 5 ps <> pool_at ex_w 5 ps.
Proof.
  destruct ex_w_inv as (HW & HS & HI & Hr).
  destruct (w_pairs ex_w 5) as [ps|] eqn:Ep; [|vm_compute in Ep; discriminate Ep].
  exists ps. split; [reflexivity|].
  assert (Hpos : 0 < supply ex_w (p_lp ps)).
  { vm_compute in Ep. inversion Ep. vm_compute. reflexivity. }
  assert (V : value_le (pool_at ex_w 5 ps) (pool_at (run ex_w ex_clean_r) 5 ps) /\
              0 < supply (run ex_w ex_clean_r) (p_lp ps)).
  { apply run_clean_value_router; try assumption.
    - exact ex_clean_r_user.
    - vm_compute. intros E. discriminate E.
    - exact ex_clean_r_ops. }
  destruct V as (V1 & V2). split; [exact V1|]. split; [exact V2|].
  vm_compute in Ep. inversion Ep. vm_compute. intros E. discriminate E.
Qed.

(* ------------------------------------------------------------------------------------ *)
(* 6. the allowance-spending entry points (SendFrom / BurnFrom / DecreaseAllowance)       *)
(* ------------------------------------------------------------------------------------ *)
(* They need no disjunct of their own in [clean_op]: SendFrom with a withdraw (or unusable) hook, BurnFrom and
   DecreaseAllowance are [swapless]; a SendFrom carrying a swap or router hook is not, so a history in which such an
   operation succeeds is simply not [clean] (its one-step form is [exec_hook_swap_from_value]).
   The LP holder 1000 lets user 1001 spend its LP of pair 5 (token 6): 1001 withdraws 1000 LP of 1000's (the proceeds
   go to 1001, the hook's sender), burns 10 more, 1000 revokes the rest (the entry is removed), and a further
   BurnFrom is rejected. *)
Definition ex_from : list op :=
  [ OIncreaseAllowance 6 1000 1001 5000;
    OSendFrom 6 1001 1000 5 1000 HWithdraw;
    OBurnFrom 6 1001 1000 10;
    ODecreaseAllowance 6 1000 1001 100000;
    OBurnFrom 6 1001 1000 1 ].

Lemma ex_from_user : user_ops ex_w ex_from.
Proof. unfold ex_from. cbn [user_ops]. repeat split; not_contract. Qed.

Lemma ex_from_clean : clean_ops ex_w ex_from.
Proof. unfold clean_ops, ex_from. cbn [cl_ops]. repeat split; intros w' E; left; reflexivity. Qed.

Example run_clean_value_from_example :
  exists ps, w_pairs ex_w 5 = Some ps /\
    pool_at ex_w 5 ps = (1000000, 1000000, 1000000) /\
    pool_at (run ex_w ex_from) 5 ps = (999000, 999000, 998990) /\
    (* the owner's LP is debited, the spender gets the proceeds, the allowance entry is gone *)
    bal (run ex_w ex_from) (AToken 6) 1000 + 1010 = bal ex_w (AToken 6) 1000 /\
    bal (run ex_w ex_from) (ANative 0) 1001 = bal ex_w (ANative 0) 1001 + 1000 /\
    bal (run ex_w ex_from) (AToken 2) 1001 = bal ex_w (AToken 2) 1001 + 1000 /\
    (exists tk, w_tokens (run ex_w ex_from) 6 = Some tk /\ t_allow tk 1000 1001 = None) /\
    value_le (pool_at ex_w 5 ps) (pool_at (run ex_w ex_from) 5 ps) /\ 0 < supply (run ex_w ex_from) (p_lp ps).
Proof.
  destruct ex_w_inv as (HW & HS & HI & Hr).
  destruct (w_pairs ex_w 5) as [ps|] eqn:Ep; [|vm_compute in Ep; discriminate Ep].
  exists ps. split; [reflexivity|].
  assert (Hpos : 0 < supply ex_w (p_lp ps)).
  { vm_compute in Ep. inversion Ep. vm_compute. reflexivity. }
  split; [vm_compute in Ep; inversion Ep; vm_compute; reflexivity|].
  split; [vm_compute in Ep; inversion Ep; vm_compute; reflexivity|].
  split; [vm_compute; reflexivity|]. split; [vm_compute; reflexivity|]. split; [vm_compute; reflexivity|].
  split.
  { destruct (w_tokens (run ex_w ex_from) 6) as [tk|] eqn:Et; [|vm_compute in Et; discriminate Et].
    exists tk. split; [reflexivity|]. vm_compute in Et. inversion Et. reflexivity. }
  apply run_clean_value; try assumption.
  - exact ex_from_user.
  - vm_compute. intros E. discriminate E.
  - exact ex_from_clean.
Qed.

Print Assumptions exec_clean_value.
Print Assumptions run_clean_path.
Print Assumptions run_clean_value.
Print Assumptions exec_clean_value_router.
Print Assumptions run_clean_path_router.
Print Assumptions run_clean_value_router.
Print Assumptions run_clean_value_example.
Print Assumptions run_clean_value_router_example.
Print Assumptions run_clean_value_from_example.
