(* C13, delivery half, for routes of ANY length: a chain route over distinct pairs and pairwise distinct
   assets, executed while the router holds only the input, delivers to the recipient exactly the amount
   the router's own simulation quotes in the same state, and leaves the router holding none of the
   route's assets.  Obtained by induction on the route from the one-hop description [router_hop_full]. *)
From HT Require Import Base.Prelude Num.Arith Amm.Formulas Amm.Guards World.World Proofs.LedgerProofs Proofs.RouterProofs Proofs.FrameProofs Proofs.RouteQuoteProofs.

(* a chain route a0 -> a1 -> ... -> an : consecutive hops share the intermediate asset *)
Fixpoint chain_from (a : asset) (ops : list (asset * asset)) : Prop :=
  match ops with
  | [] => True
  | (o, k) :: rest => o = a /\ chain_from k rest
  end.
(* every hop resolves, through the factory registry, to an existing pair that trades exactly its two assets,
   is not the router, is not the recipient, and has two different assets *)
Definition hop_ok (w : world) (rcv : addr) (o : asset * asset) (p : addr) : Prop :=
  exists r ps, reg_find (w_reg w) (fst o) (snd o) = Some r /\ f_pair r = p /\ w_pairs w p = Some ps /\
    asset_eqb (p_a0 ps) (p_a1 ps) = false /\ p <> w_rtr w /\ p <> rcv /\
    ((asset_eqb (fst o) (p_a0 ps) = true /\ asset_eqb (snd o) (p_a1 ps) = true) \/
     (asset_eqb (fst o) (p_a1 ps) = true /\ asset_eqb (snd o) (p_a0 ps) = true)).
(* the assets of the route, in order: a0, a1, ..., an *)
Definition route_assets (a0 : asset) (ops : list (asset * asset)) : list asset := a0 :: map snd ops.

(* ------------------------------------------------------------------------------------------ *)
(* list helpers                                                                                *)
(* ------------------------------------------------------------------------------------------ *)
Lemma forall2_of_nth {A B} (R : A -> B -> Prop) : forall (l1 : list A) (l2 : list B),
  length l2 = length l1 ->
  (forall i x y, nth_error l1 i = Some x -> nth_error l2 i = Some y -> R x y) ->
  Forall2 R l1 l2.
Proof.
  induction l1 as [|x l1 IH]; intros [|y l2] Hl Hn; cbn [length] in Hl; try discriminate.
  - constructor.
  - constructor.
    + apply (Hn 0%nat); reflexivity.
    + apply IH; [congruence|]. intros i x' y' H1 H2. apply (Hn (Datatypes.S i)); assumption.
Qed.

Lemma forall2_in_r {A B} (R : A -> B -> Prop) : forall l1 l2 y, Forall2 R l1 l2 -> In y l2 ->
  exists x, In x l1 /\ R x y.
Proof.
  intros l1 l2 y H. induction H as [|x0 y0 l1 l2 H0 H IH]; intros Hin; [contradiction|].
  destruct Hin as [->|Hin].
  - exists x0. split; [left; reflexivity | exact H0].
  - destruct (IH Hin) as (x & Hx & HR). exists x. split; [right; exact Hx | exact HR].
Qed.

Lemma last_default {A} (l : list A) d d' : l <> [] -> last l d = last l d'.
Proof.
  induction l as [|x l IH]; intros H; [contradiction|].
  destruct l as [|y l]; [reflexivity|].
  change (last (y :: l) d = last (y :: l) d'). apply IH. discriminate.
Qed.

Lemma last_in_map_snd {A B} (l : list (A * B)) d : l <> [] -> In (snd (last l d)) (map snd l).
Proof.
  induction l as [|x l IH]; intros H; [contradiction|].
  destruct l as [|y l]; [left; reflexivity|].
  change (In (snd (last (y :: l) d)) (snd x :: map snd (y :: l))). right. apply IH. discriminate.
Qed.

(* ------------------------------------------------------------------------------------------ *)
(* queries depend only on the configuration and on the balances they read                      *)
(* ------------------------------------------------------------------------------------------ *)
Lemma asset_balance_same w wc z a : same_config w wc -> bal wc z a = bal w z a ->
  asset_balance wc z a = asset_balance w z a.
Proof.
  intros C H. destruct z as [d|t]; cbn [asset_balance bal] in *; [rewrite H; reflexivity|].
  destruct C as (_ & _ & _ & _ & _ & _ & _ & _ & C9). specialize (C9 t).
  destruct (w_tokens w t), (w_tokens wc t); try contradiction; [rewrite H|]; reflexivity.
Qed.

Lemma q_simulation_same w wc p x amt : same_config w wc -> (forall z, bal wc z p = bal w z p) ->
  q_simulation wc p x amt = q_simulation w p x amt.
Proof.
  intros C H. unfold q_simulation. pose proof C as (K1 & _). rewrite K1.
  destruct (w_pairs w p) as [ps|]; [|reflexivity].
  rewrite (asset_balance_same w wc (p_a0 ps) p C (H _)), (asset_balance_same w wc (p_a1 ps) p C (H _)).
  reflexivity.
Qed.

(* ------------------------------------------------------------------------------------------ *)
(* one hop, executed in a later world [wc], described through the initial world [w]             *)
(* ------------------------------------------------------------------------------------------ *)
Lemma hop_step : forall w wc a k to w1 rcv p,
  router_hop wc a k to = Ok w1 ->
  same_config w wc ->
  hop_ok w rcv (a, k) p ->
  (match to with Some t => t | None => w_rtr w end) <> p ->
  (forall x, bal wc x p = bal w x p) ->
  exists ret,
    q_router_simulate w (bal wc a (w_rtr w)) [(a, k)] = Ok ret /\
    same_config w w1 /\
    asset_eqb a k = false /\
    (forall ad, bal w1 a ad =
       if ad =? w_rtr w then 0 else if ad =? p then bal wc a ad + bal wc a (w_rtr w) else bal wc a ad) /\
    (forall ad, bal w1 k ad =
       if ad =? p then bal wc k ad - ret
       else if ad =? (match to with Some t => t | None => w_rtr w end) then bal wc k ad + ret else bal wc k ad) /\
    (forall z ad, asset_eqb z a = false -> asset_eqb z k = false -> bal w1 z ad = bal wc z ad).
Proof.
  intros w wc a k to w1 rcv p H C (r & ps & Hr & Hp & Hps & Hne & Hprtr & Hprcv & Hdisj) Hdp Hbal.
  cbn [fst snd] in Hr, Hdisj.
  pose proof C as (K1 & _ & K3 & _ & _ & K6 & _).
  destruct (router_hop_structure _ _ _ _ _ H) as (r' & ps' & amount & _ & _ & Hb & _).
  assert (Hr' : reg_find (w_reg wc) a k = Some r) by (rewrite K6; exact Hr).
  assert (Hps' : w_pairs wc (f_pair r) = Some ps) by (rewrite K1, Hp; exact Hps).
  assert (Hprtr' : f_pair r <> w_rtr wc) by (rewrite K3, Hp; exact Hprtr).
  assert (Hdp' : (match to with Some t => t | None => w_rtr wc end) <> f_pair r) by (rewrite K3, Hp; exact Hdp).
  assert (Hoa : asset_eqb a k = false).
  { destruct Hdisj as [[E0 E1]|[E1 E0]]; apply LedgerProofs.asset_eqb_eq in E0, E1; subst a k;
      [exact Hne | rewrite asset_eqb_sym; exact Hne]. }
  destruct (router_hop_full _ _ _ _ _ _ _ _ H Hr' Hps' Hne Hb Hprtr' Hdp' Hoa Hdisj)
    as (ret & spread & comm & Hq & Ham & Hret & C1 & Bo & Ba & Bz).
  rewrite Hp in Hq, Bo, Ba. rewrite K3 in Ham, Bo, Ba. subst amount.
  exists ret.
  split.
  { rewrite q_router_simulate_step, Hr, Hp. rewrite <- (q_simulation_same w wc p a _ C Hbal), Hq. reflexivity. }
  split; [eapply same_config_trans; eassumption|].
  split; [exact Hoa|].
  split; [exact Bo|]. split; [exact Ba | exact Bz].
Qed.

(* ------------------------------------------------------------------------------------------ *)
(* the invariant, by induction on the route: [wc] is the current world, [w] the initial one     *)
(* ------------------------------------------------------------------------------------------ *)
Lemma route_inv : forall ops pairs w wc rcv a w',
  ops <> [] ->
  router_hops wc ops rcv = Ok w' ->
  chain_from a ops ->
  same_config w wc ->
  rcv <> w_rtr w ->
  Forall2 (hop_ok w rcv) ops pairs ->
  NoDup pairs ->
  NoDup (route_assets a ops) ->
  (forall p x, In p pairs -> bal wc x p = bal w x p) ->       (* pairs still to visit: reserves as in [w] *)
  (forall x, In x (map snd ops) -> bal wc x (w_rtr w) = 0) -> (* later route assets: none in the router *)
  exists q, q_router_simulate w (bal wc a (w_rtr w)) ops = Ok q /\
    bal w' (snd (last ops (a, a))) rcv = bal wc (snd (last ops (a, a))) rcv + q /\
    (forall x, In x (route_assets a ops) -> bal w' x (w_rtr w) = 0) /\
    (forall z ad, ~ In z (route_assets a ops) -> bal w' z ad = bal wc z ad).
Proof.
  induction ops as [|[o k] rest IH]; intros pairs w wc rcv a w' Hne H Hch C Hrr HF Hnp Hna Hres Hz;
    [contradiction|].
  destruct Hch as [-> Hch].
  inversion HF as [|x0 p l1 pairs' Hok HF' E1 E2]. subst x0 l1 pairs. clear HF.
  inversion Hnp as [|p0 l0 Hpnin Hnp' E]. subst p0 l0. clear Hnp.
  assert (Hprtr : p <> w_rtr w) by (destruct Hok as (? & ? & _ & _ & _ & _ & X & _); exact X).
  assert (Hprcv : p <> rcv) by (destruct Hok as (? & ? & _ & _ & _ & _ & _ & X & _); exact X).
  assert (Erp : (w_rtr w =? p) = false) by (apply N.eqb_neq; congruence).
  destruct rest as [|op2 rest'].
  - (* last hop: paid to the recipient *)
    cbn [router_hops] in H.
    assert (Hdp : (match Some rcv with Some t => t | None => w_rtr w end) <> p) by congruence.
    destruct (hop_step _ _ _ _ _ _ _ _ H C Hok Hdp (fun x => Hres p x (or_introl eq_refl)))
      as (ret & Hq & C1 & Hoa & Bo & Ba & Bz).
    assert (Ercp : (rcv =? p) = false) by (apply N.eqb_neq; congruence).
    assert (Errc : (w_rtr w =? rcv) = false) by (apply N.eqb_neq; congruence).
    exists ret. split; [exact Hq|]. cbn [last snd].
    split; [rewrite Ba, Ercp, N.eqb_refl; reflexivity|].
    split.
    + intros x Hx. unfold route_assets in Hx. cbn [map snd In] in Hx. destruct Hx as [<-|[<-|[]]].
      * rewrite Bo, N.eqb_refl. reflexivity.
      * rewrite Ba, Erp, Errc. apply Hz. left. reflexivity.
    + intros z ad Hzn. unfold route_assets in Hzn. cbn [map snd In] in Hzn.
      apply Bz; apply LedgerProofs.asset_eqb_neq; intros ->; apply Hzn; auto.
  - (* an intermediate hop: the output stays with the router *)
    set (R := op2 :: rest') in *.
    assert (HR : R <> []) by discriminate.
    unfold R in H. rewrite router_hops_cons2 in H. fold R in H. cbn [fst snd] in H. bnd H w1 H1.
    assert (Hdp : (match @None addr with Some t => t | None => w_rtr w end) <> p) by congruence.
    destruct (hop_step _ _ _ _ _ _ _ _ H1 C Hok Hdp (fun x => Hres p x (or_introl eq_refl)))
      as (ret & Hq & C1 & Hoa & Bo & Ba & Bz).
    cbn match in Ba.
    (* the route assets *)
    change (route_assets a ((a, k) :: R)) with (a :: route_assets k R) in *.
    inversion Hna as [|a' l' Hanin Hna' E]. subst a' l'. clear Hna.
    assert (Hknin : ~ In k (map snd R)).
    { unfold route_assets in Hna'. inversion Hna'. assumption. }
    assert (Hlater : forall x, In x (map snd R) -> asset_eqb x a = false /\ asset_eqb x k = false).
    { intros x Hx. split; apply LedgerProofs.asset_eqb_neq; intros ->.
      - apply Hanin. right. exact Hx.
      - apply Hknin. exact Hx. }
    (* the router's balance of the next offer asset is this hop's output *)
    assert (Hamt : bal w1 k (w_rtr w) = ret).
    { rewrite Ba, Erp, N.eqb_refl, (Hz k (or_introl eq_refl)). apply N.add_0_l. }
    (* the pairs still to visit are untouched *)
    assert (Hres1 : forall p' x, In p' pairs' -> bal w1 x p' = bal w x p').
    { intros p' x Hin.
      destruct (forall2_in_r _ _ _ _ HF' Hin) as (o' & _ & (? & ? & _ & _ & _ & _ & Hp'r & _)).
      assert (Ep'r : (p' =? w_rtr w) = false) by (apply N.eqb_neq; congruence).
      assert (Ep'p : (p' =? p) = false) by (apply N.eqb_neq; intros ->; contradiction).
      rewrite <- (Hres p' x (or_intror Hin)).
      destruct (asset_eqb x a) eqn:Exa.
      { apply LedgerProofs.asset_eqb_eq in Exa. subst x. rewrite Bo, Ep'r, Ep'p. reflexivity. }
      destruct (asset_eqb x k) eqn:Exk.
      { apply LedgerProofs.asset_eqb_eq in Exk. subst x. rewrite Ba, Ep'p, Ep'r. reflexivity. }
      apply Bz; assumption. }
    assert (Hz1 : forall x, In x (map snd R) -> bal w1 x (w_rtr w) = 0).
    { intros x Hx. destruct (Hlater x Hx) as [Ea Ek]. rewrite (Bz x _ Ea Ek). apply Hz. right. exact Hx. }
    destruct (IH pairs' w w1 rcv k w' HR H Hch C1 Hrr HF' Hnp' Hna' Hres1 Hz1)
      as (q & Hq2 & Hdel & Hzero & Hframe).
    rewrite Hamt in Hq2.
    exists q. split.
    { change ((a, k) :: R) with ([(a, k)] ++ R). rewrite q_router_simulate_app, Hq. cbn [bind]. exact Hq2. }
    assert (Elast : last ((a, k) :: R) (a, a) = last R (k, k)).
    { change (last ((a, k) :: R) (a, a)) with (last R (a, a)). apply last_default. exact HR. }
    rewrite Elast.
    split.
    { rewrite Hdel. f_equal.
      destruct (Hlater _ (last_in_map_snd R (k, k) HR)) as [Ea Ek]. apply Bz; assumption. }
    split.
    { intros x [<-|Hx]; [|apply Hzero; exact Hx].
      rewrite (Hframe a (w_rtr w) Hanin), Bo, N.eqb_refl. reflexivity. }
    intros z ad Hzn.
    assert (Hzn' : ~ In z (route_assets k R)) by (intros X; apply Hzn; right; exact X).
    rewrite (Hframe z ad Hzn').
    apply Bz; apply LedgerProofs.asset_eqb_neq; intros ->; apply Hzn; [left; reflexivity|].
    right. left. reflexivity.
Qed.

(* ------------------------------------------------------------------------------------------ *)
(* the theorems                                                                                *)
(* ------------------------------------------------------------------------------------------ *)
Theorem route_delivers_quote : forall ops w sender a0 to w' amount pairs,
  ops <> [] ->
  router_hops w ops (match to with Some t => t | None => sender end) = Ok w' ->
  chain_from a0 ops ->
  let rcv := match to with Some t => t | None => sender end in
  rcv <> w_rtr w ->
  length pairs = length ops ->
  (forall i o p, nth_error ops i = Some o -> nth_error pairs i = Some p -> hop_ok w rcv o p) ->
  NoDup pairs ->                                               (* hops use distinct pairs *)
  (forall x y, In x (route_assets a0 ops) -> In y (route_assets a0 ops) -> x = y \/ asset_eqb x y = false) ->
  NoDup (route_assets a0 ops) ->                               (* a simple path: pairwise distinct assets *)
  asset_balance w a0 (w_rtr w) = Ok amount ->                   (* the router holds the input ... *)
  (forall x, In x (map snd ops) -> bal w x (w_rtr w) = 0) ->    (* ... and none of the other route assets *)
  exists q, q_router_simulate w amount ops = Ok q /\
            bal w' (snd (last ops (a0, a0))) rcv = bal w (snd (last ops (a0, a0))) rcv + q /\
            (forall x, In x (route_assets a0 ops) -> bal w' x (w_rtr w) = 0).
Proof.
  intros ops w sender a0 to w' amount pairs Hne H Hch rcv Hrr Hlen Hok Hnp _ Hna Hb Hz.
  fold rcv in H.
  pose proof (forall2_of_nth (hop_ok w rcv) ops pairs Hlen Hok) as HF.
  destruct (route_inv ops pairs w w rcv a0 w' Hne H Hch (same_config_refl w) Hrr HF Hnp Hna
              (fun _ _ _ => eq_refl) Hz) as (q & Hq & Hdel & Hzero & _).
  apply asset_balance_bal in Hb. rewrite <- Hb in Hq.
  exists q. split; [exact Hq|]. split; [exact Hdel | exact Hzero].
Qed.

Theorem router_exec_ops_delivers_quote : forall ops w sender a0 to w' amount pairs,
  router_exec_ops w sender ops None to = Ok w' ->
  chain_from a0 ops ->
  let rcv := match to with Some t => t | None => sender end in
  rcv <> w_rtr w -> length pairs = length ops ->
  (forall i o p, nth_error ops i = Some o -> nth_error pairs i = Some p -> hop_ok w rcv o p) ->
  NoDup pairs ->
  (forall x y, In x (route_assets a0 ops) -> In y (route_assets a0 ops) -> x = y \/ asset_eqb x y = false) ->
  NoDup (route_assets a0 ops) ->
  asset_balance w a0 (w_rtr w) = Ok amount ->
  (forall x, In x (map snd ops) -> bal w x (w_rtr w) = 0) ->
  exists q, q_router_simulate_ops w amount ops = Ok q /\
            bal w' (snd (last ops (a0, a0))) rcv = bal w (snd (last ops (a0, a0))) rcv + q /\
            (forall x, In x (route_assets a0 ops) -> bal w' x (w_rtr w) = 0).
Proof.
  intros ops w sender a0 to w' amount pairs H Hch rcv Hrr Hlen Hok Hnp Hdec Hna Hb Hz.
  destruct ops as [|op0 ops0]; [discriminate|].
  unfold router_exec_ops in H. bnd H u Hu. cbv zeta in H.
  assert (Hne : op0 :: ops0 <> []) by discriminate.
  destruct (route_delivers_quote (op0 :: ops0) w sender a0 to w' amount pairs Hne H Hch Hrr Hlen Hok Hnp Hdec Hna Hb Hz)
    as (q & Hq & Hrest).
  exists q. split; [exact Hq | exact Hrest].
Qed.

Print Assumptions route_delivers_quote.
Print Assumptions router_exec_ops_delivers_quote.
