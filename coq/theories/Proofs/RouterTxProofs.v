(* C11 as the user sees it: the router's minimum-receive guarantee for the WHOLE transaction, entry
   transfer included.  [w] is the world BEFORE the transaction.  If the transaction succeeds with minimum
   [m], the recipient's balance of the final asset grew by at least [m], net of what the recipient itself
   paid in that asset on entry (attached coins / the cw20 amount sent). *)
From HT Require Import Base.Prelude Num.Arith Amm.Formulas Amm.Guards World.World World.Observe World.Monitors
  Proofs.LedgerProofs Proofs.FrameProofs Proofs.AuthProofs Proofs.RouterProofs.

(* ------------------------------------------------------------------------------------ *)
(* 1. what the attached coins take from the payer                                        *)
(* ------------------------------------------------------------------------------------ *)
(* the bank moves EVERY listed coin, so a denom listed twice is paid twice; [coins_of] (the first entry) is the
   amount paid exactly when no denom is repeated *)
Definition coins_total (d : denom) (cs : list coin) : N :=
  fold_right (fun c acc => if fst c =? d then snd c + acc else acc) 0 cs.

Lemma coins_total_cons d0 n cs d : coins_total d ((d0, n) :: cs) = if d0 =? d then n + coins_total d cs else coins_total d cs.
Proof. reflexivity. Qed.

Lemma coins_of_cons d0 n cs d : coins_of d ((d0, n) :: cs) = if d0 =? d then n else coins_of d cs.
Proof. unfold coins_of. cbn [find fst]. destruct (d0 =? d); reflexivity. Qed.

Lemma coins_total_notin cs d : ~ In d (map fst cs) -> coins_total d cs = 0.
Proof.
  induction cs as [|[d0 n] cs IH]; intros Hn; [reflexivity|].
  rewrite coins_total_cons. cbn [map fst In] in Hn.
  destruct (d0 =? d) eqn:E; [apply N.eqb_eq in E; exfalso; apply Hn; left; exact E|].
  apply IH. intros Hin. apply Hn. right. exact Hin.
Qed.

Lemma coins_total_nodup cs d : NoDup (map fst cs) -> coins_total d cs = coins_of d cs.
Proof.
  induction cs as [|[d0 n] cs IH]; intros Hnd; [reflexivity|].
  cbn [map fst] in Hnd. apply NoDup_cons_iff in Hnd. destruct Hnd as (Hn & Hd).
  rewrite coins_total_cons, coins_of_cons.
  destruct (d0 =? d) eqn:E; [|apply IH; exact Hd].
  apply N.eqb_eq in E. subst d0. rewrite (coins_total_notin _ _ Hn). lia.
Qed.

Lemma coins_total_nonzero cs d : coins_total d (nonzero_coins cs) = coins_total d cs.
Proof.
  unfold nonzero_coins. induction cs as [|[d0 n] cs IH]; [reflexivity|].
  cbn [filter snd]. rewrite coins_total_cons.
  destruct (n =? 0) eqn:E0; cbn [negb].
  - apply N.eqb_eq in E0. subst n. rewrite IH. destruct (d0 =? d); lia.
  - rewrite coins_total_cons, IH. reflexivity.
Qed.

Lemma bank_sub_all_bound cs : forall b a b', bank_sub_all b a cs = Ok b' ->
  forall d, b a d <= b' a d + coins_total d cs.
Proof.
  induction cs as [|[d0 n] cs IH]; intros b a b' H d; cbn [bank_sub_all] in H.
  - inversion H. subst b'. cbn [coins_total fold_right]. lia.
  - destruct (n <=? b a d0) eqn:El; [|discriminate]. apply N.leb_le in El.
    pose proof (IH _ _ _ H d) as Hb. rewrite coins_total_cons.
    destruct (d0 =? d) eqn:E; [apply N.eqb_eq in E; subst d0 | apply N.eqb_neq in E].
    + rewrite upd2_same in Hb. lia.
    + rewrite upd2_other in Hb by (right; congruence). exact Hb.
Qed.

Lemma bank_add_all_ge cs : forall b a b', bank_add_all b a cs = Ok b' -> forall x d, b x d <= b' x d.
Proof.
  induction cs as [|[d0 n] cs IH]; intros b a b' H x d; cbn [bank_add_all] in H.
  - inversion H. lia.
  - destruct (b a d0 + n <? W128); [|discriminate].
    pose proof (IH _ _ _ H x d) as Hb. unfold upd2 in Hb.
    destruct ((x =? a) && (d =? d0)) eqn:E; [|exact Hb].
    apply andb_true_iff in E. destruct E as (E1 & E2). apply N.eqb_eq in E1, E2. subst x d. lia.
Qed.

(* the entry transfer of [ORouterOps]: token ledgers untouched; nobody but the payer loses coins; the payer
   loses at most what is attached *)
Lemma move_funds_entry w c r funds w1 : move_funds w c r funds = Ok w1 ->
  w_tokens w1 = w_tokens w /\
  (forall x d, x <> c -> w_bank w x d <= w_bank w1 x d) /\
  (forall d, w_bank w c d <= w_bank w1 c d + coins_total d funds).
Proof.
  intros H. unfold move_funds in H. destruct funds as [|c0 funds].
  - inversion H. subst w1. split; [reflexivity|]. split; intros; lia.
  - unfold bank_send in H. pose proof (coins_total_nonzero (c0 :: funds)) as Hv.
    destruct (nonzero_coins (c0 :: funds)) as [|c1 nz]; [discriminate|].
    apply bind_ok in H. destruct H as (b1 & H1 & H). apply bind_ok in H. destruct H as (b2 & H2 & H).
    inversion H. subst w1. clear H. cbn [set_bank w_tokens w_bank].
    split; [reflexivity|]. split.
    + intros x d Hx. rewrite <- (bank_sub_all_other _ _ _ _ H1 x d Hx). eapply bank_add_all_ge. exact H2.
    + intros d. pose proof (bank_sub_all_bound _ _ _ _ H1 d) as Hs. pose proof (bank_add_all_ge _ _ _ _ H2 c d) as Ha.
      rewrite Hv in Hs. lia.
Qed.

(* ------------------------------------------------------------------------------------ *)
(* 2. the native entry point                                                             *)
(* ------------------------------------------------------------------------------------ *)
(* no side condition when the payment is counted as the bank counts it *)
Theorem router_tx_native_min_total : forall w c funds ops m to w',
  exec w (ORouterOps c funds ops (Some m) to) = Ok w' ->
  let rcv := match to with Some t => t | None => c end in
  let target := last_ask ops in
  let paid := match target with ANative d => coins_total d funds | AToken _ => 0 end in
  exists before after,
    asset_balance w target rcv = Ok before /\ asset_balance w' target rcv = Ok after /\
    before + m <= after + (if rcv =? c then paid else 0).
Proof.
  intros w c funds ops m to w' H. cbv zeta.
  apply exec_router_ops_min in H. destruct H as (w1 & Hm & Hr).
  pose proof (router_min_receive _ _ _ _ _ _ Hr) as Hc. cbv zeta in Hc.
  destruct Hc as (prev & now & Hp & Hn & Hle).
  apply move_funds_entry in Hm. destruct Hm as (Ht & Ho & Hpay).
  set (rcv := match to with Some t => t | None => c end) in *.
  destruct (last_ask ops) as [d|t].
  - cbn [asset_balance] in Hp |- *. inversion Hp. subst prev. clear Hp.
    exists (w_bank w rcv d), now. split; [reflexivity|]. split; [exact Hn|].
    destruct (rcv =? c) eqn:E; [apply N.eqb_eq in E | apply N.eqb_neq in E].
    + rewrite E in *. specialize (Hpay d). lia.
    + specialize (Ho rcv d E). lia.
  - exists prev, now. split; [|split; [exact Hn|]].
    + cbn [asset_balance] in Hp |- *. rewrite <- Ht. exact Hp.
    + destruct (rcv =? c); lia.
Qed.

(* the requested statement; the side condition (no denom attached twice) is needed: see [router_tx_native_min_false] *)
Theorem router_tx_native_min : forall w c funds ops m to w',
  NoDup (map fst funds) ->
  exec w (ORouterOps c funds ops (Some m) to) = Ok w' ->
  let rcv := match to with Some t => t | None => c end in
  let target := last_ask ops in
  let paid := match target with ANative d => coins_of d funds | AToken _ => 0 end in
  exists before after,
    asset_balance w target rcv = Ok before /\ asset_balance w' target rcv = Ok after /\
    before + m <= after + (if rcv =? c then paid else 0).
Proof.
  intros w c funds ops m to w' Hnd H.
  pose proof (router_tx_native_min_total _ _ _ _ _ _ _ H) as Hc. cbv zeta in Hc |- *.
  destruct (last_ask ops) as [d|t]; [|exact Hc].
  rewrite (coins_total_nodup _ d Hnd) in Hc. exact Hc.
Qed.

(* without it, when somebody else receives *)
Theorem router_tx_native_min_other : forall w c funds ops m t w',
  t <> c ->
  exec w (ORouterOps c funds ops (Some m) (Some t)) = Ok w' ->
  exists before after,
    asset_balance w (last_ask ops) t = Ok before /\ asset_balance w' (last_ask ops) t = Ok after /\
    before + m <= after.
Proof.
  intros w c funds ops m t w' Hne H.
  pose proof (router_tx_native_min_total _ _ _ _ _ _ _ H) as Hc. cbv beta iota zeta in Hc.
  apply N.eqb_neq in Hne. rewrite Hne in Hc.
  destruct Hc as (before & after & H1 & H2 & H3). exists before, after. repeat split; try assumption. lia.
Qed.

(* ------------------------------------------------------------------------------------ *)
(* 3. the cw20 entry point                                                               *)
(* ------------------------------------------------------------------------------------ *)
Theorem router_tx_cw20_min : forall w ta sender n ops m to w',
  w_pairs w (w_rtr w) = None ->
  exec w (OSend ta sender (w_rtr w) n (HRouterOps ops (Some m) to)) = Ok w' ->
  let rcv := match to with Some t => t | None => sender end in
  let target := last_ask ops in
  let paid := match target with AToken t => if t =? ta then n else 0 | ANative _ => 0 end in
  exists before after,
    asset_balance w target rcv = Ok before /\ asset_balance w' target rcv = Ok after /\
    before + m <= after + (if rcv =? sender then paid else 0).
Proof.
  intros w ta sender n ops m to w' Hp H. cbv zeta. cbn [exec] in H.
  apply (cw20_send_router_decompose _ _ _ _ _ _ _ _ Hp) in H. destruct H as (w1 & Hm & Hr).
  pose proof (router_min_receive _ _ _ _ _ _ Hr) as Hc. cbv zeta in Hc.
  destruct Hc as (prev & now & Hpv & Hn & Hle).
  apply with_token_inv in Hm. destruct Hm as (tk & tk' & Htk & Htr & ->).
  apply tok_transfer_effect in Htr. destruct Htr as (_ & Hbal & _ & _ & _ & _ & Hb).
  set (rcv := match to with Some t => t | None => sender end) in *.
  destruct (last_ask ops) as [d|t].
  - cbn [asset_balance set_token w_bank] in Hpv |- *.
    exists prev, now. split; [exact Hpv|]. split; [exact Hn|]. destruct (rcv =? sender); lia.
  - cbn [asset_balance set_token w_tokens] in Hpv |- *.
    destruct (t =? ta) eqn:Et; [apply N.eqb_eq in Et; subst t | apply N.eqb_neq in Et].
    + rewrite upd_same in Hpv. inversion Hpv. subst prev. clear Hpv. rewrite Htk.
      exists (t_bal tk rcv), now. split; [reflexivity|]. split; [exact Hn|].
      rewrite (Hb rcv) in Hle.
      destruct (rcv =? sender) eqn:E; [apply N.eqb_eq in E | apply N.eqb_neq in E].
      * rewrite E in *. destruct (sender =? w_rtr w); lia.
      * destruct (sender =? w_rtr w); [lia|]. destruct (rcv =? w_rtr w); lia.
    + rewrite upd_other in Hpv by exact Et.
      exists prev, now. split; [exact Hpv|]. split; [exact Hn|]. destruct (rcv =? sender); lia.
Qed.

(* ------------------------------------------------------------------------------------ *)
(* 4. a concrete instance, and why the native statement needs its side condition         *)
(* ------------------------------------------------------------------------------------ *)
(* user 1000 (the factory owner) registers both denoms, creates the pair 4 = (native 0, token 2) with LP token 5 and
   provides 10^6 of each asset *)
Definition tx_w0 : world := init_world (mkLayout 3 2 2 2) 1000000000000 1000 (fun _ => 6).
Definition tx_setup : list op :=
  [ OFacAddNative 1000 0 6;
    OFacAddNative 1000 1 6;
    OFacCreatePair 1000 (ANative 0) (AToken 2) [1000] 0 0 None None;
    OIncreaseAllowance 2 1000 4 1000000;
    OProvide 4 1000 [(0, 1000000)] (ANative 0) 1000000 (AToken 2) 1000000 None None ].
Definition tx_w : world := run tx_w0 tx_setup.
Definition tx_route : list (asset * asset) := [(ANative 0, AToken 2)].

(* user 1001 routes 5000 of native 0 into token 2; the router quotes 4961: with the minimum exactly 4961 the
   transaction succeeds and 1001 holds exactly 4961 more of token 2; with 4962 it fails *)
Example router_tx_example :
  (exists ps, w_pairs tx_w 4 = Some ps /\ p_a0 ps = ANative 0 /\ p_a1 ps = AToken 2 /\
              asset_balance tx_w (ANative 0) 4 = Ok 1000000 /\ asset_balance tx_w (AToken 2) 4 = Ok 1000000) /\
  q_router_simulate_ops tx_w 5000 tx_route = Ok 4961 /\
  asset_balance tx_w (AToken 2) 1001 = Ok 1000000000000 /\
  (exists w', exec tx_w (ORouterOps 1001 [(0, 5000)] tx_route (Some 4961) None) = Ok w' /\
              asset_balance w' (AToken 2) 1001 = Ok (1000000000000 + 4961)) /\
  (exists e, exec tx_w (ORouterOps 1001 [(0, 5000)] tx_route (Some (4961 + 1)) None) = Err e).
Proof.
  split; [eexists; repeat split; vm_compute; reflexivity|].
  split; [vm_compute; reflexivity|].
  split; [vm_compute; reflexivity|].
  split.
  - exists (step tx_w (ORouterOps 1001 [(0, 5000)] tx_route (Some 4961) None)).
    split; vm_compute; reflexivity.
  - eexists. vm_compute. reflexivity.
Qed.

(* a denom attached twice is paid twice but [coins_of] counts the first entry only: 1001 attaches 1 + 5000 of
   native 0 and routes them there and back (native 0 -> token 2 -> native 0) with minimum 0; the transaction
   succeeds, 1001 ends 29 short of its starting balance, and the statement would allow a shortfall of 1 *)
Definition tx_dup : op :=
  ORouterOps 1001 [(0, 1); (0, 5000)] [(ANative 0, AToken 2); (AToken 2, ANative 0)] (Some 0) None.

Theorem router_tx_native_min_false : ~ (forall w c funds ops m to w',
  exec w (ORouterOps c funds ops (Some m) to) = Ok w' ->
  let rcv := match to with Some t => t | None => c end in
  let target := last_ask ops in
  let paid := match target with ANative d => coins_of d funds | AToken _ => 0 end in
  exists before after,
    asset_balance w target rcv = Ok before /\ asset_balance w' target rcv = Ok after /\
    before + m <= after + (if rcv =? c then paid else 0)).
Proof.
  intros H.
  assert (E : exec tx_w tx_dup = Ok (step tx_w tx_dup)) by (vm_compute; reflexivity).
  specialize (H _ _ _ _ _ _ _ E). cbv zeta in H. destruct H as (before & after & H1 & H2 & H3).
  vm_compute in H1. inversion H1. subst before. clear H1.
  vm_compute in H2. inversion H2. subst after. clear H2.
  apply N.leb_le in H3. vm_compute in H3. discriminate H3.
Qed.

Print Assumptions router_tx_native_min_total.
Print Assumptions router_tx_native_min.
Print Assumptions router_tx_native_min_other.
Print Assumptions router_tx_cw20_min.
Print Assumptions router_tx_example.
Print Assumptions router_tx_native_min_false.
