(* The world every history of the test harness starts from ([init_world], World/Observe.v) satisfies the
   invariants the reachability theorems start from: it is solvent (E-supply), its registry is fine, and it is
   inert (no pairs, no allowances, the router is a plain non-token contract below the address counter). *)
From HT Require Import Base.Prelude Num.Arith Amm.Formulas Amm.Guards World.World World.Observe
  Proofs.LedgerProofs Proofs.FrameProofs Proofs.LivenessProofs Proofs.WFProofs Proofs.ConserveProofs
  Proofs.FactoryProofs Proofs.ReachProofs Proofs.SolventProofs Proofs.RegHistProofs Proofs.LockedProofs.

(* ------------------------------------------------------------------------------------ *)
(* counting: a duplicate-free roster meets the interval [s, s+n) in at most n places      *)
(* ------------------------------------------------------------------------------------ *)
Definition in_range (s n a : N) : bool := (s <=? a) && (a <? s + n).

Lemma in_range_spec s n a : in_range s n a = true <-> s <= a /\ a < s + n.
Proof.
  unfold in_range. rewrite andb_true_iff, N.leb_le, N.ltb_lt. reflexivity.
Qed.

Lemma seqN_length s n : length (seqN s n) = N.to_nat n.
Proof. unfold seqN. rewrite map_length, seq_length. reflexivity. Qed.

Lemma seqN_In s n a : s <= a -> a < s + n -> In a (seqN s n).
Proof.
  intros H1 H2. unfold seqN. apply in_map_iff. exists (N.to_nat (a - s)). split.
  - rewrite N2Nat.id. clear - H1. lia.
  - apply in_seq. clear - H1 H2. lia.
Qed.

Lemma count_range s n (l : list N) : NoDup l -> N.of_nat (length (filter (in_range s n) l)) <= n.
Proof.
  intros Hl.
  assert (Hle : (length (filter (in_range s n) l) <= length (seqN s n))%nat).
  { apply NoDup_incl_length.
    - apply NoDup_filter. exact Hl.
    - intros a Ha. apply filter_In in Ha. destruct Ha as (_ & Ha).
      apply in_range_spec in Ha. destruct Ha as (H1 & H2). apply seqN_In; assumption. }
  rewrite seqN_length in Hle. clear - Hle. lia.
Qed.

(* ------------------------------------------------------------------------------------ *)
(* sums of indicator-like functions                                                       *)
(* ------------------------------------------------------------------------------------ *)
Lemma sumf_filter (p : N -> bool) (u : N) (l : list N) :
  sumf (fun a => if p a then u else 0) l = u * N.of_nat (length (filter p l)).
Proof.
  induction l as [|a l IH].
  - rewrite sumf_nil. cbn [filter length]. lia.
  - rewrite sumf_cons, IH. cbn [filter]. destruct (p a).
    + cbn [length]. rewrite Nat2N.inj_succ. clear. lia.
    + clear. lia.
Qed.

Lemma sumf_range s n u (l : list N) : NoDup l ->
  sumf (fun a => if in_range s n a then u else 0) l <= u * n.
Proof.
  intros Hl. rewrite sumf_filter. apply N.mul_le_mono_l. apply count_range. exact Hl.
Qed.

Lemma sumf_single_out (k v : N) (l : list N) : ~ In k l -> sumf (fun a => if a =? k then v else 0) l = 0.
Proof.
  induction l as [|a l IH]; intros Hn; [reflexivity|].
  rewrite sumf_cons, IH by (intros H; apply Hn; right; exact H).
  destruct (a =? k) eqn:E; [|reflexivity].
  apply N.eqb_eq in E. exfalso. apply Hn. left. exact E.
Qed.

Lemma sumf_single (k v : N) (l : list N) : NoDup l -> sumf (fun a => if a =? k then v else 0) l <= v.
Proof.
  induction l as [|a l IH]; intros Hl.
  - rewrite sumf_nil. apply N.le_0_l.
  - apply NoDup_cons_iff in Hl. destruct Hl as (Hal & Hl). rewrite sumf_cons.
    destruct (a =? k) eqn:E.
    + apply N.eqb_eq in E. subst a. rewrite sumf_single_out by exact Hal. clear. lia.
    + specialize (IH Hl). clear - IH. lia.
Qed.

Lemma sumf_le_add (f g h : N -> N) (l : list N) :
  (forall a, f a <= g a + h a) -> sumf f l <= sumf g l + sumf h l.
Proof.
  intros H. induction l as [|a l IH].
  - rewrite !sumf_nil. apply N.le_refl.
  - rewrite !sumf_cons. specialize (H a). clear - H IH. lia.
Qed.

(* ------------------------------------------------------------------------------------ *)
(* the ledgers of the initial world                                                       *)
(* ------------------------------------------------------------------------------------ *)
Lemma init_bank L ubal fbal tdec a d :
  w_bank (init_world L ubal fbal tdec) a d =
  if d <? l_denoms L then (if in_range USER0 (l_users L) a then ubal else if a =? 0 then fbal else 0) else 0.
Proof. reflexivity. Qed.

Lemma init_tokens L ubal fbal tdec t :
  w_tokens (init_world L ubal fbal tdec) t =
  if in_range 2 (l_tokens L) t
  then Some (mkToken (fun a => if in_range USER0 (l_users L) a then ubal else 0) (fun _ _ => None)
                     (ubal * l_users L) (Some USER0) (tdec t))
  else None.
Proof. reflexivity. Qed.

Lemma init_native_sum L ubal fbal tdec d l : NoDup l ->
  sum_bal (init_world L ubal fbal tdec) (ANative d) l <= ubal * l_users L + fbal.
Proof.
  intros Hl. rewrite sum_bal_sumf.
  destruct (d <? l_denoms L) eqn:Ed.
  - rewrite (sumf_ext (fun a => if in_range USER0 (l_users L) a then ubal else if a =? 0 then fbal else 0)
                      (bal (init_world L ubal fbal tdec) (ANative d)) l)
      by (intros a _; cbn [bal]; rewrite init_bank, Ed; reflexivity).
    eapply N.le_trans.
    + apply (sumf_le_add _ (fun a => if in_range USER0 (l_users L) a then ubal else 0)
                           (fun a => if a =? 0 then fbal else 0)).
      intros a. destruct (in_range USER0 (l_users L) a); destruct (a =? 0); clear; lia.
    + apply N.add_le_mono; [apply sumf_range; exact Hl | apply sumf_single; exact Hl].
  - rewrite sumf_zero; [apply N.le_0_l|].
    intros a. cbn [bal]. rewrite init_bank, Ed. reflexivity.
Qed.

Lemma init_supply L ubal fbal tdec t :
  supply (init_world L ubal fbal tdec) t = if in_range 2 (l_tokens L) t then ubal * l_users L else 0.
Proof. unfold supply. rewrite init_tokens. destruct (in_range 2 (l_tokens L) t); reflexivity. Qed.

Lemma init_token_sum L ubal fbal tdec t l : NoDup l ->
  sum_bal (init_world L ubal fbal tdec) (AToken t) l <= supply (init_world L ubal fbal tdec) t.
Proof.
  intros Hl. rewrite sum_bal_sumf, init_supply.
  destruct (in_range 2 (l_tokens L) t) eqn:Et.
  - rewrite (sumf_ext (fun a => if in_range USER0 (l_users L) a then ubal else 0)
                      (bal (init_world L ubal fbal tdec) (AToken t)) l)
      by (intros a _; cbn [bal]; rewrite init_tokens, Et; reflexivity).
    apply sumf_range. exact Hl.
  - rewrite sumf_zero; [apply N.le_refl|].
    intros a. cbn [bal]. rewrite init_tokens, Et. reflexivity.
Qed.

(* ------------------------------------------------------------------------------------ *)
(* 1. solvency                                                                            *)
(* ------------------------------------------------------------------------------------ *)
Theorem init_world_Solvent : forall L ubal fbal tdec,
  ubal * l_users L + fbal < W128 -> Solvent (init_world L ubal fbal tdec).
Proof.
  intros L ubal fbal tdec H. split; [|split].
  - intros d l Hl. pose proof (init_native_sum L ubal fbal tdec d l Hl) as A.
    remember (sum_bal (init_world L ubal fbal tdec) (ANative d) l) as x.
    remember (ubal * l_users L) as m. clear - A H. lia.
  - intros t l Hl. apply init_token_sum. exact Hl.
  - intros t. rewrite init_supply. destruct (in_range 2 (l_tokens L) t); [|apply W128_pos].
    remember (ubal * l_users L) as m. clear - H. lia.
Qed.

(* ------------------------------------------------------------------------------------ *)
(* 2. the registry                                                                        *)
(* ------------------------------------------------------------------------------------ *)
Theorem init_world_RegOK : forall L ubal fbal tdec, RegOK (init_world L ubal fbal tdec).
Proof. intros L ubal fbal tdec. apply RegOK_empty. reflexivity. Qed.

(* ------------------------------------------------------------------------------------ *)
(* 3. inertness                                                                           *)
(* ------------------------------------------------------------------------------------ *)
Theorem init_world_Inert' : forall L ubal fbal tdec, Inert' (init_world L ubal fbal tdec).
Proof.
  intros L ubal fbal tdec. apply Inert'_start.
  - intros p. reflexivity.
  - intros t tk o sp Ht. rewrite init_tokens in Ht.
    destruct (in_range 2 (l_tokens L) t); [|discriminate].
    inversion Ht. reflexivity.
  - cbn [init_world w_rtr w_next]. unfold n_init. clear. lia.
  - rewrite init_tokens. cbn [init_world w_rtr].
    destruct (in_range 2 (l_tokens L) 1) eqn:E; [|reflexivity].
    apply in_range_spec in E. destruct E as (E & _). clear - E. lia.
Qed.

(* ------------------------------------------------------------------------------------ *)
(* 4. a concrete instance (the theorems are not vacuous)                                  *)
(* ------------------------------------------------------------------------------------ *)
Example init_world_invariants_example :
  let L := mkLayout 3 2 3 4 in
  let w := init_world L 1000000000000 1000 (fun _ => 6) in
  WF w /\ Solvent w /\ RegOK w.
Proof.
  intros L w. split; [|split].
  - apply init_world_WF.
  - apply init_world_Solvent. vm_compute. reflexivity.
  - apply init_world_RegOK.
Qed.

Print Assumptions init_world_Solvent.
Print Assumptions init_world_RegOK.
Print Assumptions init_world_Inert'.
Print Assumptions init_world_invariants_example.
