(* C17 (second sentence) and C16 over histories: the factory registry and the pairs' own descriptions
   never diverge over any history of operations in which the factory address itself submits nothing. *)
From HT Require Import Base.Prelude Num.Arith Amm.Formulas Amm.Guards World.World Proofs.FactoryProofs Proofs.WFProofs Proofs.FrameProofs Proofs.AuthProofs.

(* who submits the transaction *)
Definition submitter (o : op) : addr :=
  match o with
  | OBankSend f _ _ => f | OTransfer _ f _ _ => f | OTransferFrom _ sp _ _ _ => sp
  | OIncreaseAllowance _ ow _ _ => ow | OMint _ sd _ _ => sd | OBurn _ sd _ => sd | OSend _ sd _ _ _ => sd
  | OProvide _ c _ _ _ _ _ _ _ => c | OSwap _ c _ _ _ _ _ _ => c | OPairReceive _ c _ _ _ _ => c
  | OPairUpdateDecimals _ c _ _ _ => c | ORouterOps c _ _ _ _ => c | ORouterOp c _ _ _ _ => c
  | ORouterAssertMin c _ _ _ _ => c | ORouterReceive c _ _ _ => c | OFacUpdateConfig c _ => c
  | OFacCreatePair c _ _ _ _ _ _ _ => c | OFacAddNative c _ _ => c | OFacMigrate c _ => c
  | OSendFrom _ sp _ _ _ _ => sp | OBurnFrom _ sp _ _ => sp | ODecreaseAllowance _ ow _ _ => ow
  end.

(* ------------------------------------------------------------------------------------ *)
(* [keeps] for the remaining handlers                                                    *)
(* ------------------------------------------------------------------------------------ *)
Ltac keeps_chain :=
  first [ solve [apply keeps_refl]
        | eassumption
        | match goal with
          | H : keeps ?a ?b |- keeps ?a _ => apply (keeps_trans _ _ _ H); keeps_chain
          end ].

Ltac keeps_fact H :=
  first [ apply with_token_keeps in H | apply move_funds_keeps in H | apply bank_send_keeps in H
        | apply pay_asset_keeps in H | apply pair_swap_keeps in H | apply pair_withdraw_keeps in H
        | apply pair_receive_keeps in H ].
Ltac keeps_facts := repeat match goal with H : _ = Ok _ |- _ => keeps_fact H end.

Lemma pair_provide_keeps w p ps c funds l0 n0 l1 n1 tol rcv w' :
  pair_provide w p ps c funds l0 n0 l1 n1 tol rcv = Ok w' -> keeps w w'.
Proof.
  intros H. unfold pair_provide in H.
  repeat (apply bind_ok in H; destruct H as (? & _ & H); cbv beta in H).
  match type of H with (if ?b then _ else _) = _ => destruct b end; [discriminate|].
  cbv zeta in H. bnd H w1 H1. bnd H w2 H2.
  assert (K1 : keeps w w1).
  { destruct (p_a0 ps) as [d|ta]; [inversion H1; apply keeps_refl|]. eapply with_token_keeps. exact H1. }
  assert (K2 : keeps w1 w2).
  { destruct (p_a1 ps) as [d|ta]; [inversion H2; apply keeps_refl|]. eapply with_token_keeps. exact H2. }
  match type of H with (if ?b then _ else _) = _ => destruct b end.
  - bnd H w3 H3. bnd H sh Hs. apply with_token_keeps in H3. apply with_token_keeps in H. keeps_chain.
  - apply with_token_keeps in H. keeps_chain.
Qed.

Lemma router_hop_keeps w offer ask to w' : router_hop w offer ask to = Ok w' -> keeps w w'.
Proof. intros H. apply router_hop_both in H. apply H. Qed.

Lemma router_exec_ops_keeps w s ops m to w' : router_exec_ops w s ops m to = Ok w' -> keeps w w'.
Proof. intros H. apply router_exec_ops_both in H. apply H. Qed.

Lemma cw20_send_keeps w ta sd target n h w' : cw20_send w ta sd target n h = Ok w' -> keeps w w'.
Proof.
  intros H. unfold cw20_send in H. bnd H w1 H1. apply with_token_keeps in H1.
  destruct (w_pairs w1 target) as [ps|].
  - apply pair_receive_keeps in H. keeps_chain.
  - destruct (target =? w_rtr w1); [|discriminate].
    destruct h as [| |ops m to|]; try discriminate.
    apply router_exec_ops_keeps in H. keeps_chain.
Qed.

Lemma cw20_send_from_keeps w ta sp ow target n h w' : cw20_send_from w ta sp ow target n h = Ok w' -> keeps w w'.
Proof.
  intros H. unfold cw20_send_from in H. bnd H w1 H1. apply with_token_keeps in H1.
  destruct (w_pairs w1 target) as [ps|].
  - apply pair_receive_keeps in H. keeps_chain.
  - destruct (target =? w_rtr w1); [|discriminate].
    destruct h as [| |ops m to|]; try discriminate.
    apply router_exec_ops_keeps in H. keeps_chain.
Qed.

Lemma fac_update_config_keeps w c o w' : fac_update_config w c o = Ok w' -> keeps w w'.
Proof.
  unfold fac_update_config. destruct (negb _); [discriminate|]. intros H. inversion H.
  destruct o; repeat split.
Qed.

Lemma fac_migrate_pair_keeps w c ct w' : fac_migrate_pair w c ct = Ok w' -> keeps w w'.
Proof.
  unfold fac_migrate_pair. destruct (negb _); [discriminate|]. destruct (w_pairs w ct); [|discriminate].
  intros H. inversion H. apply keeps_refl.
Qed.

(* the operations that neither create a pair, nor re-register a denom, nor call UpdateDecimals directly
   leave the registry and every pair alone *)
Lemma exec_keeps w o w' : exec w o = Ok w' ->
  match o with
  | OFacCreatePair _ _ _ _ _ _ _ _ | OFacAddNative _ _ _ | OPairUpdateDecimals _ _ _ _ _ => True
  | _ => keeps w w'
  end.
Proof.
  intros H. destruct o; try exact I; cbn [exec] in H.
  - eapply bank_send_keeps. exact H.
  - eapply with_token_keeps. exact H.
  - eapply with_token_keeps. exact H.
  - eapply with_token_keeps. exact H.
  - eapply with_token_keeps. exact H.
  - eapply with_token_keeps. exact H.
  - eapply cw20_send_keeps. exact H.
  - destruct (w_pairs w p) as [ps|]; [|discriminate]. bnd H w1 H1.
    apply move_funds_keeps in H1. apply pair_provide_keeps in H. keeps_chain.
  - destruct (w_pairs w p) as [ps|]; [|discriminate]. bnd H w1 H1.
    destruct (negb _); [discriminate|]. bnd H r Hs. inversion H. subst w'.
    apply move_funds_keeps in H1. apply pair_swap_keeps in Hs. keeps_chain.
  - destruct (w_pairs w p) as [ps|]; [|discriminate]. bnd H w1 H1.
    apply move_funds_keeps in H1. apply pair_receive_keeps in H. keeps_chain.
  - bnd H w1 H1. apply move_funds_keeps in H1. apply router_exec_ops_keeps in H. keeps_chain.
  - bnd H w1 H1. destruct (negb _); [discriminate|].
    apply move_funds_keeps in H1. apply router_hop_keeps in H. keeps_chain.
  - destruct (negb _); [discriminate|]. apply router_assert_min_same in H. subst w'. apply keeps_refl.
  - destruct h as [| |ops m to|]; try discriminate. eapply router_exec_ops_keeps. exact H.
  - eapply fac_update_config_keeps. exact H.
  - eapply fac_migrate_pair_keeps. exact H.
  - eapply cw20_send_from_keeps. exact H.
  - eapply with_token_keeps. exact H.
  - eapply with_token_keeps. exact H.
Qed.

Lemma keeps_ext_RegOK w w' : RegOK w -> keeps w w' -> ext w w' -> RegOK w'.
Proof.
  intros HR (Kreg & _ & Kp) (En & Ef & _).
  eapply RegOK_same_config; eassumption.
Qed.

(* ------------------------------------------------------------------------------------ *)
(* the theorems                                                                          *)
(* ------------------------------------------------------------------------------------ *)

(* every operation not submitted by the factory address itself keeps the registry consistent with the pairs *)
Theorem exec_preserves_RegOK : forall w o w',
  WF w -> RegOK w -> submitter o <> w_fac w -> exec w o = Ok w' -> RegOK w'.
Proof.
  intros w o w' HW HR Hs H.
  pose proof (exec_keeps _ _ _ H) as Hk.
  pose proof (exec_ext _ _ _ H) as He.
  destruct o; try (exact (keeps_ext_RegOK _ _ HR Hk He)).
  - (* OPairUpdateDecimals: only the pair's factory may call, and that is [w_fac w] for every pair *)
    exfalso. apply exec_pair_update_decimals_auth in H. destruct H as (ps & Hps & Hc).
    destruct HW as (_ & P & _). destruct (P _ _ Hps) as (_ & _ & _ & _ & _ & _ & _ & _ & _ & Hf).
    apply Hs. cbn [submitter]. congruence.
  - (* OFacCreatePair *)
    cbn [exec] in H. destruct HW as (F & _ & _).
    eapply fac_create_pair_RegOK; [exact HR| |exact H].
    intros q Hq. apply F. exact Hq.
  - (* OFacAddNative *)
    cbn [exec] in H. destruct (w_natives w dn) as [old|] eqn:En.
    + destruct (fac_add_native_reaches_all _ _ _ _ _ _ HR En H) as (_ & _ & _ & _ & HR' & _). exact HR'.
    + destruct (fac_add_native_fresh _ _ _ _ _ En H) as (_ & _ & Hreg & Hp & _).
      destruct He as (Hn & Hf & _).
      eapply RegOK_same_config; eassumption.
Qed.

(* histories in which the factory address never submits a transaction (contracts act only through their handlers) *)
Fixpoint no_factory_submitter (w : world) (ops : list op) : Prop :=
  match ops with [] => True | o :: rest => submitter o <> w_fac w /\ no_factory_submitter (step w o) rest end.

Theorem run_preserves_RegOK : forall ops w,
  WF w -> RegOK w -> no_factory_submitter w ops -> WF (run w ops) /\ RegOK (run w ops).
Proof.
  induction ops as [|o ops IH]; intros w HW HR Hn.
  - split; assumption.
  - change (run w (o :: ops)) with (run (step w o) ops).
    cbn [no_factory_submitter] in Hn. destruct Hn as (Hs & Hn).
    apply IH; [apply step_preserves_WF; exact HW | | exact Hn].
    unfold step. destruct (exec w o) as [w'|e] eqn:E; [|exact HR].
    eapply exec_preserves_RegOK; eassumption.
Qed.

(* consequence: in every such reachable world, whatever the factory returns for a lookup IS the pair's own description *)
Theorem lookup_is_self_description : forall ops w a b r,
  WF w -> RegOK w -> no_factory_submitter w ops ->
  reg_find (w_reg (run w ops)) a b = Some r ->
  exists ps, w_pairs (run w ops) (f_pair r) = Some ps /\
    p_a0 ps = f_a0 r /\ p_a1 ps = f_a1 r /\ p_d0 ps = f_d0 r /\ p_d1 ps = f_d1 r /\ p_lp ps = f_lp r /\
    p_wl ps = f_wl r /\ p_min0 ps = f_min0 r /\ p_min1 ps = f_min1 r /\ p_comm ps = f_comm r /\
    same_assets (f_a0 r) (f_a1 r) a b = true.
Proof.
  intros ops w a b r HW HR Hn Hf.
  destruct (run_preserves_RegOK ops w HW HR Hn) as (_ & (R1 & _ & _)).
  apply reg_find_same_set in Hf. destruct Hf as (Hin & Hsame).
  destruct (R1 r Hin) as ((ps & Hps & A0 & A1 & D0 & D1 & L & WL & M0 & M1 & CM & _) & _ & _).
  exists ps. repeat split; assumption.
Qed.

Print Assumptions exec_preserves_RegOK.
Print Assumptions run_preserves_RegOK.
Print Assumptions lookup_is_self_description.
