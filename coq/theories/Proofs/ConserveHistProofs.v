(* Conservation over histories (C07, conservation half, lifted from single operations to any history): along any
   history every asset whose supply no executed operation is allowed to change keeps its total over any duplicate-free
   roster containing the accounts the operations touch; in particular native coins are never created or destroyed. *)
From HT Require Import Base.Prelude Num.Arith Amm.Formulas Amm.Guards World.World World.Observe
  Proofs.LedgerProofs Proofs.FrameProofs Proofs.WFProofs Proofs.ConserveProofs Proofs.ReachProofs.

(* ------------------------------------------------------------------------------------ *)
(* 1. one step                                                                           *)
(* ------------------------------------------------------------------------------------ *)
(* a failed operation leaves the world unchanged, a successful one conserves by [exec_conserves] *)
Lemma step_conserves : forall w o l y,
  WF w -> NoDup l -> (forall a, In a (touched w o) -> In a l) -> ~ In y (supply_changing w o) ->
  sum_bal (step w o) y l = sum_bal w y l.
Proof.
  intros w o l y HW Hnd Hl Hy. unfold step. destruct (exec w o) as [w'|e] eqn:E; [|reflexivity].
  exact (exec_conserves w o w' l HW E Hnd Hl y Hy).
Qed.

Lemma run_cons : forall w o ops, run w (o :: ops) = run (step w o) ops.
Proof. intros. reflexivity. Qed.

(* ------------------------------------------------------------------------------------ *)
(* 2. histories                                                                          *)
(* ------------------------------------------------------------------------------------ *)
(* along a history: every executed operation touches only accounts of the roster and is not allowed to mint or burn [y] *)
Fixpoint hist_conservative (w : world) (ops : list op) (l : list addr) (y : asset) : Prop :=
  match ops with
  | [] => True
  | o :: rest =>
      (forall a, In a (touched w o) -> In a l) /\ ~ In y (supply_changing w o) /\
      hist_conservative (step w o) rest l y
  end.

Theorem run_conserves : forall ops w l y,
  WF w -> NoDup l -> hist_conservative w ops l y -> sum_bal (run w ops) y l = sum_bal w y l.
Proof.
  induction ops as [|o rest IH]; intros w l y HW Hnd Hh.
  - reflexivity.
  - cbn [hist_conservative] in Hh. destruct Hh as (Hl & Hy & Hrest).
    rewrite run_cons. rewrite (IH (step w o) l y (step_preserves_WF w o HW) Hnd Hrest).
    apply step_conserves; assumption.
Qed.

(* native coins are never created or destroyed: no operation is allowed to change their supply *)
Lemma native_never_supply_changing : forall w o d, ~ In (ANative d) (supply_changing w o).
Proof.
  intros w o d H.
  assert (Hlp : forall p, ~ In (ANative d) (lp_of w p)).
  { intros p Hp. unfold lp_of in Hp. destruct (w_pairs w p); cbn [In] in Hp; [destruct Hp as [Hp|[]]; discriminate Hp|exact Hp]. }
  destruct o; cbn [supply_changing In] in H;
    repeat match goal with
           | H : _ \/ _ |- _ => destruct H as [H|H]
           | H : False |- _ => exact H
           | H : AToken _ = ANative _ |- _ => discriminate H
           | H : In _ (lp_of _ _) |- _ => exact (Hlp _ H)
           | H : context [match ?h with HSwap _ _ _ _ _ => _ | _ => _ end] |- _ => destruct h; cbn [In] in H
           end.
Qed.

Fixpoint hist_touches_within (w : world) (ops : list op) (l : list addr) : Prop :=
  match ops with
  | [] => True
  | o :: rest => (forall a, In a (touched w o) -> In a l) /\ hist_touches_within (step w o) rest l
  end.

Lemma touches_within_conservative : forall ops w l d,
  hist_touches_within w ops l -> hist_conservative w ops l (ANative d).
Proof.
  induction ops as [|o rest IH]; intros w l d H; cbn [hist_conservative]; [exact I|].
  cbn [hist_touches_within] in H. destruct H as (Hl & Hrest).
  split; [exact Hl|]. split; [apply native_never_supply_changing|]. apply IH. exact Hrest.
Qed.

Theorem native_total_constant : forall ops w l d,
  WF w -> NoDup l -> hist_touches_within w ops l ->
  sum_bal (run w ops) (ANative d) l = sum_bal w (ANative d) l.
Proof.
  intros ops w l d HW Hnd Ht. apply run_conserves; [exact HW|exact Hnd|].
  apply touches_within_conservative. exact Ht.
Qed.

(* the same for a cw20 token that no operation of the history mints or burns is [run_conserves] with [y := AToken t] *)

(* ------------------------------------------------------------------------------------ *)
(* 3. a concrete history                                                                 *)
(* ------------------------------------------------------------------------------------ *)
(* three users (1000..1002), factory 0, router 1, asset tokens 2 and 3, first pair 4 with LP token 5.  User 1000 (the
   factory owner) registers denom 0, creates the pair (native 0, token 2), approves and provides 10^6 of each; user
   1001 swaps 5000 of native 0; user 1000 withdraws 1000 LP; user 1002's swap without funds is rejected. *)
Definition cons_L : layout := mkLayout 3 2 2 2.
Definition cons_w0 : world := init_world cons_L 1000000000000 1000 (fun _ => 6).
Definition cons_hist : list op :=
  [ OFacAddNative 1000 0 6;
    OFacCreatePair 1000 (ANative 0) (AToken 2) [1000] 0 0 None None;
    OIncreaseAllowance 2 1000 4 1000000;
    OProvide 4 1000 [(0, 1000000)] (ANative 0) 1000000 (AToken 2) 1000000 None None;
    OSwap 4 1001 [(0, 5000)] (ANative 0) 5000 None None None;
    OSend 5 1000 4 1000 HWithdraw;
    OSwap 4 1002 [] (ANative 0) 5000 None None None ].

Lemma cons_accounts_NoDup : NoDup (accounts cons_L).
Proof.
  vm_compute. repeat (constructor; [cbn [In]; intros H; repeat (destruct H as [H|H]; [discriminate H|]); exact H|]).
  constructor.
Qed.

Lemma cons_hist_within : hist_touches_within cons_w0 cons_hist (accounts cons_L).
Proof.
  vm_compute. repeat split; intros a H;
    repeat (destruct H as [H|H]; [subst a; tauto|]); exact (False_ind _ H).
Qed.

(* which operations of the history succeed *)
Fixpoint outcomes (w : world) (ops : list op) : list bool :=
  match ops with
  | [] => []
  | o :: rest => (match exec w o with Ok _ => true | Err _ => false end) :: outcomes (step w o) rest
  end.

Example native_total_example :
  outcomes cons_w0 cons_hist = [true; true; true; true; true; true; false] /\
  sum_bal cons_w0 (ANative 0) (accounts cons_L) = 3 * 1000000000000 + 1000 /\
  sum_bal (run cons_w0 cons_hist) (ANative 0) (accounts cons_L) = 3 * 1000000000000 + 1000 /\
  map (bal cons_w0 (ANative 0)) [1000; 1001; 1002; 0; 4] = [1000000000000; 1000000000000; 1000000000000; 1000; 0] /\
  map (bal (run cons_w0 cons_hist) (ANative 0)) [1000; 1001; 1002; 0; 4] <>
  map (bal cons_w0 (ANative 0)) [1000; 1001; 1002; 0; 4].
Proof.
  split; [vm_compute; reflexivity|]. split; [vm_compute; reflexivity|]. split; [vm_compute; reflexivity|].
  split; [vm_compute; reflexivity|]. vm_compute. intros E. discriminate E.
Qed.

(* the theorem applies to this history: the computed equality above is an instance of it *)
Example native_total_example_by_theorem : forall d,
  sum_bal (run cons_w0 cons_hist) (ANative d) (accounts cons_L) = sum_bal cons_w0 (ANative d) (accounts cons_L).
Proof.
  intros d. apply native_total_constant.
  - apply init_world_WF.
  - exact cons_accounts_NoDup.
  - exact cons_hist_within.
Qed.

Print Assumptions run_conserves.
Print Assumptions native_never_supply_changing.
Print Assumptions native_total_constant.
Print Assumptions native_total_example.
Print Assumptions native_total_example_by_theorem.
