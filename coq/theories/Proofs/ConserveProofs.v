(* Conservation (C07, conservation half): for every asset whose supply an operation is not allowed to change, the
   sum of all balances over any duplicate-free roster containing the accounts the operation touches is unchanged. *)
From HT Require Import Base.Prelude Num.Arith Amm.Formulas Amm.Guards World.World Proofs.LedgerProofs Proofs.FrameProofs Proofs.WFProofs.
From HT Require Import Proofs.LivenessProofs Proofs.SystemPoolProofs.

(* the assets whose total supply an operation is allowed to change: a cw20's own mint / burn, and the LP token of the
   pair for a provision or a withdrawal (a withdrawal is a cw20 Send of the LP token to its pair with the withdraw hook) *)
Definition lp_of (w : world) (p : addr) : list asset :=
  match w_pairs w p with Some ps => [AToken (p_lp ps)] | None => [] end.
Definition supply_changing (w : world) (o : op) : list asset :=
  match o with
  | OMint ta _ _ _ => [AToken ta]
  | OBurn ta _ _ => [AToken ta]
  | OProvide p _ _ _ _ _ _ _ _ => lp_of w p
  | OSend ta _ target _ HWithdraw => [AToken ta]
  | OPairReceive p _ _ _ _ HWithdraw => lp_of w p
  | OBurnFrom ta _ _ _ => [AToken ta]
  | OSendFrom ta _ _ target _ HWithdraw => [AToken ta]
  | _ => []
  end.

(* ------------------------------------------------------------------------------------ *)
(* generic facts about sums                                                              *)
(* ------------------------------------------------------------------------------------ *)
Lemma sum_same w w' y l : (forall a, In a l -> bal w' y a = bal w y a) -> sum_bal w' y l = sum_bal w y l.
Proof. intros H. rewrite !sum_bal_sumf. apply sumf_ext. exact H. Qed.

Lemma same_bal_conserves w w' y l : same_bal w w' -> sum_bal w' y l = sum_bal w y l.
Proof. intros H. apply sum_same. intros a _. apply H. Qed.

Lemma not_in_single (y x : asset) : ~ In y [x] -> asset_eqb y x = false.
Proof. intros H. apply LedgerProofs.asset_eqb_neq. intros E. apply H. left. symmetry. exact E. Qed.

(* ------------------------------------------------------------------------------------ *)
(* bank                                                                                  *)
(* ------------------------------------------------------------------------------------ *)
(* the total amount of denom [d] in a coin list (duplicates added up) *)
Definition ctot (cs : list coin) (d : denom) : N :=
  fold_right (fun c acc => (if fst c =? d then snd c else 0) + acc) 0 cs.

Lemma bank_sub_all_sum cs : forall b a b' l d, bank_sub_all b a cs = Ok b' -> NoDup l -> In a l ->
  sumf (fun x => b' x d) l + ctot cs d = sumf (fun x => b x d) l.
Proof.
  induction cs as [|[d0 n] cs IH]; intros b a b' l d H Hnd Ha; cbn [bank_sub_all] in H.
  - inversion H. cbn [ctot fold_right]. lia.
  - destruct (n <=? b a d0) eqn:El; [|discriminate]. apply N.leb_le in El.
    pose proof (IH _ _ _ l d H Hnd Ha) as IH1.
    cbn [ctot fold_right fst snd]. fold (ctot cs d).
    assert (Hs : sumf (fun x => upd2 b a d0 (b a d0 - n) x d) l + (if d0 =? d then n else 0) = sumf (fun x => b x d) l).
    { destruct (d0 =? d) eqn:E.
      - apply N.eqb_eq in E. subst d0.
        apply (sumf_dec (fun x => b x d) _ l a n Hnd Ha El).
        intros x _. cbv beta. unfold upd2. rewrite N.eqb_refl, andb_true_r.
        destruct (x =? a) eqn:Ex; [apply N.eqb_eq in Ex; subst x|]; reflexivity.
      - rewrite N.add_0_r. apply sumf_ext. intros x _. cbv beta. unfold upd2.
        rewrite (N.eqb_sym d d0), E, andb_false_r. reflexivity. }
    clear - IH1 Hs. lia.
Qed.

Lemma bank_add_all_sum cs : forall b a b' l d, bank_add_all b a cs = Ok b' -> NoDup l -> In a l ->
  sumf (fun x => b' x d) l = sumf (fun x => b x d) l + ctot cs d.
Proof.
  induction cs as [|[d0 n] cs IH]; intros b a b' l d H Hnd Ha; cbn [bank_add_all] in H.
  - inversion H. cbn [ctot fold_right]. lia.
  - destruct (b a d0 + n <? W128) eqn:El; [|discriminate].
    pose proof (IH _ _ _ l d H Hnd Ha) as IH1.
    cbn [ctot fold_right fst snd]. fold (ctot cs d).
    assert (Hs : sumf (fun x => upd2 b a d0 (b a d0 + n) x d) l = sumf (fun x => b x d) l + (if d0 =? d then n else 0)).
    { destruct (d0 =? d) eqn:E.
      - apply N.eqb_eq in E. subst d0.
        apply (sumf_inc (fun x => b x d) _ l a n Hnd Ha).
        intros x _. cbv beta. unfold upd2. rewrite N.eqb_refl, andb_true_r.
        destruct (x =? a) eqn:Ex; [apply N.eqb_eq in Ex; subst x|]; reflexivity.
      - rewrite N.add_0_r. apply sumf_ext. intros x _. cbv beta. unfold upd2.
        rewrite (N.eqb_sym d d0), E, andb_false_r. reflexivity. }
    clear - IH1 Hs. lia.
Qed.

Theorem bank_send_conserves : forall w from to cs w' l, bank_send w from to cs = Ok w' ->
  NoDup l -> In from l -> In to l -> forall y, sum_bal w' y l = sum_bal w y l.
Proof.
  intros w from to cs w' l H Hnd Hf Ht y.
  apply bank_send_inv in H. destruct H as (nz & b1 & b2 & H1 & H2 & ->).
  destruct y as [d|t].
  - pose proof (bank_sub_all_sum _ _ _ _ l d H1 Hnd Hf) as S1.
    pose proof (bank_add_all_sum _ _ _ _ l d H2 Hnd Ht) as S2.
    rewrite !sum_bal_sumf.
    change (sumf (fun x => b2 x d) l = sumf (fun x => w_bank w x d) l).
    clear - S1 S2. lia.
  - apply sum_same. intros a _. reflexivity.
Qed.

Theorem move_funds_conserves : forall w from to cs w' l, move_funds w from to cs = Ok w' ->
  NoDup l -> In from l -> In to l -> forall y, sum_bal w' y l = sum_bal w y l.
Proof.
  intros w from to cs w' l H Hnd Hf Ht y. unfold move_funds in H. destruct cs as [|c cs].
  - inversion H. reflexivity.
  - eapply bank_send_conserves; eassumption.
Qed.

(* ------------------------------------------------------------------------------------ *)
(* cw20                                                                                  *)
(* ------------------------------------------------------------------------------------ *)
Lemma tok_debit_sum t a n t' l : tok_debit t a n = Ok t' -> NoDup l -> In a l ->
  sumf (t_bal t') l + n = sumf (t_bal t) l.
Proof.
  unfold tok_debit. destruct (n <=? t_bal t a) eqn:E; [|discriminate]. apply N.leb_le in E.
  intros H Hnd Ha. inversion H. subst t'. clear H. cbn [t_bal].
  apply (sumf_dec (t_bal t) _ l a n Hnd Ha E).
  intros x _. unfold upd. destruct (x =? a) eqn:Ex; [apply N.eqb_eq in Ex; subst x|]; reflexivity.
Qed.

Lemma tok_credit_sum t a n t' l : tok_credit t a n = Ok t' -> NoDup l -> In a l ->
  sumf (t_bal t') l = sumf (t_bal t) l + n.
Proof.
  unfold tok_credit. destruct (t_bal t a + n <? W128) eqn:E; [|discriminate].
  intros H Hnd Ha. inversion H. subst t'. clear H. cbn [t_bal].
  apply (sumf_inc (t_bal t) _ l a n Hnd Ha).
  intros x _. unfold upd. destruct (x =? a) eqn:Ex; [apply N.eqb_eq in Ex; subst x|]; reflexivity.
Qed.

(* a cw20 operation that keeps the sum of its own balances over the roster keeps every asset's sum *)
Lemma with_token_conserves w ta f w' l : with_token w ta f = Ok w' ->
  (forall t t', f t = Ok t' -> sumf (t_bal t') l = sumf (t_bal t) l) ->
  forall y, sum_bal w' y l = sum_bal w y l.
Proof.
  intros H Hf y. apply with_token_inv in H. destruct H as (t & t' & Ht & Hft & ->).
  destruct (asset_eqb y (AToken ta)) eqn:Ey.
  - apply LedgerProofs.asset_eqb_eq in Ey. subst y. rewrite !sum_bal_sumf.
    rewrite (sumf_ext (t_bal t') (bal (set_token w ta t') (AToken ta)) l).
    + rewrite (sumf_ext (t_bal t) (bal w (AToken ta)) l).
      * apply Hf. exact Hft.
      * intros a _. cbn [bal]. rewrite Ht. reflexivity.
    + intros a _. rewrite set_token_bal, LedgerProofs.asset_eqb_refl. reflexivity.
  - apply sum_same. intros a _. rewrite set_token_bal, Ey. reflexivity.
Qed.

Theorem tok_transfer_conserves : forall w ta from to n w' l, with_token w ta (fun t => tok_transfer t from to n) = Ok w' ->
  NoDup l -> In from l -> In to l -> forall y, sum_bal w' y l = sum_bal w y l.
Proof.
  intros w ta from to n w' l H Hnd Hf Ht y.
  apply (pay_asset_conserves w from (AToken ta) n to w' l); assumption.
Qed.

Theorem tok_transfer_from_conserves : forall w ta sp ow to n w' l, with_token w ta (fun t => tok_transfer_from t sp ow to n) = Ok w' ->
  NoDup l -> In ow l -> In to l -> forall y, sum_bal w' y l = sum_bal w y l.
Proof.
  intros w ta sp ow to n w' l H Hnd Ho Ht. eapply with_token_conserves; [exact H|].
  intros t t' Hf. cbv beta in Hf. unfold tok_transfer_from in Hf.
  destruct (t_allow t ow sp) as [al|]; [|discriminate].
  destruct (n <=? al); [|discriminate]. cbv zeta in Hf. bnd Hf t1 H1.
  pose proof (tok_debit_sum _ _ _ _ l H1 Hnd Ho) as S1.
  pose proof (tok_credit_sum _ _ _ _ l Hf Hnd Ht) as S2.
  cbn [t_bal] in S1. clear - S1 S2. lia.
Qed.

Theorem tok_mint_other : forall w ta sd to n w', with_token w ta (fun t => tok_mint t sd to n) = Ok w' ->
  forall y, asset_eqb y (AToken ta) = false -> forall a, bal w' y a = bal w y a.
Proof. intros w ta sd to n w' H. eapply with_token_other. exact H. Qed.

Theorem tok_burn_other : forall w ta sd n w', with_token w ta (fun t => tok_burn t sd n) = Ok w' ->
  forall y, asset_eqb y (AToken ta) = false -> forall a, bal w' y a = bal w y a.
Proof. intros w ta sd n w' H. eapply with_token_other. exact H. Qed.

(* ------------------------------------------------------------------------------------ *)
(* pair handlers                                                                         *)
(* ------------------------------------------------------------------------------------ *)
Theorem pair_withdraw_conserves : forall w p ps sender amount w' l, pair_withdraw w p ps sender amount = Ok w' ->
  NoDup l -> In p l -> In sender l -> forall y, asset_eqb y (AToken (p_lp ps)) = false -> sum_bal w' y l = sum_bal w y l.
Proof.
  intros w p ps sender amount w' l H Hnd Hp Hs y Hy. apply pair_withdraw_structure in H.
  destruct H as (total & x0 & x1 & w1 & w2 & _ & _ & P1 & P2 & Pb).
  rewrite (sum_same w2 w' y l) by (intros a _; eapply tok_burn_other; eassumption).
  rewrite (pay_asset_conserves _ _ _ _ _ _ l P2 Hnd Hp Hs y).
  apply (pay_asset_conserves _ _ _ _ _ _ l P1 Hnd Hp Hs y).
Qed.

(* the pull of one pool asset from the caller into the pair *)
Lemma pull_conserves w x p c d w1 l :
  (match x with AToken ta => with_token w ta (fun t => tok_transfer_from t p c p d) | ANative _ => Ok w end) = Ok w1 ->
  NoDup l -> In c l -> In p l -> forall y, sum_bal w1 y l = sum_bal w y l.
Proof.
  intros H Hnd Hc Hp y. destruct x as [dn|ta].
  - inversion H. reflexivity.
  - eapply tok_transfer_from_conserves; eassumption.
Qed.

Theorem pair_provide_conserves : forall w p ps c funds l0 n0 l1 n1 tol rcv w' l,
  pair_provide w p ps c funds l0 n0 l1 n1 tol rcv = Ok w' ->
  NoDup l -> In p l -> In c l -> forall y, asset_eqb y (AToken (p_lp ps)) = false -> sum_bal w' y l = sum_bal w y l.
Proof.
  intros w p ps c funds l0 n0 l1 n1 tol rcv w' l H Hnd Hp Hc y Hy.
  apply pair_provide_structure in H.
  destruct H as (r0 & r1 & d0 & d1 & q0 & q1 & total & share & _ & _ & _ & _ & _ & _ & _ & _ & _ &
                 _ & _ & _ & w1 & w2 & Hw1 & Hw2 & H).
  cbv zeta in H.
  pose proof (pull_conserves _ _ _ _ _ _ l Hw1 Hnd Hc Hp y) as S1.
  pose proof (pull_conserves _ _ _ _ _ _ l Hw2 Hnd Hc Hp y) as S2.
  rewrite <- S1, <- S2. clear S1 S2 Hw1 Hw2.
  destruct (total =? 0).
  - destruct H as (w3 & M1 & _ & M2).
    rewrite (sum_same w3 w' y l) by (intros a _; eapply tok_mint_other; eassumption).
    apply sum_same. intros a _. eapply tok_mint_other; eassumption.
  - apply sum_same. intros a _. eapply tok_mint_other; eassumption.
Qed.

(* Receive: a swap conserves everything; a withdrawal everything but the LP token (which is the calling token) *)
Lemma pair_receive_conserves w p ps c funds cs ca h w' l : pair_receive w p ps c funds cs ca h = Ok w' ->
  NoDup l -> (forall a, In a (hook_touched w p cs h) -> In a l) ->
  forall y, (h = HWithdraw -> c = p_lp ps -> asset_eqb y (AToken (p_lp ps)) = false) ->
  sum_bal w' y l = sum_bal w y l.
Proof.
  intros H Hnd Hl y Hy.
  destruct h as [offer amount bp ms to| |ops m to|]; cbn [pair_receive] in H; try discriminate; cbn [hook_touched] in Hl.
  - destruct (negb (amount =? ca)); [discriminate|].
    bnd H b0 Hb0. bnd H b1 Hb1.
    destruct (negb _); [discriminate|]. destruct (negb _); [discriminate|].
    bnd H r Hs. inversion H. subst w'.
    eapply pair_swap_conserves; [exact Hs | exact Hnd | | |].
    + apply Hl. cbn [In]. auto.
    + apply Hl. cbn [In]. auto.
    + intros t ->. apply Hl. cbn [opt_list In]. auto.
  - destruct (c =? p_lp ps) eqn:Ec; cbn [negb] in H; [|discriminate]. apply N.eqb_eq in Ec.
    eapply pair_withdraw_conserves; [exact H | exact Hnd | | |].
    + apply Hl. cbn [In]. auto.
    + apply Hl. cbn [In]. auto.
    + apply Hy; [reflexivity | exact Ec].
Qed.

(* ------------------------------------------------------------------------------------ *)
(* router                                                                                *)
(* ------------------------------------------------------------------------------------ *)
Lemma router_hop_conserves w offer ask to w' l : router_hop w offer ask to = Ok w' ->
  NoDup l -> In (w_rtr w) l -> (forall a, In a (route_pairs w [(offer, ask)]) -> In a l) ->
  (forall t, to = Some t -> In t l) -> forall y, sum_bal w' y l = sum_bal w y l.
Proof.
  intros H Hnd Hr Hp Ht y. unfold router_hop in H.
  unfold route_pairs in Hp. cbn [flat_map fst snd] in Hp.
  destruct (reg_find (w_reg w) offer ask) as [r|]; [|discriminate]. cbv zeta in H.
  assert (Hpl : In (f_pair r) l) by (apply Hp; cbn [app In]; auto). clear Hp.
  destruct (w_pairs w (f_pair r)) as [ps|]; [|discriminate].
  bnd H amount Ha. destruct offer as [d|ta].
  - bnd H w1 H1. bnd H rr Hs. inversion H. subst w'. clear H.
    rewrite (pair_swap_conserves _ _ _ _ _ _ _ _ _ _ _ l Hs Hnd Hpl Hr Ht y).
    eapply move_funds_conserves; eassumption.
  - bnd H w1 H1.
    rewrite (pair_receive_conserves _ _ _ _ _ _ _ _ _ l H Hnd).
    + eapply tok_transfer_conserves; eassumption.
    + cbn [hook_touched]. intros a [<-|[<-|Ho]]; [exact Hpl | exact Hr |].
      destruct to as [t|]; cbn [opt_list In] in Ho; [|contradiction].
      destruct Ho as [<-|[]]. apply Ht. reflexivity.
    + intros Hc. discriminate Hc.
Qed.

Lemma router_hops_conserves ops : forall w to w' l, router_hops w ops to = Ok w' ->
  NoDup l -> In (w_rtr w) l -> In to l -> (forall a, In a (route_pairs w ops) -> In a l) ->
  forall y, sum_bal w' y l = sum_bal w y l.
Proof.
  induction ops as [|p ops IH]; intros w to w' l H Hnd Hr Ht Hp y.
  - cbn [router_hops] in H. inversion H. reflexivity.
  - destruct ops as [|q rest].
    + destruct p as [o a]. cbn [router_hops] in H.
      eapply router_hop_conserves; [exact H | exact Hnd | exact Hr | exact Hp |].
      intros t E. inversion E. subst t. exact Ht.
    + rewrite FrameProofs.router_hops_cons2 in H. bnd H w1 H1. destruct p as [o a]. cbn [fst snd] in H1.
      pose proof (router_hop_both _ _ _ _ _ H1) as (_ & Kreg & Krtr & _).
      rewrite (route_pairs_cons w (o, a)) in Hp.
      rewrite (IH w1 to w' l H Hnd).
      * eapply router_hop_conserves; [exact H1 | exact Hnd | exact Hr | |].
        -- intros x Hx. apply Hp. apply in_app_iff. left. exact Hx.
        -- intros t E. discriminate E.
      * rewrite Krtr. exact Hr.
      * exact Ht.
      * rewrite (route_pairs_reg _ _ _ Kreg). intros x Hx. apply Hp. apply in_app_iff. right. exact Hx.
Qed.

Lemma router_exec_ops_conserves w sender ops m to w' l : router_exec_ops w sender ops m to = Ok w' ->
  NoDup l -> In (w_rtr w) l -> In sender l -> (forall a, In a (route_pairs w ops) -> In a l) ->
  (forall t, to = Some t -> In t l) -> forall y, sum_bal w' y l = sum_bal w y l.
Proof.
  intros H Hnd Hr Hs Hp Ht y. unfold router_exec_ops in H. destruct ops as [|p ops]; [discriminate|].
  bnd H u Hu. cbv zeta in H.
  assert (Hh : exists w1, router_hops w (p :: ops) (match to with Some t => t | None => sender end) = Ok w1 /\ w' = w1).
  { destruct m as [m|].
    - bnd H prev Hpv. bnd H w1 H1. apply router_assert_min_same in H. eauto.
    - eauto. }
  destruct Hh as (w1 & Hh & ->).
  eapply router_hops_conserves; [exact Hh | exact Hnd | exact Hr | | exact Hp].
  destruct to as [t|]; [apply Ht; reflexivity | exact Hs].
Qed.

(* ------------------------------------------------------------------------------------ *)
(* cw20 Send                                                                             *)
(* ------------------------------------------------------------------------------------ *)
Lemma cw20_send_conserves w ta sd target n h w' l : cw20_send w ta sd target n h = Ok w' ->
  NoDup l -> (forall a, In a (hook_touched w target sd h) -> In a l) ->
  forall y, (h = HWithdraw -> asset_eqb y (AToken ta) = false) -> sum_bal w' y l = sum_bal w y l.
Proof.
  intros H Hnd Hl y Hy. unfold cw20_send in H. bnd H w1 H1.
  pose proof (with_token_keeps _ _ _ _ H1) as (Kreg & Krtr & _).
  assert (Hsd : In sd l) by (apply Hl; destruct h; cbn [hook_touched In]; auto).
  assert (Htg : In target l) by (apply Hl; destruct h; cbn [hook_touched In]; auto).
  pose proof (tok_transfer_conserves _ _ _ _ _ _ l H1 Hnd Hsd Htg y) as S1.
  rewrite <- S1.
  destruct (w_pairs w1 target) as [ps|].
  - eapply pair_receive_conserves; [exact H | exact Hnd | |].
    + assert (E : hook_touched w1 target sd h = hook_touched w target sd h).
      { destruct h; cbn [hook_touched]; try reflexivity. rewrite (route_pairs_reg _ _ _ Kreg). reflexivity. }
      rewrite E. exact Hl.
    + intros Eh Ec. rewrite <- Ec. apply Hy. exact Eh.
  - destruct (target =? w_rtr w1) eqn:Et; [|discriminate]. apply N.eqb_eq in Et.
    destruct h as [| |ops m to|]; try discriminate. cbn [hook_touched] in Hl.
    eapply router_exec_ops_conserves; [exact H | exact Hnd | | exact Hsd | |].
    + rewrite <- Et. exact Htg.
    + rewrite (route_pairs_reg _ _ _ Kreg). intros a Ha. apply Hl. cbn [In]. right. right.
      apply in_app_iff. left. exact Ha.
    + intros t ->. apply Hl. cbn [In]. right. right. apply in_app_iff. right. cbn [opt_list In]. auto.
Qed.

(* SendFrom: the same dispatch after a TransferFrom-like entry transfer *)
Lemma cw20_dispatch_conserves w1 ta sd target n h w' l : cw20_dispatch w1 ta sd target n h = Ok w' ->
  NoDup l -> (forall a, In a (hook_touched w1 target sd h) -> In a l) ->
  forall y, (h = HWithdraw -> asset_eqb y (AToken ta) = false) -> sum_bal w' y l = sum_bal w1 y l.
Proof.
  intros H Hnd Hl y Hy. unfold cw20_dispatch in H.
  assert (Hsd : In sd l) by (apply Hl; destruct h; cbn [hook_touched In]; auto).
  assert (Htg : In target l) by (apply Hl; destruct h; cbn [hook_touched In]; auto).
  destruct (w_pairs w1 target) as [ps|].
  - eapply pair_receive_conserves; [exact H | exact Hnd | exact Hl |].
    intros Eh Ec. rewrite <- Ec. apply Hy. exact Eh.
  - destruct (target =? w_rtr w1) eqn:Et; [|discriminate]. apply N.eqb_eq in Et.
    destruct h as [| |ops m to|]; try discriminate. cbn [hook_touched] in Hl.
    eapply router_exec_ops_conserves; [exact H | exact Hnd | | exact Hsd | |].
    + rewrite <- Et. exact Htg.
    + intros a Ha. apply Hl. cbn [In]. right. right. apply in_app_iff. left. exact Ha.
    + intros t ->. apply Hl. cbn [In]. right. right. apply in_app_iff. right. cbn [opt_list In]. auto.
Qed.

Lemma cw20_send_from_conserves w ta sp ow target n h w' l : cw20_send_from w ta sp ow target n h = Ok w' ->
  NoDup l -> (forall a, In a (ow :: hook_touched w target sp h) -> In a l) ->
  forall y, (h = HWithdraw -> asset_eqb y (AToken ta) = false) -> sum_bal w' y l = sum_bal w y l.
Proof.
  intros H Hnd Hl y Hy. apply cw20_send_from_inv in H. destruct H as (w1 & H1 & H).
  pose proof (with_token_keeps _ _ _ _ H1) as (Kreg & Krtr & _).
  assert (How : In ow l) by (apply Hl; cbn [In]; auto).
  assert (Htg : In target l) by (apply Hl; right; destruct h; cbn [hook_touched In]; auto).
  pose proof (tok_transfer_from_conserves _ _ _ _ _ _ _ l H1 Hnd How Htg y) as S1.
  rewrite <- S1.
  eapply cw20_dispatch_conserves; [exact H | exact Hnd | | exact Hy].
  assert (E : hook_touched w1 target sp h = hook_touched w target sp h).
  { destruct h; cbn [hook_touched]; try reflexivity. rewrite (route_pairs_reg _ _ _ Kreg). reflexivity. }
  rewrite E. intros a Ha. apply Hl. right. exact Ha.
Qed.

Theorem tok_burn_from_other : forall w ta sp ow n w', with_token w ta (fun t => tok_burn_from t sp ow n) = Ok w' ->
  forall y, asset_eqb y (AToken ta) = false -> forall a, bal w' y a = bal w y a.
Proof. intros w ta sp ow n w' H. eapply with_token_other. exact H. Qed.

(* ------------------------------------------------------------------------------------ *)
(* THE theorem                                                                           *)
(* ------------------------------------------------------------------------------------ *)
Ltac in_roster Hl :=
  apply Hl; cbn [hook_touched opt_list app In]; rewrite ?in_app_iff; cbn [opt_list In]; tauto.

Theorem exec_conserves : forall w o w' l, WF w -> exec w o = Ok w' ->
  NoDup l -> (forall a, In a (touched w o) -> In a l) ->
  forall y, ~ In y (supply_changing w o) -> sum_bal w' y l = sum_bal w y l.
Proof.
  intros w o w' l HWF H Hnd Hl y Hy. destruct o; cbn [exec] in H; cbn [touched] in Hl; cbn [supply_changing] in Hy.
  - (* OBankSend *) eapply bank_send_conserves; [exact H | exact Hnd | in_roster Hl | in_roster Hl].
  - (* OTransfer *) eapply tok_transfer_conserves; [exact H | exact Hnd | in_roster Hl | in_roster Hl].
  - (* OTransferFrom *) eapply tok_transfer_from_conserves; [exact H | exact Hnd | in_roster Hl | in_roster Hl].
  - (* OIncreaseAllowance *)
    apply tok_increase_allowance_frame in H. apply sum_same. intros a _. apply H. intros [].
  - (* OMint *) apply sum_same. intros a _. eapply tok_mint_other; [exact H|]. apply not_in_single. exact Hy.
  - (* OBurn *) apply sum_same. intros a _. eapply tok_burn_other; [exact H|]. apply not_in_single. exact Hy.
  - (* OSend *)
    eapply cw20_send_conserves; [exact H | exact Hnd | exact Hl |].
    intros ->. apply not_in_single. exact Hy.
  - (* OProvide *)
    unfold lp_of in Hy.
    destruct (w_pairs w p) as [ps|]; [|discriminate]. bnd H w1 H1.
    assert (Hp : In p l) by in_roster Hl. assert (Hc : In caller l) by in_roster Hl.
    rewrite (pair_provide_conserves _ _ _ _ _ _ _ _ _ _ _ _ l H Hnd Hp Hc y (not_in_single _ _ Hy)).
    eapply move_funds_conserves; eassumption.
  - (* OSwap *)
    destruct (w_pairs w p) as [ps|]; [|discriminate]. bnd H w1 H1.
    destruct (negb _); [discriminate|]. bnd H r Hs. inversion H. subst w'.
    assert (Hp : In p l) by in_roster Hl. assert (Hc : In caller l) by in_roster Hl.
    rewrite (pair_swap_conserves _ _ _ _ _ _ _ _ _ _ _ l Hs Hnd Hp Hc).
    + eapply move_funds_conserves; eassumption.
    + intros t ->. in_roster Hl.
  - (* OPairReceive *)
    unfold lp_of in Hy.
    destruct (w_pairs w p) as [ps|]; [|discriminate]. bnd H w1 H1.
    pose proof (move_funds_keeps _ _ _ _ _ H1) as (Kreg & _ & _).
    assert (Hp : In p l) by (destruct h; in_roster Hl). assert (Hc : In caller l) by in_roster Hl.
    rewrite (pair_receive_conserves _ _ _ _ _ _ _ _ _ l H Hnd).
    + eapply move_funds_conserves; eassumption.
    + assert (E : hook_touched w1 p cw_sender h = hook_touched w p cw_sender h).
      { destruct h; cbn [hook_touched]; try reflexivity. rewrite (route_pairs_reg _ _ _ Kreg). reflexivity. }
      rewrite E. intros a Ha. apply Hl. right. exact Ha.
    + intros -> _. apply not_in_single. exact Hy.
  - (* OPairUpdateDecimals *)
    destruct (w_pairs w p) as [ps|]; [|discriminate].
    apply same_bal_conserves. eapply pair_update_decimals_same_bal. exact H.
  - (* ORouterOps *)
    bnd H w1 H1. pose proof (move_funds_keeps _ _ _ _ _ H1) as (Kreg & Krtr & _).
    assert (Hr : In (w_rtr w) l) by in_roster Hl. assert (Hc : In caller l) by in_roster Hl.
    rewrite (router_exec_ops_conserves _ _ _ _ _ _ l H Hnd).
    + eapply move_funds_conserves; eassumption.
    + rewrite Krtr. exact Hr.
    + exact Hc.
    + rewrite (route_pairs_reg _ _ _ Kreg). intros a Ha. in_roster Hl.
    + intros t ->. in_roster Hl.
  - (* ORouterOp *)
    bnd H w1 H1. destruct (negb _); [discriminate|].
    pose proof (move_funds_keeps _ _ _ _ _ H1) as (Kreg & Krtr & _).
    assert (Hr : In (w_rtr w) l) by in_roster Hl. assert (Hc : In caller l) by in_roster Hl.
    rewrite (router_hop_conserves _ _ _ _ _ l H Hnd).
    + eapply move_funds_conserves; eassumption.
    + rewrite Krtr. exact Hr.
    + rewrite (route_pairs_reg _ _ _ Kreg). intros a Ha. in_roster Hl.
    + intros t ->. in_roster Hl.
  - (* ORouterAssertMin *)
    destruct (negb _); [discriminate|]. apply router_assert_min_same in H. subst w'. reflexivity.
  - (* ORouterReceive *)
    destruct h as [| |ops m to|]; try discriminate. cbn [hook_touched] in Hl.
    eapply router_exec_ops_conserves; [exact H | exact Hnd | in_roster Hl | in_roster Hl | |].
    + intros a Ha. in_roster Hl.
    + intros t ->. in_roster Hl.
  - (* OFacUpdateConfig *) apply same_bal_conserves. eapply fac_update_config_same_bal. exact H.
  - (* OFacCreatePair *)
    apply same_bal_conserves. eapply fac_create_pair_same_bal; [|exact H].
    apply (WF_fresh_tokens w HWF). lia.
  - (* OFacAddNative *) apply same_bal_conserves. eapply fac_add_native_same_bal. exact H.
  - (* OFacMigrate *) apply same_bal_conserves. eapply fac_migrate_pair_same_bal. exact H.
  - (* OSendFrom *)
    eapply cw20_send_from_conserves; [exact H | exact Hnd | exact Hl |].
    intros ->. apply not_in_single. exact Hy.
  - (* OBurnFrom *) apply sum_same. intros a _. eapply tok_burn_from_other; [exact H|]. apply not_in_single. exact Hy.
  - (* ODecreaseAllowance *)
    apply tok_decrease_allowance_frame in H. apply sum_same. intros a _. apply H. intros [].
Qed.

Print Assumptions bank_send_conserves.
Print Assumptions move_funds_conserves.
Print Assumptions tok_transfer_conserves.
Print Assumptions tok_transfer_from_conserves.
Print Assumptions tok_mint_other.
Print Assumptions tok_burn_other.
Print Assumptions pair_withdraw_conserves.
Print Assumptions pair_provide_conserves.
Print Assumptions exec_conserves.
