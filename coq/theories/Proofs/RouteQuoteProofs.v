(* C13, delivery half: the router is a pure pass-through and delivers what it quoted.
   One hop: the router's whole balance of the offer asset goes through the resolved pair and the pair's
   output (equal to the pair's own simulation before the hop) reaches the destination.  Routes of one
   and two hops entered with the router holding exactly the input: the recipient receives exactly the
   router's quote and the router keeps nothing. *)
From HT Require Import Base.Prelude Num.Arith Amm.Formulas Amm.Guards World.World Proofs.LedgerProofs Proofs.RouterProofs Proofs.FrameProofs.

(* ------------------------------------------------------------------------------------------ *)
(* helpers                                                                                     *)
(* ------------------------------------------------------------------------------------------ *)

(* token contracts exist in both worlds or in neither, so balance queries succeed in both or in neither *)
Lemma asset_balance_config w w1 x a r : same_config w w1 -> asset_balance w1 x a = Ok r ->
  asset_balance w x a = Ok (bal w x a).
Proof.
  intros C H. destruct x as [d|t]; cbn [asset_balance bal] in *; [reflexivity|].
  destruct C as (_ & _ & _ & _ & _ & _ & _ & _ & C9). specialize (C9 t).
  destruct (w_tokens w t), (w_tokens w1 t); try contradiction; try discriminate. reflexivity.
Qed.

Lemma asset_balance_config_fwd w w1 x a r : same_config w w1 -> asset_balance w x a = Ok r ->
  asset_balance w1 x a = Ok (bal w1 x a).
Proof.
  intros C H. destruct x as [d|t]; cbn [asset_balance bal] in *; [reflexivity|].
  destruct C as (_ & _ & _ & _ & _ & _ & _ & _ & C9). specialize (C9 t).
  destruct (w_tokens w t), (w_tokens w1 t); try contradiction; try discriminate. reflexivity.
Qed.

(* a successful swap read both reserves and made exactly the settlement payment *)
Lemma pair_swap_inv w p ps funds sender offer amount bp ms to w' ret spread comm :
  pair_swap w p ps funds sender offer amount bp ms to = Ok (w', (ret, spread, comm)) ->
  (exists r0 r1, asset_balance w (p_a0 ps) p = Ok r0 /\ asset_balance w (p_a1 ps) p = Ok r1) /\
  (if ret =? 0 then Ok w
   else pay_asset w p (if asset_eqb offer (p_a0 ps) then p_a1 ps else p_a0 ps) ret
                  (match to with Some t => t | None => sender end)) = Ok w'.
Proof.
  intros H. unfold pair_swap in H.
  bnd H u Hf. bnd H r0 Hr0. bnd H r1 Hr1. bnd H sel Hsel.
  destruct sel as [[[[opool apool] ask'] od] ad].
  bnd H out Hcs. destruct out as [[ret' spread'] comm'].
  bnd H u2 Hms. cbv zeta in H. bnd H w'' Hpay. inversion H. subst w'' ret' spread' comm'. clear H.
  split; [exists r0, r1; split; assumption|].
  assert (Ea : ask' = if asset_eqb offer (p_a0 ps) then p_a1 ps else p_a0 ps).
  { destruct (asset_eqb offer (p_a0 ps)).
    - bnd Hsel o Ho. inversion Hsel. reflexivity.
    - destruct (asset_eqb offer (p_a1 ps)); [|discriminate].
      bnd Hsel o Ho. inversion Hsel. reflexivity. }
  rewrite <- Ea. exact Hpay.
Qed.

(* both entry paths of a hop are the payment router -> pair of the router's whole offer balance,
   followed by the pair's swap crediting the router (or [to]) *)
Lemma router_hop_decompose w offer ask to w' r ps amount :
  router_hop w offer ask to = Ok w' ->
  reg_find (w_reg w) offer ask = Some r -> w_pairs w (f_pair r) = Some ps ->
  asset_balance w offer (w_rtr w) = Ok amount ->
  exists w1 funds out,
    pay_asset w (w_rtr w) offer amount (f_pair r) = Ok w1 /\
    pair_swap w1 (f_pair r) ps funds (w_rtr w) offer amount None None to = Ok (w', out).
Proof.
  intros H Hr Hp Hb. unfold router_hop in H. rewrite Hr in H. cbv zeta in H. rewrite Hp, Hb in H.
  cbn [bind] in H. destruct offer as [d|ta].
  - bnd H w1 H1. bnd H rr Hs. inversion H. subst w'. clear H. destruct rr as [w2 out]. cbn [fst].
    exists w1, [(d, amount)], out. split; [exact H1 | exact Hs].
  - bnd H w1 H1. cbn [pair_receive] in H.
    rewrite N.eqb_refl in H. cbn [negb] in H.
    bnd H b0 Hb0. bnd H b1 Hb1.
    destruct (negb _); [discriminate|]. destruct (negb _); [discriminate|].
    bnd H rr Hs. inversion H. subst w'. clear H. destruct rr as [w2 out]. cbn [fst].
    exists w1, [], out. split; [exact H1 | exact Hs].
Qed.

(* ------------------------------------------------------------------------------------------ *)
(* one hop, complete pointwise description                                                     *)
(* ------------------------------------------------------------------------------------------ *)
Lemma router_hop_full : forall w offer ask to w' r ps amount,
  router_hop w offer ask to = Ok w' ->
  reg_find (w_reg w) offer ask = Some r -> w_pairs w (f_pair r) = Some ps ->
  asset_eqb (p_a0 ps) (p_a1 ps) = false ->
  asset_balance w offer (w_rtr w) = Ok amount ->
  f_pair r <> w_rtr w -> (match to with Some t => t | None => w_rtr w end) <> f_pair r ->
  asset_eqb offer ask = false ->
  (asset_eqb offer (p_a0 ps) = true /\ asset_eqb ask (p_a1 ps) = true) \/ (asset_eqb offer (p_a1 ps) = true /\ asset_eqb ask (p_a0 ps) = true) ->
  exists ret spread comm,
    q_simulation w (f_pair r) offer amount = Ok (ret, spread, comm) /\
    amount = bal w offer (w_rtr w) /\ ret <= bal w ask (f_pair r) /\
    same_config w w' /\
    (forall a, bal w' offer a =
       if a =? w_rtr w then 0 else if a =? f_pair r then bal w offer a + amount else bal w offer a) /\
    (forall a, bal w' ask a =
       if a =? f_pair r then bal w ask a - ret
       else if a =? (match to with Some t => t | None => w_rtr w end) then bal w ask a + ret else bal w ask a) /\
    (forall z a, asset_eqb z offer = false -> asset_eqb z ask = false -> bal w' z a = bal w z a).
Proof.
  intros w offer ask to w' r ps amount H Hr Hp Hne Hb Hprtr Hdp Hoa Hdisj.
  set (p := f_pair r) in *. set (dest := match to with Some t => t | None => w_rtr w end) in *.
  destruct (router_hop_decompose _ _ _ _ _ _ _ _ H Hr Hp Hb) as (w1 & funds & out & Hpay & Hsw).
  fold p in Hpay, Hsw. destruct out as [[ret spread] comm].
  pose proof (pay_asset_effect _ _ _ _ _ _ Hpay) as (Hn0 & Hle & C1 & B1).
  pose proof (pair_swap_inv _ _ _ _ _ _ _ _ _ _ _ _ _ _ Hsw) as ((r0 & r1 & Hr0 & Hr1) & Hset).
  pose proof (pair_swap_settlement _ _ _ _ _ _ _ _ _ _ _ _ _ _ Hsw) as Hst. cbv zeta in Hst.
  destruct Hst as (_ & (x & y & Hcs & Hx & Hy) & C2 & B2).
  assert (Eask : (if asset_eqb offer (p_a0 ps) then p_a1 ps else p_a0 ps) = ask).
  { destruct Hdisj as [[E0 E1]|[E1 E0]].
    - rewrite E0. apply LedgerProofs.asset_eqb_eq in E1. symmetry. exact E1.
    - assert (E : asset_eqb offer (p_a0 ps) = false).
      { apply LedgerProofs.asset_eqb_eq in E1. subst offer. rewrite asset_eqb_sym. exact Hne. }
      rewrite E. apply LedgerProofs.asset_eqb_eq in E0. symmetry. exact E0. }
  rewrite Eask in Hset, Hy, B2. fold dest in Hset, B2.
  apply asset_balance_bal in Hb.
  assert (Erp : (w_rtr w =? p) = false) by (apply N.eqb_neq; congruence).
  assert (Epr : (p =? w_rtr w) = false) by (apply N.eqb_neq; congruence).
  assert (Edp : (dest =? p) = false) by (apply N.eqb_neq; congruence).
  assert (Epd : (p =? dest) = false) by (apply N.eqb_neq; congruence).
  assert (Eao : asset_eqb ask offer = false) by (rewrite asset_eqb_sym; exact Hoa).
  rewrite Erp in B1. rewrite Epd in B2. cbn [negb] in B2.
  (* the pair's reserves seen by the swap *)
  assert (Hx' : x = bal w offer p).
  { rewrite B1, LedgerProofs.asset_eqb_refl, Epr, N.eqb_refl in Hx. clear -Hx. lia. }
  assert (Hy' : y = bal w ask p).
  { rewrite B1, Eao in Hy. exact Hy. }
  assert (Hret : ret <= bal w ask p).
  { destruct (ret =? 0) eqn:E0.
    - apply N.eqb_eq in E0. clear -E0. lia.
    - apply pay_asset_effect in Hset. destruct Hset as (_ & Hl & _ & _).
      rewrite B1, Eao in Hl. exact Hl. }
  exists ret, spread, comm.
  split.
  { unfold q_simulation. fold p. rewrite Hp.
    rewrite (asset_balance_config _ _ _ _ _ C1 Hr0), (asset_balance_config _ _ _ _ _ C1 Hr1). cbn [bind].
    rewrite Hx', Hy' in Hcs. destruct Hdisj as [[E0 E1]|[E1 E0]].
    - rewrite E0. apply LedgerProofs.asset_eqb_eq in E0, E1. subst offer ask. exact Hcs.
    - assert (E : asset_eqb offer (p_a0 ps) = false).
      { apply LedgerProofs.asset_eqb_eq in E1. subst offer. rewrite asset_eqb_sym. exact Hne. }
      rewrite E, E1. apply LedgerProofs.asset_eqb_eq in E0, E1. subst offer ask. exact Hcs. }
  split; [exact Hb|]. split; [exact Hret|].
  split; [eapply same_config_trans; eassumption|].
  split; [|split].
  - intros a. rewrite B2, Hoa. cbn [andb]. rewrite B1, LedgerProofs.asset_eqb_refl.
    destruct (a =? w_rtr w) eqn:Ea; [|reflexivity].
    apply N.eqb_eq in Ea. subst a. clear -Hb. lia.
  - intros a. rewrite B2, LedgerProofs.asset_eqb_refl. cbn [andb].
    destruct (ret =? 0) eqn:E0; cbn [negb andb].
    + apply N.eqb_eq in E0. rewrite B1, Eao.
      rewrite E0, N.sub_0_r, N.add_0_r.
      repeat match goal with |- context [if ?b then _ else _] => destruct b end; reflexivity.
    + rewrite !B1, Eao. reflexivity.
  - intros z a Hzo Hza. rewrite B2, Hza. cbn [andb]. rewrite B1, Hzo. reflexivity.
Qed.

(* ------------------------------------------------------------------------------------------ *)
(* the three theorems                                                                          *)
(* ------------------------------------------------------------------------------------------ *)
Theorem router_hop_delivers : forall w offer ask to w' r ps amount,
  router_hop w offer ask to = Ok w' ->
  reg_find (w_reg w) offer ask = Some r -> w_pairs w (f_pair r) = Some ps ->
  asset_eqb (p_a0 ps) (p_a1 ps) = false ->
  asset_balance w offer (w_rtr w) = Ok amount ->
  let p := f_pair r in
  let dest := match to with Some t => t | None => w_rtr w end in
  p <> w_rtr w -> dest <> p ->
  asset_eqb offer ask = false ->
  (asset_eqb offer (p_a0 ps) = true /\ asset_eqb ask (p_a1 ps) = true) \/ (asset_eqb offer (p_a1 ps) = true /\ asset_eqb ask (p_a0 ps) = true) ->
  bal w ask p + 0 < W128 ->      (* harmless: keeps the statement about 128-bit balances explicit *)
  exists ret spread comm,
    q_simulation w p offer amount = Ok (ret, spread, comm) /\
    bal w' offer (w_rtr w) = (if dest =? w_rtr w then 0 else 0) /\
    (dest <> w_rtr w -> bal w' ask dest = bal w ask dest + ret) /\
    (dest = w_rtr w -> bal w' ask (w_rtr w) = bal w ask (w_rtr w) + ret) /\
    bal w' offer p = bal w offer p + amount /\ bal w' ask p + ret = bal w ask p /\
    w_reg w' = w_reg w /\ w_rtr w' = w_rtr w /\ w_pairs w' = w_pairs w.
Proof.
  intros w offer ask to w' r ps amount H Hr Hp Hne Hb p dest Hprtr Hdp Hoa Hdisj _.
  destruct (router_hop_full _ _ _ _ _ _ _ _ H Hr Hp Hne Hb Hprtr Hdp Hoa Hdisj)
    as (ret & spread & comm & Hq & Ham & Hret & C & Bo & Ba & _).
  fold p in Hq, Hret, Bo, Ba. fold dest in Ba.
  assert (Epr : (p =? w_rtr w) = false) by (apply N.eqb_neq; congruence).
  assert (Edp : (dest =? p) = false) by (apply N.eqb_neq; congruence).
  assert (Hd : bal w' ask dest = bal w ask dest + ret).
  { rewrite Ba, Edp, N.eqb_refl. reflexivity. }
  exists ret, spread, comm.
  split; [exact Hq|].
  split; [rewrite Bo, N.eqb_refl; destruct (dest =? w_rtr w); reflexivity|].
  split; [intros _; exact Hd|].
  split; [intros E; rewrite <- E; exact Hd|].
  split; [rewrite Bo, Epr, N.eqb_refl; reflexivity|].
  split; [rewrite Ba, N.eqb_refl; clear -Hret; lia|].
  destruct C as (C1 & _ & C3 & _ & _ & C6 & _). auto.
Qed.

Theorem route_one_hop_delivers_quote : forall w sender offer ask to w' r ps amount,
  router_exec_ops w sender [(offer, ask)] None to = Ok w' ->
  reg_find (w_reg w) offer ask = Some r -> w_pairs w (f_pair r) = Some ps ->
  asset_eqb (p_a0 ps) (p_a1 ps) = false ->
  asset_balance w offer (w_rtr w) = Ok amount -> bal w ask (w_rtr w) = 0 ->
  let p := f_pair r in
  let rcv := match to with Some t => t | None => sender end in
  p <> w_rtr w -> rcv <> p -> rcv <> w_rtr w -> asset_eqb offer ask = false ->
  (asset_eqb offer (p_a0 ps) = true /\ asset_eqb ask (p_a1 ps) = true) \/ (asset_eqb offer (p_a1 ps) = true /\ asset_eqb ask (p_a0 ps) = true) ->
  exists q, q_router_simulate_ops w amount [(offer, ask)] = Ok q /\
            bal w' ask rcv = bal w ask rcv + q /\
            bal w' offer (w_rtr w) = 0 /\ bal w' ask (w_rtr w) = 0.
Proof.
  intros w sender offer ask to w' r ps amount H Hr Hp Hne Hb Hz p rcv Hprtr Hrp Hrr Hoa Hdisj.
  unfold router_exec_ops in H. bnd H u Hu. cbv zeta in H. fold rcv in H. cbn [router_hops] in H.
  destruct (router_hop_full _ _ _ _ _ _ _ _ H Hr Hp Hne Hb Hprtr Hrp Hoa Hdisj)
    as (ret & spread & comm & Hq & Ham & Hret & C & Bo & Ba & _).
  fold p in Hq, Hret, Bo, Ba.
  assert (Erp : (w_rtr w =? p) = false) by (apply N.eqb_neq; congruence).
  assert (Err' : (w_rtr w =? rcv) = false) by (apply N.eqb_neq; congruence).
  assert (Ercp : (rcv =? p) = false) by (apply N.eqb_neq; congruence).
  exists ret. split.
  { unfold q_router_simulate_ops. cbn [q_router_simulate]. rewrite Hr. fold p. rewrite Hq. reflexivity. }
  split; [rewrite Ba, Ercp, N.eqb_refl; reflexivity|].
  split; [rewrite Bo, N.eqb_refl; reflexivity|].
  rewrite Ba, Erp, Err'. exact Hz.
Qed.

Theorem route_two_hops_deliver_quote : forall w sender a0 a1 a2 to w' r1 ps1 r2 ps2 amount,
  router_exec_ops w sender [(a0, a1); (a1, a2)] None to = Ok w' ->
  reg_find (w_reg w) a0 a1 = Some r1 -> w_pairs w (f_pair r1) = Some ps1 ->
  reg_find (w_reg w) a1 a2 = Some r2 -> w_pairs w (f_pair r2) = Some ps2 ->
  f_pair r1 <> f_pair r2 ->
  asset_eqb (p_a0 ps1) (p_a1 ps1) = false -> asset_eqb (p_a0 ps2) (p_a1 ps2) = false ->
  asset_balance w a0 (w_rtr w) = Ok amount -> bal w a1 (w_rtr w) = 0 -> bal w a2 (w_rtr w) = 0 ->
  let rcv := match to with Some t => t | None => sender end in
  f_pair r1 <> w_rtr w -> f_pair r2 <> w_rtr w -> rcv <> f_pair r1 -> rcv <> f_pair r2 -> rcv <> w_rtr w ->
  asset_eqb a0 a1 = false -> asset_eqb a1 a2 = false -> asset_eqb a0 a2 = false ->
  ((asset_eqb a0 (p_a0 ps1) = true /\ asset_eqb a1 (p_a1 ps1) = true) \/ (asset_eqb a0 (p_a1 ps1) = true /\ asset_eqb a1 (p_a0 ps1) = true)) ->
  ((asset_eqb a1 (p_a0 ps2) = true /\ asset_eqb a2 (p_a1 ps2) = true) \/ (asset_eqb a1 (p_a1 ps2) = true /\ asset_eqb a2 (p_a0 ps2) = true)) ->
  exists q, q_router_simulate_ops w amount [(a0, a1); (a1, a2)] = Ok q /\
            bal w' a2 rcv = bal w a2 rcv + q /\
            bal w' a0 (w_rtr w) = 0 /\ bal w' a1 (w_rtr w) = 0 /\ bal w' a2 (w_rtr w) = 0.
Proof.
  intros w sender a0 a1 a2 to w' r1 ps1 r2 ps2 amount H Hr1 Hp1 Hr2 Hp2 Hpp Hne1 Hne2 Hb Hz1 Hz2 rcv
         Hp1r Hp2r Hrp1 Hrp2 Hrr H01 H12 H02 Hd1 Hd2.
  unfold router_exec_ops in H. bnd H u Hu. cbv zeta in H. fold rcv in H.
  rewrite router_hops_cons2 in H. cbn [fst snd] in H. bnd H w1 Hh1. cbn [router_hops] in H.
  set (p1 := f_pair r1) in *. set (p2 := f_pair r2) in *.
  (* first hop: output stays with the router *)
  assert (Hdp1 : (match @None addr with Some t => t | None => w_rtr w end) <> f_pair r1) by (cbn; fold p1; congruence).
  destruct (router_hop_full _ _ _ _ _ _ _ _ Hh1 Hr1 Hp1 Hne1 Hb Hp1r Hdp1 H01 Hd1)
    as (ret1 & spread1 & comm1 & Hq1 & Ham1 & Hret1 & C1 & Bo1 & Ba1 & Bz1).
  fold p1 in Hq1, Hret1, Bo1, Ba1. clear Hdp1.
  pose proof C1 as (K1 & _ & K3 & _ & _ & K6 & _).
  assert (E10 : asset_eqb a1 a0 = false) by (rewrite asset_eqb_sym; exact H01).
  assert (E21 : asset_eqb a2 a1 = false) by (rewrite asset_eqb_sym; exact H12).
  assert (E20 : asset_eqb a2 a0 = false) by (rewrite asset_eqb_sym; exact H02).
  assert (Erp1 : (w_rtr w =? p1) = false) by (apply N.eqb_neq; congruence).
  assert (Erp2 : (w_rtr w =? p2) = false) by (apply N.eqb_neq; congruence).
  assert (Ep2p1 : (p2 =? p1) = false) by (apply N.eqb_neq; congruence).
  assert (Ep2r : (p2 =? w_rtr w) = false) by (apply N.eqb_neq; congruence).
  assert (Ercp1 : (rcv =? p1) = false) by (apply N.eqb_neq; congruence).
  assert (Ercp2 : (rcv =? p2) = false) by (apply N.eqb_neq; congruence).
  assert (Ercr : (rcv =? w_rtr w) = false) by (apply N.eqb_neq; congruence).
  assert (Errc : (w_rtr w =? rcv) = false) by (apply N.eqb_neq; congruence).
  (* the router's a1 balance after the first hop is the first hop's output *)
  assert (Hamt2 : bal w1 a1 (w_rtr w) = ret1).
  { rewrite Ba1, Erp1, N.eqb_refl, Hz1. apply N.add_0_l. }
  (* second hop, entered in w1 *)
  destruct (router_hop_structure _ _ _ _ _ H) as (r2' & ps2' & amount2 & _ & _ & Hb2 & _).
  pose proof (asset_balance_bal _ _ _ _ Hb2) as Ham2. rewrite K3, Hamt2 in Ham2. subst amount2.
  assert (Hr2' : reg_find (w_reg w1) a1 a2 = Some r2) by (rewrite K6; exact Hr2).
  assert (Hp2' : w_pairs w1 (f_pair r2) = Some ps2) by (rewrite K1; exact Hp2).
  assert (Hp2r' : f_pair r2 <> w_rtr w1) by (rewrite K3; exact Hp2r).
  assert (Hdp2 : (match Some rcv with Some t => t | None => w_rtr w1 end) <> f_pair r2) by exact Hrp2.
  destruct (router_hop_full _ _ _ _ _ _ _ _ H Hr2' Hp2' Hne2 Hb2 Hp2r' Hdp2 H12 Hd2)
    as (ret2 & spread2 & comm2 & Hq2 & _ & Hret2 & C2 & Bo2 & Ba2 & Bz2).
  fold p2 in Hq2, Hret2, Bo2, Ba2. rewrite K3 in Bo2.
  (* the second pair's reserves are untouched by the first hop, so its quote is the same in w *)
  assert (Bp2 : forall z, bal w1 z p2 = bal w z p2).
  { intros z. destruct (asset_eqb z a0) eqn:Ez0.
    - apply LedgerProofs.asset_eqb_eq in Ez0. subst z. rewrite Bo1, Ep2r, Ep2p1. reflexivity.
    - destruct (asset_eqb z a1) eqn:Ez1.
      + apply LedgerProofs.asset_eqb_eq in Ez1. subst z. rewrite Ba1, Ep2p1, Ep2r. reflexivity.
      + apply Bz1; assumption. }
  assert (Hq2w : q_simulation w p2 a1 ret1 = Ok (ret2, spread2, comm2)).
  { unfold q_simulation in Hq2 |- *. rewrite K1 in Hq2. fold p2 in Hp2. rewrite Hp2 in Hq2 |- *.
    destruct (asset_balance w1 (p_a0 ps2) p2) as [x0|e] eqn:X0; cbn [bind] in Hq2; [|discriminate].
    destruct (asset_balance w1 (p_a1 ps2) p2) as [x1|e] eqn:X1; cbn [bind] in Hq2; [|discriminate].
    rewrite (asset_balance_config _ _ _ _ _ C1 X0), (asset_balance_config _ _ _ _ _ C1 X1). cbn [bind].
    apply asset_balance_bal in X0. apply asset_balance_bal in X1. rewrite Bp2 in X0, X1. subst x0 x1.
    exact Hq2. }
  exists ret2. split.
  { unfold q_router_simulate_ops. cbn [q_router_simulate]. rewrite Hr1. fold p1. rewrite Hq1. cbn [bind].
    rewrite Hr2. fold p2. rewrite Hq2w. reflexivity. }
  split.
  { rewrite Ba2, Ercp2, N.eqb_refl. rewrite (Bz1 a2 rcv E20 E21). reflexivity. }
  split.
  { rewrite (Bz2 a0 (w_rtr w) H01 H02). rewrite Bo1, N.eqb_refl. reflexivity. }
  split.
  { rewrite Bo2, N.eqb_refl. reflexivity. }
  rewrite Ba2, Erp2, Errc. rewrite (Bz1 a2 (w_rtr w) E20 E21). exact Hz2.
Qed.

Print Assumptions router_hop_delivers.
Print Assumptions route_one_hop_delivers_quote.
Print Assumptions route_two_hops_deliver_quote.
