(* C12 (reverse simulation): compute_offer_amount in closed form and its rounding bounds. *)
From HT Require Import Base.Prelude Num.Arith Amm.Formulas Proofs.NumProofs Proofs.SwapSpec Proofs.SlippageProofs.

Definition rev_inv (c : N) : N := D * D / (D - c).
Definition rev_t (k c : N) : N := k * rev_inv c / D.

Definition compute_offer_amount_spec (x y k c : N) : res (N * N * N) :=
  if D <=? c then Err Panic else
  let t := rev_t k c in
  if y <=? t then Err Panic else
  let o := x * y / (y - t) - x in
  if x =? 0 then Err Panic else
  if W256 <=? o * (y * D / x) then Err Panic else
  let bs := o * (y * D / x) / D in
  let sp := if t <? bs then bs - t else 0 in
  let m := t * c / D in
  if (o <? W128) && (sp <? W128) && (m <? W128) then Ok (o, sp, m) else Err Panic.

Lemma rev_inv_le c : c < D -> rev_inv c <= D * D.
Proof.
  intros Hc. unfold rev_inv. apply N.div_le_upper_bound; [lia|].
  remember (D * D) as P. assert (1 <= D - c) by lia. nia.
Qed.

Theorem compute_offer_amount_eq_spec x y k c :
  x < W128 -> y < W128 -> k < W128 ->
  compute_offer_amount x y k c = compute_offer_amount_spec x y k c.
Proof.
  intros Hx Hy Hk.
  pose proof (mul_lt_W256 x y Hx Hy) as Hxy.
  unfold compute_offer_amount, compute_offer_amount_spec.
  rewrite (uint_mul_ok x y Hxy). cbn [bind].
  unfold dec_sub, dec_one.
  destruct (D <=? c) eqn:Ec.
  { destruct (N.eq_dec c D) as [->|Hne].
    - rewrite u256_sub_ok by lia. cbn [bind]. rewrite N.sub_diag. reflexivity.
    - rewrite u256_sub_err by lia. reflexivity. }
  rewrite u256_sub_ok by lia. cbn [bind].
  unfold dec_div. destruct (D - c =? 0) eqn:E0; [lia|].
  assert (HDD : D * D < W256) by (rewrite W256_val, D_val; lia).
  rewrite u256_mul_ok by exact HDD. cbn [bind]. fold (rev_inv c).
  pose proof (rev_inv_le c ltac:(lia)) as Hinv.
  assert (Hki : k * rev_inv c < W256).
  { remember (rev_inv c) as iv. rewrite W256_val. rewrite W128_val in Hk. rewrite D_val in Hinv. nia. }
  rewrite uint_mul_dec_ok by exact Hki. cbn [bind]. fold (rev_t k c). cbv zeta.
  unfold uint_sub.
  destruct (y <=? rev_t k c) eqn:Eyt.
  { destruct (N.eq_dec y (rev_t k c)) as [E|Hne].
    - rewrite u256_sub_ok by lia. cbn [bind]. rewrite E, N.sub_diag. reflexivity.
    - rewrite u256_sub_err by lia. reflexivity. }
  rewrite u256_sub_ok by lia. cbn [bind].
  remember (rev_t k c) as t eqn:Et.
  rewrite uint_multiply_ratio_ok by lia. cbn [bind]. rewrite N.mul_1_l.
  assert (Hq : x <= x * y / (y - t)).
  { apply N.div_le_lower_bound; [lia|]. assert (Hyt : y - t <= y) by lia. clear - Hyt. nia. }
  rewrite u256_sub_ok by exact Hq. cbn [bind].
  destruct (x =? 0) eqn:Ex.
  { assert (x = 0) by lia. subst x. reflexivity. }
  rewrite dec_from_ratio_ok by (try apply lt128_mulD; try assumption; lia). cbn [bind].
  remember (x * y / (y - t) - x) as o eqn:Eo.
  remember (y * D / x) as rate eqn:Er.
  destruct (W256 <=? o * rate) eqn:Eov.
  { rewrite uint_mul_dec_err by lia. reflexivity. }
  rewrite uint_mul_dec_ok by lia. cbn [bind].
  assert (Htc : t * c < W256).
  { assert (Ht128 : t < W128) by lia. assert (Hc' : c <= D) by lia. clear - Ht128 Hc'.
    rewrite W256_val. rewrite W128_val in *. rewrite D_val in *. nia. }
  assert (Hbs : o * rate / D < W256).
  { apply N.le_lt_trans with (o * rate); [apply div_le_self | lia]. }
  remember (o * rate / D) as bs eqn:Ebs.
  assert (Ho256 : o < W256).
  { subst o. apply N.le_lt_trans with (x * y / (y - t)); [lia|].
    apply N.le_lt_trans with (x * y); [|exact Hxy].
    apply div_le_self. }
  assert (Hm : t * c / D <= t).
  { apply N.div_le_upper_bound; [rewrite D_val; lia|]. assert (Hc' : c <= D) by lia. clear - Hc'. nia. }
  remember (t * c / D) as m eqn:Em.
  destruct (t <? bs) eqn:Etb.
  - rewrite u256_sub_ok by lia. cbn [bind]. rewrite uint_mul_dec_ok by exact Htc. cbn [bind]. rewrite <- Em.
    rewrite !uint_to_u128_spec by lia.
    destruct (o <? W128); [|reflexivity]. cbn [bind andb].
    destruct (bs - t <? W128); [|reflexivity]. cbn [bind andb].
    destruct (m <? W128); reflexivity.
  - cbn [bind]. rewrite uint_mul_dec_ok by exact Htc. cbn [bind]. rewrite <- Em.
    assert (HW : W128 < W256) by (rewrite W128_val, W256_val; lia).
    assert (Ho' : o < W256) by lia. assert (Hz' : 0 < W256) by lia. assert (Hm' : m < W256) by lia.
    rewrite (uint_to_u128_spec o Ho'), (uint_to_u128_spec 0 Hz'), (uint_to_u128_spec m Hm').
    destruct (o <? W128); [|reflexivity]. cbn [bind andb].
    change (0 <? W128) with true. cbn [bind andb].
    destruct (m <? W128); reflexivity.
Qed.

Local Open Scope Z_scope.
Lemma rev_t_core (k om iv t Dz : Z) :
  0 < om -> 0 < Dz -> 0 <= k -> 0 <= t -> 0 <= iv ->
  iv * om <= Dz * Dz < (iv + 1) * om ->
  t * Dz <= k * iv < (t + 1) * Dz ->
  t * om <= k * Dz /\ k * Dz * Dz < (t + 1) * Dz * om + k * om.
Proof.
  intros Hom HD Hk Ht Hiv [I1 I2] [T1 T2]. split.
  - assert (t * Dz * om <= k * Dz * Dz) by nia. nia.
  - assert (A : k * (Dz * Dz) <= k * ((iv + 1) * om)) by nia.
    assert (B : k * iv * om < (t + 1) * Dz * om) by nia. nia.
Qed.
Local Close Scope Z_scope.

Theorem reverse_bounds x y k c o s m :
  x < W128 -> y < W128 -> k < W128 ->
  compute_offer_amount x y k c = Ok (o, s, m) ->
  c < D /\
  exists t,
    t < y /\
    t * (D - c) <= k * D /\                               (* t <= k/(1-c) *)
    k * D * D < (t + 1) * D * (D - c) + k * (D - c) /\    (* k/(1-c) - k/10^18 - 1 < t *)
    o = x * y / (y - t) - x /\
    m = t * c / D.
Proof.
  intros Hx Hy Hk. rewrite compute_offer_amount_eq_spec by assumption. unfold compute_offer_amount_spec.
  destruct (D <=? c) eqn:Ec; [discriminate|]. cbv zeta.
  destruct (y <=? rev_t k c) eqn:Eyt; [discriminate|].
  destruct (x =? 0); [discriminate|].
  destruct (W256 <=? _); [discriminate|].
  destruct (_ && _); [|discriminate].
  intros H; injection H as <- _ <-.
  split; [lia|]. exists (rev_t k c). split; [lia|].
  assert (Hom : 0 < D - c) by lia.
  pose proof (div_sandwich (D * D) (D - c) Hom) as [I1 I2]. fold (rev_inv c) in I1, I2.
  pose proof (div_sandwich (k * rev_inv c) D D_pos) as [T1 T2]. fold (rev_t k c) in T1, T2.
  remember (rev_inv c) as iv. remember (rev_t k c) as t. pose proof D_pos as HD.
  destruct (rev_t_core (Z.of_N k) (Z.of_N (D - c)) (Z.of_N iv) (Z.of_N t) (Z.of_N D)) as [R1 R2]; [lia..|].
  clear Heqiv. repeat split; lia.
Qed.

(* never above the closed form: any t' >= t (in particular the exact k/(1-c)) gives a larger quotient *)
Lemma reverse_le_closed_form x y t t' : t <= t' -> t' < y -> x * y / (y - t) <= x * y / (y - t').
Proof. intros H1 H2. apply N.div_le_compat_l. lia. Qed.
