(* Registry: order on byte strings, sorted store, pagination walk (C19), key injectivity (C16). *)
From HT Require Import Base.Prelude Reg.Registry.
From Coq Require Import Sorting.Sorted.

(* ---- bytes_cmp is a strict total order ---- *)
Lemma bytes_cmp_refl a : bytes_cmp a a = Eq.
Proof. induction a as [|x a IH]; cbn; [reflexivity|]. now rewrite N.compare_refl. Qed.

Lemma bytes_cmp_eq a b : bytes_cmp a b = Eq -> a = b.
Proof.
  revert b; induction a as [|x a IH]; intros [|y b]; cbn; try discriminate; [reflexivity|].
  destruct (x ?= y) eqn:E; try discriminate. apply N.compare_eq in E. subst y.
  intros H. f_equal. now apply IH.
Qed.

Lemma bytes_cmp_antisym a b : bytes_cmp b a = CompOpp (bytes_cmp a b).
Proof.
  revert b; induction a as [|x a IH]; intros [|y b]; cbn; try reflexivity.
  rewrite (N.compare_antisym x y). destruct (x ?= y); cbn; [apply IH|reflexivity|reflexivity].
Qed.

Lemma bytes_cmp_lt_trans a b c : bytes_cmp a b = Lt -> bytes_cmp b c = Lt -> bytes_cmp a c = Lt.
Proof.
  revert b c; induction a as [|x a IH]; intros [|y b] [|z c]; cbn; try discriminate; try reflexivity.
  destruct (x ?= y) eqn:E1; try discriminate; destruct (y ?= z) eqn:E2; try discriminate.
  - apply N.compare_eq in E1, E2. subst. rewrite N.compare_refl. apply IH.
  - apply N.compare_eq in E1. subst. rewrite E2. reflexivity.
  - apply N.compare_eq in E2. subst. rewrite E1. reflexivity.
  - intros _ _. assert (H : (x ?= z) = Lt).
    { apply N.compare_lt_iff. eapply N.lt_trans; apply N.compare_lt_iff; eassumption. }
    now rewrite H.
Qed.

Lemma bytes_ltb_irrefl a : bytes_ltb a a = false.
Proof. unfold bytes_ltb. now rewrite bytes_cmp_refl. Qed.

Lemma bytes_ltb_asym a b : bytes_cmp a b = Lt -> bytes_ltb b a = false.
Proof. intros H. unfold bytes_ltb. rewrite bytes_cmp_antisym, H. reflexivity. Qed.

Lemma bytes_eqb_eq a b : bytes_eqb a b = true <-> a = b.
Proof.
  unfold bytes_eqb. split.
  - destruct (bytes_cmp a b) eqn:E; try discriminate. intros _. now apply bytes_cmp_eq.
  - intros ->. now rewrite bytes_cmp_refl.
Qed.

(* ---- pair_key ---- *)
Lemma pair_key_sym a b : pair_key a b = pair_key b a.
Proof.
  unfold pair_key, bytes_leb. rewrite (bytes_cmp_antisym a b).
  destruct (bytes_cmp a b) eqn:E; cbn; try reflexivity.
  apply bytes_cmp_eq in E. now subst.
Qed.

Definition is_prefix (u v : bytes) : Prop := exists w, v = u ++ w.
Definition prefix_free (U : bytes -> Prop) : Prop :=
  forall u v, U u -> U v -> is_prefix u v -> u = v.

Lemma app_eq_prefix (x y z w : bytes) : x ++ y = z ++ w -> is_prefix x z \/ is_prefix z x.
Proof.
  revert z; induction x as [|a x IH]; intros z H.
  - left. exists z. reflexivity.
  - destruct z as [|b z]; [right; exists (a :: x); reflexivity|].
    cbn in H. injection H as -> H. destruct (IH z H) as [[u ->]|[u ->]].
    + left. exists u. reflexivity.
    + right. exists u. reflexivity.
Qed.

Lemma app_inj_prefix_free U x y z w :
  prefix_free U -> U x -> U z -> x ++ y = z ++ w -> x = z /\ y = w.
Proof.
  intros PF Hx Hz H. destruct (app_eq_prefix _ _ _ _ H) as [P|P].
  - pose proof (PF x z Hx Hz P) as ->. split; [reflexivity|]. now apply app_inv_head in H.
  - pose proof (PF z x Hz Hx P) as ->. split; [reflexivity|]. now apply app_inv_head in H.
Qed.

Theorem pair_key_inj U a b c d :
  prefix_free U -> U a -> U b -> U c -> U d ->
  pair_key a b = pair_key c d -> (a = c /\ b = d) \/ (a = d /\ b = c).
Proof.
  intros PF Ha Hb Hc Hd. unfold pair_key.
  destruct (bytes_leb a b), (bytes_leb c d); intros H;
    match type of H with ?x ++ ?y = ?z ++ ?w =>
      destruct (app_inj_prefix_free U x y z w PF ltac:(assumption) ltac:(assumption) H) as [-> ->] end; tauto.
Qed.

(* ---- sorted stores ---- *)
Section Sorted.
  Context {V : Type}.
  Definition elt (e1 e2 : bytes * V) : Prop := bytes_cmp (fst e1) (fst e2) = Lt.
  Definition Sorted_store (st : @store V) : Prop := StronglySorted elt st.

  Lemma elt_trans e1 e2 e3 : elt e1 e2 -> elt e2 e3 -> elt e1 e3.
  Proof. unfold elt. apply bytes_cmp_lt_trans. Qed.

  Lemma sorted_app_inv (l1 l2 : @store V) :
    Sorted_store (l1 ++ l2) ->
    Sorted_store l1 /\ Sorted_store l2 /\ (forall x y, In x l1 -> In y l2 -> elt x y).
  Proof.
    induction l1 as [|a l1 IH]; cbn; intros H.
    - split; [constructor|]. split; [exact H|]. intros x y [].
    - inversion H as [|? ? Hs Hall]; subst. destruct (IH Hs) as (S1 & S2 & C).
      rewrite Forall_app in Hall. destruct Hall as [A1 A2].
      split; [constructor; assumption|]. split; [exact S2|].
      intros x y [->|Hx] Hy; [|now apply C]. rewrite Forall_forall in A2. now apply A2.
  Qed.

  Lemma filter_all_false (f : bytes * V -> bool) l : (forall x, In x l -> f x = false) -> filter f l = [].
  Proof.
    induction l as [|a l IH]; cbn; intros H; [reflexivity|].
    rewrite (H a (or_introl eq_refl)). apply IH. intros x Hx. apply H. now right.
  Qed.
  Lemma filter_all_true (f : bytes * V -> bool) l : (forall x, In x l -> f x = true) -> filter f l = l.
  Proof.
    induction l as [|a l IH]; cbn; intros H; [reflexivity|].
    rewrite (H a (or_introl eq_refl)). f_equal. apply IH. intros x Hx. apply H. now right.
  Qed.

  (* the entries strictly after the key of [e] are exactly the suffix behind [e] *)
  Lemma filter_after_sorted pre e suf :
    Sorted_store (pre ++ e :: suf) ->
    filter (after_bound (Some (fst e))) (pre ++ e :: suf) = suf.
  Proof.
    intros HS. destruct (sorted_app_inv pre (e :: suf) HS) as (S1 & S2 & C).
    inversion S2 as [|? ? S3 Hall]; subst. rewrite Forall_forall in Hall.
    rewrite filter_app. cbn [filter]. unfold after_bound at 2. rewrite bytes_ltb_irrefl.
    rewrite filter_all_false, filter_all_true; [reflexivity| |].
    - intros x Hx. unfold after_bound, bytes_ltb. now rewrite (Hall x Hx).
    - intros x Hx. unfold after_bound. apply bytes_ltb_asym. apply (C x e Hx). now left.
  Qed.

  (* insertion keeps the store sorted *)
  Lemma insert_In k v (st : @store V) x : In x (store_insert k v st) -> x = (k, v) \/ In x st.
  Proof.
    induction st as [|[k' v'] st IH]; cbn; [intros [<-|[]]; now left|].
    destruct (bytes_cmp k k'); cbn; intros H.
    - destruct H as [<-|H]; [now left|right; now right].
    - destruct H as [<-|H]; [now left|now right].
    - destruct H as [<-|H]; [right; now left|]. destruct (IH H) as [->|H']; [now left|right; now right].
  Qed.

  Lemma insert_sorted k v (st : @store V) : Sorted_store st -> Sorted_store (store_insert k v st).
  Proof.
    induction st as [|[k' v'] st IH]; cbn; intros HS; [repeat constructor|].
    inversion HS as [|? ? S1 Hall]; subst.
    destruct (bytes_cmp k k') eqn:E.
    - apply bytes_cmp_eq in E. subst k'. constructor; [exact S1|].
      rewrite Forall_forall in *. intros x Hx. apply (Hall x Hx).
    - constructor; [exact HS|]. constructor; [exact E|].
      rewrite Forall_forall in *. intros x Hx. eapply elt_trans; [|apply (Hall x Hx)]. exact E.
    - constructor; [now apply IH|]. rewrite Forall_forall in *. intros x Hx.
      destruct (insert_In _ _ _ _ Hx) as [->|Hx']; [|now apply Hall].
      unfold elt. cbn. rewrite bytes_cmp_antisym, E. reflexivity.
  Qed.

  Lemma get_insert_same k v (st : @store V) : store_get k (store_insert k v st) = Some v.
  Proof.
    induction st as [|[k' v'] st IH]; cbn.
    - unfold bytes_eqb. now rewrite bytes_cmp_refl.
    - destruct (bytes_cmp k k') eqn:E; cbn.
      + unfold bytes_eqb. now rewrite bytes_cmp_refl.
      + unfold bytes_eqb. now rewrite bytes_cmp_refl.
      + unfold bytes_eqb at 1. rewrite E. exact IH.
  Qed.

  Lemma get_insert_other k k2 v (st : @store V) :
    k2 <> k -> store_get k2 (store_insert k v st) = store_get k2 st.
  Proof.
    intros Hne. induction st as [|[k' v'] st IH]; cbn.
    - destruct (bytes_eqb k2 k) eqn:E; [apply bytes_eqb_eq in E; contradiction|reflexivity].
    - destruct (bytes_cmp k k') eqn:E; cbn.
      + apply bytes_cmp_eq in E. subst k'.
        destruct (bytes_eqb k2 k) eqn:E2; [apply bytes_eqb_eq in E2; contradiction|reflexivity].
      + destruct (bytes_eqb k2 k) eqn:E2; [apply bytes_eqb_eq in E2; contradiction|reflexivity].
      + destruct (bytes_eqb k2 k'); [reflexivity|exact IH].
  Qed.
End Sorted.

(* ---- pagination ---- *)
Lemma last_app_ne {A} (l1 l2 : list A) d : l2 <> [] -> last (l1 ++ l2) d = last l2 d.
Proof.
  intros Hne. induction l1 as [|a l1 IH]; [reflexivity|].
  cbn [app]. destruct (l1 ++ l2) eqn:E.
  - destruct l1; cbn in E; [contradiction|discriminate].
  - cbn [last]. exact IH.
Qed.

Lemma exists_last_or_nil {A} (l : list A) : l = [] \/ exists l' a, l = l' ++ [a].
Proof.
  destruct l as [|x l]; [now left|right].
  destruct (@exists_last A (x :: l) ltac:(discriminate)) as (l' & a & E). eauto.
Qed.

Lemma last_map_some {A B} (f : A -> B) (l : list A) x :
  last (map (fun e => Some (f e)) (l ++ [x])) None = Some (f x).
Proof. rewrite map_app. cbn [map]. apply last_last. Qed.

Section Walk.
  Context {V : Type}.
  Variable assets : V -> bytes * bytes.
  (* every record is stored under the key of its own assets (part of RegOK) *)
  Definition KeyOK (st : @store V) : Prop :=
    forall e, In e st ->
      pair_key (fst (assets (snd e))) (snd (assets (snd e))) = fst e.

  Definition cursor_of (done : @store V) : option (bytes * bytes) :=
    last (map (fun e => Some (assets (snd e))) done) None.

  Lemma cursor_of_app done page : page <> [] -> cursor_of (done ++ page) = cursor_of page.
  Proof.
    intros Hne. unfold cursor_of. rewrite map_app. apply last_app_ne.
    destruct page; [contradiction|discriminate].
  Qed.

  Lemma cursor_of_snoc done e : cursor_of (done ++ [e]) = Some (assets (snd e)).
  Proof. unfold cursor_of. apply (last_map_some (fun e => assets (snd e))). Qed.

  (* what a page is: the next [limit] entries after the cursor *)
  Lemma read_pairs_after done suf limit :
    Sorted_store (done ++ suf) -> KeyOK (done ++ suf) ->
    read_pairs (done ++ suf) (cursor_of done) limit = firstn (page_limit limit) suf.
  Proof.
    intros HS HK. unfold read_pairs. f_equal.
    destruct (exists_last_or_nil done) as [->|(d' & e & ->)].
    - cbn. apply filter_all_true. reflexivity.
    - rewrite cursor_of_snoc. unfold calc_range_start.
      destruct (assets (snd e)) as [a b] eqn:Ea.
      assert (Hk : pair_key a b = fst e).
      { pose proof (HK e) as H. rewrite Ea in H. apply H. rewrite in_app_iff. left. rewrite in_app_iff. right. now left. }
      rewrite Hk. rewrite <- app_assoc. cbn [app]. apply filter_after_sorted.
      rewrite <- app_assoc in HS. exact HS.
  Qed.

  Theorem walk_complete fuel : forall done suf limit,
    (length suf < fuel)%nat -> (0 < page_limit limit)%nat ->
    Sorted_store (done ++ suf) -> KeyOK (done ++ suf) ->
    concat (walk assets fuel (done ++ suf) (cursor_of done) limit) = suf.
  Proof.
    induction fuel as [|fuel IH]; intros done suf limit Hf HL HS HK; [lia|].
    cbn [walk]. rewrite read_pairs_after by assumption.
    destruct suf as [|s suf].
    - rewrite firstn_nil. reflexivity.
    - set (page := firstn (page_limit limit) (s :: suf)).
      assert (Hne : page <> []).
      { unfold page. destruct (page_limit limit); [lia|]. discriminate. }
      fold (cursor_of page).
      destruct (cursor_of page) as [c|] eqn:Ec.
      + cbn [concat].
        assert (Hsplit : s :: suf = page ++ skipn (page_limit limit) (s :: suf)).
        { unfold page. symmetry. apply firstn_skipn. }
        assert (Ec' : cursor_of (done ++ page) = Some c) by (rewrite cursor_of_app; assumption).
        rewrite <- Ec'.
        assert (Hst : done ++ s :: suf = (done ++ page) ++ skipn (page_limit limit) (s :: suf)).
        { rewrite <- app_assoc. f_equal. exact Hsplit. }
        rewrite Hst. rewrite IH.
        * symmetry. exact Hsplit.
        * rewrite skipn_length. cbn [length] in *. lia.
        * exact HL.
        * rewrite <- Hst. exact HS.
        * rewrite <- Hst. exact HK.
      + exfalso. unfold cursor_of in Ec.
        destruct (exists_last_or_nil page) as [E|(p' & e & E)]; [contradiction|].
        rewrite E, (last_map_some (fun e => assets (snd e))) in Ec. discriminate.
  Qed.
End Walk.

(* ---- page sizes ---- *)
Lemma page_limit_le_30 limit : (page_limit limit <= 30)%nat.
Proof. unfold page_limit, MAX_LIMIT. destruct limit as [l|]; lia. Qed.
Lemma page_limit_default : page_limit None = 10%nat.
Proof. reflexivity. Qed.
Lemma read_pairs_size {V} (st : @store V) c limit :
  (length (read_pairs st c limit) <= page_limit limit)%nat /\ (length (read_pairs st c limit) <= 30)%nat.
Proof.
  unfold read_pairs. pose proof (firstn_le_length (page_limit limit) (filter (after_bound (calc_range_start c)) st)).
  pose proof (page_limit_le_30 limit). lia.
Qed.

Theorem walk_from_start {V} (assets : V -> bytes * bytes) (st : @store V) limit :
  (0 < page_limit limit)%nat -> Sorted_store st -> KeyOK assets st ->
  concat (walk assets (S (length st)) st None limit) = st /\
  read_pairs st (cursor_of assets st) limit = [].
Proof.
  intros HL HS HK. split.
  - apply (walk_complete assets (S (length st)) [] st limit); try assumption. lia.
  - pose proof (read_pairs_after assets st [] limit) as H. rewrite app_nil_r in H.
    rewrite H by assumption. apply firstn_nil.
Qed.

Lemma sorted_keys_nodup {V} (st : @store V) : Sorted_store st -> NoDup (map fst st).
Proof.
  induction st as [|e st IH]; intros HS; cbn; [constructor|].
  inversion HS as [|? ? S1 Hall]; subst. constructor; [|now apply IH].
  rewrite Forall_forall in Hall. intros Hin. apply in_map_iff in Hin. destruct Hin as (x & Ex & Hx).
  specialize (Hall x Hx). unfold elt in Hall. rewrite <- Ex, bytes_cmp_refl in Hall. discriminate.
Qed.

(* ---- creation / lookup ---- *)
Section Create.
  Context {V : Type}.
  Variable U : bytes -> Prop.
  Hypothesis PF : prefix_free U.

  Definition same_set_r (a b c d : rasset) : Prop :=
    (ra_bytes a = ra_bytes c /\ ra_bytes b = ra_bytes d) \/ (ra_bytes a = ra_bytes d /\ ra_bytes b = ra_bytes c).

  Lemma rkey_sym a b : rkey a b = rkey b a.
  Proof. apply pair_key_sym. Qed.

  Lemma rkey_inj a b c d :
    U (ra_bytes a) -> U (ra_bytes b) -> U (ra_bytes c) -> U (ra_bytes d) ->
    rkey a b = rkey c d -> same_set_r a b c d.
  Proof. intros. unfold same_set_r. now apply (pair_key_inj U). Qed.

  Lemma create_same_asset_rejected (st : @store V) a v : reg_create st a a v = Err EStd.
  Proof.
    unfold reg_create, rasset_eqb. rewrite Bool.eqb_reflx.
    replace (bytes_eqb (ra_bytes a) (ra_bytes a)) with true by (symmetry; now apply bytes_eqb_eq). reflexivity.
  Qed.

  Lemma create_duplicate_rejected (st : @store V) a b v w :
    reg_lookup st a b = Some w -> reg_create st a b v = Err EStd /\ reg_create st b a v = Err EStd.
  Proof.
    unfold reg_lookup, reg_create. intros H. rewrite <- (rkey_sym a b), H.
    split; [destruct (rasset_eqb a b)|destruct (rasset_eqb b a)]; reflexivity.
  Qed.

  Lemma create_lookup (st st' : @store V) a b v :
    reg_create st a b v = Ok st' ->
    reg_lookup st' a b = Some v /\ reg_lookup st' b a = Some v /\
    (forall c d, rkey c d <> rkey a b -> reg_lookup st' c d = reg_lookup st c d) /\
    (Sorted_store st -> Sorted_store st') /\ reg_lookup st a b = None.
  Proof.
    unfold reg_create, reg_lookup. destruct (rasset_eqb a b); [discriminate|].
    destruct (store_get (rkey a b) st) eqn:G; [discriminate|]. intros H; injection H as <-.
    rewrite <- (rkey_sym a b), get_insert_same.
    repeat split; try reflexivity.
    - intros c d Hne. now apply get_insert_other.
    - apply insert_sorted.
  Qed.

  (* history level: after any sequence of creation attempts over a prefix-free identifier
     universe, every successfully created set resolves (in either order) to its own record,
     every other set resolves to nothing, and the store stays sorted. *)
  Definition ops_in_U (ops : list (rasset * rasset * V)) : Prop :=
    forall a b v, In (a, b, v) ops -> U (ra_bytes a) /\ U (ra_bytes b).

  Definition RegInv (st : @store V) (created : list (rasset * rasset * V)) : Prop :=
    Sorted_store st /\
    (forall a b v, In (a, b, v) created -> reg_lookup st a b = Some v /\ reg_lookup st b a = Some v) /\
    (forall c d, U (ra_bytes c) -> U (ra_bytes d) ->
       (forall a b v, In (a, b, v) created -> ~ same_set_r c d a b) -> reg_lookup st c d = None) /\
    ops_in_U created.

  Lemma reg_step_inv st created o :
    ops_in_U [o] -> RegInv st created ->
    exists created', RegInv (reg_step st o) created' /\
                     (created' = created \/ created' = o :: created).
  Proof.
    destruct o as [[a b] v]. intros HU (HS & H1 & H2 & HUc). unfold reg_step.
    destruct (reg_create st a b v) as [st'|e] eqn:E.
    - exists ((a, b, v) :: created). split; [|now right].
      destruct (create_lookup st st' a b v E) as (L1 & L2 & L3 & L4 & L5).
      destruct (HU a b v (or_introl eq_refl)) as [Ua Ub].
      split; [now apply L4|]. split; [|split].
      + intros a' b' v' [Heq|Hin].
        * injection Heq as <- <- <-. tauto.
        * destruct (H1 a' b' v' Hin) as [G1 G2].
          assert (Hne : rkey a' b' <> rkey a b).
          { intros Hk. unfold reg_lookup in G1, L5. rewrite Hk, L5 in G1. discriminate. }
          split; rewrite L3; try assumption. now rewrite <- (rkey_sym a' b').
      + intros c d Uc Ud Hns. rewrite L3.
        * apply H2; try assumption. intros a' b' v' Hin. apply (Hns a' b' v'). now right.
        * intros Hk. apply (Hns a b v (or_introl eq_refl)). now apply rkey_inj.
      + intros a' b' v' [Heq|Hin]; [injection Heq as <- <- <-; tauto | now apply (HUc a' b' v')].
    - exists created. split; [|now left]. exact (conj HS (conj H1 (conj H2 HUc))).
  Qed.

  Theorem reg_run_inv ops :
    ops_in_U ops -> exists created, RegInv (reg_run ops) created /\ incl created ops.
  Proof.
    unfold reg_run.
    assert (G : forall ops st created, ops_in_U ops -> RegInv st created ->
              exists created', RegInv (fold_left reg_step ops st) created' /\
                               incl created' (ops ++ created)).
    { clear ops. induction ops as [|o ops IH]; intros st created HU HI.
      - exists created. split; [exact HI|]. cbn. apply incl_refl.
      - cbn [fold_left].
        destruct (reg_step_inv st created o) as (c' & HI' & Hc'); [|exact HI|].
        { intros a b v [E|[]]. apply (HU a b v). left. exact E. }
        destruct (IH (reg_step st o) c') as (c'' & HI'' & Hinc); [|exact HI'|].
        { intros a b v Hin. apply (HU a b v). now right. }
        exists c''. split; [exact HI''|].
        intros x Hx. specialize (Hinc x Hx). rewrite in_app_iff in Hinc. cbn. rewrite in_app_iff.
        destruct Hinc as [Hi|Hi]; [right; left; exact Hi|].
        destruct Hc' as [->| ->]; [right; right; exact Hi|].
        destruct Hi as [<-|Hi]; [now left|right; right; exact Hi]. }
    intros HU. destruct (G ops [] [] HU) as (c & HI & Hinc).
    - split; [constructor|]. split; [intros ? ? ? []|]. split; [reflexivity|intros ? ? ? []].
    - exists c. split; [exact HI|]. now rewrite app_nil_r in Hinc.
  Qed.
End Create.

(* the key function itself is not injective: known finding KF-key-concat *)
Lemma key_collision_witness :
  let a := [97; 98; 99] in let b := [97; 98; 99; 100] in          (* "abc", "abcd" *)
  let c := [97; 98; 99; 97] in let d := [98; 99; 100] in          (* "abca", "bcd" *)
  pair_key a b = pair_key c d /\ a <> c /\ a <> d /\ kf_key_collision a b c d = true.
Proof. cbv zeta. repeat split; try discriminate; vm_compute; reflexivity. Qed.
