(* Structural well-formedness of the world is an invariant of every operation. *)
From HT Require Import Base.Prelude Num.Arith Amm.Formulas Amm.Guards World.World.

(* structural well-formedness of a world: what pair creation sets up and no operation breaks *)
Definition pair_ok (w : world) (p : addr) (ps : pairst) : Prop :=
  p < w_next w /\ p_lp ps < w_next w /\ p_lp ps <> p /\
  (exists lt, w_tokens w (p_lp ps) = Some lt /\ t_minter lt = Some p) /\
  asset_eqb (p_a0 ps) (p_a1 ps) = false /\
  asset_eqb (p_a0 ps) (AToken (p_lp ps)) = false /\ asset_eqb (p_a1 ps) (AToken (p_lp ps)) = false /\
  (forall t, p_a0 ps = AToken t \/ p_a1 ps = AToken t -> w_tokens w t <> None) /\
  p_comm ps <= D /\ p_fac ps = w_fac w.
Definition WF (w : world) : Prop :=
  (forall q, w_next w <= q -> w_tokens w q = None /\ w_pairs w q = None) /\      (* unallocated addresses hold no contract *)
  (forall p ps, w_pairs w p = Some ps -> pair_ok w p ps) /\
  (forall p, w_pairs w p <> None -> w_tokens w p = None).                          (* a pair address is not a token address *)

(* ------------------------------------------------------------------------------------ *)
(* generic inversion machinery (as in AuthProofs; repeated so this file stands alone)    *)
(* ------------------------------------------------------------------------------------ *)

Lemma Ok_inj {A} (a b : A) : Ok a = Ok b -> a = b.
Proof. congruence. Qed.

Ltac inv_step :=
  match goal with
  | H : Err _ = Ok _ |- _ => discriminate H
  | H : Ok _ = Ok _ |- _ => apply Ok_inj in H; subst
  | H : bind _ _ = Ok _ |- _ =>
      let a := fresh "v" in let E := fresh "E" in
      apply bind_ok in H; destruct H as (a & E & H); cbv beta in H
  | H : (if ?c then _ else _) = Ok _ |- _ => destruct c eqn:?
  | H : (match ?c with _ => _ end) = Ok _ |- _ => destruct c eqn:?
  end.
Ltac inv_all := repeat inv_step.

Lemma upd_same {V} (f : N -> V) k v : upd f k v k = v.
Proof. unfold upd. rewrite N.eqb_refl. reflexivity. Qed.
Lemma upd_other {V} (f : N -> V) k v x : x <> k -> upd f k v x = f x.
Proof. intros H. unfold upd. apply N.eqb_neq in H. rewrite H. reflexivity. Qed.

(* ------------------------------------------------------------------------------------ *)
(* structural extension: what every handler that creates no contract preserves           *)
(* ------------------------------------------------------------------------------------ *)

Definition opt_rel {A} (R : A -> A -> Prop) (x y : option A) : Prop :=
  match x, y with None, None => True | Some a, Some b => R a b | _, _ => False end.

Definition tok_sim (a b : token) : Prop := t_minter b = t_minter a.
Definition pair_sim (a b : pairst) : Prop :=
  p_a0 b = p_a0 a /\ p_a1 b = p_a1 a /\ p_lp b = p_lp a /\ p_comm b = p_comm a /\ p_fac b = p_fac a.

Definition ext (w w' : world) : Prop :=
  w_next w' = w_next w /\ w_fac w' = w_fac w /\
  (forall t, opt_rel tok_sim (w_tokens w t) (w_tokens w' t)) /\
  (forall p, opt_rel pair_sim (w_pairs w p) (w_pairs w' p)).

Lemma tok_rel_refl (x : option token) : opt_rel tok_sim x x.
Proof. destruct x; cbn; [reflexivity|exact I]. Qed.
Lemma pair_rel_refl (x : option pairst) : opt_rel pair_sim x x.
Proof. destruct x; cbn; [unfold pair_sim; auto|exact I]. Qed.

Lemma ext_same w w' :
  w_next w' = w_next w -> w_fac w' = w_fac w -> w_tokens w' = w_tokens w -> w_pairs w' = w_pairs w -> ext w w'.
Proof.
  intros H1 H2 H3 H4. split; [exact H1|]. split; [exact H2|]. split.
  - intros t. rewrite H3. apply tok_rel_refl.
  - intros p. rewrite H4. apply pair_rel_refl.
Qed.

Lemma ext_refl w : ext w w.
Proof. apply ext_same; reflexivity. Qed.

Lemma ext_trans w1 w2 w3 : ext w1 w2 -> ext w2 w3 -> ext w1 w3.
Proof.
  intros (A1 & A2 & A3 & A4) (B1 & B2 & B3 & B4).
  split; [congruence|]. split; [congruence|]. split.
  - intros t. specialize (A3 t). specialize (B3 t).
    destruct (w_tokens w1 t), (w_tokens w2 t), (w_tokens w3 t); cbn in *; try tauto.
    unfold tok_sim in *. congruence.
  - intros p. specialize (A4 p). specialize (B4 p).
    destruct (w_pairs w1 p), (w_pairs w2 p), (w_pairs w3 p); cbn in *; try tauto.
    unfold pair_sim in *.
    destruct A4 as (? & ? & ? & ? & ?), B4 as (? & ? & ? & ? & ?).
    repeat split; congruence.
Qed.

(* goal [ext w w'] from a chain of [ext] hypotheses *)
Ltac ext_chain :=
  first [ solve [apply ext_same; reflexivity]
        | eassumption
        | match goal with
          | H : ext ?a ?b |- ext ?a _ => apply (ext_trans _ _ _ H); ext_chain
          end ].

(* ---- cw20 operations never change the minter ---- *)

Lemma tok_debit_minter t a n t' : tok_debit t a n = Ok t' -> t_minter t' = t_minter t.
Proof. intros H. unfold tok_debit in H. inv_all. reflexivity. Qed.
Lemma tok_credit_minter t a n t' : tok_credit t a n = Ok t' -> t_minter t' = t_minter t.
Proof. intros H. unfold tok_credit in H. inv_all. reflexivity. Qed.

Ltac tokm :=
  cbv zeta in *; inv_all;
  repeat match goal with
         | H : tok_debit _ _ _ = Ok _ |- _ => apply tok_debit_minter in H
         | H : tok_credit _ _ _ = Ok _ |- _ => apply tok_credit_minter in H
         end;
  cbn [t_minter] in *; congruence.

Lemma tok_transfer_minter t s r n t' : tok_transfer t s r n = Ok t' -> t_minter t' = t_minter t.
Proof. intros H. unfold tok_transfer in H. tokm. Qed.
Lemma tok_transfer_from_minter t sp o r n t' : tok_transfer_from t sp o r n = Ok t' -> t_minter t' = t_minter t.
Proof. intros H. unfold tok_transfer_from in H. tokm. Qed.
Lemma tok_mint_minter t s r n t' : tok_mint t s r n = Ok t' -> t_minter t' = t_minter t.
Proof. intros H. unfold tok_mint in H. tokm. Qed.
Lemma tok_burn_minter t s n t' : tok_burn t s n = Ok t' -> t_minter t' = t_minter t.
Proof. intros H. unfold tok_burn in H. tokm. Qed.
Lemma tok_increase_allowance_minter t o s n t' : tok_increase_allowance t o s n = Ok t' -> t_minter t' = t_minter t.
Proof. intros H. unfold tok_increase_allowance in H. tokm. Qed.
Lemma tok_burn_from_minter t sp o n t' : tok_burn_from t sp o n = Ok t' -> t_minter t' = t_minter t.
Proof. intros H. unfold tok_burn_from in H. tokm. Qed.
Lemma tok_decrease_allowance_minter t o s n t' : tok_decrease_allowance t o s n = Ok t' -> t_minter t' = t_minter t.
Proof. intros H. unfold tok_decrease_allowance in H. tokm. Qed.

Ltac tok_side :=
  let t := fresh "t" in let t' := fresh "t'" in let H := fresh "H" in
  intros t t' H; cbv beta in H;
  first [ exact (tok_transfer_minter _ _ _ _ _ H)
        | exact (tok_transfer_from_minter _ _ _ _ _ _ H)
        | exact (tok_mint_minter _ _ _ _ _ H)
        | exact (tok_burn_minter _ _ _ _ H)
        | exact (tok_increase_allowance_minter _ _ _ _ _ H)
        | exact (tok_burn_from_minter _ _ _ _ _ H)
        | exact (tok_decrease_allowance_minter _ _ _ _ _ H) ].

(* ---- handlers ---- *)

Lemma with_token_ext w ta f w' :
  (forall t t', f t = Ok t' -> t_minter t' = t_minter t) ->
  with_token w ta f = Ok w' -> ext w w'.
Proof.
  intros Hf H. unfold with_token in H.
  destruct (w_tokens w ta) as [t|] eqn:Et; [|discriminate].
  inv_all. apply Hf in E.
  split; [reflexivity|]. split; [reflexivity|]. split.
  - intros x. cbn [w_tokens set_token]. unfold upd.
    destruct (x =? ta) eqn:Ex.
    + apply N.eqb_eq in Ex. subst x. rewrite Et. cbn. exact E.
    + apply tok_rel_refl.
  - intros p. cbn [w_pairs set_token]. apply pair_rel_refl.
Qed.

Lemma pair_update_decimals_ext w p ps c dn d0 d1 w' :
  w_pairs w p = Some ps -> pair_update_decimals w p ps c dn d0 d1 = Ok w' -> ext w w'.
Proof.
  intros Hp H. unfold pair_update_decimals in H. cbv zeta in H. inv_all; [|apply ext_refl].
  split; [reflexivity|]. split; [reflexivity|]. split.
  - intros t. cbn [w_tokens set_pair]. apply tok_rel_refl.
  - intros x. cbn [w_pairs set_pair]. unfold upd.
    destruct (x =? p) eqn:Ex.
    + apply N.eqb_eq in Ex. subst x. rewrite Hp. cbn. unfold pair_sim. cbn. auto.
    + apply pair_rel_refl.
Qed.

Ltac ext_fact H := fail.
Ltac ext_facts :=
  repeat match goal with
         | H : _ = Ok _ |- _ => ext_fact H
         end.
Ltac ext_fin := ext_facts; cbn [fst snd] in *; ext_chain.
Ltac ext_solve := inv_all; ext_fin.

Lemma bank_send_ext w from to cs w' : bank_send w from to cs = Ok w' -> ext w w'.
Proof. intros H. unfold bank_send in H. ext_solve. Qed.

Ltac ext_fact H ::=
  first [ apply bank_send_ext in H ].

Lemma move_funds_ext w from to funds w' : move_funds w from to funds = Ok w' -> ext w w'.
Proof. intros H. unfold move_funds in H. ext_solve. Qed.

Ltac ext_fact H ::=
  first [ apply bank_send_ext in H | apply move_funds_ext in H
        | (apply with_token_ext in H; [| solve [tok_side]])
        | (eapply pair_update_decimals_ext in H; [| eassumption]) ].

Lemma pay_asset_ext w from a n to w' : pay_asset w from a n to = Ok w' -> ext w w'.
Proof. intros H. unfold pay_asset in H. ext_solve. Qed.

Ltac ext_fact H ::=
  first [ apply bank_send_ext in H | apply move_funds_ext in H
        | (apply with_token_ext in H; [| solve [tok_side]])
        | (eapply pair_update_decimals_ext in H; [| eassumption])
        | apply pay_asset_ext in H ].

Lemma pair_swap_ext w p ps funds sender offer amount bp ms to r :
  pair_swap w p ps funds sender offer amount bp ms to = Ok r -> ext w (fst r).
Proof. intros H. unfold pair_swap in H. cbv beta zeta in H. ext_solve. Qed.

Lemma pair_withdraw_ext w p ps sender amount w' :
  pair_withdraw w p ps sender amount = Ok w' -> ext w w'.
Proof. intros H. unfold pair_withdraw in H. cbv beta zeta in H. ext_solve. Qed.

Lemma pair_provide_ext w p ps c funds l0 n0 l1 n1 tol rcv w' :
  pair_provide w p ps c funds l0 n0 l1 n1 tol rcv = Ok w' -> ext w w'.
Proof. intros H. unfold pair_provide in H. cbv beta zeta in H. ext_solve. Qed.

Ltac ext_fact H ::=
  first [ apply bank_send_ext in H | apply move_funds_ext in H
        | (apply with_token_ext in H; [| solve [tok_side]])
        | (eapply pair_update_decimals_ext in H; [| eassumption])
        | apply pay_asset_ext in H | apply pair_swap_ext in H | apply pair_withdraw_ext in H
        | apply pair_provide_ext in H ].

Lemma pair_receive_ext w p ps c funds cs ca h w' :
  pair_receive w p ps c funds cs ca h = Ok w' -> ext w w'.
Proof. intros H. unfold pair_receive in H. cbv beta zeta in H. ext_solve. Qed.

Ltac ext_fact H ::=
  first [ apply bank_send_ext in H | apply move_funds_ext in H
        | (apply with_token_ext in H; [| solve [tok_side]])
        | (eapply pair_update_decimals_ext in H; [| eassumption])
        | apply pay_asset_ext in H | apply pair_swap_ext in H | apply pair_withdraw_ext in H
        | apply pair_provide_ext in H | apply pair_receive_ext in H ].

Lemma fac_update_records_ext dn k todo : forall w done w',
  fac_update_records w dn k todo done = Ok w' -> ext w w'.
Proof.
  induction todo as [|r todo IH]; intros w done w' H.
  - cbn [fac_update_records] in H. ext_solve.
  - cbn [fac_update_records] in H. cbv beta zeta in H.
    inv_step. inv_step. apply IH in H.
    assert (ext w v) by ext_solve.
    assert (ext v v0) by ext_solve.
    ext_chain.
Qed.

Lemma fac_add_native_ext w c dn k w' : fac_add_native w c dn k = Ok w' -> ext w w'.
Proof.
  intros H. unfold fac_add_native in H. cbv beta zeta in H. inv_all.
  - apply fac_update_records_ext in H.
    eapply ext_trans; [|exact H]. apply ext_same; reflexivity.
  - apply ext_same; reflexivity.
Qed.

Lemma fac_update_config_ext w c o w' : fac_update_config w c o = Ok w' -> ext w w'.
Proof. intros H. unfold fac_update_config in H. inv_all; destruct o; apply ext_same; reflexivity. Qed.

Lemma fac_migrate_pair_ext w c ct w' : fac_migrate_pair w c ct = Ok w' -> ext w w'.
Proof. intros H. unfold fac_migrate_pair in H. inv_all. apply ext_refl. Qed.

Lemma router_hop_ext w offer ask to w' : router_hop w offer ask to = Ok w' -> ext w w'.
Proof. intros H. unfold router_hop in H. cbv beta zeta in H. ext_solve. Qed.

Ltac ext_fact H ::=
  first [ apply bank_send_ext in H | apply move_funds_ext in H
        | (apply with_token_ext in H; [| solve [tok_side]])
        | (eapply pair_update_decimals_ext in H; [| eassumption])
        | apply pay_asset_ext in H | apply pair_swap_ext in H | apply pair_withdraw_ext in H
        | apply pair_provide_ext in H | apply pair_receive_ext in H
        | apply fac_add_native_ext in H | apply fac_update_config_ext in H | apply fac_migrate_pair_ext in H
        | apply router_hop_ext in H ].

Lemma router_hops_cons2 w p q rest to :
  router_hops w (p :: q :: rest) to =
  (let* w1 := router_hop w (fst p) (snd p) None in router_hops w1 (q :: rest) to).
Proof. destruct p; reflexivity. Qed.

Lemma router_hops_ext ops : forall w to w', router_hops w ops to = Ok w' -> ext w w'.
Proof.
  induction ops as [|p ops IH]; intros w to w' H.
  - cbn in H. ext_solve.
  - destruct ops as [|q rest].
    + destruct p as [o a]. cbn [router_hops] in H. ext_solve.
    + rewrite router_hops_cons2 in H. inv_step. apply IH in H. ext_fin.
Qed.

Lemma router_assert_min_ext w t prev m r w' : router_assert_min w t prev m r = Ok w' -> ext w w'.
Proof. intros H. unfold router_assert_min in H. inv_all. apply ext_refl. Qed.

Lemma router_exec_ops_ext w s ops m to w' : router_exec_ops w s ops m to = Ok w' -> ext w w'.
Proof.
  intros H. unfold router_exec_ops in H. cbv beta zeta in H.
  destruct ops as [|p ops]; [discriminate|].
  inv_step. destruct m as [m|].
  - inv_step. inv_step. apply router_hops_ext in E1. apply router_assert_min_ext in H. ext_chain.
  - apply router_hops_ext in H. exact H.
Qed.

Ltac ext_fact H ::=
  first [ apply bank_send_ext in H | apply move_funds_ext in H
        | (apply with_token_ext in H; [| solve [tok_side]])
        | (eapply pair_update_decimals_ext in H; [| eassumption])
        | apply pay_asset_ext in H | apply pair_swap_ext in H | apply pair_withdraw_ext in H
        | apply pair_provide_ext in H | apply pair_receive_ext in H
        | apply fac_add_native_ext in H | apply fac_update_config_ext in H | apply fac_migrate_pair_ext in H
        | apply router_hop_ext in H | apply router_exec_ops_ext in H | apply router_assert_min_ext in H ].

Lemma cw20_send_ext w ta s target n h w' : cw20_send w ta s target n h = Ok w' -> ext w w'.
Proof. intros H. unfold cw20_send in H. cbv beta zeta in H. ext_solve. Qed.

Ltac ext_fact H ::=
  first [ apply bank_send_ext in H | apply move_funds_ext in H
        | (apply with_token_ext in H; [| solve [tok_side]])
        | (eapply pair_update_decimals_ext in H; [| eassumption])
        | apply pay_asset_ext in H | apply pair_swap_ext in H | apply pair_withdraw_ext in H
        | apply pair_provide_ext in H | apply pair_receive_ext in H
        | apply fac_add_native_ext in H | apply fac_update_config_ext in H | apply fac_migrate_pair_ext in H
        | apply router_hop_ext in H | apply router_exec_ops_ext in H | apply router_assert_min_ext in H
        | apply cw20_send_ext in H ].

Lemma cw20_send_from_ext w ta sp ow target n h w' : cw20_send_from w ta sp ow target n h = Ok w' -> ext w w'.
Proof. intros H. unfold cw20_send_from in H. cbv beta zeta in H. ext_solve. Qed.

Ltac ext_fact H ::=
  first [ apply bank_send_ext in H | apply move_funds_ext in H
        | (apply with_token_ext in H; [| solve [tok_side]])
        | (eapply pair_update_decimals_ext in H; [| eassumption])
        | apply pay_asset_ext in H | apply pair_swap_ext in H | apply pair_withdraw_ext in H
        | apply pair_provide_ext in H | apply pair_receive_ext in H
        | apply fac_add_native_ext in H | apply fac_update_config_ext in H | apply fac_migrate_pair_ext in H
        | apply router_hop_ext in H | apply router_exec_ops_ext in H | apply router_assert_min_ext in H
        | apply cw20_send_ext in H | apply cw20_send_from_ext in H ].

(* every operation other than pair creation extends the world structurally *)
Lemma exec_ext w o w' : exec w o = Ok w' ->
  match o with OFacCreatePair _ _ _ _ _ _ _ _ => True | _ => ext w w' end.
Proof.
  intros H. destruct o; try exact I; unfold exec in H; ext_solve.
Qed.

(* ------------------------------------------------------------------------------------ *)
(* extension preserves well-formedness                                                   *)
(* ------------------------------------------------------------------------------------ *)

Lemma ext_WF w w' : ext w w' -> WF w -> WF w'.
Proof.
  intros (Hn & Hf & Ht & Hp) (F & P & T).
  split; [|split].
  - intros q Hq. rewrite Hn in Hq. destruct (F q Hq) as [F1 F2].
    specialize (Ht q). specialize (Hp q). rewrite F1 in Ht. rewrite F2 in Hp.
    split.
    + destruct (w_tokens w' q); [contradiction|reflexivity].
    + destruct (w_pairs w' q); [contradiction|reflexivity].
  - intros p ps' Hps'. pose proof (Hp p) as Hpp. rewrite Hps' in Hpp.
    destruct (w_pairs w p) as [ps|] eqn:Eps; [|contradiction]. cbn in Hpp.
    destruct Hpp as (S0 & S1 & Sl & Sc & Sf).
    destruct (P p ps Eps) as (K1 & K2 & K3 & (lt & K4 & K4') & K5 & K6 & K7 & K8 & K9 & K10).
    unfold pair_ok. rewrite S0, S1, Sl, Sc, Sf, Hn, Hf.
    split; [exact K1|]. split; [exact K2|]. split; [exact K3|].
    split.
    { pose proof (Ht (p_lp ps)) as Hl. rewrite K4 in Hl.
      destruct (w_tokens w' (p_lp ps)) as [lt'|]; [|contradiction]. cbn in Hl. unfold tok_sim in Hl.
      exists lt'. split; [reflexivity|congruence]. }
    split; [exact K5|]. split; [exact K6|]. split; [exact K7|].
    split; [|split; [exact K9|exact K10]].
    intros t Hta. specialize (K8 t Hta). pose proof (Ht t) as Htt.
    destruct (w_tokens w t); [|congruence].
    destruct (w_tokens w' t); [discriminate|contradiction].
  - intros p Hne. pose proof (Hp p) as Hpp.
    assert (Hw : w_pairs w p <> None).
    { destruct (w_pairs w p); [discriminate|]. destruct (w_pairs w' p); [contradiction|congruence]. }
    specialize (T p Hw). pose proof (Ht p) as Htp. rewrite T in Htp.
    destruct (w_tokens w' p); [contradiction|reflexivity].
Qed.

(* ------------------------------------------------------------------------------------ *)
(* pair creation                                                                         *)
(* ------------------------------------------------------------------------------------ *)

Lemma asset_decimals_exists w a d : asset_decimals w a = Ok d -> forall t, a = AToken t -> w_tokens w t <> None.
Proof. intros H t ->. cbn in H. destruct (w_tokens w t); congruence. Qed.

Lemma fac_create_pair_WF w c a0 a1 wl m0 m1 cm ld w' :
  WF w -> fac_create_pair w c a0 a1 wl m0 m1 cm ld = Ok w' -> WF w'.
Proof.
  intros (F & P & T) H. unfold fac_create_pair in H.
  destruct (negb (c =? w_owner w)); [discriminate|].
  destruct (asset_eqb a0 a1) eqn:Ea; [discriminate|].
  assert (Hcr : match cm with Some x => x | None => DEFAULT_COMMISSION end <= D).
  { destruct cm as [x|].
    - destruct (D <? x) eqn:Ex; [discriminate|]. apply N.ltb_ge in Ex. exact Ex.
    - unfold DEFAULT_COMMISSION, D. clear. lia. }
  destruct (match cm with Some c0 => D <? c0 | None => false end); [discriminate|].
  destruct (asset_decimals w a0) as [d0|] eqn:Ed0; cbn [bind] in H; [|discriminate].
  destruct (asset_decimals w a1) as [d1|] eqn:Ed1; cbn [bind] in H; [|discriminate].
  destruct (reg_find (w_reg w) a0 a1); [discriminate|].
  cbv zeta in H.
  destruct (18 <? match ld with Some k => k | None => 6 end); [discriminate|].
  apply Ok_inj in H. subst w'.
  pose proof (asset_decimals_exists _ _ _ Ed0) as X0.
  pose proof (asset_decimals_exists _ _ _ Ed1) as X1.
  assert (Hlow : forall t, w_tokens w t <> None -> t < w_next w).
  { intros t Ht. destruct (N.lt_ge_cases t (w_next w)) as [L|L]; [exact L|].
    apply F in L. destruct L as [L _]. contradiction. }
  assert (Hplow : forall p, w_pairs w p <> None -> p < w_next w).
  { intros p Hp. destruct (N.lt_ge_cases p (w_next w)) as [L|L]; [exact L|].
    apply F in L. destruct L as [_ L]. contradiction. }
  assert (Y0 : asset_eqb a0 (AToken (w_next w + 1)) = false).
  { destruct a0 as [d|t]; [reflexivity|]. cbn. apply N.eqb_neq.
    specialize (Hlow t (X0 t eq_refl)). clear - Hlow. lia. }
  assert (Y1 : asset_eqb a1 (AToken (w_next w + 1)) = false).
  { destruct a1 as [d|t]; [reflexivity|]. cbn. apply N.eqb_neq.
    specialize (Hlow t (X1 t eq_refl)). clear - Hlow. lia. }
  unfold WF.
  cbn [w_tokens w_pairs w_next w_fac set_next set_reg set_token set_pair].
  split; [|split].
  - intros q Hq.
    rewrite upd_other by (clear - Hq; lia). rewrite upd_other by (clear - Hq; lia).
    apply F. clear - Hq. lia.
  - intros p ps Hp. unfold pair_ok.
    cbn [w_tokens w_pairs w_next w_fac set_next set_reg set_token set_pair].
    destruct (N.eq_dec p (w_next w)) as [->|Np].
    + rewrite upd_same in Hp. injection Hp as <-.
      cbn [p_a0 p_a1 p_lp p_comm p_fac].
      split; [clear; lia|]. split; [clear; lia|]. split; [clear; lia|].
      split. { rewrite upd_same. eexists. split; reflexivity. }
      split; [exact Ea|]. split; [exact Y0|]. split; [exact Y1|].
      split; [|split; [exact Hcr|reflexivity]].
      intros t [Ht|Ht].
      * rewrite upd_other; [exact (X0 t Ht)|]. specialize (Hlow t (X0 t Ht)). clear - Hlow. lia.
      * rewrite upd_other; [exact (X1 t Ht)|]. specialize (Hlow t (X1 t Ht)). clear - Hlow. lia.
    + rewrite upd_other in Hp by exact Np.
      destruct (P p ps Hp) as (K1 & K2 & K3 & (lt & K4 & K4') & K5 & K6 & K7 & K8 & K9 & K10).
      split; [clear - K1; lia|]. split; [clear - K2; lia|]. split; [exact K3|].
      split. { rewrite upd_other by (clear - K2; lia). exists lt. auto. }
      split; [exact K5|]. split; [exact K6|]. split; [exact K7|].
      split; [|split; [exact K9|exact K10]].
      intros t Ht. specialize (K8 t Ht).
      rewrite upd_other; [exact K8|]. specialize (Hlow t K8). clear - Hlow. lia.
  - intros p Hp.
    destruct (N.eq_dec p (w_next w)) as [->|Np].
    + rewrite upd_other by (clear; lia). apply F. apply N.le_refl.
    + rewrite upd_other in Hp by exact Np.
      specialize (Hplow p Hp).
      rewrite upd_other by (clear - Hplow; lia). apply T. exact Hp.
Qed.

(* ------------------------------------------------------------------------------------ *)
(* the theorems                                                                          *)
(* ------------------------------------------------------------------------------------ *)

(* every operation preserves well-formedness *)
Theorem exec_preserves_WF : forall w o w', WF w -> exec w o = Ok w' -> WF w'.
Proof.
  intros w o w' HW H.
  pose proof (exec_ext _ _ _ H) as He.
  destruct o; try (exact (ext_WF _ _ He HW)).
  unfold exec in H. eapply fac_create_pair_WF; eassumption.
Qed.

Theorem step_preserves_WF : forall w o, WF w -> WF (step w o).
Proof.
  intros w o HW. unfold step. destruct (exec w o) as [w'|e] eqn:E; [|exact HW].
  eapply exec_preserves_WF; eassumption.
Qed.

(* hence every reachable world is well-formed: induction over any history *)
Theorem run_preserves_WF : forall ops w, WF w -> WF (run w ops).
Proof.
  induction ops as [|o ops IH]; intros w HW.
  - exact HW.
  - change (run w (o :: ops)) with (run (step w o) ops). apply IH. apply step_preserves_WF. exact HW.
Qed.

(* a world with no pairs and no token at or above the address counter is well-formed (the harness's initial world) *)
Theorem WF_no_pairs : forall w, (forall p, w_pairs w p = None) -> (forall q, w_next w <= q -> w_tokens w q = None) -> WF w.
Proof.
  intros w Hp Ht. split; [|split].
  - intros q Hq. split; [apply Ht; exact Hq|apply Hp].
  - intros p ps H. rewrite Hp in H. discriminate.
  - intros p H. contradiction (H (Hp p)).
Qed.

(* consequences used elsewhere *)
Theorem WF_fresh_tokens : forall w, WF w -> forall q, w_next w <= q -> w_tokens w q = None.
Proof. intros w (F & _) q Hq. apply F. exact Hq. Qed.

Theorem WF_pair : forall w p ps, WF w -> w_pairs w p = Some ps -> pair_ok w p ps.
Proof. intros w p ps (_ & P & _) H. apply P. exact H. Qed.

Print Assumptions exec_preserves_WF.
Print Assumptions step_preserves_WF.
Print Assumptions run_preserves_WF.
Print Assumptions WF_no_pairs.
Print Assumptions WF_fresh_tokens.
Print Assumptions WF_pair.
