(* C15: assert_slippage_tolerance reduced to closed form, soundness and completeness bounds. *)
From HT Require Import Base.Prelude Num.Arith Amm.Formulas Amm.Guards Proofs.NumProofs Proofs.SwapSpec.

Definition price_drop (d e om : N) : N := d * D / e * om / D.
Definition pool_ratio (p q : N) : N := p * D / q.

Definition slippage_spec (t d0 d1 p0 p1 : N) : res unit :=
  if D <? t then Err EStd else
  if (d1 =? 0) || (p1 =? 0) then Err Panic else
  if pool_ratio p0 p1 <? price_drop d0 d1 (D - t) then Err EMaxSlippage else
  if (d0 =? 0) || (p0 =? 0) then Err Panic else
  if pool_ratio p1 p0 <? price_drop d1 d0 (D - t) then Err EMaxSlippage else Ok tt.

Lemma lt128_mulD v : v < W128 -> v * D < W256.
Proof. intros H. rewrite W256_val, D_val. rewrite W128_val in H. lia. Qed.

Lemma calc_price_drop_ok d e om :
  d < W128 -> e <> 0 -> om <= D -> calc_price_drop d e om = Ok (price_drop d e om).
Proof.
  intros Hd He Hom. unfold calc_price_drop, price_drop.
  rewrite dec_from_ratio_ok by (auto using lt128_mulD). cbn [bind].
  unfold dec_mul.
  assert (HA : d * D / e <= d * D).
  { apply N.div_le_upper_bound; [exact He|]. remember (d * D) as P. nia. }
  assert (HP : d * D / e * om < W256).
  { remember (d * D / e) as A. rewrite W256_val. rewrite W128_val in Hd. rewrite D_val in *. nia. }
  rewrite u256_mul_ok by exact HP. reflexivity.
Qed.

Lemma calc_price_drop_zero d om : calc_price_drop d 0 om = Err Panic.
Proof. reflexivity. Qed.

Lemma calc_slippage_ok p q : p < W128 -> q <> 0 -> calc_slippage_tolerance p q = Ok (pool_ratio p q).
Proof. intros Hp Hq. unfold calc_slippage_tolerance. now rewrite dec_from_ratio_ok by (auto using lt128_mulD). Qed.

Theorem slippage_eq_spec t d0 d1 p0 p1 :
  d0 < W128 -> d1 < W128 -> p0 < W128 -> p1 < W128 ->
  assert_slippage_tolerance (Some t) d0 d1 p0 p1 = slippage_spec t d0 d1 p0 p1.
Proof.
  intros H0 H1 H2 H3. unfold assert_slippage_tolerance, slippage_spec.
  destruct (D <? t) eqn:Et; [reflexivity|].
  unfold dec_sub, dec_one. rewrite u256_sub_ok by lia. cbn [bind].
  assert (Hom : D - t <= D) by lia.
  destruct (d1 =? 0) eqn:E1.
  { assert (d1 = 0) by lia. subst d1. reflexivity. }
  rewrite calc_price_drop_ok by (try assumption; lia). cbn [bind].
  destruct (p1 =? 0) eqn:E3.
  { assert (p1 = 0) by lia. subst p1. reflexivity. }
  rewrite calc_slippage_ok by (try assumption; lia). cbn [bind orb].
  destruct (pool_ratio p0 p1 <? price_drop d0 d1 (D - t)); [reflexivity|].
  destruct (d0 =? 0) eqn:E0.
  { assert (d0 = 0) by lia. subst d0. reflexivity. }
  rewrite calc_price_drop_ok by (try assumption; lia). cbn [bind].
  destruct (p0 =? 0) eqn:E2.
  { assert (p0 = 0) by lia. subst p0. reflexivity. }
  rewrite calc_slippage_ok by (try assumption; lia). cbn [bind orb].
  reflexivity.
Qed.

Local Open Scope Z_scope.
(* B = floor(floor(d*Dz/e)*om/Dz) <= st = floor(p*Dz/q)  ==>  d*om*q < p*e*Dz + 2*e*q *)
Lemma slip_sound_core (d e p q om A B st Dz : Z) :
  0 <= d -> 0 < e -> 0 <= p -> 0 < q -> 0 <= om <= Dz -> 0 < Dz -> 0 <= A -> 0 <= B ->
  A * e <= d * Dz < (A + 1) * e ->
  B * Dz <= A * om < (B + 1) * Dz ->
  st * q <= p * Dz < (st + 1) * q ->
  B <= st ->
  d * om * q < p * e * Dz + 2 * e * q.
Proof.
  intros Hd He Hp Hq [Hom0 Hom] HD HA HB [A1 A2] [B1 B2] [S1 S2] Hle.
  assert (E1 : (A + 1) * om < (B + 2) * Dz) by nia.
  assert (E2 : d * Dz * om <= (A + 1) * e * om) by nia.
  assert (E3 : d * Dz * om < (B + 2) * Dz * e \/ om = 0) by nia.
  destruct E3 as [E3| ->]; [|nia].
  assert (E4 : d * om < (B + 2) * e) by nia.
  assert (E5 : d * om * q < (B + 2) * e * q) by nia.
  assert (E6 : (B + 2) * e * q <= (st + 2) * e * q) by nia.
  assert (E7 : st * q * e <= p * Dz * e) by nia.
  nia.
Qed.

(* d*om*q + q*e <= p*Dz*e  ==>  B <= st *)
Lemma slip_complete_core (d e p q om A B st Dz : Z) :
  0 <= d -> 0 < e -> 0 <= p -> 0 < q -> 0 <= om <= Dz -> 0 < Dz -> 0 <= A -> 0 <= B ->
  A * e <= d * Dz < (A + 1) * e ->
  B * Dz <= A * om < (B + 1) * Dz ->
  st * q <= p * Dz < (st + 1) * q ->
  d * om * q + q * e <= p * Dz * e ->
  B <= st.
Proof.
  intros Hd He Hp Hq [Hom0 Hom] HD HA HB [A1 A2] [B1 B2] [S1 S2] Hc.
  assert (E1 : B * Dz * e <= d * Dz * om) by nia.
  assert (E2 : B * e <= d * om) by nia.
  assert (E3 : B * e * q + q * e <= p * Dz * e) by nia.
  assert (E4 : (B + 1) * q <= p * Dz) by nia.
  nia.
Qed.
Local Close Scope Z_scope.

Lemma price_drop_sandwich d e om :
  e <> 0 ->
  let A := d * D / e in let B := price_drop d e om in
  (A * e <= d * D /\ d * D < (A + 1) * e) /\ (B * D <= A * om /\ A * om < (B + 1) * D).
Proof.
  intros He A B. unfold B, price_drop. fold A.
  pose proof (div_sandwich (d * D) e ltac:(lia)). pose proof (div_sandwich (A * om) D D_pos). tauto.
Qed.

Section C15.
  Variables t d0 d1 p0 p1 : N.
  Hypothesis H0 : d0 < W128.
  Hypothesis H1 : d1 < W128.
  Hypothesis H2 : p0 < W128.
  Hypothesis H3 : p1 < W128.

  Lemma slip_one_side d e p q :
    e <> 0 -> q <> 0 -> t <= D ->
    (pool_ratio p q <? price_drop d e (D - t)) = false ->
    d * (D - t) * q < p * e * D + 2 * e * q.
  Proof.
    intros He Hq Ht Hcmp.
    destruct (price_drop_sandwich d e (D - t) He) as [[A1 A2] [B1 B2]].
    pose proof (div_sandwich (p * D) q ltac:(lia)) as [S1 S2]. fold (pool_ratio p q) in S1, S2.
    remember (d * D / e) as A. remember (price_drop d e (D - t)) as B. remember (pool_ratio p q) as st.
    pose proof D_pos as HD.
    pose proof (slip_sound_core (Z.of_N d) (Z.of_N e) (Z.of_N p) (Z.of_N q) (Z.of_N (D - t))
                  (Z.of_N A) (Z.of_N B) (Z.of_N st) (Z.of_N D)) as C.
    clear HeqA HeqB Heqst H0 H1 H2 H3. lia.
  Qed.

  Theorem slippage_sound :
    assert_slippage_tolerance (Some t) d0 d1 p0 p1 = Ok tt ->
    t <= D /\
    d0 * (D - t) * p1 < p0 * d1 * D + 2 * d1 * p1 /\
    d1 * (D - t) * p0 < p1 * d0 * D + 2 * d0 * p0.
  Proof.
    rewrite slippage_eq_spec by assumption. unfold slippage_spec.
    destruct (D <? t) eqn:Et; [discriminate|].
    destruct ((d1 =? 0) || (p1 =? 0)) eqn:Ez1; [discriminate|].
    destruct (pool_ratio p0 p1 <? price_drop d0 d1 (D - t)) eqn:Ec0; [discriminate|].
    destruct ((d0 =? 0) || (p0 =? 0)) eqn:Ez0; [discriminate|].
    destruct (pool_ratio p1 p0 <? price_drop d1 d0 (D - t)) eqn:Ec1; [discriminate|].
    intros _. apply orb_false_iff in Ez1, Ez0. destruct Ez1, Ez0.
    split; [lia|]. split; apply slip_one_side; lia.
  Qed.

  Lemma slip_one_side_complete d e p q :
    e <> 0 -> q <> 0 -> t <= D ->
    d * (D - t) * q + q * e <= p * D * e ->
    (pool_ratio p q <? price_drop d e (D - t)) = false.
  Proof.
    intros He Hq Ht Hc.
    destruct (price_drop_sandwich d e (D - t) He) as [[A1 A2] [B1 B2]].
    pose proof (div_sandwich (p * D) q ltac:(lia)) as [S1 S2]. fold (pool_ratio p q) in S1, S2.
    remember (d * D / e) as A. remember (price_drop d e (D - t)) as B. remember (pool_ratio p q) as st.
    pose proof D_pos as HD.
    pose proof (slip_complete_core (Z.of_N d) (Z.of_N e) (Z.of_N p) (Z.of_N q) (Z.of_N (D - t))
                  (Z.of_N A) (Z.of_N B) (Z.of_N st) (Z.of_N D)) as C.
    clear HeqA HeqB Heqst H0 H1 H2 H3. lia.
  Qed.

  (* (d_i/d_j)(1-t) <= r_i/r_j - 10^-18 on both sides: never rejected by the guard *)
  Theorem slippage_complete :
    t <= D ->
    d0 * (D - t) * p1 + p1 * d1 <= p0 * D * d1 ->
    d1 * (D - t) * p0 + p0 * d0 <= p1 * D * d0 ->
    assert_slippage_tolerance (Some t) d0 d1 p0 p1 <> Err EMaxSlippage.
  Proof.
    intros Ht C0 C1. rewrite slippage_eq_spec by assumption. unfold slippage_spec.
    destruct (D <? t) eqn:Et; [discriminate|].
    destruct ((d1 =? 0) || (p1 =? 0)) eqn:Ez1; [discriminate|].
    apply orb_false_iff in Ez1. destruct Ez1.
    rewrite slip_one_side_complete by lia.
    destruct ((d0 =? 0) || (p0 =? 0)) eqn:Ez0; [discriminate|].
    apply orb_false_iff in Ez0. destruct Ez0.
    rewrite slip_one_side_complete by lia. discriminate.
  Qed.

  Theorem slippage_over_100 : D < t -> assert_slippage_tolerance (Some t) d0 d1 p0 p1 = Err EStd.
  Proof.
    intros Ht. rewrite slippage_eq_spec by assumption. unfold slippage_spec.
    destruct (D <? t) eqn:Et; [reflexivity|lia].
  Qed.

  (* the guard aborts only on a zero deposit or reserve: no intermediate can overflow *)
  Theorem slippage_no_abort :
    t <= D -> d0 <> 0 -> d1 <> 0 -> p0 <> 0 -> p1 <> 0 ->
    assert_slippage_tolerance (Some t) d0 d1 p0 p1 <> Err Panic.
  Proof.
    intros Ht Z0 Z1 Z2 Z3. rewrite slippage_eq_spec by assumption. unfold slippage_spec.
    destruct (D <? t) eqn:Et; [discriminate|].
    replace ((d1 =? 0) || (p1 =? 0)) with false by (symmetry; apply orb_false_iff; lia).
    destruct (pool_ratio p0 p1 <? price_drop d0 d1 (D - t)); [discriminate|].
    replace ((d0 =? 0) || (p0 =? 0)) with false by (symmetry; apply orb_false_iff; lia).
    destruct (pool_ratio p1 p0 <? price_drop d1 d0 (D - t)); discriminate.
  Qed.
End C15.

Theorem slippage_none d0 d1 p0 p1 : assert_slippage_tolerance None d0 d1 p0 p1 = Ok tt.
Proof. reflexivity. Qed.
