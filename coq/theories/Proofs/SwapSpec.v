(* compute_swap reduced to closed form: [compute_swap_spec].  Later proofs use
   the closed form only. *)
From HT Require Import Base.Prelude Num.Arith Amm.Formulas Proofs.NumProofs.

Lemma u256_mul_ok a b : a * b < W256 -> u256_mul a b = Ok (a * b).
Proof. intros H. unfold u256_mul. destruct (a * b <? W256) eqn:E; [reflexivity | lia]. Qed.
Lemma u256_mul_err a b : W256 <= a * b -> u256_mul a b = Err Panic.
Proof. intros H. unfold u256_mul. destruct (a * b <? W256) eqn:E; [lia | reflexivity]. Qed.
Lemma u256_add_ok a b : a + b < W256 -> u256_add a b = Ok (a + b).
Proof. intros H. unfold u256_add. destruct (a + b <? W256) eqn:E; [reflexivity | lia]. Qed.
Lemma u256_sub_ok a b : b <= a -> u256_sub a b = Ok (a - b).
Proof. intros H. unfold u256_sub. destruct (b <=? a) eqn:E; [reflexivity | lia]. Qed.
Lemma u256_sub_err a b : a < b -> u256_sub a b = Err Panic.
Proof. intros H. unfold u256_sub. destruct (b <=? a) eqn:E; [lia | reflexivity]. Qed.

Lemma uint_mul_ok a b : a * b < W256 -> uint_mul a b = Ok (a * b).
Proof.
  intros H. unfold uint_mul.
  destruct (a =? 0) eqn:Ea; [cbn [orb]; f_equal; lia|].
  destruct (b =? 0) eqn:Eb; [cbn [orb]; f_equal; lia|].
  cbn [orb]. now apply u256_mul_ok.
Qed.
Lemma uint_mul_err a b : W256 <= a * b -> uint_mul a b = Err Panic.
Proof.
  intros H. unfold uint_mul. rewrite W256_val in H.
  destruct (a =? 0) eqn:Ea; [lia|]. destruct (b =? 0) eqn:Eb; [lia|].
  cbn [orb]. apply u256_mul_err. rewrite W256_val. lia.
Qed.

Lemma dec_from_ratio_ok n d : d <> 0 -> n * D < W256 -> dec_from_ratio n d = Ok (n * D / d).
Proof.
  intros Hd H. unfold dec_from_ratio. destruct (d =? 0) eqn:E; [lia|].
  rewrite u256_mul_ok by assumption. reflexivity.
Qed.
Lemma dec_from_ratio_zero n : dec_from_ratio n 0 = Err Panic.
Proof. reflexivity. Qed.
Lemma dec_from_ratio_ovf n d : W256 <= n * D -> dec_from_ratio n d = Err Panic.
Proof.
  intros H. unfold dec_from_ratio. destruct (d =? 0); [reflexivity|].
  rewrite u256_mul_err by assumption. reflexivity.
Qed.

Lemma uint_multiply_ratio_ok u n d : d <> 0 -> u * n < W256 -> uint_multiply_ratio u n d = Ok (u * n / d).
Proof.
  intros Hd H. unfold uint_multiply_ratio. destruct (d =? 0) eqn:E; [lia|].
  rewrite u256_mul_ok by assumption. reflexivity.
Qed.

Lemma uint_mul_dec_ok u d : u * d < W256 -> uint_mul_dec u d = Ok (u * d / D).
Proof.
  intros H. unfold uint_mul_dec.
  destruct (u =? 0) eqn:Eu.
  { cbn [orb]. f_equal. assert (u = 0) by lia. subst u. reflexivity. }
  destruct (d =? 0) eqn:Ed.
  { cbn [orb]. f_equal. assert (d = 0) by lia. subst d. rewrite N.mul_0_r. reflexivity. }
  cbn [orb]. apply uint_multiply_ratio_ok; [rewrite D_val; lia | assumption].
Qed.
Lemma uint_mul_dec_err u d : W256 <= u * d -> uint_mul_dec u d = Err Panic.
Proof.
  intros H. unfold uint_mul_dec. rewrite W256_val in H.
  destruct (u =? 0) eqn:Eu; [lia|]. destruct (d =? 0) eqn:Ed; [lia|]. cbn [orb].
  unfold uint_multiply_ratio. change (D =? 0) with false. cbn iota.
  rewrite u256_mul_err; [reflexivity | rewrite W256_val; lia].
Qed.

(* the two quantities everything else is expressed in *)
Definition gross (x y a : N) : N := (y * D - x * y * D / (x + a)) / D.
Definition ideal (x y a : N) : N := y * a * D / x / D.

Definition compute_swap_spec (x y a c : N) : res (N * N * N) :=
  if x =? 0 then Err Panic else
  if W256 <=? x * y * D then Err Panic else
  if W256 <=? y * a * D then Err Panic else
  let g := gross x y a in
  let i := ideal x y a in
  if i <? g then Err Panic else
  let m := g * c / D in
  if W128 <=? i - g then Err Panic else
  Ok (g - m, i - g, m).

Lemma gross_le_y x y a : gross x y a <= y.
Proof.
  unfold gross. apply N.div_le_upper_bound; [rewrite D_val; lia|].
  remember (x * y * D / (x + a)) as F. lia.
Qed.

Lemma F_le x y a : 0 < x + a -> x * y * D / (x + a) <= y * D.
Proof. intros H. apply N.div_le_upper_bound; [lia|]. remember (y * D) as P. nia. Qed.

Theorem compute_swap_eq_spec x y a c :
  x < W128 -> y < W128 -> a < W128 -> c <= D ->
  compute_swap x y a c = compute_swap_spec x y a c.
Proof.
  intros Hx Hy Ha Hc.
  pose proof (mul_lt_W256 x y Hx Hy) as Hxy.
  pose proof (mul_lt_W256 y a Hy Ha) as Hya.
  assert (HyD : y * D < W256) by (rewrite W256_val, D_val; rewrite W128_val in Hy; lia).
  assert (Hxa : x + a < W256) by (rewrite W256_val; rewrite W128_val in Hx, Ha; lia).
  pose proof (gross_le_y x y a) as Hg.
  unfold compute_swap, compute_swap_spec.
  rewrite (uint_mul_ok x y Hxy). cbn [bind].
  unfold dec_from_uint256. rewrite (u256_mul_ok y D HyD). cbn [bind].
  unfold uint_add. rewrite (u256_add_ok x a Hxa). cbn [bind].
  destruct (x =? 0) eqn:Ex.
  { (* x = 0: the second from_ratio divides by zero (or the first, when a = 0) *)
    assert (x = 0) by lia. subst x. rewrite N.mul_0_l, N.add_0_l.
    destruct (N.eq_dec a 0) as [->|Ha0]; [reflexivity|].
    rewrite dec_from_ratio_ok by (rewrite ?W256_val; lia). cbn [bind].
    rewrite N.mul_0_l, N.div_0_l by lia.
    unfold dec_sub. rewrite u256_sub_ok by lia. cbn [bind].
    rewrite N.sub_0_r. rewrite uint_mul_dec_ok by lia. cbn [bind].
    rewrite (uint_mul_ok y a Hya). cbn [bind]. reflexivity. }
  assert (Hx0 : x <> 0) by lia.
  destruct (W256 <=? x * y * D) eqn:Ecp.
  { rewrite dec_from_ratio_ovf by lia. reflexivity. }
  rewrite dec_from_ratio_ok by lia. cbn [bind].
  pose proof (F_le x y a ltac:(lia)) as HF.
  unfold dec_sub. rewrite u256_sub_ok by exact HF. cbn [bind].
  remember (x * y * D / (x + a)) as F eqn:EF.
  rewrite uint_mul_dec_ok by lia. cbn [bind]. rewrite N.mul_1_l.
  subst F. fold (gross x y a).
  rewrite (uint_mul_ok y a Hya). cbn [bind].
  destruct (W256 <=? y * a * D) eqn:Eya.
  { rewrite dec_from_ratio_ovf by lia. reflexivity. }
  rewrite dec_from_ratio_ok by lia. cbn [bind].
  assert (Hr : y * a * D / x < W256).
  { apply N.le_lt_trans with (y * a * D); [|lia].
    apply N.div_le_upper_bound; [exact Hx0|]. remember (y * a * D) as P. nia. }
  rewrite uint_mul_dec_ok by lia. cbn [bind]. rewrite N.mul_1_l.
  fold (ideal x y a).
  cbv zeta.
  unfold uint_sub.
  destruct (ideal x y a <? gross x y a) eqn:Eig.
  { rewrite u256_sub_err by lia. reflexivity. }
  rewrite u256_sub_ok by lia. cbn [bind].
  assert (Hgc : gross x y a * c < W256).
  { remember (gross x y a) as g. clear - Hg Hy Hc. rewrite W256_val. rewrite W128_val in Hy. rewrite D_val in Hc. nia. }
  rewrite uint_mul_dec_ok by exact Hgc. cbn [bind].
  assert (Hm : gross x y a * c / D <= gross x y a).
  { apply N.div_le_upper_bound; [rewrite D_val; lia |]. remember (gross x y a) as g. nia. }
  rewrite u256_sub_ok by exact Hm. cbn [bind].
  assert (Hi : ideal x y a < W256).
  { unfold ideal. apply N.le_lt_trans with (y * a * D / x); [|exact Hr].
    apply N.div_le_upper_bound; [rewrite D_val; lia|].
    remember (y * a * D / x) as P. rewrite D_val. lia. }
  remember (gross x y a) as g eqn:Eg. remember (ideal x y a) as i eqn:Ei.
  remember (g * c / D) as m eqn:Em.
  assert (Hy' : y < 340282366920938463463374607431768211456) by (rewrite <- W128_val; exact Hy).
  clear Hgc Hr HF HyD Hxy Hya Hxa Ecp Eya Em.
  rewrite W256_val in Hi.
  rewrite !uint_to_u128_spec by (rewrite W256_val; lia).
  rewrite W128_val.
  assert (Hn128 : g - m <? 340282366920938463463374607431768211456 = true) by lia.
  rewrite Hn128. cbn [bind].
  destruct (340282366920938463463374607431768211456 <=? i - g) eqn:Es.
  { assert (Hs' : i - g <? 340282366920938463463374607431768211456 = false) by lia. rewrite Hs'. reflexivity. }
  assert (Hs' : i - g <? 340282366920938463463374607431768211456 = true) by lia. rewrite Hs'. cbn [bind].
  assert (Hm128 : m <? 340282366920938463463374607431768211456 = true) by lia. rewrite Hm128. cbn [bind].
  reflexivity.
Qed.
