(* Factory-level facts about the world model: registry lookups, pair creation (C16) and
   re-registration of a native denom reaching every registered pair (C17). *)
From HT Require Import Base.Prelude Num.Arith Amm.Formulas Amm.Guards World.World.

(* a factory record and the pair contract it describes agree field by field *)
Definition rec_matches (w : world) (r : frec) : Prop :=
  exists ps, w_pairs w (f_pair r) = Some ps /\
    p_a0 ps = f_a0 r /\ p_a1 ps = f_a1 r /\ p_d0 ps = f_d0 r /\ p_d1 ps = f_d1 r /\ p_lp ps = f_lp r /\
    p_wl ps = f_wl r /\ p_min0 ps = f_min0 r /\ p_min1 ps = f_min1 r /\ p_comm ps = f_comm r /\ p_fac ps = w_fac w.
Definition RegOK (w : world) : Prop :=
  (forall r, In r (w_reg w) -> rec_matches w r /\ asset_eqb (f_a0 r) (f_a1 r) = false /\ f_pair r < w_next w) /\
  NoDup (map f_pair (w_reg w)) /\
  (forall i j ri rj, nth_error (w_reg w) i = Some ri -> nth_error (w_reg w) j = Some rj -> i <> j ->
       same_assets (f_a0 ri) (f_a1 ri) (f_a0 rj) (f_a1 rj) = false).
(* what re-registering denom dn with k decimals does to one record *)
Definition rec_updated (dn : denom) (k : N) (r : frec) : frec :=
  mkRec (f_a0 r) (f_a1 r) (f_pair r) (f_lp r)
        (if asset_eqb (f_a0 r) (ANative dn) then k else f_d0 r)
        (if asset_eqb (f_a1 r) (ANative dn) then k else f_d1 r)
        (f_wl r) (f_min0 r) (f_min1 r) (f_comm r).

(* ------------------------------------------------------------------ *)
(* generic helpers                                                      *)
(* ------------------------------------------------------------------ *)

Lemma upd_same {V} (f : N -> V) k v : upd f k v k = v.
Proof. unfold upd. rewrite N.eqb_refl. reflexivity. Qed.

Lemma upd_other {V} (f : N -> V) k v x : x <> k -> upd f k v x = f x.
Proof. intros H. unfold upd. apply N.eqb_neq in H. rewrite H. reflexivity. Qed.

Lemma find_ext' {A} (f g : A -> bool) l : (forall x, f x = g x) -> find f l = find g l.
Proof. intros H. induction l as [|a l IH]; cbn; [reflexivity|]. rewrite H, IH. reflexivity. Qed.

Lemma find_app' {A} (f : A -> bool) l1 l2 :
  find f (l1 ++ l2) = match find f l1 with Some x => Some x | None => find f l2 end.
Proof. induction l1 as [|a l1 IH]; cbn; [reflexivity|]. destruct (f a); [reflexivity|exact IH]. Qed.

Lemma bind_assoc {A B C} (r : res A) (f : A -> res B) (g : B -> res C) :
  bind (bind r f) g = bind r (fun x => bind (f x) g).
Proof. destruct r; reflexivity. Qed.

Lemma NoDup_app_single {A} (l : list A) x : NoDup l -> ~ In x l -> NoDup (l ++ [x]).
Proof.
  induction l as [|a l IH]; cbn; intros Hnd Hx.
  - constructor; [intros []|constructor].
  - apply NoDup_cons_iff in Hnd. destruct Hnd as (Ha & Hnd).
    constructor.
    + rewrite in_app_iff. cbn. intros [H|[H|[]]]; [exact (Ha H)|]. apply Hx. left. symmetry. exact H.
    + apply IH; [exact Hnd|]. intros H. apply Hx. right. exact H.
Qed.

Lemma nth_error_app_single {A} (l : list A) x i y :
  nth_error (l ++ [x]) i = Some y ->
  nth_error l i = Some y \/ (i = length l /\ y = x).
Proof.
  intros H. destruct (Compare_dec.lt_dec i (length l)) as [Hl|Hl].
  - left. rewrite nth_error_app1 in H by exact Hl. exact H.
  - right. rewrite nth_error_app2 in H by lia.
    destruct (i - length l)%nat as [|n] eqn:E.
    + cbn in H. inversion H. split; [lia|reflexivity].
    + cbn in H. destruct n; discriminate.
Qed.

(* ------------------------------------------------------------------ *)
(* lookups                                                              *)
(* ------------------------------------------------------------------ *)

Lemma asset_eqb_refl a : asset_eqb a a = true.
Proof. destruct a; cbn; apply N.eqb_refl. Qed.

Theorem asset_eqb_eq : forall a b, asset_eqb a b = true <-> a = b.
Proof.
  intros [x|x] [y|y]; cbn; split; intros H; try discriminate.
  - apply N.eqb_eq in H. subst. reflexivity.
  - inversion H. apply N.eqb_refl.
  - apply N.eqb_eq in H. subst. reflexivity.
  - inversion H. apply N.eqb_refl.
Qed.

Lemma asset_eqb_sym a b : asset_eqb a b = asset_eqb b a.
Proof. destruct a, b; cbn; try reflexivity; apply N.eqb_sym. Qed.

Lemma same_assets_swap_r x y a b : same_assets x y a b = same_assets x y b a.
Proof. unfold same_assets. apply orb_comm. Qed.

Lemma same_assets_sym_pairs a b c d : same_assets a b c d = same_assets c d a b.
Proof.
  unfold same_assets.
  rewrite (asset_eqb_sym a c), (asset_eqb_sym b d), (asset_eqb_sym a d), (asset_eqb_sym b c).
  destruct (asset_eqb c a), (asset_eqb d b), (asset_eqb d a), (asset_eqb c b); reflexivity.
Qed.

Lemma same_assets_refl a b : same_assets a b a b = true.
Proof. unfold same_assets. rewrite !asset_eqb_refl. reflexivity. Qed.

Lemma same_assets_trans x y a b c d :
  same_assets x y a b = true -> same_assets x y c d = true -> same_assets a b c d = true.
Proof.
  unfold same_assets. intros H1 H2.
  apply orb_true_iff in H1. apply orb_true_iff in H2.
  destruct H1 as [H1|H1]; apply andb_true_iff in H1; destruct H1 as (P1 & P2);
  destruct H2 as [H2|H2]; apply andb_true_iff in H2; destruct H2 as (Q1 & Q2);
  apply asset_eqb_eq in P1; apply asset_eqb_eq in P2; apply asset_eqb_eq in Q1; apply asset_eqb_eq in Q2;
  subst; rewrite !asset_eqb_refl; cbn; rewrite ?orb_true_r; reflexivity.
Qed.

Theorem reg_find_sym : forall reg a0 a1, reg_find reg a0 a1 = reg_find reg a1 a0.
Proof. intros. unfold reg_find. apply find_ext'. intros r. apply same_assets_swap_r. Qed.

Theorem reg_find_same_set : forall reg a b r,
  reg_find reg a b = Some r -> In r reg /\ same_assets (f_a0 r) (f_a1 r) a b = true.
Proof. intros reg a b r H. unfold reg_find in H. apply find_some in H. exact H. Qed.

(* two different unordered asset sets never resolve to the same pair *)
Theorem reg_find_injective : forall reg a b c d r,
  reg_find reg a b = Some r -> reg_find reg c d = Some r -> same_assets a b c d = true.
Proof.
  intros reg a b c d r H1 H2.
  apply reg_find_same_set in H1. apply reg_find_same_set in H2.
  destruct H1 as (_ & H1). destruct H2 as (_ & H2).
  exact (same_assets_trans _ _ _ _ _ _ H1 H2).
Qed.

(* ------------------------------------------------------------------ *)
(* C16: creation                                                        *)
(* ------------------------------------------------------------------ *)

Theorem fac_create_pair_facts : forall w c a0 a1 wl m0 m1 cm ld w',
  fac_create_pair w c a0 a1 wl m0 m1 cm ld = Ok w' ->
  c = w_owner w /\ asset_eqb a0 a1 = false /\ reg_find (w_reg w) a0 a1 = None /\
  exists d0 d1, asset_decimals w a0 = Ok d0 /\ asset_decimals w a1 = Ok d1 /\
    let cr := match cm with Some x => x | None => DEFAULT_COMMISSION end in
    let r := mkRec a0 a1 (w_next w) (w_next w + 1) d0 d1 wl m0 m1 cr in
    cr <= D /\
    w_reg w' = w_reg w ++ [r] /\
    w_pairs w' (w_next w) = Some (mkPair a0 a1 d0 d1 (w_next w + 1) wl m0 m1 cr (w_fac w)) /\
    (forall q, q <> w_next w -> w_pairs w' q = w_pairs w q) /\
    w_next w' = w_next w + 2 /\ w_fac w' = w_fac w /\ w_owner w' = w_owner w /\ w_natives w' = w_natives w /\
    w_bank w' = w_bank w.
Proof.
  intros w c a0 a1 wl m0 m1 cm ld w' H.
  unfold fac_create_pair in H.
  destruct (c =? w_owner w) eqn:Ec; cbn [negb] in H; [|discriminate].
  apply N.eqb_eq in Ec.
  destruct (asset_eqb a0 a1) eqn:Ea; [discriminate|].
  assert (Hcr : match cm with Some x => x | None => DEFAULT_COMMISSION end <= D).
  { destruct cm as [x|].
    - destruct (D <? x) eqn:Ex; [discriminate|]. apply N.ltb_ge in Ex. exact Ex.
    - unfold DEFAULT_COMMISSION, D. lia. }
  destruct (match cm with Some c0 => D <? c0 | None => false end); [discriminate|].
  destruct (asset_decimals w a0) as [d0|] eqn:Ed0; cbn [bind] in H; [|discriminate].
  destruct (asset_decimals w a1) as [d1|] eqn:Ed1; cbn [bind] in H; [|discriminate].
  destruct (reg_find (w_reg w) a0 a1) eqn:Er; [discriminate|].
  cbv zeta in H.
  destruct (18 <? match ld with Some k => k | None => 6 end); [discriminate|].
  inversion H; subst w'; clear H.
  split; [exact Ec|]. split; [reflexivity|]. split; [reflexivity|].
  exists d0, d1. split; [reflexivity|]. split; [reflexivity|].
  cbv zeta.
  split; [exact Hcr|].
  split; [reflexivity|].
  split. { cbn. rewrite upd_same. reflexivity. }
  split. { intros q Hq. cbn. rewrite upd_other by exact Hq. reflexivity. }
  repeat split.
Qed.

Lemma fac_create_pair_dup_err w c a0 a1 wl m0 m1 cm ld r :
  reg_find (w_reg w) a0 a1 = Some r -> exists e, fac_create_pair w c a0 a1 wl m0 m1 cm ld = Err e.
Proof.
  intros H. destruct (fac_create_pair w c a0 a1 wl m0 m1 cm ld) eqn:E; [|eauto].
  apply fac_create_pair_facts in E. destruct E as (_ & _ & E & _). congruence.
Qed.

Theorem fac_create_pair_duplicate_rejected : forall w c a0 a1 wl m0 m1 cm ld r,
  reg_find (w_reg w) a0 a1 = Some r ->
  (exists e, fac_create_pair w c a0 a1 wl m0 m1 cm ld = Err e) /\ (exists e, fac_create_pair w c a1 a0 wl m0 m1 cm ld = Err e).
Proof.
  intros w c a0 a1 wl m0 m1 cm ld r H. split.
  - eapply fac_create_pair_dup_err. exact H.
  - eapply fac_create_pair_dup_err. rewrite reg_find_sym. exact H.
Qed.

Theorem fac_create_pair_same_asset_rejected : forall w c a wl m0 m1 cm ld, exists e, fac_create_pair w c a a wl m0 m1 cm ld = Err e.
Proof.
  intros. destruct (fac_create_pair w c a a wl m0 m1 cm ld) eqn:E; [|eauto].
  apply fac_create_pair_facts in E. destruct E as (_ & E & _).
  rewrite asset_eqb_refl in E. discriminate.
Qed.

(* created pairs resolve, in either order, to their own record, under RegOK *)
Theorem fac_create_pair_lookup : forall w c a0 a1 wl m0 m1 cm ld w',
  RegOK w -> fac_create_pair w c a0 a1 wl m0 m1 cm ld = Ok w' ->
  exists r, reg_find (w_reg w') a0 a1 = Some r /\ reg_find (w_reg w') a1 a0 = Some r /\ f_pair r = w_next w /\
            f_a0 r = a0 /\ f_a1 r = a1 /\
            (forall c0 c1, same_assets a0 a1 c0 c1 = false -> reg_find (w_reg w') c0 c1 = reg_find (w_reg w) c0 c1).
Proof.
  intros w c a0 a1 wl m0 m1 cm ld w' _ H.
  apply fac_create_pair_facts in H.
  destruct H as (_ & _ & Hnone & d0 & d1 & _ & _ & H). cbv zeta in H.
  destruct H as (_ & Hreg & _).
  assert (A : reg_find (w_reg w') a0 a1 =
              Some (mkRec a0 a1 (w_next w) (w_next w + 1) d0 d1 wl m0 m1
                          match cm with Some x => x | None => DEFAULT_COMMISSION end)).
  { rewrite Hreg. unfold reg_find in *. rewrite find_app', Hnone.
    cbn [find f_a0 f_a1]. rewrite same_assets_refl. reflexivity. }
  eexists. split; [exact A|]. split; [rewrite reg_find_sym; exact A|].
  split; [reflexivity|]. split; [reflexivity|]. split; [reflexivity|].
  intros c0 c1 Hc. rewrite Hreg. unfold reg_find. rewrite find_app'.
  destruct (find _ (w_reg w)); [reflexivity|].
  cbn [find f_a0 f_a1]. rewrite Hc. reflexivity.
Qed.

Theorem fac_create_pair_RegOK : forall w c a0 a1 wl m0 m1 cm ld w',
  RegOK w -> (forall q, w_next w <= q -> w_pairs w q = None) ->
  fac_create_pair w c a0 a1 wl m0 m1 cm ld = Ok w' -> RegOK w' /\ (forall q, w_next w' <= q -> w_pairs w' q = None).
Proof.
  intros w c a0 a1 wl m0 m1 cm ld w' HR Hfresh H.
  apply fac_create_pair_facts in H.
  destruct H as (_ & Hne & Hnone & d0 & d1 & _ & _ & H). cbv zeta in H.
  destruct H as (_ & Hreg & Hp & Hq & Hnext & Hfac & _).
  destruct HR as (R1 & R2 & R3).
  assert (Hnone' : forall x, In x (w_reg w) -> same_assets (f_a0 x) (f_a1 x) a0 a1 = false).
  { intros x Hx. unfold reg_find in Hnone. exact (find_none _ _ Hnone x Hx). }
  split.
  - unfold RegOK. rewrite Hreg. split; [|split].
    + intros r Hr. apply in_app_or in Hr. destruct Hr as [Hr|Hr].
      * destruct (R1 r Hr) as ((ps & Hps & M) & Hne' & Hlt).
        split; [|split; [exact Hne' | lia]].
        exists ps. rewrite Hq by lia. rewrite Hfac. split; [exact Hps|exact M].
      * destruct Hr as [<-|[]]. cbn [f_a0 f_a1 f_pair].
        split; [|split; [exact Hne | lia]].
        eexists. split; [exact Hp|]. cbn. rewrite Hfac. repeat split.
    + rewrite map_app. cbn [map f_pair]. apply NoDup_app_single; [exact R2|].
      intros Hin. apply in_map_iff in Hin. destruct Hin as (r & Hr1 & Hr2).
      destruct (R1 r Hr2) as (_ & _ & Hlt). lia.
    + intros i j ri rj Hi Hj Hij.
      apply nth_error_app_single in Hi. apply nth_error_app_single in Hj.
      destruct Hi as [Hi|(Hi & ->)]; destruct Hj as [Hj|(Hj & ->)].
      * exact (R3 i j ri rj Hi Hj Hij).
      * cbn [f_a0 f_a1]. apply Hnone'. eapply nth_error_In. exact Hi.
      * cbn [f_a0 f_a1]. rewrite same_assets_sym_pairs. apply Hnone'. eapply nth_error_In. exact Hj.
      * exfalso. apply Hij. congruence.
  - intros q Hq'. rewrite Hq by lia. apply Hfresh. lia.
Qed.

(* ------------------------------------------------------------------ *)
(* C17: re-registering a native denom                                   *)
(* ------------------------------------------------------------------ *)

(* the two pair calls made for one record *)
Definition one_step (w : world) (dn : denom) (k : N) (r : frec) : res world :=
  let* w1 := (if asset_eqb (f_a0 r) (ANative dn) then
                match w_pairs w (f_pair r) with
                | Some ps => pair_update_decimals w (f_pair r) ps (w_fac w) dn k (f_d1 r)
                | None => Err EStd end
              else Ok w) in
  (if asset_eqb (f_a1 r) (ANative dn) then
     match w_pairs w1 (f_pair r) with
     | Some ps => pair_update_decimals w1 (f_pair r) ps (w_fac w) dn (f_d0 r) k
     | None => Err EStd end
   else Ok w1).

(* the record as the factory code rewrites it *)
Definition step_rec (dn : denom) (k : N) (r : frec) : frec :=
  if asset_eqb (f_a1 r) (ANative dn)
  then mkRec (f_a0 r) (f_a1 r) (f_pair r) (f_lp r) (f_d0 r) k (f_wl r) (f_min0 r) (f_min1 r) (f_comm r)
  else if asset_eqb (f_a0 r) (ANative dn)
       then mkRec (f_a0 r) (f_a1 r) (f_pair r) (f_lp r) k (f_d1 r) (f_wl r) (f_min0 r) (f_min1 r) (f_comm r)
       else r.

Lemma fur_cons w dn k r todo done :
  fac_update_records w dn k (r :: todo) done =
  let* w2 := one_step w dn k r in fac_update_records w2 dn k todo (step_rec dn k r :: done).
Proof.
  cbn [fac_update_records]. unfold one_step, step_rec. cbv zeta.
  rewrite bind_assoc. reflexivity.
Qed.

Lemma step_rec_eq dn k r :
  asset_eqb (f_a0 r) (f_a1 r) = false -> step_rec dn k r = rec_updated dn k r.
Proof.
  unfold step_rec, rec_updated.
  destruct r as [a0 a1 p lp d0 d1 wl m0 m1 cm]. cbn [f_a0 f_a1 f_pair f_lp f_d0 f_d1 f_wl f_min0 f_min1 f_comm].
  intros H.
  destruct (asset_eqb a0 (ANative dn)) eqn:E0; destruct (asset_eqb a1 (ANative dn)) eqn:E1; try reflexivity.
  apply asset_eqb_eq in E0. apply asset_eqb_eq in E1. subst.
  rewrite asset_eqb_refl in H. discriminate.
Qed.

Lemma one_step_spec w dn k r w2 :
  rec_matches w r -> asset_eqb (f_a0 r) (f_a1 r) = false -> one_step w dn k r = Ok w2 ->
  rec_matches w2 (rec_updated dn k r) /\
  (forall q, q <> f_pair r -> w_pairs w2 q = w_pairs w q) /\
  w_bank w2 = w_bank w /\ w_next w2 = w_next w /\ w_owner w2 = w_owner w /\ w_fac w2 = w_fac w /\
  w_natives w2 = w_natives w /\ w_reg w2 = w_reg w.
Proof.
  intros (ps & Hps & A0 & A1 & D0 & D1 & L & WL & M0 & M1 & CM & F) Hne H.
  unfold one_step in H. unfold rec_updated.
  destruct (asset_eqb (f_a0 r) (ANative dn)) eqn:E0; destruct (asset_eqb (f_a1 r) (ANative dn)) eqn:E1.
  - apply asset_eqb_eq in E0. apply asset_eqb_eq in E1. rewrite E0, E1, asset_eqb_refl in Hne. discriminate.
  - rewrite Hps in H. unfold pair_update_decimals in H. rewrite F, N.eqb_refl in H. cbn [negb] in H.
    rewrite A0, E0 in H. cbn [orb bind] in H. inversion H; subst w2; clear H.
    split.
    { eexists. split. { cbn. rewrite upd_same. reflexivity. } cbn. repeat split; assumption. }
    split. { intros q Hq. cbn. rewrite upd_other by exact Hq. reflexivity. }
    repeat split.
  - cbn [bind] in H. rewrite Hps in H. unfold pair_update_decimals in H. rewrite F, N.eqb_refl in H. cbn [negb] in H.
    rewrite A1, E1 in H. rewrite orb_true_r in H. inversion H; subst w2; clear H.
    split.
    { eexists. split. { cbn. rewrite upd_same. reflexivity. } cbn. repeat split; assumption. }
    split. { intros q Hq. cbn. rewrite upd_other by exact Hq. reflexivity. }
    repeat split.
  - cbn [bind] in H. inversion H; subst w2; clear H.
    split.
    { exists ps. split; [exact Hps|]. cbn. repeat split; assumption. }
    split. { intros; reflexivity. }
    repeat split.
Qed.

Lemma fur_spec dn k : forall todo w done w',
  (forall r, In r todo -> rec_matches w r /\ asset_eqb (f_a0 r) (f_a1 r) = false) ->
  NoDup (map f_pair todo) ->
  fac_update_records w dn k todo done = Ok w' ->
  w_reg w' = rev done ++ map (rec_updated dn k) todo /\
  (forall r, In r todo -> rec_matches w' (rec_updated dn k r)) /\
  (forall q, (forall r, In r todo -> f_pair r <> q) -> w_pairs w' q = w_pairs w q) /\
  w_bank w' = w_bank w /\ w_next w' = w_next w /\ w_owner w' = w_owner w /\ w_fac w' = w_fac w /\
  w_natives w' = w_natives w.
Proof.
  induction todo as [|r todo IH]; intros w done w' Hall Hnd H.
  - cbn [fac_update_records] in H. inversion H; subst w'; clear H.
    split. { cbn. rewrite app_nil_r. reflexivity. }
    split. { intros r []. }
    split. { intros; reflexivity. }
    repeat split.
  - rewrite fur_cons in H. apply bind_ok in H. destruct H as (w2 & H1 & H2).
    destruct (Hall r (or_introl eq_refl)) as (Hm & Hne).
    rewrite (step_rec_eq _ _ _ Hne) in H2.
    destruct (one_step_spec _ _ _ _ _ Hm Hne H1) as (Hm2 & Hq2 & B2 & N2 & O2 & F2 & NA2 & _).
    cbn [map] in Hnd. apply NoDup_cons_iff in Hnd. destruct Hnd as (Hnotin & Hnd').
    assert (Hall2 : forall r', In r' todo -> rec_matches w2 r' /\ asset_eqb (f_a0 r') (f_a1 r') = false).
    { intros r' Hr'. destruct (Hall r' (or_intror Hr')) as ((ps & Hps & M) & Hne').
      split; [|exact Hne']. exists ps. rewrite F2. split; [|exact M].
      rewrite Hq2; [exact Hps|]. intros E. apply Hnotin. apply in_map_iff. exists r'. split; [exact E|exact Hr']. }
    destruct (IH w2 _ w' Hall2 Hnd' H2) as (Hreg & Hall' & Hq' & B & N' & O & F & NA).
    split. { rewrite Hreg. cbn [rev map]. rewrite <- app_assoc. reflexivity. }
    split.
    { intros r' [<-|Hr'].
      - destruct Hm2 as (ps & Hps & M). exists ps. rewrite F. split; [|exact M].
        rewrite Hq'; [exact Hps|]. intros r'' Hr'' E. apply Hnotin. apply in_map_iff.
        exists r''. split; [exact E|exact Hr''].
      - apply Hall'. exact Hr'. }
    split.
    { intros q Hq. rewrite Hq' by (intros r'' Hr''; apply Hq; right; exact Hr'').
      apply Hq2. intros E. apply (Hq r (or_introl eq_refl)). symmetry. exact E. }
    repeat split; congruence.
Qed.

(* re-registering a native denom reaches EVERY registered pair *)
Theorem fac_add_native_reaches_all : forall w c dn k w' old,
  RegOK w -> w_natives w dn = Some old -> fac_add_native w c dn k = Ok w' ->
  c = w_owner w /\ w_natives w' dn = Some k /\ (forall d, d <> dn -> w_natives w' d = w_natives w d) /\
  w_reg w' = map (rec_updated dn k) (w_reg w) /\ RegOK w' /\
  (forall q, (forall r, In r (w_reg w) -> f_pair r <> q) -> w_pairs w' q = w_pairs w q) /\
  w_bank w' = w_bank w /\ w_next w' = w_next w /\ w_owner w' = w_owner w.
Proof.
  intros w c dn k w' old HR Hold H.
  unfold fac_add_native in H. cbv zeta in H. rewrite Hold in H.
  destruct (c =? w_owner w) eqn:Ec; cbn [negb] in H; [|discriminate]. apply N.eqb_eq in Ec.
  destruct (w_bank w (w_fac w) dn =? 0) eqn:Eb; [discriminate|].
  destruct HR as (R1 & R2 & R3).
  assert (Hall : forall r, In r (w_reg w) ->
            rec_matches (set_natives w (upd (w_natives w) dn (Some k))) r /\ asset_eqb (f_a0 r) (f_a1 r) = false).
  { intros r Hr. destruct (R1 r Hr) as (Hm & Hne & _). split; [exact Hm|exact Hne]. }
  destruct (fur_spec dn k (w_reg w) _ [] w' Hall R2 H) as (Hreg & Hall' & Hq' & B & N' & O & F & NA).
  cbn [rev app] in Hreg.
  split; [exact Ec|].
  split. { rewrite NA. cbn. apply upd_same. }
  split. { intros d Hd. rewrite NA. cbn. apply upd_other. exact Hd. }
  split; [exact Hreg|].
  split.
  { unfold RegOK. rewrite Hreg. split; [|split].
    - intros r' Hr'. apply in_map_iff in Hr'. destruct Hr' as (r & <- & Hr).
      split; [apply Hall'; exact Hr|].
      destruct (R1 r Hr) as (_ & Hne & Hlt). split; [exact Hne|]. rewrite N'. exact Hlt.
    - rewrite map_map. erewrite map_ext; [exact R2|]. intros; reflexivity.
    - intros i j ri rj Hi Hj Hij. rewrite nth_error_map in Hi, Hj.
      destruct (nth_error (w_reg w) i) as [ri0|] eqn:Ei; [|discriminate].
      destruct (nth_error (w_reg w) j) as [rj0|] eqn:Ej; [|discriminate].
      cbn [option_map] in Hi, Hj. inversion Hi; subst ri. inversion Hj; subst rj.
      exact (R3 i j ri0 rj0 Ei Ej Hij). }
  split; [exact Hq'|].
  split; [exact B|]. split; [exact N'|exact O].
Qed.

(* first registration of a denom touches no pair *)
Theorem fac_add_native_fresh : forall w c dn k w',
  w_natives w dn = None -> fac_add_native w c dn k = Ok w' ->
  c = w_owner w /\ w_natives w' dn = Some k /\ w_reg w' = w_reg w /\ w_pairs w' = w_pairs w /\ w_bank w' = w_bank w.
Proof.
  intros w c dn k w' Hn H.
  unfold fac_add_native in H. cbv zeta in H. rewrite Hn in H.
  destruct (c =? w_owner w) eqn:Ec; cbn [negb] in H; [|discriminate]. apply N.eqb_eq in Ec.
  destruct (w_bank w (w_fac w) dn =? 0) eqn:Eb; [discriminate|].
  inversion H; subst w'; clear H.
  split; [exact Ec|]. split. { cbn. apply upd_same. }
  repeat split.
Qed.

(* the initial (empty) registry is fine *)
Theorem RegOK_empty : forall w, w_reg w = [] -> RegOK w.
Proof.
  intros w H. unfold RegOK. rewrite H. split; [|split].
  - intros r [].
  - constructor.
  - intros i j ri rj Hi. destruct i; discriminate.
Qed.

(* anything that leaves the registry, the pairs, the factory address and the address counter alone keeps RegOK *)
Theorem RegOK_same_config : forall w w',
  RegOK w -> w_reg w' = w_reg w -> w_pairs w' = w_pairs w -> w_fac w' = w_fac w -> w_next w' = w_next w -> RegOK w'.
Proof.
  intros w w' (R1 & R2 & R3) Hreg Hp Hf Hn. unfold RegOK. rewrite Hreg, Hn.
  split; [|split; [exact R2|exact R3]].
  intros r Hr. destruct (R1 r Hr) as ((ps & Hps & M) & A & B).
  split; [|split; assumption].
  exists ps. rewrite Hp, Hf. split; assumption.
Qed.

Print Assumptions asset_eqb_eq.
Print Assumptions reg_find_sym.
Print Assumptions reg_find_same_set.
Print Assumptions reg_find_injective.
Print Assumptions fac_create_pair_facts.
Print Assumptions fac_create_pair_duplicate_rejected.
Print Assumptions fac_create_pair_same_asset_rejected.
Print Assumptions fac_create_pair_lookup.
Print Assumptions fac_create_pair_RegOK.
Print Assumptions fac_add_native_reaches_all.
Print Assumptions fac_add_native_fresh.
Print Assumptions RegOK_empty.
Print Assumptions RegOK_same_config.
