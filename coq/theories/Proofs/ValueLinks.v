(* The premises of every [pool_step] kind are what the function-level theorems deliver. *)
From HT Require Import Base.Prelude Num.Arith Amm.Formulas Amm.Known Proofs.NumProofs Proofs.SwapSpec
  Proofs.SwapProofs Proofs.C01Proofs Proofs.LiquidityProofs Proofs.ValueProofs.

Theorem provide_is_pool_step (wl : bool) min0 min1 T d0 d1 r0 r1 m :
  T <> 0 -> lp_share wl min0 min1 T d0 d1 r0 r1 = Ok m ->
  pool_step (r0, r1, T) (r0 + d0, r1 + d1, T + m).
Proof.
  intros HT H. destruct (share_later wl min0 min1 T d0 d1 r0 r1 m HT H) as (_ & _ & A & B & _).
  apply ps_provide; lia.
Qed.

Theorem withdraw_is_pool_step r0 r1 a T x0 x1 :
  a < T -> withdraw_amounts r0 r1 a T = Ok (x0, x1) ->
  pool_step (r0, r1, T) (r0 - x0, r1 - x1, T - a).
Proof.
  intros Ha H. destruct (withdraw_bounds r0 r1 a T x0 x1 H) as [[A _] [B _]].
  destruct (withdraw_le_reserve r0 r1 a T x0 x1 H ltac:(lia)) as [L0 L1].
  apply ps_withdraw; assumption.
Qed.

Theorem swap_is_pool_step x y a c n s m T :
  x < W128 -> y < W128 -> a < W128 -> c <= D ->
  compute_swap x y a c = Ok (n, s, m) -> kf_c01 x y a c = false ->
  pool_step (x, y, T) (x + a, y - n, T) /\ pool_step (y, x, T) (y - n, x + a, T).
Proof.
  intros Hx Hy Ha Hc H Hk.
  destruct (c01_fn x y a c n s m Hx Hy Ha Hc H Hk) as (_ & P & _).
  pose proof (c01_n_le_y x y a c n s m Hx Hy Ha Hc H) as Hn.
  split.
  - apply ps_swap01; assumption.
  - apply ps_swap10; [assumption|]. rewrite (N.mul_comm y x), (N.mul_comm (y - n) (x + a)). exact P.
Qed.

(* the full statement is false of the faithful model: a swap in the ceil window lowers the value *)
Theorem value_refuted :
  exists x y a c n s m T, x < W128 /\ y < W128 /\ a < W128 /\ c <= D /\ 0 < T /\
    compute_swap x y a c = Ok (n, s, m) /\ ~ value_le (x, y, T) (x + a, y - n, T).
Proof.
  exists 340282366920938463463374607431, 340282366920938463463374607431, 1, 30000000000000000, 1, 0, 0, 1000.
  repeat split; try (vm_compute; reflexivity); try (vm_compute; discriminate).
  unfold value_le. vm_compute. intros H. apply H. reflexivity.
Qed.
