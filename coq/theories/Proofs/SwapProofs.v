(* Facts about the closed form of compute_swap: rounding bounds of the gross
   output, the price band, commission, sum and monotonicity (C06), and the
   constant-product bound outside the ceil window (C01). *)
From HT Require Import Base.Prelude Num.Arith Amm.Formulas Proofs.NumProofs Proofs.SwapSpec.

Local Open Scope Z_scope.

(* Pure integer core, in Z so that subtraction is honest. *)
Lemma gross_core (x y a Dz F T g : Z) :
  0 <= x -> 0 <= y -> 0 <= a -> 0 < x + a -> 0 < Dz ->
  F * (x + a) <= x * y * Dz < (F + 1) * (x + a) ->
  T = y * Dz - F ->
  g * Dz <= T < (g + 1) * Dz ->
  y * a < (g + 1) * (x + a) /\ g * (x + a) * Dz < y * a * Dz + (x + a).
Proof.
  intros Hx Hy Ha HQ HD [HF1 HF2] HT [Hg1 Hg2]. subst T.
  assert (E1 : (y * Dz - F) * (x + a) < y * a * Dz + (x + a)) by nia.
  assert (E2 : y * a * Dz <= (y * Dz - F) * (x + a)) by nia.
  split; nia.
Qed.

Lemma band_core (P Q g m c Dz : Z) :
  0 < Q -> 0 < Dz -> 0 <= c <= Dz -> 0 <= P -> 0 <= g ->
  P < (g + 1) * Q ->
  g * Q * Dz < P * Dz + Q ->
  m * Dz <= g * c < (m + 1) * Dz ->
  (g - m) * Dz * Q < P * (Dz - c) + Dz * Q /\ P * (Dz - c) < (g - m) * Dz * Q + Dz * Q.
Proof.
  intros HQ HD [Hc0 Hc] HP Hg Hlo Hup [Hm1 Hm2].
  split.
  - destruct (Z_le_gt_dec (g * Q) P) as [Hn|Hw].
    + (* outside the window: g <= q *)
      assert (E : (g - m) * Dz < g * (Dz - c) + Dz) by nia.
      assert (E2 : g * (Dz - c) * Q <= P * (Dz - c)) by nia.
      nia.
    + (* inside the window: q < g < q + 1/D *)
      assert (Hrho : 0 <= g * c - m * Dz <= Dz - 1) by lia.
      set (rho := g * c - m * Dz) in *.
      assert (En : (g - m) * Dz = g * (Dz - c) + rho) by (unfold rho; ring).
      assert (E3 : g * Q * Dz * (Dz - c) <= (P * Dz + Q) * (Dz - c)) by nia.
      assert (E4 : Dz * ((g - m) * Dz * Q) < Dz * (P * (Dz - c) + Dz * Q)).
      { rewrite En.
        replace (Dz * ((g * (Dz - c) + rho) * Q)) with (g * Q * Dz * (Dz - c) + rho * Q * Dz) by ring.
        assert (E5 : rho * Q * Dz <= (Dz - 1) * Q * Dz) by nia.
        destruct (Z.eq_dec c Dz) as [->|Hne].
        - replace (Dz - Dz) with 0 by ring. rewrite !Z.mul_0_r. nia.
        - assert (E6 : g * Q * Dz * (Dz - c) < (P * Dz + Q) * (Dz - c)) by nia. nia. }
      nia.
  - assert (E : g * (Dz - c) <= (g - m) * Dz) by nia.
    destruct (Z.eq_dec c Dz) as [->|Hne].
    + replace (Dz - Dz) with 0 by ring. nia.
    + assert (E2 : P * (Dz - c) < (g + 1) * Q * (Dz - c)) by nia. nia.
Qed.

Lemma comm_mono_core (k k' m m' c Dz : Z) :
  0 < Dz -> 0 <= c <= Dz -> 0 <= k <= k' ->
  m * Dz <= k * c < (m + 1) * Dz ->
  m' * Dz <= k' * c < (m' + 1) * Dz ->
  k - m <= k' - m'.
Proof. intros HD Hc Hk Hm Hm'. nia. Qed.

Local Close Scope Z_scope.
Local Open Scope N_scope.

(* ---- the gross output: q - 1 < gross < q + 10^-18, q = y*a/(x+a) ---- *)
Lemma gross_bounds x y a :
  0 < x + a ->
  y * a < (gross x y a + 1) * (x + a) /\
  gross x y a * (x + a) * D < y * a * D + (x + a).
Proof.
  intros HQ. unfold gross.
  pose proof (F_le x y a HQ) as HF.
  pose proof (div_sandwich (x * y * D) (x + a) HQ) as [HF1 HF2].
  remember (x * y * D / (x + a)) as F eqn:EF.
  pose proof (div_sandwich (y * D - F) D D_pos) as [Hg1 Hg2].
  remember ((y * D - F) / D) as g eqn:Eg.
  pose proof D_pos as HD.
  destruct (gross_core (Z.of_N x) (Z.of_N y) (Z.of_N a) (Z.of_N D) (Z.of_N F)
              (Z.of_N (y * D - F)) (Z.of_N g)) as [R1 R2]; lia.
Qed.

Lemma ideal_eq x y a : x <> 0 -> ideal x y a = y * a / x.
Proof.
  intros Hx. unfold ideal. rewrite N.div_div by (rewrite ?D_val; lia).
  rewrite N.div_mul_cancel_r by (rewrite ?D_val; lia). reflexivity.
Qed.

Lemma comm_le g c : c <= D -> g * c / D <= g.
Proof. intros Hc. apply N.div_le_upper_bound; [rewrite D_val; lia|]. nia. Qed.

(* ---- C06 ---- *)
Section C06.
  Variables x y a c n s m : N.
  Hypothesis Hx : x < W128.
  Hypothesis Hy : y < W128.
  Hypothesis Ha : a < W128.
  Hypothesis Hc : c <= D.
  Hypothesis Hok : compute_swap x y a c = Ok (n, s, m).

  Lemma swap_inv :
    x <> 0 /\ x * y * D < W256 /\ y * a * D < W256 /\
    gross x y a <= ideal x y a /\ ideal x y a - gross x y a < W128 /\
    n = gross x y a - gross x y a * c / D /\ s = ideal x y a - gross x y a /\
    m = gross x y a * c / D.
  Proof.
    rewrite compute_swap_eq_spec in Hok by assumption. unfold compute_swap_spec in Hok.
    destruct (x =? 0) eqn:E0; [discriminate|].
    destruct (W256 <=? x * y * D) eqn:E1; [discriminate|].
    destruct (W256 <=? y * a * D) eqn:E2; [discriminate|].
    cbv zeta in Hok.
    destruct (ideal x y a <? gross x y a) eqn:E3; [discriminate|].
    destruct (W128 <=? ideal x y a - gross x y a) eqn:E4; [discriminate|].
    injection Hok as <- <- <-.
    repeat split; lia.
  Qed.

  Lemma m_le_gross : gross x y a * c / D <= gross x y a.
  Proof. apply comm_le; exact Hc. Qed.

  (* g(1-c) - 1 < n < g(1-c) + 1 with g = y*a/(x+a), cross-multiplied by D*(x+a) *)
  Theorem swap_band :
    n * D * (x + a) < y * a * (D - c) + D * (x + a) /\
    y * a * (D - c) < n * D * (x + a) + D * (x + a).
  Proof.
    destruct swap_inv as (Hx0 & _ & _ & _ & _ & Hn & _ & _).
    assert (HQ : 0 < x + a) by lia.
    destruct (gross_bounds x y a HQ) as [G1 G2].
    pose proof m_le_gross as Hmg.
    pose proof (div_sandwich (gross x y a * c) D D_pos) as [M1 M2].
    remember (gross x y a) as g eqn:Eg.
    remember (g * c / D) as mm eqn:Emm.
    pose proof D_pos as HD.
    destruct (band_core (Z.of_N (y * a)) (Z.of_N (x + a)) (Z.of_N g) (Z.of_N mm) (Z.of_N c) (Z.of_N D))
      as [B1 B2]; try lia.
    subst n. split.
    - replace (Z.of_N g - Z.of_N mm)%Z with (Z.of_N (g - mm)) in B1 by lia.
      replace (Z.of_N D - Z.of_N c)%Z with (Z.of_N (D - c)) in B1 by lia. lia.
    - replace (Z.of_N g - Z.of_N mm)%Z with (Z.of_N (g - mm)) in B2 by lia.
      replace (Z.of_N D - Z.of_N c)%Z with (Z.of_N (D - c)) in B2 by lia. lia.
  Qed.

  (* reported commission = floor(c * (n + commission)) *)
  Theorem swap_commission : m = c * (n + m) / D.
  Proof.
    destruct swap_inv as (_ & _ & _ & _ & _ & Hn & _ & Hm).
    pose proof m_le_gross as Hmg. subst n m.
    replace (gross x y a - gross x y a * c / D + gross x y a * c / D) with (gross x y a) by lia.
    now rewrite N.mul_comm.
  Qed.

  (* n + commission + spread = floor(a*y/x) *)
  Theorem swap_sum : n + m + s = a * y / x.
  Proof.
    destruct swap_inv as (Hx0 & _ & _ & Hgi & _ & Hn & Hs & Hm).
    pose proof m_le_gross as Hmg. subst n m s. rewrite (N.mul_comm a y). rewrite <- (ideal_eq x y a Hx0).
    remember (gross x y a) as g. remember (ideal x y a) as i. remember (g * c / D) as mm. lia.
  Qed.

  (* the commission never leaves the pool: what is paid is n = gross - m <= gross <= y *)
  Theorem swap_paid_le : n + m <= y.
  Proof.
    destruct swap_inv as (_ & _ & _ & _ & _ & Hn & _ & Hm).
    pose proof m_le_gross as Hmg. pose proof (gross_le_y x y a). subst n m.
    remember (gross x y a) as g. remember (g * c / D) as mm. lia.
  Qed.
End C06.

Lemma gross_mono x y a a' : 0 < x + a -> a <= a' -> gross x y a <= gross x y a'.
Proof.
  intros HQ Haa. unfold gross.
  apply N.div_le_mono; [rewrite D_val; lia|].
  assert (H : x * y * D / (x + a') <= x * y * D / (x + a)).
  { apply N.div_le_compat_l. lia. }
  remember (x * y * D / (x + a')) as F'. remember (x * y * D / (x + a)) as F. lia.
Qed.

Theorem swap_mono x y a a' c n s m n' s' m' :
  x < W128 -> y < W128 -> a < W128 -> a' < W128 -> c <= D -> a <= a' ->
  compute_swap x y a c = Ok (n, s, m) ->
  compute_swap x y a' c = Ok (n', s', m') ->
  n <= n'.
Proof.
  intros Hx Hy Ha Ha' Hc Haa H1 H2.
  destruct (swap_inv x y a c n s m Hx Hy Ha Hc H1) as (Hx0 & _ & _ & _ & _ & Hn & _ & _).
  destruct (swap_inv x y a' c n' s' m' Hx Hy Ha' Hc H2) as (_ & _ & _ & _ & _ & Hn' & _ & _).
  pose proof (gross_mono x y a a' ltac:(lia) Haa) as Hg.
  pose proof (comm_le (gross x y a) c Hc) as Hm1. pose proof (comm_le (gross x y a') c Hc) as Hm2.
  pose proof (div_sandwich (gross x y a * c) D D_pos) as [M1 M2].
  pose proof (div_sandwich (gross x y a' * c) D D_pos) as [M1' M2'].
  remember (gross x y a) as g. remember (gross x y a') as g'.
  remember (g * c / D) as mm. remember (g' * c / D) as mm'.
  pose proof D_pos as HD.
  pose proof (comm_mono_core (Z.of_N g) (Z.of_N g') (Z.of_N mm) (Z.of_N mm') (Z.of_N c) (Z.of_N D)) as CM.
  subst n n'. lia.
Qed.

(* exact abort condition *)
Theorem swap_ok_iff x y a c :
  x < W128 -> y < W128 -> a < W128 -> c <= D ->
  (is_ok (compute_swap x y a c) = true <->
   x <> 0 /\ x * y * D < W256 /\ y * a * D < W256 /\
   gross x y a <= ideal x y a /\ ideal x y a - gross x y a < W128).
Proof.
  intros Hx Hy Ha Hc. rewrite compute_swap_eq_spec by assumption. unfold compute_swap_spec.
  destruct (x =? 0) eqn:E0; [cbn; split; [discriminate | intros (H & _); lia]|].
  destruct (W256 <=? x * y * D) eqn:E1; [cbn; split; [discriminate | intros (_ & H & _); lia]|].
  destruct (W256 <=? y * a * D) eqn:E2; [cbn; split; [discriminate | intros (_ & _ & H & _); lia]|].
  cbv zeta.
  destruct (ideal x y a <? gross x y a) eqn:E3; [cbn; split; [discriminate | intros (_ & _ & _ & H & _); lia]|].
  destruct (W128 <=? ideal x y a - gross x y a) eqn:E4; [cbn; split; [discriminate | intros (_ & _ & _ & _ & H); lia]|].
  cbn. split; [intros _|reflexivity]. repeat split; lia.
Qed.
