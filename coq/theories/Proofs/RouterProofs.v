From HT Require Import Base.Prelude Num.Arith Amm.Formulas Amm.Guards World.World.
(* Router theorems at world level: C11 (minimum_receive), C13 (accepted routes, hop structure),
   C12 (quotes: forward simulation agrees with the swap; router simulations compose). *)

(* intermediate hops: the router keeps the output (to = None) *)
Fixpoint hops_none (w : world) (ops : list (asset * asset)) : res world :=
  match ops with [] => Ok w | (o, a) :: rest => let* w1 := router_hop w o a None in hops_none w1 rest end.

(* ------------------------------------------------------------------------------------------ *)
(* helpers *)

Lemma asset_eqb_eq : forall a b, asset_eqb a b = true <-> a = b.
Proof.
  intros [d|t] [d'|t']; cbn; split; intros H; try discriminate.
  - apply N.eqb_eq in H; congruence.
  - inversion H; apply N.eqb_refl.
  - apply N.eqb_eq in H; congruence.
  - inversion H; apply N.eqb_refl.
Qed.

Lemma asset_eqb_refl : forall a, asset_eqb a a = true.
Proof. intros a; apply asset_eqb_eq; reflexivity. Qed.

Lemma checked_sub_add : forall r a, u128_checked_sub (r + a) a = Ok r.
Proof.
  intros r a; unfold u128_checked_sub.
  destruct (a <=? r + a) eqn:E.
  - f_equal. apply N.add_sub.
  - apply N.leb_gt in E. exfalso. clear -E. lia.
Qed.

Lemma with_token_frame : forall w ta f w1, with_token w ta f = Ok w1 ->
  w_pairs w1 = w_pairs w /\ w_rtr w1 = w_rtr w.
Proof.
  intros w ta f w1 H; unfold with_token in H.
  destruct (w_tokens w ta) as [t|]; [|discriminate].
  destruct (f t) as [t'|e]; cbn [bind] in H; [|discriminate].
  inversion H; subst; cbn; split; reflexivity.
Qed.

(* ------------------------------------------------------------------------------------------ *)
(* C11 *)

Theorem router_assert_min_spec : forall w target prev m rcv w', router_assert_min w target prev m rcv = Ok w' ->
  w' = w /\ exists now, asset_balance w target rcv = Ok now /\ prev <= now /\ m <= now - prev.
Proof.
  intros w target prev m rcv w' H; unfold router_assert_min in H.
  destruct (asset_balance w target rcv) as [now|e] eqn:Eb; cbn [bind] in H; [|discriminate].
  unfold u128_checked_sub in H.
  destruct (prev <=? now) eqn:El; cbn [bind] in H; [|discriminate].
  destruct (now - prev <? m) eqn:Em; [discriminate|].
  inversion H; subst. split; [reflexivity|].
  exists now. split; [reflexivity|].
  apply N.leb_le in El. apply N.ltb_ge in Em. split; assumption.
Qed.

Theorem router_min_receive : forall w sender ops m to w',
  router_exec_ops w sender ops (Some m) to = Ok w' ->
  let rcv := match to with Some t => t | None => sender end in
  let target := last_ask ops in
  exists prev now, asset_balance w target rcv = Ok prev /\ asset_balance w' target rcv = Ok now /\ prev + m <= now.
Proof.
  intros w sender ops m to w' H rcv target.
  unfold router_exec_ops in H.
  destruct ops as [|op0 ops0]; [discriminate|].
  destruct (router_assert_operations (op0 :: ops0)) as [u|e]; cbn [bind] in H; [|discriminate].
  fold rcv in H. fold target in H.
  destruct (asset_balance w target rcv) as [prev|e] eqn:Ep; cbn [bind] in H; [|discriminate].
  destruct (router_hops w (op0 :: ops0) rcv) as [w1|e] eqn:Eh; cbn [bind] in H; [|discriminate].
  apply router_assert_min_spec in H. destruct H as (-> & now & Hn & Hle & Hm).
  exists prev, now. split; [reflexivity|]. split; [assumption|].
  clear -Hle Hm. lia.
Qed.

Theorem exec_router_ops_min : forall w c funds ops m to w', exec w (ORouterOps c funds ops (Some m) to) = Ok w' ->
  exists w1, move_funds w c (w_rtr w) funds = Ok w1 /\ router_exec_ops w1 c ops (Some m) to = Ok w'.
Proof.
  intros w c funds ops m to w' H. cbn [exec] in H.
  apply bind_ok in H. exact H.
Qed.

Theorem cw20_send_router_decompose : forall w ta sender n ops m to w',
  w_pairs w (w_rtr w) = None ->
  cw20_send w ta sender (w_rtr w) n (HRouterOps ops m to) = Ok w' ->
  exists w1, with_token w ta (fun t => tok_transfer t sender (w_rtr w) n) = Ok w1 /\ router_exec_ops w1 sender ops m to = Ok w'.
Proof.
  intros w ta sender n ops m to w' Hp H. unfold cw20_send in H.
  destruct (with_token w ta (fun t => tok_transfer t sender (w_rtr w) n)) as [w1|e] eqn:Ew; cbn [bind] in H; [|discriminate].
  destruct (with_token_frame _ _ _ _ Ew) as [Hpairs Hrtr].
  rewrite Hpairs, Hp, Hrtr, N.eqb_refl in H.
  exists w1. split; [reflexivity|exact H].
Qed.

(* ------------------------------------------------------------------------------------------ *)
(* C13 *)

Theorem router_rejects_empty : forall w s m to, exists e, router_exec_ops w s [] m to = Err e.
Proof. intros; exists EStd; reflexivity. Qed.

Theorem router_accepts_only_single_output : forall w s ops m to w', router_exec_ops w s ops m to = Ok w' ->
  ops <> [] /\ router_assert_operations ops = Ok tt /\
  length (ask_map (map (fun o => (to_guard_asset (fst o), to_guard_asset (snd o))) ops)) = 1%nat.
Proof.
  intros w s ops m to w' H. unfold router_exec_ops in H.
  destruct ops as [|op0 ops0]; [discriminate|].
  split; [discriminate|].
  destruct (router_assert_operations (op0 :: ops0)) as [u|e] eqn:Ea; cbn [bind] in H; [|discriminate].
  destruct u. split; [reflexivity|].
  unfold router_assert_operations, assert_operations in Ea.
  destruct (N.of_nat (length (ask_map (map (fun o => (to_guard_asset (fst o), to_guard_asset (snd o))) (op0 :: ops0)))) =? 1) eqn:El;
    [|discriminate].
  apply N.eqb_eq in El. clear -El. lia.
Qed.

(* only the last hop pays the recipient; every earlier hop pays the router *)
Theorem router_hops_last : forall ops w o a to,
  router_hops w (ops ++ [(o, a)]) to = (let* w1 := hops_none w ops in router_hop w1 o a (Some to)).
Proof.
  induction ops as [|[o0 a0] ops IH]; intros w o a to.
  - reflexivity.
  - cbn [hops_none].
    assert (Hstep : router_hops w (((o0, a0) :: ops) ++ [(o, a)]) to =
                    (let* w1 := router_hop w o0 a0 None in router_hops w1 (ops ++ [(o, a)]) to)).
    { destruct ops as [|x ops']; reflexivity. }
    rewrite Hstep.
    destruct (router_hop w o0 a0 None) as [w1|e]; cbn [bind]; [|reflexivity].
    apply IH.
Qed.

(* each hop swaps the router's WHOLE balance of the offer asset through the pair the factory resolves *)
Theorem router_hop_structure : forall w offer ask to w', router_hop w offer ask to = Ok w' ->
  exists r ps amount, reg_find (w_reg w) offer ask = Some r /\ w_pairs w (f_pair r) = Some ps /\
    asset_balance w offer (w_rtr w) = Ok amount /\
    match offer with
    | ANative d => exists w1 out, move_funds w (w_rtr w) (f_pair r) [(d, amount)] = Ok w1 /\
                     pair_swap w1 (f_pair r) ps [(d, amount)] (w_rtr w) offer amount None None to = Ok (w', out)
    | AToken ta => exists w1, with_token w ta (fun t => tok_transfer t (w_rtr w) (f_pair r) amount) = Ok w1 /\
                     pair_receive w1 (f_pair r) ps ta [] (w_rtr w) amount (HSwap offer amount None None to) = Ok w'
    end.
Proof.
  intros w offer ask to w' H. unfold router_hop in H.
  destruct (reg_find (w_reg w) offer ask) as [r|] eqn:Er; [|discriminate].
  destruct (w_pairs w (f_pair r)) as [ps|] eqn:Ep; [|discriminate].
  destruct (asset_balance w offer (w_rtr w)) as [amount|e] eqn:Eb; cbn [bind] in H; [|discriminate].
  exists r, ps, amount. split; [reflexivity|]. split; [exact Ep|]. split; [first [exact Eb|reflexivity]|].
  destruct offer as [d|ta].
  - destruct (move_funds w (w_rtr w) (f_pair r) [(d, amount)]) as [w1|e] eqn:Em; cbn [bind] in H; [|discriminate].
    destruct (pair_swap w1 (f_pair r) ps [(d, amount)] (w_rtr w) (ANative d) amount None None to) as [[w2 out]|e] eqn:Es;
      cbn [bind fst] in H; [|discriminate].
    inversion H; subst. exists w1, out. split; [reflexivity|assumption].
  - destruct (with_token w ta (fun t => tok_transfer t (w_rtr w) (f_pair r) amount)) as [w1|e] eqn:Em; cbn [bind] in H; [|discriminate].
    exists w1. split; [reflexivity|assumption].
Qed.

(* ------------------------------------------------------------------------------------------ *)
(* C12 *)

Theorem swap_matches_simulation : forall w w1 p ps funds sender offer amount bp ms to w' out r0 r1,
  w_pairs w p = Some ps -> asset_eqb (p_a0 ps) (p_a1 ps) = false ->
  asset_balance w (p_a0 ps) p = Ok r0 -> asset_balance w (p_a1 ps) p = Ok r1 ->
  asset_balance w1 (p_a0 ps) p = Ok (r0 + (if asset_eqb offer (p_a0 ps) then amount else 0)) ->
  asset_balance w1 (p_a1 ps) p = Ok (r1 + (if asset_eqb offer (p_a1 ps) then amount else 0)) ->
  pair_swap w1 p ps funds sender offer amount bp ms to = Ok (w', out) ->
  q_simulation w p offer amount = Ok out.
Proof.
  intros w w1 p ps funds sender offer amount bp ms to w' out r0 r1 Hp Hne Hb0 Hb1 Hc0 Hc1 H.
  unfold q_simulation. rewrite Hp, Hb0, Hb1. cbn [bind].
  unfold pair_swap in H.
  destruct (funds_of offer funds amount) as [u|e]; cbn [bind] in H; [|discriminate].
  rewrite Hc0, Hc1 in H. cbn [bind] in H.
  destruct (asset_eqb offer (p_a0 ps)) eqn:E0.
  - assert (E1 : asset_eqb offer (p_a1 ps) = false).
    { apply asset_eqb_eq in E0. subst offer. exact Hne. }
    rewrite E1 in H. rewrite checked_sub_add in H. cbn [bind] in H.
    rewrite N.add_0_r in H.
    destruct (compute_swap r0 r1 amount (p_comm ps)) as [[[ret spread] comm]|e]; cbn [bind] in H; [|discriminate].
    destruct (assert_max_spread bp ms amount ret spread (p_d0 ps) (p_d1 ps)) as [u'|e]; cbn [bind] in H; [|discriminate].
    destruct (if ret =? 0 then Ok w1 else pay_asset w1 p (p_a1 ps) ret (match to with Some t => t | None => sender end)) as [w2|e];
      cbn [bind] in H; [|discriminate].
    inversion H; subst; reflexivity.
  - destruct (asset_eqb offer (p_a1 ps)) eqn:E1; cbn [bind] in H; [|discriminate].
    rewrite checked_sub_add in H. cbn [bind] in H.
    rewrite N.add_0_r in H.
    destruct (compute_swap r1 r0 amount (p_comm ps)) as [[[ret spread] comm]|e]; cbn [bind] in H; [|discriminate].
    destruct (assert_max_spread bp ms amount ret spread (p_d1 ps) (p_d0 ps)) as [u'|e]; cbn [bind] in H; [|discriminate].
    destruct (if ret =? 0 then Ok w1 else pay_asset w1 p (p_a0 ps) ret (match to with Some t => t | None => sender end)) as [w2|e];
      cbn [bind] in H; [|discriminate].
    inversion H; subst; reflexivity.
Qed.

(* the router's simulations are the hop-by-hop composition of the pair queries *)
Theorem q_router_simulate_app : forall w ops1 ops2 amount,
  q_router_simulate w amount (ops1 ++ ops2) = (let* x := q_router_simulate w amount ops1 in q_router_simulate w x ops2).
Proof.
  intros w ops1 ops2. induction ops1 as [|[o a] ops1 IH]; intros amount.
  - reflexivity.
  - cbn [app q_router_simulate].
    destruct (reg_find (w_reg w) o a) as [r|]; [|reflexivity].
    destruct (q_simulation w (f_pair r) o amount) as [[[ret s] c]|e]; cbn [bind]; [|reflexivity].
    apply IH.
Qed.

Theorem q_router_simulate_step : forall w o a amount,
  q_router_simulate w amount [(o, a)] =
  match reg_find (w_reg w) o a with
  | None => Err EStd
  | Some r => let* out := q_simulation w (f_pair r) o amount in let '(ret, _, _) := out in Ok ret
  end.
Proof. intros; reflexivity. Qed.

Theorem q_router_reverse_app : forall w l1 l2 amount,
  is_ok (q_router_reverse w amount (l1 ++ l2)) =
  is_ok (let* x := q_router_reverse w amount l1 in q_router_reverse w x l2) /\
  (forall v, q_router_reverse w amount (l1 ++ l2) = Ok v <->
             (let* x := q_router_reverse w amount l1 in q_router_reverse w x l2) = Ok v).
Proof.
  intros w l1 l2. induction l1 as [|[o a] l1 IH]; intros amount.
  - cbn [app q_router_reverse bind]. split; [reflexivity|]. intros v; split; auto.
  - cbn [app q_router_reverse].
    destruct (reg_find (w_reg w) o a) as [r|].
    2:{ cbn [bind is_ok]. split; [reflexivity|]. intros v; split; intros H; exact H. }
    destruct (q_reverse_simulation w (f_pair r) a amount) as [[[offer s] c]|e].
    + apply IH.
    + cbn [bind is_ok]. split; [reflexivity|]. intros v; split; intros H; exact H.
Qed.

Print Assumptions router_assert_min_spec.
Print Assumptions router_min_receive.
Print Assumptions exec_router_ops_min.
Print Assumptions cw20_send_router_decompose.
Print Assumptions router_rejects_empty.
Print Assumptions router_accepts_only_single_output.
Print Assumptions router_hops_last.
Print Assumptions router_hop_structure.
Print Assumptions swap_matches_simulation.
Print Assumptions q_router_simulate_app.
Print Assumptions q_router_simulate_step.
Print Assumptions q_router_reverse_app.
