(* Ledger effects of the world-level handlers: who pays whom, how much, and that nothing else
   moves.  Everything is stated pointwise through the total balance function [bal]. *)
From HT Require Import Base.Prelude Num.Arith Amm.Formulas Amm.Guards World.World.

Definition bal (w : world) (x : asset) (a : addr) : N :=
  match x with
  | ANative d => w_bank w a d
  | AToken t => match w_tokens w t with Some tk => t_bal tk a | None => 0 end
  end.
Definition supply (w : world) (t : addr) : N := match w_tokens w t with Some tk => t_supply tk | None => 0 end.
(* everything that is not a balance *)
Definition same_config (w w' : world) : Prop :=
  w_pairs w' = w_pairs w /\ w_fac w' = w_fac w /\ w_rtr w' = w_rtr w /\ w_owner w' = w_owner w /\
  w_natives w' = w_natives w /\ w_reg w' = w_reg w /\ w_next w' = w_next w /\
  (forall t, supply w' t = supply w t) /\
  (forall t, match w_tokens w t, w_tokens w' t with
             | Some a, Some b => t_allow b = t_allow a /\ t_minter b = t_minter a /\ t_decimals b = t_decimals a
             | None, None => True | _, _ => False end).

(* ---------- function updates ---------- *)
Lemma upd_same {V} (f : N -> V) k v : upd f k v k = v.
Proof. unfold upd. rewrite N.eqb_refl. reflexivity. Qed.
Lemma upd_other {V} (f : N -> V) k v x : x <> k -> upd f k v x = f x.
Proof. intros H. unfold upd. apply N.eqb_neq in H. rewrite H. reflexivity. Qed.
Lemma upd2_same {V} (f : N -> N -> V) k1 k2 v : upd2 f k1 k2 v k1 k2 = v.
Proof. unfold upd2. rewrite !N.eqb_refl. reflexivity. Qed.
Lemma upd2_other {V} (f : N -> N -> V) k1 k2 v x y : x <> k1 \/ y <> k2 -> upd2 f k1 k2 v x y = f x y.
Proof.
  intros H. unfold upd2.
  destruct (x =? k1) eqn:E1; [apply N.eqb_eq in E1 | reflexivity].
  destruct (y =? k2) eqn:E2; [apply N.eqb_eq in E2 | reflexivity].
  exfalso. destruct H as [H|H]; apply H; assumption.
Qed.

(* ---------- assets ---------- *)
Lemma asset_eqb_eq x y : asset_eqb x y = true <-> x = y.
Proof.
  destruct x as [d|t], y as [d'|t']; cbn [asset_eqb]; split; intros H;
    try discriminate; try (apply N.eqb_eq in H; subst; reflexivity);
    inversion H; subst; apply N.eqb_refl.
Qed.
Lemma asset_eqb_refl x : asset_eqb x x = true.
Proof. apply asset_eqb_eq. reflexivity. Qed.
Lemma asset_eqb_neq x y : asset_eqb x y = false <-> x <> y.
Proof.
  split.
  - intros H E. subst. rewrite asset_eqb_refl in H. discriminate.
  - intros H. destruct (asset_eqb x y) eqn:E; [|reflexivity]. apply asset_eqb_eq in E. contradiction.
Qed.
Lemma asset_eqb_sym x y : asset_eqb x y = asset_eqb y x.
Proof. destruct x, y; cbn [asset_eqb]; try reflexivity; apply N.eqb_sym. Qed.

(* ---------- same_config is a preorder ---------- *)
Lemma same_config_refl w : same_config w w.
Proof.
  unfold same_config. repeat split; try reflexivity.
  intros t. destruct (w_tokens w t); [repeat split | exact I].
Qed.
Lemma same_config_trans w1 w2 w3 : same_config w1 w2 -> same_config w2 w3 -> same_config w1 w3.
Proof.
  unfold same_config.
  intros (A1 & A2 & A3 & A4 & A5 & A6 & A7 & A8 & A9) (B1 & B2 & B3 & B4 & B5 & B6 & B7 & B8 & B9).
  split; [congruence|]. split; [congruence|]. split; [congruence|]. split; [congruence|].
  split; [congruence|]. split; [congruence|]. split; [congruence|]. split.
  - intros t. rewrite B8. apply A8.
  - intros t. specialize (A9 t). specialize (B9 t).
    destruct (w_tokens w1 t), (w_tokens w2 t), (w_tokens w3 t); try contradiction; try exact I.
    destruct A9 as (? & ? & ?), B9 as (? & ? & ?). repeat split; congruence.
Qed.

Lemma asset_balance_bal w x a r : asset_balance w x a = Ok r -> r = bal w x a.
Proof.
  destruct x as [d|t]; cbn [asset_balance bal]; intros H.
  - inversion H. reflexivity.
  - destruct (w_tokens w t); [inversion H; reflexivity | discriminate].
Qed.

(* ---------- cw20 ---------- *)
Lemma with_token_inv w ta f w' : with_token w ta f = Ok w' ->
  exists t t', w_tokens w ta = Some t /\ f t = Ok t' /\ w' = set_token w ta t'.
Proof.
  unfold with_token. destruct (w_tokens w ta) as [t|]; [|discriminate].
  intros H. apply bind_ok in H. destruct H as (t' & E & H). inversion H. eauto.
Qed.

Lemma with_token_pairs w ta f w' : with_token w ta f = Ok w' -> w_pairs w' = w_pairs w.
Proof. intros H. apply with_token_inv in H. destruct H as (t & t' & _ & _ & ->). reflexivity. Qed.

Lemma set_token_bal w ta t' y a :
  bal (set_token w ta t') y a = if asset_eqb y (AToken ta) then t_bal t' a else bal w y a.
Proof.
  destruct y as [d|t]; cbn [asset_eqb bal set_token w_bank w_tokens]; [reflexivity|].
  destruct (t =? ta) eqn:E.
  - apply N.eqb_eq in E. subst. rewrite upd_same. reflexivity.
  - apply N.eqb_neq in E. rewrite upd_other by assumption. reflexivity.
Qed.

Lemma set_token_supply w ta t' t :
  supply (set_token w ta t') t = if t =? ta then t_supply t' else supply w t.
Proof.
  unfold supply. cbn [set_token w_tokens].
  destruct (t =? ta) eqn:E.
  - apply N.eqb_eq in E. subst. rewrite upd_same. reflexivity.
  - apply N.eqb_neq in E. rewrite upd_other by assumption. reflexivity.
Qed.

(* replacing a token by one with the same non-balance fields keeps the configuration *)
Lemma set_token_same_config w ta t t' : w_tokens w ta = Some t ->
  t_allow t' = t_allow t -> t_supply t' = t_supply t -> t_minter t' = t_minter t -> t_decimals t' = t_decimals t ->
  same_config w (set_token w ta t').
Proof.
  intros Ht Ha Hs Hm Hd. unfold same_config. repeat split; try reflexivity.
  - intros u. rewrite set_token_supply. destruct (u =? ta) eqn:E; [|reflexivity].
    apply N.eqb_eq in E. subst. unfold supply. rewrite Ht. assumption.
  - intros u. cbn [set_token w_tokens]. destruct (N.eq_dec u ta) as [->|E].
    + rewrite upd_same, Ht. repeat split; assumption.
    + rewrite upd_other by assumption. destruct (w_tokens w u); [repeat split | exact I].
Qed.

Lemma tok_transfer_effect t from to n t' : tok_transfer t from to n = Ok t' ->
  n <> 0 /\ n <= t_bal t from /\ t_allow t' = t_allow t /\ t_supply t' = t_supply t /\
  t_minter t' = t_minter t /\ t_decimals t' = t_decimals t /\
  forall a, t_bal t' a =
    if from =? to then t_bal t a
    else if a =? from then t_bal t a - n else if a =? to then t_bal t a + n else t_bal t a.
Proof.
  unfold tok_transfer. destruct (n =? 0) eqn:E0; [discriminate|]. apply N.eqb_neq in E0.
  unfold tok_debit. destruct (n <=? t_bal t from) eqn:E1; [|discriminate]. apply N.leb_le in E1.
  cbn [bind]. unfold tok_credit. cbn [t_bal t_allow t_supply t_minter t_decimals].
  destruct (_ <? W128); [|discriminate].
  intros H. inversion H. subst t'. clear H. cbn [t_bal t_allow t_supply t_minter t_decimals].
  repeat split; try assumption.
  intros a. unfold upd.
  destruct (from =? to) eqn:Eft; [apply N.eqb_eq in Eft | apply N.eqb_neq in Eft].
  - subst to. rewrite N.eqb_refl. destruct (a =? from) eqn:Ea; [apply N.eqb_eq in Ea; subst a; lia | reflexivity].
  - destruct (to =? from) eqn:Etf; [apply N.eqb_eq in Etf; congruence|].
    destruct (a =? to) eqn:Eat; [apply N.eqb_eq in Eat | apply N.eqb_neq in Eat].
    + subst a. rewrite Etf. reflexivity.
    + destruct (a =? from) eqn:Eaf; [apply N.eqb_eq in Eaf; subst a|]; reflexivity.
Qed.

(* ---------- bank: a single coin ---------- *)
Lemma bank_send_one_effect w from to d n w' : bank_send w from to [(d, n)] = Ok w' ->
  n <> 0 /\ n <= w_bank w from d /\ exists b, w' = set_bank w b /\
  forall a e, b a e =
    if e =? d then
      (if from =? to then w_bank w a d
       else if a =? from then w_bank w a d - n else if a =? to then w_bank w a d + n else w_bank w a d)
    else w_bank w a e.
Proof.
  unfold bank_send, nonzero_coins. cbn [filter snd].
  destruct (n =? 0) eqn:E0; cbn [negb]; [discriminate|]. apply N.eqb_neq in E0.
  cbn [bank_sub_all]. destruct (n <=? w_bank w from d) eqn:E1; [|discriminate]. apply N.leb_le in E1.
  cbn [bind bank_add_all]. destruct (_ <? W128); [|discriminate]. cbn [bind].
  intros H. inversion H. clear H.
  split; [assumption|]. split; [assumption|]. eexists. split; [reflexivity|].
  intros a e. unfold upd2.
  destruct (e =? d) eqn:Ed; [apply N.eqb_eq in Ed; subst e | rewrite !andb_false_r; reflexivity].
  rewrite !andb_true_r, !N.eqb_refl. cbn [andb].
  destruct (from =? to) eqn:Eft; [apply N.eqb_eq in Eft | apply N.eqb_neq in Eft].
  - subst to. rewrite N.eqb_refl. destruct (a =? from) eqn:Ea; [apply N.eqb_eq in Ea; subst a; cbn [andb]; lia | reflexivity].
  - destruct (to =? from) eqn:Etf; [apply N.eqb_eq in Etf; congruence|].
    destruct (a =? to) eqn:Eat; [apply N.eqb_eq in Eat | apply N.eqb_neq in Eat].
    + subst a. rewrite Etf. reflexivity.
    + destruct (a =? from) eqn:Eaf; [apply N.eqb_eq in Eaf; subst a|]; reflexivity.
Qed.

Lemma set_bank_same_config w b : same_config w (set_bank w b).
Proof.
  unfold same_config. repeat split.
  intros t. cbn [set_bank w_tokens]. destruct (w_tokens w t); [repeat split | exact I].
Qed.

(* 1. one payment: exactly n of asset x moves from -> to, nothing else changes *)
Theorem pay_asset_effect : forall w from x n to w', pay_asset w from x n to = Ok w' ->
  n <> 0 /\ n <= bal w x from /\ same_config w w' /\
  (forall y a, bal w' y a =
     if asset_eqb y x then
       (if from =? to then bal w x a
        else if a =? from then bal w x a - n else if a =? to then bal w x a + n else bal w x a)
     else bal w y a).
Proof.
  intros w from x n to w' H. destruct x as [d|ta]; cbn [pay_asset] in H.
  - apply bank_send_one_effect in H. destruct H as (H0 & H1 & b & -> & Hb).
    split; [assumption|]. split; [exact H1|]. split; [apply set_bank_same_config|].
    intros y a. destruct y as [e|t]; cbn [asset_eqb bal set_bank w_bank w_tokens]; [|reflexivity].
    apply Hb.
  - apply with_token_inv in H. destruct H as (t & t' & Ht & Hf & ->).
    apply tok_transfer_effect in Hf. destruct Hf as (H0 & H1 & Ha & Hs & Hm & Hd & Hb).
    split; [assumption|]. split; [cbn [bal]; rewrite Ht; exact H1|].
    split; [eapply set_token_same_config; eassumption|].
    intros y a. rewrite set_token_bal. destruct (asset_eqb y (AToken ta)); [|reflexivity].
    cbn [bal]. rewrite Ht. apply Hb.
Qed.

(* ---------- 2. swap settlement ---------- *)
Lemma settle_effect w p ask ret rcv w' :
  (if ret =? 0 then Ok w else pay_asset w p ask ret rcv) = Ok w' ->
  same_config w w' /\
  (forall z a, bal w' z a =
     if asset_eqb z ask && negb (ret =? 0) && negb (p =? rcv) then
       (if a =? p then bal w ask a - ret else if a =? rcv then bal w ask a + ret else bal w ask a)
     else bal w z a).
Proof.
  destruct (ret =? 0) eqn:E0; intros H.
  - inversion H. subst w'. split; [apply same_config_refl|].
    intros z a. cbn [negb]. rewrite andb_false_r. reflexivity.
  - apply pay_asset_effect in H. destruct H as (_ & _ & Hc & Hb).
    split; [assumption|]. intros z a. rewrite Hb. cbn [negb]. rewrite andb_true_r.
    destruct (asset_eqb z ask) eqn:Ez; cbn [andb]; [|reflexivity].
    apply asset_eqb_eq in Ez. subst z.
    destruct (p =? rcv); cbn [negb]; reflexivity.
Qed.

Theorem pair_swap_settlement : forall w p ps funds sender offer amount bp ms to w' ret spread comm,
  pair_swap w p ps funds sender offer amount bp ms to = Ok (w', (ret, spread, comm)) ->
  let ask := if asset_eqb offer (p_a0 ps) then p_a1 ps else p_a0 ps in
  let rcv := match to with Some t => t | None => sender end in
  (asset_eqb offer (p_a0 ps) = true \/ asset_eqb offer (p_a1 ps) = true) /\
  (exists x y, compute_swap x y amount (p_comm ps) = Ok (ret, spread, comm) /\
               x + amount = bal w offer p /\ y = bal w ask p) /\
  same_config w w' /\
  (forall z a, bal w' z a =
     if asset_eqb z ask && negb (ret =? 0) && negb (p =? rcv) then
       (if a =? p then bal w ask a - ret else if a =? rcv then bal w ask a + ret else bal w ask a)
     else bal w z a).
Proof.
  intros w p ps funds sender offer amount bp ms to w' ret spread comm H ask rcv.
  unfold pair_swap in H.
  apply bind_ok in H. destruct H as (u & Hf & H).
  apply bind_ok in H. destruct H as (r0 & Hr0 & H).
  apply bind_ok in H. destruct H as (r1 & Hr1 & H).
  apply bind_ok in H. destruct H as (sel & Hsel & H).
  destruct sel as [[[[opool apool] ask'] od] ad].
  apply bind_ok in H. destruct H as (out & Hcs & H).
  destruct out as [[ret' spread'] comm'].
  apply bind_ok in H. destruct H as (u2 & Hms & H).
  apply bind_ok in H. destruct H as (w'' & Hpay & H).
  inversion H. subst w'' ret' spread' comm'. clear H.
  apply asset_balance_bal in Hr0. apply asset_balance_bal in Hr1.
  assert (Hsel' : ask' = ask /\ (asset_eqb offer (p_a0 ps) = true \/ asset_eqb offer (p_a1 ps) = true) /\
                  opool + amount = bal w offer p /\ apool = bal w ask p).
  { subst ask. destruct (asset_eqb offer (p_a0 ps)) eqn:E0.
    - apply bind_ok in Hsel. destruct Hsel as (o & Ho & Hsel). inversion Hsel. subst.
      unfold u128_checked_sub in Ho. destruct (amount <=? bal w (p_a0 ps) p) eqn:El; [|discriminate].
      apply N.leb_le in El. inversion Ho. apply asset_eqb_eq in E0. subst offer.
      split; [reflexivity|]. split; [left; reflexivity|]. split; [lia | reflexivity].
    - destruct (asset_eqb offer (p_a1 ps)) eqn:E1; [|discriminate].
      apply bind_ok in Hsel. destruct Hsel as (o & Ho & Hsel). inversion Hsel. subst.
      unfold u128_checked_sub in Ho. destruct (amount <=? bal w (p_a1 ps) p) eqn:El; [|discriminate].
      apply N.leb_le in El. inversion Ho. apply asset_eqb_eq in E1. subst offer.
      split; [reflexivity|]. split; [right; reflexivity|]. split; [lia | reflexivity]. }
  destruct Hsel' as (-> & Hor & Hx & Hy).
  split; [exact Hor|]. split; [exists opool, apool; repeat split; assumption|].
  apply settle_effect in Hpay. exact Hpay.
Qed.

(* ---------- 3. entry paths ---------- *)
Lemma pair_swap_funds w p ps funds sender offer amount bp ms to r :
  pair_swap w p ps funds sender offer amount bp ms to = Ok r -> funds_of offer funds amount = Ok tt.
Proof.
  unfold pair_swap. intros H. apply bind_ok in H. destruct H as (u & Hf & _). destruct u. exact Hf.
Qed.

Theorem exec_swap_decompose : forall w p c funds offer amount bp ms to w',
  exec w (OSwap p c funds offer amount bp ms to) = Ok w' ->
  exists ps w1 out, w_pairs w p = Some ps /\ move_funds w c p funds = Ok w1 /\ asset_is_native offer = true /\
    funds_of offer funds amount = Ok tt /\ pair_swap w1 p ps funds c offer amount bp ms to = Ok (w', out).
Proof.
  intros w p c funds offer amount bp ms to w' H. cbn [exec] in H.
  destruct (w_pairs w p) as [ps|] eqn:Ep; [|discriminate].
  apply bind_ok in H. destruct H as (w1 & Hm & H).
  destruct (asset_is_native offer) eqn:En; cbn [negb] in H; [|discriminate].
  apply bind_ok in H. destruct H as (r & Hs & H). destruct r as [w2 out]. cbn [fst] in H.
  inversion H. subst w2. clear H.
  exists ps, w1, out. repeat split; try assumption.
  eapply pair_swap_funds. exact Hs.
Qed.

Theorem cw20_send_swap_decompose : forall w ta sender p n offer amount bp ms to w' ps,
  w_pairs w p = Some ps ->
  cw20_send w ta sender p n (HSwap offer amount bp ms to) = Ok w' ->
  exists w1 out, with_token w ta (fun t => tok_transfer t sender p n) = Ok w1 /\
    offer = AToken ta /\ amount = n /\ (p_a0 ps = AToken ta \/ p_a1 ps = AToken ta) /\
    pair_swap w1 p ps [] sender offer amount bp ms to = Ok (w', out).
Proof.
  intros w ta sender p n offer amount bp ms to w' ps Hp H.
  unfold cw20_send in H. apply bind_ok in H. destruct H as (w1 & Ht & H).
  rewrite (with_token_pairs _ _ _ _ Ht), Hp in H.
  cbn [pair_receive] in H.
  destruct (amount =? n) eqn:En; cbn [negb] in H; [|discriminate]. apply N.eqb_eq in En.
  apply bind_ok in H. destruct H as (b0 & _ & H).
  apply bind_ok in H. destruct H as (b1 & _ & H).
  destruct (asset_eqb (p_a0 ps) (AToken ta) || asset_eqb (p_a1 ps) (AToken ta)) eqn:Ea;
    cbn [negb] in H; [|discriminate].
  destruct (asset_eqb offer (AToken ta)) eqn:Eo; cbn [negb] in H; [|discriminate].
  apply bind_ok in H. destruct H as (r & Hs & H). destruct r as [w2 out]. cbn [fst] in H.
  inversion H. subst w2. clear H.
  exists w1, out. split; [exact Ht|]. split; [apply asset_eqb_eq; exact Eo|]. split; [exact En|].
  split; [|exact Hs].
  apply orb_true_iff in Ea. destruct Ea as [Ea|Ea]; apply asset_eqb_eq in Ea; [left | right]; exact Ea.
Qed.

(* ---------- 4. withdrawal ---------- *)
Theorem pair_withdraw_structure : forall w p ps sender amount w', pair_withdraw w p ps sender amount = Ok w' ->
  exists total x0 x1 w1 w2,
    token_supply w (p_lp ps) = Ok total /\
    withdraw_amounts (bal w (p_a0 ps) p) (bal w (p_a1 ps) p) amount total = Ok (x0, x1) /\
    pay_asset w p (p_a0 ps) x0 sender = Ok w1 /\ pay_asset w1 p (p_a1 ps) x1 sender = Ok w2 /\
    with_token w2 (p_lp ps) (fun t => tok_burn t p amount) = Ok w'.
Proof.
  intros w p ps sender amount w' H. unfold pair_withdraw in H.
  apply bind_ok in H. destruct H as (r0 & Hr0 & H).
  apply bind_ok in H. destruct H as (r1 & Hr1 & H).
  apply bind_ok in H. destruct H as (total & Ht & H).
  apply bind_ok in H. destruct H as (xs & Hx & H). destruct xs as [x0 x1].
  apply bind_ok in H. destruct H as (w1 & H1 & H).
  apply bind_ok in H. destruct H as (w2 & H2 & H).
  apply asset_balance_bal in Hr0. apply asset_balance_bal in Hr1. subst r0 r1.
  exists total, x0, x1, w1, w2. repeat split; assumption.
Qed.

Lemma tok_burn_effect t p n t' : tok_burn t p n = Ok t' ->
  n <> 0 /\ n <= t_bal t p /\ n <= t_supply t /\ t_supply t' = t_supply t - n /\
  forall a, t_bal t' a = if a =? p then t_bal t a - n else t_bal t a.
Proof.
  unfold tok_burn. destruct (n =? 0) eqn:E0; [discriminate|]. apply N.eqb_neq in E0.
  unfold tok_debit. destruct (n <=? t_bal t p) eqn:E1; [|discriminate]. apply N.leb_le in E1.
  cbn [bind t_bal t_allow t_supply t_minter t_decimals].
  destruct (n <=? t_supply t) eqn:E2; [|discriminate]. apply N.leb_le in E2.
  intros H. inversion H. subst t'. clear H. cbn [t_bal t_supply].
  repeat split; try assumption.
  intros a. unfold upd. destruct (a =? p) eqn:Ea; [apply N.eqb_eq in Ea; subst a|]; reflexivity.
Qed.

Lemma burn_effect w ta p n w' : with_token w ta (fun t => tok_burn t p n) = Ok w' ->
  n <= bal w (AToken ta) p /\ supply w' ta + n = supply w ta /\
  (forall y a, bal w' y a = if asset_eqb y (AToken ta) && (a =? p) then bal w y a - n else bal w y a).
Proof.
  intros H. apply with_token_inv in H. destruct H as (t & t' & Ht & Hf & ->).
  apply tok_burn_effect in Hf. destruct Hf as (H0 & H1 & H2 & Hs & Hb).
  split; [cbn [bal]; rewrite Ht; exact H1|].
  split.
  - rewrite set_token_supply, N.eqb_refl. unfold supply. rewrite Ht. lia.
  - intros y a. rewrite set_token_bal. destruct (asset_eqb y (AToken ta)) eqn:Ey; cbn [andb]; [|reflexivity].
    apply asset_eqb_eq in Ey. subst y. cbn [bal]. rewrite Ht. apply Hb.
Qed.

Theorem pair_withdraw_effect : forall w p ps sender amount w', pair_withdraw w p ps sender amount = Ok w' ->
  asset_eqb (p_a0 ps) (p_a1 ps) = false -> asset_eqb (p_a0 ps) (AToken (p_lp ps)) = false ->
  asset_eqb (p_a1 ps) (AToken (p_lp ps)) = false -> sender <> p ->
  exists total x0 x1,
    token_supply w (p_lp ps) = Ok total /\
    withdraw_amounts (bal w (p_a0 ps) p) (bal w (p_a1 ps) p) amount total = Ok (x0, x1) /\
    supply w' (p_lp ps) + amount = total /\
    bal w' (AToken (p_lp ps)) p + amount = bal w (AToken (p_lp ps)) p /\
    bal w' (p_a0 ps) sender = bal w (p_a0 ps) sender + x0 /\ bal w' (p_a0 ps) p + x0 = bal w (p_a0 ps) p /\
    bal w' (p_a1 ps) sender = bal w (p_a1 ps) sender + x1 /\ bal w' (p_a1 ps) p + x1 = bal w (p_a1 ps) p /\
    (forall z a, a <> p -> a <> sender -> bal w' z a = bal w z a).
Proof.
  intros w p ps sender amount w' H H01 H0l H1l Hsp.
  apply pair_withdraw_structure in H. destruct H as (total & x0 & x1 & w1 & w2 & Ht & Hx & P1 & P2 & Pb).
  exists total, x0, x1. split; [exact Ht|]. split; [exact Hx|].
  apply pay_asset_effect in P1. destruct P1 as (_ & L1 & C1 & B1).
  apply pay_asset_effect in P2. destruct P2 as (_ & L2 & C2 & B2).
  apply burn_effect in Pb. destruct Pb as (L3 & S3 & B3).
  assert (H10 : asset_eqb (p_a1 ps) (p_a0 ps) = false) by (rewrite asset_eqb_sym; exact H01).
  assert (Hl0 : asset_eqb (AToken (p_lp ps)) (p_a0 ps) = false) by (rewrite asset_eqb_sym; exact H0l).
  assert (Hl1 : asset_eqb (AToken (p_lp ps)) (p_a1 ps) = false) by (rewrite asset_eqb_sym; exact H1l).
  assert (Eps : (p =? sender) = false) by (apply N.eqb_neq; congruence).
  assert (Esp : (sender =? p) = false) by (apply N.eqb_neq; congruence).
  assert (Etot : total = supply w (p_lp ps)).
  { unfold token_supply in Ht. unfold supply. destruct (w_tokens w (p_lp ps)); [inversion Ht; reflexivity | discriminate]. }
  assert (Sup : supply w2 (p_lp ps) = supply w (p_lp ps)).
  { destruct C1 as (_ & _ & _ & _ & _ & _ & _ & S1 & _). destruct C2 as (_ & _ & _ & _ & _ & _ & _ & S2 & _).
    rewrite S2. apply S1. }
  assert (Blp : forall a, bal w2 (AToken (p_lp ps)) a = bal w (AToken (p_lp ps)) a).
  { intros a. rewrite B2, Hl1, B1, Hl0. reflexivity. }
  rewrite Blp in L3.
  rewrite B1, H10 in L2.
  split; [rewrite Etot, <- Sup; exact S3|].
  split; [rewrite B3, asset_eqb_refl, N.eqb_refl; cbn [andb]; rewrite Blp; lia|].
  split; [rewrite B3, H0l; cbn [andb]; rewrite B2, H01, B1, asset_eqb_refl, Eps, Esp, N.eqb_refl; reflexivity|].
  split; [rewrite B3, H0l; cbn [andb]; rewrite B2, H01, B1, asset_eqb_refl, Eps, N.eqb_refl; lia|].
  split; [rewrite B3, H1l; cbn [andb]; rewrite B2, asset_eqb_refl, Eps, Esp, N.eqb_refl, B1, H10; reflexivity|].
  split; [rewrite B3, H1l; cbn [andb]; rewrite B2, asset_eqb_refl, Eps, N.eqb_refl, B1, H10; lia|].
  intros z a Hap Has.
  apply N.eqb_neq in Hap. apply N.eqb_neq in Has.
  rewrite B3, Hap, andb_false_r, B2, Eps, Hap, Has.
  assert (Z1 : bal w1 z a = bal w z a).
  { rewrite B1, Eps, Hap, Has. destruct (asset_eqb z (p_a0 ps)) eqn:Ez; [|reflexivity].
    apply asset_eqb_eq in Ez. subst z. reflexivity. }
  destruct (asset_eqb z (p_a1 ps)) eqn:Ez; [|exact Z1].
  apply asset_eqb_eq in Ez. subst z. exact Z1.
Qed.

(* ---------- 5. attached funds ---------- *)
Definition cval (cs : list coin) (d : denom) : N :=
  match find (fun c => fst c =? d) cs with Some c => snd c | None => 0 end.

Lemma cval_cons d0 n cs d : cval ((d0, n) :: cs) d = if d0 =? d then n else cval cs d.
Proof. unfold cval. cbn [find fst]. destruct (d0 =? d); reflexivity. Qed.

Lemma cval_notin cs d : ~ In d (map fst cs) -> cval cs d = 0.
Proof.
  induction cs as [|[d0 n] cs IH]; intros H; [reflexivity|].
  rewrite cval_cons. cbn [map fst In] in H.
  destruct (d0 =? d) eqn:E; [apply N.eqb_eq in E; exfalso; apply H; left; exact E|].
  apply IH. intros Hin. apply H. right. exact Hin.
Qed.

Lemma in_fst_filter (f : coin -> bool) cs d : In d (map fst (filter f cs)) -> In d (map fst cs).
Proof.
  induction cs as [|c cs IH]; cbn [filter map In]; [tauto|].
  destruct (f c); cbn [map In]; tauto.
Qed.

Lemma nodup_fst_filter (f : coin -> bool) cs : NoDup (map fst cs) -> NoDup (map fst (filter f cs)).
Proof.
  induction cs as [|c cs IH]; cbn [filter map]; intros H; [exact H|].
  apply NoDup_cons_iff in H. destruct H as (Hn & Hd).
  destruct (f c); cbn [map]; [|apply IH; exact Hd].
  apply NoDup_cons; [|apply IH; exact Hd].
  intros Hin. apply Hn. eapply in_fst_filter. exact Hin.
Qed.

Lemma cval_nonzero cs d : NoDup (map fst cs) -> cval (nonzero_coins cs) d = cval cs d.
Proof.
  unfold nonzero_coins.
  induction cs as [|[d0 n] cs IH]; intros H; [reflexivity|].
  cbn [map fst] in H. apply NoDup_cons_iff in H. destruct H as (Hn & Hd).
  cbn [filter snd]. rewrite cval_cons.
  destruct (n =? 0) eqn:E0; cbn [negb].
  - apply N.eqb_eq in E0. subst n. rewrite IH by exact Hd.
    destruct (d0 =? d) eqn:E; [|reflexivity]. apply N.eqb_eq in E. subst d0.
    apply cval_notin. exact Hn.
  - rewrite cval_cons, IH by exact Hd. reflexivity.
Qed.

Lemma bank_sub_all_effect cs : forall b a b', NoDup (map fst cs) -> bank_sub_all b a cs = Ok b' ->
  forall x d, b' x d = if x =? a then b x d - cval cs d else b x d.
Proof.
  induction cs as [|[d0 n] cs IH]; intros b a b' Hnd H x d.
  - cbn [bank_sub_all] in H. inversion H. subst b'. unfold cval. cbn [find].
    destruct (x =? a); [lia | reflexivity].
  - cbn [map fst] in Hnd. apply NoDup_cons_iff in Hnd. destruct Hnd as (Hn & Hd).
    cbn [bank_sub_all] in H. destruct (n <=? b a d0) eqn:El; [|discriminate].
    rewrite (IH _ _ _ Hd H x d). rewrite cval_cons.
    destruct (x =? a) eqn:Ex; [apply N.eqb_eq in Ex; subst x | apply N.eqb_neq in Ex].
    + destruct (d0 =? d) eqn:E; [apply N.eqb_eq in E; subst d0 | apply N.eqb_neq in E].
      * rewrite upd2_same, (cval_notin _ _ Hn). lia.
      * rewrite upd2_other by (right; congruence). reflexivity.
    + rewrite upd2_other by (left; exact Ex). reflexivity.
Qed.

Lemma bank_add_all_effect cs : forall b a b', NoDup (map fst cs) -> bank_add_all b a cs = Ok b' ->
  forall x d, b' x d = if x =? a then b x d + cval cs d else b x d.
Proof.
  induction cs as [|[d0 n] cs IH]; intros b a b' Hnd H x d.
  - cbn [bank_add_all] in H. inversion H. subst b'. unfold cval. cbn [find].
    destruct (x =? a); [lia | reflexivity].
  - cbn [map fst] in Hnd. apply NoDup_cons_iff in Hnd. destruct Hnd as (Hn & Hd).
    cbn [bank_add_all] in H. destruct (b a d0 + n <? W128) eqn:El; [|discriminate].
    rewrite (IH _ _ _ Hd H x d). rewrite cval_cons.
    destruct (x =? a) eqn:Ex; [apply N.eqb_eq in Ex; subst x | apply N.eqb_neq in Ex].
    + destruct (d0 =? d) eqn:E; [apply N.eqb_eq in E; subst d0 | apply N.eqb_neq in E].
      * rewrite upd2_same, (cval_notin _ _ Hn). lia.
      * rewrite upd2_other by (right; congruence). reflexivity.
    + rewrite upd2_other by (left; exact Ex). reflexivity.
Qed.

Lemma bank_send_effect w from to cs w' : bank_send w from to cs = Ok w' ->
  NoDup (map fst cs) -> from <> to ->
  exists b, w' = set_bank w b /\
    forall a d, b a d = if a =? from then w_bank w a d - cval cs d
                        else if a =? to then w_bank w a d + cval cs d else w_bank w a d.
Proof.
  intros H Hnd Hft. unfold bank_send in H.
  assert (Hnz : NoDup (map fst (nonzero_coins cs))) by (apply nodup_fst_filter; exact Hnd).
  pose proof (fun d => cval_nonzero cs d Hnd) as Hv.
  remember (nonzero_coins cs) as nz eqn:Enz. clear Enz.
  destruct nz as [|c nz]; [discriminate|].
  apply bind_ok in H. destruct H as (b1 & H1 & H).
  apply bind_ok in H. destruct H as (b2 & H2 & H). inversion H. clear H.
  exists b2. split; [reflexivity|]. intros a d.
  rewrite (bank_add_all_effect _ _ _ _ Hnz H2 a d), (bank_sub_all_effect _ _ _ _ Hnz H1 a d), Hv.
  destruct (a =? from) eqn:Ea; [apply N.eqb_eq in Ea; subst a|].
  - destruct (from =? to) eqn:E; [apply N.eqb_eq in E; contradiction | reflexivity].
  - reflexivity.
Qed.

Theorem move_funds_effect : forall w from to funds w', move_funds w from to funds = Ok w' ->
  NoDup (map fst funds) -> from <> to -> same_config w w' /\
  (forall t a, bal w' (AToken t) a = bal w (AToken t) a) /\
  (forall d a, let v := match find (fun c => fst c =? d) funds with Some c => snd c | None => 0 end in
     w_bank w' a d = if a =? from then w_bank w a d - v else if a =? to then w_bank w a d + v else w_bank w a d).
Proof.
  intros w from to funds w' H Hnd Hft. unfold move_funds in H.
  destruct funds as [|c funds].
  - inversion H. subst w'. split; [apply same_config_refl|]. split; [reflexivity|].
    intros d a. cbn [find]. cbv zeta.
    destruct (a =? from); [lia|]. destruct (a =? to); [lia | reflexivity].
  - apply bank_send_effect in H; [|exact Hnd|exact Hft]. destruct H as (b & -> & Hb).
    split; [apply set_bank_same_config|]. split; [reflexivity|].
    intros d a. cbv zeta. cbn [set_bank w_bank]. apply Hb.
Qed.

(* ---------- the allowance-spending cw20 entry points (TransferFrom / SendFrom / BurnFrom) and
   DecreaseAllowance ---------- *)
Lemma tok_transfer_from_full t sp ow to n t' : tok_transfer_from t sp ow to n = Ok t' ->
  exists al, t_allow t ow sp = Some al /\ n <= al /\ n <= t_bal t ow /\
  t_supply t' = t_supply t /\ t_minter t' = t_minter t /\ t_decimals t' = t_decimals t /\
  (forall o s, t_allow t' o s = if (o =? ow) && (s =? sp) then Some (al - n) else t_allow t o s) /\
  (forall a, t_bal t' a =
     if ow =? to then t_bal t a
     else if a =? ow then t_bal t a - n else if a =? to then t_bal t a + n else t_bal t a).
Proof.
  unfold tok_transfer_from. destruct (t_allow t ow sp) as [al|] eqn:Ea; [|discriminate].
  destruct (n <=? al) eqn:E0; [|discriminate]. apply N.leb_le in E0. cbv zeta.
  unfold tok_debit. cbn [t_bal t_allow t_supply t_minter t_decimals].
  destruct (n <=? t_bal t ow) eqn:E1; [|discriminate]. apply N.leb_le in E1.
  cbn [bind]. unfold tok_credit. cbn [t_bal t_allow t_supply t_minter t_decimals].
  destruct (_ <? W128) eqn:E2; [|discriminate].
  intros H. inversion H. subst t'. clear H. cbn [t_bal t_allow t_supply t_minter t_decimals].
  exists al. repeat split; try assumption; try reflexivity.
  intros a. unfold upd.
  destruct (ow =? to) eqn:Eot.
  - apply N.eqb_eq in Eot. subst to. rewrite N.eqb_refl.
    destruct (a =? ow) eqn:Ea'; [|reflexivity]. apply N.eqb_eq in Ea'. subst a. lia.
  - destruct (a =? ow) eqn:Ea'.
    + apply N.eqb_eq in Ea'. subst a. rewrite Eot. reflexivity.
    + destruct (a =? to) eqn:Eat; [|reflexivity]. apply N.eqb_eq in Eat. subst a. rewrite Ea'. reflexivity.
Qed.

Lemma tok_burn_from_effect t sp ow n t' : tok_burn_from t sp ow n = Ok t' ->
  exists al, t_allow t ow sp = Some al /\ n <= al /\ n <= t_bal t ow /\ n <= t_supply t /\
  t_supply t' = t_supply t - n /\ t_minter t' = t_minter t /\ t_decimals t' = t_decimals t /\
  (forall o s, t_allow t' o s = if (o =? ow) && (s =? sp) then Some (al - n) else t_allow t o s) /\
  (forall a, t_bal t' a = if a =? ow then t_bal t a - n else t_bal t a).
Proof.
  unfold tok_burn_from. destruct (t_allow t ow sp) as [al|] eqn:Ea; [|discriminate].
  destruct (n <=? al) eqn:E0; [|discriminate]. apply N.leb_le in E0. cbv zeta.
  unfold tok_debit. cbn [t_bal t_allow t_supply t_minter t_decimals].
  destruct (n <=? t_bal t ow) eqn:E1; [|discriminate]. apply N.leb_le in E1.
  cbn [bind t_bal t_allow t_supply t_minter t_decimals].
  destruct (n <=? t_supply t) eqn:E2; [|discriminate]. apply N.leb_le in E2.
  intros H. inversion H. subst t'. clear H. cbn [t_bal t_allow t_supply t_minter t_decimals].
  exists al. repeat split; try assumption; try reflexivity.
  intros a. unfold upd. destruct (a =? ow) eqn:Ea'; [apply N.eqb_eq in Ea'; subst a|]; reflexivity.
Qed.

Lemma tok_decrease_allowance_effect t ow sp n t' : tok_decrease_allowance t ow sp n = Ok t' ->
  sp <> ow /\ exists al, t_allow t ow sp = Some al /\
  t_bal t' = t_bal t /\ t_supply t' = t_supply t /\ t_minter t' = t_minter t /\ t_decimals t' = t_decimals t /\
  (forall o s, t_allow t' o s =
     if (o =? ow) && (s =? sp) then (if n <? al then Some (al - n) else None) else t_allow t o s).
Proof.
  unfold tok_decrease_allowance. destruct (sp =? ow) eqn:E; [discriminate|]. apply N.eqb_neq in E.
  destruct (t_allow t ow sp) as [al|] eqn:Ea; [|discriminate].
  intros H. inversion H. subst t'. clear H. cbn [t_bal t_allow t_supply t_minter t_decimals].
  split; [exact E|]. exists al. repeat split; reflexivity.
Qed.

(* what Send and SendFrom share: the Receive dispatch on the target after the ledger part *)
Definition cw20_dispatch (w1 : world) (ta sender target : addr) (amount : N) (h : hook) : res world :=
  match w_pairs w1 target with
  | Some ps => pair_receive w1 target ps ta [] sender amount h
  | None =>
      if target =? w_rtr w1 then
        match h with
        | HRouterOps ops m to => router_exec_ops w1 sender ops m to
        | _ => Err EStd
        end
      else Err EStd
  end.
Lemma cw20_send_dispatch w ta sender target amount h :
  cw20_send w ta sender target amount h =
  (let* w1 := with_token w ta (fun t => tok_transfer t sender target amount) in cw20_dispatch w1 ta sender target amount h).
Proof. reflexivity. Qed.
Lemma cw20_send_from_dispatch w ta sp ow target amount h :
  cw20_send_from w ta sp ow target amount h =
  (let* w1 := with_token w ta (fun t => tok_transfer_from t sp ow target amount) in cw20_dispatch w1 ta sp target amount h).
Proof. reflexivity. Qed.
Lemma cw20_send_from_inv w ta sp ow target amount h w' : cw20_send_from w ta sp ow target amount h = Ok w' ->
  exists w1, with_token w ta (fun t => tok_transfer_from t sp ow target amount) = Ok w1 /\
             cw20_dispatch w1 ta sp target amount h = Ok w'.
Proof. rewrite cw20_send_from_dispatch. intros H. apply bind_ok in H. exact H. Qed.

Print Assumptions pay_asset_effect.
Print Assumptions pair_swap_settlement.
Print Assumptions exec_swap_decompose.
Print Assumptions cw20_send_swap_decompose.
Print Assumptions pair_withdraw_structure.
Print Assumptions pair_withdraw_effect.
Print Assumptions move_funds_effect.
