(* System-level pool steps: the world-model handlers (pair_swap, pair_withdraw, pair_provide) act on the
   pair's actual reserves (and the LP supply) as the abstract [pool_step]s of ValueProofs.v. *)
From HT Require Import Base.Prelude Num.Arith Amm.Formulas Amm.Guards Amm.Known World.World Proofs.NumProofs Proofs.SwapSpec Proofs.SwapProofs Proofs.C01Proofs Proofs.LiquidityProofs Proofs.ValueProofs Proofs.ValueLinks Proofs.LedgerProofs Proofs.LivenessProofs.

(* ---------- swap ---------- *)

(* the asset paid out differs from the asset offered *)
Lemma offer_ask_distinct ps offer :
  asset_eqb (p_a0 ps) (p_a1 ps) = false ->
  (asset_eqb offer (p_a0 ps) = true \/ asset_eqb offer (p_a1 ps) = true) ->
  asset_eqb offer (if asset_eqb offer (p_a0 ps) then p_a1 ps else p_a0 ps) = false.
Proof.
  intros H01 Hor. destruct (asset_eqb offer (p_a0 ps)) eqn:E0.
  - apply LedgerProofs.asset_eqb_eq in E0. subst offer. exact H01.
  - destruct Hor as [Hor|Hor]; [discriminate|].
    apply LedgerProofs.asset_eqb_eq in Hor. subst offer.
    rewrite LedgerProofs.asset_eqb_sym. exact H01.
Qed.

Theorem pair_swap_product : forall w p ps funds sender offer amount bp ms to w' ret spread comm,
  pair_swap w p ps funds sender offer amount bp ms to = Ok (w', (ret, spread, comm)) ->
  let ask := if asset_eqb offer (p_a0 ps) then p_a1 ps else p_a0 ps in
  let rcv := match to with Some t => t | None => sender end in
  asset_eqb (p_a0 ps) (p_a1 ps) = false -> rcv <> p ->
  bal w offer p < W128 -> bal w ask p < W128 -> amount < W128 -> p_comm ps <= D ->
  kf_c01 (bal w offer p - amount) (bal w ask p) amount (p_comm ps) = false ->
  amount <= bal w offer p /\
  bal w' offer p = bal w offer p /\ bal w' ask p = bal w ask p - ret /\ ret <= bal w ask p /\
  (bal w offer p - amount) * bal w ask p <= bal w' offer p * bal w' ask p /\
  (0 < bal w ask p -> 0 < bal w' ask p).
Proof.
  intros w p ps funds sender offer amount bp ms to w' ret spread comm H ask rcv H01 Hrp HB HY Ha Hc Hk.
  pose proof (pair_swap_settlement _ _ _ _ _ _ _ _ _ _ _ _ _ _ H) as S.
  cbv zeta in S. fold ask in S. fold rcv in S.
  destruct S as (Hor & (x & y & Hcs & Hx & Hy) & _ & Hb).
  pose proof (offer_ask_distinct ps offer H01 Hor) as Hoa. fold ask in Hoa.
  assert (Eprcv : (p =? rcv) = false) by (apply N.eqb_neq; congruence).
  (* ledger effect on the pair's two reserves *)
  assert (Bo : bal w' offer p = bal w offer p).
  { rewrite Hb, Hoa. cbn [andb]. reflexivity. }
  assert (Ba : bal w' ask p = bal w ask p - ret).
  { rewrite Hb, LedgerProofs.asset_eqb_refl, Eprcv, N.eqb_refl. cbn [andb negb].
    rewrite andb_true_r.
    destruct (ret =? 0) eqn:E0; cbn [negb]; [|reflexivity].
    apply N.eqb_eq in E0. subst ret. rewrite N.sub_0_r. reflexivity. }
  rewrite Bo, Ba. clear Bo Ba Hb H Hoa Eprcv.
  remember (bal w offer p) as B eqn:EB. remember (bal w ask p) as Y eqn:EY.
  clear EB EY. subst y.
  assert (Ex : B - amount = x) by (clear - Hx; lia).
  rewrite Ex in Hk.
  assert (Hx128 : x < W128) by (clear - Hx HB; lia).
  destruct (c01_fn x Y amount (p_comm ps) ret spread comm Hx128 HY Ha Hc Hcs Hk) as (_ & P & Q).
  pose proof (c01_n_le_y x Y amount (p_comm ps) ret spread comm Hx128 HY Ha Hc Hcs) as Hn.
  clear Hcs Hk.
  split; [clear - Hx; lia|]. split; [reflexivity|]. split; [reflexivity|]. split; [exact Hn|].
  split.
  - rewrite Ex, <- Hx. exact P.
  - intros HY0. specialize (Q HY0). clear - Q. lia.
Qed.

Theorem pair_swap_pool_step : forall w p ps funds sender offer amount bp ms to w' ret spread comm T,
  pair_swap w p ps funds sender offer amount bp ms to = Ok (w', (ret, spread, comm)) ->
  let ask := if asset_eqb offer (p_a0 ps) then p_a1 ps else p_a0 ps in
  let rcv := match to with Some t => t | None => sender end in
  asset_eqb (p_a0 ps) (p_a1 ps) = false -> rcv <> p ->
  bal w offer p < W128 -> bal w ask p < W128 -> amount < W128 -> p_comm ps <= D ->
  kf_c01 (bal w offer p - amount) (bal w ask p) amount (p_comm ps) = false ->
  pool_step (bal w offer p - amount, bal w ask p, T) (bal w' offer p, bal w' ask p, T).
Proof.
  intros w p ps funds sender offer amount bp ms to w' ret spread comm T H ask rcv H01 Hrp HB HY Ha Hc Hk.
  pose proof (pair_swap_product _ _ _ _ _ _ _ _ _ _ _ _ _ _ H) as S.
  cbv zeta in S. fold ask in S. fold rcv in S.
  destruct (S H01 Hrp HB HY Ha Hc Hk) as (Hle & Bo & Ba & Hn & P & _).
  rewrite Bo, Ba in P. rewrite Bo, Ba.
  remember (bal w offer p) as B eqn:EB. remember (bal w ask p) as Y eqn:EY.
  clear - Hle Hn P.
  remember (B - amount) as x eqn:Ex.
  assert (EBx : B = x + amount) by lia.
  rewrite EBx in *. apply ps_swap01; assumption.
Qed.

(* ---------- withdrawal ---------- *)
Theorem pair_withdraw_pool_step : forall w p ps sender amount w' total,
  pair_withdraw w p ps sender amount = Ok w' ->
  asset_eqb (p_a0 ps) (p_a1 ps) = false -> asset_eqb (p_a0 ps) (AToken (p_lp ps)) = false ->
  asset_eqb (p_a1 ps) (AToken (p_lp ps)) = false -> sender <> p ->
  token_supply w (p_lp ps) = Ok total -> amount < total ->
  pool_step (bal w (p_a0 ps) p, bal w (p_a1 ps) p, total)
            (bal w' (p_a0 ps) p, bal w' (p_a1 ps) p, supply w' (p_lp ps)).
Proof.
  intros w p ps sender amount w' total H H01 H0l H1l Hsp Ht Hlt.
  destruct (pair_withdraw_effect _ _ _ _ _ _ H H01 H0l H1l Hsp)
    as (total' & x0 & x1 & Ht' & Hx & Sup & _ & _ & B0 & _ & B1 & _).
  assert (Et : total' = total) by congruence.
  rewrite Et in Hx, Sup. clear Et Ht' total'.
  pose proof (withdraw_is_pool_step _ _ _ _ _ _ Hlt Hx) as St.
  replace (bal w' (p_a0 ps) p) with (bal w (p_a0 ps) p - x0) by (clear - B0; lia).
  replace (bal w' (p_a1 ps) p) with (bal w (p_a1 ps) p - x1) by (clear - B1; lia).
  replace (supply w' (p_lp ps)) with (total - amount) by (clear - Sup; lia).
  exact St.
Qed.

(* ---------- provision ---------- *)
Lemma tok_transfer_from_effect t sp ow rc n t' : tok_transfer_from t sp ow rc n = Ok t' -> ow <> rc ->
  t_supply t' = t_supply t /\
  forall a, t_bal t' a = if a =? ow then t_bal t a - n else if a =? rc then t_bal t a + n else t_bal t a.
Proof.
  unfold tok_transfer_from. destruct (t_allow t ow sp) as [al|]; [|discriminate].
  destruct (n <=? al); [|discriminate]. cbv zeta.
  unfold tok_debit. cbn [t_bal t_allow t_supply t_minter t_decimals].
  destruct (n <=? t_bal t ow) eqn:E1; [|discriminate]. cbn [bind].
  unfold tok_credit. cbn [t_bal t_allow t_supply t_minter t_decimals].
  destruct (_ <? W128); [|discriminate].
  intros H Hne. inversion H. subst t'. clear H. cbn [t_bal t_supply].
  split; [reflexivity|].
  intros a. unfold upd.
  destruct (rc =? ow) eqn:Ero; [apply N.eqb_eq in Ero; congruence|].
  destruct (a =? rc) eqn:Ear; [apply N.eqb_eq in Ear | apply N.eqb_neq in Ear].
  - subst a. rewrite Ero. reflexivity.
  - destruct (a =? ow) eqn:Eao; [apply N.eqb_eq in Eao; subst a|]; reflexivity.
Qed.

(* the pull of one pool asset from the caller into the pair *)
Lemma pull_effect w x p c d w1 :
  (match x with AToken ta => with_token w ta (fun t => tok_transfer_from t p c p d) | ANative _ => Ok w end) = Ok w1 ->
  c <> p ->
  bal w1 x p = (if asset_is_native x then bal w x p else bal w x p + d) /\
  (forall y, asset_eqb y x = false -> forall a, bal w1 y a = bal w y a).
Proof.
  intros H Hcp. destruct x as [dn|ta]; cbn [asset_is_native].
  - inversion H. subst w1. split; reflexivity.
  - apply with_token_inv in H. destruct H as (t & t' & Ht & Hf & ->).
    apply tok_transfer_from_effect in Hf; [|exact Hcp]. destruct Hf as (_ & Hb).
    split.
    + rewrite set_token_bal, LedgerProofs.asset_eqb_refl. cbn [bal]. rewrite Ht, Hb, N.eqb_refl.
      destruct (p =? c) eqn:E; [apply N.eqb_eq in E; congruence | reflexivity].
    + intros y Hy a. rewrite set_token_bal, Hy. reflexivity.
Qed.

Lemma with_token_other w ta f w' : with_token w ta f = Ok w' ->
  forall y, asset_eqb y (AToken ta) = false -> forall a, bal w' y a = bal w y a.
Proof.
  intros H y Hy a. apply with_token_inv in H. destruct H as (t & t' & _ & _ & ->).
  rewrite set_token_bal, Hy. reflexivity.
Qed.

Theorem pair_provide_pool_step : forall w p ps c funds l0 n0 l1 n1 tol rcv w' total,
  pair_provide w p ps c funds l0 n0 l1 n1 tol rcv = Ok w' ->
  asset_eqb (p_a0 ps) (p_a1 ps) = false -> asset_eqb (p_a0 ps) (AToken (p_lp ps)) = false ->
  asset_eqb (p_a1 ps) (AToken (p_lp ps)) = false -> c <> p ->
  token_supply w (p_lp ps) = Ok total -> total <> 0 ->
  exists d0 d1 q0 q1,
    (q0 = if asset_is_native (p_a0 ps) then bal w (p_a0 ps) p - d0 else bal w (p_a0 ps) p) /\
    (q1 = if asset_is_native (p_a1 ps) then bal w (p_a1 ps) p - d1 else bal w (p_a1 ps) p) /\
    bal w' (p_a0 ps) p = q0 + d0 /\ bal w' (p_a1 ps) p = q1 + d1 /\
    pool_step (q0, q1, total) (bal w' (p_a0 ps) p, bal w' (p_a1 ps) p, supply w' (p_lp ps)).
Proof.
  intros w p ps c funds l0 n0 l1 n1 tol rcv w' total H H01 H0l H1l Hcp Ht HT0.
  apply pair_provide_structure in H.
  destruct H as (r0 & r1 & d0 & d1 & q0 & q1 & total' & share & Hr0 & Hr1 & _ & _ & Eq0 & Lq0 & Eq1 & Lq1 & _ &
                 Ht' & Hls & _ & w1 & w2 & Hw1 & Hw2 & H).
  cbv zeta in H.
  rewrite Ht in Ht'. inversion Ht'. subst total'. clear Ht'.
  destruct (total =? 0) eqn:Et; [apply N.eqb_eq in Et; contradiction|]. clear Et.
  apply asset_balance_bal in Hr0. apply asset_balance_bal in Hr1. subst r0 r1.
  assert (H10 : asset_eqb (p_a1 ps) (p_a0 ps) = false) by (rewrite LedgerProofs.asset_eqb_sym; exact H01).
  (* supply *)
  assert (Sup : supply w' (p_lp ps) = total + share).
  { pose proof (pull_other _ _ _ _ _ Hw1 H0l) as T1.
    pose proof (pull_other _ _ _ _ _ Hw2 H1l) as T2.
    rewrite T1 in T2.
    destruct (mint_effect _ _ _ _ _ _ H) as (tk & tk' & A1 & A' & S' & _).
    unfold token_supply in Ht. unfold supply. rewrite A'.
    rewrite T2 in A1. rewrite A1 in Ht. inversion Ht. subst total. exact S'. }
  (* balances *)
  destruct (pull_effect _ _ _ _ _ _ Hw1 Hcp) as (P1 & O1).
  destruct (pull_effect _ _ _ _ _ _ Hw2 Hcp) as (P2 & O2).
  pose proof (with_token_other _ _ _ _ H) as O3.
  assert (B0 : bal w' (p_a0 ps) p = q0 + d0).
  { rewrite (O3 _ H0l), (O2 _ H01), P1, Eq0.
    destruct (asset_is_native (p_a0 ps)); [|reflexivity].
    specialize (Lq0 eq_refl). clear - Lq0. lia. }
  assert (B1 : bal w' (p_a1 ps) p = q1 + d1).
  { rewrite (O3 _ H1l), P2, (O1 _ H10), Eq1.
    destruct (asset_is_native (p_a1 ps)); [|reflexivity].
    specialize (Lq1 eq_refl). clear - Lq1. lia. }
  exists d0, d1, q0, q1.
  split; [exact Eq0|]. split; [exact Eq1|]. split; [exact B0|]. split; [exact B1|].
  rewrite B0, B1, Sup.
  eapply provide_is_pool_step; [exact HT0 | exact Hls].
Qed.

Print Assumptions pair_swap_product.
Print Assumptions pair_swap_pool_step.
Print Assumptions pair_withdraw_pool_step.
Print Assumptions pair_provide_pool_step.
