(* Reachability: the structural invariant WF holds in every world reachable by any history from a
   well-formed start (in particular from the harness's initial world), and discharges the structural
   hypotheses of the frame theorem (C07) and of withdrawal liveness (C20). *)
From HT Require Import Base.Prelude Num.Arith Amm.Formulas Amm.Guards World.World
  Proofs.LedgerProofs Proofs.FrameProofs Proofs.LivenessProofs Proofs.WFProofs.

Definition reachable (w0 w : world) : Prop := exists ops, w = run w0 ops.

Theorem WF_reachable : forall w0 w, WF w0 -> reachable w0 w -> WF w.
Proof. intros w0 w H0 [ops ->]. now apply run_preserves_WF. Qed.

Theorem exec_frame_WF : forall w o w', WF w -> exec w o = Ok w' -> frame (touched w o) w w'.
Proof.
  intros w o w' HW H. apply exec_frame_variant; [|exact H].
  intros q Hq. now apply WF_fresh_tokens.
Qed.

Theorem exec_frame_reachable : forall w0 w o w', WF w0 -> reachable w0 w -> exec w o = Ok w' -> frame (touched w o) w w'.
Proof. intros w0 w o w' H0 Hr H. eapply exec_frame_WF; [eapply WF_reachable; eassumption | exact H]. Qed.

(* C20 with the structural hypotheses discharged by WF: what remains are the numeric ones
   (128-bit balances, i.e. E-supply, and the entitlement condition itself) *)
Theorem withdraw_tx_succeeds_WF : forall w p ps holder a lt,
  WF w -> w_pairs w p = Some ps -> w_tokens w (p_lp ps) = Some lt ->
  holder <> p -> 1 <= a -> a <= t_bal lt holder -> t_bal lt holder <= t_supply lt ->
  t_bal lt p + a < W128 ->
  bal w (p_a0 ps) p < W128 -> bal w (p_a1 ps) p < W128 ->
  bal w (p_a0 ps) holder + bal w (p_a0 ps) p < W128 ->
  bal w (p_a1 ps) holder + bal w (p_a1 ps) p < W128 ->
  bal w (p_a0 ps) p * t_supply lt + 2 * t_supply lt * D <= bal w (p_a0 ps) p * a * D ->
  bal w (p_a1 ps) p * t_supply lt + 2 * t_supply lt * D <= bal w (p_a1 ps) p * a * D ->
  exists w', cw20_send w (p_lp ps) holder p a HWithdraw = Ok w'.
Proof.
  intros w p ps holder a lt HW Hp Hlt Hh Ha1 Ha2 Hs Hov B0 B1 C0 C1 E0 E1.
  destruct (WF_pair w p ps HW Hp) as (_ & _ & _ & _ & D01 & D0 & D1 & Hex & _ & _).
  eapply withdraw_tx_succeeds; eassumption.
Qed.

Theorem withdraw_tx_succeeds_reachable : forall w0 w p ps holder a lt,
  WF w0 -> reachable w0 w -> w_pairs w p = Some ps -> w_tokens w (p_lp ps) = Some lt ->
  holder <> p -> 1 <= a -> a <= t_bal lt holder -> t_bal lt holder <= t_supply lt ->
  t_bal lt p + a < W128 ->
  bal w (p_a0 ps) p < W128 -> bal w (p_a1 ps) p < W128 ->
  bal w (p_a0 ps) holder + bal w (p_a0 ps) p < W128 ->
  bal w (p_a1 ps) holder + bal w (p_a1 ps) p < W128 ->
  bal w (p_a0 ps) p * t_supply lt + 2 * t_supply lt * D <= bal w (p_a0 ps) p * a * D ->
  bal w (p_a1 ps) p * t_supply lt + 2 * t_supply lt * D <= bal w (p_a1 ps) p * a * D ->
  exists w', cw20_send w (p_lp ps) holder p a HWithdraw = Ok w'.
Proof.
  intros w0 w p ps holder a lt H0 Hr. apply withdraw_tx_succeeds_WF. eapply WF_reachable; eassumption.
Qed.

(* the world the harness starts every history from is well-formed, for every layout and parameters *)
From HT Require Import World.Observe.
Theorem init_world_WF : forall L ubal fbal tdec, WF (init_world L ubal fbal tdec).
Proof.
  intros L ubal fbal tdec. apply WF_no_pairs.
  - intros p. reflexivity.
  - intros q Hq. cbn [init_world w_next w_tokens] in *. unfold n_init in Hq.
    destruct ((2 <=? q) && (q <? 2 + l_tokens L)) eqn:E; [|reflexivity].
    apply andb_true_iff in E. destruct E as [E1 E2]. lia.
Qed.
