(* C10 at system level: the spread guard is evaluated on the executed swap's own offer / return / spread
   with the decimals of the offered and asked asset, by position. *)
From HT Require Import Base.Prelude Num.Arith Amm.Formulas Amm.Guards World.World Proofs.LivenessProofs.

Theorem pair_swap_guard : forall w p ps funds sender offer amount bp ms to w' ret spread comm,
  pair_swap w p ps funds sender offer amount bp ms to = Ok (w', (ret, spread, comm)) ->
  let first := asset_eqb offer (p_a0 ps) in
  let od := if first then p_d0 ps else p_d1 ps in
  let ad := if first then p_d1 ps else p_d0 ps in
  assert_max_spread bp ms amount ret spread od ad = Ok tt.
Proof.
  intros w p ps funds sender offer amount bp ms to w' ret spread comm H. cbv zeta.
  unfold pair_swap in H.
  destruct (funds_of offer funds amount) as [u|e]; [|discriminate]. cbn [bind] in H.
  destruct (asset_balance w (p_a0 ps) p) as [r0|e]; [|discriminate]. cbn [bind] in H.
  destruct (asset_balance w (p_a1 ps) p) as [r1|e]; [|discriminate]. cbn [bind] in H.
  destruct (asset_eqb offer (p_a0 ps)) eqn:E0.
  - destruct (u128_checked_sub r0 amount) as [op|e]; [|discriminate]. cbn [bind] in H.
    destruct (compute_swap op r1 amount (p_comm ps)) as [[[rt sp] cm]|e]; [|discriminate]. cbn [bind] in H.
    destruct (assert_max_spread bp ms amount rt sp (p_d0 ps) (p_d1 ps)) as [[]|e] eqn:EG; [|discriminate].
    cbn [bind] in H.
    destruct (if rt =? 0 then Ok w else pay_asset w p (p_a1 ps) rt match to with Some t => t | None => sender end)
      as [w2|e]; [|discriminate]. cbn [bind] in H.
    injection H as _ <- <- _. exact EG.
  - destruct (asset_eqb offer (p_a1 ps)) eqn:E1; [|discriminate].
    destruct (u128_checked_sub r1 amount) as [op|e]; [|discriminate]. cbn [bind] in H.
    destruct (compute_swap op r0 amount (p_comm ps)) as [[[rt sp] cm]|e]; [|discriminate]. cbn [bind] in H.
    destruct (assert_max_spread bp ms amount rt sp (p_d1 ps) (p_d0 ps)) as [[]|e] eqn:EG; [|discriminate].
    cbn [bind] in H.
    destruct (if rt =? 0 then Ok w else pay_asset w p (p_a0 ps) rt match to with Some t => t | None => sender end)
      as [w2|e]; [|discriminate]. cbn [bind] in H.
    injection H as _ <- <- _. exact EG.
Qed.

(* C15 at system level: the slippage guard sees the reserves net of the caller's native deposit *)
Theorem pair_provide_guard : forall w p ps c funds l0 n0 l1 n1 tol rcv w',
  pair_provide w p ps c funds l0 n0 l1 n1 tol rcv = Ok w' ->
  exists r0 r1 d0 d1 q0 q1,
    asset_balance w (p_a0 ps) p = Ok r0 /\ asset_balance w (p_a1 ps) p = Ok r1 /\
    deposit_of (p_a0 ps) l0 n0 l1 n1 = Ok d0 /\ deposit_of (p_a1 ps) l0 n0 l1 n1 = Ok d1 /\
    (q0 = if asset_is_native (p_a0 ps) then r0 - d0 else r0) /\
    (q1 = if asset_is_native (p_a1 ps) then r1 - d1 else r1) /\
    assert_slippage_tolerance tol d0 d1 q0 q1 = Ok tt.
Proof.
  intros w p ps c funds l0 n0 l1 n1 tol rcv w' H.
  destruct (pair_provide_structure w p ps c funds l0 n0 l1 n1 tol rcv w' H)
    as (r0 & r1 & d0 & d1 & q0 & q1 & total & share & A & B & C & E & F & _ & G & _ & I & _).
  exists r0, r1, d0, d1, q0, q1. repeat split; assumption.
Qed.
