(* Function-level facts for withdrawal (C04) and provision shares (C05). *)
From HT Require Import Base.Prelude Num.Arith Amm.Formulas Proofs.NumProofs.

Local Open Scope Z_scope.
Lemma withdraw_core (r a T rho x Dz : Z) :
  0 <= r -> 0 <= a -> 0 < T -> 0 < Dz -> 0 <= x ->
  rho * T <= a * Dz < (rho + 1) * T ->
  x * Dz <= r * rho < (x + 1) * Dz ->
  x * T <= r * a /\ r * a * Dz < (x + 1) * T * Dz + r * T.
Proof.
  intros Hr Ha HS HD Hx [R1 R2] [X1 X2]. split.
  - assert (E : x * Dz * T <= r * a * Dz) by nia. nia.
  - assert (E : r * (a * Dz) < r * ((rho + 1) * T) \/ r = 0) by nia.
    destruct E as [E| ->]; [|nia].
    assert (E2 : r * rho * T < (x + 1) * Dz * T) by nia. nia.
Qed.
Local Close Scope Z_scope.

Lemma cwdec_from_ratio_ok a b : b <> 0 -> a * D / b < W128 -> cwdec_from_ratio a b = Ok (a * D / b).
Proof.
  intros Hb H. unfold cwdec_from_ratio. destruct (b =? 0) eqn:E; [lia|].
  destruct (a * D / b <? W128) eqn:E2; [reflexivity|lia].
Qed.

Lemma u128_mul_dec_val u d v : u128_mul_dec u d = Ok v -> v = u * d / D.
Proof.
  unfold u128_mul_dec, u128_multiply_ratio.
  destruct (u =? 0) eqn:Eu.
  { cbn [orb]. intros H; injection H as <-. assert (u = 0) by lia. subst u. reflexivity. }
  destruct (d =? 0) eqn:Ed.
  { cbn [orb]. intros H; injection H as <-. assert (d = 0) by lia. subst d. rewrite N.mul_0_r. reflexivity. }
  cbn [orb]. change (D =? 0) with false. cbn iota.
  destruct (u * d / D <? W128); [intros H; injection H as <-; reflexivity | discriminate].
Qed.

Section Withdraw.
  Variables r0 r1 a T x0 x1 : N.
  Hypothesis Hok : withdraw_amounts r0 r1 a T = Ok (x0, x1).

  Lemma withdraw_inv :
    T <> 0 /\ x0 = r0 * (a * D / T) / D /\ x1 = r1 * (a * D / T) / D.
  Proof.
    unfold withdraw_amounts in Hok.
    unfold cwdec_from_ratio in Hok. destruct (T =? 0) eqn:ES; [discriminate|].
    destruct (a * D / T <? W128) eqn:E1; [|discriminate]. cbn [bind] in Hok.
    destruct (u128_mul_dec r0 (a * D / T)) as [v0|] eqn:E0; [|discriminate]. cbn [bind] in Hok.
    destruct (u128_mul_dec r1 (a * D / T)) as [v1|] eqn:E1'; [|discriminate]. cbn [bind] in Hok.
    injection Hok as <- <-.
    apply u128_mul_dec_val in E0, E1'. repeat split; [lia|assumption|assumption].
  Qed.

  (* r*a/T - r/10^18 - 1 < x <= r*a/T, cross-multiplied *)
  Theorem withdraw_bounds :
    (x0 * T <= r0 * a /\ r0 * a * D < (x0 + 1) * T * D + r0 * T) /\
    (x1 * T <= r1 * a /\ r1 * a * D < (x1 + 1) * T * D + r1 * T).
  Proof.
    destruct withdraw_inv as (HS & E0 & E1).
    assert (HS' : 0 < T) by lia.
    pose proof (div_sandwich (a * D) T HS') as [R1 R2].
    remember (a * D / T) as rho eqn:Erho.
    pose proof (div_sandwich (r0 * rho) D D_pos) as [A1 A2].
    pose proof (div_sandwich (r1 * rho) D D_pos) as [B1 B2].
    rewrite <- E0 in A1, A2. rewrite <- E1 in B1, B2.
    pose proof D_pos as HD.
    clear Hok E0 E1 Erho.
    split.
    - destruct (withdraw_core (Z.of_N r0) (Z.of_N a) (Z.of_N T) (Z.of_N rho) (Z.of_N x0) (Z.of_N D)); lia.
    - destruct (withdraw_core (Z.of_N r1) (Z.of_N a) (Z.of_N T) (Z.of_N rho) (Z.of_N x1) (Z.of_N D)); lia.
  Qed.

  (* never more than the reserve *)
  Theorem withdraw_le_reserve : a <= T -> x0 <= r0 /\ x1 <= r1.
  Proof.
    intros HaS. destruct withdraw_bounds as [[A _] [B _]]. destruct withdraw_inv as (HS & _).
    assert (A' : r0 * a <= r0 * T) by (apply N.mul_le_mono_l; exact HaS).
    assert (B' : r1 * a <= r1 * T) by (apply N.mul_le_mono_l; exact HaS).
    split; apply N.mul_le_mono_pos_r with T; clear - A A' B B' HS; lia.
  Qed.
End Withdraw.

(* the arithmetic of a withdrawal cannot abort when 1 <= a <= T and the reserves are 128-bit *)
Theorem withdraw_total r0 r1 a T :
  r0 < W128 -> r1 < W128 -> T <> 0 -> a <= T ->
  exists x0 x1, withdraw_amounts r0 r1 a T = Ok (x0, x1).
Proof.
  intros H0 H1 HS HaS.
  assert (Hrho : a * D / T <= D).
  { apply N.div_le_upper_bound; [exact HS|]. nia. }
  assert (Hrho128 : a * D / T < W128).
  { remember (a * D / T) as q. rewrite W128_val. rewrite D_val in Hrho. lia. }
  unfold withdraw_amounts. rewrite cwdec_from_ratio_ok by assumption. cbn [bind].
  remember (a * D / T) as rho eqn:Erho.
  assert (B : forall r, r < W128 -> exists x, u128_mul_dec r rho = Ok x).
  { intros r Hr. unfold u128_mul_dec, u128_multiply_ratio.
    destruct ((r =? 0) || (rho =? 0)); [eauto|]. change (D =? 0) with false. cbn iota.
    assert (E : r * rho / D <= r).
    { apply N.div_le_upper_bound; [rewrite D_val; lia|]. clear Erho. nia. }
    destruct (r * rho / D <? W128) eqn:E2; [eauto|]. remember (r * rho / D) as q. lia. }
  destruct (B r0 H0) as [x0 ->]. cbn [bind]. destruct (B r1 H1) as [x1 ->]. cbn [bind]. eauto.
Qed.

(* ---- provision shares ---- *)
Lemma u128_multiply_ratio_val u n d v : u128_multiply_ratio u n d = Ok v -> d <> 0 /\ v = u * n / d.
Proof.
  unfold u128_multiply_ratio. destruct (d =? 0) eqn:Ed; [discriminate|].
  destruct (u * n / d <? W128); [intros H; injection H as <-; split; [lia|reflexivity] | discriminate].
Qed.

Theorem share_later wl min0 min1 T d0 d1 r0 r1 m :
  T <> 0 -> lp_share wl min0 min1 T d0 d1 r0 r1 = Ok m ->
  r0 <> 0 /\ r1 <> 0 /\
  m * r0 <= d0 * T /\ m * r1 <= d1 * T /\
  (d0 * T < (m + 1) * r0 \/ d1 * T < (m + 1) * r1).
Proof.
  intros HS. unfold lp_share. destruct (T =? 0) eqn:ES; [lia|].
  destruct (u128_multiply_ratio d0 T r0) as [s0|] eqn:E0; [|discriminate]. cbn [bind].
  destruct (u128_multiply_ratio d1 T r1) as [s1|] eqn:E1; [|discriminate]. cbn [bind].
  intros H; injection H as <-.
  apply u128_multiply_ratio_val in E0, E1. destruct E0 as [Hr0 E0], E1 as [Hr1 E1].
  pose proof (div_sandwich (d0 * T) r0 ltac:(lia)) as [A1 A2].
  pose proof (div_sandwich (d1 * T) r1 ltac:(lia)) as [B1 B2].
  rewrite <- E0 in A1, A2. rewrite <- E1 in B1, B2. clear E0 E1.
  split; [exact Hr0|]. split; [exact Hr1|].
  destruct (N.min_spec s0 s1) as [[Hlt ->]|[Hle ->]].
  - split; [lia|]. split; [nia|]. left; lia.
  - split; [nia|]. split; [lia|]. right; lia.
Qed.

Theorem share_first wl min0 min1 d0 d1 r0 r1 m :
  lp_share wl min0 min1 0 d0 d1 r0 r1 = Ok m ->
  wl = true /\ min0 <= d0 /\ min1 <= d1 /\ d0 * d1 < W128 /\
  m * m <= d0 * d1 /\ d0 * d1 < (m + 1) * (m + 1).
Proof.
  unfold lp_share. change (0 =? 0) with true. cbn iota.
  destruct wl; cbn [negb]; [|discriminate].
  destruct (d0 <? min0) eqn:E0; [discriminate|]. destruct (d1 <? min1) eqn:E1; [discriminate|].
  cbn [orb]. unfold u128_mul_panic. destruct (d0 * d1 <? W128) eqn:E2; [|discriminate]. cbn [bind].
  intros H; injection H as <-.
  pose proof (N.sqrt_spec (d0 * d1) ltac:(lia)) as [S1 S2].
  unfold N.succ in S2. repeat split; try lia.
  replace ((N.sqrt (d0 * d1) + 1) * (N.sqrt (d0 * d1) + 1)) with (N.succ (N.sqrt (d0 * d1)) * N.succ (N.sqrt (d0 * d1))) by lia.
  exact S2.
Qed.
