From HT Require Import Base.Prelude Num.Arith Amm.Formulas Amm.Known
  Proofs.NumProofs Proofs.SwapSpec Proofs.SwapProofs.

Lemma kf_gross_eq x y a : kf_gross x y a = gross x y a.
Proof. reflexivity. Qed.

Local Open Scope Z_scope.
Lemma below_core (P Q g Dz : Z) :
  0 < Q -> 1 <= Dz -> 0 <= P -> g * Q * Dz < P * Dz + Q -> (g - 1) * Q < P.
Proof. intros. nia. Qed.
Local Close Scope Z_scope.

Section C01.
  Variables x y a c n s m : N.
  Hypothesis Hx : x < W128.
  Hypothesis Hy : y < W128.
  Hypothesis Ha : a < W128.
  Hypothesis Hc : c <= D.
  Hypothesis Hok : compute_swap x y a c = Ok (n, s, m).

  Lemma c01_paid_le : kf_c01 x y a c = false -> n * (x + a) <= y * a.
  Proof.
    intros Hk.
    destruct (swap_inv x y a c n s m Hx Hy Ha Hc Hok) as (Hx0 & _ & _ & _ & _ & Hn & _ & _).
    assert (HQ : 0 < x + a) by lia.
    destruct (gross_bounds x y a HQ) as [G1 G2].
    pose proof (comm_le (gross x y a) c Hc) as Hmg.
    unfold kf_c01 in Hk. rewrite kf_gross_eq in Hk. cbv zeta in Hk.
    remember (gross x y a) as g eqn:Eg. remember (g * c / D) as mm eqn:Emm.
    subst n.
    destruct (y * a <? g * (x + a)) eqn:Ew.
    - (* in the window, so the commission is at least one unit *)
      assert (Hm1 : 1 <= mm) by (destruct (mm =? 0) eqn:E0; [discriminate | lia]).
      clear Emm Eg Hok Hk.
      pose proof D_pos as HD.
      assert (B : ((Z.of_N g - 1) * Z.of_N (x + a) < Z.of_N (y * a))%Z).
      { apply (below_core _ _ _ (Z.of_N D)); clear - HQ HD G2; lia. }
      assert (Hg1 : 1 <= g) by lia.
      assert (E : (g - mm) * (x + a) <= (g - 1) * (x + a)) by (apply N.mul_le_mono_r; lia).
      assert (E2 : Z.of_N ((g - 1) * (x + a)) = ((Z.of_N g - 1) * Z.of_N (x + a))%Z).
      { rewrite N2Z.inj_mul, N2Z.inj_sub by exact Hg1. reflexivity. }
      clear - B E E2. lia.
    - clear Emm Eg Hok Hk.
      assert (E : (g - mm) * (x + a) <= g * (x + a)) by (apply N.mul_le_mono_r; lia). lia.
  Qed.

  Lemma c01_n_le_y : n <= y.
  Proof.
    destruct (swap_inv x y a c n s m Hx Hy Ha Hc Hok) as (_ & _ & _ & _ & _ & Hn & _ & _).
    pose proof (gross_le_y x y a). subst n. remember (gross x y a) as g. remember (g * c / D) as mm. lia.
  Qed.

  Theorem c01_fn :
    kf_c01 x y a c = false ->
    n * (x + a) <= y * a /\ x * y <= (x + a) * (y - n) /\ (0 < y -> n < y).
  Proof.
    intros Hk. pose proof (c01_paid_le Hk) as H1. pose proof c01_n_le_y as H2.
    destruct (swap_inv x y a c n s m Hx Hy Ha Hc Hok) as (Hx0 & _).
    split; [exact H1|]. split.
    - replace ((x + a) * (y - n)) with ((x + a) * y - (x + a) * n) by nia. nia.
    - intros Hy0. destruct (N.eq_dec n y) as [->|Hne]; [|lia]. nia.
  Qed.

  (* inside the class the bound really fails: the class is exactly the violating set *)
  Theorem c01_window_exact :
    kf_c01 x y a c = true -> y * a < n * (x + a) /\ (x + a) * (y - n) < x * y.
  Proof.
    intros Hk. pose proof c01_n_le_y as H2.
    destruct (swap_inv x y a c n s m Hx Hy Ha Hc Hok) as (Hx0 & _ & _ & _ & _ & Hn & _ & _).
    unfold kf_c01 in Hk. rewrite kf_gross_eq in Hk. cbv zeta in Hk.
    remember (gross x y a) as g eqn:Eg. remember (g * c / D) as mm eqn:Emm.
    apply andb_true_iff in Hk. destruct Hk as [Hw Hm0].
    assert (Hmm0 : mm = 0) by lia. rewrite Hmm0, N.sub_0_r in Hn. clear Emm Eg Hok Hm0 Hmm0. subst n.
    split; [lia|].
    replace ((x + a) * (y - g)) with ((x + a) * y - (x + a) * g) by nia. nia.
  Qed.
End C01.

Lemma c01_refuted_product :
  exists x y a c n s m,
    x < W128 /\ y < W128 /\ a < W128 /\ c <= D /\
    compute_swap x y a c = Ok (n, s, m) /\ (x + a) * (y - n) < x * y.
Proof.
  exists 340282366920938463463374607431, 340282366920938463463374607431, 1, 30000000000000000, 1, 0, 0.
  repeat split; try (vm_compute; reflexivity); vm_compute; discriminate.
Qed.

Lemma c01_refuted_drain :
  exists x y a c n s m,
    x < W128 /\ y < W128 /\ a < W128 /\ c <= D /\ 0 < y /\
    compute_swap x y a c = Ok (n, s, m) /\ n = y.
Proof.
  exists 1, 1, 2000000000000000000, 3000000000000000, 1, 1999999999999999999, 0.
  repeat split; try (vm_compute; reflexivity); vm_compute; discriminate.
Qed.
