(* Corollaries over reachable worlds: the pinned properties C01 (constant product), C04 (pro-rata withdrawal)
   and C07 (a designated receiver is only ever credited) restated for WHOLE transactions submitted in a world
   reachable from a well-formed, solvent start.  Every numeric side condition of the function-level theorems
   (128-bit reserves, 128-bit offer, commission <= 1, distinct pool assets) is discharged by the two history
   invariants [WF] and [Solvent]; what remains as hypotheses are only the disequalities between the participants
   and, for C01, membership outside the known rounding class [kf_c01]. *)
From HT Require Import Base.Prelude Num.Arith Amm.Formulas Amm.Guards Amm.Known World.World
  Proofs.NumProofs Proofs.SwapProofs Proofs.C01Proofs Proofs.LiquidityProofs Proofs.LedgerProofs Proofs.SystemPoolProofs
  Proofs.FrameProofs Proofs.LivenessProofs Proofs.WFProofs Proofs.ReachProofs Proofs.SolventProofs
  Proofs.TxEffectProofs.

(* ------------------------------------------------------------------------------------ *)
(* 0. histories                                                                          *)
(* ------------------------------------------------------------------------------------ *)

Theorem failed_op_changes_nothing : forall w o e, exec w o = Err e -> step w o = w.
Proof. intros w o e H. unfold step. rewrite H. reflexivity. Qed.

Theorem run_app : forall ops1 ops2 w, run w (ops1 ++ ops2) = run (run w ops1) ops2.
Proof. intros ops1 ops2 w. unfold run. apply fold_left_app. Qed.

Theorem reachable_refl : forall w, reachable w w.
Proof. intros w. exists []. reflexivity. Qed.

Theorem reachable_trans : forall w0 w1 w2, reachable w0 w1 -> reachable w1 w2 -> reachable w0 w2.
Proof. intros w0 w1 w2 [ops1 ->] [ops2 ->]. exists (ops1 ++ ops2). symmetry. apply run_app. Qed.

Theorem reachable_step : forall w0 w o, reachable w0 w -> reachable w0 (step w o).
Proof. intros w0 w o H. eapply reachable_trans; [exact H|]. exists [o]. reflexivity. Qed.

Theorem reachable_exec : forall w0 w o w', reachable w0 w -> exec w o = Ok w' -> reachable w0 w'.
Proof.
  intros w0 w o w' H E. replace w' with (step w o); [apply reachable_step; exact H|].
  unfold step. rewrite E. reflexivity.
Qed.

(* both invariants hold in every reachable world *)
Theorem reachable_invariants : forall w0 w, WF w0 -> Solvent w0 -> reachable w0 w -> WF w /\ Solvent w.
Proof. intros w0 w H0 S0 [ops ->]. apply run_preserves_Solvent; assumption. Qed.

(* ------------------------------------------------------------------------------------ *)
(* 1. C01 for whole swap transactions                                                    *)
(* ------------------------------------------------------------------------------------ *)

(* the arithmetic, on abstract before / after reserves *)
Lemma swap_reserves_arith (x y a c n s m x' y' : N) :
  x < W128 -> y < W128 -> a < W128 -> c <= D ->
  compute_swap x y a c = Ok (n, s, m) -> kf_c01 x y a c = false ->
  x' = x + a -> y' + n = y ->
  x * y <= x' * y' /\ (0 < y -> 0 < y') /\ (y - y') * (x + a) <= y * a.
Proof.
  intros Hx Hy Ha Hc Hok Hk Ex Ey.
  destruct (c01_fn x y a c n s m Hx Hy Ha Hc Hok Hk) as (P1 & P2 & P3).
  assert (Ey' : y' = y - n) by (clear - Ey; lia).
  assert (En : y - y' = n) by (clear - Ey; lia).
  rewrite En. subst x' y'. clear - P1 P2 P3.
  split; [exact P2|]. split; [|exact P1].
  intros H. specialize (P3 H). lia.
Qed.

(* from the ledger effect of the whole transaction to the three C01 conclusions *)
Lemma swap_effect_product w w' p ps (offer ask : asset) amount sender ret spread comm :
  Solvent w -> p_comm ps <= D ->
  compute_swap (bal w offer p) (bal w ask p) amount (p_comm ps) = Ok (ret, spread, comm) ->
  bal w' offer p = bal w offer p + amount ->
  bal w' ask p + ret = bal w ask p ->
  bal w' offer sender + amount = bal w offer sender ->
  kf_c01 (bal w offer p) (bal w ask p) amount (p_comm ps) = false ->
  bal w offer p * bal w ask p <= bal w' offer p * bal w' ask p /\
  (0 < bal w ask p -> 0 < bal w' ask p) /\
  (bal w ask p - bal w' ask p) * (bal w offer p + amount) <= bal w ask p * amount.
Proof.
  intros HS Hc Hcs Bo Ba Bs Hk.
  pose proof (Solvent_bal w offer p HS) as Hx.
  pose proof (Solvent_bal w ask p HS) as Hy.
  pose proof (Solvent_bal w offer sender HS) as Hs.
  assert (Ha : amount < W128) by (clear - Bs Hs; lia).
  exact (swap_reserves_arith _ _ _ _ _ _ _ _ _ Hx Hy Ha Hc Hcs Hk Bo Ba).
Qed.

(* execute-swap with a native offer *)
Theorem swap_tx_product_reachable : forall w0 w p ps c d amount bp ms to w',
  WF w0 -> Solvent w0 -> reachable w0 w ->
  w_pairs w p = Some ps -> c <> p ->
  exec w (OSwap p c [(d, amount)] (ANative d) amount bp ms to) = Ok w' ->
  let offer := ANative d in
  let ask := if asset_eqb offer (p_a0 ps) then p_a1 ps else p_a0 ps in
  let rcv := match to with Some t => t | None => c end in
  rcv <> p ->
  kf_c01 (bal w offer p) (bal w ask p) amount (p_comm ps) = false ->
  bal w offer p * bal w ask p <= bal w' offer p * bal w' ask p /\
  (0 < bal w ask p -> 0 < bal w' ask p) /\
  (bal w ask p - bal w' ask p) * (bal w offer p + amount) <= bal w ask p * amount.
Proof.
  intros w0 w p ps c d amount bp ms to w' HW0 HS0 Hr Hp Hcp H offer ask rcv Hrp Hk.
  destruct (reachable_invariants _ _ HW0 HS0 Hr) as [HW HS].
  destruct (WF_pair _ _ _ HW Hp) as (_ & _ & _ & _ & _ & _ & _ & _ & Hc & _).
  pose proof (tx_swap_native_effect w p ps c d amount bp ms to w' HW Hp Hcp H) as E.
  cbv zeta in E. specialize (E Hrp).
  destruct E as (ret & spread & comm & Hcs & Bo & Ba & E1 & E2 & _).
  assert (Bs : bal w' offer c + amount = bal w offer c).
  { destruct (N.eq_dec rcv c) as [e|ne].
    - destruct (E2 e) as (_ & X). exact X.
    - destruct (E1 ne) as (_ & X & _). exact X. }
  exact (swap_effect_product w w' p ps offer ask amount c ret spread comm HS Hc Hcs Bo Ba Bs Hk).
Qed.

(* the cw20 hook form *)
Theorem swap_hook_tx_product_reachable : forall w0 w ta sender p ps n offer amount bp ms to w',
  WF w0 -> Solvent w0 -> reachable w0 w ->
  w_pairs w p = Some ps -> sender <> p ->
  exec w (OSend ta sender p n (HSwap offer amount bp ms to)) = Ok w' ->
  let ask := if asset_eqb offer (p_a0 ps) then p_a1 ps else p_a0 ps in
  let rcv := match to with Some t => t | None => sender end in
  rcv <> p ->
  kf_c01 (bal w offer p) (bal w ask p) amount (p_comm ps) = false ->
  bal w offer p * bal w ask p <= bal w' offer p * bal w' ask p /\
  (0 < bal w ask p -> 0 < bal w' ask p) /\
  (bal w ask p - bal w' ask p) * (bal w offer p + amount) <= bal w ask p * amount.
Proof.
  intros w0 w ta sender p ps n offer amount bp ms to w' HW0 HS0 Hr Hp Hsp H ask rcv Hrp Hk.
  destruct (reachable_invariants _ _ HW0 HS0 Hr) as [HW HS].
  destruct (WF_pair _ _ _ HW Hp) as (_ & _ & _ & _ & _ & _ & _ & _ & Hc & _).
  pose proof (tx_swap_hook_effect w ta sender p ps n offer amount bp ms to w' HW Hp Hsp H) as E.
  cbv zeta in E. specialize (E Hrp).
  destruct E as (_ & _ & ret & spread & comm & Hcs & Bo & Ba & E1 & E2 & _).
  assert (Bs : bal w' offer sender + amount = bal w offer sender).
  { destruct (N.eq_dec rcv sender) as [e|ne].
    - destruct (E2 e) as (_ & X). exact X.
    - destruct (E1 ne) as (_ & X & _). exact X. }
  exact (swap_effect_product w w' p ps offer ask amount sender ret spread comm HS Hc Hcs Bo Ba Bs Hk).
Qed.

(* the offered side: a swap only succeeds against a non-empty offer reserve, and adds to it *)
Theorem swap_tx_offer_reserve_reachable : forall w0 w p ps c d amount bp ms to w',
  WF w0 -> Solvent w0 -> reachable w0 w ->
  w_pairs w p = Some ps -> c <> p ->
  exec w (OSwap p c [(d, amount)] (ANative d) amount bp ms to) = Ok w' ->
  (match to with Some t => t | None => c end) <> p ->
  0 < bal w (ANative d) p /\ bal w' (ANative d) p = bal w (ANative d) p + amount /\ amount < W128.
Proof.
  intros w0 w p ps c d amount bp ms to w' HW0 HS0 Hr Hp Hcp H Hrp.
  destruct (reachable_invariants _ _ HW0 HS0 Hr) as [HW HS].
  destruct (WF_pair _ _ _ HW Hp) as (_ & _ & _ & _ & _ & _ & _ & _ & Hc & _).
  pose proof (tx_swap_native_effect w p ps c d amount bp ms to w' HW Hp Hcp H) as E.
  cbv zeta in E. specialize (E Hrp).
  destruct E as (ret & spread & comm & Hcs & Bo & Ba & E1 & E2 & _).
  assert (Bs : bal w' (ANative d) c + amount = bal w (ANative d) c).
  { destruct (N.eq_dec (match to with Some t => t | None => c end) c) as [e|ne].
    - destruct (E2 e) as (_ & X). exact X.
    - destruct (E1 ne) as (_ & X & _). exact X. }
  pose proof (Solvent_bal w (ANative d) c HS) as Hs.
  assert (Ha : amount < W128) by (clear - Bs Hs; lia).
  destruct (swap_inv _ _ _ _ _ _ _ (Solvent_bal w _ p HS) (Solvent_bal w _ p HS) Ha Hc Hcs) as (Hx0 & _).
  split; [clear - Hx0; lia|]. split; [exact Bo | exact Ha].
Qed.

(* ------------------------------------------------------------------------------------ *)
(* 2. C04 for the whole withdrawal transaction                                           *)
(* ------------------------------------------------------------------------------------ *)
Theorem withdraw_tx_reachable : forall w0 w p ps holder a w',
  WF w0 -> Solvent w0 -> reachable w0 w ->
  w_pairs w p = Some ps -> holder <> p -> holder <> p_lp ps ->
  exec w (OSend (p_lp ps) holder p a HWithdraw) = Ok w' ->
  exists total x0 x1,
    token_supply w (p_lp ps) = Ok total /\
    withdraw_amounts (bal w (p_a0 ps) p) (bal w (p_a1 ps) p) a total = Ok (x0, x1) /\
    supply w' (p_lp ps) + a = total /\
    bal w' (AToken (p_lp ps)) holder + a = bal w (AToken (p_lp ps)) holder /\
    bal w' (AToken (p_lp ps)) p = bal w (AToken (p_lp ps)) p /\
    bal w' (p_a0 ps) holder = bal w (p_a0 ps) holder + x0 /\ bal w' (p_a0 ps) p + x0 = bal w (p_a0 ps) p /\
    bal w' (p_a1 ps) holder = bal w (p_a1 ps) holder + x1 /\ bal w' (p_a1 ps) p + x1 = bal w (p_a1 ps) p /\
    (forall z c, c <> p -> c <> holder -> bal w' z c = bal w z c) /\
    (* the pro-rata sandwich: r_i*a/total - r_i/10^18 - 1 < x_i <= r_i*a/total *)
    (x0 * total <= bal w (p_a0 ps) p * a /\
     bal w (p_a0 ps) p * a * D < (x0 + 1) * total * D + bal w (p_a0 ps) p * total) /\
    (x1 * total <= bal w (p_a1 ps) p * a /\
     bal w (p_a1 ps) p * a * D < (x1 + 1) * total * D + bal w (p_a1 ps) p * total).
Proof.
  intros w0 w p ps holder a w' HW0 HS0 Hr Hp Hhp Hhl H.
  destruct (reachable_invariants _ _ HW0 HS0 Hr) as [HW HS].
  destruct (tx_withdraw_effect w p ps holder a w' HW Hp Hhp Hhl H)
    as (total & x0 & x1 & Hts & Hx & Sup & Lh & Lp & A0h & A0p & A1h & A1p & Fr).
  destruct (withdraw_bounds _ _ _ _ _ _ Hx) as [B0 B1].
  exists total, x0, x1.
  repeat (split; [assumption|]). exact B1.
Qed.

(* ------------------------------------------------------------------------------------ *)
(* 3. C07: a designated receiver is only ever credited                                   *)
(* ------------------------------------------------------------------------------------ *)

Lemma not_in_two (r a b : addr) : r <> a -> r <> b -> ~ In r [a; b].
Proof. intros Ha Hb [E|[E|[]]]; congruence. Qed.

(* the settlement of a swap only credits a receiver other than the pair *)
Lemma pair_swap_receiver_mono w p ps funds sender offer amount bp ms r w' out :
  pair_swap w p ps funds sender offer amount bp ms (Some r) = Ok (w', out) -> r <> p ->
  forall z, bal w z r <= bal w' z r.
Proof.
  intros H Hrp z. destruct out as [[ret spread] comm].
  pose proof (pair_swap_settlement _ _ _ _ _ _ _ _ _ _ _ _ _ _ H) as St.
  cbv zeta in St. destruct St as (_ & _ & _ & B).
  rewrite B. apply N.eqb_neq in Hrp. rewrite Hrp, N.eqb_refl.
  match goal with |- _ <= (if ?b then _ else _) => destruct b eqn:Eb end; [|apply N.le_refl].
  apply andb_true_iff in Eb. destruct Eb as [Eb _]. apply andb_true_iff in Eb. destruct Eb as [Ez _].
  apply LedgerProofs.asset_eqb_eq in Ez. subst z. apply N.le_add_r.
Qed.

(* (i) direct swap, any attached funds *)
Lemma swap_receiver_mono w p c funds offer amount bp ms r w' :
  exec w (OSwap p c funds offer amount bp ms (Some r)) = Ok w' -> r <> c -> r <> p ->
  forall z, bal w z r <= bal w' z r.
Proof.
  intros H Hrc Hrp z.
  apply exec_swap_decompose in H. destruct H as (ps & w1 & out & _ & Hm & _ & _ & Hs).
  apply move_funds_frame in Hm. rewrite <- (Hm r (not_in_two _ _ _ Hrc Hrp) z).
  exact (pair_swap_receiver_mono _ _ _ _ _ _ _ _ _ _ _ _ Hs Hrp z).
Qed.

(* (i) hooked swap: a successful Send carrying a Swap hook was addressed to a pair *)
Lemma send_swap_target_is_pair w ta sender p n offer amount bp ms to w' :
  cw20_send w ta sender p n (HSwap offer amount bp ms to) = Ok w' -> exists ps, w_pairs w p = Some ps.
Proof.
  intros H. unfold cw20_send in H. apply bind_ok in H. destruct H as (w1 & Ht & H).
  rewrite (with_token_pairs _ _ _ _ Ht) in H.
  destruct (w_pairs w p) as [ps|]; [eauto|].
  destruct (p =? w_rtr w1); discriminate.
Qed.

Lemma hook_swap_receiver_mono w ta sender p n offer amount bp ms r w' :
  exec w (OSend ta sender p n (HSwap offer amount bp ms (Some r))) = Ok w' -> r <> sender -> r <> p ->
  forall z, bal w z r <= bal w' z r.
Proof.
  intros H Hrs Hrp z. cbn [exec] in H.
  destruct (send_swap_target_is_pair _ _ _ _ _ _ _ _ _ _ _ H) as (ps & Hp).
  destruct (cw20_send_swap_decompose _ _ _ _ _ _ _ _ _ _ _ _ Hp H) as (w1 & out & Hm & _ & _ & _ & Hs).
  apply tok_transfer_frame in Hm. rewrite <- (Hm r (not_in_two _ _ _ Hrs Hrp) z).
  exact (pair_swap_receiver_mono _ _ _ _ _ _ _ _ _ _ _ _ Hs Hrp z).
Qed.

(* a mint changes only the minted token's ledger, there only the recipient's entry, by exactly n <> 0 *)
Lemma mint_balances w lp s r n w' : with_token w lp (fun t => tok_mint t s r n) = Ok w' ->
  n <> 0 /\
  (forall z a, asset_eqb z (AToken lp) = false -> bal w' z a = bal w z a) /\
  (forall a, bal w' (AToken lp) a = if a =? r then bal w (AToken lp) a + n else bal w (AToken lp) a).
Proof.
  intros H. split.
  - apply with_token_inv in H. destruct H as (t & t' & _ & Hf & _). unfold tok_mint in Hf.
    destruct (n =? 0) eqn:E; [discriminate|]. apply N.eqb_neq. exact E.
  - split.
    + intros z a Hz. exact (with_token_other _ _ _ _ H z Hz a).
    + intros a. apply mint_effect in H. destruct H as (tk & tk' & A & A' & _ & B).
      cbn [bal]. rewrite A, A'. apply B.
Qed.

(* the pull of one pool asset touches only the caller and the pair *)
Lemma pull_frame w x p c d w1 :
  (match x with AToken ta => with_token w ta (fun t => tok_transfer_from t p c p d) | ANative _ => Ok w end) = Ok w1 ->
  frame [c; p] w w1.
Proof.
  intros H. destruct x as [dn|ta]; [inversion H; apply frame_refl|].
  eapply tok_transfer_from_frame. exact H.
Qed.

(* (ii) provision with a designated receiver: only its LP balance moves, upwards, by a positive amount *)
Lemma provide_receiver_effect w p ps c funds l0 n0 l1 n1 tol r w' :
  w_pairs w p = Some ps ->
  exec w (OProvide p c funds l0 n0 l1 n1 tol (Some r)) = Ok w' -> r <> c -> r <> p ->
  (forall z, z <> AToken (p_lp ps) -> bal w' z r = bal w z r) /\
  bal w (AToken (p_lp ps)) r < bal w' (AToken (p_lp ps)) r.
Proof.
  intros Hp H Hrc Hrp. cbn [exec] in H. rewrite Hp in H.
  apply bind_ok in H. destruct H as (w0 & Hm & H).
  apply move_funds_frame in Hm. pose proof (Hm r (not_in_two _ _ _ Hrc Hrp)) as F0.
  apply pair_provide_structure in H.
  destruct H as (r0 & r1 & d0 & d1 & q0 & q1 & total & share & _ & _ & _ & _ & _ & _ & _ & _ & _ &
                 _ & _ & Hsh & w1 & w2 & Hw1 & Hw2 & H).
  cbv zeta in H.
  apply pull_frame in Hw1. apply pull_frame in Hw2.
  pose proof (Hw1 r (not_in_two _ _ _ Hrc Hrp)) as F1.
  pose proof (Hw2 r (not_in_two _ _ _ Hrc Hrp)) as F2.
  assert (F : forall z, bal w2 z r = bal w z r) by (intros z; rewrite F2, F1, F0; reflexivity).
  destruct (total =? 0).
  - destruct H as (w3 & M1 & L1 & M2).
    apply mint_balances in M1. destruct M1 as (_ & O1 & B1).
    apply mint_balances in M2. destruct M2 as (N2 & O2 & B2).
    split.
    + intros z Hz. apply LedgerProofs.asset_eqb_neq in Hz. rewrite (O2 z r Hz), (O1 z r Hz). apply F.
    + rewrite B2, N.eqb_refl, B1, <- F.
      destruct (r =? p_lp ps); clear - N2; lia.
  - apply mint_balances in H. destruct H as (N1 & O1 & B1).
    split.
    + intros z Hz. apply LedgerProofs.asset_eqb_neq in Hz. rewrite (O1 z r Hz). apply F.
    + rewrite B1, N.eqb_refl, <- F. clear - N1. lia.
Qed.

(* no invariant is needed: the statement holds in EVERY world *)
Theorem receiver_never_decreases_any_world : forall w o w',
  exec w o = Ok w' ->
  match o with
  | OSwap p c _ _ _ _ _ (Some r) =>
      r <> c -> r <> p -> forall z, bal w z r <= bal w' z r
  | OSend _ sender p _ (HSwap _ _ _ _ (Some r)) =>
      r <> sender -> r <> p -> forall z, bal w z r <= bal w' z r
  | OProvide p c _ _ _ _ _ _ (Some r) =>
      r <> c -> r <> p -> forall ps, w_pairs w p = Some ps ->
      (forall z, z <> AToken (p_lp ps) -> bal w' z r = bal w z r) /\
      bal w (AToken (p_lp ps)) r <= bal w' (AToken (p_lp ps)) r
  | _ => True
  end.
Proof.
  intros w o w' H. destruct o; try exact I.
  - (* OSend *)
    destruct h; try exact I. destruct to as [r|]; [|exact I].
    intros Hrs Hrp. eapply hook_swap_receiver_mono; eassumption.
  - (* OProvide *)
    destruct receiver as [r|]; [|exact I].
    intros Hrc Hrp ps Hp.
    destruct (provide_receiver_effect _ _ _ _ _ _ _ _ _ _ _ _ Hp H Hrc Hrp) as [A B].
    split; [exact A | apply N.lt_le_incl; exact B].
  - (* OSwap *)
    destruct to as [r|]; [|exact I].
    intros Hrc Hrp. eapply swap_receiver_mono; eassumption.
Qed.

(* the requested form, over reachable worlds *)
Theorem receiver_never_decreases : forall w0 w o w',
  WF w0 -> Solvent w0 -> reachable w0 w -> exec w o = Ok w' ->
  match o with
  | OSwap p c _ _ _ _ _ (Some r) =>
      r <> c -> r <> p -> forall z, bal w z r <= bal w' z r
  | OSend _ sender p _ (HSwap _ _ _ _ (Some r)) =>
      r <> sender -> r <> p -> forall z, bal w z r <= bal w' z r
  | OProvide p c _ _ _ _ _ _ (Some r) =>
      r <> c -> r <> p -> forall ps, w_pairs w p = Some ps ->
      (forall z, z <> AToken (p_lp ps) -> bal w' z r = bal w z r) /\
      bal w (AToken (p_lp ps)) r <= bal w' (AToken (p_lp ps)) r
  | _ => True
  end.
Proof. intros w0 w o w' _ _ _ H. exact (receiver_never_decreases_any_world w o w' H). Qed.

(* the provision credits the receiver's LP balance strictly *)
Theorem provide_receiver_lp_increases : forall w p ps c funds l0 n0 l1 n1 tol r w',
  w_pairs w p = Some ps ->
  exec w (OProvide p c funds l0 n0 l1 n1 tol (Some r)) = Ok w' -> r <> c -> r <> p ->
  bal w (AToken (p_lp ps)) r < bal w' (AToken (p_lp ps)) r.
Proof. intros w p ps c funds l0 n0 l1 n1 tol r w' Hp H Hrc Hrp. eapply provide_receiver_effect; eassumption. Qed.

(* the disequality from the submitter is needed: a receiver who is also the submitter pays the offer, so its
   balance of the offered asset falls (machine-checked instance below).  The disequality from the pair is needed
   for the provision statement (the pair's own reserves grow by the deposits, so "unchanged except LP" fails for
   r = p).  No disequality between r and the LP token's own address, nor between r and any pool token's address,
   is needed. *)
Definition rc_tok (b : addr -> N) : token := mkToken b (fun _ _ => None) 0 None 6.
Definition rc_ps : pairst := mkPair (ANative 0) (ANative 1) 6 6 20 [] 0 0 3000000000000000 9.
Definition rc_w : world :=
  mkWorld (fun a d => if a =? 10 then 1000000 else if a =? 5 then 1000 else 0)
          (fun _ => None) (fun a => if a =? 10 then Some rc_ps else None) 9 8 7 (fun _ => None) [] 30.
Example receiver_is_submitter_pays :
  exists w', exec rc_w (OSwap 10 5 [(0, 100)] (ANative 0) 100 None None (Some 5)) = Ok w' /\
             bal w' (ANative 0) 5 < bal rc_w (ANative 0) 5.
Proof. eexists. split; [vm_compute; reflexivity | vm_compute; reflexivity]. Qed.

Print Assumptions failed_op_changes_nothing.
Print Assumptions run_app.
Print Assumptions reachable_refl.
Print Assumptions reachable_trans.
Print Assumptions reachable_step.
Print Assumptions reachable_exec.
Print Assumptions reachable_invariants.
Print Assumptions swap_tx_product_reachable.
Print Assumptions swap_hook_tx_product_reachable.
Print Assumptions swap_tx_offer_reserve_reachable.
Print Assumptions withdraw_tx_reachable.
Print Assumptions receiver_never_decreases_any_world.
Print Assumptions receiver_never_decreases.
Print Assumptions provide_receiver_lp_increases.
Print Assumptions receiver_is_submitter_pays.
