(* C19 at SYSTEM level: the world's factory registry ([w_reg], creation order), laid out in storage the way the
   factory does it (each record saved under the key of its two encoded assets), is walked completely and without
   repetition by a client paging through the listing with any page size - provided no two records share a key
   (i.e. outside the recorded key-collision finding KF-key-concat). *)
From HT Require Import Base.Prelude Reg.Registry World.World World.Observe
  Proofs.RegistryProofs Proofs.FactoryProofs Proofs.ReachProofs Proofs.RegHistProofs Proofs.InitProofs.
From Coq Require Import Sorting.Sorted Sorting.Permutation ListDec.

(* ---- insertion of a fresh key ---- *)
Lemma insert_fresh_perm {V} k (v : V) (st : @store V) :
  ~ In k (map fst st) -> Permutation (store_insert k v st) ((k, v) :: st).
Proof.
  induction st as [|[k' v'] st IH]; cbn [store_insert map fst In]; intros Hk; [apply Permutation_refl|].
  destruct (bytes_cmp k k') eqn:E.
  - apply bytes_cmp_eq in E. exfalso. apply Hk. left. now symmetry.
  - apply Permutation_refl.
  - eapply perm_trans; [apply perm_skip, IH|apply perm_swap].
    intros Hin. apply Hk. now right.
Qed.

Lemma insert_key_present {V} k (v : V) (st : @store V) : In k (map fst (store_insert k v st)).
Proof.
  induction st as [|[k' v'] st IH]; cbn [store_insert]; [now left|].
  destruct (bytes_cmp k k'); cbn [map fst In]; [now left|now left|right; exact IH].
Qed.

Lemma insert_KeyOK {V} (assets : V -> bytes * bytes) k v (st : @store V) :
  pair_key (fst (assets v)) (snd (assets v)) = k -> KeyOK assets st -> KeyOK assets (store_insert k v st).
Proof.
  intros Hk HK e He. destruct (insert_In _ _ _ _ He) as [->|Hin]; [exact Hk|now apply HK].
Qed.

Lemma KeyOK_keys {V} (assets : V -> bytes * bytes) (st : @store V) :
  KeyOK assets st ->
  map fst st = map (fun v => pair_key (fst (assets v)) (snd (assets v))) (map snd st).
Proof.
  induction st as [|e st IH]; intros HK; [reflexivity|].
  cbn [map]. f_equal.
  - symmetry. apply HK. now left.
  - apply IH. intros x Hx. apply HK. now right.
Qed.

Section WorldWalk.
  Variable enc : asset -> bytes.
  Definition rec_assets (r : frec) : bytes * bytes := (enc (f_a0 r), enc (f_a1 r)).
  Definition rec_key (r : frec) : bytes := pair_key (enc (f_a0 r)) (enc (f_a1 r)).
  Definition store_of (reg : list frec) : @store frec :=
    fold_left (fun st r => store_insert (rec_key r) r st) reg [].

  (* the keys of a KeyOK store are the keys of its records *)
  Lemma store_keys (st : @store frec) : KeyOK rec_assets st -> map fst st = map rec_key (map snd st).
  Proof. intros HK. rewrite (KeyOK_keys rec_assets st HK). reflexivity. Qed.

  (* the fold, generalised over the store accumulated from the records [done] inserted so far *)
  Lemma fold_insert_facts : forall reg (st : @store frec) done,
    Sorted_store st -> KeyOK rec_assets st -> Permutation (map snd st) done ->
    NoDup (map rec_key (done ++ reg)) ->
    let st' := fold_left (fun st r => store_insert (rec_key r) r st) reg st in
    Sorted_store st' /\ KeyOK rec_assets st' /\ Permutation (map snd st') (done ++ reg).
  Proof.
    induction reg as [|r reg IH]; intros st done HS HK HP HN; cbv zeta.
    - cbn [fold_left]. rewrite app_nil_r. repeat split; assumption.
    - cbn [fold_left].
      assert (Hfresh : ~ In (rec_key r) (map fst st)).
      { rewrite (store_keys st HK). intros Hin.
        rewrite map_app in HN. cbn [map] in HN. apply NoDup_remove_2 in HN. apply HN.
        apply in_or_app. left.
        eapply Permutation_in; [apply Permutation_map; exact HP|exact Hin]. }
      replace (done ++ r :: reg) with ((done ++ [r]) ++ reg) in * by (rewrite <- app_assoc; reflexivity).
      apply IH.
      + now apply insert_sorted.
      + apply insert_KeyOK; [reflexivity|exact HK].
      + eapply perm_trans; [apply Permutation_map, insert_fresh_perm; exact Hfresh|].
        cbn [map snd]. eapply perm_trans; [apply perm_skip; exact HP|apply Permutation_cons_append].
      + exact HN.
  Qed.

  Theorem store_of_facts : forall reg, NoDup (map rec_key reg) ->
    Sorted_store (store_of reg) /\ KeyOK rec_assets (store_of reg) /\
    Permutation (map snd (store_of reg)) reg /\ length (store_of reg) = length reg.
  Proof.
    intros reg HN.
    destruct (fold_insert_facts reg [] []) as (HS & HK & HP).
    - constructor.
    - intros e [].
    - apply Permutation_refl.
    - exact HN.
    - cbn [app] in HP. fold (store_of reg) in HS, HK, HP.
      repeat split; try assumption.
      rewrite <- (map_length snd (store_of reg)). now apply Permutation_length.
  Qed.

  (* the pages of a walk over the laid-out registry concatenate to the store itself *)
  Lemma store_of_walk_eq : forall reg limit, NoDup (map rec_key reg) -> (0 < page_limit limit)%nat ->
    concat (walk rec_assets (S (length (store_of reg))) (store_of reg) None limit) = store_of reg.
  Proof.
    intros reg limit HN HL. destruct (store_of_facts reg HN) as (HS & HK & _ & _).
    now apply (walk_from_start rec_assets (store_of reg) limit).
  Qed.

  Lemma world_walk_complete_nodup : forall reg limit,
    NoDup (map rec_key reg) -> (0 < page_limit limit)%nat -> NoDup (map f_pair reg) ->
    let st := store_of reg in
    Permutation (map snd (concat (walk rec_assets (S (length st)) st None limit))) reg /\
    NoDup (map f_pair (map snd (concat (walk rec_assets (S (length st)) st None limit)))).
  Proof.
    intros reg limit HN HL HP st. subst st. rewrite store_of_walk_eq by assumption.
    destruct (store_of_facts reg HN) as (_ & _ & HPerm & _). split; [exact HPerm|].
    eapply Permutation_NoDup; [|exact HP]. apply Permutation_map. now apply Permutation_sym.
  Qed.

  Theorem world_walk_complete : forall reg limit, NoDup (map rec_key reg) -> (0 < page_limit limit)%nat ->
    let st := store_of reg in
    Permutation (map snd (concat (walk rec_assets (S (length st)) st None limit))) reg /\
    NoDup (map f_pair (map snd (concat (walk rec_assets (S (length st)) st None limit)))) \/ ~ NoDup (map f_pair reg).
  Proof.
    intros reg limit HN HL st.
    destruct (NoDup_dec N.eq_dec (map f_pair reg)) as [HP|HP]; [left|right; exact HP].
    exact (world_walk_complete_nodup reg limit HN HL HP).
  Qed.
End WorldWalk.

(* from the harness's start, after any history: if the encoding gives different keys to the records of the registry, every
   registered pair is listed exactly once by a walk with any page size *)
Theorem reachable_walk_lists_every_pair_once : forall (enc : asset -> bytes) L ubal fbal tdec ops limit,
  let w := run (init_world L ubal fbal tdec) ops in
  no_factory_submitter (init_world L ubal fbal tdec) ops ->
  NoDup (map (rec_key enc) (w_reg w)) -> (0 < page_limit limit)%nat ->
  let st := store_of enc (w_reg w) in
  let listed := map f_pair (map snd (concat (walk (rec_assets enc) (S (length st)) st None limit))) in
  Permutation listed (map f_pair (w_reg w)) /\ NoDup listed.
Proof.
  intros enc L ubal fbal tdec ops limit w Hn HN HL st listed.
  destruct (run_preserves_RegOK ops (init_world L ubal fbal tdec)
              (init_world_WF L ubal fbal tdec) (init_world_RegOK L ubal fbal tdec) Hn) as (_ & (_ & HP & _)).
  fold w in HP.
  destruct (world_walk_complete_nodup enc (w_reg w) limit HN HL HP) as (H1 & H2).
  split; [|exact H2]. unfold listed, st. apply Permutation_map. exact H1.
Qed.

(* three pairs created in the order (n0,t2), (t3,n0), (n0,n1); their keys are "n0t2", "n0t3", "n0n1": the listing is in
   KEY order (8, 4, 6), not creation order (4, 6, 8), and every page size lists each pair exactly once *)
Example world_walk_example :
  let enc := fun a => match a with ANative d => [110; d] | AToken t => [116; t] end in
  let reg := [ mkRec (ANative 0) (AToken 2) 4 5 6 6 [] 0 0 30;
               mkRec (AToken 3) (ANative 0) 6 7 6 6 [] 0 0 30;
               mkRec (ANative 0) (ANative 1) 8 9 6 6 [] 0 0 30 ] in
  let st := store_of enc reg in
  let pages := fun limit => map (fun pg => map f_pair (map snd pg)) (walk (rec_assets enc) (S (length st)) st None limit) in
  let listed := fun limit => map f_pair (map snd (concat (walk (rec_assets enc) (S (length st)) st None limit))) in
  map f_pair reg = [4; 6; 8] /\
  map fst st = [[110; 0; 110; 1]; [110; 0; 116; 2]; [110; 0; 116; 3]] /\
  listed (Some 1) = [8; 4; 6] /\ listed (Some 2) = [8; 4; 6] /\ listed None = [8; 4; 6] /\
  pages (Some 1) = [[8]; [4]; [6]] /\ pages (Some 2) = [[8; 4]; [6]] /\ pages None = [[8; 4; 6]].
Proof. vm_compute. repeat split; reflexivity. Qed.

Print Assumptions store_of_facts.
Print Assumptions world_walk_complete_nodup.
Print Assumptions world_walk_complete.
Print Assumptions reachable_walk_lists_every_pair_once.
Print Assumptions world_walk_example.
