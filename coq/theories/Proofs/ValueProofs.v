(* C03: the constant-product value of LP shares, reserve0*reserve1/supply^2, never decreases.
   Abstract pool states (r0, r1, T) with T the LP supply; one step kind per way a pair's reserves or
   supply can change; the arithmetic premises of each step kind are exactly what the function-level
   theorems establish (C05_share, C04_fn, C01_fn). *)
From HT Require Import Base.Prelude Num.Arith Amm.Formulas Proofs.NumProofs.

Definition pool := (N * N * N)%type.
(* value s <= value s', cross-multiplied: r0*r1/T^2 <= r0'*r1'/T'^2 *)
Definition value_le (s s' : pool) : Prop :=
  let '(r0, r1, T) := s in let '(r0', r1', T') := s' in
  r0 * r1 * (T' * T') <= r0' * r1' * (T * T).

Local Open Scope Z_scope.
Lemma provide_core (r0 r1 T d0 d1 m : Z) :
  0 <= r0 -> 0 <= r1 -> 0 < T -> 0 <= d0 -> 0 <= d1 -> 0 <= m ->
  m * r0 <= d0 * T -> m * r1 <= d1 * T ->
  r0 * r1 * ((T + m) * (T + m)) <= (r0 + d0) * (r1 + d1) * (T * T).
Proof.
  intros H0 H1 HT Hd0 Hd1 Hm A B.
  assert (E0 : (T + m) * r0 <= (r0 + d0) * T) by nia.
  assert (E1 : (T + m) * r1 <= (r1 + d1) * T) by nia.
  assert (P : ((T + m) * r0) * ((T + m) * r1) <= ((r0 + d0) * T) * ((r1 + d1) * T)).
  { apply Z.mul_le_mono_nonneg; nia. }
  nia.
Qed.

Lemma withdraw_core_v (r0 r1 T a x0 x1 : Z) :
  0 <= x0 <= r0 -> 0 <= x1 <= r1 -> 0 <= a <= T ->
  x0 * T <= r0 * a -> x1 * T <= r1 * a ->
  r0 * r1 * ((T - a) * (T - a)) <= (r0 - x0) * (r1 - x1) * (T * T).
Proof.
  intros H0 H1 Ha A B.
  assert (E0 : r0 * (T - a) <= (r0 - x0) * T) by nia.
  assert (E1 : r1 * (T - a) <= (r1 - x1) * T) by nia.
  assert (P : (r0 * (T - a)) * (r1 * (T - a)) <= ((r0 - x0) * T) * ((r1 - x1) * T)).
  { apply Z.mul_le_mono_nonneg; nia. }
  nia.
Qed.

Lemma value_trans_core (p q r tp tq tr : Z) :
  0 <= p -> 0 <= q -> 0 <= r -> 0 < tp -> 0 < tq -> 0 < tr ->
  p * (tq * tq) <= q * (tp * tp) -> q * (tr * tr) <= r * (tq * tq) -> p * (tr * tr) <= r * (tp * tp).
Proof.
  intros Hp Hq Hr Htp Htq Htr A B.
  assert (E : p * (tq * tq) * (tr * tr) <= r * (tq * tq) * (tp * tp)).
  { apply Z.le_trans with (q * (tp * tp) * (tr * tr)); nia. }
  assert (Hpos : 0 < tq * tq) by nia.
  apply Z.mul_le_mono_pos_r with (tq * tq); [exact Hpos|]. nia.
Qed.
Local Close Scope Z_scope.

Inductive pool_step : pool -> pool -> Prop :=
| ps_provide r0 r1 T d0 d1 m :
    0 < T -> m * r0 <= d0 * T -> m * r1 <= d1 * T ->
    pool_step (r0, r1, T) (r0 + d0, r1 + d1, T + m)
| ps_withdraw r0 r1 T a x0 x1 :
    a < T -> x0 <= r0 -> x1 <= r1 -> x0 * T <= r0 * a -> x1 * T <= r1 * a ->
    pool_step (r0, r1, T) (r0 - x0, r1 - x1, T - a)
| ps_swap01 r0 r1 T a n :
    n <= r1 -> r0 * r1 <= (r0 + a) * (r1 - n) -> pool_step (r0, r1, T) (r0 + a, r1 - n, T)
| ps_swap10 r0 r1 T a n :
    n <= r0 -> r0 * r1 <= (r0 - n) * (r1 + a) -> pool_step (r0, r1, T) (r0 - n, r1 + a, T)
| ps_donate r0 r1 T e0 e1 : pool_step (r0, r1, T) (r0 + e0, r1 + e1, T)
| ps_burn r0 r1 T b : b < T -> pool_step (r0, r1, T) (r0, r1, T - b).

Definition supply_of (s : pool) : N := snd s.

Theorem pool_step_value s s' : pool_step s s' -> 0 < supply_of s -> value_le s s' /\ 0 < supply_of s'.
Proof.
  intros H. destruct H; cbn [supply_of snd]; intros HT; unfold value_le.
  - split; [|lia].
    pose proof (provide_core (Z.of_N r0) (Z.of_N r1) (Z.of_N T) (Z.of_N d0) (Z.of_N d1) (Z.of_N m)) as C.
    lia.
  - split; [|lia].
    pose proof (withdraw_core_v (Z.of_N r0) (Z.of_N r1) (Z.of_N T) (Z.of_N a) (Z.of_N x0) (Z.of_N x1)) as C.
    assert (E0 : Z.of_N (r0 - x0) = (Z.of_N r0 - Z.of_N x0)%Z) by lia.
    assert (E1 : Z.of_N (r1 - x1) = (Z.of_N r1 - Z.of_N x1)%Z) by lia.
    assert (E2 : Z.of_N (T - a) = (Z.of_N T - Z.of_N a)%Z) by lia.
    assert (G : (Z.of_N r0 * Z.of_N r1 * (Z.of_N (T - a) * Z.of_N (T - a)) <=
                 Z.of_N (r0 - x0) * Z.of_N (r1 - x1) * (Z.of_N T * Z.of_N T))%Z).
    { rewrite E0, E1, E2. apply C; lia. }
    lia.
  - split; [|lia]. apply N.mul_le_mono_r. assumption.
  - split; [|lia]. apply N.mul_le_mono_r. assumption.
  - split; [|lia]. apply N.mul_le_mono_r. apply N.mul_le_mono; lia.
  - split; [|lia]. apply N.mul_le_mono_l. apply N.mul_le_mono; lia.
Qed.

Lemma value_le_refl s : value_le s s.
Proof. destruct s as [[r0 r1] T]. unfold value_le. lia. Qed.

Lemma value_le_trans s1 s2 s3 :
  0 < supply_of s1 -> 0 < supply_of s2 -> 0 < supply_of s3 ->
  value_le s1 s2 -> value_le s2 s3 -> value_le s1 s3.
Proof.
  destruct s1 as [[p0 p1] tp], s2 as [[q0 q1] tq], s3 as [[r0 r1] tr]. cbn [supply_of snd]. unfold value_le.
  intros H1 H2 H3 A B.
  pose proof (value_trans_core (Z.of_N (p0 * p1)) (Z.of_N (q0 * q1)) (Z.of_N (r0 * r1))
                (Z.of_N tp) (Z.of_N tq) (Z.of_N tr)) as C.
  lia.
Qed.

(* any finite sequence of pool steps *)
Inductive pool_steps : pool -> pool -> Prop :=
| pss_nil s : pool_steps s s
| pss_cons s1 s2 s3 : pool_step s1 s2 -> pool_steps s2 s3 -> pool_steps s1 s3.

Theorem pool_steps_value s s' : pool_steps s s' -> 0 < supply_of s -> value_le s s' /\ 0 < supply_of s'.
Proof.
  induction 1 as [s|s1 s2 s3 Hst Hrest IH]; intros HT.
  - split; [apply value_le_refl|exact HT].
  - destruct (pool_step_value s1 s2 Hst HT) as [V1 T2]. destruct (IH T2) as [V2 T3].
    split; [|exact T3]. apply (value_le_trans s1 s2 s3); assumption.
Qed.
