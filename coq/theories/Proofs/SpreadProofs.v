(* C10: assert_max_spread. *)
From HT Require Import Base.Prelude Num.Arith Amm.Formulas Amm.Guards Proofs.NumProofs Proofs.SwapSpec
  Proofs.SlippageProofs.

(* the guard after decimal normalisation, in closed form *)
Definition spread_core_spec (bp ms : option N) (o r s : N) : res unit :=
  match ms, bp with
  | Some ms, Some bp =>
      if bp =? 0 then Err Panic else
      let e := o * D / bp in
      if r <? e then (if ms <? (e - r) * D / e then Err EMaxSpread else Ok tt) else Ok tt
  | Some ms, None =>
      if r + s =? 0 then Err Panic else
      if ms <? s * D / (r + s) then Err EMaxSpread else Ok tt
  | None, _ => Ok tt
  end.

Definition spread_core (bp ms : option N) (o r s : N) : res unit :=
  match ms, bp with
  | Some ms, Some bp =>
      let* e := uint_div_dec o bp in
      if r <? e then
        let* ratio := dec_from_ratio (e - r) e in
        if ms <? ratio then Err EMaxSpread else Ok tt
      else Ok tt
  | Some ms, None =>
      let* tot := uint_add r s in
      let* ratio := dec_from_ratio s tot in
      if ms <? ratio then Err EMaxSpread else Ok tt
  | None, _ => Ok tt
  end.

Lemma assert_max_spread_unfold bp ms offer ret spread od rd :
  assert_max_spread bp ms offer ret spread od rd =
  let* ors := normalise_decimals offer ret spread od rd in
  let '(o, r, s) := ors in spread_core bp ms o r s.
Proof. reflexivity. Qed.

Lemma uint_div_dec_val u d : u < W128 -> d <> 0 -> uint_div_dec u d = Ok (u * D / d).
Proof.
  intros Hu Hd. unfold uint_div_dec. destruct (d =? 0) eqn:E; [lia|].
  destruct (u =? 0) eqn:Eu.
  { assert (u = 0) by lia. subst u. rewrite N.mul_0_l, N.div_0_l by lia. reflexivity. }
  apply uint_multiply_ratio_ok; [exact Hd | now apply lt128_mulD].
Qed.

Theorem spread_core_eq_spec bp ms o r s :
  o < W128 -> r < W128 -> s < W128 ->
  spread_core bp ms o r s = spread_core_spec bp ms o r s.
Proof.
  intros Ho Hr Hs. unfold spread_core, spread_core_spec.
  destruct ms as [ms|]; [|reflexivity]. destruct bp as [bp|].
  - destruct (bp =? 0) eqn:Eb.
    { assert (bp = 0) by lia. subst bp. reflexivity. }
    rewrite uint_div_dec_val by (try assumption; lia). cbn [bind]. cbv zeta.
    destruct (r <? o * D / bp) eqn:Ere; [|reflexivity].
    assert (He : o * D / bp <= o * D).
    { apply N.div_le_upper_bound; [lia|]. remember (o * D) as P. assert (Hb1 : 1 <= bp) by lia.
      clear - Hb1. nia. }
    remember (o * D / bp) as e eqn:Ee.
    rewrite dec_from_ratio_ok; [reflexivity | lia |].
    rewrite W256_val, D_val. rewrite D_val in He. rewrite W128_val in Ho. clear Ee. lia.
  - assert (Htot : r + s < W256) by (rewrite W256_val; rewrite W128_val in Hr, Hs; lia).
    unfold uint_add. rewrite u256_add_ok by exact Htot. cbn [bind].
    destruct (r + s =? 0) eqn:Ez.
    { assert (E : r + s = 0) by lia. rewrite E. reflexivity. }
    rewrite dec_from_ratio_ok by (auto using lt128_mulD; lia). reflexivity.
Qed.

(* ---- normalisation ---- *)
Lemma normalise_inv offer ret spread od rd o r s :
  normalise_decimals offer ret spread od rd = Ok (o, r, s) ->
  (rd < od /\ o = offer /\ r = ret * 10 ^ (od - rd) /\ s = spread * 10 ^ (od - rd)
   /\ 10 ^ (od - rd) < W64 /\ r < W128 /\ s < W128) \/
  (od < rd /\ o = offer * 10 ^ (rd - od) /\ r = ret /\ s = spread /\ 10 ^ (rd - od) < W64 /\ o < W128) \/
  (od = rd /\ o = offer /\ r = ret /\ s = spread).
Proof.
  unfold normalise_decimals, u64_pow10, u128_checked_mul.
  destruct (rd <? od) eqn:E1.
  - destruct (10 ^ (od - rd) <? W64) eqn:Ep; [|discriminate]. cbn [bind].
    destruct (ret * 10 ^ (od - rd) <? W128) eqn:Er; [|discriminate]. cbn [bind].
    destruct (spread * 10 ^ (od - rd) <? W128) eqn:Es; [|discriminate]. cbn [bind].
    intros H; injection H as <- <- <-. left. repeat split; lia.
  - destruct (od <? rd) eqn:E2.
    + destruct (10 ^ (rd - od) <? W64) eqn:Ep; [|discriminate]. cbn [bind].
      destruct (offer * 10 ^ (rd - od) <? W128) eqn:Eo; [|discriminate]. cbn [bind].
      intros H; injection H as <- <- <-. right; left. repeat split; lia.
    + intros H; injection H as <- <- <-. right; right. repeat split; lia.
Qed.

Local Open Scope Z_scope.
Lemma belief_core (o bp e r ms Dz : Z) :
  0 < bp -> 0 < Dz -> 0 <= o -> 0 <= r -> 0 <= ms -> ms + 1 <= Dz -> bp < o * Dz ->
  e * bp <= o * Dz < (e + 1) * bp ->
  (e <= r \/ (e - r) * Dz < (ms + 1) * e) ->
  (o * Dz - bp) * (Dz - ms - 1) < r * Dz * bp.
Proof.
  intros Hbp HD Ho Hr Hms Hms1 Hgt [E1 E2] [Hge|Hlt].
  - assert (1 <= e) by nia.
    assert (e * bp * Dz <= r * Dz * bp) by nia.
    assert ((o * Dz - bp) * Dz < e * bp * Dz) by nia.
    assert ((o * Dz - bp) * (Dz - ms - 1) <= (o * Dz - bp) * Dz) by nia.
    lia.
  - assert (A : e * (Dz - ms - 1) < r * Dz) by nia.
    assert (B : e * bp * (Dz - ms - 1) < r * Dz * bp) by nia.
    assert (C : (o * Dz - bp) * (Dz - ms - 1) <= e * bp * (Dz - ms - 1)) by nia.
    lia.
Qed.

Lemma belief_complete_core (o bp e r ms Dz : Z) :
  0 < bp -> 0 < Dz -> 0 <= o -> 0 <= r -> 0 <= ms -> 0 < e ->
  e * bp <= o * Dz ->
  o * (Dz - ms) <= r * bp ->
  (e - r) * Dz <= e * ms.
Proof.
  intros Hbp HD Ho Hr Hms He E1 Hc.
  assert (A : e * bp * (Dz - ms) <= r * bp * Dz).
  { destruct (Z_le_gt_dec ms Dz); [|nia]. 
    assert (e * bp * (Dz - ms) <= o * Dz * (Dz - ms)) by nia. nia. }
  nia.
Qed.
Local Close Scope Z_scope.

Section C10.
  Variables o r s : N.
  Hypothesis Ho : o < W128.
  Hypothesis Hr : r < W128.
  Hypothesis Hs : s < W128.

  (* both given: success means  r >= e  or  (e-r)/e < max_spread + 10^-18,  e = floor(o/bp) *)
  Theorem belief_sound bp ms :
    spread_core (Some bp) (Some ms) o r s = Ok tt ->
    bp <> 0 /\ let e := o * D / bp in (e <= r \/ (e - r) * D < (ms + 1) * e).
  Proof.
    rewrite spread_core_eq_spec by assumption. unfold spread_core_spec.
    destruct (bp =? 0) eqn:Eb; [discriminate|]. cbv zeta.
    destruct (r <? o * D / bp) eqn:Ere; [|intros _; split; [lia|left; lia]].
    destruct (ms <? (o * D / bp - r) * D / (o * D / bp)) eqn:Ems; [discriminate|].
    intros _. split; [lia|]. right.
    remember (o * D / bp) as e. assert (He : 0 < e) by lia.
    apply (div_le_iff ((e - r) * D) e ms He). lia.
  Qed.

  (* ... hence R > (O/p - 1)(1 - s - 10^-18), cross-multiplied (binding when O/p > 1, s < 1) *)
  Theorem belief_sound_rational bp ms :
    spread_core (Some bp) (Some ms) o r s = Ok tt ->
    ms + 1 <= D -> bp < o * D ->
    (o * D - bp) * (D - ms - 1) < r * D * bp.
  Proof.
    intros Hok Hms Hgt. destruct (belief_sound bp ms Hok) as [Hbp Hd]. cbv zeta in Hd.
    pose proof (div_sandwich (o * D) bp ltac:(lia)) as [E1 E2].
    remember (o * D / bp) as e. pose proof D_pos as HD.
    pose proof (belief_core (Z.of_N o) (Z.of_N bp) (Z.of_N e) (Z.of_N r) (Z.of_N ms) (Z.of_N D)) as C.
    clear Hok Heqe Ho Hr Hs.
    assert (Hd' : (Z.of_N e <= Z.of_N r \/ (Z.of_N e - Z.of_N r) * Z.of_N D < (Z.of_N ms + 1) * Z.of_N e)%Z).
    { destruct Hd as [Hd|Hd]; [left; lia|].
      destruct (N.le_gt_cases e r); [left; lia|right].
      replace (Z.of_N e - Z.of_N r)%Z with (Z.of_N (e - r)) by lia. lia. }
    specialize (C ltac:(lia) ltac:(lia) ltac:(lia) ltac:(lia) ltac:(lia) ltac:(lia) ltac:(lia) ltac:(lia) Hd').
    replace (Z.of_N o * Z.of_N D - Z.of_N bp)%Z with (Z.of_N (o * D - bp)) in C by lia.
    replace (Z.of_N D - Z.of_N ms - 1)%Z with (Z.of_N (D - ms - 1)) in C by lia.
    lia.
  Qed.

  (* R*p >= O*(1-s): never rejected by the guard *)
  Theorem belief_complete bp ms :
    o * (D - ms) <= r * bp ->
    spread_core (Some bp) (Some ms) o r s <> Err EMaxSpread.
  Proof.
    intros Hc. rewrite spread_core_eq_spec by assumption. unfold spread_core_spec.
    destruct (bp =? 0) eqn:Eb; [discriminate|]. cbv zeta.
    destruct (r <? o * D / bp) eqn:Ere; [|discriminate].
    pose proof (div_sandwich (o * D) bp ltac:(lia)) as [E1 _].
    remember (o * D / bp) as e. assert (He : 0 < e) by lia.
    assert (Hle : (e - r) * D / e <= ms).
    { apply (div_le_iff ((e - r) * D) e ms He).
      pose proof D_pos as HD.
      pose proof (belief_complete_core (Z.of_N o) (Z.of_N bp) (Z.of_N e) (Z.of_N r) (Z.of_N ms) (Z.of_N D)) as C.
      clear Heqe Ho Hr Hs.
      assert (Hc' : (Z.of_N o * (Z.of_N D - Z.of_N ms) <= Z.of_N r * Z.of_N bp)%Z).
      { destruct (N.le_gt_cases ms D).
        - replace (Z.of_N D - Z.of_N ms)%Z with (Z.of_N (D - ms)) by lia. lia.
        - assert (Z.of_N o * (Z.of_N D - Z.of_N ms) <= 0)%Z by nia. lia. }
      specialize (C ltac:(lia) ltac:(lia) ltac:(lia) ltac:(lia) ltac:(lia) ltac:(lia) ltac:(lia) Hc').
      replace (Z.of_N e - Z.of_N r)%Z with (Z.of_N (e - r)) in C by lia. lia. }
    destruct (ms <? (e - r) * D / e) eqn:E; [lia|discriminate].
  Qed.

  (* only max_spread given *)
  Theorem spread_sound ms :
    spread_core None (Some ms) o r s = Ok tt -> r + s <> 0 /\ s * D < (ms + 1) * (r + s).
  Proof.
    rewrite spread_core_eq_spec by assumption. unfold spread_core_spec.
    destruct (r + s =? 0) eqn:Ez; [discriminate|].
    destruct (ms <? s * D / (r + s)) eqn:E; [discriminate|]. intros _. split; [lia|].
    apply (div_le_iff (s * D) (r + s) ms); lia.
  Qed.

  Theorem spread_complete ms :
    spread_core None (Some ms) o r s = Err EMaxSpread -> ms * (r + s) < s * D.
  Proof.
    rewrite spread_core_eq_spec by assumption. unfold spread_core_spec.
    destruct (r + s =? 0) eqn:Ez; [discriminate|].
    destruct (ms <? s * D / (r + s)) eqn:E; [|discriminate]. intros _.
    assert (H : ms + 1 <= s * D / (r + s)) by lia.
    apply (div_ge_iff (s * D) (r + s) (ms + 1)) in H; [nia|lia].
  Qed.

  (* abort set of the normalised guard *)
  Theorem spread_abort_set bp ms :
    spread_core bp ms o r s = Err Panic <->
    match ms, bp with
    | Some _, Some bp => bp = 0
    | Some _, None => r + s = 0
    | None, _ => False
    end.
  Proof.
    rewrite spread_core_eq_spec by assumption. unfold spread_core_spec.
    destruct ms as [ms|]; [|split; [discriminate|tauto]].
    destruct bp as [bp|].
    - destruct (bp =? 0) eqn:Eb; [split; [lia|reflexivity]|]. cbv zeta.
      destruct (r <? o * D / bp); [destruct (ms <? _)|]; split; try discriminate; lia.
    - destruct (r + s =? 0) eqn:Ez; [split; [lia|reflexivity]|].
      destruct (ms <? _); split; try discriminate; lia.
  Qed.
End C10.

Theorem spread_none_ok bp o r s : spread_core bp None o r s = Ok tt.
Proof. destruct bp; reflexivity. Qed.
