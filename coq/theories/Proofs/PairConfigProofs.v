(* A pair's configuration is fixed at creation: over any history of operations, by anybody, an existing pair
   keeps its assets, its LP token, its first-provision minimums, its whitelist, its factory and its commission
   rate; only the recorded asset decimals may change.  And creation sets the rate that was asked for. *)
From HT Require Import Base.Prelude Num.Arith Amm.Formulas Amm.Guards World.World World.Observe
  Proofs.FactoryProofs Proofs.WFProofs Proofs.FrameProofs Proofs.AuthProofs Proofs.ReachProofs Proofs.RegHistProofs.

Definition same_pair_config (ps ps' : pairst) : Prop :=
  p_a0 ps' = p_a0 ps /\ p_a1 ps' = p_a1 ps /\ p_lp ps' = p_lp ps /\ p_wl ps' = p_wl ps /\
  p_min0 ps' = p_min0 ps /\ p_min1 ps' = p_min1 ps /\ p_comm ps' = p_comm ps /\ p_fac ps' = p_fac ps.

Lemma same_pair_config_refl ps : same_pair_config ps ps.
Proof. unfold same_pair_config. repeat split. Qed.

Lemma same_pair_config_trans a b c : same_pair_config a b -> same_pair_config b c -> same_pair_config a c.
Proof.
  unfold same_pair_config.
  intros (A1 & A2 & A3 & A4 & A5 & A6 & A7 & A8) (B1 & B2 & B3 & B4 & B5 & B6 & B7 & B8).
  repeat split; congruence.
Qed.

(* ------------------------------------------------------------------------------------ *)
(* every existing pair survives with the same configuration                              *)
(* ------------------------------------------------------------------------------------ *)
Definition cfg (w w' : world) : Prop :=
  forall p ps, w_pairs w p = Some ps -> exists ps', w_pairs w' p = Some ps' /\ same_pair_config ps ps'.

Lemma cfg_refl w : cfg w w.
Proof. intros p ps Hp. exists ps. split; [exact Hp|apply same_pair_config_refl]. Qed.

Lemma cfg_trans w1 w2 w3 : cfg w1 w2 -> cfg w2 w3 -> cfg w1 w3.
Proof.
  intros H12 H23 p ps Hp.
  destruct (H12 p ps Hp) as (ps2 & Hp2 & S12).
  destruct (H23 p ps2 Hp2) as (ps3 & Hp3 & S23).
  exists ps3. split; [exact Hp3|]. eapply same_pair_config_trans; eassumption.
Qed.

Lemma cfg_same_pairs w w' : w_pairs w' = w_pairs w -> cfg w w'.
Proof. intros E p ps Hp. exists ps. rewrite E. split; [exact Hp|apply same_pair_config_refl]. Qed.

Lemma keeps_cfg w w' : keeps w w' -> cfg w w'.
Proof. intros (_ & _ & E). apply cfg_same_pairs. exact E. Qed.

(* UpdateDecimals rewrites the pair's record with new decimals and nothing else *)
Lemma pair_update_decimals_cfg w p ps c dn d0 d1 w' :
  w_pairs w p = Some ps -> pair_update_decimals w p ps c dn d0 d1 = Ok w' -> cfg w w'.
Proof.
  intros Hp H. unfold pair_update_decimals in H.
  destruct (negb (c =? p_fac ps)); [discriminate|]. cbv zeta in H.
  destruct (asset_eqb (p_a0 ps) (ANative dn) || asset_eqb (p_a1 ps) (ANative dn));
    inversion H; subst w'; clear H; [|apply cfg_refl].
  intros q qs Hq. cbn [w_pairs set_pair].
  destruct (N.eq_dec q p) as [->|Nq].
  - rewrite WFProofs.upd_same. eexists. split; [reflexivity|].
    rewrite Hp in Hq. inversion Hq; subst qs.
    unfold same_pair_config. cbn [p_a0 p_a1 p_lp p_wl p_min0 p_min1 p_comm p_fac]. repeat split.
  - rewrite WFProofs.upd_other by exact Nq. exists qs. split; [exact Hq|apply same_pair_config_refl].
Qed.

(* the factory's walk over the registry, whatever the registry holds *)
Lemma fac_update_records_cfg dn k todo : forall w done w',
  fac_update_records w dn k todo done = Ok w' -> cfg w w'.
Proof.
  induction todo as [|r todo IH]; intros w done w' H.
  - cbn [fac_update_records] in H. inversion H; subst w'. apply cfg_same_pairs. reflexivity.
  - cbn [fac_update_records] in H. cbv beta zeta in H.
    bnd H w1 H1. bnd H w2 H2. apply IH in H.
    assert (C1 : cfg w w1).
    { destruct (asset_eqb (f_a0 r) (ANative dn)).
      - destruct (w_pairs w (f_pair r)) as [ps|] eqn:Eps; [|discriminate].
        eapply pair_update_decimals_cfg; eassumption.
      - inversion H1; subst w1. apply cfg_refl. }
    assert (C2 : cfg w1 w2).
    { destruct (asset_eqb (f_a1 r) (ANative dn)).
      - destruct (w_pairs w1 (f_pair r)) as [ps|] eqn:Eps; [|discriminate].
        eapply pair_update_decimals_cfg; eassumption.
      - inversion H2; subst w2. apply cfg_refl. }
    eapply cfg_trans; [exact C1|]. eapply cfg_trans; [exact C2|exact H].
Qed.

Lemma fac_add_native_cfg w c dn k w' : fac_add_native w c dn k = Ok w' -> cfg w w'.
Proof.
  intros H. unfold fac_add_native in H. cbv zeta in H.
  destruct (negb (c =? w_owner w)); [discriminate|].
  destruct (w_bank w (w_fac w) dn =? 0); [discriminate|].
  destruct (w_natives w dn).
  - apply fac_update_records_cfg in H.
    eapply cfg_trans; [|exact H]. apply cfg_same_pairs. reflexivity.
  - inversion H; subst w'. apply cfg_same_pairs. reflexivity.
Qed.

(* creation writes the record of the fresh address only; under WF no pair lives there yet *)
Lemma fac_create_pair_cfg w c a0 a1 wl m0 m1 cm ld w' :
  WF w -> fac_create_pair w c a0 a1 wl m0 m1 cm ld = Ok w' -> cfg w w'.
Proof.
  intros (F & _ & _) H p ps Hp.
  destruct (fac_create_pair_facts _ _ _ _ _ _ _ _ _ _ H)
    as (_ & _ & _ & d0 & d1 & _ & _ & _ & _ & _ & Hq & _).
  assert (Np : p <> w_next w).
  { intros ->. destruct (F (w_next w) (N.le_refl _)) as (_ & Hn). congruence. }
  exists ps. rewrite (Hq p Np). split; [exact Hp|apply same_pair_config_refl].
Qed.

(* ------------------------------------------------------------------------------------ *)
(* the theorems                                                                          *)
(* ------------------------------------------------------------------------------------ *)

Theorem exec_keeps_pair_config : forall w o w' p ps,
  WF w -> exec w o = Ok w' -> w_pairs w p = Some ps ->
  exists ps', w_pairs w' p = Some ps' /\ same_pair_config ps ps'.
Proof.
  intros w o w' p ps HW H Hp.
  pose proof (exec_keeps _ _ _ H) as Hk.
  revert p ps Hp. change (cfg w w').
  destruct o; try (exact (keeps_cfg _ _ Hk)); cbn [exec] in H.
  - (* OPairUpdateDecimals *)
    destruct (w_pairs w p) as [qs|] eqn:Eq; [|discriminate].
    eapply pair_update_decimals_cfg; eassumption.
  - (* OFacCreatePair *)
    eapply fac_create_pair_cfg; eassumption.
  - (* OFacAddNative *)
    eapply fac_add_native_cfg; eassumption.
Qed.

Theorem run_keeps_pair_config : forall ops w p ps,
  WF w -> w_pairs w p = Some ps ->
  exists ps', w_pairs (run w ops) p = Some ps' /\ same_pair_config ps ps'.
Proof.
  induction ops as [|o ops IH]; intros w p ps HW Hp.
  - exists ps. split; [exact Hp|apply same_pair_config_refl].
  - change (run w (o :: ops)) with (run (step w o) ops).
    assert (Hs : exists ps1, w_pairs (step w o) p = Some ps1 /\ same_pair_config ps ps1).
    { unfold step. destruct (exec w o) as [w1|e] eqn:E.
      - eapply exec_keeps_pair_config; eassumption.
      - exists ps. split; [exact Hp|apply same_pair_config_refl]. }
    destruct Hs as (ps1 & Hp1 & S1).
    destruct (IH (step w o) p ps1 (step_preserves_WF _ _ HW) Hp1) as (ps' & Hp' & S').
    exists ps'. split; [exact Hp'|]. eapply same_pair_config_trans; eassumption.
Qed.

Theorem create_pair_sets_rate : forall w caller a0 a1 wl m0 m1 comm ld w',
  exec w (OFacCreatePair caller a0 a1 wl m0 m1 comm ld) = Ok w' ->
  exists ps, w_pairs w' (w_next w) = Some ps /\
    p_comm ps = (match comm with Some c => c | None => DEFAULT_COMMISSION end) /\ p_comm ps <= D /\
    p_a0 ps = a0 /\ p_a1 ps = a1 /\ p_min0 ps = m0 /\ p_min1 ps = m1 /\ p_wl ps = wl.
Proof.
  intros w caller a0 a1 wl m0 m1 comm ld w' H. cbn [exec] in H.
  destruct (fac_create_pair_facts _ _ _ _ _ _ _ _ _ _ H)
    as (_ & _ & _ & d0 & d1 & _ & _ & Hcr & _ & Hps & _).
  cbv zeta in Hcr, Hps.
  eexists. split; [exact Hps|].
  cbn [p_comm p_a0 p_a1 p_min0 p_min1 p_wl].
  split; [reflexivity|]. split; [exact Hcr|]. repeat split.
Qed.

(* the rate every later swap on that pair is priced with is the rate asked for at creation, whatever happened in between *)
Theorem rate_fixed_at_creation : forall ops w caller a0 a1 wl m0 m1 comm ld w',
  WF w -> exec w (OFacCreatePair caller a0 a1 wl m0 m1 comm ld) = Ok w' ->
  exists ps, w_pairs (run w' ops) (w_next w) = Some ps /\
    p_comm ps = (match comm with Some c => c | None => DEFAULT_COMMISSION end) /\ p_a0 ps = a0 /\ p_a1 ps = a1.
Proof.
  intros ops w caller a0 a1 wl m0 m1 comm ld w' HW H.
  destruct (create_pair_sets_rate _ _ _ _ _ _ _ _ _ _ H) as (ps & Hps & Hc & _ & A0 & A1 & _).
  pose proof (exec_preserves_WF _ _ _ HW H) as HW'.
  destruct (run_keeps_pair_config ops w' (w_next w) ps HW' Hps) as (ps' & Hps' & (S0 & S1 & _ & _ & _ & _ & Sc & _)).
  exists ps'. split; [exact Hps'|].
  split; [congruence|]. split; congruence.
Qed.

(* ------------------------------------------------------------------------------------ *)
(* non-vacuity: a concrete history                                                       *)
(* ------------------------------------------------------------------------------------ *)
(* every operation of the history succeeds *)
Fixpoint all_ok (w : world) (ops : list op) : bool :=
  match ops with
  | [] => true
  | o :: rest => match exec w o with Ok w' => all_ok w' rest | Err _ => false end
  end.

Definition pc_w0 : world := init_world (mkLayout 3 2 2 2) 1000000000000 1000 (fun _ => 6).
(* user 1000 (the factory owner) registers denom 0 with 6 decimals, creates the pair 4 = (native 0, token 2) with
   LP token 5 and commission rate 0.002375, and provides 10^6 of each asset *)
Definition pc_setup : list op :=
  [ OFacAddNative 1000 0 6;
    OFacCreatePair 1000 (ANative 0) (AToken 2) [1000] 0 0 (Some 2375000000000000) None;
    OIncreaseAllowance 2 1000 4 1000000;
    OProvide 4 1000 [(0, 1000000)] (ANative 0) 1000000 (AToken 2) 1000000 None None ].
(* the owner re-registers denom 0 with 8 decimals (the factory tells the pair), then user 1001 swaps *)
Definition pc_later : list op :=
  [ OFacAddNative 1000 0 8;
    OSwap 4 1001 [(0, 5000)] (ANative 0) 5000 None None None ].

Definition pc_view (w : world) (p : addr) : option (asset * asset * addr * N * N * N) :=
  match w_pairs w p with
  | Some ps => Some (p_a0 ps, p_a1 ps, p_lp ps, p_comm ps, p_d0 ps, p_d1 ps)
  | None => None
  end.

Example pair_config_example :
  WF pc_w0 /\
  all_ok pc_w0 (pc_setup ++ pc_later) = true /\
  pc_view (run pc_w0 pc_setup) 4 = Some (ANative 0, AToken 2, 5, 2375000000000000, 6, 6) /\
  pc_view (run pc_w0 (pc_setup ++ pc_later)) 4 = Some (ANative 0, AToken 2, 5, 2375000000000000, 8, 6) /\
  (* the swap was priced with that rate: 5000 in, 4964 out, commission 11 = floor(4975 * 0.002375) *)
  w_bank (run pc_w0 (pc_setup ++ pc_later)) 4 0 = 1005000 /\
  asset_balance (run pc_w0 (pc_setup ++ pc_later)) (AToken 2) 4 = Ok 995036 /\
  q_simulation (run pc_w0 pc_setup) 4 (ANative 0) 5000 = Ok (4964, 25, 11).
Proof.
  split; [apply init_world_WF|].
  repeat split; vm_compute; reflexivity.
Qed.

Print Assumptions exec_keeps_pair_config.
Print Assumptions run_keeps_pair_config.
Print Assumptions create_pair_sets_rate.
Print Assumptions rate_fixed_at_creation.
Print Assumptions pair_config_example.
