(* Characterising lemmas for the arithmetic model (Num/Arith.v). *)
From HT Require Import Base.Prelude Num.Arith.

Lemma W64_val : W64 = 18446744073709551616. Proof. reflexivity. Qed.
Lemma W128_val : W128 = 340282366920938463463374607431768211456. Proof. reflexivity. Qed.
Lemma W256_val : W256 = 115792089237316195423570985008687907853269984665640564039457584007913129639936.
Proof. reflexivity. Qed.
Lemma D_val : D = 1000000000000000000. Proof. reflexivity. Qed.

Lemma div_sandwich (p q : N) : 0 < q -> (p / q) * q <= p /\ p < (p / q + 1) * q.
Proof. intros Hq. nia. Qed.

Lemma div_le_iff (p q t : N) : 0 < q -> (p / q <= t <-> p < (t + 1) * q).
Proof. intros Hq; split; intros H; nia. Qed.

Lemma div_ge_iff (p q t : N) : 0 < q -> (t <= p / q <-> t * q <= p).
Proof. intros Hq; split; intros H; nia. Qed.

Lemma div_unique_sandwich (p q r : N) : 0 < q -> r * q <= p -> p < (r + 1) * q -> p / q = r.
Proof. intros Hq H1 H2. nia. Qed.

Lemma le_mul_pos_l (P q : N) : q <> 0 -> P <= q * P.
Proof. intros Hq. nia. Qed.

Lemma div_le_self (p q : N) : p / q <= p.
Proof. destruct (N.eq_dec q 0) as [->|Hq]; [destruct p; cbn; lia|]. apply N.div_le_upper_bound; [exact Hq|]. now apply le_mul_pos_l. Qed.

Lemma mul_lt_W256 (a b : N) : a < W128 -> b < W128 -> a * b < W256.
Proof. intros Ha Hb. rewrite <- W128_sq. nia. Qed.

(* ---- the limb-level narrowing is value-level narrowing ---- *)
Lemma limbs_value_of (n : N) : n < W256 -> limbs_value (limbs_of n) = n.
Proof.
  intros Hn. unfold limbs_value, limbs_of. rewrite W256_val in Hn. rewrite W64_val. lia.
Qed.

Lemma uint_to_u128_spec (n : N) :
  n < W256 -> uint_to_u128 n = if n <? W128 then Ok n else Err Panic.
Proof.
  intros Hn. unfold uint_to_u128, uint_to_u128_limbs, limbs_of.
  rewrite W256_val in Hn. rewrite W64_val, W128_val.
  destruct (n <? 340282366920938463463374607431768211456) eqn:E.
  - assert (H2 : (n / (18446744073709551616 * 18446744073709551616)) mod 18446744073709551616 = 0) by lia.
    assert (H3 : n / (18446744073709551616 * 18446744073709551616 * 18446744073709551616) = 0) by lia.
    rewrite H2, H3. cbn [N.eqb andb]. change (0 =? 0) with true. cbn [andb]. f_equal. lia.
  - destruct ((n / (18446744073709551616 * 18446744073709551616)) mod 18446744073709551616 =? 0) eqn:E2;
    destruct (n / (18446744073709551616 * 18446744073709551616 * 18446744073709551616) =? 0) eqn:E3;
    cbn [andb]; try reflexivity. exfalso. lia.
Qed.

Lemma uint_from_u128_value (a : N) : a < W128 -> limbs_value (uint_from_u128 a) = a.
Proof.
  intros Ha. unfold uint_from_u128, split_u128, limbs_value. rewrite W128_val in Ha. rewrite W64_val. lia.
Qed.
