(* Liveness of an entitled withdrawal (C20) and the structure of a successful provision (C05). *)
From HT Require Import Base.Prelude Num.Arith Amm.Formulas Amm.Guards World.World Proofs.NumProofs Proofs.LiquidityProofs Proofs.LedgerProofs.

(* ---------- C20: arithmetic core ---------- *)
Theorem entitled_refund_positive : forall r a T x,
  T <> 0 -> x = r * (a * D / T) / D -> r * T + 2 * T * D <= r * a * D -> 2 <= x.
Proof.
  intros r a T x HT Hx H.
  assert (HT' : 0 < T) by lia.
  pose proof (div_sandwich (a * D) T HT') as [R1 R2].
  remember (a * D / T) as rho eqn:Erho.
  pose proof (div_sandwich (r * rho) D D_pos) as [A1 A2].
  rewrite <- Hx in A1, A2.
  pose proof D_pos as HD.
  clear Hx Erho.
  destruct (withdraw_core (Z.of_N r) (Z.of_N a) (Z.of_N T) (Z.of_N rho) (Z.of_N x) (Z.of_N D)) as [_ B]; try lia.
  assert (B' : r * a * D < (x + 1) * T * D + r * T) by lia.
  clear B R1 R2 A1 A2.
  assert (E : 2 * (T * D) < (x + 1) * (T * D)) by lia.
  assert (P : 0 < T * D) by nia.
  clear - E P. remember (T * D) as k. clear Heqk. nia.
Qed.

(* ---------- helpers: queries and single operations that cannot fail ---------- *)
Lemma asset_balance_ok w x who :
  (forall t, x = AToken t -> w_tokens w t <> None) -> asset_balance w x who = Ok (bal w x who).
Proof.
  intros H. destruct x as [d|t]; cbn [asset_balance bal]; [reflexivity|].
  destruct (w_tokens w t) eqn:E; [reflexivity|]. exfalso. apply (H t); [reflexivity | exact E].
Qed.

Lemma pay_asset_ok w from x n to :
  n <> 0 -> n <= bal w x from -> from <> to -> bal w x to + n < W128 ->
  (forall t, x = AToken t -> w_tokens w t <> None) ->
  exists w', pay_asset w from x n to = Ok w'.
Proof.
  intros Hn Hle Hft Hcr Hex. destruct x as [d|t]; cbn [pay_asset bal] in *.
  - unfold bank_send, nonzero_coins. cbn [filter snd].
    destruct (n =? 0) eqn:E0; [lia|]. cbn [negb bank_sub_all].
    destruct (n <=? w_bank w from d) eqn:E1; [|lia]. cbn [bind bank_add_all].
    rewrite upd2_other by (left; congruence).
    destruct (w_bank w to d + n <? W128) eqn:E2; [|lia]. cbn [bind]. eauto.
  - unfold with_token. destruct (w_tokens w t) as [tk|] eqn:E; [|exfalso; apply (Hex t); [reflexivity | exact E]].
    unfold tok_transfer, tok_debit. destruct (n =? 0) eqn:E0; [lia|].
    destruct (n <=? t_bal tk from) eqn:E1; [|lia]. cbn [bind]. unfold tok_credit.
    cbn [t_bal t_allow t_supply t_minter t_decimals].
    rewrite upd_other by congruence.
    destruct (t_bal tk to + n <? W128) eqn:E2; [|lia]. cbn [bind]. eauto.
Qed.

Lemma burn_ok w ta p n tk :
  w_tokens w ta = Some tk -> n <> 0 -> n <= t_bal tk p -> n <= t_supply tk ->
  exists w', with_token w ta (fun t => tok_burn t p n) = Ok w'.
Proof.
  intros E Hn Hb Hs. unfold with_token. rewrite E. unfold tok_burn, tok_debit.
  destruct (n =? 0) eqn:E0; [lia|]. destruct (n <=? t_bal tk p) eqn:E1; [|lia].
  cbn [bind t_bal t_allow t_supply t_minter t_decimals].
  destruct (n <=? t_supply tk) eqn:E2; [|lia]. cbn [bind]. eauto.
Qed.

Lemma same_config_exists w w' t : same_config w w' -> w_tokens w t <> None -> w_tokens w' t <> None.
Proof.
  intros (_ & _ & _ & _ & _ & _ & _ & _ & C) H. specialize (C t).
  destruct (w_tokens w t); [|congruence]. destruct (w_tokens w' t); [discriminate | contradiction].
Qed.

Lemma same_config_token w w' t tk : same_config w w' -> w_tokens w t = Some tk ->
  exists tk', w_tokens w' t = Some tk' /\ t_supply tk' = t_supply tk.
Proof.
  intros (_ & _ & _ & _ & _ & _ & _ & Sp & C) H. specialize (C t). specialize (Sp t).
  unfold supply in Sp. rewrite H in C, Sp.
  destruct (w_tokens w' t) as [tk'|]; [|contradiction]. eauto.
Qed.

(* ---------- C20: the handler ---------- *)
Theorem pair_withdraw_succeeds : forall w p ps sender a lt,
  w_tokens w (p_lp ps) = Some lt ->
  1 <= a -> a <= t_supply lt -> a <= t_bal lt p ->
  asset_eqb (p_a0 ps) (p_a1 ps) = false ->
  asset_eqb (p_a0 ps) (AToken (p_lp ps)) = false -> asset_eqb (p_a1 ps) (AToken (p_lp ps)) = false ->
  sender <> p ->
  (forall t, p_a0 ps = AToken t \/ p_a1 ps = AToken t -> w_tokens w t <> None) ->
  bal w (p_a0 ps) p < W128 -> bal w (p_a1 ps) p < W128 ->
  bal w (p_a0 ps) sender + bal w (p_a0 ps) p < W128 ->
  bal w (p_a1 ps) sender + bal w (p_a1 ps) p < W128 ->
  bal w (p_a0 ps) p * t_supply lt + 2 * t_supply lt * D <= bal w (p_a0 ps) p * a * D ->
  bal w (p_a1 ps) p * t_supply lt + 2 * t_supply lt * D <= bal w (p_a1 ps) p * a * D ->
  exists w', pair_withdraw w p ps sender a = Ok w'.
Proof.
  intros w p ps sender a lt Hlt Ha1 HaT Hab H01 H0l H1l Hsp Hex R0 R1 C0 C1 E0 E1.
  assert (Hex0 : forall t, p_a0 ps = AToken t -> w_tokens w t <> None) by (intros t Ht; apply Hex; left; exact Ht).
  assert (Hex1 : forall t, p_a1 ps = AToken t -> w_tokens w t <> None) by (intros t Ht; apply Hex; right; exact Ht).
  unfold pair_withdraw.
  rewrite (asset_balance_ok w (p_a0 ps) p Hex0). cbn [bind].
  rewrite (asset_balance_ok w (p_a1 ps) p Hex1). cbn [bind].
  unfold token_supply. rewrite Hlt. cbn [bind].
  assert (HT : t_supply lt <> 0) by lia.
  destruct (withdraw_total _ _ a (t_supply lt) R0 R1 HT HaT) as (x0 & x1 & Hw).
  rewrite Hw. cbn [bind].
  destruct (withdraw_inv _ _ _ _ _ _ Hw) as (_ & X0 & X1).
  destruct (withdraw_le_reserve _ _ _ _ _ _ Hw HaT) as [L0 L1].
  pose proof (entitled_refund_positive _ _ _ _ HT X0 E0) as P0.
  pose proof (entitled_refund_positive _ _ _ _ HT X1 E1) as P1.
  clear X0 X1 E0 E1 Hw.
  assert (H10 : asset_eqb (p_a1 ps) (p_a0 ps) = false) by (rewrite asset_eqb_sym; exact H01).
  assert (Hl0 : asset_eqb (AToken (p_lp ps)) (p_a0 ps) = false) by (rewrite asset_eqb_sym; exact H0l).
  assert (Hl1 : asset_eqb (AToken (p_lp ps)) (p_a1 ps) = false) by (rewrite asset_eqb_sym; exact H1l).
  assert (Hps : p <> sender) by congruence.
  (* first payment *)
  destruct (pay_asset_ok w p (p_a0 ps) x0 sender) as [w1 Hp1];
    [lia | exact L0 | exact Hps | lia | exact Hex0 |].
  rewrite Hp1. cbn [bind].
  destruct (pay_asset_effect _ _ _ _ _ _ Hp1) as (_ & _ & Cf1 & B1).
  (* second payment *)
  destruct (pay_asset_ok w1 p (p_a1 ps) x1 sender) as [w2 Hp2].
  { lia. }
  { rewrite B1, H10. exact L1. }
  { exact Hps. }
  { rewrite B1, H10. lia. }
  { intros t Ht. eapply same_config_exists; [exact Cf1 | apply Hex1; exact Ht]. }
  rewrite Hp2. cbn [bind].
  destruct (pay_asset_effect _ _ _ _ _ _ Hp2) as (_ & _ & Cf2 & B2).
  (* burn *)
  destruct (same_config_token _ _ _ _ (same_config_trans _ _ _ Cf1 Cf2) Hlt) as (lt2 & Hlt2 & Hs2).
  assert (Hb2 : t_bal lt2 p = t_bal lt p).
  { pose proof (B2 (AToken (p_lp ps)) p) as Q. rewrite Hl1, B1, Hl0 in Q.
    cbn [bal] in Q. rewrite Hlt2, Hlt in Q. exact Q. }
  apply (burn_ok w2 (p_lp ps) p a lt2 Hlt2); [lia | rewrite Hb2; exact Hab | rewrite Hs2; exact HaT].
Qed.

(* ---------- C20: the whole transaction ---------- *)
Theorem withdraw_tx_succeeds : forall w p ps holder a lt,
  w_pairs w p = Some ps -> w_tokens w (p_lp ps) = Some lt ->
  holder <> p -> 1 <= a -> a <= t_bal lt holder -> t_bal lt holder <= t_supply lt ->
  t_bal lt p + a < W128 ->
  asset_eqb (p_a0 ps) (p_a1 ps) = false ->
  asset_eqb (p_a0 ps) (AToken (p_lp ps)) = false -> asset_eqb (p_a1 ps) (AToken (p_lp ps)) = false ->
  (forall t, p_a0 ps = AToken t \/ p_a1 ps = AToken t -> w_tokens w t <> None) ->
  bal w (p_a0 ps) p < W128 -> bal w (p_a1 ps) p < W128 ->
  bal w (p_a0 ps) holder + bal w (p_a0 ps) p < W128 ->
  bal w (p_a1 ps) holder + bal w (p_a1 ps) p < W128 ->
  bal w (p_a0 ps) p * t_supply lt + 2 * t_supply lt * D <= bal w (p_a0 ps) p * a * D ->
  bal w (p_a1 ps) p * t_supply lt + 2 * t_supply lt * D <= bal w (p_a1 ps) p * a * D ->
  exists w', cw20_send w (p_lp ps) holder p a HWithdraw = Ok w'.
Proof.
  intros w p ps holder a lt Hp Hlt Hhp Ha1 Hah HhT Hcr H01 H0l H1l Hex R0 R1 C0 C1 E0 E1.
  unfold cw20_send.
  destruct (pay_asset_ok w holder (AToken (p_lp ps)) a p) as [w1 Hs].
  { lia. }
  { cbn [bal]. rewrite Hlt. exact Hah. }
  { exact Hhp. }
  { cbn [bal]. rewrite Hlt. exact Hcr. }
  { intros t Ht. inversion Ht. subst t. rewrite Hlt. discriminate. }
  cbn [pay_asset] in Hs. rewrite Hs. cbn [bind].
  rewrite (with_token_pairs _ _ _ _ Hs), Hp.
  cbn [pair_receive]. rewrite N.eqb_refl. cbn [negb].
  destruct (with_token_inv _ _ _ _ Hs) as (t0 & lt1 & Ht0 & Hf & ->).
  rewrite Hlt in Ht0. inversion Ht0. subst t0. clear Ht0.
  apply tok_transfer_effect in Hf. destruct Hf as (_ & _ & _ & Hsup & _ & _ & Hb).
  assert (Ehp : (holder =? p) = false) by (apply N.eqb_neq; exact Hhp).
  assert (Eph : (p =? holder) = false) by (apply N.eqb_neq; congruence).
  assert (Bo : forall x who, asset_eqb x (AToken (p_lp ps)) = false ->
                 bal (set_token w (p_lp ps) lt1) x who = bal w x who).
  { intros x who Hx. rewrite set_token_bal, Hx. reflexivity. }
  apply (pair_withdraw_succeeds (set_token w (p_lp ps) lt1) p ps holder a lt1).
  - cbn [set_token w_tokens]. apply upd_same.
  - exact Ha1.
  - rewrite Hsup. lia.
  - rewrite Hb, Ehp, Eph, N.eqb_refl. lia.
  - exact H01.
  - exact H0l.
  - exact H1l.
  - exact Hhp.
  - intros t Ht. cbn [set_token w_tokens]. unfold upd.
    destruct (t =? p_lp ps); [discriminate | apply Hex; exact Ht].
  - rewrite Bo by exact H0l. exact R0.
  - rewrite Bo by exact H1l. exact R1.
  - rewrite !Bo by exact H0l. exact C0.
  - rewrite !Bo by exact H1l. exact C1.
  - rewrite Bo by exact H0l. rewrite Hsup. exact E0.
  - rewrite Bo by exact H1l. rewrite Hsup. exact E1.
Qed.

(* ---------- C05: structure of a successful provision ---------- *)
Lemma pool_before_inv (b : bool) r d q :
  (if b then u128_checked_sub r d else Ok r) = Ok q ->
  q = (if b then r - d else r) /\ (b = true -> d <= r).
Proof.
  destruct b; intros H.
  - unfold u128_checked_sub in H. destruct (d <=? r) eqn:E; [|discriminate].
    apply N.leb_le in E. inversion H. split; [reflexivity | intros _; exact E].
  - inversion H. split; [reflexivity | discriminate].
Qed.

Theorem pair_provide_structure : forall w p ps c funds l0 n0 l1 n1 tol rcv w',
  pair_provide w p ps c funds l0 n0 l1 n1 tol rcv = Ok w' ->
  exists r0 r1 d0 d1 q0 q1 total share,
    asset_balance w (p_a0 ps) p = Ok r0 /\ asset_balance w (p_a1 ps) p = Ok r1 /\
    deposit_of (p_a0 ps) l0 n0 l1 n1 = Ok d0 /\ deposit_of (p_a1 ps) l0 n0 l1 n1 = Ok d1 /\
    (q0 = if asset_is_native (p_a0 ps) then r0 - d0 else r0) /\ (asset_is_native (p_a0 ps) = true -> d0 <= r0) /\
    (q1 = if asset_is_native (p_a1 ps) then r1 - d1 else r1) /\ (asset_is_native (p_a1 ps) = true -> d1 <= r1) /\
    assert_slippage_tolerance tol d0 d1 q0 q1 = Ok tt /\
    token_supply w (p_lp ps) = Ok total /\
    lp_share (mem_addr c (p_wl ps)) (p_min0 ps) (p_min1 ps) total d0 d1 q0 q1 = Ok share /\ share <> 0 /\
    exists w1 w2,
      (match p_a0 ps with AToken ta => with_token w ta (fun t => tok_transfer_from t p c p d0) | ANative _ => Ok w end) = Ok w1 /\
      (match p_a1 ps with AToken ta => with_token w1 ta (fun t => tok_transfer_from t p c p d1) | ANative _ => Ok w1 end) = Ok w2 /\
      let r := match rcv with Some x => x | None => c end in
      if total =? 0 then
        exists w3, with_token w2 (p_lp ps) (fun t => tok_mint t p (p_lp ps) 1) = Ok w3 /\ 1 <= share /\
                   with_token w3 (p_lp ps) (fun t => tok_mint t p r (share - 1)) = Ok w'
      else with_token w2 (p_lp ps) (fun t => tok_mint t p r share) = Ok w'.
Proof.
  intros w p ps c funds l0 n0 l1 n1 tol rcv w' H. unfold pair_provide in H.
  apply bind_ok in H. destruct H as (u0 & _ & H).
  apply bind_ok in H. destruct H as (u1 & _ & H).
  apply bind_ok in H. destruct H as (r0 & Hr0 & H).
  apply bind_ok in H. destruct H as (r1 & Hr1 & H).
  apply bind_ok in H. destruct H as (d0 & Hd0 & H).
  apply bind_ok in H. destruct H as (d1 & Hd1 & H).
  apply bind_ok in H. destruct H as (s0 & _ & H).
  apply bind_ok in H. destruct H as (s1 & _ & H).
  apply bind_ok in H. destruct H as (prod & _ & H).
  apply bind_ok in H. destruct H as (u2 & _ & H).
  apply bind_ok in H. destruct H as (q0 & Hq0 & H).
  apply bind_ok in H. destruct H as (q1 & Hq1 & H).
  apply bind_ok in H. destruct H as (u3 & Hsl & H). destruct u3.
  apply bind_ok in H. destruct H as (total & Htot & H).
  apply bind_ok in H. destruct H as (share & Hsh & H).
  destruct (lp_share (mem_addr c (p_wl ps)) (p_min0 ps) (p_min1 ps) total d0 d1 q0 q1) as [sh|e] eqn:Els;
    [|discriminate].
  inversion Hsh. subst sh. clear Hsh.
  destruct (share =? 0) eqn:Es; [discriminate|]. apply N.eqb_neq in Es.
  apply bind_ok in H. destruct H as (w1 & Hw1 & H).
  apply bind_ok in H. destruct H as (w2 & Hw2 & H).
  apply pool_before_inv in Hq0. destruct Hq0 as [Eq0 Lq0].
  apply pool_before_inv in Hq1. destruct Hq1 as [Eq1 Lq1].
  exists r0, r1, d0, d1, q0, q1, total, share.
  split; [exact Hr0|]. split; [exact Hr1|]. split; [exact Hd0|]. split; [exact Hd1|].
  split; [exact Eq0|]. split; [exact Lq0|]. split; [exact Eq1|]. split; [exact Lq1|].
  split; [exact Hsl|]. split; [exact Htot|]. split; [exact Els|]. split; [exact Es|].
  exists w1, w2. split; [exact Hw1|]. split; [exact Hw2|].
  cbv zeta.
  destruct (total =? 0) eqn:Et.
  - apply bind_ok in H. destruct H as (w3 & Hw3 & H).
    apply bind_ok in H. destruct H as (sh' & Hsub & H).
    unfold u128_checked_sub in Hsub. destruct (1 <=? share) eqn:E1; [|discriminate].
    apply N.leb_le in E1. inversion Hsub. subst sh'. clear Hsub.
    exists w3. split; [exact Hw3|]. split; [exact E1 | exact H].
  - exact H.
Qed.

(* ---------- C05: the minted supply ---------- *)
Lemma pull_other w x f lp w1 :
  (match x with AToken ta => with_token w ta f | ANative _ => Ok w end) = Ok w1 ->
  asset_eqb x (AToken lp) = false -> w_tokens w1 lp = w_tokens w lp.
Proof.
  intros H Hx. destruct x as [d|ta].
  - inversion H. reflexivity.
  - cbn [asset_eqb] in Hx. apply with_token_inv in H. destruct H as (t & t' & _ & _ & ->).
    cbn [set_token w_tokens]. apply upd_other. apply N.eqb_neq in Hx. congruence.
Qed.

Lemma mint_effect w lp s r n w' : with_token w lp (fun t => tok_mint t s r n) = Ok w' ->
  exists tk tk', w_tokens w lp = Some tk /\ w_tokens w' lp = Some tk' /\
    t_supply tk' = t_supply tk + n /\
    forall a, t_bal tk' a = if a =? r then t_bal tk a + n else t_bal tk a.
Proof.
  intros H. apply with_token_inv in H. destruct H as (t & t' & Ht & Hf & ->).
  exists t, t'. split; [exact Ht|]. split; [cbn [set_token w_tokens]; apply upd_same|].
  unfold tok_mint in Hf. destruct (n =? 0); [discriminate|].
  destruct (t_minter t) as [m|]; [|discriminate].
  destruct (negb (m =? s)); [discriminate|].
  destruct (t_supply t + n <? W128); [|discriminate].
  unfold tok_credit in Hf. cbn [t_bal t_allow t_supply t_minter t_decimals] in Hf.
  destruct (t_bal t r + n <? W128); [|discriminate].
  inversion Hf. subst t'. clear Hf. cbn [t_bal t_supply].
  split; [reflexivity|]. intros a. unfold upd.
  destruct (a =? r) eqn:Ea; [apply N.eqb_eq in Ea; subst a|]; reflexivity.
Qed.

Theorem pair_provide_supply : forall w p ps c funds l0 n0 l1 n1 tol rcv w',
  pair_provide w p ps c funds l0 n0 l1 n1 tol rcv = Ok w' ->
  asset_eqb (p_a0 ps) (AToken (p_lp ps)) = false -> asset_eqb (p_a1 ps) (AToken (p_lp ps)) = false ->
  exists total share, token_supply w (p_lp ps) = Ok total /\ share <> 0 /\ supply w' (p_lp ps) = total + share /\
    (total = 0 -> bal w' (AToken (p_lp ps)) (p_lp ps) = bal w (AToken (p_lp ps)) (p_lp ps) + 1 \/
                  (match rcv with Some x => x | None => c end) = p_lp ps).
Proof.
  intros w p ps c funds l0 n0 l1 n1 tol rcv w' H H0l H1l.
  apply pair_provide_structure in H.
  destruct H as (r0 & r1 & d0 & d1 & q0 & q1 & total & share & _ & _ & _ & _ & _ & _ & _ & _ & _ &
                 Htot & _ & Hsh & w1 & w2 & Hw1 & Hw2 & H).
  cbv zeta in H.
  exists total, share. split; [exact Htot|]. split; [exact Hsh|].
  pose proof (pull_other _ _ _ _ _ Hw1 H0l) as T1.
  pose proof (pull_other _ _ _ _ _ Hw2 H1l) as T2.
  rewrite T1 in T2. clear T1 Hw1 Hw2.
  unfold token_supply in Htot.
  destruct (w_tokens w (p_lp ps)) as [lt|] eqn:Hlt; [|discriminate].
  inversion Htot. subst total. clear Htot.
  unfold supply. cbn [bal]. rewrite Hlt.
  destruct (t_supply lt =? 0) eqn:Et.
  - destruct H as (w3 & M1 & L1 & M2).
    apply mint_effect in M1. destruct M1 as (tk & tk3 & A1 & A3 & S3 & B3).
    apply mint_effect in M2. destruct M2 as (tk3' & tk' & A3' & A' & S' & B').
    rewrite T2 in A1. inversion A1. subst tk. clear A1.
    rewrite A3 in A3'. inversion A3'. subst tk3'. clear A3'.
    rewrite A'. split; [rewrite S', S3; lia|].
    intros _. remember (match rcv with Some x => x | None => c end) as r eqn:Hr. clear Hr.
    destruct (p_lp ps =? r) eqn:Er.
    + right. apply N.eqb_eq in Er. symmetry. exact Er.
    + left. rewrite B', Er, B3, N.eqb_refl. reflexivity.
  - apply mint_effect in H. destruct H as (tk & tk' & A1 & A' & S' & _).
    rewrite T2 in A1. inversion A1. subst tk. clear A1.
    rewrite A'. split; [exact S'|]. intros E0. apply N.eqb_neq in Et. contradiction.
Qed.

Print Assumptions entitled_refund_positive.
Print Assumptions pair_withdraw_succeeds.
Print Assumptions withdraw_tx_succeeds.
Print Assumptions pair_provide_structure.
Print Assumptions pair_provide_supply.
