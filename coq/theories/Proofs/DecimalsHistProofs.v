(* C17 at history level: after ANY history of operations (the factory contract's own address submitting nothing),
   every pair's recorded decimals are the TRUE ones - for a native asset the value currently registered in the
   factory, for a cw20 asset the token's own decimals - and the factory's records say the same. *)
From HT Require Import Base.Prelude Num.Arith Amm.Formulas Amm.Guards World.World World.Observe
  Proofs.FactoryProofs Proofs.WFProofs Proofs.FrameProofs Proofs.AuthProofs Proofs.ReachProofs
  Proofs.RegHistProofs Proofs.InitProofs.

Definition slot_true (w : world) (a : asset) (d : N) : Prop :=
  match a with
  | ANative dn => w_natives w dn = Some d
  | AToken t => exists tk, w_tokens w t = Some tk /\ t_decimals tk = d
  end.

(* every pair records the true decimals of both of its assets, and every pair that exists is registered *)
Definition DecOK (w : world) : Prop :=
  (forall p ps, w_pairs w p = Some ps -> slot_true w (p_a0 ps) (p_d0 ps) /\ slot_true w (p_a1 ps) (p_d1 ps)) /\
  (forall p ps, w_pairs w p = Some ps -> exists r, In r (w_reg w) /\ f_pair r = p).

(* ------------------------------------------------------------------------------------ *)
(* [dk]: the registered native decimals are untouched and every existing token keeps its *)
(* decimals (balances, allowances, supply may change; new tokens may appear)             *)
(* ------------------------------------------------------------------------------------ *)
Definition dk (w w' : world) : Prop :=
  w_natives w' = w_natives w /\
  forall t tk, w_tokens w t = Some tk -> exists tk', w_tokens w' t = Some tk' /\ t_decimals tk' = t_decimals tk.

Lemma dk_same w w' : w_natives w' = w_natives w -> w_tokens w' = w_tokens w -> dk w w'.
Proof. intros Hn Ht. split; [exact Hn|]. intros t tk H. exists tk. rewrite Ht. split; [exact H|reflexivity]. Qed.

Lemma dk_refl w : dk w w.
Proof. apply dk_same; reflexivity. Qed.

Lemma dk_trans w1 w2 w3 : dk w1 w2 -> dk w2 w3 -> dk w1 w3.
Proof.
  intros (A1 & A2) (B1 & B2). split; [congruence|].
  intros t tk H. destruct (A2 t tk H) as (tk2 & H2 & E2). destruct (B2 t tk2 H2) as (tk3 & H3 & E3).
  exists tk3. split; [exact H3|congruence].
Qed.

Ltac dk_chain :=
  first [ solve [apply dk_same; reflexivity]
        | eassumption
        | match goal with
          | H : dk ?a ?b |- dk ?a _ => apply (dk_trans _ _ _ H); dk_chain
          end ].

(* ---- cw20 operations never change the decimals ---- *)
Lemma tok_debit_dec t a n t' : tok_debit t a n = Ok t' -> t_decimals t' = t_decimals t.
Proof. intros H. unfold tok_debit in H. inv_all. reflexivity. Qed.
Lemma tok_credit_dec t a n t' : tok_credit t a n = Ok t' -> t_decimals t' = t_decimals t.
Proof. intros H. unfold tok_credit in H. inv_all. reflexivity. Qed.

Ltac tokdec :=
  cbv zeta in *; inv_all;
  repeat match goal with
         | H : tok_debit _ _ _ = Ok _ |- _ => apply tok_debit_dec in H
         | H : tok_credit _ _ _ = Ok _ |- _ => apply tok_credit_dec in H
         end;
  cbn [t_decimals] in *; congruence.

Lemma tok_transfer_dec t s r n t' : tok_transfer t s r n = Ok t' -> t_decimals t' = t_decimals t.
Proof. intros H. unfold tok_transfer in H. tokdec. Qed.
Lemma tok_transfer_from_dec t sp o r n t' : tok_transfer_from t sp o r n = Ok t' -> t_decimals t' = t_decimals t.
Proof. intros H. unfold tok_transfer_from in H. tokdec. Qed.
Lemma tok_mint_dec t s r n t' : tok_mint t s r n = Ok t' -> t_decimals t' = t_decimals t.
Proof. intros H. unfold tok_mint in H. tokdec. Qed.
Lemma tok_burn_dec t s n t' : tok_burn t s n = Ok t' -> t_decimals t' = t_decimals t.
Proof. intros H. unfold tok_burn in H. tokdec. Qed.
Lemma tok_increase_allowance_dec t o s n t' : tok_increase_allowance t o s n = Ok t' -> t_decimals t' = t_decimals t.
Proof. intros H. unfold tok_increase_allowance in H. tokdec. Qed.
Lemma tok_burn_from_dec t sp o n t' : tok_burn_from t sp o n = Ok t' -> t_decimals t' = t_decimals t.
Proof. intros H. unfold tok_burn_from in H. tokdec. Qed.
Lemma tok_decrease_allowance_dec t o s n t' : tok_decrease_allowance t o s n = Ok t' -> t_decimals t' = t_decimals t.
Proof. intros H. unfold tok_decrease_allowance in H. tokdec. Qed.

Ltac tokdec_side :=
  let t := fresh "t" in let t' := fresh "t'" in let H := fresh "H" in
  intros t t' H; cbv beta in H;
  first [ exact (tok_transfer_dec _ _ _ _ _ H)
        | exact (tok_transfer_from_dec _ _ _ _ _ _ H)
        | exact (tok_mint_dec _ _ _ _ _ H)
        | exact (tok_burn_dec _ _ _ _ H)
        | exact (tok_increase_allowance_dec _ _ _ _ _ H)
        | exact (tok_burn_from_dec _ _ _ _ _ H)
        | exact (tok_decrease_allowance_dec _ _ _ _ _ H) ].

(* ---- handlers ---- *)
Lemma with_token_dk w ta f w' :
  (forall t t', f t = Ok t' -> t_decimals t' = t_decimals t) ->
  with_token w ta f = Ok w' -> dk w w'.
Proof.
  intros Hf H. unfold with_token in H.
  destruct (w_tokens w ta) as [t|] eqn:Et; [|discriminate].
  apply bind_ok in H. destruct H as (t' & E & H). inversion H; subst w'; clear H. apply Hf in E.
  split; [reflexivity|].
  intros x tk Hx. cbn [w_tokens set_token]. unfold upd.
  destruct (x =? ta) eqn:Ex.
  - apply N.eqb_eq in Ex. subst x. exists t'. split; [reflexivity|]. congruence.
  - exists tk. split; [exact Hx|reflexivity].
Qed.

Lemma pair_update_decimals_tokens w p ps c dn d0 d1 w' :
  pair_update_decimals w p ps c dn d0 d1 = Ok w' -> w_tokens w' = w_tokens w /\ w_natives w' = w_natives w.
Proof. intros H. unfold pair_update_decimals in H. cbv zeta in H. inv_all; split; reflexivity. Qed.

Lemma pair_update_decimals_dk w p ps c dn d0 d1 w' :
  pair_update_decimals w p ps c dn d0 d1 = Ok w' -> dk w w'.
Proof. intros H. apply pair_update_decimals_tokens in H. destruct H. apply dk_same; assumption. Qed.

Ltac dk_fact H := fail.
Ltac dk_facts :=
  repeat match goal with
         | H : _ = Ok _ |- _ => dk_fact H
         end.
Ltac dk_fin := dk_facts; cbn [fst snd] in *; dk_chain.
Ltac dk_solve := inv_all; dk_fin.

Lemma bank_send_dk w from to cs w' : bank_send w from to cs = Ok w' -> dk w w'.
Proof. intros H. unfold bank_send in H. dk_solve. Qed.

Ltac dk_fact H ::=
  first [ apply bank_send_dk in H ].

Lemma move_funds_dk w from to funds w' : move_funds w from to funds = Ok w' -> dk w w'.
Proof. intros H. unfold move_funds in H. dk_solve. Qed.

Ltac dk_fact H ::=
  first [ apply bank_send_dk in H | apply move_funds_dk in H
        | (apply with_token_dk in H; [| solve [tokdec_side]])
        | apply pair_update_decimals_dk in H ].

Lemma pay_asset_dk w from a n to w' : pay_asset w from a n to = Ok w' -> dk w w'.
Proof. intros H. unfold pay_asset in H. dk_solve. Qed.

Ltac dk_fact H ::=
  first [ apply bank_send_dk in H | apply move_funds_dk in H
        | (apply with_token_dk in H; [| solve [tokdec_side]])
        | apply pair_update_decimals_dk in H
        | apply pay_asset_dk in H ].

Lemma pair_swap_dk w p ps funds sender offer amount bp ms to r :
  pair_swap w p ps funds sender offer amount bp ms to = Ok r -> dk w (fst r).
Proof. intros H. unfold pair_swap in H. cbv beta zeta in H. dk_solve. Qed.

Lemma pair_withdraw_dk w p ps sender amount w' :
  pair_withdraw w p ps sender amount = Ok w' -> dk w w'.
Proof. intros H. unfold pair_withdraw in H. cbv beta zeta in H. dk_solve. Qed.

Lemma pair_provide_dk w p ps c funds l0 n0 l1 n1 tol rcv w' :
  pair_provide w p ps c funds l0 n0 l1 n1 tol rcv = Ok w' -> dk w w'.
Proof. intros H. unfold pair_provide in H. cbv beta zeta in H. dk_solve. Qed.

Ltac dk_fact H ::=
  first [ apply bank_send_dk in H | apply move_funds_dk in H
        | (apply with_token_dk in H; [| solve [tokdec_side]])
        | apply pair_update_decimals_dk in H
        | apply pay_asset_dk in H | apply pair_swap_dk in H | apply pair_withdraw_dk in H
        | apply pair_provide_dk in H ].

Lemma pair_receive_dk w p ps c funds cs ca h w' :
  pair_receive w p ps c funds cs ca h = Ok w' -> dk w w'.
Proof. intros H. unfold pair_receive in H. cbv beta zeta in H. dk_solve. Qed.

Lemma fac_update_config_dk w c o w' : fac_update_config w c o = Ok w' -> dk w w'.
Proof. intros H. unfold fac_update_config in H. inv_all; destruct o; apply dk_same; reflexivity. Qed.

Lemma fac_migrate_pair_dk w c ct w' : fac_migrate_pair w c ct = Ok w' -> dk w w'.
Proof. intros H. unfold fac_migrate_pair in H. inv_all. apply dk_refl. Qed.

Ltac dk_fact H ::=
  first [ apply bank_send_dk in H | apply move_funds_dk in H
        | (apply with_token_dk in H; [| solve [tokdec_side]])
        | apply pair_update_decimals_dk in H
        | apply pay_asset_dk in H | apply pair_swap_dk in H | apply pair_withdraw_dk in H
        | apply pair_provide_dk in H | apply pair_receive_dk in H
        | apply fac_update_config_dk in H | apply fac_migrate_pair_dk in H ].

Lemma router_hop_dk w offer ask to w' : router_hop w offer ask to = Ok w' -> dk w w'.
Proof. intros H. unfold router_hop in H. cbv beta zeta in H. dk_solve. Qed.

Ltac dk_fact H ::=
  first [ apply bank_send_dk in H | apply move_funds_dk in H
        | (apply with_token_dk in H; [| solve [tokdec_side]])
        | apply pair_update_decimals_dk in H
        | apply pay_asset_dk in H | apply pair_swap_dk in H | apply pair_withdraw_dk in H
        | apply pair_provide_dk in H | apply pair_receive_dk in H
        | apply fac_update_config_dk in H | apply fac_migrate_pair_dk in H
        | apply router_hop_dk in H ].

Lemma router_hops_dk ops : forall w to w', router_hops w ops to = Ok w' -> dk w w'.
Proof.
  induction ops as [|p ops IH]; intros w to w' H.
  - cbn in H. dk_solve.
  - destruct ops as [|q rest].
    + destruct p as [o a]. cbn [router_hops] in H. dk_solve.
    + rewrite WFProofs.router_hops_cons2 in H. inv_step. apply IH in H. dk_fin.
Qed.

Lemma router_assert_min_dk w t prev m r w' : router_assert_min w t prev m r = Ok w' -> dk w w'.
Proof. intros H. apply router_assert_min_same in H. subst w'. apply dk_refl. Qed.

Lemma router_exec_ops_dk w s ops m to w' : router_exec_ops w s ops m to = Ok w' -> dk w w'.
Proof.
  intros H. unfold router_exec_ops in H. cbv beta zeta in H.
  destruct ops as [|p ops]; [discriminate|].
  inv_step. destruct m as [m|].
  - inv_step. inv_step. apply router_hops_dk in E1. apply router_assert_min_dk in H. dk_chain.
  - apply router_hops_dk in H. exact H.
Qed.

Ltac dk_fact H ::=
  first [ apply bank_send_dk in H | apply move_funds_dk in H
        | (apply with_token_dk in H; [| solve [tokdec_side]])
        | apply pair_update_decimals_dk in H
        | apply pay_asset_dk in H | apply pair_swap_dk in H | apply pair_withdraw_dk in H
        | apply pair_provide_dk in H | apply pair_receive_dk in H
        | apply fac_update_config_dk in H | apply fac_migrate_pair_dk in H
        | apply router_hop_dk in H | apply router_exec_ops_dk in H | apply router_assert_min_dk in H ].

Lemma cw20_send_dk w ta s target n h w' : cw20_send w ta s target n h = Ok w' -> dk w w'.
Proof. intros H. unfold cw20_send in H. cbv beta zeta in H. dk_solve. Qed.

Lemma cw20_send_from_dk w ta sp ow target n h w' : cw20_send_from w ta sp ow target n h = Ok w' -> dk w w'.
Proof. intros H. unfold cw20_send_from in H. cbv beta zeta in H. dk_solve. Qed.

Ltac dk_fact H ::=
  first [ apply bank_send_dk in H | apply move_funds_dk in H
        | (apply with_token_dk in H; [| solve [tokdec_side]])
        | apply pair_update_decimals_dk in H
        | apply pay_asset_dk in H | apply pair_swap_dk in H | apply pair_withdraw_dk in H
        | apply pair_provide_dk in H | apply pair_receive_dk in H
        | apply fac_update_config_dk in H | apply fac_migrate_pair_dk in H
        | apply router_hop_dk in H | apply router_exec_ops_dk in H | apply router_assert_min_dk in H
        | apply cw20_send_dk in H | apply cw20_send_from_dk in H ].

(* every operation other than pair creation and (re-)registration of a denom keeps the registered native decimals
   and the decimals of every existing token *)
Lemma exec_dk w o w' : exec w o = Ok w' ->
  match o with OFacCreatePair _ _ _ _ _ _ _ _ | OFacAddNative _ _ _ => True | _ => dk w w' end.
Proof.
  intros H. destruct o; try exact I; unfold exec in H; dk_solve.
Qed.

(* ---- the two factory operations that are not [dk] ---- *)
Lemma fac_update_records_tokens dn k todo : forall w done w',
  fac_update_records w dn k todo done = Ok w' -> w_tokens w' = w_tokens w.
Proof.
  induction todo as [|r todo IH]; intros w done w' H.
  - cbn [fac_update_records] in H. inversion H; subst w'. reflexivity.
  - cbn [fac_update_records] in H. cbv beta zeta in H.
    bnd H w1 H1. bnd H w2 H2. apply IH in H.
    assert (T1 : w_tokens w1 = w_tokens w).
    { destruct (asset_eqb (f_a0 r) (ANative dn)).
      - destruct (w_pairs w (f_pair r)) as [ps|]; [|discriminate].
        apply pair_update_decimals_tokens in H1. apply H1.
      - inversion H1; subst w1. reflexivity. }
    assert (T2 : w_tokens w2 = w_tokens w1).
    { destruct (asset_eqb (f_a1 r) (ANative dn)).
      - destruct (w_pairs w1 (f_pair r)) as [ps|]; [|discriminate].
        apply pair_update_decimals_tokens in H2. apply H2.
      - inversion H2; subst w2. reflexivity. }
    congruence.
Qed.

Lemma fac_add_native_tokens w c dn k w' : fac_add_native w c dn k = Ok w' -> w_tokens w' = w_tokens w.
Proof.
  intros H. unfold fac_add_native in H. cbv zeta in H.
  destruct (negb (c =? w_owner w)); [discriminate|].
  destruct (w_bank w (w_fac w) dn =? 0); [discriminate|].
  destruct (w_natives w dn).
  - apply fac_update_records_tokens in H. exact H.
  - inversion H; subst w'. reflexivity.
Qed.

Lemma fac_add_native_first w c dn k w' :
  w_natives w dn = None -> fac_add_native w c dn k = Ok w' -> w' = set_natives w (upd (w_natives w) dn (Some k)).
Proof.
  intros Hn H. unfold fac_add_native in H. cbv zeta in H. rewrite Hn in H.
  destruct (negb (c =? w_owner w)); [discriminate|].
  destruct (w_bank w (w_fac w) dn =? 0); [discriminate|].
  inversion H. reflexivity.
Qed.

(* creation adds the LP token at the fresh address [w_next w + 1] and touches no other token *)
Lemma fac_create_pair_tokens w c a0 a1 wl m0 m1 cm ld w' :
  fac_create_pair w c a0 a1 wl m0 m1 cm ld = Ok w' ->
  forall t, t <> w_next w + 1 -> w_tokens w' t = w_tokens w t.
Proof.
  intros H t Ht. unfold fac_create_pair in H. cbv zeta in H. inv_all.
  cbn [w_tokens set_next set_reg set_token set_pair]. apply FactoryProofs.upd_other. exact Ht.
Qed.

(* ------------------------------------------------------------------------------------ *)
(* slots                                                                                 *)
(* ------------------------------------------------------------------------------------ *)
Lemma slot_true_dk w w' a d : dk w w' -> slot_true w a d -> slot_true w' a d.
Proof.
  intros (Hn & Ht) H. destruct a as [x|t]; unfold slot_true in *.
  - rewrite Hn. exact H.
  - destruct H as (tk & Htk & Hd). destruct (Ht _ _ Htk) as (tk' & Htk' & Hd').
    exists tk'. split; [exact Htk'|congruence].
Qed.

(* the factory's lookup at creation returns exactly the registered / the token's own value *)
Lemma asset_decimals_slot w a d : asset_decimals w a = Ok d -> slot_true w a d.
Proof.
  destruct a as [x|t]; unfold asset_decimals, slot_true; intros H.
  - destruct (w_natives w x); inversion H. reflexivity.
  - destruct (w_tokens w t) as [tk|]; inversion H. exists tk. split; reflexivity.
Qed.

(* re-registration of [dn] with [k]: the slot of [dn] now carries [k], every other slot is as before *)
Lemma slot_rereg w w' dn k a d :
  w_natives w' dn = Some k -> (forall x, x <> dn -> w_natives w' x = w_natives w x) -> w_tokens w' = w_tokens w ->
  slot_true w a d -> slot_true w' a (if asset_eqb a (ANative dn) then k else d).
Proof.
  intros Hk Ho Ht H. destruct a as [x|t]; cbn [asset_eqb]; unfold slot_true in *.
  - destruct (x =? dn) eqn:E.
    + apply N.eqb_eq in E. subst x. exact Hk.
    + apply N.eqb_neq in E. rewrite Ho by exact E. exact H.
  - rewrite Ht. exact H.
Qed.

(* first registration of [dn]: no true slot mentions [dn], so nothing changes *)
Lemma slot_first w dn k a d :
  w_natives w dn = None -> slot_true w a d -> slot_true (set_natives w (upd (w_natives w) dn (Some k))) a d.
Proof.
  intros Hn H. destruct a as [x|t]; unfold slot_true in *; cbn [w_natives w_tokens set_natives].
  - rewrite FactoryProofs.upd_other; [exact H|]. intros ->. congruence.
  - exact H.
Qed.

Lemma keeps_dk_DecOK w w' : DecOK w -> keeps w w' -> dk w w' -> DecOK w'.
Proof.
  intros (D1 & D2) (Kreg & _ & Kp) Hd. split.
  - intros p ps Hp. rewrite Kp in Hp. destruct (D1 p ps Hp) as (S0 & S1).
    split; eapply slot_true_dk; eassumption.
  - intros p ps Hp. rewrite Kp in Hp. rewrite Kreg. exact (D2 p ps Hp).
Qed.

(* ------------------------------------------------------------------------------------ *)
(* the theorems                                                                          *)
(* ------------------------------------------------------------------------------------ *)
Theorem exec_preserves_DecOK : forall w o w',
  WF w -> RegOK w -> DecOK w -> submitter o <> w_fac w -> exec w o = Ok w' -> DecOK w'.
Proof.
  intros w o w' HW HR HD Hs H.
  pose proof (exec_keeps _ _ _ H) as Hk.
  pose proof (exec_dk _ _ _ H) as Hd.
  destruct o; try (exact (keeps_dk_DecOK _ _ HD Hk Hd)).
  - (* OPairUpdateDecimals: only the pair's factory may call, and that is [w_fac w] for every pair *)
    exfalso. apply exec_pair_update_decimals_auth in H. destruct H as (ps & Hps & Hc).
    destruct HW as (_ & P & _). destruct (P _ _ Hps) as (_ & _ & _ & _ & _ & _ & _ & _ & _ & Hf).
    apply Hs. cbn [submitter]. congruence.
  - (* OFacCreatePair: the new pair records what [asset_decimals] returned; the LP token is new *)
    cbn [exec] in H.
    pose proof (fac_create_pair_tokens _ _ _ _ _ _ _ _ _ _ H) as Htok.
    destruct (fac_create_pair_facts _ _ _ _ _ _ _ _ _ _ H) as (_ & _ & _ & d0 & d1 & Ed0 & Ed1 & Hrest).
    cbv zeta in Hrest. destruct Hrest as (_ & Hreg & Hnew & Hold & _ & _ & _ & Hnat & _).
    destruct HW as (F & _ & _).
    assert (Hdk : dk w w').
    { split; [exact Hnat|]. intros t tk Ht. exists tk. split; [|reflexivity].
      rewrite Htok; [exact Ht|].
      intros ->. destruct (F (w_next w + 1)) as (Hn & _); [lia|]. congruence. }
    destruct HD as (D1 & D2). split.
    + intros p ps Hp. destruct (N.eq_dec p (w_next w)) as [->|Np].
      * rewrite Hnew in Hp. inversion Hp; subst ps. cbn [p_a0 p_a1 p_d0 p_d1].
        split; (eapply slot_true_dk; [exact Hdk|]); apply asset_decimals_slot; assumption.
      * rewrite (Hold p Np) in Hp. destruct (D1 p ps Hp) as (S0 & S1).
        split; eapply slot_true_dk; eassumption.
    + intros p ps Hp. rewrite Hreg. destruct (N.eq_dec p (w_next w)) as [->|Np].
      * eexists. split; [apply in_or_app; right; left; reflexivity|]. reflexivity.
      * rewrite (Hold p Np) in Hp. destruct (D2 p ps Hp) as (r & Hr & Hf).
        exists r. split; [apply in_or_app; left; exact Hr|exact Hf].
  - (* OFacAddNative *)
    cbn [exec] in H. destruct (w_natives w dn) as [old|] eqn:En.
    + (* re-registration: the walk reaches every pair, because every pair is registered *)
      pose proof (fac_add_native_tokens _ _ _ _ _ H) as Htok.
      destruct (fac_add_native_reaches_all _ _ _ _ _ _ HR En H) as (_ & Hk' & Hoth & Hreg & HR' & Hq & _).
      destruct HD as (D1 & D2).
      assert (Hin : forall p ps', w_pairs w' p = Some ps' -> exists r, In r (w_reg w) /\ f_pair r = p).
      { intros p ps' Hp. destruct (in_dec N.eq_dec p (map f_pair (w_reg w))) as [Hi|Hi].
        - apply in_map_iff in Hi. destruct Hi as (r & Hf & Hr). exists r. split; assumption.
        - rewrite Hq in Hp; [exact (D2 p ps' Hp)|].
          intros r Hr E. apply Hi. apply in_map_iff. exists r. split; assumption. }
      split.
      * intros p ps' Hp. destruct (Hin p ps' Hp) as (r & Hr & Hf). subst p.
        destruct HR as (R1 & _). destruct (R1 r Hr) as ((ps & Hps & A0 & A1 & E0 & E1 & _) & _).
        destruct HR' as (R1' & _).
        assert (Hr' : In (rec_updated dn k r) (w_reg w')). { rewrite Hreg. apply in_map. exact Hr. }
        destruct (R1' _ Hr') as ((ps2 & Hps2 & B0 & B1 & G0 & G1 & _) & _).
        unfold rec_updated in Hps2, B0, B1, G0, G1. cbn [f_pair f_a0 f_a1 f_d0 f_d1] in Hps2, B0, B1, G0, G1.
        rewrite Hps2 in Hp. inversion Hp; subst ps2.
        destruct (D1 _ _ Hps) as (S0 & S1). rewrite A0, E0 in S0. rewrite A1, E1 in S1.
        rewrite B0, B1, G0, G1.
        split; apply (slot_rereg w w'); assumption.
      * intros p ps' Hp. destruct (Hin p ps' Hp) as (r & Hr & Hf).
        exists (rec_updated dn k r). split; [rewrite Hreg; apply in_map; exact Hr|exact Hf].
    + (* first registration: no existing pair can contain the denom *)
      apply (fac_add_native_first _ _ _ _ _ En) in H. subst w'.
      destruct HD as (D1 & D2). split.
      * intros p ps Hp. cbn [w_pairs set_natives] in Hp. destruct (D1 p ps Hp) as (S0 & S1).
        split; apply slot_first; assumption.
      * exact D2.
Qed.

Theorem run_preserves_DecOK : forall ops w,
  WF w -> RegOK w -> DecOK w -> no_factory_submitter w ops -> DecOK (run w ops).
Proof.
  induction ops as [|o ops IH]; intros w HW HR HD Hn.
  - exact HD.
  - change (run w (o :: ops)) with (run (step w o) ops).
    cbn [no_factory_submitter] in Hn. destruct Hn as (Hs & Hn).
    apply IH; [apply step_preserves_WF; exact HW | | | exact Hn].
    + unfold step. destruct (exec w o) as [w'|e] eqn:E; [|exact HR].
      eapply exec_preserves_RegOK; eassumption.
    + unfold step. destruct (exec w o) as [w'|e] eqn:E; [|exact HD].
      eapply exec_preserves_DecOK; eassumption.
Qed.

Theorem init_world_DecOK : forall L ubal fbal tdec, DecOK (init_world L ubal fbal tdec).
Proof.
  intros L ubal fbal tdec.
  assert (E : forall p, w_pairs (init_world L ubal fbal tdec) p = None) by reflexivity.
  split; intros p ps Hp; rewrite E in Hp; discriminate Hp.
Qed.

(* the user-level corollary: from the harness's start, after any history, the factory's record of a pair and the pair's
   own description both carry the registered decimals of every native asset of the pair *)
Theorem registered_decimals_reach_every_pair : forall L ubal fbal tdec ops r dn,
  let w0 := init_world L ubal fbal tdec in
  no_factory_submitter w0 ops ->
  let w := run w0 ops in
  In r (w_reg w) ->
  (f_a0 r = ANative dn -> w_natives w dn = Some (f_d0 r)) /\
  (f_a1 r = ANative dn -> w_natives w dn = Some (f_d1 r)) /\
  exists ps, w_pairs w (f_pair r) = Some ps /\ p_d0 ps = f_d0 r /\ p_d1 ps = f_d1 r.
Proof.
  intros L ubal fbal tdec ops r dn w0 Hn w Hr.
  pose proof (init_world_WF L ubal fbal tdec) as HW0.
  pose proof (init_world_RegOK L ubal fbal tdec) as HR0.
  pose proof (init_world_DecOK L ubal fbal tdec) as HD0.
  destruct (run_preserves_RegOK ops w0 HW0 HR0 Hn) as (HW & HR).
  pose proof (run_preserves_DecOK ops w0 HW0 HR0 HD0 Hn) as HD.
  destruct HR as (R1 & _). destruct (R1 r Hr) as ((ps & Hps & A0 & A1 & E0 & E1 & _) & _).
  destruct HD as (D1 & _). destruct (D1 _ _ Hps) as (S0 & S1).
  split; [|split].
  - intros Ea. rewrite A0, Ea, E0 in S0. exact S0.
  - intros Ea. rewrite A1, Ea, E1 in S1. exact S1.
  - exists ps. split; [exact Hps|]. split; assumption.
Qed.

(* ------------------------------------------------------------------------------------ *)
(* non-vacuity: a concrete history                                                       *)
(* ------------------------------------------------------------------------------------ *)
(* every operation of the history succeeds *)
Fixpoint dh_all_ok (w : world) (ops : list op) : bool :=
  match ops with
  | [] => true
  | o :: rest => match exec w o with Ok w' => dh_all_ok w' rest | Err _ => false end
  end.

(* 3 users (1000 is the factory owner), denoms 0 1, asset tokens 2 3 (6 decimals), room for 3 pairs;
   factory = 0, router = 1, first fresh contract address 4 *)
Definition dh_w0 : world := init_world (mkLayout 3 2 2 3) 1000000000000 1000 (fun _ => 6).
(* register denoms 0 and 1 with 6 decimals; create pair 4 = (native 0, token 2) with LP 5,
   pair 6 = (token 3, native 0) with LP 7, pair 8 = (native 0, native 1) with LP 9 *)
Definition dh_setup : list op :=
  [ OFacAddNative 1000 0 6;
    OFacAddNative 1000 1 6;
    OFacCreatePair 1000 (ANative 0) (AToken 2) [] 0 0 None None;
    OFacCreatePair 1000 (AToken 3) (ANative 0) [] 0 0 None None;
    OFacCreatePair 1000 (ANative 0) (ANative 1) [] 0 0 None None ].
(* re-register denom 0 with 9, then with 12 decimals *)
Definition dh_later : list op :=
  [ OFacAddNative 1000 0 9;
    OFacAddNative 1000 0 12 ].

(* the pair's own description / the factory's record of the pair: assets and recorded decimals *)
Definition dh_pair_view (w : world) (p : addr) : option (asset * asset * N * N) :=
  match w_pairs w p with
  | Some ps => Some (p_a0 ps, p_a1 ps, p_d0 ps, p_d1 ps)
  | None => None
  end.
Definition dh_rec_view (w : world) (p : addr) : option (asset * asset * N * N) :=
  match find (fun r => f_pair r =? p) (w_reg w) with
  | Some r => Some (f_a0 r, f_a1 r, f_d0 r, f_d1 r)
  | None => None
  end.

Example decok_example :
  dh_all_ok dh_w0 (dh_setup ++ dh_later) = true /\
  no_factory_submitter dh_w0 (dh_setup ++ dh_later) /\
  DecOK (run dh_w0 (dh_setup ++ dh_later)) /\
  (* before the re-registrations: 6 everywhere *)
  map (dh_pair_view (run dh_w0 dh_setup)) [4; 6; 8] =
    [Some (ANative 0, AToken 2, 6, 6); Some (AToken 3, ANative 0, 6, 6); Some (ANative 0, ANative 1, 6, 6)] /\
  map (dh_rec_view (run dh_w0 dh_setup)) [4; 6; 8] =
    [Some (ANative 0, AToken 2, 6, 6); Some (AToken 3, ANative 0, 6, 6); Some (ANative 0, ANative 1, 6, 6)] /\
  (* after them: 12 in the slot of denom 0 (first, second, first), the other slots unchanged *)
  map (dh_pair_view (run dh_w0 (dh_setup ++ dh_later))) [4; 6; 8] =
    [Some (ANative 0, AToken 2, 12, 6); Some (AToken 3, ANative 0, 6, 12); Some (ANative 0, ANative 1, 12, 6)] /\
  map (dh_rec_view (run dh_w0 (dh_setup ++ dh_later))) [4; 6; 8] =
    [Some (ANative 0, AToken 2, 12, 6); Some (AToken 3, ANative 0, 6, 12); Some (ANative 0, ANative 1, 12, 6)] /\
  w_natives (run dh_w0 (dh_setup ++ dh_later)) 0 = Some 12 /\
  w_natives (run dh_w0 (dh_setup ++ dh_later)) 1 = Some 6.
Proof.
  assert (Hn : no_factory_submitter dh_w0 (dh_setup ++ dh_later)).
  { unfold dh_setup, dh_later. cbn [app no_factory_submitter].
    repeat split; vm_compute; intros E; discriminate E. }
  split; [vm_compute; reflexivity|].
  split; [exact Hn|].
  split.
  { apply run_preserves_DecOK; [apply init_world_WF|apply init_world_RegOK|apply init_world_DecOK|exact Hn]. }
  repeat split; vm_compute; reflexivity.
Qed.

Print Assumptions exec_preserves_DecOK.
Print Assumptions run_preserves_DecOK.
Print Assumptions init_world_DecOK.
Print Assumptions registered_decimals_reach_every_pair.
Print Assumptions decok_example.
