(* The observable effect of WHOLE transactions (entry transfer + handler): C02 / C04 exactly as a
   user sees them, stated pointwise on the ledger before and after the transaction. *)
From HT Require Import Base.Prelude Num.Arith Amm.Formulas Amm.Guards World.World Proofs.LedgerProofs Proofs.LivenessProofs Proofs.SystemPoolProofs Proofs.WFProofs.

(* ---------- helpers ---------- *)

Lemma neq_eqb_false (x y : N) : x <> y -> (x =? y) = false.
Proof. intros H. apply N.eqb_neq. exact H. Qed.

Lemma neq_eqb_false_sym (x y : N) : x <> y -> (y =? x) = false.
Proof. intros H. apply N.eqb_neq. congruence. Qed.

(* [token_supply] is the total view of [supply] when the token exists *)
Lemma token_supply_same_config w w1 t total : same_config w w1 ->
  token_supply w1 t = Ok total -> token_supply w t = Ok total.
Proof.
  intros C H. destruct C as (_ & _ & _ & _ & _ & _ & _ & S1 & T1).
  specialize (S1 t). specialize (T1 t). unfold supply in S1. unfold token_supply in *.
  destruct (w_tokens w t) as [tk|], (w_tokens w1 t) as [tk1|]; try contradiction; try discriminate.
  inversion H. subst total. rewrite S1. reflexivity.
Qed.

(* a withdrawal leaves everybody else's LP balance alone *)
Lemma pair_withdraw_lp_other w p ps sender amount w' :
  pair_withdraw w p ps sender amount = Ok w' ->
  asset_eqb (p_a0 ps) (AToken (p_lp ps)) = false -> asset_eqb (p_a1 ps) (AToken (p_lp ps)) = false ->
  forall c, c <> p -> bal w' (AToken (p_lp ps)) c = bal w (AToken (p_lp ps)) c.
Proof.
  intros H H0l H1l c Hcp.
  apply pair_withdraw_structure in H. destruct H as (total & x0 & x1 & w1 & w2 & _ & _ & P1 & P2 & Pb).
  apply pay_asset_effect in P1. destruct P1 as (_ & _ & _ & B1).
  apply pay_asset_effect in P2. destruct P2 as (_ & _ & _ & B2).
  apply burn_effect in Pb. destruct Pb as (_ & _ & B3).
  assert (Hl0 : asset_eqb (AToken (p_lp ps)) (p_a0 ps) = false) by (rewrite LedgerProofs.asset_eqb_sym; exact H0l).
  assert (Hl1 : asset_eqb (AToken (p_lp ps)) (p_a1 ps) = false) by (rewrite LedgerProofs.asset_eqb_sym; exact H1l).
  rewrite B3, (neq_eqb_false _ _ Hcp), andb_false_r, B2, Hl1, B1, Hl0. reflexivity.
Qed.

(* ---------- C04: the whole withdrawal transaction ---------- *)
Theorem tx_withdraw_effect : forall w p ps holder a w',
  WF w -> w_pairs w p = Some ps -> holder <> p -> holder <> p_lp ps ->
  exec w (OSend (p_lp ps) holder p a HWithdraw) = Ok w' ->
  exists total x0 x1,
    token_supply w (p_lp ps) = Ok total /\
    withdraw_amounts (bal w (p_a0 ps) p) (bal w (p_a1 ps) p) a total = Ok (x0, x1) /\
    supply w' (p_lp ps) + a = total /\
    bal w' (AToken (p_lp ps)) holder + a = bal w (AToken (p_lp ps)) holder /\
    bal w' (AToken (p_lp ps)) p = bal w (AToken (p_lp ps)) p /\
    bal w' (p_a0 ps) holder = bal w (p_a0 ps) holder + x0 /\ bal w' (p_a0 ps) p + x0 = bal w (p_a0 ps) p /\
    bal w' (p_a1 ps) holder = bal w (p_a1 ps) holder + x1 /\ bal w' (p_a1 ps) p + x1 = bal w (p_a1 ps) p /\
    (forall z c, c <> p -> c <> holder -> bal w' z c = bal w z c).
Proof.
  intros w p ps holder a w' HWF Hp Hhp Hhl H.
  destruct (WF_pair _ _ _ HWF Hp) as (_ & _ & _ & _ & H01 & H0l & H1l & _).
  cbn [exec] in H. unfold cw20_send in H.
  apply bind_ok in H. destruct H as (w1 & Ht & H).
  rewrite (with_token_pairs _ _ _ _ Ht), Hp in H.
  cbn [pair_receive] in H. rewrite N.eqb_refl in H. cbn [negb] in H.
  change (pay_asset w holder (AToken (p_lp ps)) a p = Ok w1) in Ht.
  apply pay_asset_effect in Ht. destruct Ht as (_ & Lle & C1 & B1).
  pose proof (pair_withdraw_lp_other _ _ _ _ _ _ H H0l H1l) as Blp.
  destruct (pair_withdraw_effect _ _ _ _ _ _ H H01 H0l H1l Hhp)
    as (total & x0 & x1 & Hts & Hx & Sup & Lp & A0h & A0p & A1h & A1p & Fr).
  assert (Ehp : (holder =? p) = false) by (apply neq_eqb_false; exact Hhp).
  assert (Eph : (p =? holder) = false) by (apply neq_eqb_false_sym; exact Hhp).
  (* the entry transfer touches only the LP token *)
  assert (O0 : forall c, bal w1 (p_a0 ps) c = bal w (p_a0 ps) c) by (intros c; rewrite B1, H0l; reflexivity).
  assert (O1 : forall c, bal w1 (p_a1 ps) c = bal w (p_a1 ps) c) by (intros c; rewrite B1, H1l; reflexivity).
  assert (Lh : bal w1 (AToken (p_lp ps)) holder = bal w (AToken (p_lp ps)) holder - a).
  { rewrite B1, LedgerProofs.asset_eqb_refl, Ehp, N.eqb_refl. reflexivity. }
  assert (Lpp : bal w1 (AToken (p_lp ps)) p = bal w (AToken (p_lp ps)) p + a).
  { rewrite B1, LedgerProofs.asset_eqb_refl, Ehp, Eph, N.eqb_refl. reflexivity. }
  rewrite !O0 in *. rewrite !O1 in *.
  exists total, x0, x1.
  split; [eapply token_supply_same_config; eassumption|].
  split; [exact Hx|]. split; [exact Sup|].
  split; [rewrite (Blp _ Hhp), Lh; clear - Lle; lia|].
  split; [rewrite Lpp in Lp; clear - Lp; lia|].
  split; [exact A0h|]. split; [exact A0p|]. split; [exact A1h|]. split; [exact A1p|].
  intros z c Hcp Hch. rewrite (Fr z c Hcp Hch), B1, Ehp.
  rewrite (neq_eqb_false _ _ Hch), (neq_eqb_false _ _ Hcp).
  destruct (asset_eqb z (AToken (p_lp ps))) eqn:Ez; [|reflexivity].
  apply LedgerProofs.asset_eqb_eq in Ez. subst z. reflexivity.
Qed.


(* ---------- C02: swaps ---------- *)

(* what [pair_swap_settlement] forgets: the payout was covered by the pair's ask balance *)
Lemma pair_swap_ret_le w p ps funds sender offer amount bp ms to w' ret spread comm :
  pair_swap w p ps funds sender offer amount bp ms to = Ok (w', (ret, spread, comm)) ->
  ret <= bal w (if asset_eqb offer (p_a0 ps) then p_a1 ps else p_a0 ps) p.
Proof.
  intros H. unfold pair_swap in H.
  apply bind_ok in H. destruct H as (u & Hf & H).
  apply bind_ok in H. destruct H as (r0 & Hr0 & H).
  apply bind_ok in H. destruct H as (r1 & Hr1 & H).
  apply bind_ok in H. destruct H as (sel & Hsel & H).
  destruct sel as [[[[opool apool] ask'] od] ad].
  apply bind_ok in H. destruct H as (out & Hcs & H).
  destruct out as [[ret' spread'] comm'].
  apply bind_ok in H. destruct H as (u2 & Hms & H).
  apply bind_ok in H. destruct H as (w'' & Hpay & H).
  inversion H. subst w'' ret' spread' comm'. clear H.
  assert (Hask : ask' = if asset_eqb offer (p_a0 ps) then p_a1 ps else p_a0 ps).
  { destruct (asset_eqb offer (p_a0 ps)) eqn:E0.
    - apply bind_ok in Hsel. destruct Hsel as (o & _ & Hsel). inversion Hsel. reflexivity.
    - destruct (asset_eqb offer (p_a1 ps)) eqn:E1; [|discriminate].
      apply bind_ok in Hsel. destruct Hsel as (o & _ & Hsel). inversion Hsel. reflexivity. }
  rewrite <- Hask.
  destruct (ret =? 0) eqn:E0.
  - apply N.eqb_eq in E0. subst ret. apply N.le_0_l.
  - apply pay_asset_effect in Hpay. destruct Hpay as (_ & Hle & _). exact Hle.
Qed.

(* entry transfer of the offered asset by the trader, then the pair's swap *)
Lemma entry_then_swap w p ps funds sender offer amount bp ms to w1 w' ret spread comm :
  asset_eqb (p_a0 ps) (p_a1 ps) = false -> sender <> p ->
  pay_asset w sender offer amount p = Ok w1 ->
  pair_swap w1 p ps funds sender offer amount bp ms to = Ok (w', (ret, spread, comm)) ->
  let ask := if asset_eqb offer (p_a0 ps) then p_a1 ps else p_a0 ps in
  let rcv := match to with Some t => t | None => sender end in
  rcv <> p ->
    compute_swap (bal w offer p) (bal w ask p) amount (p_comm ps) = Ok (ret, spread, comm) /\
    bal w' offer p = bal w offer p + amount /\
    bal w' ask p + ret = bal w ask p /\
    (rcv <> sender -> bal w' ask rcv = bal w ask rcv + ret /\ bal w' offer sender + amount = bal w offer sender /\ bal w' ask sender = bal w ask sender) /\
    (rcv = sender -> bal w' ask sender = bal w ask sender + ret /\ bal w' offer sender + amount = bal w offer sender) /\
    (forall z a, a <> p -> a <> sender -> a <> rcv -> bal w' z a = bal w z a).
Proof.
  intros H01 Hsp Hm Hs ask rcv Hrp.
  pose proof (pair_swap_ret_le _ _ _ _ _ _ _ _ _ _ _ _ _ _ Hs) as Hret. fold ask in Hret.
  pose proof (pair_swap_settlement _ _ _ _ _ _ _ _ _ _ _ _ _ _ Hs) as S.
  cbv zeta in S. fold ask in S. fold rcv in S.
  destruct S as (Hor & (x & y & Hcs & Hx & Hy) & _ & B2).
  pose proof (offer_ask_distinct ps offer H01 Hor) as Hoa. fold ask in Hoa.
  assert (Hao : asset_eqb ask offer = false) by (rewrite LedgerProofs.asset_eqb_sym; exact Hoa).
  apply pay_asset_effect in Hm. destruct Hm as (_ & Lle & _ & B1).
  assert (Esp : (sender =? p) = false) by (apply neq_eqb_false; exact Hsp).
  assert (Eps : (p =? sender) = false) by (apply neq_eqb_false_sym; exact Hsp).
  assert (Erp : (rcv =? p) = false) by (apply neq_eqb_false; exact Hrp).
  assert (Epr : (p =? rcv) = false) by (apply neq_eqb_false_sym; exact Hrp).
  rewrite Esp in B1.
  (* the payout, also when nothing is paid *)
  assert (B2' : forall z a, bal w' z a =
            if asset_eqb z ask then
              (if a =? p then bal w1 ask a - ret else if a =? rcv then bal w1 ask a + ret else bal w1 ask a)
            else bal w1 z a).
  { intros z a. rewrite B2, Epr. cbn [negb]. rewrite andb_true_r.
    destruct (asset_eqb z ask) eqn:Ez; cbn [andb]; [|reflexivity].
    apply LedgerProofs.asset_eqb_eq in Ez. subst z.
    destruct (ret =? 0) eqn:E0; cbn [negb]; [|reflexivity].
    apply N.eqb_eq in E0. rewrite E0, N.sub_0_r, N.add_0_r.
    destruct (a =? p); [reflexivity|]. destruct (a =? rcv); reflexivity. }
  clear B2.
  (* the entry transfer moved only the offered asset *)
  assert (A1 : forall a, bal w1 ask a = bal w ask a) by (intros a; rewrite B1, Hao; reflexivity).
  assert (O1 : forall a, bal w1 offer a =
            if a =? sender then bal w offer a - amount else if a =? p then bal w offer a + amount else bal w offer a).
  { intros a. rewrite B1, LedgerProofs.asset_eqb_refl. reflexivity. }
  assert (Op : bal w1 offer p = bal w offer p + amount) by (rewrite O1, Eps, N.eqb_refl; reflexivity).
  assert (Os : bal w1 offer sender = bal w offer sender - amount) by (rewrite O1, N.eqb_refl; reflexivity).
  rewrite A1 in Hret, Hy. rewrite Op in Hx.
  assert (Ex : x = bal w offer p) by (clear - Hx; lia).
  subst x y.
  split; [exact Hcs|].
  split; [rewrite B2', Hoa; exact Op|].
  split; [rewrite B2', LedgerProofs.asset_eqb_refl, N.eqb_refl, A1; clear - Hret; lia|].
  split; [|split].
  - intros Hrs.
    assert (Ers : (rcv =? sender) = false) by (apply neq_eqb_false; exact Hrs).
    assert (Esr : (sender =? rcv) = false) by (apply neq_eqb_false_sym; exact Hrs).
    split; [rewrite B2', LedgerProofs.asset_eqb_refl, Erp, N.eqb_refl, A1; reflexivity|].
    split; [rewrite B2', Hoa, Os; clear - Lle; lia|].
    rewrite B2', LedgerProofs.asset_eqb_refl, Esp, Esr, A1. reflexivity.
  - intros Hrs.
    split; [rewrite B2', LedgerProofs.asset_eqb_refl, Esp, <- Hrs, N.eqb_refl, A1; reflexivity|].
    rewrite B2', Hoa, Os. clear - Lle. lia.
  - intros z a Hap Has Har.
    rewrite B2', (neq_eqb_false _ _ Hap), (neq_eqb_false _ _ Har).
    destruct (asset_eqb z ask) eqn:Ez.
    + apply LedgerProofs.asset_eqb_eq in Ez. subst z. apply A1.
    + rewrite B1, (neq_eqb_false _ _ Hap), (neq_eqb_false _ _ Has).
      destruct (asset_eqb z offer) eqn:Ezo; [|reflexivity].
      apply LedgerProofs.asset_eqb_eq in Ezo. subst z. reflexivity.
Qed.

(* C02: execute-swap with a native offer; the attached funds are exactly the offered coin *)
Theorem tx_swap_native_effect : forall w p ps c d amount bp ms to w',
  WF w -> w_pairs w p = Some ps -> c <> p ->
  exec w (OSwap p c [(d, amount)] (ANative d) amount bp ms to) = Ok w' ->
  let offer := ANative d in
  let ask := if asset_eqb offer (p_a0 ps) then p_a1 ps else p_a0 ps in
  let rcv := match to with Some t => t | None => c end in
  rcv <> p ->
  exists ret spread comm,
    compute_swap (bal w offer p) (bal w ask p) amount (p_comm ps) = Ok (ret, spread, comm) /\
    bal w' offer p = bal w offer p + amount /\
    bal w' ask p + ret = bal w ask p /\
    (rcv <> c -> bal w' ask rcv = bal w ask rcv + ret /\ bal w' offer c + amount = bal w offer c /\ bal w' ask c = bal w ask c) /\
    (rcv = c -> bal w' ask c = bal w ask c + ret /\ bal w' offer c + amount = bal w offer c) /\
    (forall z a, a <> p -> a <> c -> a <> rcv -> bal w' z a = bal w z a).
Proof.
  intros w p ps c d amount bp ms to w' HWF Hp Hcp H offer ask rcv Hrp.
  destruct (WF_pair _ _ _ HWF Hp) as (_ & _ & _ & _ & H01 & _).
  apply exec_swap_decompose in H. destruct H as (ps' & w1 & out & Hp' & Hm & _ & _ & Hs).
  rewrite Hp in Hp'. inversion Hp'. subst ps'. clear Hp'.
  destruct out as [[ret spread] comm].
  change (pay_asset w c offer amount p = Ok w1) in Hm.
  exists ret, spread, comm.
  exact (entry_then_swap _ _ _ _ _ _ _ _ _ _ _ _ _ _ _ H01 Hcp Hm Hs Hrp).
Qed.

(* C02: cw20-hook swap *)
Theorem tx_swap_hook_effect : forall w ta sender p ps n offer amount bp ms to w',
  WF w -> w_pairs w p = Some ps -> sender <> p ->
  exec w (OSend ta sender p n (HSwap offer amount bp ms to)) = Ok w' ->
  let ask := if asset_eqb offer (p_a0 ps) then p_a1 ps else p_a0 ps in
  let rcv := match to with Some t => t | None => sender end in
  rcv <> p ->
  offer = AToken ta /\ amount = n /\
  exists ret spread comm,
    compute_swap (bal w offer p) (bal w ask p) amount (p_comm ps) = Ok (ret, spread, comm) /\
    bal w' offer p = bal w offer p + amount /\
    bal w' ask p + ret = bal w ask p /\
    (rcv <> sender -> bal w' ask rcv = bal w ask rcv + ret /\ bal w' offer sender + amount = bal w offer sender /\ bal w' ask sender = bal w ask sender) /\
    (rcv = sender -> bal w' ask sender = bal w ask sender + ret /\ bal w' offer sender + amount = bal w offer sender) /\
    (forall z a, a <> p -> a <> sender -> a <> rcv -> bal w' z a = bal w z a).
Proof.
  intros w ta sender p ps n offer amount bp ms to w' HWF Hp Hsp H ask rcv Hrp.
  destruct (WF_pair _ _ _ HWF Hp) as (_ & _ & _ & _ & H01 & _).
  cbn [exec] in H.
  destruct (cw20_send_swap_decompose _ _ _ _ _ _ _ _ _ _ _ _ Hp H) as (w1 & out & Hm & Eo & En & _ & Hs).
  split; [exact Eo|]. split; [exact En|].
  destruct out as [[ret spread] comm].
  assert (Hm' : pay_asset w sender offer amount p = Ok w1) by (rewrite Eo, En; exact Hm).
  exists ret, spread, comm.
  exact (entry_then_swap _ _ _ _ _ _ _ _ _ _ _ _ _ _ _ H01 Hsp Hm' Hs Hrp).
Qed.

Print Assumptions tx_withdraw_effect.
Print Assumptions tx_swap_native_effect.
Print Assumptions tx_swap_hook_effect.
