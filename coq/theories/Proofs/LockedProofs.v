(* E-actors as an invariant, and C05: the reserved unit of LP supply parked at the LP token's own
   address can never be spent by user-submitted operations. *)
From HT Require Import Base.Prelude Num.Arith Amm.Formulas Amm.Guards World.World Proofs.LedgerProofs Proofs.WFProofs Proofs.FrameProofs Proofs.LivenessProofs.

(* who submits the transaction (and, for TransferFrom, whose allowance is spent is the OWNER, handled separately) *)
Definition caller_of (o : op) : addr :=
  match o with
  | OBankSend f _ _ => f | OTransfer _ f _ _ => f | OTransferFrom _ sp _ _ _ => sp
  | OIncreaseAllowance _ ow _ _ => ow | OMint _ sd _ _ => sd | OBurn _ sd _ => sd | OSend _ sd _ _ _ => sd
  | OProvide _ c _ _ _ _ _ _ _ => c | OSwap _ c _ _ _ _ _ _ => c | OPairReceive _ c _ _ _ _ => c
  | OPairUpdateDecimals _ c _ _ _ => c | ORouterOps c _ _ _ _ => c | ORouterOp c _ _ _ _ => c
  | ORouterAssertMin c _ _ _ _ => c | ORouterReceive c _ _ _ => c | OFacUpdateConfig c _ => c
  | OFacCreatePair c _ _ _ _ _ _ _ => c | OFacAddNative c _ _ => c | OFacMigrate c _ => c
  | OSendFrom _ sp _ _ _ _ => sp | OBurnFrom _ sp _ _ => sp | ODecreaseAllowance _ ow _ _ => ow
  end.
(* an address that is (or will be) a contract of the system: factory, router, any pair or token, any address not yet allocated *)
Definition is_contract (w : world) (a : addr) : Prop :=
  a = w_fac w \/ a = w_rtr w \/ w_pairs w a <> None \/ w_tokens w a <> None \/ (a < 1000 /\ w_next w <= a).
(* E-actors as an invariant: contracts never hold outgoing allowances (they never call IncreaseAllowance: only their
   modelled handlers act for them), and every pair with a positive LP supply has its reserved unit at the LP token's own address *)
Definition Inert (w : world) : Prop :=
  (forall t tk c sp, w_tokens w t = Some tk -> is_contract w c -> t_allow tk c sp = None) /\
  (forall p ps, w_pairs w p = Some ps -> 0 < supply w (p_lp ps) -> 1 <= bal w (AToken (p_lp ps)) (p_lp ps)).

(* [Inert] alone is not inductive (see the counterexamples at the end of the file).  The strengthening:
   the router is an allocated address that is not a token contract. *)
Definition Inert' (w : world) : Prop :=
  Inert w /\ w_rtr w < w_next w /\ w_tokens w (w_rtr w) = None.

Lemma Inert'_Inert w : Inert' w -> Inert w.
Proof. intros H. apply H. Qed.

(* ------------------------------------------------------------------------------------ *)
(* K: what no handler other than IncreaseAllowance / CreatePair changes                  *)
(* ------------------------------------------------------------------------------------ *)
Definition K (w w' : world) : Prop :=
  w_rtr w' = w_rtr w /\
  (forall q, w_pairs w q = None -> w_pairs w' q = None) /\
  (forall t tk', w_tokens w' t = Some tk' -> exists tk, w_tokens w t = Some tk /\
     forall c sp, t_allow tk c sp = None -> t_allow tk' c sp = None).

Lemma K_refl w : K w w.
Proof.
  split; [reflexivity|]. split; [auto|]. intros t tk' H. exists tk'. auto.
Qed.

Lemma K_trans w1 w2 w3 : K w1 w2 -> K w2 w3 -> K w1 w3.
Proof.
  intros (A1 & A2 & A3) (B1 & B2 & B3). split; [congruence|]. split.
  - intros q H. apply B2, A2, H.
  - intros t tk3 H. destruct (B3 _ _ H) as (tk2 & H2 & Hb). destruct (A3 _ _ H2) as (tk1 & H1 & Ha).
    exists tk1. split; [exact H1|]. intros c sp Hn. apply Hb, Ha, Hn.
Qed.

Lemma K_same w w' : w_rtr w' = w_rtr w -> w_tokens w' = w_tokens w -> w_pairs w' = w_pairs w -> K w w'.
Proof.
  intros H1 H2 H3. split; [exact H1|]. split.
  - intros q H. rewrite H3. exact H.
  - intros t tk' H. rewrite H2 in H. exists tk'. auto.
Qed.

Ltac K_chain :=
  first [ solve [apply K_same; reflexivity]
        | eassumption
        | match goal with
          | H : K ?a ?b |- K ?a _ => apply (K_trans _ _ _ H); K_chain
          end ].

(* ---- cw20 primitives ---- *)
Lemma tok_debit_inv t a n t' : tok_debit t a n = Ok t' ->
  t_allow t' = t_allow t /\ t_supply t' = t_supply t /\ forall x, x <> a -> t_bal t' x = t_bal t x.
Proof.
  unfold tok_debit. destruct (n <=? t_bal t a); [|discriminate]. intros H. inversion H. subst t'. clear H.
  cbn [t_allow t_supply t_bal]. split; [reflexivity|]. split; [reflexivity|].
  intros x Hx. apply upd_other. exact Hx.
Qed.

Lemma tok_credit_inv t a n t' : tok_credit t a n = Ok t' ->
  t_allow t' = t_allow t /\ t_supply t' = t_supply t /\ forall x, t_bal t x <= t_bal t' x.
Proof.
  unfold tok_credit. destruct (t_bal t a + n <? W128); [|discriminate]. intros H. inversion H. subst t'. clear H.
  cbn [t_allow t_supply t_bal]. split; [reflexivity|]. split; [reflexivity|].
  intros x. unfold upd. destruct (x =? a) eqn:E; [|apply N.le_refl].
  apply N.eqb_eq in E. subst x. apply N.le_add_r.
Qed.

Lemma tok_transfer_allow t s r n t' : tok_transfer t s r n = Ok t' ->
  forall c sp, t_allow t c sp = None -> t_allow t' c sp = None.
Proof.
  intros H c sp Hn. apply tok_transfer_effect in H. destruct H as (_ & _ & Ha & _). rewrite Ha. exact Hn.
Qed.

Lemma tok_transfer_from_inv t sp ow to n t' : tok_transfer_from t sp ow to n = Ok t' ->
  t_allow t ow sp <> None /\
  (forall c s, t_allow t c s = None -> t_allow t' c s = None) /\
  t_supply t' = t_supply t /\
  (forall x, x <> ow -> t_bal t x <= t_bal t' x).
Proof.
  unfold tok_transfer_from. destruct (t_allow t ow sp) as [al|] eqn:Ea; [|discriminate].
  destruct (n <=? al); [|discriminate]. cbv zeta. intros H.
  apply bind_ok in H. destruct H as (t1 & H1 & H).
  apply tok_debit_inv in H1. destruct H1 as (A1 & S1 & B1).
  apply tok_credit_inv in H. destruct H as (A2 & S2 & B2).
  cbn [t_allow t_supply t_bal] in A1, S1, B1.
  split; [discriminate|]. split; [|split].
  - intros c s Hn. rewrite A2, A1.
    destruct ((c =? ow) && (s =? sp)) eqn:E; [|exact Hn].
    apply andb_true_iff in E. destruct E as [E1 E2]. apply N.eqb_eq in E1, E2. subst c s. congruence.
  - rewrite S2, S1. reflexivity.
  - intros x Hx. rewrite <- (B1 x Hx). apply B2.
Qed.

Lemma tok_transfer_from_allow t sp ow to n t' : tok_transfer_from t sp ow to n = Ok t' ->
  forall c s, t_allow t c s = None -> t_allow t' c s = None.
Proof. intros H. apply tok_transfer_from_inv in H. apply H. Qed.

Lemma tok_mint_inv t sd to n t' : tok_mint t sd to n = Ok t' ->
  t_allow t' = t_allow t /\ t_supply t' = t_supply t + n /\ t_minter t = Some sd /\ forall x, t_bal t x <= t_bal t' x.
Proof.
  unfold tok_mint. destruct (n =? 0); [discriminate|]. destruct (t_minter t) as [m|]; [|discriminate].
  destruct (m =? sd) eqn:Em; cbn [negb]; [|discriminate]. apply N.eqb_eq in Em. subst m.
  destruct (t_supply t + n <? W128); [|discriminate]. intros H.
  apply tok_credit_inv in H. cbn [t_allow t_supply t_bal] in H. destruct H as (A & S1 & B).
  split; [exact A|]. split; [exact S1|]. split; [reflexivity|exact B].
Qed.

Lemma tok_mint_allow t sd to n t' : tok_mint t sd to n = Ok t' ->
  forall c s, t_allow t c s = None -> t_allow t' c s = None.
Proof. intros H c s Hn. apply tok_mint_inv in H. destruct H as (A & _). rewrite A. exact Hn. Qed.

Lemma tok_burn_inv t sd n t' : tok_burn t sd n = Ok t' ->
  t_allow t' = t_allow t /\ t_supply t' <= t_supply t /\ forall x, x <> sd -> t_bal t' x = t_bal t x.
Proof.
  unfold tok_burn. destruct (n =? 0); [discriminate|]. intros H.
  apply bind_ok in H. destruct H as (t1 & H1 & H).
  destruct (n <=? t_supply t1); [|discriminate]. inversion H. subst t'. clear H.
  apply tok_debit_inv in H1. destruct H1 as (A1 & S1 & B1).
  cbn [t_allow t_supply t_bal]. split; [exact A1|]. split; [|exact B1].
  rewrite S1. apply N.le_sub_l.
Qed.

Lemma tok_burn_allow t sd n t' : tok_burn t sd n = Ok t' ->
  forall c s, t_allow t c s = None -> t_allow t' c s = None.
Proof. intros H c s Hn. apply tok_burn_inv in H. destruct H as (A & _). rewrite A. exact Hn. Qed.

(* BurnFrom: like TransferFrom, the debited owner holds an allowance entry *)
Lemma tok_burn_from_inv t sp ow n t' : tok_burn_from t sp ow n = Ok t' ->
  t_allow t ow sp <> None /\
  (forall c s, t_allow t c s = None -> t_allow t' c s = None) /\
  t_supply t' <= t_supply t /\
  (forall x, x <> ow -> t_bal t' x = t_bal t x).
Proof.
  intros H. apply tok_burn_from_effect in H.
  destruct H as (al & Ha & _ & _ & _ & Hs & _ & _ & Hal & Hb).
  split; [congruence|]. split; [|split].
  - intros c s Hn. rewrite Hal.
    destruct ((c =? ow) && (s =? sp)) eqn:E; [|exact Hn].
    apply andb_true_iff in E. destruct E as [E1 E2]. apply N.eqb_eq in E1, E2. subst c s. congruence.
  - rewrite Hs. apply N.le_sub_l.
  - intros x Hx. rewrite Hb. apply N.eqb_neq in Hx. rewrite Hx. reflexivity.
Qed.

Lemma tok_burn_from_allow t sp ow n t' : tok_burn_from t sp ow n = Ok t' ->
  forall c s, t_allow t c s = None -> t_allow t' c s = None.
Proof. intros H. apply tok_burn_from_inv in H. apply H. Qed.

(* DecreaseAllowance only touches an existing entry *)
Lemma tok_decrease_allowance_allow t ow sp n t' : tok_decrease_allowance t ow sp n = Ok t' ->
  forall c s, t_allow t c s = None -> t_allow t' c s = None.
Proof.
  intros H c s Hn. apply tok_decrease_allowance_effect in H.
  destruct H as (_ & al & Ha & _ & _ & _ & _ & Hal). rewrite Hal.
  destruct ((c =? ow) && (s =? sp)) eqn:E; [|exact Hn].
  apply andb_true_iff in E. destruct E as [E1 E2]. apply N.eqb_eq in E1, E2. subst c s. congruence.
Qed.

Ltac allow_side :=
  let t := fresh "t" in let t' := fresh "t'" in let H := fresh "H" in
  intros t t' H; cbv beta in H;
  first [ exact (tok_transfer_allow _ _ _ _ _ H)
        | exact (tok_transfer_from_allow _ _ _ _ _ _ H)
        | exact (tok_mint_allow _ _ _ _ _ H)
        | exact (tok_burn_allow _ _ _ _ H)
        | exact (tok_burn_from_allow _ _ _ _ _ H)
        | exact (tok_decrease_allowance_allow _ _ _ _ _ H) ].

Lemma with_token_K w ta f w' :
  (forall t t', f t = Ok t' -> forall c sp, t_allow t c sp = None -> t_allow t' c sp = None) ->
  with_token w ta f = Ok w' -> K w w'.
Proof.
  intros Hf H. apply with_token_inv in H. destruct H as (t & t' & Ht & Hft & ->).
  split; [reflexivity|]. split; [intros q Hq; exact Hq|].
  intros u tk' Hu. cbn [set_token w_tokens] in Hu.
  destruct (N.eq_dec u ta) as [->|Ne].
  - rewrite upd_same in Hu. injection Hu as <-. exists t. split; [exact Ht|]. apply (Hf _ _ Hft).
  - rewrite upd_other in Hu by exact Ne. exists tk'. split; [exact Hu|auto].
Qed.

Lemma pair_update_decimals_K w p ps c dn d0 d1 w' :
  w_pairs w p = Some ps -> pair_update_decimals w p ps c dn d0 d1 = Ok w' -> K w w'.
Proof.
  intros Hp H. unfold pair_update_decimals in H. cbv zeta in H. inv_all; [|apply K_refl].
  split; [reflexivity|]. split.
  - intros q Hq. cbn [w_pairs set_pair]. rewrite upd_other; [exact Hq|]. intros ->. congruence.
  - intros t tk' Ht. exists tk'. auto.
Qed.

Ltac K_fact H := fail.
Ltac K_facts :=
  repeat match goal with
         | H : _ = Ok _ |- _ => K_fact H
         end.
Ltac K_fin := K_facts; cbn [fst snd] in *; K_chain.
Ltac K_solve := inv_all; K_fin.

Lemma bank_send_K w from to cs w' : bank_send w from to cs = Ok w' -> K w w'.
Proof. intros H. unfold bank_send in H. K_solve. Qed.

Ltac K_fact H ::=
  first [ apply bank_send_K in H ].

Lemma move_funds_K w from to funds w' : move_funds w from to funds = Ok w' -> K w w'.
Proof. intros H. unfold move_funds in H. K_solve. Qed.

Ltac K_fact H ::=
  first [ apply bank_send_K in H | apply move_funds_K in H
        | (apply with_token_K in H; [| solve [allow_side]])
        | (eapply pair_update_decimals_K in H; [| eassumption]) ].

Lemma pay_asset_K w from a n to w' : pay_asset w from a n to = Ok w' -> K w w'.
Proof. intros H. unfold pay_asset in H. K_solve. Qed.

Ltac K_fact H ::=
  first [ apply bank_send_K in H | apply move_funds_K in H
        | (apply with_token_K in H; [| solve [allow_side]])
        | (eapply pair_update_decimals_K in H; [| eassumption])
        | apply pay_asset_K in H ].

Lemma pair_swap_K w p ps funds sender offer amount bp ms to r :
  pair_swap w p ps funds sender offer amount bp ms to = Ok r -> K w (fst r).
Proof. intros H. unfold pair_swap in H. cbv beta zeta in H. K_solve. Qed.

Lemma pair_withdraw_K w p ps sender amount w' :
  pair_withdraw w p ps sender amount = Ok w' -> K w w'.
Proof. intros H. unfold pair_withdraw in H. cbv beta zeta in H. K_solve. Qed.

Lemma pair_provide_K w p ps c funds l0 n0 l1 n1 tol rcv w' :
  pair_provide w p ps c funds l0 n0 l1 n1 tol rcv = Ok w' -> K w w'.
Proof. intros H. unfold pair_provide in H. cbv beta zeta in H. K_solve. Qed.

Ltac K_fact H ::=
  first [ apply bank_send_K in H | apply move_funds_K in H
        | (apply with_token_K in H; [| solve [allow_side]])
        | (eapply pair_update_decimals_K in H; [| eassumption])
        | apply pay_asset_K in H | apply pair_swap_K in H | apply pair_withdraw_K in H
        | apply pair_provide_K in H ].

Lemma pair_receive_K w p ps c funds cs ca h w' :
  pair_receive w p ps c funds cs ca h = Ok w' -> K w w'.
Proof. intros H. unfold pair_receive in H. cbv beta zeta in H. K_solve. Qed.

Ltac K_fact H ::=
  first [ apply bank_send_K in H | apply move_funds_K in H
        | (apply with_token_K in H; [| solve [allow_side]])
        | (eapply pair_update_decimals_K in H; [| eassumption])
        | apply pay_asset_K in H | apply pair_swap_K in H | apply pair_withdraw_K in H
        | apply pair_provide_K in H | apply pair_receive_K in H ].

Lemma fac_update_records_K dn k todo : forall w done w',
  fac_update_records w dn k todo done = Ok w' -> K w w'.
Proof.
  induction todo as [|r todo IH]; intros w done w' H.
  - cbn [fac_update_records] in H. K_solve.
  - cbn [fac_update_records] in H. cbv beta zeta in H.
    inv_step. inv_step. apply IH in H.
    assert (K w v) by K_solve.
    assert (K v v0) by K_solve.
    K_chain.
Qed.

Lemma fac_add_native_K w c dn k w' : fac_add_native w c dn k = Ok w' -> K w w'.
Proof.
  intros H. unfold fac_add_native in H. cbv beta zeta in H. inv_all.
  - apply fac_update_records_K in H.
    eapply K_trans; [|exact H]. apply K_same; reflexivity.
  - apply K_same; reflexivity.
Qed.

Lemma fac_update_config_K w c o w' : fac_update_config w c o = Ok w' -> K w w'.
Proof. intros H. unfold fac_update_config in H. inv_all; destruct o; apply K_same; reflexivity. Qed.

Lemma fac_migrate_pair_K w c ct w' : fac_migrate_pair w c ct = Ok w' -> K w w'.
Proof. intros H. unfold fac_migrate_pair in H. inv_all. apply K_refl. Qed.

Lemma router_hop_K w offer ask to w' : router_hop w offer ask to = Ok w' -> K w w'.
Proof. intros H. unfold router_hop in H. cbv beta zeta in H. K_solve. Qed.

Ltac K_fact H ::=
  first [ apply bank_send_K in H | apply move_funds_K in H
        | (apply with_token_K in H; [| solve [allow_side]])
        | (eapply pair_update_decimals_K in H; [| eassumption])
        | apply pay_asset_K in H | apply pair_swap_K in H | apply pair_withdraw_K in H
        | apply pair_provide_K in H | apply pair_receive_K in H
        | apply fac_add_native_K in H | apply fac_update_config_K in H | apply fac_migrate_pair_K in H
        | apply router_hop_K in H ].

Lemma router_hops_K ops : forall w to w', router_hops w ops to = Ok w' -> K w w'.
Proof.
  induction ops as [|p ops IH]; intros w to w' H.
  - cbn in H. K_solve.
  - destruct ops as [|q rest].
    + destruct p as [o a]. cbn [router_hops] in H. K_solve.
    + rewrite router_hops_cons2 in H. inv_step. apply IH in H. K_fin.
Qed.

Lemma router_assert_min_K w t prev m r w' : router_assert_min w t prev m r = Ok w' -> K w w'.
Proof. intros H. apply router_assert_min_same in H. subst w'. apply K_refl. Qed.

Lemma router_exec_ops_K w s ops m to w' : router_exec_ops w s ops m to = Ok w' -> K w w'.
Proof.
  intros H. unfold router_exec_ops in H. cbv beta zeta in H.
  destruct ops as [|p ops]; [discriminate|].
  inv_step. destruct m as [m|].
  - inv_step. inv_step. apply router_hops_K in E1. apply router_assert_min_K in H. K_chain.
  - apply router_hops_K in H. exact H.
Qed.

Ltac K_fact H ::=
  first [ apply bank_send_K in H | apply move_funds_K in H
        | (apply with_token_K in H; [| solve [allow_side]])
        | (eapply pair_update_decimals_K in H; [| eassumption])
        | apply pay_asset_K in H | apply pair_swap_K in H | apply pair_withdraw_K in H
        | apply pair_provide_K in H | apply pair_receive_K in H
        | apply fac_add_native_K in H | apply fac_update_config_K in H | apply fac_migrate_pair_K in H
        | apply router_hop_K in H | apply router_exec_ops_K in H | apply router_assert_min_K in H ].

Lemma cw20_send_K w ta s target n h w' : cw20_send w ta s target n h = Ok w' -> K w w'.
Proof. intros H. unfold cw20_send in H. cbv beta zeta in H. K_solve. Qed.

Ltac K_fact H ::=
  first [ apply bank_send_K in H | apply move_funds_K in H
        | (apply with_token_K in H; [| solve [allow_side]])
        | (eapply pair_update_decimals_K in H; [| eassumption])
        | apply pay_asset_K in H | apply pair_swap_K in H | apply pair_withdraw_K in H
        | apply pair_provide_K in H | apply pair_receive_K in H
        | apply fac_add_native_K in H | apply fac_update_config_K in H | apply fac_migrate_pair_K in H
        | apply router_hop_K in H | apply router_exec_ops_K in H | apply router_assert_min_K in H
        | apply cw20_send_K in H ].

Lemma cw20_send_from_K w ta sp ow target n h w' : cw20_send_from w ta sp ow target n h = Ok w' -> K w w'.
Proof. intros H. unfold cw20_send_from in H. cbv beta zeta in H. K_solve. Qed.

Ltac K_fact H ::=
  first [ apply bank_send_K in H | apply move_funds_K in H
        | (apply with_token_K in H; [| solve [allow_side]])
        | (eapply pair_update_decimals_K in H; [| eassumption])
        | apply pay_asset_K in H | apply pair_swap_K in H | apply pair_withdraw_K in H
        | apply pair_provide_K in H | apply pair_receive_K in H
        | apply fac_add_native_K in H | apply fac_update_config_K in H | apply fac_migrate_pair_K in H
        | apply router_hop_K in H | apply router_exec_ops_K in H | apply router_assert_min_K in H
        | apply cw20_send_K in H | apply cw20_send_from_K in H ].

(* every operation other than IncreaseAllowance and pair creation *)
Lemma exec_K w o w' : exec w o = Ok w' ->
  match o with OFacCreatePair _ _ _ _ _ _ _ _ | OIncreaseAllowance _ _ _ _ => True | _ => K w w' end.
Proof.
  intros H. destruct o; try exact I; unfold exec in H; K_solve.
Qed.

(* ------------------------------------------------------------------------------------ *)
(* Dm / Gs: the account [x] is never debited, and the supply of token [x] never grows     *)
(* ------------------------------------------------------------------------------------ *)
Definition Dm (x : addr) (w w' : world) : Prop := forall y, bal w y x <= bal w' y x.
Definition Gs (x : addr) (w w' : world) : Prop := Dm x w w' /\ supply w' x <= supply w x.
(* the reserved unit, for the token at address [x] *)
Definition U (x : addr) (w : world) : Prop := 0 < supply w x -> 1 <= bal w (AToken x) x.
Definition G (x : addr) (w w' : world) : Prop := Dm x w w' /\ (U x w -> U x w').
(* what makes [x] safe from debits: it is neither a pair nor the router, and it holds no outgoing allowance *)
Definition Pre (x : addr) (w : world) : Prop :=
  w_pairs w x = None /\ x <> w_rtr w /\ (forall t tk sp, w_tokens w t = Some tk -> t_allow tk x sp = None).

Lemma Dm_refl x w : Dm x w w.
Proof. intros y. apply N.le_refl. Qed.
Lemma Dm_trans x w1 w2 w3 : Dm x w1 w2 -> Dm x w2 w3 -> Dm x w1 w3.
Proof. intros A B y. eapply N.le_trans; [apply A|apply B]. Qed.
Lemma Gs_refl x w : Gs x w w.
Proof. split; [apply Dm_refl|apply N.le_refl]. Qed.
Lemma Gs_trans x w1 w2 w3 : Gs x w1 w2 -> Gs x w2 w3 -> Gs x w1 w3.
Proof.
  intros (A1 & A2) (B1 & B2). split; [eapply Dm_trans; eassumption|].
  eapply N.le_trans; eassumption.
Qed.
Lemma U_mono x w w' : Dm x w w' -> supply w' x <= supply w x -> U x w -> U x w'.
Proof.
  intros Hd Hs Hu Hpos. specialize (Hd (AToken x)). unfold U in Hu.
  assert (P : 0 < supply w x) by (clear - Hs Hpos; lia).
  specialize (Hu P). clear - Hu Hd. lia.
Qed.
Lemma Gs_G x w w' : Gs x w w' -> G x w w'.
Proof. intros (A & B). split; [exact A|]. apply U_mono; assumption. Qed.
Lemma G_trans x w1 w2 w3 : G x w1 w2 -> G x w2 w3 -> G x w1 w3.
Proof. intros (A1 & A2) (B1 & B2). split; [eapply Dm_trans; eassumption|auto]. Qed.

Lemma K_Pre x w w' : K w w' -> Pre x w -> Pre x w'.
Proof.
  intros (K1 & K2 & K3) (P1 & P2 & P3). split; [apply K2; exact P1|]. split; [rewrite K1; exact P2|].
  intros t tk' sp Ht. destruct (K3 _ _ Ht) as (tk & Ht0 & Ha). apply Ha. eapply P3. exact Ht0.
Qed.

(* worlds with the same ledgers *)
Lemma Gs_same x w w' : w_bank w' = w_bank w -> w_tokens w' = w_tokens w -> Gs x w w'.
Proof.
  intros Hb Ht. split.
  - intros y. destruct y as [d|t]; cbn [bal]; rewrite ?Hb, ?Ht; apply N.le_refl.
  - unfold supply. rewrite Ht. apply N.le_refl.
Qed.

(* ---- bank ---- *)
Lemma bank_add_all_ge cs : forall b a b', bank_add_all b a cs = Ok b' -> forall x d, b x d <= b' x d.
Proof.
  induction cs as [|[d0 n] cs IH]; intros b a b' H x d; cbn [bank_add_all] in H.
  - inversion H. apply N.le_refl.
  - destruct (b a d0 + n <? W128); [|discriminate].
    eapply N.le_trans; [|apply (IH _ _ _ H)].
    unfold upd2. destruct ((x =? a) && (d =? d0)) eqn:E; [|apply N.le_refl].
    apply andb_true_iff in E. destruct E as [E1 E2]. apply N.eqb_eq in E1, E2. subst x d. apply N.le_add_r.
Qed.

Lemma bank_send_Gs x w from to cs w' : x <> from -> bank_send w from to cs = Ok w' -> Gs x w w'.
Proof.
  intros Hx H. apply bank_send_inv in H. destruct H as (nz & b1 & b2 & H1 & H2 & ->). split.
  - intros y. destruct y as [d|t]; cbn [bal set_bank w_bank w_tokens]; [|apply N.le_refl].
    rewrite <- (bank_sub_all_other _ _ _ _ H1 x d Hx). eapply bank_add_all_ge. exact H2.
  - unfold supply. cbn [set_bank w_tokens]. apply N.le_refl.
Qed.

Lemma move_funds_Gs x w from to cs w' : x <> from -> move_funds w from to cs = Ok w' -> Gs x w w'.
Proof.
  intros Hx H. unfold move_funds in H. destruct cs as [|c cs].
  - inversion H. apply Gs_refl.
  - eapply bank_send_Gs; eassumption.
Qed.

(* ---- cw20 ---- *)
Definition tok_ok (x : addr) (t t' : token) : Prop := t_supply t' <= t_supply t /\ t_bal t x <= t_bal t' x.

Lemma with_token_Dm x w ta f w' :
  (forall t t', w_tokens w ta = Some t -> f t = Ok t' -> t_bal t x <= t_bal t' x) ->
  with_token w ta f = Ok w' -> Dm x w w'.
Proof.
  intros Hf H. apply with_token_inv in H. destruct H as (t & t' & Ht & Hft & ->).
  intros y. rewrite set_token_bal. destruct (asset_eqb y (AToken ta)) eqn:E; [|apply N.le_refl].
  apply LedgerProofs.asset_eqb_eq in E. subst y. cbn [bal]. rewrite Ht. apply (Hf _ _ Ht Hft).
Qed.

Lemma with_token_Gs x w ta f w' :
  (forall t t', w_tokens w ta = Some t -> f t = Ok t' -> tok_ok x t t') ->
  with_token w ta f = Ok w' -> Gs x w w'.
Proof.
  intros Hf H. split.
  - eapply with_token_Dm; [|exact H]. intros t t' Ht Hft. apply (Hf _ _ Ht Hft).
  - apply with_token_inv in H. destruct H as (t & t' & Ht & Hft & ->).
    rewrite set_token_supply. destruct (x =? ta) eqn:E; [|apply N.le_refl].
    apply N.eqb_eq in E. subst x. unfold supply. rewrite Ht. apply (Hf _ _ Ht Hft).
Qed.

Lemma tok_transfer_ok x t from to n t' : x <> from -> tok_transfer t from to n = Ok t' -> tok_ok x t t'.
Proof.
  intros Hx H. apply tok_transfer_effect in H. destruct H as (_ & _ & _ & Hs & _ & _ & Hb). split.
  - rewrite Hs. apply N.le_refl.
  - rewrite Hb. destruct (from =? to); [apply N.le_refl|].
    destruct (x =? from) eqn:E; [apply N.eqb_eq in E; contradiction|].
    destruct (x =? to); [apply N.le_add_r|apply N.le_refl].
Qed.

Lemma transfer_Gs x w ta from to n w' :
  x <> from -> with_token w ta (fun t => tok_transfer t from to n) = Ok w' -> Gs x w w'.
Proof.
  intros Hx H. eapply with_token_Gs; [|exact H]. intros t t' _ Hf. cbv beta in Hf.
  eapply tok_transfer_ok; eassumption.
Qed.

Lemma transfer_from_Gs x w ta sp ow to n w' :
  Pre x w -> with_token w ta (fun t => tok_transfer_from t sp ow to n) = Ok w' -> Gs x w w'.
Proof.
  intros (_ & _ & Hp) H. eapply with_token_Gs; [|exact H]. intros t t' Ht Hf. cbv beta in Hf.
  apply tok_transfer_from_inv in Hf. destruct Hf as (Hal & _ & Hs & Hb). split.
  - rewrite Hs. apply N.le_refl.
  - apply Hb. intros ->. apply Hal. eapply Hp. exact Ht.
Qed.

Lemma burn_Gs x w ta sd n w' :
  x <> sd -> with_token w ta (fun t => tok_burn t sd n) = Ok w' -> Gs x w w'.
Proof.
  intros Hx H. eapply with_token_Gs; [|exact H]. intros t t' _ Hf. cbv beta in Hf.
  apply tok_burn_inv in Hf. destruct Hf as (_ & Hs & Hb). split; [exact Hs|].
  rewrite (Hb x Hx). apply N.le_refl.
Qed.

Lemma pay_asset_Gs x w from a n to w' : x <> from -> pay_asset w from a n to = Ok w' -> Gs x w w'.
Proof.
  intros Hx H. destruct a as [d|ta]; cbn [pay_asset] in H.
  - eapply bank_send_Gs; eassumption.
  - eapply transfer_Gs; eassumption.
Qed.

(* ---- pair ---- *)
Lemma pair_swap_Gs x w p ps funds sender offer amount bp ms to r :
  x <> p -> pair_swap w p ps funds sender offer amount bp ms to = Ok r -> Gs x w (fst r).
Proof.
  intros Hx H. apply pair_swap_pay in H. destruct H as [->|(ask & ret & H)]; [apply Gs_refl|].
  eapply pay_asset_Gs; eassumption.
Qed.

Lemma pair_withdraw_Gs x w p ps sender amount w' :
  x <> p -> pair_withdraw w p ps sender amount = Ok w' -> Gs x w w'.
Proof.
  intros Hx H. apply pair_withdraw_structure in H.
  destruct H as (total & x0 & x1 & w1 & w2 & _ & _ & P1 & P2 & Pb).
  apply (pay_asset_Gs x) in P1; [|exact Hx]. apply (pay_asset_Gs x) in P2; [|exact Hx].
  apply (burn_Gs x) in Pb; [|exact Hx].
  eapply Gs_trans; [exact P1|]. eapply Gs_trans; eassumption.
Qed.

Lemma pair_receive_Gs x w p ps c funds cs ca h w' :
  x <> p -> pair_receive w p ps c funds cs ca h = Ok w' -> Gs x w w'.
Proof.
  intros Hx H. destruct h as [offer amount bp ms to| |ops m to|]; cbn [pair_receive] in H; try discriminate.
  - destruct (negb (amount =? ca)); [discriminate|].
    bnd H b0 Hb0. bnd H b1 Hb1.
    destruct (negb _); [discriminate|]. destruct (negb _); [discriminate|].
    bnd H r Hs. inversion H. subst w'. eapply pair_swap_Gs; eassumption.
  - destruct (negb _); [discriminate|]. eapply pair_withdraw_Gs; eassumption.
Qed.

Lemma pair_update_decimals_Gs x w p ps c dn d0 d1 w' :
  pair_update_decimals w p ps c dn d0 d1 = Ok w' -> Gs x w w'.
Proof.
  unfold pair_update_decimals. destruct (negb _); [discriminate|].
  destruct (_ || _); intros H; inversion H; apply Gs_same; reflexivity.
Qed.

(* ---- router ---- *)
Lemma Pre_not_pair x w p ps : Pre x w -> w_pairs w p = Some ps -> x <> p.
Proof. intros (P1 & _) Hp ->. congruence. Qed.

Lemma router_hop_Gs x w offer ask to w' : Pre x w -> router_hop w offer ask to = Ok w' -> Gs x w w'.
Proof.
  intros HP H. unfold router_hop in H.
  destruct (reg_find (w_reg w) offer ask) as [r|]; [|discriminate]. cbv zeta in H.
  destruct (w_pairs w (f_pair r)) as [ps|] eqn:Ep; [|discriminate].
  pose proof (Pre_not_pair _ _ _ _ HP Ep) as Hxp.
  assert (Hxr : x <> w_rtr w) by apply HP.
  bnd H amount Ha. destruct offer as [d|ta].
  - bnd H w1 H1. bnd H rr Hs. inversion H. subst w'. clear H.
    apply (move_funds_Gs x) in H1; [|exact Hxr]. apply (pair_swap_Gs x) in Hs; [|exact Hxp].
    eapply Gs_trans; eassumption.
  - bnd H w1 H1.
    apply (transfer_Gs x) in H1; [|exact Hxr]. apply (pair_receive_Gs x) in H; [|exact Hxp].
    eapply Gs_trans; eassumption.
Qed.

Lemma router_hops_Gs x ops : forall w to w', Pre x w -> router_hops w ops to = Ok w' -> Gs x w w'.
Proof.
  induction ops as [|p ops IH]; intros w to w' HP H.
  - cbn [router_hops] in H. inversion H. apply Gs_refl.
  - destruct ops as [|q rest].
    + destruct p as [o a]. cbn [router_hops] in H. eapply router_hop_Gs; eassumption.
    + rewrite router_hops_cons2 in H. bnd H w1 H1.
      pose proof (router_hop_K _ _ _ _ _ H1) as K1.
      apply (router_hop_Gs x) in H1; [|exact HP].
      apply IH in H; [|eapply K_Pre; eassumption].
      eapply Gs_trans; eassumption.
Qed.

Lemma router_exec_ops_Gs x w sender ops m to w' :
  Pre x w -> router_exec_ops w sender ops m to = Ok w' -> Gs x w w'.
Proof.
  intros HP H. unfold router_exec_ops in H. destruct ops as [|p ops]; [discriminate|].
  bnd H u Hu. cbv zeta in H.
  assert (Hh : exists w1, router_hops w (p :: ops) (match to with Some t => t | None => sender end) = Ok w1 /\ w' = w1).
  { destruct m as [m|].
    - bnd H prev Hp. bnd H w1 H1. apply router_assert_min_same in H. eauto.
    - eauto. }
  destruct Hh as (w1 & Hh & ->). eapply router_hops_Gs; eassumption.
Qed.

Lemma cw20_send_Gs x w ta sd target n h w' :
  Pre x w -> x <> sd -> cw20_send w ta sd target n h = Ok w' -> Gs x w w'.
Proof.
  intros HP Hx H. unfold cw20_send in H. bnd H w1 H1.
  assert (HP1 : Pre x w1).
  { eapply K_Pre; [|exact HP]. eapply with_token_K; [|exact H1]. allow_side. }
  apply (transfer_Gs x) in H1; [|exact Hx].
  eapply Gs_trans; [exact H1|].
  destruct (w_pairs w1 target) as [ps|] eqn:Ep.
  - eapply pair_receive_Gs; [|exact H]. eapply Pre_not_pair; eassumption.
  - destruct (target =? w_rtr w1); [|discriminate].
    destruct h as [| |ops m to|]; try discriminate.
    eapply router_exec_ops_Gs; eassumption.
Qed.

(* BurnFrom / SendFrom debit the OWNER, who need not be the submitter: what protects [x] is that it holds no
   outgoing allowance ([Pre]), so nobody can spend from it *)
Lemma burn_from_Gs x w ta sp ow n w' :
  Pre x w -> with_token w ta (fun t => tok_burn_from t sp ow n) = Ok w' -> Gs x w w'.
Proof.
  intros (_ & _ & Hp) H. eapply with_token_Gs; [|exact H]. intros t t' Ht Hf. cbv beta in Hf.
  apply tok_burn_from_inv in Hf. destruct Hf as (Hal & _ & Hs & Hb). split; [exact Hs|].
  rewrite Hb; [apply N.le_refl|]. intros ->. apply Hal. eapply Hp. exact Ht.
Qed.

Lemma cw20_send_from_Gs x w ta sp ow target n h w' :
  Pre x w -> cw20_send_from w ta sp ow target n h = Ok w' -> Gs x w w'.
Proof.
  intros HP H. unfold cw20_send_from in H. bnd H w1 H1.
  assert (HP1 : Pre x w1).
  { eapply K_Pre; [|exact HP]. eapply with_token_K; [|exact H1]. allow_side. }
  apply (transfer_from_Gs x) in H1; [|exact HP].
  eapply Gs_trans; [exact H1|].
  destruct (w_pairs w1 target) as [ps|] eqn:Ep.
  - eapply pair_receive_Gs; [|exact H]. eapply Pre_not_pair; eassumption.
  - destruct (target =? w_rtr w1); [|discriminate].
    destruct h as [| |ops m to|]; try discriminate.
    eapply router_exec_ops_Gs; eassumption.
Qed.

Lemma decrease_allowance_Gs x w ta ow sp n w' :
  with_token w ta (fun t => tok_decrease_allowance t ow sp n) = Ok w' -> Gs x w w'.
Proof.
  intros H. eapply with_token_Gs; [|exact H]. intros t t' _ Hf. cbv beta in Hf.
  apply tok_decrease_allowance_effect in Hf. destruct Hf as (_ & al & _ & Hb & Hs & _).
  split; [rewrite Hs|rewrite Hb]; apply N.le_refl.
Qed.

(* ---- factory ---- *)
Lemma fac_update_records_Gs x dn k todo : forall w done w',
  fac_update_records w dn k todo done = Ok w' -> Gs x w w'.
Proof.
  induction todo as [|r todo IH]; intros w done w' H; cbn [fac_update_records] in H.
  - inversion H. apply Gs_same; reflexivity.
  - cbv zeta in H. bnd H w1 H1. bnd H w2 H2. apply IH in H.
    assert (S1 : Gs x w w1).
    { destruct (asset_eqb (f_a0 r) (ANative dn)); [|inversion H1; apply Gs_refl].
      destruct (w_pairs w (f_pair r)); [|discriminate]. eapply pair_update_decimals_Gs. exact H1. }
    assert (S2 : Gs x w1 w2).
    { destruct (asset_eqb (f_a1 r) (ANative dn)); [|inversion H2; apply Gs_refl].
      destruct (w_pairs w1 (f_pair r)); [|discriminate]. eapply pair_update_decimals_Gs. exact H2. }
    eapply Gs_trans; [exact S1|]. eapply Gs_trans; eassumption.
Qed.

Lemma fac_add_native_Gs x w c dn k w' : fac_add_native w c dn k = Ok w' -> Gs x w w'.
Proof.
  unfold fac_add_native. cbv zeta. destruct (negb _); [discriminate|].
  destruct (_ =? 0); [discriminate|].
  destruct (w_natives w dn); intros H.
  - apply (fac_update_records_Gs x) in H. eapply Gs_trans; [|exact H]. apply Gs_same; reflexivity.
  - inversion H. apply Gs_same; reflexivity.
Qed.

Lemma fac_update_config_Gs x w c o w' : fac_update_config w c o = Ok w' -> Gs x w w'.
Proof.
  unfold fac_update_config. destruct (negb _); [discriminate|]. intros H. inversion H.
  destruct o; apply Gs_same; reflexivity.
Qed.

Lemma fac_migrate_pair_Gs x w c ct w' : fac_migrate_pair w c ct = Ok w' -> Gs x w w'.
Proof.
  unfold fac_migrate_pair. destruct (negb _); [discriminate|]. destruct (w_pairs w ct); [|discriminate].
  intros H. inversion H. apply Gs_refl.
Qed.

(* ------------------------------------------------------------------------------------ *)
(* minting and the provision                                                             *)
(* ------------------------------------------------------------------------------------ *)
Lemma mint_Dm x w lp s r n w' : with_token w lp (fun t => tok_mint t s r n) = Ok w' ->
  Dm x w w' /\ (x <> lp -> supply w' x = supply w x).
Proof.
  intros H. split.
  - eapply with_token_Dm; [|exact H]. intros t t' _ Hf. cbv beta in Hf.
    apply tok_mint_inv in Hf. apply Hf.
  - intros Hx. apply with_token_inv in H. destruct H as (t & t' & _ & _ & ->).
    rewrite set_token_supply. apply N.eqb_neq in Hx. rewrite Hx. reflexivity.
Qed.

Lemma token_supply_supply w t total : token_supply w t = Ok total -> total = supply w t.
Proof.
  unfold token_supply, supply. destruct (w_tokens w t); [|discriminate]. intros H. inversion H. reflexivity.
Qed.

Lemma pull_Gs x w a sp ow to n w1 :
  Pre x w ->
  (match a with AToken ta => with_token w ta (fun t => tok_transfer_from t sp ow to n) | ANative _ => Ok w end) = Ok w1 ->
  Gs x w w1 /\ Pre x w1.
Proof.
  intros HP H. destruct a as [d|ta].
  - inversion H. subst w1. split; [apply Gs_refl|exact HP].
  - split; [eapply transfer_from_Gs; eassumption|].
    eapply K_Pre; [|exact HP]. eapply with_token_K; [|exact H]. allow_side.
Qed.

Lemma pair_provide_G x w p ps c funds l0 n0 l1 n1 tol rcv w' :
  Pre x w -> pair_provide w p ps c funds l0 n0 l1 n1 tol rcv = Ok w' -> G x w w'.
Proof.
  intros HP H. apply pair_provide_structure in H.
  destruct H as (r0 & r1 & d0 & d1 & q0 & q1 & total & share & _ & _ & _ & _ & _ & _ & _ & _ & _ &
                 Htot & _ & Hsh & w1 & w2 & Hw1 & Hw2 & H).
  cbv zeta in H.
  destruct (pull_Gs x _ _ _ _ _ _ _ HP Hw1) as (G1 & HP1).
  destruct (pull_Gs x _ _ _ _ _ _ _ HP1 Hw2) as (G2 & HP2).
  pose proof (Gs_trans _ _ _ _ G1 G2) as (D12 & S12).
  apply token_supply_supply in Htot.
  remember (match rcv with Some x0 => x0 | None => c end) as r eqn:Er. clear Er.
  destruct (total =? 0) eqn:Et.
  - destruct H as (w3 & M1 & L1 & M2).
    destruct (mint_Dm x _ _ _ _ _ _ M1) as (D3 & S3).
    destruct (mint_Dm x _ _ _ _ _ _ M2) as (D4 & S4).
    assert (DD : Dm x w w').
    { eapply Dm_trans; [exact D12|]. eapply Dm_trans; eassumption. }
    split; [exact DD|].
    destruct (N.eq_dec x (p_lp ps)) as [->|Ne].
    + intros _ _. apply mint_effect in M1. destruct M1 as (tk & tk3 & A1 & A3 & _ & B3).
      specialize (D4 (AToken (p_lp ps))).
      assert (B : 1 <= bal w3 (AToken (p_lp ps)) (p_lp ps)).
      { cbn [bal]. rewrite A3, B3, N.eqb_refl. clear. lia. }
      clear - B D4. lia.
    + apply U_mono; [exact DD|]. rewrite (S4 Ne), (S3 Ne). exact S12.
  - apply N.eqb_neq in Et.
    destruct (mint_Dm x _ _ _ _ _ _ H) as (D3 & S3).
    assert (DD : Dm x w w') by (eapply Dm_trans; eassumption).
    split; [exact DD|].
    destruct (N.eq_dec x (p_lp ps)) as [->|Ne].
    + intros Hu _. unfold U in Hu. rewrite <- Htot in Hu.
      specialize (DD (AToken (p_lp ps))).
      assert (P : 0 < total) by (clear - Et; lia).
      specialize (Hu P). clear - Hu DD. lia.
    + apply U_mono; [exact DD|]. rewrite (S3 Ne). exact S12.
Qed.

(* ------------------------------------------------------------------------------------ *)
(* user-submitted operations                                                             *)
(* ------------------------------------------------------------------------------------ *)
Lemma lp_facts w p ps : WF w -> Inert' w -> w_pairs w p = Some ps ->
  is_contract w (p_lp ps) /\ Pre (p_lp ps) w /\ exists lt, w_tokens w (p_lp ps) = Some lt /\ t_minter lt = Some p.
Proof.
  intros HW HI Hp.
  destruct (WF_pair _ _ _ HW Hp) as (_ & _ & _ & (lt & K4 & K4') & _).
  assert (Hc : is_contract w (p_lp ps)).
  { right. right. right. left. rewrite K4. discriminate. }
  split; [exact Hc|]. split; [|eauto].
  destruct HW as (_ & _ & T). destruct HI as ((I1 & _) & _ & R2). split; [|split].
  - destruct (w_pairs w (p_lp ps)) eqn:E; [|reflexivity].
    assert (X : w_tokens w (p_lp ps) = None) by (apply T; rewrite E; discriminate). congruence.
  - intros E. rewrite <- E in R2. congruence.
  - intros t tk sp Ht. eapply I1; eassumption.
Qed.

Lemma exec_G w o w' p ps :
  WF w -> Inert' w -> ~ is_contract w (caller_of o) -> exec w o = Ok w' -> w_pairs w p = Some ps ->
  match o with OFacCreatePair _ _ _ _ _ _ _ _ => True | _ => G (p_lp ps) w w' end.
Proof.
  intros HW HI Hc H Hp.
  destruct (lp_facts _ _ _ HW HI Hp) as (Hxc & HP & lt & Hlt & Hmint).
  assert (Hpc : is_contract w p).
  { right. right. left. rewrite Hp. discriminate. }
  assert (Hxu : p_lp ps <> caller_of o) by (intros E; apply Hc; rewrite <- E; exact Hxc).
  assert (Hpu : p <> caller_of o) by (intros E; apply Hc; rewrite <- E; exact Hpc).
  remember (p_lp ps) as x eqn:Ex.
  destruct o; cbn [exec caller_of] in *; try exact I.
  - (* OBankSend *) apply Gs_G. eapply bank_send_Gs; eassumption.
  - (* OTransfer *) apply Gs_G. eapply transfer_Gs; eassumption.
  - (* OTransferFrom *) apply Gs_G. eapply transfer_from_Gs; eassumption.
  - (* OIncreaseAllowance *)
    apply Gs_G. eapply with_token_Gs; [|exact H]. intros t t' _ Hf. cbv beta in Hf.
    unfold tok_increase_allowance in Hf. destruct (spender =? owner); [discriminate|]. cbv zeta in Hf.
    destruct (_ <? W128); [|discriminate]. inversion Hf. split; cbn [t_supply t_bal]; apply N.le_refl.
  - (* OMint *)
    destruct (mint_Dm x _ _ _ _ _ _ H) as (D1 & S1).
    split; [exact D1|].
    destruct (N.eq_dec x ta) as [E|Ne].
    + exfalso. subst ta. apply with_token_inv in H. destruct H as (t & t' & Ht & Hf & _).
      apply tok_mint_inv in Hf. destruct Hf as (_ & _ & Hm & _).
      rewrite Hlt in Ht. inversion Ht. subst t. rewrite Hmint in Hm. inversion Hm. contradiction.
    + apply U_mono; [exact D1|]. rewrite (S1 Ne). apply N.le_refl.
  - (* OBurn *) apply Gs_G. eapply burn_Gs; eassumption.
  - (* OSend *) apply Gs_G. eapply cw20_send_Gs; eassumption.
  - (* OProvide *)
    destruct (w_pairs w p0) as [ps0|] eqn:Ep0; [|discriminate]. bnd H w1 H1.
    pose proof (move_funds_K _ _ _ _ _ H1) as K1.
    apply (move_funds_Gs x) in H1; [|exact Hxu].
    eapply G_trans; [apply Gs_G; exact H1|].
    eapply pair_provide_G; [|exact H]. eapply K_Pre; eassumption.
  - (* OSwap *)
    destruct (w_pairs w p0) as [ps0|] eqn:Ep0; [|discriminate]. bnd H w1 H1.
    destruct (negb _); [discriminate|]. bnd H r Hs. inversion H. subst w'. clear H.
    apply Gs_G. apply (move_funds_Gs x) in H1; [|exact Hxu].
    apply (pair_swap_Gs x) in Hs; [|eapply Pre_not_pair; eassumption].
    eapply Gs_trans; eassumption.
  - (* OPairReceive *)
    destruct (w_pairs w p0) as [ps0|] eqn:Ep0; [|discriminate]. bnd H w1 H1.
    apply Gs_G. apply (move_funds_Gs x) in H1; [|exact Hxu].
    apply (pair_receive_Gs x) in H; [|eapply Pre_not_pair; eassumption].
    eapply Gs_trans; eassumption.
  - (* OPairUpdateDecimals *)
    destruct (w_pairs w p0) as [ps0|] eqn:Ep0; [|discriminate].
    apply Gs_G. eapply pair_update_decimals_Gs. exact H.
  - (* ORouterOps *)
    bnd H w1 H1. pose proof (move_funds_K _ _ _ _ _ H1) as K1.
    apply Gs_G. apply (move_funds_Gs x) in H1; [|exact Hxu].
    eapply Gs_trans; [exact H1|]. eapply router_exec_ops_Gs; [|exact H]. eapply K_Pre; eassumption.
  - (* ORouterOp *)
    bnd H w1 H1. destruct (negb _); [discriminate|].
    pose proof (move_funds_K _ _ _ _ _ H1) as K1.
    apply Gs_G. apply (move_funds_Gs x) in H1; [|exact Hxu].
    eapply Gs_trans; [exact H1|]. eapply router_hop_Gs; [|exact H]. eapply K_Pre; eassumption.
  - (* ORouterAssertMin *)
    destruct (negb _); [discriminate|]. apply router_assert_min_same in H. subst w'. apply Gs_G, Gs_refl.
  - (* ORouterReceive *)
    destruct h as [| |ops m to|]; try discriminate. apply Gs_G. eapply router_exec_ops_Gs; eassumption.
  - (* OFacUpdateConfig *) apply Gs_G. eapply fac_update_config_Gs. exact H.
  - (* OFacAddNative *) apply Gs_G. eapply fac_add_native_Gs. exact H.
  - (* OFacMigrate *) apply Gs_G. eapply fac_migrate_pair_Gs. exact H.
  - (* OSendFrom: the owner debited is not [x], because [x] is a contract and contracts hold no allowance *)
    apply Gs_G. eapply cw20_send_from_Gs; eassumption.
  - (* OBurnFrom *) apply Gs_G. eapply burn_from_Gs; eassumption.
  - (* ODecreaseAllowance *) apply Gs_G. eapply decrease_allowance_Gs. exact H.
Qed.

(* allowances of contracts: K restricted to contract owners (IncreaseAllowance by a user included) *)
Definition Kc (w w' : world) : Prop :=
  w_rtr w' = w_rtr w /\
  (forall t tk', w_tokens w' t = Some tk' -> exists tk, w_tokens w t = Some tk /\
     forall c sp, is_contract w c -> t_allow tk c sp = None -> t_allow tk' c sp = None).

Lemma K_Kc w w' : K w w' -> Kc w w'.
Proof.
  intros (K1 & _ & K3). split; [exact K1|]. intros t tk' Ht.
  destruct (K3 _ _ Ht) as (tk & Ht0 & Ha). exists tk. split; [exact Ht0|]. intros c sp _. apply Ha.
Qed.

Lemma exec_Kc w o w' : ~ is_contract w (caller_of o) -> exec w o = Ok w' ->
  match o with OFacCreatePair _ _ _ _ _ _ _ _ => True | _ => Kc w w' end.
Proof.
  intros Hc H. pose proof (exec_K _ _ _ H) as HK.
  destruct o; try exact I; try (apply K_Kc; exact HK).
  cbn [exec caller_of] in *. apply with_token_inv in H. destruct H as (t & t' & Ht & Hf & ->).
  split; [reflexivity|]. intros u tk' Hu. cbn [set_token w_tokens] in Hu.
  destruct (N.eq_dec u ta) as [->|Ne].
  - rewrite upd_same in Hu. injection Hu as <-. exists t. split; [exact Ht|].
    intros c sp Hcc Hn. unfold tok_increase_allowance in Hf.
    destruct (spender =? owner); [discriminate|]. cbv zeta in Hf.
    destruct (_ <? W128); [|discriminate]. inversion Hf. cbn [t_allow].
    destruct ((c =? owner) && (sp =? spender)) eqn:E; [|exact Hn].
    apply andb_true_iff in E. destruct E as [E1 _]. apply N.eqb_eq in E1. subst c. contradiction.
  - rewrite upd_other in Hu by exact Ne. exists tk'. split; [exact Hu|auto].
Qed.

Lemma ext_is_contract w w' c : ext w w' -> w_rtr w' = w_rtr w -> is_contract w' c -> is_contract w c.
Proof.
  intros (Hn & Hf & Ht & Hp) Hr Hc. unfold is_contract in *. rewrite Hn, Hf, Hr in Hc.
  destruct Hc as [Hc|[Hc|[Hc|[Hc|Hc]]]]; [tauto|tauto| | |tauto].
  - right. right. left. specialize (Hp c). destruct (w_pairs w c); [discriminate|].
    destruct (w_pairs w' c); [contradiction|exact Hc].
  - right. right. right. left. specialize (Ht c). destruct (w_tokens w c); [discriminate|].
    destruct (w_tokens w' c); [contradiction|exact Hc].
Qed.

Lemma Inert'_from w w' :
  WF w -> Inert' w -> ext w w' -> Kc w w' ->
  (forall p ps, w_pairs w p = Some ps -> G (p_lp ps) w w') -> Inert' w'.
Proof.
  intros HW ((I1 & I2) & R1 & R2) He (Kr & Ka) HG.
  split; [split|].
  - intros t tk' c sp Ht Hc. apply (ext_is_contract _ _ _ He Kr) in Hc.
    destruct (Ka _ _ Ht) as (tk & Ht0 & Ha). apply Ha; [exact Hc|]. eapply I1; eassumption.
  - intros p ps' Hp' Hpos. destruct He as (_ & _ & _ & Hp). specialize (Hp p). rewrite Hp' in Hp.
    destruct (w_pairs w p) as [ps|] eqn:Ep; [|contradiction]. cbn in Hp.
    destruct Hp as (_ & _ & Hl & _). rewrite Hl in *.
    destruct (HG _ _ Ep) as (_ & HU). apply HU; [|exact Hpos]. exact (I2 _ _ Ep).
  - destruct He as (Hn & _ & Ht & _). rewrite Kr, Hn. split; [exact R1|].
    specialize (Ht (w_rtr w)). rewrite R2 in Ht. destruct (w_tokens w' (w_rtr w)); [contradiction|reflexivity].
Qed.

(* ---- pair creation ---- *)
Lemma fac_create_pair_inv w c a0 a1 wl m0 m1 cm ld w' :
  fac_create_pair w c a0 a1 wl m0 m1 cm ld = Ok w' ->
  exists ps lt r, p_lp ps = w_next w + 1 /\ t_allow lt = (fun _ _ => None) /\ t_supply lt = 0 /\
    w' = set_next (set_reg (set_token (set_pair w (w_next w) ps) (w_next w + 1) lt) r) (w_next w + 2).
Proof.
  intros H. unfold fac_create_pair in H.
  destruct (negb _); [discriminate|]. destruct (asset_eqb a0 a1); [discriminate|].
  destruct (match cm with Some c0 => D <? c0 | None => false end); [discriminate|].
  bnd H d0 Hd0. bnd H d1 Hd1. destruct (reg_find _ _ _); [discriminate|]. cbv zeta in H.
  destruct (18 <? _); [discriminate|]. inversion H. clear H.
  eexists _, _, _. split; [|split; [|split; [|reflexivity]]]; reflexivity.
Qed.

Lemma fac_create_pair_Inert' w c a0 a1 wl m0 m1 cm ld w' :
  WF w -> Inert' w -> w_next w + 2 <= 1000 ->
  fac_create_pair w c a0 a1 wl m0 m1 cm ld = Ok w' -> Inert' w'.
Proof.
  intros HW ((I1 & I2) & R1 & R2) Hroom H.
  apply fac_create_pair_inv in H. destruct H as (ps & lt & r & Hlp & Hal & Hsu & ->).
  split; [split|]; cbn [w_tokens w_pairs w_next w_fac w_rtr set_next set_reg set_token set_pair].
  - intros t tk c0 sp Ht Hc.
    assert (Hc0 : is_contract w c0).
    { unfold is_contract in *. cbn [w_tokens w_pairs w_next w_fac w_rtr set_next set_reg set_token set_pair] in Hc.
      destruct Hc as [Hc|[Hc|[Hc|[Hc|Hc]]]]; [tauto|tauto| | |].
      - destruct (N.eq_dec c0 (w_next w)) as [->|Ne].
        + right. right. right. right. clear - Hroom. lia.
        + rewrite upd_other in Hc by exact Ne. tauto.
      - destruct (N.eq_dec c0 (w_next w + 1)) as [->|Ne].
        + right. right. right. right. clear - Hroom. lia.
        + rewrite upd_other in Hc by exact Ne. tauto.
      - right. right. right. right. clear - Hc. lia. }
    destruct (N.eq_dec t (w_next w + 1)) as [->|Ne].
    + rewrite upd_same in Ht. injection Ht as <-. rewrite Hal. reflexivity.
    + rewrite upd_other in Ht by exact Ne. eapply I1; eassumption.
  - intros p ps0 Hp Hpos.
    destruct (N.eq_dec p (w_next w)) as [->|Ne].
    + exfalso. rewrite upd_same in Hp. injection Hp as <-.
      unfold supply in Hpos. cbn [w_tokens set_next set_reg set_token set_pair] in Hpos.
      rewrite Hlp, upd_same, Hsu in Hpos. clear - Hpos. lia.
    + rewrite upd_other in Hp by exact Ne.
      destruct (WF_pair _ _ _ HW Hp) as (_ & L & _).
      assert (Nl : p_lp ps0 <> w_next w + 1) by (clear - L; lia).
      unfold supply in *. cbn [bal w_tokens set_next set_reg set_token set_pair] in *.
      rewrite upd_other in * by exact Nl. apply (I2 _ _ Hp). exact Hpos.
  - split; [clear - R1; lia|]. rewrite upd_other by (clear - R1; lia). exact R2.
Qed.

(* ------------------------------------------------------------------------------------ *)
(* THE theorems                                                                          *)
(* ------------------------------------------------------------------------------------ *)
(* pair creation needs room below the user address space *)
Definition room (w : world) (o : op) : Prop :=
  match o with OFacCreatePair _ _ _ _ _ _ _ _ => w_next w + 2 <= 1000 | _ => True end.

(* ORIGINAL STATEMENT (false, see the end of the file):
   Theorem exec_preserves_Inert : forall w o w', WF w -> Inert w -> ~ is_contract w (caller_of o) -> exec w o = Ok w' -> Inert w'. *)
Theorem exec_preserves_Inert_variant : forall w o w',
  WF w -> Inert' w -> ~ is_contract w (caller_of o) -> room w o -> exec w o = Ok w' -> Inert' w'.
Proof.
  intros w o w' HW HI Hc Hroom H.
  pose proof (exec_ext _ _ _ H) as He.
  pose proof (exec_Kc _ _ _ Hc H) as Hk.
  pose proof (fun p ps => exec_G w o w' p ps HW HI Hc H) as Hg.
  destruct o; try (eapply Inert'_from; eassumption).
  cbn [exec room] in *. eapply fac_create_pair_Inert'; eassumption.
Qed.

Corollary exec_preserves_Inert_variant0 : forall w o w',
  WF w -> Inert' w -> ~ is_contract w (caller_of o) -> room w o -> exec w o = Ok w' -> Inert w'.
Proof. intros. apply Inert'_Inert. eapply exec_preserves_Inert_variant; eassumption. Qed.

(* a history of user-submitted operations *)
Fixpoint user_ops (w : world) (ops : list op) : Prop :=
  match ops with [] => True | o :: rest => ~ is_contract w (caller_of o) /\ user_ops (step w o) rest end.

Lemma step_next_mono w o : w_next w <= w_next (step w o).
Proof.
  unfold step. destruct (exec w o) as [w'|e] eqn:E; [|apply N.le_refl].
  pose proof (exec_ext _ _ _ E) as He.
  destruct o; try (destruct He as (Hn & _); rewrite Hn; apply N.le_refl).
  cbn [exec] in E. apply fac_create_pair_inv in E. destruct E as (ps & lt & r & _ & _ & _ & ->).
  cbn [w_next set_next]. clear. lia.
Qed.

Lemma run_next_mono ops : forall w, w_next w <= w_next (run w ops).
Proof.
  induction ops as [|o ops IH]; intros w; [apply N.le_refl|].
  change (run w (o :: ops)) with (run (step w o) ops).
  eapply N.le_trans; [apply step_next_mono|apply IH].
Qed.

Lemma step_room w o : w_next (step w o) <= 1000 -> room w o \/ step w o = w.
Proof.
  intros Hb. unfold step in *. destruct (exec w o) as [w'|e] eqn:E; [|right; reflexivity]. left.
  destruct o; try exact I. cbn [room exec] in *.
  apply fac_create_pair_inv in E. destruct E as (ps & lt & r & _ & _ & _ & ->).
  cbn [w_next set_next] in Hb. exact Hb.
Qed.

(* ORIGINAL STATEMENT (false, as [exec_preserves_Inert]):
   Theorem run_preserves_Inert : forall ops w, WF w -> Inert w -> user_ops w ops -> WF (run w ops) /\ Inert (run w ops). *)
Theorem run_preserves_Inert_variant : forall ops w,
  WF w -> Inert' w -> user_ops w ops -> w_next (run w ops) <= 1000 -> WF (run w ops) /\ Inert' (run w ops).
Proof.
  induction ops as [|o ops IH]; intros w HW HI Hu Hb.
  - split; assumption.
  - change (run w (o :: ops)) with (run (step w o) ops) in *.
    cbn [user_ops] in Hu. destruct Hu as (Hc & Hu).
    apply IH; [apply step_preserves_WF; exact HW| |exact Hu|exact Hb].
    assert (Hb1 : w_next (step w o) <= 1000).
    { eapply N.le_trans; [apply run_next_mono|exact Hb]. }
    destruct (step_room _ _ Hb1) as [Hr|Hs]; [|rewrite Hs; exact HI].
    unfold step. destruct (exec w o) as [w'|e] eqn:E; [|exact HI].
    eapply exec_preserves_Inert_variant; eassumption.
Qed.

Corollary run_preserves_Inert_variant0 : forall ops w,
  WF w -> Inert' w -> user_ops w ops -> w_next (run w ops) <= 1000 -> WF (run w ops) /\ Inert (run w ops).
Proof.
  intros ops w HW HI Hu Hb. destruct (run_preserves_Inert_variant ops w HW HI Hu Hb) as (A & B).
  split; [exact A|apply Inert'_Inert; exact B].
Qed.

(* C05: the reserved unit can never be spent: the LP token's own balance of its LP never decreases under user-submitted operations *)
(* ORIGINAL STATEMENT (false when the router sits at the LP token's address, see the end of the file):
   Theorem locked_unit_never_decreases : forall w o w' p ps,
     WF w -> Inert w -> ~ is_contract w (caller_of o) -> exec w o = Ok w' -> w_pairs w p = Some ps ->
     bal w (AToken (p_lp ps)) (p_lp ps) <= bal w' (AToken (p_lp ps)) (p_lp ps). *)
Theorem locked_unit_never_decreases_variant : forall w o w' p ps,
  WF w -> Inert' w -> ~ is_contract w (caller_of o) -> exec w o = Ok w' -> w_pairs w p = Some ps ->
  bal w (AToken (p_lp ps)) (p_lp ps) <= bal w' (AToken (p_lp ps)) (p_lp ps).
Proof.
  intros w o w' p ps HW HI Hc H Hp.
  pose proof (exec_G w o w' p ps HW HI Hc H Hp) as Hg.
  destruct o; try (destruct Hg as (Hd & _); apply Hd).
  cbn [exec] in H. apply fac_create_pair_same_bal in H.
  - rewrite H. apply N.le_refl.
  - eapply WF_fresh_tokens; [exact HW|]. clear. lia.
Qed.

(* more generally: no asset held by the LP token's address ever decreases *)
Theorem lp_address_never_debited : forall w o w' p ps y,
  WF w -> Inert' w -> ~ is_contract w (caller_of o) -> exec w o = Ok w' -> w_pairs w p = Some ps ->
  bal w y (p_lp ps) <= bal w' y (p_lp ps).
Proof.
  intros w o w' p ps y HW HI Hc H Hp.
  pose proof (exec_G w o w' p ps HW HI Hc H Hp) as Hg.
  destruct o; try (destruct Hg as (Hd & _); apply Hd).
  cbn [exec] in H. apply fac_create_pair_same_bal in H.
  - rewrite H. apply N.le_refl.
  - eapply WF_fresh_tokens; [exact HW|]. clear. lia.
Qed.

(* a world with no pairs and no allowances is inert (the harness's initial world) *)
Theorem Inert_start : forall w, (forall p, w_pairs w p = None) -> (forall t tk o sp, w_tokens w t = Some tk -> t_allow tk o sp = None) -> Inert w.
Proof.
  intros w Hp Ha. split.
  - intros t tk c sp Ht _. eapply Ha. exact Ht.
  - intros p ps H. rewrite Hp in H. discriminate.
Qed.

Theorem Inert'_start : forall w, (forall p, w_pairs w p = None) -> (forall t tk o sp, w_tokens w t = Some tk -> t_allow tk o sp = None) ->
  w_rtr w < w_next w -> w_tokens w (w_rtr w) = None -> Inert' w.
Proof.
  intros w Hp Ha R1 R2. split; [apply Inert_start; assumption|]. split; assumption.
Qed.

(* ------------------------------------------------------------------------------------ *)
(* counterexamples to the original statements                                            *)
(* ------------------------------------------------------------------------------------ *)
(* 1. The router's address is the LP token of pair 4 (WF and Inert do not exclude this).  That LP token is
      itself an asset of pair 6.  A user routes (LP4 -> native 0): the router forwards its whole LP4 balance,
      which is the reserved unit, to pair 6. *)
Definition cx_comm : N := 3000000000000000.
Definition cx_tok (a : addr) : option token :=
  if a =? 2 then Some (mkToken (fun x => if x =? 1000 then 1000 else 0) (fun _ _ => None) 1000 (Some 1000) 6)
  else if a =? 5 then Some (mkToken (fun x => if x =? 5 then 1 else if x =? 6 then 100 else if x =? 1000 then 899 else 0)
                                    (fun _ _ => None) 1000 (Some 4) 6)
  else if a =? 7 then Some (mkToken (fun x => if x =? 7 then 1 else if x =? 1000 then 99 else 0) (fun _ _ => None) 100 (Some 6) 6)
  else None.
Definition cx_ps4 : pairst := mkPair (ANative 0) (AToken 2) 6 6 5 [] 0 0 cx_comm 0.
Definition cx_ps6 : pairst := mkPair (AToken 5) (ANative 0) 6 6 7 [] 0 0 cx_comm 0.
Definition cx_pairs (a : addr) : option pairst :=
  if a =? 4 then Some cx_ps4 else if a =? 6 then Some cx_ps6 else None.
Definition cx_w : world :=
  mkWorld (fun a d => if (a =? 6) && (d =? 0) then 100 else 0) cx_tok cx_pairs 0 5 1000 (fun _ => Some 6)
    [mkRec (ANative 0) (AToken 2) 4 5 6 6 [] 0 0 cx_comm; mkRec (AToken 5) (ANative 0) 6 7 6 6 [] 0 0 cx_comm] 8.
Definition cx_o : op := ORouterOps 1000 [] [(AToken 5, ANative 0)] None None.

Ltac eqb_goal :=
  repeat match goal with
         | |- context [?a =? ?b] =>
             let E := fresh "E" in destruct (a =? b) eqn:E; [apply N.eqb_eq in E; first [discriminate E | subst]|]
         end.
Lemma cx_pair_ok4 : pair_ok cx_w 4 cx_ps4.
Proof.
  unfold pair_ok. cbn [cx_w cx_ps4 w_next w_tokens w_fac p_a0 p_a1 p_lp p_comm p_fac].
  split; [reflexivity|]. split; [reflexivity|]. split; [discriminate|].
  split; [eexists; split; reflexivity|]. split; [reflexivity|]. split; [reflexivity|]. split; [reflexivity|].
  split; [|split; [vm_compute; discriminate|reflexivity]].
  intros t [H|H]; inversion H. subst t. discriminate.
Qed.
Lemma cx_pair_ok6 : pair_ok cx_w 6 cx_ps6.
Proof.
  unfold pair_ok. cbn [cx_w cx_ps6 w_next w_tokens w_fac p_a0 p_a1 p_lp p_comm p_fac].
  split; [reflexivity|]. split; [reflexivity|]. split; [discriminate|].
  split; [eexists; split; reflexivity|]. split; [reflexivity|]. split; [reflexivity|]. split; [reflexivity|].
  split; [|split; [vm_compute; discriminate|reflexivity]].
  intros t [H|H]; inversion H. subst t. discriminate.
Qed.

Lemma cx_WF : WF cx_w.
Proof.
  split; [|split].
  - intros q Hq. cbn [cx_w w_next w_tokens w_pairs] in *. unfold cx_tok, cx_pairs.
    split; eqb_goal; try reflexivity; exfalso; clear - Hq; lia.
  - intros p ps Hp. cbn [cx_w w_pairs] in Hp. unfold cx_pairs in Hp.
    destruct (p =? 4) eqn:E4; [apply N.eqb_eq in E4; subst p; injection Hp as <-; exact cx_pair_ok4|].
    destruct (p =? 6) eqn:E6; [apply N.eqb_eq in E6; subst p; injection Hp as <-; exact cx_pair_ok6|].
    discriminate.
  - intros p Hp. cbn [cx_w w_pairs w_tokens] in *. unfold cx_pairs in Hp.
    destruct (p =? 4) eqn:E4; [apply N.eqb_eq in E4; subst p; reflexivity|].
    destruct (p =? 6) eqn:E6; [apply N.eqb_eq in E6; subst p; reflexivity|].
    exfalso. apply Hp. reflexivity.
Qed.

Lemma cx_Inert : Inert cx_w.
Proof.
  split.
  - intros t tk c sp Ht _. cbn [cx_w w_tokens] in Ht. unfold cx_tok in Ht.
    destruct (t =? 2); [injection Ht as <-; reflexivity|].
    destruct (t =? 5); [injection Ht as <-; reflexivity|].
    destruct (t =? 7); [injection Ht as <-; reflexivity|discriminate].
  - intros p ps Hp _. cbn [cx_w w_pairs] in Hp. unfold cx_pairs in Hp.
    destruct (p =? 4); [injection Hp as <-; vm_compute; discriminate|].
    destruct (p =? 6); [injection Hp as <-; vm_compute; discriminate|discriminate].
Qed.

Lemma cx_user : ~ is_contract cx_w (caller_of cx_o).
Proof.
  intros [H|[H|[H|[H|[H _]]]]]; try discriminate H; try (apply H; reflexivity).
Qed.

Theorem locked_unit_never_decreases_false : ~ (forall w o w' p ps,
  WF w -> Inert w -> ~ is_contract w (caller_of o) -> exec w o = Ok w' -> w_pairs w p = Some ps ->
  bal w (AToken (p_lp ps)) (p_lp ps) <= bal w' (AToken (p_lp ps)) (p_lp ps)).
Proof.
  intros Hall.
  destruct (exec cx_w cx_o) as [w'|e] eqn:E; [|vm_compute in E; discriminate].
  specialize (Hall cx_w cx_o w' 4 cx_ps4 cx_WF cx_Inert cx_user E eq_refl).
  vm_compute in E. inversion E. subst w'. vm_compute in Hall. apply Hall. reflexivity.
Qed.

Theorem exec_preserves_Inert_false : ~ (forall w o w',
  WF w -> Inert w -> ~ is_contract w (caller_of o) -> exec w o = Ok w' -> Inert w').
Proof.
  intros Hall.
  destruct (exec cx_w cx_o) as [w'|e] eqn:E; [|vm_compute in E; discriminate].
  specialize (Hall cx_w cx_o w' cx_WF cx_Inert cx_user E). destruct Hall as (_ & I2).
  vm_compute in E. inversion E. subst w'. clear E.
  specialize (I2 4 cx_ps4 eq_refl). vm_compute in I2. apply I2; reflexivity.
Qed.

(* 2. The address counter has reached the user address space: user 1001 holds an allowance; the pair created
      next gets its LP token at address 1001, which is now a contract holding an allowance.  This world
      satisfies [Inert'] too, so the [room] hypothesis of the variant cannot be dropped. *)
Definition cy_tok (a : addr) : option token :=
  if a =? 2 then Some (mkToken (fun _ => 0) (fun o s => if (o =? 1001) && (s =? 7) then Some 5 else None) 0 (Some 2000) 6)
  else None.
Definition cy_w : world := mkWorld (fun _ _ => 0) cy_tok (fun _ => None) 0 1 2000 (fun _ => Some 6) [] 1000.
Definition cy_o : op := OFacCreatePair 2000 (ANative 0) (ANative 1) [] 0 0 None None.

Lemma cy_WF : WF cy_w.
Proof.
  apply WF_no_pairs; [reflexivity|]. intros q Hq. cbn [cy_w w_next w_tokens] in *. unfold cy_tok.
  destruct (q =? 2) eqn:E; [apply N.eqb_eq in E; exfalso; clear - Hq E; lia|reflexivity].
Qed.

Lemma cy_Inert' : Inert' cy_w.
Proof.
  split; [split|split; reflexivity].
  - intros t tk c sp Ht Hc. cbn [cy_w w_tokens] in Ht. unfold cy_tok in Ht.
    destruct (t =? 2); [|discriminate]. injection Ht as <-. cbn [t_allow].
    destruct (c =? 1001) eqn:E; [|reflexivity]. apply N.eqb_eq in E. subst c. exfalso.
    destruct Hc as [H|[H|[H|[H|[H _]]]]]; try discriminate H; apply H; reflexivity.
  - intros p ps Hp. discriminate Hp.
Qed.

Lemma cy_user : ~ is_contract cy_w (caller_of cy_o).
Proof.
  intros [H|[H|[H|[H|[H _]]]]]; try discriminate H; apply H; reflexivity.
Qed.

Theorem exec_preserves_Inert_needs_room : ~ (forall w o w',
  WF w -> Inert' w -> ~ is_contract w (caller_of o) -> exec w o = Ok w' -> Inert w').
Proof.
  intros Hall.
  destruct (exec cy_w cy_o) as [w'|e] eqn:E; [|vm_compute in E; discriminate].
  specialize (Hall cy_w cy_o w' cy_WF cy_Inert' cy_user E). destruct Hall as (I1 & _).
  assert (X : exists tk, w_tokens w' 2 = Some tk /\ t_allow tk 1001 7 = Some 5).
  { vm_compute in E. inversion E. subst w'. eexists. split; reflexivity. }
  destruct X as (tk & Ht & Ha).
  assert (C : is_contract w' 1001).
  { vm_compute in E. inversion E. right. right. right. left. discriminate. }
  rewrite (I1 _ _ _ _ Ht C) in Ha. discriminate.
Qed.

Print Assumptions exec_preserves_Inert_variant.
Print Assumptions exec_preserves_Inert_variant0.
Print Assumptions run_preserves_Inert_variant.
Print Assumptions run_preserves_Inert_variant0.
Print Assumptions locked_unit_never_decreases_variant.
Print Assumptions lp_address_never_debited.
Print Assumptions Inert_start.
Print Assumptions Inert'_start.
Print Assumptions Inert'_Inert.
Print Assumptions locked_unit_never_decreases_false.
Print Assumptions exec_preserves_Inert_false.
Print Assumptions exec_preserves_Inert_needs_room.
