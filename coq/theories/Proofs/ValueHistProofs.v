(* C03 at the level of whole histories: every successful transaction moves every pair's
   (reserve0, reserve1, LP supply) along a finite path of abstract steps, each of which is a
   value-non-decreasing [pool_step] or a swap in the recorded class [kf_c01]. *)
From HT Require Import Base.Prelude Num.Arith Amm.Formulas Amm.Guards Amm.Known World.World
  Proofs.NumProofs Proofs.ValueProofs Proofs.ValueLinks Proofs.LedgerProofs Proofs.SystemPoolProofs Proofs.FrameProofs
  Proofs.LivenessProofs Proofs.WFProofs Proofs.ConserveProofs Proofs.ReachProofs Proofs.SolventProofs Proofs.LockedProofs
  Proofs.TxEffectProofs.

(* ------------------------------------------------------------------------------------ *)
(* abstract paths                                                                        *)
(* ------------------------------------------------------------------------------------ *)
Definition pool_at (w : world) (p : addr) (ps : pairst) : pool :=
  (bal w (p_a0 ps) p, bal w (p_a1 ps) p, supply w (p_lp ps)).

(* a swap whose inputs lie in the recorded class: the only step kind that may lower the value *)
Inductive kf_step : pool -> pool -> Prop :=
| kf_swap01 x y T a c n s m : compute_swap x y a c = Ok (n, s, m) -> kf_c01 x y a c = true -> kf_step (x, y, T) (x + a, y - n, T)
| kf_swap10 x y T a c n s m : compute_swap y x a c = Ok (n, s, m) -> kf_c01 y x a c = true -> kf_step (x, y, T) (x - n, y + a, T).

(* a finite path of abstract steps; the flag records whether a kf step occurs *)
Inductive path : bool -> pool -> pool -> Prop :=
| path_nil s : path false s s
| path_ok b s1 s2 s3 : pool_step s1 s2 -> path b s2 s3 -> path b s1 s3
| path_kf b s1 s2 s3 : kf_step s1 s2 -> path b s2 s3 -> path true s1 s3.

Lemma path_app b1 b2 s1 s2 s3 : path b1 s1 s2 -> path b2 s2 s3 -> path (b1 || b2) s1 s3.
Proof.
  intros H1 H2. induction H1 as [s|b s1 s2 s3' Hst Hrest IH|b s1 s2 s3' Hst Hrest IH].
  - exact H2.
  - eapply path_ok; [exact Hst|]. apply IH. exact H2.
  - cbn [orb]. eapply path_kf; [exact Hst|]. apply IH. exact H2.
Qed.

Lemma path_step s s' : pool_step s s' -> path false s s'.
Proof. intros H. eapply path_ok; [exact H|apply path_nil]. Qed.

Lemma path_kf_step s s' : kf_step s s' -> path true s s'.
Proof. intros H. eapply path_kf; [exact H|apply path_nil]. Qed.

Lemma path_false_steps b s s' : path b s s' -> b = false -> pool_steps s s'.
Proof.
  induction 1 as [s|b s1 s2 s3 Hst Hrest IH|b s1 s2 s3 Hst Hrest IH]; intros Hb.
  - apply pss_nil.
  - eapply pss_cons; [exact Hst|]. apply IH. exact Hb.
  - discriminate.
Qed.

Theorem path_false_value : forall s s', path false s s' -> 0 < supply_of s -> value_le s s' /\ 0 < supply_of s'.
Proof.
  intros s s' H. apply pool_steps_value. eapply path_false_steps; [exact H|reflexivity].
Qed.

Lemma kf_step_supply s s' : kf_step s s' -> supply_of s' = supply_of s.
Proof. intros H. destruct H; reflexivity. Qed.

(* the supply stays positive along any path *)
Lemma path_supply_pos b s s' : path b s s' -> 0 < supply_of s -> 0 < supply_of s'.
Proof.
  induction 1 as [s|b s1 s2 s3 Hst Hrest IH|b s1 s2 s3 Hst Hrest IH]; intros Hp.
  - exact Hp.
  - apply IH. apply (pool_step_value _ _ Hst Hp).
  - apply IH. rewrite (kf_step_supply _ _ Hst). exact Hp.
Qed.


(* ---- a sharper path relation ----
   [kf_step] leaves the commission rate and the size of the inputs open.  The steps that the transactions of a pair
   actually produce are tied to that pair's commission rate [c] and to 128-bit inputs; [path_at c] records this, and
   every [path_at c] is a [path]. *)
Inductive kf_step_at (c : N) : pool -> pool -> Prop :=
| kfa_swap01 x y T a n s m : x < W128 -> y < W128 -> a < W128 ->
    compute_swap x y a c = Ok (n, s, m) -> kf_c01 x y a c = true -> kf_step_at c (x, y, T) (x + a, y - n, T)
| kfa_swap10 x y T a n s m : x < W128 -> y < W128 -> a < W128 ->
    compute_swap y x a c = Ok (n, s, m) -> kf_c01 y x a c = true -> kf_step_at c (x, y, T) (x - n, y + a, T).

Inductive path_at (c : N) : bool -> pool -> pool -> Prop :=
| pa_nil s : path_at c false s s
| pa_ok b s1 s2 s3 : pool_step s1 s2 -> path_at c b s2 s3 -> path_at c b s1 s3
| pa_kf b s1 s2 s3 : kf_step_at c s1 s2 -> path_at c b s2 s3 -> path_at c true s1 s3.

Lemma kf_step_at_kf c s s' : kf_step_at c s s' -> kf_step s s'.
Proof. intros H. destruct H; [eapply kf_swap01|eapply kf_swap10]; eassumption. Qed.

Lemma path_at_path c b s s' : path_at c b s s' -> path b s s'.
Proof.
  induction 1 as [s|b s1 s2 s3 Hst Hrest IH|b s1 s2 s3 Hst Hrest IH].
  - apply path_nil.
  - eapply path_ok; eassumption.
  - eapply path_kf; [eapply kf_step_at_kf; exact Hst|exact IH].
Qed.

Lemma path_at_app c b1 b2 s1 s2 s3 : path_at c b1 s1 s2 -> path_at c b2 s2 s3 -> path_at c (b1 || b2) s1 s3.
Proof.
  intros H1 H2. induction H1 as [s|b s1 s2 s3' Hst Hrest IH|b s1 s2 s3' Hst Hrest IH].
  - exact H2.
  - eapply pa_ok; [exact Hst|]. apply IH. exact H2.
  - cbn [orb]. eapply pa_kf; [exact Hst|]. apply IH. exact H2.
Qed.

(* a path without kf steps is a path at every commission rate *)
Lemma path_false_at c s s' : path false s s' -> path_at c false s s'.
Proof.
  intros H. pose proof (path_false_steps _ _ _ H eq_refl) as Hs. clear H.
  induction Hs as [s|s1 s2 s3 Hst Hrest IH]; [apply pa_nil|]. eapply pa_ok; eassumption.
Qed.

(* existential packaging: a path whose flag is [false] whenever [C] holds *)
Definition pathx (c : N) (C : Prop) (s s' : pool) : Prop := exists b, path_at c b s s' /\ (C -> b = false).

Lemma pathx_any c (C : Prop) b s s' : path_at c b s s' -> (C -> b = false) -> pathx c C s s'.
Proof. intros H Hc. exists b. split; assumption. Qed.
Lemma pathx_false c (C : Prop) s s' : path false s s' -> pathx c C s s'.
Proof. intros H. exists false. split; [apply path_false_at; exact H|reflexivity]. Qed.
Lemma pathx_app c (C : Prop) s1 s2 s3 : pathx c C s1 s2 -> pathx c C s2 s3 -> pathx c C s1 s3.
Proof.
  intros (b1 & H1 & C1) (b2 & H2 & C2). exists (b1 || b2). split; [eapply path_at_app; eassumption|].
  intros Hc. rewrite (C1 Hc), (C2 Hc). reflexivity.
Qed.
Lemma pathx_weaken c (C C' : Prop) s s' : (C' -> C) -> pathx c C s s' -> pathx c C' s s'.
Proof. intros Hi (b & H & Hc). exists b. split; [exact H|]. intros Hc'. apply Hc, Hi, Hc'. Qed.
Lemma pathx_cond c (C : Prop) s s' : pathx c C s s' -> C -> path false s s'.
Proof. intros (b & H & Hc) HC. rewrite (Hc HC) in H. eapply path_at_path. exact H. Qed.
Lemma pathx_at c (C : Prop) s s' : pathx c C s s' -> exists b, path_at c b s s'.
Proof. intros (b & H & _). exists b. exact H. Qed.
Lemma pathx_ex c (C : Prop) s s' : pathx c C s s' -> exists b, path b s s'.
Proof. intros (b & H & _). exists b. eapply path_at_path. exact H. Qed.
Lemma pathx_supply_pos c (C : Prop) s s' : pathx c C s s' -> 0 < supply_of s -> 0 < supply_of s'.
Proof. intros (b & H & _). eapply path_supply_pos. eapply path_at_path. exact H. Qed.

(* ------------------------------------------------------------------------------------ *)
(* donations: the account [p] is never debited and the supply of [lp] does not move       *)
(* ------------------------------------------------------------------------------------ *)
Definition Don (p lp : addr) (w w' : world) : Prop := Dm p w w' /\ supply w' lp = supply w lp.

Lemma Don_refl p lp w : Don p lp w w.
Proof. split; [apply Dm_refl|reflexivity]. Qed.
Lemma Don_trans p lp w1 w2 w3 : Don p lp w1 w2 -> Don p lp w2 w3 -> Don p lp w1 w3.
Proof. intros (A1 & A2) (B1 & B2). split; [eapply Dm_trans; eassumption|congruence]. Qed.

Lemma donate_to r0 r1 T r0' r1' : r0 <= r0' -> r1 <= r1' -> pool_step (r0, r1, T) (r0', r1', T).
Proof.
  intros H0 H1.
  replace r0' with (r0 + (r0' - r0)) by (clear - H0; lia).
  replace r1' with (r1 + (r1' - r1)) by (clear - H1; lia).
  apply ps_donate.
Qed.

Lemma Don_path p ps w w' : Don p (p_lp ps) w w' -> path false (pool_at w p ps) (pool_at w' p ps).
Proof.
  intros (Hd & Hs). unfold pool_at. rewrite Hs. apply path_step. apply donate_to; apply Hd.
Qed.

(* ---- supplies ---- *)
Lemma same_config_supply w w' t : same_config w w' -> supply w' t = supply w t.
Proof. intros (_ & _ & _ & _ & _ & _ & _ & S1 & _). apply S1. Qed.

Lemma bank_send_supply w from to cs w' t : bank_send w from to cs = Ok w' -> supply w' t = supply w t.
Proof. intros H. apply bank_send_inv in H. destruct H as (nz & b1 & b2 & _ & _ & ->). reflexivity. Qed.

Lemma move_funds_supply w from to cs w' t : move_funds w from to cs = Ok w' -> supply w' t = supply w t.
Proof.
  intros H. unfold move_funds in H. destruct cs as [|c cs]; [inversion H; reflexivity|].
  eapply bank_send_supply. exact H.
Qed.

Lemma with_token_supply w ta f w' u : with_token w ta f = Ok w' ->
  (u = ta -> forall t t', w_tokens w ta = Some t -> f t = Ok t' -> t_supply t' = t_supply t) ->
  supply w' u = supply w u.
Proof.
  intros H Hf. apply with_token_inv in H. destruct H as (t & t' & Ht & Hft & ->).
  rewrite set_token_supply. destruct (u =? ta) eqn:E; [|reflexivity].
  apply N.eqb_eq in E. unfold supply. rewrite E, Ht. eapply Hf; eassumption.
Qed.

Lemma with_token_supply_other w ta f w' u : with_token w ta f = Ok w' -> u <> ta -> supply w' u = supply w u.
Proof. intros H Hu. eapply with_token_supply; [exact H|]. intros E. contradiction. Qed.

Lemma transfer_supply w ta from to n w' u :
  with_token w ta (fun t => tok_transfer t from to n) = Ok w' -> supply w' u = supply w u.
Proof.
  intros H. eapply with_token_supply; [exact H|]. intros _ t t' _ Hf. cbv beta in Hf.
  apply tok_transfer_effect in Hf. apply Hf.
Qed.

Lemma transfer_from_supply w ta sp ow to n w' u :
  with_token w ta (fun t => tok_transfer_from t sp ow to n) = Ok w' -> supply w' u = supply w u.
Proof.
  intros H. eapply with_token_supply; [exact H|]. intros _ t t' _ Hf. cbv beta in Hf.
  apply tok_transfer_from_inv in Hf. apply Hf.
Qed.

Lemma pay_asset_supply w from a n to w' u : pay_asset w from a n to = Ok w' -> supply w' u = supply w u.
Proof. intros H. apply pay_asset_effect in H. destruct H as (_ & _ & C & _). apply same_config_supply. exact C. Qed.

(* ---- primitive donations ---- *)
Lemma bank_send_Don p lp w from to cs w' : p <> from -> bank_send w from to cs = Ok w' -> Don p lp w w'.
Proof.
  intros Hp H. split; [apply (bank_send_Gs p _ _ _ _ _ Hp H)|]. eapply bank_send_supply. exact H.
Qed.

Lemma move_funds_Don p lp w from to cs w' : p <> from -> move_funds w from to cs = Ok w' -> Don p lp w w'.
Proof.
  intros Hp H. split; [apply (move_funds_Gs p _ _ _ _ _ Hp H)|]. eapply move_funds_supply. exact H.
Qed.

Lemma transfer_Don p lp w ta from to n w' :
  p <> from -> with_token w ta (fun t => tok_transfer t from to n) = Ok w' -> Don p lp w w'.
Proof.
  intros Hp H. split; [apply (transfer_Gs p _ _ _ _ _ _ Hp H)|]. eapply transfer_supply. exact H.
Qed.

Lemma pay_asset_Don p lp w from a n to w' : p <> from -> pay_asset w from a n to = Ok w' -> Don p lp w w'.
Proof.
  intros Hp H. split; [apply (pay_asset_Gs p _ _ _ _ _ _ Hp H)|]. eapply pay_asset_supply. exact H.
Qed.

Lemma transfer_from_Don p lp w ta sp ow to n w' :
  p <> ow -> with_token w ta (fun t => tok_transfer_from t sp ow to n) = Ok w' -> Don p lp w w'.
Proof.
  intros Hp H. split; [|eapply transfer_from_supply; exact H].
  eapply with_token_Dm; [|exact H]. intros t t' _ Hf. cbv beta in Hf.
  apply tok_transfer_from_inv in Hf. destruct Hf as (_ & _ & _ & Hb). apply Hb. exact Hp.
Qed.

Lemma mint_Don p lp w ta s r n w' :
  lp <> ta -> with_token w ta (fun t => tok_mint t s r n) = Ok w' -> Don p lp w w'.
Proof.
  intros Hl H. destruct (mint_Dm p _ _ _ _ _ _ H) as (D1 & _). split; [exact D1|].
  eapply with_token_supply_other; eassumption.
Qed.

Lemma burn_Don p lp w ta sd n w' :
  p <> sd -> lp <> ta -> with_token w ta (fun t => tok_burn t sd n) = Ok w' -> Don p lp w w'.
Proof.
  intros Hp Hl H. split; [apply (burn_Gs p _ _ _ _ _ Hp H)|].
  eapply with_token_supply_other; eassumption.
Qed.

Lemma pair_swap_Don p lp w p' ps' funds sender offer amount bp ms to r :
  p <> p' -> pair_swap w p' ps' funds sender offer amount bp ms to = Ok r -> Don p lp w (fst r).
Proof.
  intros Hp H. apply pair_swap_pay in H. destruct H as [->|(ask & ret & H)]; [apply Don_refl|].
  eapply pay_asset_Don; eassumption.
Qed.

Lemma pair_withdraw_Don p lp w p' ps' sender amount w' :
  p <> p' -> lp <> p_lp ps' -> pair_withdraw w p' ps' sender amount = Ok w' -> Don p lp w w'.
Proof.
  intros Hp Hl H. apply pair_withdraw_structure in H.
  destruct H as (total & x0 & x1 & w1 & w2 & _ & _ & P1 & P2 & Pb).
  apply (pay_asset_Don p lp) in P1; [|exact Hp]. apply (pay_asset_Don p lp) in P2; [|exact Hp].
  apply (burn_Don p lp) in Pb; [|exact Hp|exact Hl].
  eapply Don_trans; [exact P1|]. eapply Don_trans; eassumption.
Qed.

Lemma pull_Don p lp w a sp ow to n w1 :
  p <> ow ->
  (match a with AToken ta => with_token w ta (fun t => tok_transfer_from t sp ow to n) | ANative _ => Ok w end) = Ok w1 ->
  Don p lp w w1.
Proof.
  intros Hp H. destruct a as [d|ta]; [inversion H; apply Don_refl|].
  eapply transfer_from_Don; eassumption.
Qed.

Lemma pair_provide_Don p lp w p' ps' c funds l0 n0 l1 n1 tol rcv w' :
  p <> c -> lp <> p_lp ps' -> pair_provide w p' ps' c funds l0 n0 l1 n1 tol rcv = Ok w' -> Don p lp w w'.
Proof.
  intros Hp Hl H. apply pair_provide_structure in H.
  destruct H as (r0 & r1 & d0 & d1 & q0 & q1 & total & share & _ & _ & _ & _ & _ & _ & _ & _ & _ &
                 _ & _ & _ & w1 & w2 & Hw1 & Hw2 & H).
  cbv zeta in H.
  apply (pull_Don p lp) in Hw1; [|exact Hp]. apply (pull_Don p lp) in Hw2; [|exact Hp].
  eapply Don_trans; [exact Hw1|]. eapply Don_trans; [exact Hw2|].
  destruct (total =? 0).
  - destruct H as (w3 & M1 & _ & M2).
    apply (mint_Don p lp) in M1; [|exact Hl]. apply (mint_Don p lp) in M2; [|exact Hl].
    eapply Don_trans; eassumption.
  - eapply mint_Don; eassumption.
Qed.


(* ------------------------------------------------------------------------------------ *)
(* the swap handler on the pair itself                                                   *)
(* ------------------------------------------------------------------------------------ *)
Lemma swap_steps x y T a c n s m :
  x < W128 -> y < W128 -> a < W128 -> c <= D -> compute_swap x y a c = Ok (n, s, m) ->
  pathx c (kf_c01 x y a c = false) (x, y, T) (x + a, y - n, T) /\
  pathx c (kf_c01 x y a c = false) (y, x, T) (y - n, x + a, T).
Proof.
  intros Hx Hy Ha Hc H. destruct (kf_c01 x y a c) eqn:K.
  - split; apply (pathx_any _ _ true); try (intros E; exact E); (eapply pa_kf; [|apply pa_nil]).
    + eapply kfa_swap01; eassumption.
    + eapply kfa_swap10; eassumption.
  - destruct (swap_is_pool_step x y a c n s m T Hx Hy Ha Hc H K) as (P1 & P2).
    split; apply pathx_false, path_step; assumption.
Qed.

Lemma pair_swap_self w1 p ps funds sender offer amount bp ms to w' ret spread comm :
  asset_eqb (p_a0 ps) (p_a1 ps) = false ->
  pair_swap w1 p ps funds sender offer amount bp ms to = Ok (w', (ret, spread, comm)) ->
  let ask := if asset_eqb offer (p_a0 ps) then p_a1 ps else p_a0 ps in
  let rcv := match to with Some t => t | None => sender end in
  (asset_eqb offer (p_a0 ps) = true \/ asset_eqb offer (p_a1 ps) = true) /\
  amount <= bal w1 offer p /\
  compute_swap (bal w1 offer p - amount) (bal w1 ask p) amount (p_comm ps) = Ok (ret, spread, comm) /\
  (forall t, supply w' t = supply w1 t) /\
  bal w' offer p = bal w1 offer p /\
  bal w' ask p = (if p =? rcv then bal w1 ask p else bal w1 ask p - ret).
Proof.
  intros H01 H ask rcv.
  pose proof (pair_swap_settlement _ _ _ _ _ _ _ _ _ _ _ _ _ _ H) as Hst.
  cbv zeta in Hst. fold ask in Hst. fold rcv in Hst.
  destruct Hst as (Hor & (x & y & Hcs & Hx & Hy) & C & Hb).
  pose proof (offer_ask_distinct ps offer H01 Hor) as Hoa. fold ask in Hoa.
  split; [exact Hor|].
  split; [clear - Hx; lia|].
  split. { replace (bal w1 offer p - amount) with x by (clear - Hx; lia). subst y. exact Hcs. }
  split; [intros t; apply same_config_supply; exact C|].
  split. { rewrite Hb, Hoa. reflexivity. }
  rewrite Hb, LedgerProofs.asset_eqb_refl, N.eqb_refl. cbn [andb].
  destruct (ret =? 0) eqn:E0; cbn [negb andb].
  - apply N.eqb_eq in E0. subst ret. rewrite N.sub_0_r. destruct (p =? rcv); reflexivity.
  - destruct (p =? rcv); reflexivity.
Qed.

(* entry (anything that credits the pair with at least the offered amount) followed by the pair's swap *)
Lemma swap_self_path w w1 w' p ps funds sender offer amount bp ms to out :
  asset_eqb (p_a0 ps) (p_a1 ps) = false -> p_comm ps <= D -> Solvent w1 ->
  Don p (p_lp ps) w w1 -> bal w offer p + amount <= bal w1 offer p ->
  pair_swap w1 p ps funds sender offer amount bp ms to = Ok (w', out) ->
  pathx (p_comm ps) (kf_c01 (bal w1 offer p - amount)
                (bal w1 (if asset_eqb offer (p_a0 ps) then p_a1 ps else p_a0 ps) p) amount (p_comm ps) = false)
        (pool_at w p ps) (pool_at w' p ps).
Proof.
  intros H01 Hc HS (Hd & Hsup) Hcr H. destruct out as [[ret spread] comm].
  destruct (pair_swap_self _ _ _ _ _ _ _ _ _ _ _ _ _ _ H01 H) as (Hor & Hle & Hcs & Hs & Bo & Ba).
  assert (H10 : asset_eqb (p_a1 ps) (p_a0 ps) = false) by (rewrite LedgerProofs.asset_eqb_sym; exact H01).
  pose proof (Hd (p_a0 ps)) as D0. pose proof (Hd (p_a1 ps)) as D1.
  pose proof (Solvent_bal w1 (p_a0 ps) p HS) as B0. pose proof (Solvent_bal w1 (p_a1 ps) p HS) as B1.
  unfold pool_at. rewrite Hs, Hsup. clear H Hs Hsup HS Hd.
  remember (supply w (p_lp ps)) as T eqn:ET. clear ET.
  remember (match to with Some t => t | None => sender end) as rcv eqn:Er. clear Er.
  destruct Hor as [E|E]; apply LedgerProofs.asset_eqb_eq in E; subst offer.
  - rewrite LedgerProofs.asset_eqb_refl in *. cbv iota in *.
    assert (A : amount < W128) by (clear - Hle B0; lia).
    assert (X : bal w1 (p_a0 ps) p - amount < W128) by (clear - B0; lia).
    destruct (swap_steps _ _ T _ _ _ _ _ X B1 A Hc Hcs) as (P1 & _).
    rewrite Bo, Ba. destruct (p =? rcv).
    + apply pathx_false, path_step. apply donate_to; [clear - D0; lia|exact D1].
    + eapply pathx_app; [apply pathx_false, path_step, (donate_to _ _ _ (bal w1 (p_a0 ps) p - amount) (bal w1 (p_a1 ps) p));
                         [clear - Hcr; lia|exact D1]|].
      assert (EX : bal w1 (p_a0 ps) p - amount + amount = bal w1 (p_a0 ps) p) by (clear - Hle; lia).
      rewrite EX in P1. exact P1.
  - rewrite H10 in *. cbv iota in *.
    assert (A : amount < W128) by (clear - Hle B1; lia).
    assert (X : bal w1 (p_a1 ps) p - amount < W128) by (clear - B1; lia).
    destruct (swap_steps _ _ T _ _ _ _ _ X B0 A Hc Hcs) as (_ & P2).
    rewrite Bo, Ba. destruct (p =? rcv).
    + apply pathx_false, path_step. apply donate_to; [exact D0|clear - D1; lia].
    + eapply pathx_app; [apply pathx_false, path_step, (donate_to _ _ _ (bal w1 (p_a0 ps) p) (bal w1 (p_a1 ps) p - amount));
                         [exact D0|clear - Hcr; lia]|].
      assert (EX : bal w1 (p_a1 ps) p - amount + amount = bal w1 (p_a1 ps) p) by (clear - Hle; lia).
      rewrite EX in P2. exact P2.
Qed.

(* the trader (or the router) pays the offer to the pair [p'], then [p'] swaps: the effect on the pair [p] *)
Lemma pay_then_swap_path w w1 w' p ps p' ps' funds sender offer amount bp ms to out :
  asset_eqb (p_a0 ps) (p_a1 ps) = false -> p_comm ps <= D ->
  Solvent w -> sender <> p -> (p' = p -> ps' = ps) ->
  pay_asset w sender offer amount p' = Ok w1 ->
  pair_swap w1 p' ps' funds sender offer amount bp ms to = Ok (w', out) ->
  pathx (p_comm ps) (p' = p -> kf_c01 (bal w offer p) (bal w (if asset_eqb offer (p_a0 ps) then p_a1 ps else p_a0 ps) p)
                          amount (p_comm ps) = false)
        (pool_at w p ps) (pool_at w' p ps).
Proof.
  intros H01 Hc HS Hsp Hps Hpay H.
  assert (HS1 : Solvent w1) by (exact (pay_asset_pres _ _ _ _ _ _ Hpay HS)).
  assert (Hps' : p <> sender) by congruence.
  pose proof (pay_asset_Don p (p_lp ps) _ _ _ _ _ _ Hps' Hpay) as D1.
  destruct (N.eq_dec p' p) as [E|Ne].
  - subst p'. rewrite (Hps eq_refl) in H. clear Hps.
    apply pay_asset_effect in Hpay. destruct Hpay as (_ & _ & _ & Hb).
    assert (Esp : (sender =? p) = false) by (apply N.eqb_neq; exact Hsp).
    assert (Eps : (p =? sender) = false) by (apply N.eqb_neq; exact Hps').
    assert (Bo : bal w1 offer p = bal w offer p + amount).
    { rewrite Hb, LedgerProofs.asset_eqb_refl, Esp, Eps, N.eqb_refl. reflexivity. }
    destruct out as [[ret spread] comm].
    destruct (pair_swap_self _ _ _ _ _ _ _ _ _ _ _ _ _ _ H01 H) as (Hor & _).
    pose proof (offer_ask_distinct ps offer H01 Hor) as Hoa.
    assert (Ba : bal w1 (if asset_eqb offer (p_a0 ps) then p_a1 ps else p_a0 ps) p =
                 bal w (if asset_eqb offer (p_a0 ps) then p_a1 ps else p_a0 ps) p).
    { rewrite Hb. rewrite LedgerProofs.asset_eqb_sym, Hoa. reflexivity. }
    eapply pathx_weaken; [|eapply (swap_self_path w w1 w'); try eassumption; rewrite Bo; apply N.le_refl].
    intros Hk. specialize (Hk eq_refl). rewrite Bo, Ba.
    replace (bal w offer p + amount - amount) with (bal w offer p) by (clear; lia). exact Hk.
  - apply pathx_false. apply Don_path. eapply Don_trans; [exact D1|].
    apply (pair_swap_Don p (p_lp ps)) in H; [|congruence]. exact H.
Qed.

(* the same with any entry step (SendFrom: the OWNER pays, the hook's sender is the spender): all that matters is that
   the entry is a donation to [p] which, when [p] is the swapping pair, credits it with exactly the offered amount *)
Lemma entry_then_swap_path w w1 w' p ps p' ps' funds sender offer amount bp ms to out :
  asset_eqb (p_a0 ps) (p_a1 ps) = false -> p_comm ps <= D ->
  Solvent w1 -> (p' = p -> ps' = ps) -> Don p (p_lp ps) w w1 ->
  (p' = p -> forall y, bal w1 y p = if asset_eqb y offer then bal w y p + amount else bal w y p) ->
  pair_swap w1 p' ps' funds sender offer amount bp ms to = Ok (w', out) ->
  pathx (p_comm ps) (p' = p -> kf_c01 (bal w offer p) (bal w (if asset_eqb offer (p_a0 ps) then p_a1 ps else p_a0 ps) p)
                          amount (p_comm ps) = false)
        (pool_at w p ps) (pool_at w' p ps).
Proof.
  intros H01 Hc HS1 Hps D1 Hb H.
  destruct (N.eq_dec p' p) as [E|Ne].
  - subst p'. rewrite (Hps eq_refl) in H. clear Hps. specialize (Hb eq_refl).
    assert (Bo : bal w1 offer p = bal w offer p + amount).
    { rewrite Hb, LedgerProofs.asset_eqb_refl. reflexivity. }
    destruct out as [[ret spread] comm].
    destruct (pair_swap_self _ _ _ _ _ _ _ _ _ _ _ _ _ _ H01 H) as (Hor & _).
    pose proof (offer_ask_distinct ps offer H01 Hor) as Hoa.
    assert (Ba : bal w1 (if asset_eqb offer (p_a0 ps) then p_a1 ps else p_a0 ps) p =
                 bal w (if asset_eqb offer (p_a0 ps) then p_a1 ps else p_a0 ps) p).
    { rewrite Hb. rewrite LedgerProofs.asset_eqb_sym, Hoa. reflexivity. }
    eapply pathx_weaken; [|eapply (swap_self_path w w1 w'); try eassumption; rewrite Bo; apply N.le_refl].
    intros Hk. specialize (Hk eq_refl). rewrite Bo, Ba.
    replace (bal w offer p + amount - amount) with (bal w offer p) by (clear; lia). exact Hk.
  - apply pathx_false. apply Don_path. eapply Don_trans; [exact D1|].
    apply (pair_swap_Don p (p_lp ps)) in H; [|congruence]. exact H.
Qed.

(* the pair's Receive with a swap hook, as dispatched by a cw20 Send / SendFrom *)
Lemma pair_receive_swap_inv w1 p ps ta funds sender n offer amount bp ms to w' :
  pair_receive w1 p ps ta funds sender n (HSwap offer amount bp ms to) = Ok w' ->
  exists out, offer = AToken ta /\ amount = n /\ (p_a0 ps = AToken ta \/ p_a1 ps = AToken ta) /\
    pair_swap w1 p ps funds sender offer amount bp ms to = Ok (w', out).
Proof.
  intros H. cbn [pair_receive] in H.
  destruct (amount =? n) eqn:En; cbn [negb] in H; [|discriminate]. apply N.eqb_eq in En.
  apply bind_ok in H. destruct H as (b0 & _ & H).
  apply bind_ok in H. destruct H as (b1 & _ & H).
  destruct (asset_eqb (p_a0 ps) (AToken ta) || asset_eqb (p_a1 ps) (AToken ta)) eqn:Ea;
    cbn [negb] in H; [|discriminate].
  destruct (asset_eqb offer (AToken ta)) eqn:Eo; cbn [negb] in H; [|discriminate].
  apply bind_ok in H. destruct H as (r & Hs & H). destruct r as [w2 out]. cbn [fst] in H.
  inversion H. subst w2. clear H.
  exists out. split; [apply LedgerProofs.asset_eqb_eq; exact Eo|]. split; [exact En|]. split; [|exact Hs].
  apply orb_true_iff in Ea. destruct Ea as [Ea|Ea]; apply LedgerProofs.asset_eqb_eq in Ea; [left | right]; exact Ea.
Qed.

(* ------------------------------------------------------------------------------------ *)
(* router                                                                                *)
(* ------------------------------------------------------------------------------------ *)
Lemma router_hop_inv w offer ask to w' : router_hop w offer ask to = Ok w' ->
  exists r ps' w1 funds out, reg_find (w_reg w) offer ask = Some r /\ w_pairs w (f_pair r) = Some ps' /\
    pay_asset w (w_rtr w) offer (bal w offer (w_rtr w)) (f_pair r) = Ok w1 /\
    pair_swap w1 (f_pair r) ps' funds (w_rtr w) offer (bal w offer (w_rtr w)) None None to = Ok (w', out).
Proof.
  intros H. unfold router_hop in H.
  destruct (reg_find (w_reg w) offer ask) as [r|] eqn:Er; [|discriminate]. cbv zeta in H.
  destruct (w_pairs w (f_pair r)) as [ps'|] eqn:Ep; [|discriminate].
  bnd H amount Ha. apply asset_balance_bal in Ha. subst amount.
  destruct offer as [d|ta].
  - bnd H w1 H1. bnd H rr Hs. inversion H. subst w'. clear H. destruct rr as [w2 out]. cbn [fst].
    exists r, ps', w1, [(d, bal w (ANative d) (w_rtr w))], out.
    split; [reflexivity|]. split; [exact Ep|]. split; [exact H1|exact Hs].
  - bnd H w1 H1. cbn [pair_receive] in H. rewrite N.eqb_refl in H. cbn [negb] in H.
    bnd H b0 Hb0. bnd H b1 Hb1.
    destruct (asset_eqb (p_a0 ps') (AToken ta) || asset_eqb (p_a1 ps') (AToken ta)); cbn [negb] in H; [|discriminate].
    rewrite LedgerProofs.asset_eqb_refl in H. cbn [negb] in H.
    bnd H rr Hs. inversion H. subst w'. clear H. destruct rr as [w2 out]. cbn [fst].
    exists r, ps', w1, [], out.
    split; [reflexivity|]. split; [exact Ep|]. split; [exact H1|exact Hs].
Qed.

Lemma router_hop_path w offer ask to w' p ps :
  asset_eqb (p_a0 ps) (p_a1 ps) = false -> p_comm ps <= D ->
  Solvent w -> w_pairs w p = Some ps -> w_rtr w <> p ->
  router_hop w offer ask to = Ok w' -> pathx (p_comm ps) False (pool_at w p ps) (pool_at w' p ps).
Proof.
  intros H01 Hc HS Hp Hr H. apply router_hop_inv in H.
  destruct H as (r & ps' & w1 & funds & out & _ & Hp' & Hpay & Hs).
  eapply pathx_weaken; [|eapply pay_then_swap_path; try eassumption].
  - intros [].
  - intros E. rewrite E in Hp'. congruence.
Qed.

Lemma router_hops_path ops : forall w to w' p ps,
  asset_eqb (p_a0 ps) (p_a1 ps) = false -> p_comm ps <= D ->
  Solvent w -> w_pairs w p = Some ps -> w_rtr w <> p ->
  router_hops w ops to = Ok w' -> pathx (p_comm ps) False (pool_at w p ps) (pool_at w' p ps).
Proof.
  induction ops as [|q ops IH]; intros w to w' p ps H01 Hc HS Hp Hr H.
  - cbn [router_hops] in H. inversion H. apply pathx_false, path_nil.
  - destruct ops as [|q2 rest].
    + destruct q as [o a]. cbn [router_hops] in H. eapply router_hop_path; eassumption.
    + rewrite router_hops_cons2 in H. bnd H w1 H1.
      pose proof (router_hop_pres _ _ _ _ _ H1 HS) as HS1.
      pose proof (router_hop_both _ _ _ _ _ H1) as (_ & _ & Kr & Kp).
      eapply pathx_app; [eapply router_hop_path; eassumption|].
      eapply IH; try eassumption.
      * rewrite Kp. exact Hp.
      * rewrite Kr. exact Hr.
Qed.

Lemma router_exec_ops_path w sender ops m to w' p ps :
  asset_eqb (p_a0 ps) (p_a1 ps) = false -> p_comm ps <= D ->
  Solvent w -> w_pairs w p = Some ps -> w_rtr w <> p ->
  router_exec_ops w sender ops m to = Ok w' -> pathx (p_comm ps) False (pool_at w p ps) (pool_at w' p ps).
Proof.
  intros H01 Hc HS Hp Hr H. unfold router_exec_ops in H. destruct ops as [|q ops]; [discriminate|].
  bnd H u Hu. cbv zeta in H.
  assert (Hh : exists w1, router_hops w (q :: ops) (match to with Some t => t | None => sender end) = Ok w1 /\ w' = w1).
  { destruct m as [m|].
    - bnd H prev Hpv. bnd H w1 H1. apply router_assert_min_same in H. eauto.
    - eauto. }
  destruct Hh as (w1 & Hh & ->). eapply router_hops_path; eassumption.
Qed.

(* ------------------------------------------------------------------------------------ *)
(* withdrawal and provision on the pair itself                                           *)
(* ------------------------------------------------------------------------------------ *)
Lemma withdraw_self_path w w1 w' p ps sender amount :
  asset_eqb (p_a0 ps) (p_a1 ps) = false -> asset_eqb (p_a0 ps) (AToken (p_lp ps)) = false ->
  asset_eqb (p_a1 ps) (AToken (p_lp ps)) = false -> sender <> p ->
  Don p (p_lp ps) w w1 -> amount < supply w (p_lp ps) ->
  pair_withdraw w1 p ps sender amount = Ok w' -> path false (pool_at w p ps) (pool_at w' p ps).
Proof.
  intros H01 H0l H1l Hsp D1 Hlt H.
  pose proof (pair_withdraw_structure _ _ _ _ _ _ H) as (total & x0 & x1 & w2 & w3 & Ht & _).
  pose proof (token_supply_supply _ _ _ Ht) as Et.
  apply (path_app false false _ (pool_at w1 p ps)); [apply Don_path; exact D1|].
  apply path_step. unfold pool_at.
  pose proof (pair_withdraw_pool_step _ _ _ _ _ _ total H H01 H0l H1l Hsp Ht) as St.
  rewrite <- Et. apply St. rewrite Et. destruct D1 as (_ & Ds). rewrite Ds. exact Hlt.
Qed.

(* [pair_provide_pool_step] with the deposits exposed *)
Lemma pair_provide_self w p ps c funds l0 n0 l1 n1 tol rcv w' total :
  pair_provide w p ps c funds l0 n0 l1 n1 tol rcv = Ok w' ->
  asset_eqb (p_a0 ps) (p_a1 ps) = false -> asset_eqb (p_a0 ps) (AToken (p_lp ps)) = false ->
  asset_eqb (p_a1 ps) (AToken (p_lp ps)) = false -> c <> p ->
  token_supply w (p_lp ps) = Ok total -> total <> 0 ->
  exists d0 d1,
    deposit_of (p_a0 ps) l0 n0 l1 n1 = Ok d0 /\ deposit_of (p_a1 ps) l0 n0 l1 n1 = Ok d1 /\
    pool_step ((if asset_is_native (p_a0 ps) then bal w (p_a0 ps) p - d0 else bal w (p_a0 ps) p),
               (if asset_is_native (p_a1 ps) then bal w (p_a1 ps) p - d1 else bal w (p_a1 ps) p), total)
              (bal w' (p_a0 ps) p, bal w' (p_a1 ps) p, supply w' (p_lp ps)).
Proof.
  intros H H01 H0l H1l Hcp Ht HT0.
  apply pair_provide_structure in H.
  destruct H as (r0 & r1 & d0 & d1 & q0 & q1 & total' & share & Hr0 & Hr1 & Hd0 & Hd1 & Eq0 & Lq0 & Eq1 & Lq1 & _ &
                 Ht' & Hls & _ & w1 & w2 & Hw1 & Hw2 & H).
  cbv zeta in H.
  rewrite Ht in Ht'. inversion Ht'. subst total'. clear Ht'.
  destruct (total =? 0) eqn:Et; [apply N.eqb_eq in Et; contradiction|]. clear Et.
  apply asset_balance_bal in Hr0. apply asset_balance_bal in Hr1. subst r0 r1.
  assert (H10 : asset_eqb (p_a1 ps) (p_a0 ps) = false) by (rewrite LedgerProofs.asset_eqb_sym; exact H01).
  assert (Sup : supply w' (p_lp ps) = total + share).
  { pose proof (pull_other _ _ _ _ _ Hw1 H0l) as T1.
    pose proof (pull_other _ _ _ _ _ Hw2 H1l) as T2.
    rewrite T1 in T2.
    destruct (mint_effect _ _ _ _ _ _ H) as (tk & tk' & A1 & A' & S' & _).
    unfold token_supply in Ht. unfold supply. rewrite A'.
    rewrite T2 in A1. rewrite A1 in Ht. inversion Ht. subst total. exact S'. }
  destruct (pull_effect _ _ _ _ _ _ Hw1 Hcp) as (P1 & O1).
  destruct (pull_effect _ _ _ _ _ _ Hw2 Hcp) as (P2 & O2).
  pose proof (with_token_other _ _ _ _ H) as O3.
  assert (B0 : bal w' (p_a0 ps) p = q0 + d0).
  { rewrite (O3 _ H0l), (O2 _ H01), P1, Eq0.
    destruct (asset_is_native (p_a0 ps)); [|reflexivity].
    specialize (Lq0 eq_refl). clear - Lq0. lia. }
  assert (B1 : bal w' (p_a1 ps) p = q1 + d1).
  { rewrite (O3 _ H1l), P2, (O1 _ H10), Eq1.
    destruct (asset_is_native (p_a1 ps)); [|reflexivity].
    specialize (Lq1 eq_refl). clear - Lq1. lia. }
  exists d0, d1. split; [exact Hd0|]. split; [exact Hd1|].
  rewrite <- Eq0, <- Eq1, B0, B1, Sup.
  eapply provide_is_pool_step; [exact HT0 | exact Hls].
Qed.

Lemma pair_provide_funds w p ps c funds l0 n0 l1 n1 tol rcv w' :
  pair_provide w p ps c funds l0 n0 l1 n1 tol rcv = Ok w' ->
  funds_of l0 funds n0 = Ok tt /\ funds_of l1 funds n1 = Ok tt.
Proof.
  unfold pair_provide. intros H. bnd H u0 H0. bnd H u1 H1. destruct u0, u1. split; assumption.
Qed.

(* ---- attached funds: the recipient is credited with at least the first listed coin of each denom ---- *)
Lemma bank_add_all_credit cs : forall b a b' d,
  bank_add_all b a (nonzero_coins cs) = Ok b' -> b a d + cval cs d <= b' a d.
Proof.
  induction cs as [|[d0 n] cs IH]; intros b a b' d H.
  - unfold nonzero_coins in H. cbn [filter bank_add_all] in H. inversion H. unfold cval. cbn [find]. rewrite N.add_0_r. apply N.le_refl.
  - rewrite cval_cons. unfold nonzero_coins in H. cbn [filter snd] in H. fold (nonzero_coins cs) in H.
    destruct (n =? 0) eqn:E0; cbn [negb] in H.
    + destruct (d0 =? d) eqn:Ed; [|apply IH; exact H].
      apply N.eqb_eq in E0. subst n. rewrite N.add_0_r. eapply bank_add_all_ge. exact H.
    + cbn [bank_add_all] in H. destruct (b a d0 + n <? W128); [|discriminate].
      destruct (d0 =? d) eqn:Ed.
      * apply N.eqb_eq in Ed. subst d0.
        pose proof (bank_add_all_ge _ _ _ _ H a d) as G. rewrite upd2_same in G. exact G.
      * pose proof (IH _ _ _ d H) as G. rewrite upd2_other in G; [exact G|].
        right. apply N.eqb_neq in Ed. congruence.
Qed.

Lemma move_funds_credit w from to funds w' d :
  from <> to -> move_funds w from to funds = Ok w' -> w_bank w to d + cval funds d <= w_bank w' to d.
Proof.
  intros Hft H. unfold move_funds in H. destruct funds as [|c funds].
  - inversion H. unfold cval. cbn [find]. rewrite N.add_0_r. apply N.le_refl.
  - unfold bank_send in H. remember (c :: funds) as cs eqn:Ecs. clear Ecs.
    destruct (nonzero_coins cs) as [|c1 nz] eqn:Enz; [discriminate|].
    bnd H b1 H1. bnd H b2 H2. inversion H. subst w'. cbn [set_bank w_bank].
    rewrite <- Enz in H2. pose proof (bank_add_all_credit cs b1 to b2 d H2) as G.
    rewrite (bank_sub_all_other _ _ _ _ H1 to d) in G by congruence. exact G.
Qed.

Lemma funds_of_cval d funds amount : funds_of (ANative d) funds amount = Ok tt -> amount = cval funds d.
Proof.
  unfold funds_of, cval. destruct (find (fun c => fst c =? d) funds) as [c|].
  - destruct (amount =? snd c) eqn:E; [|discriminate]. intros _. apply N.eqb_eq in E. exact E.
  - destruct (amount =? 0) eqn:E; [|discriminate]. intros _. apply N.eqb_eq in E. exact E.
Qed.

Lemma deposit_cval d funds l0 n0 l1 n1 d0 :
  funds_of l0 funds n0 = Ok tt -> funds_of l1 funds n1 = Ok tt ->
  deposit_of (ANative d) l0 n0 l1 n1 = Ok d0 -> d0 = cval funds d.
Proof.
  unfold deposit_of. intros F0 F1 H. destruct (asset_eqb l0 (ANative d)) eqn:E0.
  - apply LedgerProofs.asset_eqb_eq in E0. subst l0. inversion H. subst d0. apply funds_of_cval. exact F0.
  - destruct (asset_eqb l1 (ANative d)) eqn:E1; [|discriminate].
    apply LedgerProofs.asset_eqb_eq in E1. subst l1. inversion H. subst d0. apply funds_of_cval. exact F1.
Qed.

Lemma provide_pre_le w w1 p c funds a l0 n0 l1 n1 d0 :
  c <> p -> move_funds w c p funds = Ok w1 ->
  funds_of l0 funds n0 = Ok tt -> funds_of l1 funds n1 = Ok tt -> deposit_of a l0 n0 l1 n1 = Ok d0 ->
  bal w a p <= (if asset_is_native a then bal w1 a p - d0 else bal w1 a p).
Proof.
  intros Hcp Hm F0 F1 Hd. destruct a as [d|t]; cbn [asset_is_native].
  - cbn [bal]. rewrite (deposit_cval _ _ _ _ _ _ _ F0 F1 Hd).
    pose proof (move_funds_credit _ _ _ _ _ d Hcp Hm) as G. clear - G. lia.
  - assert (Hpc : p <> c) by congruence.
    apply (move_funds_Gs p _ _ _ _ _ Hpc Hm).
Qed.

Lemma provide_self_path w w1 w' p ps c funds l0 n0 l1 n1 tol rcv :
  asset_eqb (p_a0 ps) (p_a1 ps) = false -> asset_eqb (p_a0 ps) (AToken (p_lp ps)) = false ->
  asset_eqb (p_a1 ps) (AToken (p_lp ps)) = false -> c <> p -> 0 < supply w (p_lp ps) ->
  move_funds w c p funds = Ok w1 -> pair_provide w1 p ps c funds l0 n0 l1 n1 tol rcv = Ok w' ->
  path false (pool_at w p ps) (pool_at w' p ps).
Proof.
  intros H01 H0l H1l Hcp Hpos Hm H.
  destruct (pair_provide_funds _ _ _ _ _ _ _ _ _ _ _ _ H) as (F0 & F1).
  pose proof (pair_provide_structure _ _ _ _ _ _ _ _ _ _ _ _ H) as
    (r0 & r1 & d0' & d1' & q0 & q1 & total & share & _ & _ & _ & _ & _ & _ & _ & _ & _ & Ht & _).
  pose proof (token_supply_supply _ _ _ Ht) as Et.
  rewrite (move_funds_supply _ _ _ _ _ (p_lp ps) Hm) in Et.
  assert (HT0 : total <> 0) by (clear - Et Hpos; lia).
  destruct (pair_provide_self _ _ _ _ _ _ _ _ _ _ _ _ total H H01 H0l H1l Hcp Ht HT0) as (d0 & d1 & Hd0 & Hd1 & St).
  eapply path_ok; [|apply path_step; exact St].
  unfold pool_at. rewrite <- Et. apply donate_to; [exact (provide_pre_le _ _ _ _ _ _ _ _ _ _ _ Hcp Hm F0 F1 Hd0)|exact (provide_pre_le _ _ _ _ _ _ _ _ _ _ _ Hcp Hm F0 F1 Hd1)].
Qed.

(* ------------------------------------------------------------------------------------ *)
(* operations that move no funds                                                         *)
(* ------------------------------------------------------------------------------------ *)
Definition Same (w w' : world) : Prop := w_bank w' = w_bank w /\ w_tokens w' = w_tokens w.
Lemma Same_refl w : Same w w.
Proof. split; reflexivity. Qed.
Lemma Same_trans w1 w2 w3 : Same w1 w2 -> Same w2 w3 -> Same w1 w3.
Proof. intros (A1 & A2) (B1 & B2). split; congruence. Qed.
Lemma Same_Don p lp w w' : Same w w' -> Don p lp w w'.
Proof.
  intros (Hb & Ht). split; [apply (Gs_same p _ _ Hb Ht)|]. unfold supply. rewrite Ht. reflexivity.
Qed.

Lemma pair_update_decimals_Same w p ps c dn d0 d1 w' : pair_update_decimals w p ps c dn d0 d1 = Ok w' -> Same w w'.
Proof.
  unfold pair_update_decimals. destruct (negb _); [discriminate|].
  destruct (_ || _); intros H; inversion H; split; reflexivity.
Qed.

Lemma fac_update_records_Same dn k todo : forall w done w', fac_update_records w dn k todo done = Ok w' -> Same w w'.
Proof.
  induction todo as [|r todo IH]; intros w done w' H; cbn [fac_update_records] in H.
  - inversion H. split; reflexivity.
  - cbv zeta in H. bnd H w1 H1. bnd H w2 H2. apply IH in H.
    assert (S1 : Same w w1).
    { destruct (asset_eqb (f_a0 r) (ANative dn)); [|inversion H1; apply Same_refl].
      destruct (w_pairs w (f_pair r)); [|discriminate]. eapply pair_update_decimals_Same. exact H1. }
    assert (S2 : Same w1 w2).
    { destruct (asset_eqb (f_a1 r) (ANative dn)); [|inversion H2; apply Same_refl].
      destruct (w_pairs w1 (f_pair r)); [|discriminate]. eapply pair_update_decimals_Same. exact H2. }
    eapply Same_trans; [exact S1|]. eapply Same_trans; eassumption.
Qed.

Lemma fac_add_native_Same w c dn k w' : fac_add_native w c dn k = Ok w' -> Same w w'.
Proof.
  unfold fac_add_native. cbv zeta. destruct (negb _); [discriminate|].
  destruct (_ =? 0); [discriminate|].
  destruct (w_natives w dn); intros H.
  - apply fac_update_records_Same in H. eapply Same_trans; [|exact H]. split; reflexivity.
  - inversion H. split; reflexivity.
Qed.

Lemma fac_update_config_Same w c o w' : fac_update_config w c o = Ok w' -> Same w w'.
Proof.
  unfold fac_update_config. destruct (negb _); [discriminate|]. intros H. inversion H.
  destruct o; split; reflexivity.
Qed.

Lemma fac_migrate_pair_Same w c ct w' : fac_migrate_pair w c ct = Ok w' -> Same w w'.
Proof.
  unfold fac_migrate_pair. destruct (negb _); [discriminate|]. destruct (w_pairs w ct); [|discriminate].
  intros H. inversion H. apply Same_refl.
Qed.

Lemma increase_allowance_Don p lp w ta ow sp n w' :
  with_token w ta (fun t => tok_increase_allowance t ow sp n) = Ok w' -> Don p lp w w'.
Proof.
  intros H. split.
  - eapply with_token_Dm; [|exact H]. intros t t' _ Hf. cbv beta in Hf.
    unfold tok_increase_allowance in Hf. destruct (sp =? ow); [discriminate|]. cbv zeta in Hf.
    destruct (_ <? W128); [|discriminate]. inversion Hf. cbn [t_bal]. apply N.le_refl.
  - eapply with_token_supply; [exact H|]. intros _ t t' _ Hf. cbv beta in Hf.
    unfold tok_increase_allowance in Hf. destruct (sp =? ow); [discriminate|]. cbv zeta in Hf.
    destruct (_ <? W128); [|discriminate]. inversion Hf. reflexivity.
Qed.

Lemma fac_create_pair_Don p lp w c a0 a1 wl m0 m1 cm ld w' :
  WF w -> lp < w_next w -> fac_create_pair w c a0 a1 wl m0 m1 cm ld = Ok w' -> Don p lp w w'.
Proof.
  intros HW Hl H. split.
  - assert (Hf : w_tokens w (w_next w + 1) = None) by (apply (WF_fresh_tokens w HW); clear; lia).
    intros y. rewrite (fac_create_pair_same_bal _ _ _ _ _ _ _ _ _ _ Hf H y p). apply N.le_refl.
  - apply fac_create_pair_inv in H. destruct H as (ps & lt & r & _ & _ & _ & ->).
    unfold supply. cbn [w_tokens set_next set_reg set_token set_pair].
    rewrite upd_other by (clear - Hl; lia). reflexivity.
Qed.

(* distinct pairs have distinct LP tokens: the LP token's minter is its pair *)
Lemma lp_inj w p ps p' ps' :
  WF w -> w_pairs w p = Some ps -> w_pairs w p' = Some ps' -> p_lp ps = p_lp ps' -> p = p'.
Proof.
  intros HW Hp Hp' E.
  destruct (WF_pair _ _ _ HW Hp) as (_ & _ & _ & (lt & A & B) & _).
  destruct (WF_pair _ _ _ HW Hp') as (_ & _ & _ & (lt' & A' & B') & _).
  rewrite E in A. rewrite A in A'. inversion A'. subst lt'. congruence.
Qed.

(* ---- the allowance-spending entry points: TransferFrom-like ledger part of SendFrom, BurnFrom; DecreaseAllowance ---- *)
Lemma transfer_from_effect w ta sp ow to n w' :
  with_token w ta (fun t => tok_transfer_from t sp ow to n) = Ok w' ->
  n <= bal w (AToken ta) ow /\
  (forall y a, bal w' y a =
     if asset_eqb y (AToken ta) then
       (if ow =? to then bal w y a
        else if a =? ow then bal w y a - n else if a =? to then bal w y a + n else bal w y a)
     else bal w y a).
Proof.
  intros H. apply with_token_inv in H. destruct H as (t & t' & Ht & Hf & ->).
  apply tok_transfer_from_full in Hf. destruct Hf as (al & _ & _ & Hle & _ & _ & _ & _ & Hb).
  split; [cbn [bal]; rewrite Ht; exact Hle|].
  intros y a. rewrite set_token_bal. destruct (asset_eqb y (AToken ta)) eqn:Ey; [|reflexivity].
  apply LedgerProofs.asset_eqb_eq in Ey. subst y. cbn [bal]. rewrite Ht. apply Hb.
Qed.

(* seen from the recipient [p] (not the owner): credited with exactly n of the token, nothing else moves *)
Lemma transfer_from_credits w ta sp ow p n w1 :
  p <> ow -> with_token w ta (fun t => tok_transfer_from t sp ow p n) = Ok w1 ->
  forall y, bal w1 y p = if asset_eqb y (AToken ta) then bal w y p + n else bal w y p.
Proof.
  intros Hpo H y. destruct (transfer_from_effect _ _ _ _ _ _ _ H) as (_ & Hb).
  rewrite Hb. destruct (asset_eqb y (AToken ta)); [|reflexivity].
  assert (E1 : (ow =? p) = false) by (apply N.eqb_neq; congruence).
  assert (E2 : (p =? ow) = false) by (apply N.eqb_neq; exact Hpo).
  rewrite E1, E2, N.eqb_refl. reflexivity.
Qed.

Lemma burn_from_effect w ta sp ow n w' : with_token w ta (fun t => tok_burn_from t sp ow n) = Ok w' ->
  n <= bal w (AToken ta) ow /\ supply w' ta + n = supply w ta /\
  (forall y a, bal w' y a = if asset_eqb y (AToken ta) && (a =? ow) then bal w y a - n else bal w y a).
Proof.
  intros H. apply with_token_inv in H. destruct H as (t & t' & Ht & Hf & ->).
  apply tok_burn_from_effect in Hf. destruct Hf as (al & _ & _ & H1 & H2 & Hs & _ & _ & _ & Hb).
  split; [cbn [bal]; rewrite Ht; exact H1|].
  split.
  - rewrite set_token_supply, N.eqb_refl. unfold supply. rewrite Ht. clear - H2 Hs. lia.
  - intros y a. rewrite set_token_bal. destruct (asset_eqb y (AToken ta)) eqn:Ey; cbn [andb]; [|reflexivity].
    apply LedgerProofs.asset_eqb_eq in Ey. subst y. cbn [bal]. rewrite Ht. apply Hb.
Qed.

(* whoever is debited through an allowance holds an allowance entry: by [Inert] it is no contract *)
Lemma transfer_from_owner_allow w ta sp ow to n w' :
  with_token w ta (fun t => tok_transfer_from t sp ow to n) = Ok w' ->
  exists t, w_tokens w ta = Some t /\ t_allow t ow sp <> None.
Proof.
  intros H. apply with_token_inv in H. destruct H as (t & t' & Ht & Hf & _).
  apply tok_transfer_from_inv in Hf. destruct Hf as (Hal & _). exists t. split; assumption.
Qed.
Lemma burn_from_owner_allow w ta sp ow n w' :
  with_token w ta (fun t => tok_burn_from t sp ow n) = Ok w' ->
  exists t, w_tokens w ta = Some t /\ t_allow t ow sp <> None.
Proof.
  intros H. apply with_token_inv in H. destruct H as (t & t' & Ht & Hf & _).
  apply tok_burn_from_inv in Hf. destruct Hf as (Hal & _). exists t. split; assumption.
Qed.

Lemma burn_from_Don p lp w ta sp ow n w' :
  p <> ow -> lp <> ta -> with_token w ta (fun t => tok_burn_from t sp ow n) = Ok w' -> Don p lp w w'.
Proof.
  intros Hp Hl H. split; [|eapply with_token_supply_other; eassumption].
  eapply with_token_Dm; [|exact H]. intros t t' _ Hf. cbv beta in Hf.
  apply tok_burn_from_inv in Hf. destruct Hf as (_ & _ & _ & Hb). rewrite (Hb p Hp). apply N.le_refl.
Qed.

Lemma decrease_allowance_Don p lp w ta ow sp n w' :
  with_token w ta (fun t => tok_decrease_allowance t ow sp n) = Ok w' -> Don p lp w w'.
Proof.
  intros H. split.
  - eapply with_token_Dm; [|exact H]. intros t t' _ Hf. cbv beta in Hf.
    apply tok_decrease_allowance_effect in Hf. destruct Hf as (_ & al & _ & Hb & _). rewrite Hb. apply N.le_refl.
  - eapply with_token_supply; [exact H|]. intros _ t t' _ Hf. cbv beta in Hf.
    apply tok_decrease_allowance_effect in Hf. destruct Hf as (_ & al & _ & _ & Hs & _). exact Hs.
Qed.

(* ------------------------------------------------------------------------------------ *)
(* operation classes                                                                     *)
(* ------------------------------------------------------------------------------------ *)
Definition routerless (o : op) : bool :=
  match o with
  | ORouterOps _ _ _ _ _ | ORouterOp _ _ _ _ _ | ORouterReceive _ _ _ _ => false
  | OSend _ _ _ _ (HRouterOps _ _ _) => false
  | OSendFrom _ _ _ _ _ (HRouterOps _ _ _) => false
  | _ => true
  end.
Definition swap_hook (h : hook) : bool :=
  match h with HSwap _ _ _ _ _ | HRouterOps _ _ _ => true | _ => false end.
(* operations that cannot perform a swap *)
Definition swapless (o : op) : bool :=
  match o with
  | OSwap _ _ _ _ _ _ _ _ => false
  | OSend _ _ _ _ h | OPairReceive _ _ _ _ _ h | OSendFrom _ _ _ _ _ h => negb (swap_hook h)
  | ORouterOps _ _ _ _ _ | ORouterOp _ _ _ _ _ | ORouterReceive _ _ _ _ => false
  | _ => true
  end.

(* ------------------------------------------------------------------------------------ *)
(* every transaction, every pair                                                         *)
(* ------------------------------------------------------------------------------------ *)
Lemma exec_pathx w o w' p ps :
  WF w -> Solvent w -> Inert' w -> ~ is_contract w (caller_of o) ->
  (routerless o = false -> w_pairs w (w_rtr w) = None) ->
  exec w o = Ok w' -> w_pairs w p = Some ps -> 0 < supply w (p_lp ps) ->
  pathx (p_comm ps) (swapless o = true) (pool_at w p ps) (pool_at w' p ps).
Proof.
  intros HW HS HI Hc Hrt H Hp Hpos.
  destruct (WF_pair _ _ _ HW Hp) as (Kn & Kln & Klp & (lt & Klt & Kmint) & H01 & H0l & H1l & Ktok & Hcm & _).
  assert (Hpc : is_contract w p) by (right; right; left; rewrite Hp; discriminate).
  assert (Hlc : is_contract w (p_lp ps)) by (right; right; right; left; rewrite Klt; discriminate).
  assert (Hpu : p <> caller_of o) by (intros E; apply Hc; rewrite <- E; exact Hpc).
  assert (Hup : caller_of o <> p) by congruence.
  assert (Hlu : p_lp ps <> caller_of o) by (intros E; apply Hc; rewrite <- E; exact Hlc).
  destruct HI as ((I1 & I2) & R1 & R2).
  pose proof (I2 _ _ Hp Hpos) as Hunit.
  assert (Hrp : routerless o = false -> w_rtr w <> p).
  { intros E Er. specialize (Hrt E). rewrite Er in Hrt. congruence. }
  destruct o; cbn [caller_of swapless routerless swap_hook] in *.
  - (* OBankSend *) cbn [exec] in H. apply pathx_false, Don_path. eapply bank_send_Don; eassumption.
  - (* OTransfer *) cbn [exec] in H. apply pathx_false, Don_path. eapply transfer_Don; eassumption.
  - (* OTransferFrom *)
    cbn [exec] in H. apply pathx_false, Don_path. eapply transfer_from_Don; [|exact H].
    intros E. subst owner. apply with_token_inv in H. destruct H as (t & t' & Ht & Hf & _).
    apply tok_transfer_from_inv in Hf. destruct Hf as (Hal & _). apply Hal. eapply I1; eassumption.
  - (* OIncreaseAllowance *) cbn [exec] in H. apply pathx_false, Don_path. eapply increase_allowance_Don; exact H.
  - (* OMint *)
    cbn [exec] in H. apply pathx_false, Don_path. eapply mint_Don; [|exact H].
    intros E. subst ta. apply with_token_inv in H. destruct H as (t & t' & Ht & Hf & _).
    apply tok_mint_inv in Hf. destruct Hf as (_ & _ & Hm & _).
    rewrite Klt in Ht. inversion Ht. subst t. rewrite Kmint in Hm. inversion Hm. contradiction.
  - (* OBurn *)
    cbn [exec] in H. destruct (N.eq_dec (p_lp ps) ta) as [E|Ne].
    + subst ta. apply pathx_false, path_step. apply burn_effect in H. destruct H as (Hle & Hsup & Hb).
      unfold pool_at. rewrite !Hb, H0l, H1l. cbn [andb].
      assert (Hsl : sender <> p_lp ps) by congruence.
      pose proof (Solvent_token_two w (p_lp ps) sender (p_lp ps) HS Hsl) as L.
      replace (supply w' (p_lp ps)) with (supply w (p_lp ps) - n) by (clear - Hsup; lia).
      apply ps_burn. clear - L Hle Hunit. lia.
    + apply pathx_false, Don_path. eapply burn_Don; eassumption.
  - (* OSend *)
    destruct (w_pairs w target) as [ps'|] eqn:Ept.
    + destruct h as [offer amount bp ms to| |rops m to|].
      * (* swap hook *)
        cbn [exec] in H.
        destruct (cw20_send_swap_decompose _ _ _ _ _ _ _ _ _ _ _ _ Ept H) as (w1 & out & Hm & Eo & En & _ & Hs).
        subst offer amount.
        assert (Hps : target = p -> ps' = ps) by (intros E; rewrite E in Ept; congruence).
        eapply pathx_weaken;
          [|exact (pay_then_swap_path w w1 w' p ps target ps' [] sender (AToken ta) n bp ms to out H01 Hcm HS Hup Hps Hm Hs)].
        intros E. discriminate E.
      * (* withdraw hook *)
        cbn [exec] in H. unfold cw20_send in H. bnd H w1 H1.
        rewrite (with_token_pairs _ _ _ _ H1), Ept in H. cbn [pair_receive] in H.
        destruct (ta =? p_lp ps') eqn:Eta; cbn [negb] in H; [|discriminate]. apply N.eqb_eq in Eta. subst ta.
        pose proof (transfer_Don p (p_lp ps) _ _ _ _ _ _ Hpu H1) as D1.
        apply pathx_false.
        destruct (N.eq_dec target p) as [E|Ne].
        -- subst target. rewrite Hp in Ept. inversion Ept. subst ps'.
           apply (withdraw_self_path w w1 w' p ps sender n H01 H0l H1l Hup D1); [|exact H].
           change (pay_asset w sender (AToken (p_lp ps)) n p = Ok w1) in H1.
           apply pay_asset_effect in H1. destruct H1 as (_ & Hle & _).
           assert (Hsl : sender <> p_lp ps) by congruence.
           pose proof (Solvent_token_two w (p_lp ps) sender (p_lp ps) HS Hsl) as L.
           clear - L Hle Hunit. lia.
        -- apply Don_path. eapply Don_trans; [exact D1|]. apply (pair_withdraw_Don p (p_lp ps) w1 target ps' sender n); [congruence| |exact H].
           intros E. apply Ne. symmetry. eapply (lp_inj w p ps target ps'); eassumption.
      * cbn [exec] in H. unfold cw20_send in H. bnd H w1 H1.
        rewrite (with_token_pairs _ _ _ _ H1), Ept in H. cbn [pair_receive] in H. discriminate.
      * cbn [exec] in H. unfold cw20_send in H. bnd H w1 H1.
        rewrite (with_token_pairs _ _ _ _ H1), Ept in H. cbn [pair_receive] in H. discriminate.
    + cbn [exec] in H. unfold cw20_send in H. bnd H w1 H1.
      rewrite (with_token_pairs _ _ _ _ H1), Ept in H.
      destruct (target =? w_rtr w1); [|discriminate].
      destruct h as [| |rops m to|]; try discriminate.
      pose proof (with_token_keeps _ _ _ _ H1) as (_ & Kr & Kp).
      eapply pathx_weaken;
        [|eapply pathx_app;
          [apply pathx_false, Don_path, (transfer_Don p (p_lp ps) _ _ _ _ _ _ Hpu H1)|
           eapply (router_exec_ops_path w1);
           [exact H01|exact Hcm|exact (tok_transfer_pres _ _ _ _ _ _ H1 HS)|rewrite Kp; exact Hp|
            rewrite Kr; apply Hrp; reflexivity|exact H]]].
      intros E. discriminate E.
  - (* OProvide *)
    cbn [exec] in H. destruct (w_pairs w p0) as [ps0|] eqn:Ep0; [|discriminate]. bnd H w1 H1.
    apply pathx_false. destruct (N.eq_dec p0 p) as [E|Ne].
    + subst p0. rewrite Hp in Ep0. inversion Ep0. subst ps0.
      exact (provide_self_path w w1 w' p ps caller funds l0 n0 l1 n1 tol receiver H01 H0l H1l Hup Hpos H1 H).
    + apply Don_path. eapply Don_trans; [eapply move_funds_Don; [exact Hpu|exact H1]|].
      apply (pair_provide_Don p (p_lp ps) w1 p0 ps0 caller funds l0 n0 l1 n1 tol receiver); [exact Hpu| |exact H].
      intros E. apply Ne. symmetry. eapply (lp_inj w p ps p0 ps0); eassumption.
  - (* OSwap *)
    apply exec_swap_decompose in H. destruct H as (ps0 & w1 & out & Hp0 & Hm & Hnat & Hfo & Hs).
    pose proof (move_funds_Don p (p_lp ps) _ _ _ _ _ Hpu Hm) as D1.
    destruct (N.eq_dec p0 p) as [E|Ne].
    + subst p0. rewrite Hp in Hp0. inversion Hp0. subst ps0.
      eapply pathx_weaken;
        [|apply (swap_self_path w w1 w' p ps funds caller offer amount belief ms to out H01 Hcm
                   (move_funds_pres _ _ _ _ _ Hm HS) D1); [|exact Hs]].
      * intros E. discriminate E.
      * destruct offer as [d|t]; [|discriminate Hnat]. cbn [bal]. rewrite (funds_of_cval _ _ _ Hfo).
        exact (move_funds_credit w caller p funds w1 d Hup Hm).
    + apply pathx_false, Don_path. eapply Don_trans; [exact D1|].
      apply (pair_swap_Don p (p_lp ps)) in Hs; [exact Hs|congruence].
  - (* OPairReceive: only a token contract or an LP token can be the caller *)
    exfalso. cbn [exec] in H. destruct (w_pairs w p0) as [ps0|] eqn:Ep0; [|discriminate]. bnd H w1 H1.
    destruct (WF_pair _ _ _ HW Ep0) as (_ & _ & _ & (lt0 & Klt0 & _) & _ & _ & _ & Ktok0 & _).
    apply Hc. right. right. right. left.
    destruct h as [offer amount bp ms to| |rops m to|]; cbn [pair_receive] in H; try discriminate.
    + destruct (negb (amount =? cw_amount)); [discriminate|]. bnd H b0 Hb0. bnd H b1 Hb1.
      destruct (asset_eqb (p_a0 ps0) (AToken caller) || asset_eqb (p_a1 ps0) (AToken caller)) eqn:Ea;
        cbn [negb] in H; [|discriminate].
      apply Ktok0. apply orb_true_iff in Ea.
      destruct Ea as [Ea|Ea]; apply LedgerProofs.asset_eqb_eq in Ea; [left|right]; exact Ea.
    + destruct (caller =? p_lp ps0) eqn:Ec; cbn [negb] in H; [|discriminate].
      apply N.eqb_eq in Ec. subst caller. rewrite Klt0. discriminate.
  - (* OPairUpdateDecimals *)
    cbn [exec] in H. destruct (w_pairs w p0) as [ps0|]; [|discriminate].
    apply pathx_false, Don_path, Same_Don. eapply pair_update_decimals_Same. exact H.
  - (* ORouterOps *)
    cbn [exec] in H. bnd H w1 H1.
    pose proof (move_funds_keeps _ _ _ _ _ H1) as (_ & Kr & Kp).
    eapply pathx_weaken;
      [|eapply pathx_app;
        [apply pathx_false, Don_path, (move_funds_Don p (p_lp ps) _ _ _ _ _ Hpu H1)|
         eapply (router_exec_ops_path w1);
         [exact H01|exact Hcm|exact (move_funds_pres _ _ _ _ _ H1 HS)|rewrite Kp; exact Hp|
          rewrite Kr; apply Hrp; reflexivity|exact H]]].
    intros E. discriminate E.
  - (* ORouterOp: only the router calls it *)
    exfalso. cbn [exec] in H. bnd H w1 H1.
    destruct (caller =? w_rtr w) eqn:Ec; cbn [negb] in H; [|discriminate].
    apply N.eqb_eq in Ec. apply Hc. right. left. exact Ec.
  - (* ORouterAssertMin *)
    cbn [exec] in H. destruct (negb _); [discriminate|]. apply router_assert_min_same in H. subst w'.
    apply pathx_false, path_nil.
  - (* ORouterReceive *)
    cbn [exec] in H. destruct h as [| |rops m to|]; try discriminate.
    eapply pathx_weaken;
      [|eapply (router_exec_ops_path w); [exact H01|exact Hcm|exact HS|exact Hp|apply Hrp; reflexivity|exact H]].
    intros E. discriminate E.
  - (* OFacUpdateConfig *)
    cbn [exec] in H. apply pathx_false, Don_path, Same_Don. eapply fac_update_config_Same. exact H.
  - (* OFacCreatePair *)
    cbn [exec] in H. apply pathx_false, Don_path. eapply fac_create_pair_Don; eassumption.
  - (* OFacAddNative *)
    cbn [exec] in H. apply pathx_false, Don_path, Same_Don. eapply fac_add_native_Same. exact H.
  - (* OFacMigrate *)
    cbn [exec] in H. apply pathx_false, Don_path, Same_Don. eapply fac_migrate_pair_Same. exact H.
  - (* OSendFrom: the ledger part debits the OWNER, who holds an allowance entry and is therefore no contract;
       the hook then runs exactly as for Send, with the spender as the cw20 sender *)
    cbn [exec] in H. apply cw20_send_from_inv in H. destruct H as (w1 & H1 & H).
    assert (Hown : ~ is_contract w owner).
    { intros Hoc. destruct (transfer_from_owner_allow _ _ _ _ _ _ _ H1) as (t & Ht & Hal).
      apply Hal. eapply I1; eassumption. }
    assert (Hpo : p <> owner) by (intros E; apply Hown; rewrite <- E; exact Hpc).
    assert (Hlo : p_lp ps <> owner) by (intros E; apply Hown; rewrite <- E; exact Hlc).
    pose proof (transfer_from_Don p (p_lp ps) _ _ _ _ _ _ _ Hpo H1) as D1.
    pose proof (tok_transfer_from_pres _ _ _ _ _ _ _ H1 HS) as HS1.
    pose proof (with_token_keeps _ _ _ _ H1) as (_ & Kr & Kp).
    unfold cw20_dispatch in H. rewrite Kp, Kr in H.
    destruct (w_pairs w target) as [ps'|] eqn:Ept.
    + destruct h as [offer amount bp ms to| |rops m to|]; try (cbn [pair_receive] in H; discriminate H).
      * (* swap hook: a swap paid by the owner *)
        destruct (pair_receive_swap_inv _ _ _ _ _ _ _ _ _ _ _ _ _ H) as (out & Eo & En & _ & Hs).
        subst offer amount.
        assert (Hps : target = p -> ps' = ps) by (intros E; rewrite E in Ept; congruence).
        eapply pathx_weaken;
          [|apply (entry_then_swap_path w w1 w' p ps target ps' [] spender (AToken ta) n bp ms to out H01 Hcm HS1 Hps D1);
            [|exact Hs]].
        -- intros E. discriminate E.
        -- intros E. subst target. exact (transfer_from_credits _ _ _ _ _ _ _ Hpo H1).
      * (* withdraw hook: the owner's LP is burnt, the proceeds go to the spender *)
        cbn [pair_receive] in H.
        destruct (ta =? p_lp ps') eqn:Eta; cbn [negb] in H; [|discriminate]. apply N.eqb_eq in Eta. subst ta.
        apply pathx_false.
        destruct (N.eq_dec target p) as [E|Ne].
        -- subst target. rewrite Hp in Ept. inversion Ept. subst ps'.
           apply (withdraw_self_path w w1 w' p ps spender n H01 H0l H1l Hup D1); [|exact H].
           destruct (transfer_from_effect _ _ _ _ _ _ _ H1) as (Hle & _).
           assert (Hol : owner <> p_lp ps) by congruence.
           pose proof (Solvent_token_two w (p_lp ps) owner (p_lp ps) HS Hol) as L.
           clear - L Hle Hunit. lia.
        -- apply Don_path. eapply Don_trans; [exact D1|].
           apply (pair_withdraw_Don p (p_lp ps) w1 target ps' spender n); [congruence| |exact H].
           intros E. apply Ne. symmetry. eapply (lp_inj w p ps target ps'); eassumption.
    + destruct (target =? w_rtr w); [|discriminate].
      destruct h as [| |rops m to|]; try discriminate.
      eapply pathx_weaken;
        [|eapply pathx_app;
          [apply pathx_false, Don_path, D1|
           eapply (router_exec_ops_path w1);
           [exact H01|exact Hcm|exact HS1|rewrite Kp; exact Hp|
            rewrite Kr; apply Hrp; reflexivity|exact H]]].
      intros E. discriminate E.
  - (* OBurnFrom: as OBurn, on the owner's balance *)
    cbn [exec] in H.
    assert (Hown : ~ is_contract w owner).
    { intros Hoc. destruct (burn_from_owner_allow _ _ _ _ _ _ H) as (t & Ht & Hal).
      apply Hal. eapply I1; eassumption. }
    assert (Hpo : p <> owner) by (intros E; apply Hown; rewrite <- E; exact Hpc).
    assert (Hlo : p_lp ps <> owner) by (intros E; apply Hown; rewrite <- E; exact Hlc).
    destruct (N.eq_dec (p_lp ps) ta) as [E|Ne].
    + subst ta. apply pathx_false, path_step. apply burn_from_effect in H. destruct H as (Hle & Hsup & Hb).
      unfold pool_at. rewrite !Hb, H0l, H1l. cbn [andb].
      assert (Hol : owner <> p_lp ps) by congruence.
      pose proof (Solvent_token_two w (p_lp ps) owner (p_lp ps) HS Hol) as L.
      replace (supply w' (p_lp ps)) with (supply w (p_lp ps) - n) by (clear - Hsup; lia).
      apply ps_burn. clear - L Hle Hunit. lia.
    + apply pathx_false, Don_path. eapply burn_from_Don; eassumption.
  - (* ODecreaseAllowance *)
    cbn [exec] in H. apply pathx_false, Don_path. eapply decrease_allowance_Don; exact H.
Qed.

Lemma swapless_routerless o : swapless o = true -> routerless o = true.
Proof.
  destruct o; cbn [swapless routerless]; try reflexivity; try discriminate.
  all: destruct h; cbn [swap_hook negb]; try reflexivity; discriminate.
Qed.

(* ---- theorem 2 ---- *)
(* ORIGINAL STATEMENT (needs one more hypothesis, see the end of the file):
   Theorem exec_pool_path : forall w o w' p ps, WF w -> Solvent w -> Inert' w -> ~ is_contract w (caller_of o) ->
     exec w o = Ok w' -> w_pairs w p = Some ps -> 0 < supply w (p_lp ps) ->
     exists b, path b (pool_at w p ps) (pool_at w' p ps).
   [WF], [Solvent] and [Inert'] do not exclude that the router's address is itself a pair; the router then forwards
   that pair's whole reserve of the offered asset along the route.  The extra hypothesis says the router is not a
   pair; it is an invariant ([exec_rtr_not_pair]) and holds in the harness's initial world. *)
Theorem exec_pool_path_variant : forall w o w' p ps,
  WF w -> Solvent w -> Inert' w -> w_pairs w (w_rtr w) = None -> ~ is_contract w (caller_of o) ->
  exec w o = Ok w' -> w_pairs w p = Some ps -> 0 < supply w (p_lp ps) ->
  exists b, path b (pool_at w p ps) (pool_at w' p ps).
Proof.
  intros w o w' p ps HW HS HI Hr Hc H Hp Hpos.
  eapply pathx_ex. eapply exec_pathx; try eassumption. intros _. exact Hr.
Qed.

(* the original hypotheses suffice for every operation that does not enter the router *)
Theorem exec_pool_path_routerless : forall w o w' p ps,
  WF w -> Solvent w -> Inert' w -> ~ is_contract w (caller_of o) -> routerless o = true ->
  exec w o = Ok w' -> w_pairs w p = Some ps -> 0 < supply w (p_lp ps) ->
  exists b, path b (pool_at w p ps) (pool_at w' p ps).
Proof.
  intros w o w' p ps HW HS HI Hc Hrl H Hp Hpos.
  eapply pathx_ex. eapply exec_pathx; try eassumption. intros E. rewrite Hrl in E. discriminate E.
Qed.

(* the router operations *)
Theorem exec_pool_path_router : forall w o w' p ps,
  WF w -> Solvent w -> Inert' w -> w_pairs w (w_rtr w) = None -> ~ is_contract w (caller_of o) ->
  routerless o = false ->
  exec w o = Ok w' -> w_pairs w p = Some ps -> 0 < supply w (p_lp ps) ->
  exists b, path b (pool_at w p ps) (pool_at w' p ps).
Proof. intros w o w' p ps HW HS HI Hr Hc _. apply exec_pool_path_variant; assumption. Qed.

(* the master statement, unpacked: kf steps at the pair's own commission rate, the flag is [false] for every operation
   that cannot swap, and the router hypothesis is needed for router operations only *)
Theorem exec_pool_path_flag : forall w o w' p ps,
  WF w -> Solvent w -> Inert' w -> ~ is_contract w (caller_of o) ->
  (routerless o = false -> w_pairs w (w_rtr w) = None) ->
  exec w o = Ok w' -> w_pairs w p = Some ps -> 0 < supply w (p_lp ps) ->
  exists b, path_at (p_comm ps) b (pool_at w p ps) (pool_at w' p ps) /\ (swapless o = true -> b = false).
Proof. intros w o w' p ps. exact (exec_pathx w o w' p ps). Qed.

(* the sharper form: the kf steps are swaps at this pair's own commission rate, on 128-bit inputs *)
Theorem exec_pool_path_at_variant : forall w o w' p ps,
  WF w -> Solvent w -> Inert' w -> w_pairs w (w_rtr w) = None -> ~ is_contract w (caller_of o) ->
  exec w o = Ok w' -> w_pairs w p = Some ps -> 0 < supply w (p_lp ps) ->
  exists b, path_at (p_comm ps) b (pool_at w p ps) (pool_at w' p ps).
Proof.
  intros w o w' p ps HW HS HI Hr Hc H Hp Hpos.
  eapply pathx_at. eapply exec_pathx; try eassumption. intros _. exact Hr.
Qed.

(* ---- theorem 3 ---- *)
Theorem exec_swapless_value : forall w o w' p ps,
  WF w -> Solvent w -> Inert' w -> ~ is_contract w (caller_of o) -> swapless o = true ->
  exec w o = Ok w' -> w_pairs w p = Some ps -> 0 < supply w (p_lp ps) ->
  path false (pool_at w p ps) (pool_at w' p ps).
Proof.
  intros w o w' p ps HW HS HI Hc Hsl H Hp Hpos.
  assert (X : pathx (p_comm ps) (swapless o = true) (pool_at w p ps) (pool_at w' p ps)).
  { eapply exec_pathx; try eassumption. intros E. rewrite (swapless_routerless _ Hsl) in E. discriminate E. }
  exact (pathx_cond _ _ _ _ X Hsl).
Qed.

Corollary exec_swapless_value_le : forall w o w' p ps,
  WF w -> Solvent w -> Inert' w -> ~ is_contract w (caller_of o) -> swapless o = true ->
  exec w o = Ok w' -> w_pairs w p = Some ps -> 0 < supply w (p_lp ps) ->
  value_le (pool_at w p ps) (pool_at w' p ps) /\ 0 < supply w' (p_lp ps).
Proof.
  intros w o w' p ps HW HS HI Hc Hsl H Hp Hpos.
  apply (path_false_value (pool_at w p ps) (pool_at w' p ps)); [|exact Hpos].
  eapply exec_swapless_value; eassumption.
Qed.

(* ---- theorem 4 ---- *)
(* general funds: the swap is priced on the reserves after the attached funds arrive, net of the offer *)
Theorem exec_direct_swap_value_funds : forall w p' ps' c funds offer amount bp ms to w' p ps,
  WF w -> Solvent w -> Inert' w -> ~ is_contract w c -> w_pairs w p' = Some ps' ->
  (forall w1, move_funds w c p' funds = Ok w1 ->
     kf_c01 (bal w1 offer p' - amount) (bal w1 (if asset_eqb offer (p_a0 ps') then p_a1 ps' else p_a0 ps') p')
            amount (p_comm ps') = false) ->
  exec w (OSwap p' c funds offer amount bp ms to) = Ok w' ->
  w_pairs w p = Some ps -> 0 < supply w (p_lp ps) ->
  path false (pool_at w p ps) (pool_at w' p ps).
Proof.
  intros w p' ps' c funds offer amount bp ms to w' p ps HW HS HI Hc Hp' Hk H Hp Hpos.
  destruct (WF_pair _ _ _ HW Hp) as (_ & _ & _ & _ & H01 & _ & _ & _ & Hcm & _).
  assert (Hpc : is_contract w p) by (right; right; left; rewrite Hp; discriminate).
  assert (Hpu : p <> c) by (intros E; apply Hc; rewrite <- E; exact Hpc).
  assert (Hup : c <> p) by congruence.
  apply exec_swap_decompose in H. destruct H as (ps0 & w1 & out & Hp0 & Hm & Hnat & Hfo & Hs).
  rewrite Hp' in Hp0. inversion Hp0. subst ps0. clear Hp0.
  pose proof (move_funds_Don p (p_lp ps) _ _ _ _ _ Hpu Hm) as D1.
  destruct (N.eq_dec p' p) as [E|Ne].
  - subst p'. rewrite Hp in Hp'. inversion Hp'. subst ps'.
    assert (X : pathx (p_comm ps) (kf_c01 (bal w1 offer p - amount)
                         (bal w1 (if asset_eqb offer (p_a0 ps) then p_a1 ps else p_a0 ps) p) amount (p_comm ps) = false)
                      (pool_at w p ps) (pool_at w' p ps)).
    { apply (swap_self_path w w1 w' p ps funds c offer amount bp ms to out H01 Hcm
               (move_funds_pres _ _ _ _ _ Hm HS) D1); [|exact Hs].
      destruct offer as [d|t]; [|discriminate Hnat]. cbn [bal]. rewrite (funds_of_cval _ _ _ Hfo).
      exact (move_funds_credit w c p funds w1 d Hup Hm). }
    exact (pathx_cond _ _ _ _ X (Hk w1 Hm)).
  - apply Don_path. eapply Don_trans; [exact D1|].
    apply (pair_swap_Don p (p_lp ps)) in Hs; [exact Hs|congruence].
Qed.

(* ORIGINAL STATEMENT: arbitrary [funds] with the class condition on the reserves before the transaction.  Attached
   funds may carry further coins of the offered or of the asked denom (the model, like the pair contract, does not
   reject them); the swap is then priced on larger reserves than those named in the condition, so the condition
   says nothing about the swap that is actually computed.  (The extra coins are themselves donations, which usually
   outweigh the sub-unit overpayment; the original statement is not refuted here, it is just not what the proof
   can use.)  [exec_direct_swap_value_funds] above is the exact general form; the variant below fixes the attached
   funds to exactly the offered coin, as [tx_swap_native_effect] does, and then the condition is the stated one. *)
Theorem exec_direct_swap_value_variant : forall w p' ps' c d amount bp ms to w' p ps,
  WF w -> Solvent w -> Inert' w -> ~ is_contract w c -> w_pairs w p' = Some ps' ->
  kf_c01 (bal w (ANative d) p') (bal w (if asset_eqb (ANative d) (p_a0 ps') then p_a1 ps' else p_a0 ps') p')
         amount (p_comm ps') = false ->
  exec w (OSwap p' c [(d, amount)] (ANative d) amount bp ms to) = Ok w' ->
  w_pairs w p = Some ps -> 0 < supply w (p_lp ps) ->
  path false (pool_at w p ps) (pool_at w' p ps).
Proof.
  intros w p' ps' c d amount bp ms to w' p ps HW HS HI Hc Hp' Hk H Hp Hpos.
  destruct (WF_pair _ _ _ HW Hp) as (_ & _ & _ & _ & H01 & _ & _ & _ & Hcm & _).
  assert (Hpc : is_contract w p) by (right; right; left; rewrite Hp; discriminate).
  assert (Hup : c <> p) by (intros E; apply Hc; rewrite E; exact Hpc).
  apply exec_swap_decompose in H. destruct H as (ps0 & w1 & out & Hp0 & Hm & _ & _ & Hs).
  rewrite Hp' in Hp0. inversion Hp0. subst ps0. clear Hp0.
  change (pay_asset w c (ANative d) amount p' = Ok w1) in Hm.
  assert (Hps : p' = p -> ps' = ps) by (intros E; rewrite E in Hp'; congruence).
  pose proof (pay_then_swap_path w w1 w' p ps p' ps' _ c (ANative d) amount bp ms to out H01 Hcm HS Hup Hps Hm Hs) as X.
  apply (pathx_cond _ _ _ _ X). intros E. subst p'. rewrite (Hps eq_refl) in Hk. exact Hk.
Qed.

(* the cw20 hook form, exactly as stated *)
Theorem exec_hook_swap_value : forall w ta sender p' ps' n offer amount bp ms to w' p ps,
  WF w -> Solvent w -> Inert' w -> ~ is_contract w sender -> w_pairs w p' = Some ps' ->
  kf_c01 (bal w offer p') (bal w (if asset_eqb offer (p_a0 ps') then p_a1 ps' else p_a0 ps') p')
         amount (p_comm ps') = false ->
  exec w (OSend ta sender p' n (HSwap offer amount bp ms to)) = Ok w' ->
  w_pairs w p = Some ps -> 0 < supply w (p_lp ps) ->
  path false (pool_at w p ps) (pool_at w' p ps).
Proof.
  intros w ta sender p' ps' n offer amount bp ms to w' p ps HW HS HI Hc Hp' Hk H Hp Hpos.
  destruct (WF_pair _ _ _ HW Hp) as (_ & _ & _ & _ & H01 & _ & _ & _ & Hcm & _).
  assert (Hpc : is_contract w p) by (right; right; left; rewrite Hp; discriminate).
  assert (Hup : sender <> p) by (intros E; apply Hc; rewrite E; exact Hpc).
  cbn [exec] in H.
  destruct (cw20_send_swap_decompose _ _ _ _ _ _ _ _ _ _ _ _ Hp' H) as (w1 & out & Hm & Eo & En & _ & Hs).
  subst offer amount.
  assert (Hps : p' = p -> ps' = ps) by (intros E; rewrite E in Hp'; congruence).
  pose proof (pay_then_swap_path w w1 w' p ps p' ps' [] sender (AToken ta) n bp ms to out H01 Hcm HS Hup Hps Hm Hs) as X.
  apply (pathx_cond _ _ _ _ X). intros E. subst p'. rewrite (Hps eq_refl) in Hk. exact Hk.
Qed.

(* the same swap entered through SendFrom: paid by [owner] out of the allowance it gave [spender]; the spender is the
   hook's sender (the default receiver).  No hypothesis on the submitter is needed: the debited owner holds an
   allowance entry, so by [Inert'] it is not a contract, and the pair is only ever credited by the entry transfer *)
Theorem exec_hook_swap_from_value : forall w ta spender owner p' ps' n offer amount bp ms to w' p ps,
  WF w -> Solvent w -> Inert' w -> w_pairs w p' = Some ps' ->
  kf_c01 (bal w offer p') (bal w (if asset_eqb offer (p_a0 ps') then p_a1 ps' else p_a0 ps') p')
         amount (p_comm ps') = false ->
  exec w (OSendFrom ta spender owner p' n (HSwap offer amount bp ms to)) = Ok w' ->
  w_pairs w p = Some ps -> 0 < supply w (p_lp ps) ->
  path false (pool_at w p ps) (pool_at w' p ps).
Proof.
  intros w ta spender owner p' ps' n offer amount bp ms to w' p ps HW HS HI Hp' Hk H Hp Hpos.
  destruct (WF_pair _ _ _ HW Hp) as (_ & _ & _ & _ & H01 & _ & _ & _ & Hcm & _).
  assert (Hpc : is_contract w p) by (right; right; left; rewrite Hp; discriminate).
  destruct HI as ((I1 & _) & _).
  cbn [exec] in H. apply cw20_send_from_inv in H. destruct H as (w1 & H1 & H).
  assert (Hpo : p <> owner).
  { intros E. destruct (transfer_from_owner_allow _ _ _ _ _ _ _ H1) as (t & Ht & Hal).
    apply Hal. eapply I1; [exact Ht|]. rewrite <- E. exact Hpc. }
  pose proof (transfer_from_Don p (p_lp ps) _ _ _ _ _ _ _ Hpo H1) as D1.
  pose proof (tok_transfer_from_pres _ _ _ _ _ _ _ H1 HS) as HS1.
  unfold cw20_dispatch in H. rewrite (with_token_pairs _ _ _ _ H1), Hp' in H.
  destruct (pair_receive_swap_inv _ _ _ _ _ _ _ _ _ _ _ _ _ H) as (out & Eo & En & _ & Hs).
  subst offer amount.
  assert (Hps : p' = p -> ps' = ps) by (intros E; rewrite E in Hp'; congruence).
  assert (Hb : p' = p -> forall y, bal w1 y p = if asset_eqb y (AToken ta) then bal w y p + n else bal w y p).
  { intros E. subst p'. exact (transfer_from_credits _ _ _ _ _ _ _ Hpo H1). }
  pose proof (entry_then_swap_path w w1 w' p ps p' ps' [] spender (AToken ta) n bp ms to out H01 Hcm HS1 Hps D1 Hb Hs) as X.
  apply (pathx_cond _ _ _ _ X). intros E. subst p'. rewrite (Hps eq_refl) in Hk. exact Hk.
Qed.

(* ------------------------------------------------------------------------------------ *)
(* histories                                                                             *)
(* ------------------------------------------------------------------------------------ *)
(* the abstract state of a pair depends only on the parts of its record that never change *)
Lemma pool_at_sim w p ps ps' : pair_sim ps ps' -> pool_at w p ps' = pool_at w p ps.
Proof. intros (E0 & E1 & El & _). unfold pool_at. rewrite E0, E1, El. reflexivity. Qed.

Lemma exec_pair_sim w o w' p ps :
  WF w -> exec w o = Ok w' -> w_pairs w p = Some ps -> exists ps', w_pairs w' p = Some ps' /\ pair_sim ps ps'.
Proof.
  intros HW H Hp. pose proof (exec_ext _ _ _ H) as He.
  assert (G : ext w w' -> exists ps', w_pairs w' p = Some ps' /\ pair_sim ps ps').
  { intros (_ & _ & _ & Hq). specialize (Hq p). rewrite Hp in Hq.
    destruct (w_pairs w' p) as [ps'|]; [|contradiction]. exists ps'. split; [reflexivity|exact Hq]. }
  destruct o; try (apply G; exact He).
  cbn [exec] in H. apply fac_create_pair_inv in H. destruct H as (ps0 & lt & r & _ & _ & _ & ->).
  destruct (WF_pair _ _ _ HW Hp) as (Kn & _).
  exists ps. cbn [w_pairs set_next set_reg set_token set_pair].
  rewrite upd_other by (clear - Kn; lia). split; [exact Hp|]. unfold pair_sim. auto.
Qed.

(* the router is never a pair: an invariant *)
Lemma exec_rtr_not_pair w o w' :
  Inert' w -> ~ is_contract w (caller_of o) -> w_pairs w (w_rtr w) = None -> exec w o = Ok w' ->
  w_pairs w' (w_rtr w') = None.
Proof.
  intros (_ & R1 & _) Hc Hr H.
  pose proof (exec_ext _ _ _ H) as He. pose proof (exec_Kc _ _ _ Hc H) as Hk.
  assert (G : ext w w' -> Kc w w' -> w_pairs w' (w_rtr w') = None).
  { intros (_ & _ & _ & Hq) (Kr & _). rewrite Kr. specialize (Hq (w_rtr w)). rewrite Hr in Hq.
    destruct (w_pairs w' (w_rtr w)); [contradiction|reflexivity]. }
  destruct o; try (apply G; [exact He|exact Hk]).
  cbn [exec] in H. apply fac_create_pair_inv in H. destruct H as (ps0 & lt & r & _ & _ & _ & ->).
  cbn [w_pairs w_rtr set_next set_reg set_token set_pair].
  rewrite upd_other by (clear - R1; lia). exact Hr.
Qed.

Lemma run_pathx ops : forall w p ps,
  WF w -> Solvent w -> Inert' w -> user_ops w ops -> w_next (run w ops) <= 1000 ->
  (Forall (fun o => routerless o = true) ops \/ w_pairs w (w_rtr w) = None) ->
  w_pairs w p = Some ps -> 0 < supply w (p_lp ps) ->
  pathx (p_comm ps) (Forall (fun o => swapless o = true) ops) (pool_at w p ps) (pool_at (run w ops) p ps).
Proof.
  induction ops as [|o ops IH]; intros w p ps HW HS HI Hu Hb Hr Hp Hpos.
  - apply pathx_false, path_nil.
  - change (run w (o :: ops)) with (run (step w o) ops) in *.
    cbn [user_ops] in Hu. destruct Hu as (Hc & Hu).
    assert (Hb1 : w_next (step w o) <= 1000).
    { eapply N.le_trans; [apply run_next_mono|exact Hb]. }
    pose proof (step_room _ _ Hb1) as Hroom.
    unfold step in *. destruct (exec w o) as [w1|e] eqn:E.
    + destruct Hroom as [Hroom|Hsame].
      2:{ (* the operation changed nothing *)
          subst w1. eapply pathx_weaken; [|apply (IH w p ps); try assumption].
          - intros F. inversion F. assumption.
          - destruct Hr as [F|Hr]; [left; inversion F; assumption|right; exact Hr]. }
      assert (HW1 : WF w1) by (exact (exec_preserves_WF w o w1 HW E)).
      assert (HS1 : Solvent w1) by (exact (exec_preserves_Solvent w o w1 HW HS E)).
      assert (HI1 : Inert' w1) by (exact (exec_preserves_Inert_variant w o w1 HW HI Hc Hroom E)).
      destruct (exec_pair_sim _ _ _ _ _ HW E Hp) as (ps1 & Hp1 & Hsim).
      assert (X : pathx (p_comm ps) (swapless o = true) (pool_at w p ps) (pool_at w1 p ps)).
      { apply (exec_pathx w o w1 p ps HW HS HI Hc); [|exact E|exact Hp|exact Hpos]. intros Erl.
        destruct Hr as [F|Hr]; [|exact Hr]. inversion F as [|? ? Fo _]. rewrite Fo in Erl. discriminate Erl. }
      assert (Hpos1 : 0 < supply w1 (p_lp ps1)).
      { pose proof (pathx_supply_pos _ _ _ _ X Hpos) as Q.
        destruct Hsim as (_ & _ & El & _). rewrite El. exact Q. }
      assert (Hr1 : Forall (fun o => routerless o = true) ops \/ w_pairs w1 (w_rtr w1) = None).
      { destruct Hr as [F|Hr]; [left; inversion F; assumption|right].
        exact (exec_rtr_not_pair w o w1 HI Hc Hr E). }
      pose proof (IH w1 p ps1 HW1 HS1 HI1 Hu Hb Hr1 Hp1 Hpos1) as Y.
      rewrite !(pool_at_sim _ _ _ _ Hsim) in Y.
      assert (Ec : p_comm ps1 = p_comm ps) by apply Hsim. rewrite Ec in Y.
      eapply pathx_app.
      * eapply pathx_weaken; [|exact X]. intros F. inversion F. assumption.
      * eapply pathx_weaken; [|exact Y]. intros F. inversion F. assumption.
    + eapply pathx_weaken; [|apply (IH w p ps); try assumption].
      * intros F. inversion F. assumption.
      * destruct Hr as [F|Hr]; [left; inversion F; assumption|right; exact Hr].
Qed.

(* ---- theorem 5 ---- *)
(* ORIGINAL STATEMENT: [run_pool_path] without the hypothesis that the router is not a pair (see [exec_pool_path_variant]) *)
Theorem run_pool_path_variant : forall ops w p ps,
  WF w -> Solvent w -> Inert' w -> w_pairs w (w_rtr w) = None -> user_ops w ops -> w_next (run w ops) <= 1000 ->
  w_pairs w p = Some ps -> 0 < supply w (p_lp ps) ->
  exists b, path b (pool_at w p ps) (pool_at (run w ops) p ps).
Proof.
  intros ops w p ps HW HS HI Hr Hu Hb Hp Hpos.
  eapply pathx_ex. apply run_pathx; try assumption. right. exact Hr.
Qed.

Theorem run_pool_path_flag : forall ops w p ps,
  WF w -> Solvent w -> Inert' w -> user_ops w ops -> w_next (run w ops) <= 1000 ->
  (Forall (fun o => routerless o = true) ops \/ w_pairs w (w_rtr w) = None) ->
  w_pairs w p = Some ps -> 0 < supply w (p_lp ps) ->
  exists b, path_at (p_comm ps) b (pool_at w p ps) (pool_at (run w ops) p ps) /\
            (Forall (fun o => swapless o = true) ops -> b = false).
Proof. intros ops w p ps. exact (run_pathx ops w p ps). Qed.

Theorem run_pool_path_at_variant : forall ops w p ps,
  WF w -> Solvent w -> Inert' w -> w_pairs w (w_rtr w) = None -> user_ops w ops -> w_next (run w ops) <= 1000 ->
  w_pairs w p = Some ps -> 0 < supply w (p_lp ps) ->
  exists b, path_at (p_comm ps) b (pool_at w p ps) (pool_at (run w ops) p ps).
Proof.
  intros ops w p ps HW HS HI Hr Hu Hb Hp Hpos.
  eapply pathx_at. apply run_pathx; try assumption. right. exact Hr.
Qed.

(* the original hypotheses suffice for histories that never enter the router *)
Theorem run_pool_path_routerless : forall ops w p ps,
  WF w -> Solvent w -> Inert' w -> user_ops w ops -> w_next (run w ops) <= 1000 ->
  Forall (fun o => routerless o = true) ops ->
  w_pairs w p = Some ps -> 0 < supply w (p_lp ps) ->
  exists b, path b (pool_at w p ps) (pool_at (run w ops) p ps).
Proof.
  intros ops w p ps HW HS HI Hu Hb Hf Hp Hpos.
  eapply pathx_ex. apply run_pathx; try assumption. left. exact Hf.
Qed.

Theorem run_swapless_path : forall ops w p ps,
  WF w -> Solvent w -> Inert' w -> user_ops w ops -> w_next (run w ops) <= 1000 ->
  Forall (fun o => swapless o = true) ops ->
  w_pairs w p = Some ps -> 0 < supply w (p_lp ps) ->
  path false (pool_at w p ps) (pool_at (run w ops) p ps).
Proof.
  intros ops w p ps HW HS HI Hu Hb Hf Hp Hpos.
  assert (X : pathx (p_comm ps) (Forall (fun o => swapless o = true) ops) (pool_at w p ps) (pool_at (run w ops) p ps)).
  { apply run_pathx; try assumption. left.
    eapply Forall_impl; [|exact Hf]. intros o Ho. apply swapless_routerless. exact Ho. }
  exact (pathx_cond _ _ _ _ X Hf).
Qed.

Theorem run_swapless_value : forall ops w p ps,
  WF w -> Solvent w -> Inert' w -> user_ops w ops -> w_next (run w ops) <= 1000 ->
  Forall (fun o => swapless o = true) ops ->
  w_pairs w p = Some ps -> 0 < supply w (p_lp ps) ->
  value_le (pool_at w p ps) (pool_at (run w ops) p ps) /\ 0 < supply (run w ops) (p_lp ps).
Proof.
  intros ops w p ps HW HS HI Hu Hb Hf Hp Hpos.
  apply (path_false_value (pool_at w p ps) (pool_at (run w ops) p ps)); [|exact Hpos].
  apply run_swapless_path; assumption.
Qed.

(* ------------------------------------------------------------------------------------ *)
(* a concrete instance: the hypotheses are satisfiable and the history does move the pair *)
(* ------------------------------------------------------------------------------------ *)
From HT Require Import World.Observe Proofs.InitProofs.

Definition ex_L : layout := mkLayout 3 2 3 4.
Definition ex_w0 : world := init_world ex_L 1000000000000 1000 (fun _ => 6).
(* user 1000 (the factory owner) registers denom 0, creates the pairs 5 = (native 0, token 2) and 7 = (native 0, token 3)
   with LP tokens 6 and 8, and provides 10^6 of each asset to both *)
Definition ex_setup : list op :=
  [ OFacAddNative 1000 0 6;
    OFacCreatePair 1000 (ANative 0) (AToken 2) [1000] 0 0 None None;
    OIncreaseAllowance 2 1000 5 1000000;
    OProvide 5 1000 [(0, 1000000)] (ANative 0) 1000000 (AToken 2) 1000000 None None;
    OFacCreatePair 1000 (ANative 0) (AToken 3) [1000] 0 0 None None;
    OIncreaseAllowance 3 1000 7 1000000;
    OProvide 7 1000 [(0, 1000000)] (ANative 0) 1000000 (AToken 3) 1000000 None None ].
Definition ex_w : world := run ex_w0 ex_setup.
(* a native swap, a cw20-hook swap, a withdrawal, a route through the router and a burn of LP *)
Definition ex_hist : list op :=
  [ OSwap 5 1001 [(0, 5000)] (ANative 0) 5000 None None None;
    OSend 2 1001 5 700 (HSwap (AToken 2) 700 None None None);
    OSend 6 1000 5 1000 HWithdraw;
    ORouterOps 1002 [(0, 300)] [(ANative 0, AToken 2)] None None;
    OBurn 6 1000 10 ].

Ltac not_contract :=
  let H := fresh "H" in
  intros [H|[H|[H|[H|[H _]]]]]; vm_compute in H; first [discriminate H | apply H; reflexivity].

Lemma ex_w0_inv : WF ex_w0 /\ Solvent ex_w0 /\ Inert' ex_w0.
Proof.
  split; [apply init_world_WF|]. split; [|apply init_world_Inert'].
  apply init_world_Solvent. vm_compute. reflexivity.
Qed.

Lemma ex_setup_user : user_ops ex_w0 ex_setup.
Proof. unfold ex_setup. cbn [user_ops]. repeat split; not_contract. Qed.

Lemma ex_w_inv : WF ex_w /\ Solvent ex_w /\ Inert' ex_w /\ w_pairs ex_w (w_rtr ex_w) = None.
Proof.
  destruct ex_w0_inv as (HW & HS & HI).
  split; [apply run_preserves_WF; exact HW|].
  split; [apply run_preserves_Solvent; assumption|].
  split; [|vm_compute; reflexivity].
  apply run_preserves_Inert_variant; [exact HW|exact HI|exact ex_setup_user|].
  vm_compute. intros E. discriminate E.
Qed.

Lemma ex_hist_user : user_ops ex_w ex_hist.
Proof. unfold ex_hist. cbn [user_ops]. repeat split; not_contract. Qed.

Example run_pool_path_example :
  exists ps, w_pairs ex_w 5 = Some ps /\ 0 < supply ex_w (p_lp ps) /\
    pool_at ex_w 5 ps = (1000000, 1000000, 1000000) /\
    pool_at (run ex_w ex_hist) 5 ps = (1003592, 994447, 998990) /\
    exists b, path b (pool_at ex_w 5 ps) (pool_at (run ex_w ex_hist) 5 ps).
Proof.
  destruct ex_w_inv as (HW & HS & HI & Hr).
  destruct (w_pairs ex_w 5) as [ps|] eqn:Ep; [|vm_compute in Ep; discriminate Ep].
  exists ps. split; [reflexivity|].
  assert (Hpos : 0 < supply ex_w (p_lp ps)).
  { vm_compute in Ep. inversion Ep. vm_compute. reflexivity. }
  split; [exact Hpos|].
  split; [vm_compute in Ep; inversion Ep; vm_compute; reflexivity|].
  split; [vm_compute in Ep; inversion Ep; vm_compute; reflexivity|].
  apply run_pool_path_variant; try assumption.
  - exact ex_hist_user.
  - vm_compute. intros E. discriminate E.
Qed.

(* ------------------------------------------------------------------------------------ *)
(* why theorem 2 needs the hypothesis that the router is not a pair                       *)
(* ------------------------------------------------------------------------------------ *)
(* The same world with the router's address moved onto pair 5: [WF], [Solvent] and [Inert'] still hold.  A user routes
   (native 0 -> token 3) through pair 7: the router forwards its whole balance of native 0, which is pair 5's reserve.
   Pair 5 goes from (10^6, 10^6, 10^6) to (0, 10^6, 10^6) although none of its handlers ran (so no swap of pair 5 in
   the recorded class took place); in particular no path of value-non-decreasing steps explains the move.
   (The bare conclusion [exists b, path b _ _] cannot be refuted this way: [path true] is a very permissive relation,
   since a withdrawal down to unit reserves followed by an abstract kf step with a huge offer empties a reserve, after
   which every state is reachable.  The content of the theorems is in the flag: it is [false] unless a swap of this
   very pair fell in the recorded class, see [exec_pathx], [exec_swapless_value], [exec_direct_swap_value_variant].) *)
Definition set_rtr (w : world) (r : addr) : world :=
  mkWorld (w_bank w) (w_tokens w) (w_pairs w) (w_fac w) r (w_owner w) (w_natives w) (w_reg w) (w_next w).
Lemma set_rtr_WF w r : WF w -> WF (set_rtr w r).
Proof. intros H. exact H. Qed.
Lemma set_rtr_Solvent w r : Solvent w -> Solvent (set_rtr w r).
Proof. intros H. exact H. Qed.
Lemma set_rtr_Inert' w r :
  Inert' w -> w_pairs w r <> None -> r < w_next w -> w_tokens w r = None -> Inert' (set_rtr w r).
Proof.
  intros ((I1 & I2) & _ & _) Hp Hn Ht. split; [split|split; assumption].
  - intros t tk c sp Htk Hc. apply (I1 t tk c sp Htk).
    destruct Hc as [Hc|[Hc|[Hc|[Hc|Hc]]]].
    + left. exact Hc.
    + cbn [set_rtr w_rtr] in Hc. subst c. right. right. left. exact Hp.
    + right. right. left. exact Hc.
    + right. right. right. left. exact Hc.
    + right. right. right. right. exact Hc.
  - exact I2.
Qed.

Definition bad_w : world := set_rtr ex_w 5.
Definition bad_o : op := ORouterOps 1002 [] [(ANative 0, AToken 3)] None None.

Theorem exec_pool_path_needs_router_not_pair :
  exists w o w' p ps,
    WF w /\ Solvent w /\ Inert' w /\ ~ is_contract w (caller_of o) /\ exec w o = Ok w' /\
    w_pairs w p = Some ps /\ 0 < supply w (p_lp ps) /\
    pool_at w p ps = (1000000, 1000000, 1000000) /\ pool_at w' p ps = (0, 1000000, 1000000) /\
    ~ path false (pool_at w p ps) (pool_at w' p ps).
Proof.
  destruct ex_w_inv as (HW & HS & HI & _).
  destruct (exec bad_w bad_o) as [w'|e] eqn:E; [|vm_compute in E; discriminate E].
  destruct (w_pairs bad_w 5) as [ps|] eqn:Ep; [|vm_compute in Ep; discriminate Ep].
  exists bad_w, bad_o, w', 5, ps.
  split; [apply set_rtr_WF; exact HW|]. split; [apply set_rtr_Solvent; exact HS|].
  split. { apply set_rtr_Inert'; [exact HI|vm_compute; discriminate|vm_compute; reflexivity|vm_compute; reflexivity]. }
  split; [not_contract|]. split; [exact E|]. split; [exact Ep|].
  assert (A : pool_at bad_w 5 ps = (1000000, 1000000, 1000000)).
  { vm_compute in Ep. inversion Ep. vm_compute. reflexivity. }
  assert (B : pool_at w' 5 ps = (0, 1000000, 1000000)).
  { vm_compute in Ep. inversion Ep. vm_compute in E. inversion E. vm_compute. reflexivity. }
  split. { vm_compute in Ep. inversion Ep. vm_compute. reflexivity. }
  split; [exact A|]. split; [exact B|].
  rewrite A, B. intros Hpath. apply path_false_value in Hpath; [|reflexivity].
  destruct Hpath as (V & _). vm_compute in V. apply V. reflexivity.
Qed.

(* the remark above, machine-checked: the two states of the witness ARE related by [path true], through a withdrawal
   down to unit reserves, an abstract kf swap with a huge offer that empties reserve 1, and steps from a state of
   value zero, from which everything is reachable *)
Example path_true_is_permissive : path true (1000000, 1000000, 1000000) (0, 1000000, 1000000).
Proof.
  apply (path_ok true _ (1000000 - 999999, 1000000 - 999999, 1000000 - 999999)).
  { apply ps_withdraw; vm_compute; try reflexivity; discriminate. }
  change (path true (1, 1, 1) (0, 1000000, 1000000)).
  apply (path_kf false _ (1 + 2000000000000000000, 1 - 1, 1)).
  { apply (kf_swap01 1 1 1 2000000000000000000 3000000000000000 1 1999999999999999999 0); vm_compute; reflexivity. }
  change (path false (2000000000000000001, 0, 1) (0, 1000000, 1000000)).
  apply (path_ok false _ (2000000000000000001 - 2000000000000000001, 0 + 1, 1)).
  { apply ps_swap10; vm_compute; try reflexivity; discriminate. }
  change (path false (0, 1, 1) (0 + 0, 1 + 999999, 1 + 999999)).
  apply path_step. apply ps_provide; vm_compute; try reflexivity; discriminate.
Qed.

Print Assumptions path_false_value.
Print Assumptions exec_pool_path_variant.
Print Assumptions exec_pool_path_routerless.
Print Assumptions exec_pool_path_router.
Print Assumptions exec_pool_path_flag.
Print Assumptions exec_pool_path_at_variant.
Print Assumptions exec_swapless_value.
Print Assumptions exec_swapless_value_le.
Print Assumptions exec_direct_swap_value_funds.
Print Assumptions exec_direct_swap_value_variant.
Print Assumptions exec_hook_swap_value.
Print Assumptions exec_hook_swap_from_value.
Print Assumptions run_pool_path_variant.
Print Assumptions run_pool_path_flag.
Print Assumptions run_pool_path_at_variant.
Print Assumptions run_pool_path_routerless.
Print Assumptions run_swapless_path.
Print Assumptions run_swapless_value.
Print Assumptions run_pool_path_example.
Print Assumptions exec_pool_path_needs_router_not_pair.
Print Assumptions path_true_is_permissive.
