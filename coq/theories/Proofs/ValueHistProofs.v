(* C03 at the level of whole histories: every successful transaction moves every pair's
   (reserve0, reserve1, LP supply) along a finite path of abstract steps, each of which is a
   value-non-decreasing [pool_step] or a swap in the recorded class [kf_c01]. *)
From HT Require Import Base.Prelude Num.Arith Amm.Formulas Amm.Guards Amm.Known World.World
  Proofs.NumProofs Proofs.ValueProofs Proofs.ValueLinks Proofs.LedgerProofs Proofs.SystemPoolProofs Proofs.FrameProofs
  Proofs.LivenessProofs Proofs.WFProofs Proofs.ConserveProofs Proofs.ReachProofs Proofs.SolventProofs Proofs.LockedProofs
  Proofs.TxEffectProofs.

(* ------------------------------------------------------------------------------------ *)
(* abstract paths                                                                        *)
(* ------------------------------------------------------------------------------------ *)
Definition pool_at (w : world) (p : addr) (ps : pairst) : pool :=
  (bal w (p_a0 ps) p, bal w (p_a1 ps) p, supply w (p_lp ps)).

(* a swap whose inputs lie in the recorded class: the only step kind that may lower the value *)
Inductive kf_step : pool -> pool -> Prop :=
| kf_swap01 x y T a c n s m : compute_swap x y a c = Ok (n, s, m) -> kf_c01 x y a c = true -> kf_step (x, y, T) (x + a, y - n, T)
| kf_swap10 x y T a c n s m : compute_swap y x a c = Ok (n, s, m) -> kf_c01 y x a c = true -> kf_step (x, y, T) (x - n, y + a, T).

(* a finite path of abstract steps; the flag records whether a kf step occurs *)
Inductive path : bool -> pool -> pool -> Prop :=
| path_nil s : path false s s
| path_ok b s1 s2 s3 : pool_step s1 s2 -> path b s2 s3 -> path b s1 s3
| path_kf b s1 s2 s3 : kf_step s1 s2 -> path b s2 s3 -> path true s1 s3.

Lemma path_app b1 b2 s1 s2 s3 : path b1 s1 s2 -> path b2 s2 s3 -> path (b1 || b2) s1 s3.
Proof.
  intros H1 H2. induction H1 as [s|b s1 s2 s3' Hst Hrest IH|b s1 s2 s3' Hst Hrest IH].
  - exact H2.
  - eapply path_ok; [exact Hst|]. apply IH. exact H2.
  - cbn [orb]. eapply path_kf; [exact Hst|]. apply IH. exact H2.
Qed.

Lemma path_step s s' : pool_step s s' -> path false s s'.
Proof. intros H. eapply path_ok; [exact H|apply path_nil]. Qed.

Lemma path_kf_step s s' : kf_step s s' -> path true s s'.
Proof. intros H. eapply path_kf; [exact H|apply path_nil]. Qed.

Lemma path_false_steps b s s' : path b s s' -> b = false -> pool_steps s s'.
Proof.
  induction 1 as [s|b s1 s2 s3 Hst Hrest IH|b s1 s2 s3 Hst Hrest IH]; intros Hb.
  - apply pss_nil.
  - eapply pss_cons; [exact Hst|]. apply IH. exact Hb.
  - discriminate.
Qed.

Theorem path_false_value : forall s s', path false s s' -> 0 < supply_of s -> value_le s s' /\ 0 < supply_of s'.
Proof.
  intros s s' H. apply pool_steps_value. eapply path_false_steps; [exact H|reflexivity].
Qed.

Lemma kf_step_supply s s' : kf_step s s' -> supply_of s' = supply_of s.
Proof. intros H. destruct H; reflexivity. Qed.

(* the supply stays positive along any path *)
Lemma path_supply_pos b s s' : path b s s' -> 0 < supply_of s -> 0 < supply_of s'.
Proof.
  induction 1 as [s|b s1 s2 s3 Hst Hrest IH|b s1 s2 s3 Hst Hrest IH]; intros Hp.
  - exact Hp.
  - apply IH. apply (pool_step_value _ _ Hst Hp).
  - apply IH. rewrite (kf_step_supply _ _ Hst). exact Hp.
Qed.


(* existential packaging: a path whose flag is [false] whenever [C] holds *)
Definition pathx (C : Prop) (s s' : pool) : Prop := exists b, path b s s' /\ (C -> b = false).

Lemma pathx_any (C : Prop) b s s' : path b s s' -> (C -> b = false) -> pathx C s s'.
Proof. intros H Hc. exists b. split; assumption. Qed.
Lemma pathx_false (C : Prop) s s' : path false s s' -> pathx C s s'.
Proof. intros H. exists false. split; [exact H|reflexivity]. Qed.
Lemma pathx_app (C : Prop) s1 s2 s3 : pathx C s1 s2 -> pathx C s2 s3 -> pathx C s1 s3.
Proof.
  intros (b1 & H1 & C1) (b2 & H2 & C2). exists (b1 || b2). split; [eapply path_app; eassumption|].
  intros Hc. rewrite (C1 Hc), (C2 Hc). reflexivity.
Qed.
Lemma pathx_weaken (C C' : Prop) s s' : (C' -> C) -> pathx C s s' -> pathx C' s s'.
Proof. intros Hi (b & H & Hc). exists b. split; [exact H|]. intros Hc'. apply Hc, Hi, Hc'. Qed.
Lemma pathx_True s s' : pathx True s s' -> path false s s'.
Proof. intros (b & H & Hc). rewrite (Hc I) in H. exact H. Qed.
Lemma pathx_ex (C : Prop) s s' : pathx C s s' -> exists b, path b s s'.
Proof. intros (b & H & _). exists b. exact H. Qed.

(* ------------------------------------------------------------------------------------ *)
(* donations: the account [p] is never debited and the supply of [lp] does not move       *)
(* ------------------------------------------------------------------------------------ *)
Definition Don (p lp : addr) (w w' : world) : Prop := Dm p w w' /\ supply w' lp = supply w lp.

Lemma Don_refl p lp w : Don p lp w w.
Proof. split; [apply Dm_refl|reflexivity]. Qed.
Lemma Don_trans p lp w1 w2 w3 : Don p lp w1 w2 -> Don p lp w2 w3 -> Don p lp w1 w3.
Proof. intros (A1 & A2) (B1 & B2). split; [eapply Dm_trans; eassumption|congruence]. Qed.

Lemma donate_to r0 r1 T r0' r1' : r0 <= r0' -> r1 <= r1' -> pool_step (r0, r1, T) (r0', r1', T).
Proof.
  intros H0 H1.
  replace r0' with (r0 + (r0' - r0)) by (clear - H0; lia).
  replace r1' with (r1 + (r1' - r1)) by (clear - H1; lia).
  apply ps_donate.
Qed.

Lemma Don_path p ps w w' : Don p (p_lp ps) w w' -> path false (pool_at w p ps) (pool_at w' p ps).
Proof.
  intros (Hd & Hs). unfold pool_at. rewrite Hs. apply path_step. apply donate_to; apply Hd.
Qed.

(* ---- supplies ---- *)
Lemma same_config_supply w w' t : same_config w w' -> supply w' t = supply w t.
Proof. intros (_ & _ & _ & _ & _ & _ & _ & S1 & _). apply S1. Qed.

Lemma bank_send_supply w from to cs w' t : bank_send w from to cs = Ok w' -> supply w' t = supply w t.
Proof. intros H. apply bank_send_inv in H. destruct H as (nz & b1 & b2 & _ & _ & ->). reflexivity. Qed.

Lemma move_funds_supply w from to cs w' t : move_funds w from to cs = Ok w' -> supply w' t = supply w t.
Proof.
  intros H. unfold move_funds in H. destruct cs as [|c cs]; [inversion H; reflexivity|].
  eapply bank_send_supply. exact H.
Qed.

Lemma with_token_supply w ta f w' u : with_token w ta f = Ok w' ->
  (u = ta -> forall t t', w_tokens w ta = Some t -> f t = Ok t' -> t_supply t' = t_supply t) ->
  supply w' u = supply w u.
Proof.
  intros H Hf. apply with_token_inv in H. destruct H as (t & t' & Ht & Hft & ->).
  rewrite set_token_supply. destruct (u =? ta) eqn:E; [|reflexivity].
  apply N.eqb_eq in E. unfold supply. rewrite E, Ht. eapply Hf; eassumption.
Qed.

Lemma with_token_supply_other w ta f w' u : with_token w ta f = Ok w' -> u <> ta -> supply w' u = supply w u.
Proof. intros H Hu. eapply with_token_supply; [exact H|]. intros E. contradiction. Qed.

Lemma transfer_supply w ta from to n w' u :
  with_token w ta (fun t => tok_transfer t from to n) = Ok w' -> supply w' u = supply w u.
Proof.
  intros H. eapply with_token_supply; [exact H|]. intros _ t t' _ Hf. cbv beta in Hf.
  apply tok_transfer_effect in Hf. apply Hf.
Qed.

Lemma transfer_from_supply w ta sp ow to n w' u :
  with_token w ta (fun t => tok_transfer_from t sp ow to n) = Ok w' -> supply w' u = supply w u.
Proof.
  intros H. eapply with_token_supply; [exact H|]. intros _ t t' _ Hf. cbv beta in Hf.
  apply tok_transfer_from_inv in Hf. apply Hf.
Qed.

Lemma pay_asset_supply w from a n to w' u : pay_asset w from a n to = Ok w' -> supply w' u = supply w u.
Proof. intros H. apply pay_asset_effect in H. destruct H as (_ & _ & C & _). apply same_config_supply. exact C. Qed.

(* ---- primitive donations ---- *)
Lemma bank_send_Don p lp w from to cs w' : p <> from -> bank_send w from to cs = Ok w' -> Don p lp w w'.
Proof.
  intros Hp H. split; [apply (bank_send_Gs p _ _ _ _ _ Hp H)|]. eapply bank_send_supply. exact H.
Qed.

Lemma move_funds_Don p lp w from to cs w' : p <> from -> move_funds w from to cs = Ok w' -> Don p lp w w'.
Proof.
  intros Hp H. split; [apply (move_funds_Gs p _ _ _ _ _ Hp H)|]. eapply move_funds_supply. exact H.
Qed.

Lemma transfer_Don p lp w ta from to n w' :
  p <> from -> with_token w ta (fun t => tok_transfer t from to n) = Ok w' -> Don p lp w w'.
Proof.
  intros Hp H. split; [apply (transfer_Gs p _ _ _ _ _ _ Hp H)|]. eapply transfer_supply. exact H.
Qed.

Lemma pay_asset_Don p lp w from a n to w' : p <> from -> pay_asset w from a n to = Ok w' -> Don p lp w w'.
Proof.
  intros Hp H. split; [apply (pay_asset_Gs p _ _ _ _ _ _ Hp H)|]. eapply pay_asset_supply. exact H.
Qed.

Lemma transfer_from_Don p lp w ta sp ow to n w' :
  p <> ow -> with_token w ta (fun t => tok_transfer_from t sp ow to n) = Ok w' -> Don p lp w w'.
Proof.
  intros Hp H. split; [|eapply transfer_from_supply; exact H].
  eapply with_token_Dm; [|exact H]. intros t t' _ Hf. cbv beta in Hf.
  apply tok_transfer_from_inv in Hf. destruct Hf as (_ & _ & _ & Hb). apply Hb. exact Hp.
Qed.

Lemma mint_Don p lp w ta s r n w' :
  lp <> ta -> with_token w ta (fun t => tok_mint t s r n) = Ok w' -> Don p lp w w'.
Proof.
  intros Hl H. destruct (mint_Dm p _ _ _ _ _ _ H) as (D1 & _). split; [exact D1|].
  eapply with_token_supply_other; eassumption.
Qed.

Lemma burn_Don p lp w ta sd n w' :
  p <> sd -> lp <> ta -> with_token w ta (fun t => tok_burn t sd n) = Ok w' -> Don p lp w w'.
Proof.
  intros Hp Hl H. split; [apply (burn_Gs p _ _ _ _ _ Hp H)|].
  eapply with_token_supply_other; eassumption.
Qed.

Lemma pair_swap_Don p lp w p' ps' funds sender offer amount bp ms to r :
  p <> p' -> pair_swap w p' ps' funds sender offer amount bp ms to = Ok r -> Don p lp w (fst r).
Proof.
  intros Hp H. apply pair_swap_pay in H. destruct H as [->|(ask & ret & H)]; [apply Don_refl|].
  eapply pay_asset_Don; eassumption.
Qed.

Lemma pair_withdraw_Don p lp w p' ps' sender amount w' :
  p <> p' -> lp <> p_lp ps' -> pair_withdraw w p' ps' sender amount = Ok w' -> Don p lp w w'.
Proof.
  intros Hp Hl H. apply pair_withdraw_structure in H.
  destruct H as (total & x0 & x1 & w1 & w2 & _ & _ & P1 & P2 & Pb).
  apply (pay_asset_Don p lp) in P1; [|exact Hp]. apply (pay_asset_Don p lp) in P2; [|exact Hp].
  apply (burn_Don p lp) in Pb; [|exact Hp|exact Hl].
  eapply Don_trans; [exact P1|]. eapply Don_trans; eassumption.
Qed.

Lemma pull_Don p lp w a sp ow to n w1 :
  p <> ow ->
  (match a with AToken ta => with_token w ta (fun t => tok_transfer_from t sp ow to n) | ANative _ => Ok w end) = Ok w1 ->
  Don p lp w w1.
Proof.
  intros Hp H. destruct a as [d|ta]; [inversion H; apply Don_refl|].
  eapply transfer_from_Don; eassumption.
Qed.

Lemma pair_provide_Don p lp w p' ps' c funds l0 n0 l1 n1 tol rcv w' :
  p <> c -> lp <> p_lp ps' -> pair_provide w p' ps' c funds l0 n0 l1 n1 tol rcv = Ok w' -> Don p lp w w'.
Proof.
  intros Hp Hl H. apply pair_provide_structure in H.
  destruct H as (r0 & r1 & d0 & d1 & q0 & q1 & total & share & _ & _ & _ & _ & _ & _ & _ & _ & _ &
                 _ & _ & _ & w1 & w2 & Hw1 & Hw2 & H).
  cbv zeta in H.
  apply (pull_Don p lp) in Hw1; [|exact Hp]. apply (pull_Don p lp) in Hw2; [|exact Hp].
  eapply Don_trans; [exact Hw1|]. eapply Don_trans; [exact Hw2|].
  destruct (total =? 0).
  - destruct H as (w3 & M1 & _ & M2).
    apply (mint_Don p lp) in M1; [|exact Hl]. apply (mint_Don p lp) in M2; [|exact Hl].
    eapply Don_trans; eassumption.
  - eapply mint_Don; eassumption.
Qed.


(* ------------------------------------------------------------------------------------ *)
(* the swap handler on the pair itself                                                   *)
(* ------------------------------------------------------------------------------------ *)
Lemma swap_steps x y T a c n s m :
  x < W128 -> y < W128 -> a < W128 -> c <= D -> compute_swap x y a c = Ok (n, s, m) ->
  pathx (kf_c01 x y a c = false) (x, y, T) (x + a, y - n, T) /\
  pathx (kf_c01 x y a c = false) (y, x, T) (y - n, x + a, T).
Proof.
  intros Hx Hy Ha Hc H. destruct (kf_c01 x y a c) eqn:K.
  - split; apply (pathx_any _ true); try (intros E; exact E); apply path_kf_step.
    + eapply kf_swap01; eassumption.
    + eapply kf_swap10; eassumption.
  - destruct (swap_is_pool_step x y a c n s m T Hx Hy Ha Hc H K) as (P1 & P2).
    split; apply pathx_false, path_step; assumption.
Qed.

Lemma pair_swap_self w1 p ps funds sender offer amount bp ms to w' ret spread comm :
  asset_eqb (p_a0 ps) (p_a1 ps) = false ->
  pair_swap w1 p ps funds sender offer amount bp ms to = Ok (w', (ret, spread, comm)) ->
  let ask := if asset_eqb offer (p_a0 ps) then p_a1 ps else p_a0 ps in
  let rcv := match to with Some t => t | None => sender end in
  (asset_eqb offer (p_a0 ps) = true \/ asset_eqb offer (p_a1 ps) = true) /\
  amount <= bal w1 offer p /\
  compute_swap (bal w1 offer p - amount) (bal w1 ask p) amount (p_comm ps) = Ok (ret, spread, comm) /\
  (forall t, supply w' t = supply w1 t) /\
  bal w' offer p = bal w1 offer p /\
  bal w' ask p = (if p =? rcv then bal w1 ask p else bal w1 ask p - ret).
Proof.
  intros H01 H ask rcv.
  pose proof (pair_swap_settlement _ _ _ _ _ _ _ _ _ _ _ _ _ _ H) as S.
  cbv zeta in S. fold ask in S. fold rcv in S.
  destruct S as (Hor & (x & y & Hcs & Hx & Hy) & C & Hb).
  pose proof (offer_ask_distinct ps offer H01 Hor) as Hoa. fold ask in Hoa.
  split; [exact Hor|].
  split; [clear - Hx; lia|].
  split. { replace (bal w1 offer p - amount) with x by (clear - Hx; lia). subst y. exact Hcs. }
  split; [intros t; apply same_config_supply; exact C|].
  split. { rewrite Hb, Hoa. reflexivity. }
  rewrite Hb, LedgerProofs.asset_eqb_refl, N.eqb_refl. cbn [andb].
  destruct (ret =? 0) eqn:E0; cbn [negb andb].
  - apply N.eqb_eq in E0. subst ret. rewrite N.sub_0_r. destruct (p =? rcv); reflexivity.
  - destruct (p =? rcv); reflexivity.
Qed.

(* entry (anything that credits the pair with at least the offered amount) followed by the pair's swap *)
Lemma swap_self_path w w1 w' p ps funds sender offer amount bp ms to out :
  asset_eqb (p_a0 ps) (p_a1 ps) = false -> p_comm ps <= D -> Solvent w1 ->
  Don p (p_lp ps) w w1 -> bal w offer p + amount <= bal w1 offer p ->
  pair_swap w1 p ps funds sender offer amount bp ms to = Ok (w', out) ->
  pathx (kf_c01 (bal w1 offer p - amount)
                (bal w1 (if asset_eqb offer (p_a0 ps) then p_a1 ps else p_a0 ps) p) amount (p_comm ps) = false)
        (pool_at w p ps) (pool_at w' p ps).
Proof.
  intros H01 Hc HS (Hd & Hsup) Hcr H. destruct out as [[ret spread] comm].
  destruct (pair_swap_self _ _ _ _ _ _ _ _ _ _ _ _ _ _ H01 H) as (Hor & Hle & Hcs & Hs & Bo & Ba).
  assert (H10 : asset_eqb (p_a1 ps) (p_a0 ps) = false) by (rewrite LedgerProofs.asset_eqb_sym; exact H01).
  pose proof (Hd (p_a0 ps)) as D0. pose proof (Hd (p_a1 ps)) as D1.
  pose proof (Solvent_bal w1 (p_a0 ps) p HS) as B0. pose proof (Solvent_bal w1 (p_a1 ps) p HS) as B1.
  unfold pool_at. rewrite Hs, Hsup. clear H Hs Hsup HS Hd.
  remember (supply w (p_lp ps)) as T eqn:ET. clear ET.
  remember (match to with Some t => t | None => sender end) as rcv eqn:Er. clear Er.
  destruct Hor as [E|E]; apply LedgerProofs.asset_eqb_eq in E; subst offer.
  - rewrite LedgerProofs.asset_eqb_refl in *. cbv iota in *.
    assert (A : amount < W128) by (clear - Hle B0; lia).
    assert (X : bal w1 (p_a0 ps) p - amount < W128) by (clear - B0; lia).
    destruct (swap_steps _ _ T _ _ _ _ _ X B1 A Hc Hcs) as (P1 & _).
    rewrite Bo, Ba. destruct (p =? rcv).
    + apply pathx_false, path_step. apply donate_to; [clear - D0; lia|exact D1].
    + eapply pathx_app; [apply pathx_false, path_step, (donate_to _ _ _ (bal w1 (p_a0 ps) p - amount) (bal w1 (p_a1 ps) p));
                         [clear - Hcr; lia|exact D1]|].
      assert (EX : bal w1 (p_a0 ps) p - amount + amount = bal w1 (p_a0 ps) p) by (clear - Hle; lia).
      rewrite EX in P1. exact P1.
  - rewrite H10 in *. cbv iota in *.
    assert (A : amount < W128) by (clear - Hle B1; lia).
    assert (X : bal w1 (p_a1 ps) p - amount < W128) by (clear - B1; lia).
    destruct (swap_steps _ _ T _ _ _ _ _ X B0 A Hc Hcs) as (_ & P2).
    rewrite Bo, Ba. destruct (p =? rcv).
    + apply pathx_false, path_step. apply donate_to; [exact D0|clear - D1; lia].
    + eapply pathx_app; [apply pathx_false, path_step, (donate_to _ _ _ (bal w1 (p_a0 ps) p) (bal w1 (p_a1 ps) p - amount));
                         [exact D0|clear - Hcr; lia]|].
      assert (EX : bal w1 (p_a1 ps) p - amount + amount = bal w1 (p_a1 ps) p) by (clear - Hle; lia).
      rewrite EX in P2. exact P2.
Qed.

(* the trader (or the router) pays the offer to the pair [p'], then [p'] swaps: the effect on the pair [p] *)
Lemma pay_then_swap_path w w1 w' p ps p' ps' funds sender offer amount bp ms to out :
  asset_eqb (p_a0 ps) (p_a1 ps) = false -> p_comm ps <= D ->
  Solvent w -> sender <> p -> (p' = p -> ps' = ps) ->
  pay_asset w sender offer amount p' = Ok w1 ->
  pair_swap w1 p' ps' funds sender offer amount bp ms to = Ok (w', out) ->
  pathx (p' = p -> kf_c01 (bal w offer p) (bal w (if asset_eqb offer (p_a0 ps) then p_a1 ps else p_a0 ps) p)
                          amount (p_comm ps) = false)
        (pool_at w p ps) (pool_at w' p ps).
Proof.
  intros H01 Hc HS Hsp Hps Hpay H.
  assert (HS1 : Solvent w1) by (exact (pay_asset_pres _ _ _ _ _ _ Hpay HS)).
  assert (Hps' : p <> sender) by congruence.
  pose proof (pay_asset_Don p (p_lp ps) _ _ _ _ _ _ Hps' Hpay) as D1.
  destruct (N.eq_dec p' p) as [E|Ne].
  - subst p'. rewrite (Hps eq_refl) in H. clear Hps.
    apply pay_asset_effect in Hpay. destruct Hpay as (_ & _ & _ & Hb).
    assert (Esp : (sender =? p) = false) by (apply N.eqb_neq; exact Hsp).
    assert (Eps : (p =? sender) = false) by (apply N.eqb_neq; exact Hps').
    assert (Bo : bal w1 offer p = bal w offer p + amount).
    { rewrite Hb, LedgerProofs.asset_eqb_refl, Esp, Eps, N.eqb_refl. reflexivity. }
    destruct out as [[ret spread] comm].
    destruct (pair_swap_self _ _ _ _ _ _ _ _ _ _ _ _ _ _ H01 H) as (Hor & _).
    pose proof (offer_ask_distinct ps offer H01 Hor) as Hoa.
    assert (Ba : bal w1 (if asset_eqb offer (p_a0 ps) then p_a1 ps else p_a0 ps) p =
                 bal w (if asset_eqb offer (p_a0 ps) then p_a1 ps else p_a0 ps) p).
    { rewrite Hb. rewrite LedgerProofs.asset_eqb_sym, Hoa. reflexivity. }
    eapply pathx_weaken; [|eapply (swap_self_path w w1 w'); try eassumption; rewrite Bo; apply N.le_refl].
    intros Hk. specialize (Hk eq_refl). rewrite Bo, Ba.
    replace (bal w offer p + amount - amount) with (bal w offer p) by (clear; lia). exact Hk.
  - apply pathx_false. apply Don_path. eapply Don_trans; [exact D1|].
    apply (pair_swap_Don p (p_lp ps)) in H; [|congruence]. exact H.
Qed.

(* ------------------------------------------------------------------------------------ *)
(* router                                                                                *)
(* ------------------------------------------------------------------------------------ *)
Lemma router_hop_inv w offer ask to w' : router_hop w offer ask to = Ok w' ->
  exists r ps' w1 funds out, reg_find (w_reg w) offer ask = Some r /\ w_pairs w (f_pair r) = Some ps' /\
    pay_asset w (w_rtr w) offer (bal w offer (w_rtr w)) (f_pair r) = Ok w1 /\
    pair_swap w1 (f_pair r) ps' funds (w_rtr w) offer (bal w offer (w_rtr w)) None None to = Ok (w', out).
Proof.
  intros H. unfold router_hop in H.
  destruct (reg_find (w_reg w) offer ask) as [r|] eqn:Er; [|discriminate]. cbv zeta in H.
  destruct (w_pairs w (f_pair r)) as [ps'|] eqn:Ep; [|discriminate].
  bnd H amount Ha. apply asset_balance_bal in Ha. subst amount.
  destruct offer as [d|ta].
  - bnd H w1 H1. bnd H rr Hs. inversion H. subst w'. clear H. destruct rr as [w2 out]. cbn [fst].
    exists r, ps', w1, [(d, bal w (ANative d) (w_rtr w))], out.
    split; [reflexivity|]. split; [exact Ep|]. split; [exact H1|exact Hs].
  - bnd H w1 H1. cbn [pair_receive] in H. rewrite N.eqb_refl in H. cbn [negb] in H.
    bnd H b0 Hb0. bnd H b1 Hb1.
    destruct (asset_eqb (p_a0 ps') (AToken ta) || asset_eqb (p_a1 ps') (AToken ta)); cbn [negb] in H; [|discriminate].
    rewrite LedgerProofs.asset_eqb_refl in H. cbn [negb] in H.
    bnd H rr Hs. inversion H. subst w'. clear H. destruct rr as [w2 out]. cbn [fst].
    exists r, ps', w1, [], out.
    split; [reflexivity|]. split; [exact Ep|]. split; [exact H1|exact Hs].
Qed.

Lemma router_hop_path w offer ask to w' p ps :
  asset_eqb (p_a0 ps) (p_a1 ps) = false -> p_comm ps <= D ->
  Solvent w -> w_pairs w p = Some ps -> w_rtr w <> p ->
  router_hop w offer ask to = Ok w' -> pathx False (pool_at w p ps) (pool_at w' p ps).
Proof.
  intros H01 Hc HS Hp Hr H. apply router_hop_inv in H.
  destruct H as (r & ps' & w1 & funds & out & _ & Hp' & Hpay & Hs).
  eapply pathx_weaken; [|eapply pay_then_swap_path; try eassumption].
  - intros [].
  - intros E. rewrite E in Hp'. congruence.
Qed.

Lemma router_hops_path ops : forall w to w' p ps,
  asset_eqb (p_a0 ps) (p_a1 ps) = false -> p_comm ps <= D ->
  Solvent w -> w_pairs w p = Some ps -> w_rtr w <> p ->
  router_hops w ops to = Ok w' -> pathx False (pool_at w p ps) (pool_at w' p ps).
Proof.
  induction ops as [|q ops IH]; intros w to w' p ps H01 Hc HS Hp Hr H.
  - cbn [router_hops] in H. inversion H. apply pathx_false, path_nil.
  - destruct ops as [|q2 rest].
    + destruct q as [o a]. cbn [router_hops] in H. eapply router_hop_path; eassumption.
    + rewrite router_hops_cons2 in H. bnd H w1 H1.
      pose proof (router_hop_pres _ _ _ _ _ H1 HS) as HS1.
      pose proof (router_hop_both _ _ _ _ _ H1) as (_ & _ & Kr & Kp).
      eapply pathx_app; [eapply router_hop_path; eassumption|].
      eapply IH; try eassumption.
      * rewrite Kp. exact Hp.
      * rewrite Kr. exact Hr.
Qed.

Lemma router_exec_ops_path w sender ops m to w' p ps :
  asset_eqb (p_a0 ps) (p_a1 ps) = false -> p_comm ps <= D ->
  Solvent w -> w_pairs w p = Some ps -> w_rtr w <> p ->
  router_exec_ops w sender ops m to = Ok w' -> pathx False (pool_at w p ps) (pool_at w' p ps).
Proof.
  intros H01 Hc HS Hp Hr H. unfold router_exec_ops in H. destruct ops as [|q ops]; [discriminate|].
  bnd H u Hu. cbv zeta in H.
  assert (Hh : exists w1, router_hops w (q :: ops) (match to with Some t => t | None => sender end) = Ok w1 /\ w' = w1).
  { destruct m as [m|].
    - bnd H prev Hpv. bnd H w1 H1. apply router_assert_min_same in H. eauto.
    - eauto. }
  destruct Hh as (w1 & Hh & ->). eapply router_hops_path; eassumption.
Qed.
