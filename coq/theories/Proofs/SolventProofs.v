(* E-supply as an invariant: in every world reachable from a solvent start, the balances of every asset over any
   duplicate-free roster of accounts stay below 2^128 (natives) / within the recorded total supply (cw20s). *)
From HT Require Import Base.Prelude Num.Arith Amm.Formulas Amm.Guards World.World Proofs.LedgerProofs Proofs.FrameProofs Proofs.WFProofs Proofs.ConserveProofs Proofs.LivenessProofs Proofs.ReachProofs.

(* E-supply as an invariant: over EVERY duplicate-free finite roster of accounts, the native balances of a denom add
   up to less than 2^128, and the balances of a cw20 add up to at most its recorded total supply, itself below 2^128 *)
Definition Solvent (w : world) : Prop :=
  (forall d l, NoDup l -> sum_bal w (ANative d) l < W128) /\
  (forall t l, NoDup l -> sum_bal w (AToken t) l <= supply w t) /\
  (forall t, supply w t < W128).

(* ------------------------------------------------------------------------------------ *)
(* sums over rosters                                                                     *)
(* ------------------------------------------------------------------------------------ *)
Lemma sumf_nil f : sumf f [] = 0.
Proof. reflexivity. Qed.
Lemma sumf_cons f a l : sumf f (a :: l) = f a + sumf f l.
Proof. reflexivity. Qed.
Lemma sumf_app f l1 l2 : sumf f (l1 ++ l2) = sumf f l1 + sumf f l2.
Proof.
  induction l1 as [|a l1 IH]; [rewrite sumf_nil; cbn [app]; lia|].
  cbn [app]. rewrite !sumf_cons, IH. lia.
Qed.
Lemma sumf_zero f l : (forall a, f a = 0) -> sumf f l = 0.
Proof. intros H. induction l as [|a l IH]; [reflexivity|]. rewrite sumf_cons, H, IH. reflexivity. Qed.

(* sums are monotone under roster inclusion *)
Lemma sumf_mono f l : forall l', NoDup l -> NoDup l' -> incl l l' -> sumf f l <= sumf f l'.
Proof.
  induction l as [|a l IH]; intros l' Hl Hl' Hi.
  - rewrite sumf_nil. apply N.le_0_l.
  - assert (Ha : In a l') by (apply Hi; left; reflexivity).
    apply in_split in Ha. destruct Ha as (l1 & l2 & ->).
    apply NoDup_cons_iff in Hl. destruct Hl as (Hal & Hl).
    apply NoDup_remove in Hl'. destruct Hl' as (Hl' & Hn).
    assert (Hi' : incl l (l1 ++ l2)).
    { intros x Hx. assert (Hx' : In x (l1 ++ a :: l2)) by (apply Hi; right; exact Hx).
      apply in_app_or in Hx'. apply in_or_app. destruct Hx' as [Hx'|[Hx'|Hx']]; [left; exact Hx' | | right; exact Hx'].
      subst x. contradiction. }
    specialize (IH (l1 ++ l2) Hl Hl' Hi').
    rewrite sumf_app in IH. rewrite sumf_app, !sumf_cons. clear - IH. lia.
Qed.

(* every roster sits inside a duplicate-free roster that also contains [k] *)
Lemma enlarge (k l : list addr) : exists l', NoDup l' /\ incl k l' /\ incl l l'.
Proof.
  exists (nodup N.eq_dec (k ++ l)). split; [apply NoDup_nodup|].
  split; intros x Hx; apply nodup_In; apply in_or_app; [left | right]; exact Hx.
Qed.

(* the working form of preservation: over rosters containing [k], native sums do not grow, and cw20 sums grow by at
   most the growth of the supply (shrink by at least its shrinkage) *)
Lemma Solvent_step w w' k : Solvent w ->
  (forall l, NoDup l -> incl k l -> forall d, sum_bal w' (ANative d) l <= sum_bal w (ANative d) l) ->
  (forall l, NoDup l -> incl k l -> forall t, sum_bal w' (AToken t) l + supply w t <= sum_bal w (AToken t) l + supply w' t) ->
  (forall t, supply w' t < W128) -> Solvent w'.
Proof.
  intros (S1 & S2 & S3) Hn Ht Hs. split; [|split; [|exact Hs]].
  - intros d l Hl. destruct (enlarge k l) as (l' & Hl' & Hk & Hi).
    pose proof (sumf_mono (bal w' (ANative d)) l l' Hl Hl' Hi) as M. rewrite <- !sum_bal_sumf in M.
    pose proof (Hn l' Hl' Hk d) as C. pose proof (S1 d l' Hl') as B. clear - M C B. lia.
  - intros t l Hl. destruct (enlarge k l) as (l' & Hl' & Hk & Hi).
    pose proof (sumf_mono (bal w' (AToken t)) l l' Hl Hl' Hi) as M. rewrite <- !sum_bal_sumf in M.
    pose proof (Ht l' Hl' Hk t) as C. pose proof (S2 t l' Hl') as B. clear - M C B. lia.
Qed.

(* ------------------------------------------------------------------------------------ *)
(* the preservation relation                                                             *)
(* ------------------------------------------------------------------------------------ *)
Definition pres (w w' : world) : Prop := Solvent w -> Solvent w'.

Lemma pres_refl w : pres w w.
Proof. intros H. exact H. Qed.
Lemma pres_trans w1 w2 w3 : pres w1 w2 -> pres w2 w3 -> pres w1 w3.
Proof. intros H1 H2 H. apply H2, H1, H. Qed.

(* worlds with the same ledgers *)
Lemma pres_same w w' : w_bank w' = w_bank w -> w_tokens w' = w_tokens w -> pres w w'.
Proof.
  intros Hb Ht (S1 & S2 & S3).
  assert (Eb : forall y a, bal w' y a = bal w y a).
  { intros y a. destruct y as [d|t]; cbn [bal]; [rewrite Hb | rewrite Ht]; reflexivity. }
  assert (Es : forall t, supply w' t = supply w t) by (intros t; unfold supply; rewrite Ht; reflexivity).
  split; [|split].
  - intros d l Hl. rewrite (sum_same w w') by (intros a _; apply Eb). apply S1. exact Hl.
  - intros t l Hl. rewrite (sum_same w w'), Es by (intros a _; apply Eb). apply S2. exact Hl.
  - intros t. rewrite Es. apply S3.
Qed.

(* conservation over rosters containing [k], with all supplies unchanged *)
Lemma pres_conserved w w' k :
  (forall t, supply w' t = supply w t) ->
  (forall l, NoDup l -> incl k l -> forall y, sum_bal w' y l = sum_bal w y l) -> pres w w'.
Proof.
  intros Hs Hc HS. apply (Solvent_step w w' k HS).
  - intros l Hl Hk d. rewrite (Hc l Hl Hk). apply N.le_refl.
  - intros l Hl Hk t. rewrite (Hc l Hl Hk), Hs. apply N.le_refl.
  - intros t. rewrite Hs. apply HS.
Qed.

(* ------------------------------------------------------------------------------------ *)
(* bank                                                                                  *)
(* ------------------------------------------------------------------------------------ *)
Lemma bank_send_pres w from to cs w' : bank_send w from to cs = Ok w' -> pres w w'.
Proof.
  intros H. apply (pres_conserved w w' [from; to]).
  - apply bank_send_inv in H. destruct H as (nz & b1 & b2 & _ & _ & ->). reflexivity.
  - intros l Hl Hk y. eapply bank_send_conserves; [exact H | exact Hl | |]; apply Hk; cbn [In]; auto.
Qed.

Lemma move_funds_pres w from to cs w' : move_funds w from to cs = Ok w' -> pres w w'.
Proof.
  intros H. unfold move_funds in H. destruct cs as [|c cs].
  - inversion H. apply pres_refl.
  - eapply bank_send_pres. exact H.
Qed.

(* ------------------------------------------------------------------------------------ *)
(* cw20 primitives                                                                       *)
(* ------------------------------------------------------------------------------------ *)
Lemma tok_debit_supply t a n t' : tok_debit t a n = Ok t' -> t_supply t' = t_supply t.
Proof. unfold tok_debit. destruct (n <=? t_bal t a); [|discriminate]. intros H. inversion H. reflexivity. Qed.
Lemma tok_credit_supply t a n t' : tok_credit t a n = Ok t' -> t_supply t' = t_supply t.
Proof. unfold tok_credit. destruct (t_bal t a + n <? W128); [|discriminate]. intros H. inversion H. reflexivity. Qed.

(* a cw20 operation on the token at [ta]: over rosters containing [k] the sum of its balances moves with its supply *)
Lemma with_token_step w ta f w' k : with_token w ta f = Ok w' ->
  (forall t t', f t = Ok t' -> (t_supply t < W128 -> t_supply t' < W128) /\
     forall l, NoDup l -> incl k l -> sumf (t_bal t') l + t_supply t <= sumf (t_bal t) l + t_supply t') ->
  pres w w'.
Proof.
  intros H Hf HS. apply with_token_inv in H. destruct H as (t & t' & Ht & Hft & ->).
  destruct (Hf t t' Hft) as (Hsup & Hsum). clear Hf Hft.
  assert (Est : supply w ta = t_supply t) by (unfold supply; rewrite Ht; reflexivity).
  apply (Solvent_step w _ k HS).
  - intros l Hl Hk d. apply N.le_refl.
  - intros l Hl Hk u. rewrite set_token_supply.
    destruct (u =? ta) eqn:E; [apply N.eqb_eq in E; subst u | apply N.eqb_neq in E].
    + rewrite Est, !sum_bal_sumf.
      rewrite (sumf_ext (t_bal t') (bal (set_token w ta t') (AToken ta)) l)
        by (intros a _; rewrite set_token_bal, LedgerProofs.asset_eqb_refl; reflexivity).
      rewrite (sumf_ext (t_bal t) (bal w (AToken ta)) l) by (intros a _; cbn [bal]; rewrite Ht; reflexivity).
      apply Hsum; assumption.
    + rewrite (sum_same w (set_token w ta t') (AToken u) l).
      * apply N.le_refl.
      * intros a _. rewrite set_token_bal. cbn [asset_eqb]. apply N.eqb_neq in E. rewrite E. reflexivity.
  - intros u. rewrite set_token_supply. destruct (u =? ta); [|apply HS].
    apply Hsup. rewrite <- Est. apply HS.
Qed.

Lemma tok_transfer_pres w ta from to n w' : with_token w ta (fun t => tok_transfer t from to n) = Ok w' -> pres w w'.
Proof.
  intros H. apply (with_token_step w ta _ w' [from; to] H).
  intros t t' Hf. cbv beta in Hf. unfold tok_transfer in Hf. destruct (n =? 0); [discriminate|].
  bnd Hf t1 H1.
  pose proof (tok_debit_supply _ _ _ _ H1) as E1. pose proof (tok_credit_supply _ _ _ _ Hf) as E2.
  split; [intros Hlt; rewrite E2, E1; exact Hlt|].
  intros l Hl Hk.
  pose proof (tok_debit_sum _ _ _ _ l H1 Hl (Hk _ (or_introl eq_refl))) as S1.
  pose proof (tok_credit_sum _ _ _ _ l Hf Hl (Hk _ (or_intror (or_introl eq_refl)))) as S2.
  rewrite E2, E1. clear - S1 S2. lia.
Qed.

Lemma tok_transfer_from_pres w ta sp ow to n w' :
  with_token w ta (fun t => tok_transfer_from t sp ow to n) = Ok w' -> pres w w'.
Proof.
  intros H. apply (with_token_step w ta _ w' [ow; to] H).
  intros t t' Hf. cbv beta in Hf. unfold tok_transfer_from in Hf.
  destruct (t_allow t ow sp) as [al|]; [|discriminate].
  destruct (n <=? al); [|discriminate]. cbv zeta in Hf. bnd Hf t1 H1.
  pose proof (tok_debit_supply _ _ _ _ H1) as E1. pose proof (tok_credit_supply _ _ _ _ Hf) as E2.
  cbn [t_supply] in E1.
  split; [intros Hlt; rewrite E2, E1; exact Hlt|].
  intros l Hl Hk.
  pose proof (tok_debit_sum _ _ _ _ l H1 Hl (Hk _ (or_introl eq_refl))) as S1.
  pose proof (tok_credit_sum _ _ _ _ l Hf Hl (Hk _ (or_intror (or_introl eq_refl)))) as S2.
  cbn [t_bal] in S1. rewrite E2, E1. clear - S1 S2. lia.
Qed.

Lemma tok_increase_allowance_pres w ta ow sp n w' :
  with_token w ta (fun t => tok_increase_allowance t ow sp n) = Ok w' -> pres w w'.
Proof.
  intros H. apply (with_token_step w ta _ w' [] H).
  intros t t' Hf. cbv beta in Hf. unfold tok_increase_allowance in Hf.
  destruct (sp =? ow); [discriminate|]. cbv zeta in Hf.
  destruct (_ <? W128); [|discriminate]. inversion Hf. subst t'. clear Hf. cbn [t_bal t_supply].
  split; [intros Hlt; exact Hlt|]. intros l _ _. apply N.le_refl.
Qed.

(* a mint raises the supply by n (checked below 2^128) and one balance by n *)
Lemma tok_mint_pres w ta sd to n w' : with_token w ta (fun t => tok_mint t sd to n) = Ok w' -> pres w w'.
Proof.
  intros H. apply (with_token_step w ta _ w' [to] H).
  intros t t' Hf. cbv beta in Hf. unfold tok_mint in Hf.
  destruct (n =? 0); [discriminate|]. destruct (t_minter t) as [m|]; [|discriminate].
  destruct (negb (m =? sd)); [discriminate|].
  destruct (t_supply t + n <? W128) eqn:El; [|discriminate]. apply N.ltb_lt in El.
  pose proof (tok_credit_supply _ _ _ _ Hf) as E2. cbn [t_supply] in E2.
  split; [intros _; rewrite E2; exact El|].
  intros l Hl Hk.
  pose proof (tok_credit_sum _ _ _ _ l Hf Hl (Hk _ (or_introl eq_refl))) as S2.
  cbn [t_bal] in S2. rewrite E2. clear - S2. lia.
Qed.

(* a burn lowers one balance and the supply by n *)
Lemma tok_burn_pres w ta sd n w' : with_token w ta (fun t => tok_burn t sd n) = Ok w' -> pres w w'.
Proof.
  intros H. apply (with_token_step w ta _ w' [sd] H).
  intros t t' Hf. cbv beta in Hf. unfold tok_burn in Hf.
  destruct (n =? 0); [discriminate|]. bnd Hf t1 H1.
  pose proof (tok_debit_supply _ _ _ _ H1) as E1.
  destruct (n <=? t_supply t1) eqn:El; [|discriminate]. apply N.leb_le in El.
  inversion Hf. subst t'. clear Hf. cbn [t_bal t_supply]. rewrite E1 in *.
  split; [intros Hlt; clear - Hlt El; lia|].
  intros l Hl Hk.
  pose proof (tok_debit_sum _ _ _ _ l H1 Hl (Hk _ (or_introl eq_refl))) as S1.
  clear - S1 El. lia.
Qed.

Lemma pay_asset_pres w from x n to w' : pay_asset w from x n to = Ok w' -> pres w w'.
Proof.
  intros H. destruct x as [d|ta]; cbn [pay_asset] in H.
  - eapply bank_send_pres. exact H.
  - eapply tok_transfer_pres. exact H.
Qed.

(* ------------------------------------------------------------------------------------ *)
(* handlers: compose the primitives                                                      *)
(* ------------------------------------------------------------------------------------ *)
(* goal [pres w w'] from a chain of [pres] hypotheses *)
Ltac sol_chain :=
  first [ solve [apply pres_same; reflexivity]
        | eassumption
        | match goal with
          | H : pres ?a ?b |- pres ?a _ => apply (pres_trans _ _ _ H); sol_chain
          end ].

Ltac sol_fact H := fail.
Ltac sol_facts :=
  repeat match goal with
         | H : _ = Ok _ |- _ => sol_fact H
         end.
Ltac sol_fin := sol_facts; cbn [fst snd] in *; sol_chain.
Ltac sol_solve := inv_all; sol_fin.

Ltac sol_fact H ::=
  first [ apply bank_send_pres in H | apply move_funds_pres in H
        | apply tok_transfer_pres in H | apply tok_transfer_from_pres in H
        | apply tok_increase_allowance_pres in H | apply tok_mint_pres in H | apply tok_burn_pres in H
        | apply pay_asset_pres in H ].

Lemma pair_swap_pres w p ps funds sender offer amount bp ms to r :
  pair_swap w p ps funds sender offer amount bp ms to = Ok r -> pres w (fst r).
Proof. intros H. unfold pair_swap in H. cbv beta zeta in H. sol_solve. Qed.

Lemma pair_withdraw_pres w p ps sender amount w' : pair_withdraw w p ps sender amount = Ok w' -> pres w w'.
Proof. intros H. unfold pair_withdraw in H. cbv beta zeta in H. sol_solve. Qed.

Lemma pair_provide_pres w p ps c funds l0 n0 l1 n1 tol rcv w' :
  pair_provide w p ps c funds l0 n0 l1 n1 tol rcv = Ok w' -> pres w w'.
Proof. intros H. unfold pair_provide in H. cbv beta zeta in H. sol_solve. Qed.

Lemma pair_update_decimals_pres w p ps c dn d0 d1 w' : pair_update_decimals w p ps c dn d0 d1 = Ok w' -> pres w w'.
Proof. intros H. unfold pair_update_decimals in H. cbv zeta in H. sol_solve. Qed.

Ltac sol_fact H ::=
  first [ apply bank_send_pres in H | apply move_funds_pres in H
        | apply tok_transfer_pres in H | apply tok_transfer_from_pres in H
        | apply tok_increase_allowance_pres in H | apply tok_mint_pres in H | apply tok_burn_pres in H
        | apply pay_asset_pres in H
        | apply pair_swap_pres in H | apply pair_withdraw_pres in H | apply pair_provide_pres in H
        | apply pair_update_decimals_pres in H ].

Lemma pair_receive_pres w p ps c funds cs ca h w' : pair_receive w p ps c funds cs ca h = Ok w' -> pres w w'.
Proof. intros H. unfold pair_receive in H. cbv beta zeta in H. sol_solve. Qed.

Lemma fac_update_records_pres dn k todo : forall w done w',
  fac_update_records w dn k todo done = Ok w' -> pres w w'.
Proof.
  induction todo as [|r todo IH]; intros w done w' H.
  - cbn [fac_update_records] in H. sol_solve.
  - cbn [fac_update_records] in H. cbv beta zeta in H.
    inv_step. inv_step. apply IH in H.
    assert (pres w v) by sol_solve.
    assert (pres v v0) by sol_solve.
    sol_chain.
Qed.

Lemma fac_add_native_pres w c dn k w' : fac_add_native w c dn k = Ok w' -> pres w w'.
Proof.
  intros H. unfold fac_add_native in H. cbv beta zeta in H. inv_all.
  - apply fac_update_records_pres in H.
    eapply pres_trans; [|exact H]. apply pres_same; reflexivity.
  - apply pres_same; reflexivity.
Qed.

Lemma fac_update_config_pres w c o w' : fac_update_config w c o = Ok w' -> pres w w'.
Proof. intros H. unfold fac_update_config in H. inv_all; destruct o; apply pres_same; reflexivity. Qed.

Lemma fac_migrate_pair_pres w c ct w' : fac_migrate_pair w c ct = Ok w' -> pres w w'.
Proof. intros H. unfold fac_migrate_pair in H. inv_all. apply pres_refl. Qed.

Ltac sol_fact H ::=
  first [ apply bank_send_pres in H | apply move_funds_pres in H
        | apply tok_transfer_pres in H | apply tok_transfer_from_pres in H
        | apply tok_increase_allowance_pres in H | apply tok_mint_pres in H | apply tok_burn_pres in H
        | apply pay_asset_pres in H
        | apply pair_swap_pres in H | apply pair_withdraw_pres in H | apply pair_provide_pres in H
        | apply pair_update_decimals_pres in H | apply pair_receive_pres in H
        | apply fac_add_native_pres in H | apply fac_update_config_pres in H | apply fac_migrate_pair_pres in H ].

Lemma router_hop_pres w offer ask to w' : router_hop w offer ask to = Ok w' -> pres w w'.
Proof. intros H. unfold router_hop in H. cbv beta zeta in H. sol_solve. Qed.

Ltac sol_fact H ::=
  first [ apply bank_send_pres in H | apply move_funds_pres in H
        | apply tok_transfer_pres in H | apply tok_transfer_from_pres in H
        | apply tok_increase_allowance_pres in H | apply tok_mint_pres in H | apply tok_burn_pres in H
        | apply pay_asset_pres in H
        | apply pair_swap_pres in H | apply pair_withdraw_pres in H | apply pair_provide_pres in H
        | apply pair_update_decimals_pres in H | apply pair_receive_pres in H
        | apply fac_add_native_pres in H | apply fac_update_config_pres in H | apply fac_migrate_pair_pres in H
        | apply router_hop_pres in H ].

Lemma router_hops_pres ops : forall w to w', router_hops w ops to = Ok w' -> pres w w'.
Proof.
  induction ops as [|p ops IH]; intros w to w' H.
  - cbn in H. sol_solve.
  - destruct ops as [|q rest].
    + destruct p as [o a]. cbn [router_hops] in H. sol_solve.
    + rewrite FrameProofs.router_hops_cons2 in H. inv_step. apply IH in H. sol_fin.
Qed.

Lemma router_assert_min_pres w t prev m r w' : router_assert_min w t prev m r = Ok w' -> pres w w'.
Proof. intros H. apply router_assert_min_same in H. subst w'. apply pres_refl. Qed.

Lemma router_exec_ops_pres w s ops m to w' : router_exec_ops w s ops m to = Ok w' -> pres w w'.
Proof.
  intros H. unfold router_exec_ops in H. cbv beta zeta in H.
  destruct ops as [|p ops]; [discriminate|].
  inv_step. destruct m as [m|].
  - inv_step. inv_step. apply router_hops_pres in E1. apply router_assert_min_pres in H. sol_chain.
  - apply router_hops_pres in H. exact H.
Qed.

Ltac sol_fact H ::=
  first [ apply bank_send_pres in H | apply move_funds_pres in H
        | apply tok_transfer_pres in H | apply tok_transfer_from_pres in H
        | apply tok_increase_allowance_pres in H | apply tok_mint_pres in H | apply tok_burn_pres in H
        | apply pay_asset_pres in H
        | apply pair_swap_pres in H | apply pair_withdraw_pres in H | apply pair_provide_pres in H
        | apply pair_update_decimals_pres in H | apply pair_receive_pres in H
        | apply fac_add_native_pres in H | apply fac_update_config_pres in H | apply fac_migrate_pair_pres in H
        | apply router_hop_pres in H | apply router_exec_ops_pres in H | apply router_assert_min_pres in H ].

Lemma cw20_send_pres w ta s target n h w' : cw20_send w ta s target n h = Ok w' -> pres w w'.
Proof. intros H. unfold cw20_send in H. cbv beta zeta in H. sol_solve. Qed.

Ltac sol_fact H ::=
  first [ apply bank_send_pres in H | apply move_funds_pres in H
        | apply tok_transfer_pres in H | apply tok_transfer_from_pres in H
        | apply tok_increase_allowance_pres in H | apply tok_mint_pres in H | apply tok_burn_pres in H
        | apply pay_asset_pres in H
        | apply pair_swap_pres in H | apply pair_withdraw_pres in H | apply pair_provide_pres in H
        | apply pair_update_decimals_pres in H | apply pair_receive_pres in H
        | apply fac_add_native_pres in H | apply fac_update_config_pres in H | apply fac_migrate_pair_pres in H
        | apply router_hop_pres in H | apply router_exec_ops_pres in H | apply router_assert_min_pres in H
        | apply cw20_send_pres in H ].

(* BurnFrom lowers the owner's balance and the supply by n; DecreaseAllowance moves no balance *)
Lemma tok_burn_from_pres w ta sp ow n w' : with_token w ta (fun t => tok_burn_from t sp ow n) = Ok w' -> pres w w'.
Proof.
  intros H. apply (with_token_step w ta _ w' [ow] H).
  intros t t' Hf. cbv beta in Hf. apply tok_burn_from_effect in Hf.
  destruct Hf as (al & _ & _ & Hb1 & Hs1 & Hs & _ & _ & _ & Hb).
  split; [intros Hlt; rewrite Hs; clear - Hlt; lia|].
  intros l Hl Hk.
  assert (S1 : sumf (t_bal t') l + n = sumf (t_bal t) l).
  { apply (sumf_dec (t_bal t) _ l ow n Hl (Hk _ (or_introl eq_refl)) Hb1). intros a _. apply Hb. }
  rewrite Hs. clear - S1 Hs1. lia.
Qed.

Lemma tok_decrease_allowance_pres w ta ow sp n w' :
  with_token w ta (fun t => tok_decrease_allowance t ow sp n) = Ok w' -> pres w w'.
Proof.
  intros H. apply (with_token_step w ta _ w' [] H).
  intros t t' Hf. cbv beta in Hf. apply tok_decrease_allowance_effect in Hf.
  destruct Hf as (_ & al & _ & Hb & Hs & _). rewrite Hb, Hs.
  split; [intros Hlt; exact Hlt|]. intros l _ _. apply N.le_refl.
Qed.

Ltac sol_fact H ::=
  first [ apply bank_send_pres in H | apply move_funds_pres in H
        | apply tok_transfer_pres in H | apply tok_transfer_from_pres in H
        | apply tok_increase_allowance_pres in H | apply tok_mint_pres in H | apply tok_burn_pres in H
        | apply tok_burn_from_pres in H | apply tok_decrease_allowance_pres in H
        | apply pay_asset_pres in H
        | apply pair_swap_pres in H | apply pair_withdraw_pres in H | apply pair_provide_pres in H
        | apply pair_update_decimals_pres in H | apply pair_receive_pres in H
        | apply fac_add_native_pres in H | apply fac_update_config_pres in H | apply fac_migrate_pair_pres in H
        | apply router_hop_pres in H | apply router_exec_ops_pres in H | apply router_assert_min_pres in H
        | apply cw20_send_pres in H ].

Lemma cw20_send_from_pres w ta sp ow target n h w' : cw20_send_from w ta sp ow target n h = Ok w' -> pres w w'.
Proof. intros H. unfold cw20_send_from in H. cbv beta zeta in H. sol_solve. Qed.

Ltac sol_fact H ::=
  first [ apply bank_send_pres in H | apply move_funds_pres in H
        | apply tok_transfer_pres in H | apply tok_transfer_from_pres in H
        | apply tok_increase_allowance_pres in H | apply tok_mint_pres in H | apply tok_burn_pres in H
        | apply tok_burn_from_pres in H | apply tok_decrease_allowance_pres in H
        | apply pay_asset_pres in H
        | apply pair_swap_pres in H | apply pair_withdraw_pres in H | apply pair_provide_pres in H
        | apply pair_update_decimals_pres in H | apply pair_receive_pres in H
        | apply fac_add_native_pres in H | apply fac_update_config_pres in H | apply fac_migrate_pair_pres in H
        | apply router_hop_pres in H | apply router_exec_ops_pres in H | apply router_assert_min_pres in H
        | apply cw20_send_pres in H | apply cw20_send_from_pres in H ].

(* pair creation installs an LP token with supply 0 and all balances 0 *)
Lemma set_token_zero_pres w lp lt : (forall a, t_bal lt a = 0) -> t_supply lt = 0 -> pres w (set_token w lp lt).
Proof.
  intros Hb Hs (S1 & S2 & S3). split; [|split].
  - intros d l Hl. exact (S1 d l Hl).
  - intros t l Hl. rewrite set_token_supply.
    destruct (t =? lp) eqn:E; [apply N.eqb_eq in E; subst t | apply N.eqb_neq in E].
    + rewrite sum_bal_sumf, sumf_zero; [apply N.le_0_l|].
      intros a. rewrite set_token_bal, LedgerProofs.asset_eqb_refl. apply Hb.
    + rewrite (sum_same w (set_token w lp lt) (AToken t) l); [apply S2; exact Hl|].
      intros a _. rewrite set_token_bal. cbn [asset_eqb]. apply N.eqb_neq in E. rewrite E. reflexivity.
  - intros t. rewrite set_token_supply. destruct (t =? lp); [|apply S3].
    rewrite Hs. apply W128_pos.
Qed.

Lemma fac_create_pair_pres w c a0 a1 wl m0 m1 cm ld w' :
  fac_create_pair w c a0 a1 wl m0 m1 cm ld = Ok w' -> pres w w'.
Proof.
  intros H. unfold fac_create_pair in H.
  destruct (negb _); [discriminate|]. destruct (asset_eqb a0 a1); [discriminate|].
  destruct (match cm with Some c0 => D <? c0 | None => false end); [discriminate|].
  bnd H d0 Hd0. bnd H d1 Hd1. destruct (reg_find _ _ _); [discriminate|]. cbv zeta in H.
  destruct (18 <? _); [discriminate|]. inversion H. clear H.
  match goal with |- pres w (set_next (set_reg (set_token ?w1 ?lp ?lt) _) _) =>
    apply (pres_trans w w1); [apply pres_same; reflexivity|];
    apply (pres_trans w1 (set_token w1 lp lt)); [|apply pres_same; reflexivity];
    apply set_token_zero_pres; [intros a|]; reflexivity
  end.
Qed.

(* ------------------------------------------------------------------------------------ *)
(* THE theorems                                                                          *)
(* ------------------------------------------------------------------------------------ *)
Lemma exec_pres w o w' : exec w o = Ok w' -> pres w w'.
Proof.
  intros H. destruct o; unfold exec in H; try solve [sol_solve].
  eapply fac_create_pair_pres. exact H.
Qed.

(* every operation preserves solvency (in a well-formed world), hence every history does *)
Theorem exec_preserves_Solvent : forall w o w', WF w -> Solvent w -> exec w o = Ok w' -> Solvent w'.
Proof. intros w o w' _ HS H. exact (exec_pres w o w' H HS). Qed.

Theorem run_preserves_Solvent : forall ops w, WF w -> Solvent w -> WF (run w ops) /\ Solvent (run w ops).
Proof.
  induction ops as [|o ops IH]; intros w HW HS.
  - split; assumption.
  - change (run w (o :: ops)) with (run (step w o) ops). apply IH.
    + apply step_preserves_WF. exact HW.
    + unfold step. destruct (exec w o) as [w'|e] eqn:E; [|exact HS].
      eapply exec_preserves_Solvent; eassumption.
Qed.

(* ------------------------------------------------------------------------------------ *)
(* consequences                                                                          *)
(* ------------------------------------------------------------------------------------ *)
Lemma NoDup_one (a : addr) : NoDup [a].
Proof. apply NoDup_cons; [intros [] | apply NoDup_nil]. Qed.
Lemma NoDup_two (a b : addr) : a <> b -> NoDup [a; b].
Proof. intros H. apply NoDup_cons; [|apply NoDup_one]. intros [E|[]]. apply H. symmetry. exact E. Qed.

Lemma sum_bal_one w x a : sum_bal w x [a] = bal w x a.
Proof. unfold sum_bal. cbn [fold_right]. apply N.add_0_r. Qed.
Lemma sum_bal_two w x a b : sum_bal w x [a; b] = bal w x a + bal w x b.
Proof. unfold sum_bal. cbn [fold_right]. rewrite N.add_0_r. reflexivity. Qed.

Theorem Solvent_token_le_supply : forall w t a, Solvent w -> bal w (AToken t) a <= supply w t.
Proof. intros w t a (_ & S2 & _). rewrite <- sum_bal_one. apply S2. apply NoDup_one. Qed.

Theorem Solvent_token_two : forall w t a b, Solvent w -> a <> b -> bal w (AToken t) a + bal w (AToken t) b <= supply w t.
Proof. intros w t a b (_ & S2 & _) Hab. rewrite <- sum_bal_two. apply S2. apply NoDup_two. exact Hab. Qed.

Theorem Solvent_bal : forall w x a, Solvent w -> bal w x a < W128.
Proof.
  intros w x a HS. destruct x as [d|t].
  - destruct HS as (S1 & _ & _). rewrite <- sum_bal_one. apply S1. apply NoDup_one.
  - pose proof (Solvent_token_le_supply w t a HS) as L. destruct HS as (_ & _ & S3). specialize (S3 t).
    clear - L S3. lia.
Qed.

Theorem Solvent_two : forall w x a b, Solvent w -> a <> b -> bal w x a + bal w x b < W128.
Proof.
  intros w x a b HS Hab. destruct x as [d|t].
  - destruct HS as (S1 & _ & _). rewrite <- sum_bal_two. apply S1. apply NoDup_two. exact Hab.
  - pose proof (Solvent_token_two w t a b HS Hab) as L. destruct HS as (_ & _ & S3). specialize (S3 t).
    clear - L S3. lia.
Qed.

(* C20 with ALL side hypotheses discharged by the two invariants: in any world reachable from a well-formed, solvent
   start, a holder can withdraw any amount up to their balance that meets the entitlement condition *)
Theorem withdraw_tx_succeeds_invariants : forall w0 w p ps holder a lt,
  WF w0 -> Solvent w0 -> reachable w0 w ->
  w_pairs w p = Some ps -> w_tokens w (p_lp ps) = Some lt ->
  holder <> p -> 1 <= a -> a <= t_bal lt holder ->
  bal w (p_a0 ps) p * t_supply lt + 2 * t_supply lt * D <= bal w (p_a0 ps) p * a * D ->
  bal w (p_a1 ps) p * t_supply lt + 2 * t_supply lt * D <= bal w (p_a1 ps) p * a * D ->
  exists w', cw20_send w (p_lp ps) holder p a HWithdraw = Ok w'.
Proof.
  intros w0 w p ps holder a lt HW0 HS0 Hr Hp Hlt Hh Ha1 Ha2 E0 E1.
  assert (HW : WF w) by (eapply WF_reachable; eassumption).
  assert (HS : Solvent w).
  { destruct Hr as [ops ->]. apply run_preserves_Solvent; assumption. }
  assert (Eb : forall x, bal w (AToken (p_lp ps)) x = t_bal lt x) by (intros x; cbn [bal]; rewrite Hlt; reflexivity).
  assert (Es : supply w (p_lp ps) = t_supply lt) by (unfold supply; rewrite Hlt; reflexivity).
  pose proof (Solvent_token_le_supply w (p_lp ps) holder HS) as L1. rewrite Eb, Es in L1.
  pose proof (Solvent_token_two w (p_lp ps) holder p HS Hh) as L2. rewrite !Eb, Es in L2.
  assert (L3 : t_supply lt < W128) by (rewrite <- Es; apply HS).
  apply (withdraw_tx_succeeds_WF w p ps holder a lt HW Hp Hlt Hh Ha1 Ha2 L1).
  - clear - Ha2 L2 L3. lia.
  - apply Solvent_bal. exact HS.
  - apply Solvent_bal. exact HS.
  - apply Solvent_two; assumption.
  - apply Solvent_two; assumption.
  - exact E0.
  - exact E1.
Qed.

Print Assumptions exec_preserves_Solvent.
Print Assumptions run_preserves_Solvent.
Print Assumptions Solvent_bal.
Print Assumptions Solvent_two.
Print Assumptions Solvent_token_le_supply.
Print Assumptions Solvent_token_two.
Print Assumptions withdraw_tx_succeeds_invariants.
