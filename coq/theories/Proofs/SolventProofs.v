(* E-supply as an invariant: in every world reachable from a solvent start, the balances of every asset over any
   duplicate-free roster of accounts stay below 2^128 (natives) / within the recorded total supply (cw20s). *)
From HT Require Import Base.Prelude Num.Arith Amm.Formulas Amm.Guards World.World Proofs.LedgerProofs Proofs.FrameProofs Proofs.WFProofs Proofs.ConserveProofs Proofs.LivenessProofs Proofs.ReachProofs.

(* E-supply as an invariant: over EVERY duplicate-free finite roster of accounts, the native balances of a denom add
   up to less than 2^128, and the balances of a cw20 add up to at most its recorded total supply, itself below 2^128 *)
Definition Solvent (w : world) : Prop :=
  (forall d l, NoDup l -> sum_bal w (ANative d) l < W128) /\
  (forall t l, NoDup l -> sum_bal w (AToken t) l <= supply w t) /\
  (forall t, supply w t < W128).

(* ------------------------------------------------------------------------------------ *)
(* sums over rosters                                                                     *)
(* ------------------------------------------------------------------------------------ *)
Lemma sumf_nil f : sumf f [] = 0.
Proof. reflexivity. Qed.
Lemma sumf_cons f a l : sumf f (a :: l) = f a + sumf f l.
Proof. reflexivity. Qed.
Lemma sumf_app f l1 l2 : sumf f (l1 ++ l2) = sumf f l1 + sumf f l2.
Proof.
  induction l1 as [|a l1 IH]; [rewrite sumf_nil; cbn [app]; lia|].
  cbn [app]. rewrite !sumf_cons, IH. lia.
Qed.
Lemma sumf_zero f l : (forall a, f a = 0) -> sumf f l = 0.
Proof. intros H. induction l as [|a l IH]; [reflexivity|]. rewrite sumf_cons, H, IH. reflexivity. Qed.

(* sums are monotone under roster inclusion *)
Lemma sumf_mono f l : forall l', NoDup l -> NoDup l' -> incl l l' -> sumf f l <= sumf f l'.
Proof.
  induction l as [|a l IH]; intros l' Hl Hl' Hi.
  - rewrite sumf_nil. apply N.le_0_l.
  - assert (Ha : In a l') by (apply Hi; left; reflexivity).
    apply in_split in Ha. destruct Ha as (l1 & l2 & ->).
    apply NoDup_cons_iff in Hl. destruct Hl as (Hal & Hl).
    apply NoDup_remove in Hl'. destruct Hl' as (Hl' & Hn).
    assert (Hi' : incl l (l1 ++ l2)).
    { intros x Hx. assert (Hx' : In x (l1 ++ a :: l2)) by (apply Hi; right; exact Hx).
      apply in_app_or in Hx'. apply in_or_app. destruct Hx' as [Hx'|[Hx'|Hx']]; [left; exact Hx' | | right; exact Hx'].
      subst x. contradiction. }
    specialize (IH (l1 ++ l2) Hl Hl' Hi').
    rewrite sumf_app in IH. rewrite sumf_app, !sumf_cons. clear - IH. lia.
Qed.

(* every roster sits inside a duplicate-free roster that also contains [k] *)
Lemma enlarge (k l : list addr) : exists l', NoDup l' /\ incl k l' /\ incl l l'.
Proof.
  exists (nodup N.eq_dec (k ++ l)). split; [apply NoDup_nodup|].
  split; intros x Hx; apply nodup_In; apply in_or_app; [left | right]; exact Hx.
Qed.

(* the working form of preservation: over rosters containing [k], native sums do not grow, and cw20 sums grow by at
   most the growth of the supply (shrink by at least its shrinkage) *)
Lemma Solvent_step w w' k : Solvent w ->
  (forall l, NoDup l -> incl k l -> forall d, sum_bal w' (ANative d) l <= sum_bal w (ANative d) l) ->
  (forall l, NoDup l -> incl k l -> forall t, sum_bal w' (AToken t) l + supply w t <= sum_bal w (AToken t) l + supply w' t) ->
  (forall t, supply w' t < W128) -> Solvent w'.
Proof.
  intros (S1 & S2 & S3) Hn Ht Hs. split; [|split; [|exact Hs]].
  - intros d l Hl. destruct (enlarge k l) as (l' & Hl' & Hk & Hi).
    pose proof (sumf_mono (bal w' (ANative d)) l l' Hl Hl' Hi) as M. rewrite <- !sum_bal_sumf in M.
    pose proof (Hn l' Hl' Hk d) as C. pose proof (S1 d l' Hl') as B. clear - M C B. lia.
  - intros t l Hl. destruct (enlarge k l) as (l' & Hl' & Hk & Hi).
    pose proof (sumf_mono (bal w' (AToken t)) l l' Hl Hl' Hi) as M. rewrite <- !sum_bal_sumf in M.
    pose proof (Ht l' Hl' Hk t) as C. pose proof (S2 t l' Hl') as B. clear - M C B. lia.
Qed.

(* ------------------------------------------------------------------------------------ *)
(* the preservation relation                                                             *)
(* ------------------------------------------------------------------------------------ *)
Definition pres (w w' : world) : Prop := Solvent w -> Solvent w'.

Lemma pres_refl w : pres w w.
Proof. intros H. exact H. Qed.
Lemma pres_trans w1 w2 w3 : pres w1 w2 -> pres w2 w3 -> pres w1 w3.
Proof. intros H1 H2 H. apply H2, H1, H. Qed.

(* worlds with the same ledgers *)
Lemma pres_same w w' : w_bank w' = w_bank w -> w_tokens w' = w_tokens w -> pres w w'.
Proof.
  intros Hb Ht (S1 & S2 & S3).
  assert (Eb : forall y a, bal w' y a = bal w y a).
  { intros y a. destruct y as [d|t]; cbn [bal]; [rewrite Hb | rewrite Ht]; reflexivity. }
  assert (Es : forall t, supply w' t = supply w t) by (intros t; unfold supply; rewrite Ht; reflexivity).
  split; [|split].
  - intros d l Hl. rewrite (sum_same w w') by (intros a _; apply Eb). apply S1. exact Hl.
  - intros t l Hl. rewrite (sum_same w w'), Es by (intros a _; apply Eb). apply S2. exact Hl.
  - intros t. rewrite Es. apply S3.
Qed.

(* conservation over rosters containing [k], with all supplies unchanged *)
Lemma pres_conserved w w' k :
  (forall t, supply w' t = supply w t) ->
  (forall l, NoDup l -> incl k l -> forall y, sum_bal w' y l = sum_bal w y l) -> pres w w'.
Proof.
  intros Hs Hc HS. apply (Solvent_step w w' k HS).
  - intros l Hl Hk d. rewrite (Hc l Hl Hk). apply N.le_refl.
  - intros l Hl Hk t. rewrite (Hc l Hl Hk), Hs. apply N.le_refl.
  - intros t. rewrite Hs. apply HS.
Qed.

(* ------------------------------------------------------------------------------------ *)
(* bank                                                                                  *)
(* ------------------------------------------------------------------------------------ *)
Lemma bank_send_pres w from to cs w' : bank_send w from to cs = Ok w' -> pres w w'.
Proof.
  intros H. apply (pres_conserved w w' [from; to]).
  - apply bank_send_inv in H. destruct H as (nz & b1 & b2 & _ & _ & ->). reflexivity.
  - intros l Hl Hk y. eapply bank_send_conserves; [exact H | exact Hl | |]; apply Hk; cbn [In]; auto.
Qed.

Lemma move_funds_pres w from to cs w' : move_funds w from to cs = Ok w' -> pres w w'.
Proof.
  intros H. unfold move_funds in H. destruct cs as [|c cs].
  - inversion H. apply pres_refl.
  - eapply bank_send_pres. exact H.
Qed.

(* ------------------------------------------------------------------------------------ *)
(* cw20 primitives                                                                       *)
(* ------------------------------------------------------------------------------------ *)
Lemma tok_debit_supply t a n t' : tok_debit t a n = Ok t' -> t_supply t' = t_supply t.
Proof. unfold tok_debit. destruct (n <=? t_bal t a); [|discriminate]. intros H. inversion H. reflexivity. Qed.
Lemma tok_credit_supply t a n t' : tok_credit t a n = Ok t' -> t_supply t' = t_supply t.
Proof. unfold tok_credit. destruct (t_bal t a + n <? W128); [|discriminate]. intros H. inversion H. reflexivity. Qed.

(* a cw20 operation on the token at [ta]: over rosters containing [k] the sum of its balances moves with its supply *)
Lemma with_token_step w ta f w' k : with_token w ta f = Ok w' ->
  (forall t t', f t = Ok t' -> (t_supply t < W128 -> t_supply t' < W128) /\
     forall l, NoDup l -> incl k l -> sumf (t_bal t') l + t_supply t <= sumf (t_bal t) l + t_supply t') ->
  pres w w'.
Proof.
  intros H Hf HS. apply with_token_inv in H. destruct H as (t & t' & Ht & Hft & ->).
  destruct (Hf t t' Hft) as (Hsup & Hsum). clear Hf Hft.
  assert (Est : supply w ta = t_supply t) by (unfold supply; rewrite Ht; reflexivity).
  apply (Solvent_step w _ k HS).
  - intros l Hl Hk d. apply N.le_refl.
  - intros l Hl Hk u. rewrite set_token_supply.
    destruct (u =? ta) eqn:E; [apply N.eqb_eq in E; subst u | apply N.eqb_neq in E].
    + rewrite Est, !sum_bal_sumf.
      rewrite (sumf_ext (t_bal t') (bal (set_token w ta t') (AToken ta)) l)
        by (intros a _; rewrite set_token_bal, LedgerProofs.asset_eqb_refl; reflexivity).
      rewrite (sumf_ext (t_bal t) (bal w (AToken ta)) l) by (intros a _; cbn [bal]; rewrite Ht; reflexivity).
      apply Hsum; assumption.
    + rewrite (sum_same w (set_token w ta t') (AToken u) l).
      * apply N.le_refl.
      * intros a _. rewrite set_token_bal. cbn [asset_eqb]. apply N.eqb_neq in E. rewrite E. reflexivity.
  - intros u. rewrite set_token_supply. destruct (u =? ta); [|apply HS].
    apply Hsup. rewrite <- Est. apply HS.
Qed.

Lemma tok_transfer_pres w ta from to n w' : with_token w ta (fun t => tok_transfer t from to n) = Ok w' -> pres w w'.
Proof.
  intros H. apply (with_token_step w ta _ w' [from; to] H).
  intros t t' Hf. cbv beta in Hf. unfold tok_transfer in Hf. destruct (n =? 0); [discriminate|].
  bnd Hf t1 H1.
  pose proof (tok_debit_supply _ _ _ _ H1) as E1. pose proof (tok_credit_supply _ _ _ _ Hf) as E2.
  split; [intros Hlt; rewrite E2, E1; exact Hlt|].
  intros l Hl Hk.
  pose proof (tok_debit_sum _ _ _ _ l H1 Hl (Hk _ (or_introl eq_refl))) as S1.
  pose proof (tok_credit_sum _ _ _ _ l Hf Hl (Hk _ (or_intror (or_introl eq_refl)))) as S2.
  rewrite E2, E1. clear - S1 S2. lia.
Qed.

Lemma tok_transfer_from_pres w ta sp ow to n w' :
  with_token w ta (fun t => tok_transfer_from t sp ow to n) = Ok w' -> pres w w'.
Proof.
  intros H. apply (with_token_step w ta _ w' [ow; to] H).
  intros t t' Hf. cbv beta in Hf. unfold tok_transfer_from in Hf.
  destruct (t_allow t ow sp) as [al|]; [|discriminate].
  destruct (n <=? al); [|discriminate]. cbv zeta in Hf. bnd Hf t1 H1.
  pose proof (tok_debit_supply _ _ _ _ H1) as E1. pose proof (tok_credit_supply _ _ _ _ Hf) as E2.
  cbn [t_supply] in E1.
  split; [intros Hlt; rewrite E2, E1; exact Hlt|].
  intros l Hl Hk.
  pose proof (tok_debit_sum _ _ _ _ l H1 Hl (Hk _ (or_introl eq_refl))) as S1.
  pose proof (tok_credit_sum _ _ _ _ l Hf Hl (Hk _ (or_intror (or_introl eq_refl)))) as S2.
  cbn [t_bal] in S1. rewrite E2, E1. clear - S1 S2. lia.
Qed.

Lemma tok_increase_allowance_pres w ta ow sp n w' :
  with_token w ta (fun t => tok_increase_allowance t ow sp n) = Ok w' -> pres w w'.
Proof.
  intros H. apply (with_token_step w ta _ w' [] H).
  intros t t' Hf. cbv beta in Hf. unfold tok_increase_allowance in Hf.
  destruct (sp =? ow); [discriminate|]. cbv zeta in Hf.
  destruct (_ <? W128); [|discriminate]. inversion Hf. subst t'. clear Hf. cbn [t_bal t_supply].
  split; [intros Hlt; exact Hlt|]. intros l _ _. apply N.le_refl.
Qed.

(* a mint raises the supply by n (checked below 2^128) and one balance by n *)
Lemma tok_mint_pres w ta sd to n w' : with_token w ta (fun t => tok_mint t sd to n) = Ok w' -> pres w w'.
Proof.
  intros H. apply (with_token_step w ta _ w' [to] H).
  intros t t' Hf. cbv beta in Hf. unfold tok_mint in Hf.
  destruct (n =? 0); [discriminate|]. destruct (t_minter t) as [m|]; [|discriminate].
  destruct (negb (m =? sd)); [discriminate|].
  destruct (t_supply t + n <? W128) eqn:El; [|discriminate]. apply N.ltb_lt in El.
  pose proof (tok_credit_supply _ _ _ _ Hf) as E2. cbn [t_supply] in E2.
  split; [intros _; rewrite E2; exact El|].
  intros l Hl Hk.
  pose proof (tok_credit_sum _ _ _ _ l Hf Hl (Hk _ (or_introl eq_refl))) as S2.
  cbn [t_bal] in S2. rewrite E2. clear - S2. lia.
Qed.

(* a burn lowers one balance and the supply by n *)
Lemma tok_burn_pres w ta sd n w' : with_token w ta (fun t => tok_burn t sd n) = Ok w' -> pres w w'.
Proof.
  intros H. apply (with_token_step w ta _ w' [sd] H).
  intros t t' Hf. cbv beta in Hf. unfold tok_burn in Hf.
  destruct (n =? 0); [discriminate|]. bnd Hf t1 H1.
  pose proof (tok_debit_supply _ _ _ _ H1) as E1.
  destruct (n <=? t_supply t1) eqn:El; [|discriminate]. apply N.leb_le in El.
  inversion Hf. subst t'. clear Hf. cbn [t_bal t_supply]. rewrite E1 in *.
  split; [intros Hlt; clear - Hlt El; lia|].
  intros l Hl Hk.
  pose proof (tok_debit_sum _ _ _ _ l H1 Hl (Hk _ (or_introl eq_refl))) as S1.
  clear - S1 El. lia.
Qed.

Lemma pay_asset_pres w from x n to w' : pay_asset w from x n to = Ok w' -> pres w w'.
Proof.
  intros H. destruct x as [d|ta]; cbn [pay_asset] in H.
  - eapply bank_send_pres. exact H.
  - eapply tok_transfer_pres. exact H.
Qed.
