(* Proofs about the text / JSON / width conversion model (Num/Text.v). *)
From HT Require Import Base.Prelude Num.Arith Num.Text Proofs.NumProofs.

(* ------------------------------------------------------------------ *)
(* digits                                                              *)
(* ------------------------------------------------------------------ *)

Lemma is_digit_spec (b : N) : is_digit b = true <-> 48 <= b /\ b <= 57.
Proof. unfold is_digit. rewrite andb_true_iff, !N.leb_le. tauto. Qed.

Lemma is_digit_val (b : N) : is_digit b = true -> exists d, d <= 9 /\ b = 48 + d /\ b - 48 = d.
Proof. intros Hb. apply is_digit_spec in Hb. exists (b - 48). lia. Qed.

(* ------------------------------------------------------------------ *)
(* denote                                                              *)
(* ------------------------------------------------------------------ *)

Lemma pow10_pos (k : N) : 0 < 10 ^ k.
Proof. apply N.neq_0_lt_0. apply N.pow_nonzero. discriminate. Qed.

Lemma fold_acc (s : str) : forall acc,
  fold_left (fun acc b => acc * 10 + (b - 48)) s acc = acc * 10 ^ N.of_nat (length s) + denote s.
Proof.
  induction s as [|b s IH]; intros acc; unfold denote; cbn [fold_left length].
  - change (N.of_nat 0) with 0. rewrite N.pow_0_r. lia.
  - rewrite IH, (IH (0 * 10 + (b - 48))). rewrite Nat2N.inj_succ, N.pow_succ_r'.
    generalize (b - 48) (10 ^ N.of_nat (length s)) (denote s). intros x P d. lia.
Qed.

Lemma denote_nil : denote [] = 0.
Proof. reflexivity. Qed.

Lemma denote_cons (b : N) (s : str) :
  denote (b :: s) = (b - 48) * 10 ^ N.of_nat (length s) + denote s.
Proof.
  unfold denote at 1. cbn [fold_left]. rewrite fold_acc. lia.
Qed.

Lemma denote_app (a b : str) :
  denote (a ++ b) = denote a * 10 ^ N.of_nat (length b) + denote b.
Proof.
  unfold denote at 1. rewrite fold_left_app. rewrite fold_acc. reflexivity.
Qed.

Lemma denote_snoc (a : str) (b : N) : denote (a ++ [b]) = denote a * 10 + (b - 48).
Proof.
  rewrite denote_app. cbn [length]. change (N.of_nat 1) with 1. rewrite N.pow_1_r.
  rewrite denote_cons, denote_nil. cbn [length]. change (N.of_nat 0) with 0. rewrite N.pow_0_r. lia.
Qed.

Lemma denote_lt (s : str) : forallb is_digit s = true -> denote s < 10 ^ N.of_nat (length s).
Proof.
  induction s as [|b s IH]; intros Hs.
  - reflexivity.
  - cbn [forallb] in Hs. apply andb_true_iff in Hs. destruct Hs as [Hb Hs].
    specialize (IH Hs). rewrite denote_cons. cbn [length]. rewrite Nat2N.inj_succ, N.pow_succ_r'.
    destruct (is_digit_val b Hb) as (d & Hd & _ & ->).
    revert IH. generalize (10 ^ N.of_nat (length s)) (denote s). intros P x IH. nia.
Qed.

(* ------------------------------------------------------------------ *)
(* from_dec_str                                                        *)
(* ------------------------------------------------------------------ *)

Lemma from_dec_loop_sound (s : str) : forall acc n,
  from_dec_loop s acc = Ok n -> acc < W256 ->
  n = fold_left (fun acc b => acc * 10 + (b - 48)) s acc /\ n < W256.
Proof.
  induction s as [|b s IH]; intros acc n H Hacc; cbn [from_dec_loop fold_left] in *.
  - inversion H; subst. split; [reflexivity | exact Hacc].
  - destruct (W256 <=? acc * 10) eqn:E1; [discriminate|].
    destruct (W256 <=? acc * 10 + (b - 48)) eqn:E2; [discriminate|].
    apply N.leb_gt in E2. apply (IH _ _ H E2).
Qed.

Theorem from_dec_str_sound : forall s n, from_dec_str s = Ok n -> forallb is_digit s = true /\ denote s = n /\ n < W256.
Proof.
  intros s n H. unfold from_dec_str in H.
  destruct (forallb is_digit s) eqn:E; [|discriminate].
  split; [reflexivity|].
  apply from_dec_loop_sound in H; [|exact W256_pos].
  destruct H as [H1 H2]. split; [symmetry; exact H1 | exact H2].
Qed.

Lemma fold_ge_acc (s : str) (acc : N) :
  acc <= fold_left (fun acc b => acc * 10 + (b - 48)) s acc.
Proof.
  rewrite fold_acc. pose proof (pow10_pos (N.of_nat (length s))) as HP.
  revert HP. generalize (10 ^ N.of_nat (length s)) (denote s). intros P d HP. nia.
Qed.

Lemma from_dec_loop_complete (s : str) : forall acc,
  fold_left (fun acc b => acc * 10 + (b - 48)) s acc < W256 ->
  from_dec_loop s acc = Ok (fold_left (fun acc b => acc * 10 + (b - 48)) s acc).
Proof.
  induction s as [|b s IH]; intros acc H; cbn [from_dec_loop fold_left] in *.
  - reflexivity.
  - pose proof (fold_ge_acc s (acc * 10 + (b - 48))) as Hge.
    assert (H2 : acc * 10 + (b - 48) < W256) by (eapply N.le_lt_trans; eassumption).
    assert (H1 : acc * 10 < W256) by (clear - H2; lia).
    apply N.leb_gt in H1. apply N.leb_gt in H2. rewrite H1, H2. apply IH. exact H.
Qed.

Theorem from_dec_str_complete : forall s, forallb is_digit s = true -> denote s < W256 -> from_dec_str s = Ok (denote s).
Proof.
  intros s Hs H. unfold from_dec_str. rewrite Hs. apply from_dec_loop_complete. exact H.
Qed.

(* ------------------------------------------------------------------ *)
(* render                                                              *)
(* ------------------------------------------------------------------ *)

Lemma pos_size_nat_gt (p : positive) : N.pos p < 2 ^ N.of_nat (Pos.size_nat p).
Proof.
  induction p as [p IH|p IH|]; cbn [Pos.size_nat].
  - rewrite Nat2N.inj_succ, N.pow_succ_r'. revert IH. generalize (2 ^ N.of_nat (Pos.size_nat p)). intros P IH. lia.
  - rewrite Nat2N.inj_succ, N.pow_succ_r'. revert IH. generalize (2 ^ N.of_nat (Pos.size_nat p)). intros P IH. lia.
  - reflexivity.
Qed.

Lemma size_nat_fuel (n : N) : n < 10 ^ N.of_nat (S (N.size_nat n)).
Proof.
  rewrite Nat2N.inj_succ, N.pow_succ_r'.
  assert (H : n < 10 ^ N.of_nat (N.size_nat n)).
  { destruct n as [|p]; [reflexivity|]. cbn [N.size_nat].
    eapply N.lt_le_trans; [apply pos_size_nat_gt|].
    apply N.pow_le_mono_l. lia. }
  revert H. generalize (10 ^ N.of_nat (N.size_nat n)). intros P H. lia.
Qed.

Lemma digits_fuel_spec (fuel : nat) : forall n acc, n <> 0 -> n < 10 ^ N.of_nat fuel ->
  exists ds, digits_fuel fuel n acc = ds ++ acc /\ forallb is_digit ds = true /\
             (exists b r, ds = b :: r /\ b <> ZERO) /\ denote ds = n.
Proof.
  induction fuel as [|fuel IH]; intros n acc Hn Hlt.
  - change (10 ^ N.of_nat 0) with 1 in Hlt. lia.
  - cbn [digits_fuel].
    assert (Hd : is_digit (48 + n mod 10) = true).
    { apply is_digit_spec. clear. lia. }
    destruct (n / 10 =? 0) eqn:E.
    + apply N.eqb_eq in E. exists [48 + n mod 10]. split; [reflexivity|].
      split; [cbn [forallb]; rewrite Hd; reflexivity|].
      split.
      * exists (48 + n mod 10), []. split; [reflexivity|]. unfold ZERO. clear - Hn E. lia.
      * rewrite denote_cons, denote_nil. cbn [length]. change (10 ^ N.of_nat 0) with 1. clear - E. lia.
    + apply N.eqb_neq in E.
      rewrite Nat2N.inj_succ, N.pow_succ_r' in Hlt.
      assert (Hlt' : n / 10 < 10 ^ N.of_nat fuel).
      { revert Hlt. generalize (10 ^ N.of_nat fuel). clear. intros P Hlt. lia. }
      destruct (IH (n / 10) ((48 + n mod 10) :: acc) E Hlt') as (ds & H1 & H2 & (b & r & H3 & H4) & H5).
      exists (ds ++ [48 + n mod 10]). split; [rewrite H1, <- app_assoc; reflexivity|].
      split; [rewrite forallb_app, H2; cbn [forallb]; rewrite Hd; reflexivity|].
      split.
      * exists b, (r ++ [48 + n mod 10]). split; [rewrite H3; reflexivity | exact H4].
      * rewrite denote_snoc, H5. clear. lia.
Qed.

Lemma render_0 : render 0 = [ZERO].
Proof. reflexivity. Qed.

Lemma render_pos (n : N) : n <> 0 ->
  exists b r, render n = b :: r /\ b <> ZERO /\ forallb is_digit (b :: r) = true /\ denote (b :: r) = n.
Proof.
  intros Hn. unfold render.
  destruct (digits_fuel_spec _ n [] Hn (size_nat_fuel n)) as (ds & H1 & H2 & (b & r & H3 & H4) & H5).
  rewrite app_nil_r in H1. rewrite H3 in H1, H2, H5. exists b, r. repeat split; assumption.
Qed.

Theorem render_canonical : forall n,
  forallb is_digit (render n) = true /\ render n <> [] /\
  (forall b rest, render n = b :: rest -> rest <> [] -> b <> ZERO) /\
  denote (render n) = n.
Proof.
  intros n. destruct (N.eq_dec n 0) as [->|Hn].
  - rewrite render_0. split; [reflexivity|]. split; [discriminate|]. split; [|reflexivity].
    intros b rest H Hr. inversion H; subst. contradiction.
  - destruct (render_pos n Hn) as (b & r & H1 & H2 & H3 & H4). rewrite H1.
    split; [exact H3|]. split; [discriminate|]. split; [|exact H4].
    intros b' rest H _. inversion H; subst. exact H2.
Qed.

Theorem render_roundtrip : forall n, n < W256 -> from_dec_str (render n) = Ok n.
Proof.
  intros n Hn. destruct (render_canonical n) as (H1 & _ & _ & H4).
  pose proof (from_dec_str_complete (render n) H1) as H. rewrite H4 in H. apply H. exact Hn.
Qed.

(* ------------------------------------------------------------------ *)
(* JSON strings                                                        *)
(* ------------------------------------------------------------------ *)

Definition is_text (b : N) : bool := is_digit b || (b =? DOT).

Lemma digits_text (s : str) : forallb is_digit s = true -> forallb is_text s = true.
Proof.
  intros H. apply forallb_forall. intros x Hx.
  unfold is_text. rewrite (proj1 (forallb_forall _ _) H x Hx). reflexivity.
Qed.

Lemma json_roundtrip_str (s : str) : forallb is_text s = true -> json_decode (json_encode s) = Ok s.
Proof.
  intros Hs. unfold json_encode, json_decode. cbn [app].
  rewrite rev_unit.
  assert (Hc : clean (rev s) = true).
  { unfold clean. apply forallb_forall. intros x Hx. apply in_rev in Hx.
    pose proof (proj1 (forallb_forall _ _) Hs x Hx) as Ht. unfold is_text, is_digit, DOT in Ht.
    unfold QUOTE, BACKSLASH. clear - Ht. lia. }
  rewrite Hc. change (QUOTE =? QUOTE) with true. cbn [andb]. rewrite rev_involutive. reflexivity.
Qed.

Theorem json_roundtrip_uint : forall n, n < W256 -> uint_of_json (uint_to_json n) = Ok n.
Proof.
  intros n Hn. unfold uint_of_json, uint_to_json.
  destruct (render_canonical n) as (H1 & _).
  rewrite (json_roundtrip_str _ (digits_text _ H1)). cbn [bind]. apply render_roundtrip. exact Hn.
Qed.

(* ------------------------------------------------------------------ *)
(* split_dot                                                           *)
(* ------------------------------------------------------------------ *)

Lemma digit_not_dot (b : N) : is_digit b = true -> (b =? DOT) = false.
Proof. intros H. apply is_digit_spec in H. apply N.eqb_neq. unfold DOT. lia. Qed.

Lemma split_dot_digits (s : str) : forall cur,
  forallb is_digit s = true -> split_dot s cur = [rev cur ++ s].
Proof.
  induction s as [|b s IH]; intros cur Hs; cbn [split_dot].
  - rewrite app_nil_r. reflexivity.
  - cbn [forallb] in Hs. apply andb_true_iff in Hs. destruct Hs as [Hb Hs].
    rewrite (digit_not_dot b Hb). rewrite (IH (b :: cur) Hs). cbn [rev]. rewrite <- app_assoc. reflexivity.
Qed.

Lemma split_dot_dotted (w : str) : forall cur f,
  forallb is_digit w = true -> forallb is_digit f = true ->
  split_dot (w ++ [DOT] ++ f) cur = [rev cur ++ w; f].
Proof.
  induction w as [|b w IH]; intros cur f Hw Hf.
  - cbn [app split_dot]. change (DOT =? DOT) with true. cbv iota. rewrite (split_dot_digits f [] Hf). rewrite app_nil_r. reflexivity.
  - cbn [forallb] in Hw. apply andb_true_iff in Hw. destruct Hw as [Hb Hw].
    rewrite <- app_comm_cons. cbn [split_dot].
    rewrite (digit_not_dot b Hb). rewrite (IH (b :: cur) f Hw Hf). cbn [rev]. rewrite <- app_assoc. reflexivity.
Qed.

Lemma split_dot_not_nil (s : str) : forall cur, split_dot s cur <> [].
Proof.
  induction s as [|b s IH]; intros cur; cbn [split_dot].
  - discriminate.
  - destruct (b =? DOT); [discriminate | apply IH].
Qed.

Lemma split_dot_one (s : str) : forall cur w, split_dot s cur = [w] -> rev cur ++ s = w.
Proof.
  induction s as [|b s IH]; intros cur w H; cbn [split_dot] in H.
  - inversion H. apply app_nil_r.
  - destruct (b =? DOT) eqn:E.
    + inversion H as [[H1 H2]]. exfalso. exact (split_dot_not_nil _ _ H2).
    + apply IH in H. cbn [rev] in H. rewrite <- app_assoc in H. exact H.
Qed.

Lemma split_dot_two (s : str) : forall cur w f, split_dot s cur = [w; f] -> rev cur ++ s = w ++ [DOT] ++ f.
Proof.
  induction s as [|b s IH]; intros cur w f H; cbn [split_dot] in H.
  - discriminate.
  - destruct (b =? DOT) eqn:E.
    + apply N.eqb_eq in E. subst b. inversion H as [[H1 H2]].
      apply split_dot_one in H2. cbn [rev app] in H2. subst s. reflexivity.
    + apply IH in H. cbn [rev] in H. rewrite <- app_assoc in H. exact H.
Qed.

(* ------------------------------------------------------------------ *)
(* Decimal256::from_str soundness                                      *)
(* ------------------------------------------------------------------ *)

Lemma u256_mul_ok (a b v : N) : u256_mul a b = Ok v -> v = a * b /\ a * b < W256.
Proof.
  unfold u256_mul. destruct (a * b <? W256) eqn:E; intros H; [|discriminate].
  apply N.ltb_lt in E. inversion H. auto.
Qed.

Lemma u256_add_ok (a b v : N) : u256_add a b = Ok v -> v = a + b /\ a + b < W256.
Proof.
  unfold u256_add. destruct (a + b <? W256) eqn:E; intros H; [|discriminate].
  apply N.ltb_lt in E. inversion H. auto.
Qed.

Theorem dec_from_str_sound : forall s v, dec_from_str s = Ok v ->
  (forallb is_digit s = true /\ v = denote s * D) \/
  (exists w f, s = w ++ [DOT] ++ f /\ forallb is_digit w = true /\ forallb is_digit f = true /\
       (length f <= 18)%nat /\ v = denote w * D + denote f * 10 ^ (18 - N.of_nat (length f))).
Proof.
  intros s v H. unfold dec_from_str in H.
  destruct (split_dot s []) as [|w [|f [|x l]]] eqn:Es; try discriminate.
  - left. apply split_dot_one in Es. cbn [rev app] in Es. subst w.
    inv_bind H. apply from_dec_str_sound in E. destruct E as (E1 & E2 & _).
    apply u256_mul_ok in H. destruct H as [H _]. subst. auto.
  - right. apply split_dot_two in Es. cbn [rev] in Es. rewrite app_nil_l in Es.
    exists w, f. split; [exact Es|].
    inv_bind H. apply from_dec_str_sound in E. destruct E as (E1 & E2 & _).
    inv_bind H. apply from_dec_str_sound in E. destruct E as (F1 & F2 & _).
    destruct (18 <? N.of_nat (length f)) eqn:E18; [discriminate|].
    apply N.ltb_ge in E18.
    inv_bind H. apply u256_mul_ok in E. destruct E as [E _].
    inv_bind H. apply u256_mul_ok in E0. destruct E0 as [E0 _].
    apply u256_add_ok in H. destruct H as [H _].
    split; [exact E1|]. split; [exact F1|]. split; [clear - E18; lia|].
    subst. reflexivity.
Qed.

(* ------------------------------------------------------------------ *)
(* padding and trimming                                                *)
(* ------------------------------------------------------------------ *)

Lemma rev_repeat (a : N) (k : nat) : rev (repeat a k) = repeat a k.
Proof.
  induction k as [|k IH]; cbn [repeat rev]; [reflexivity|].
  rewrite IH. symmetry. apply repeat_cons.
Qed.

Lemma denote_zeros (k : nat) : denote (repeat ZERO k) = 0.
Proof.
  induction k as [|k IH]; cbn [repeat]; [reflexivity|].
  rewrite denote_cons, IH. change (ZERO - 48) with 0. lia.
Qed.

Lemma digits_zeros (k : nat) : forallb is_digit (repeat ZERO k) = true.
Proof. induction k as [|k IH]; cbn [repeat forallb]; [reflexivity|]. rewrite IH. reflexivity. Qed.

Lemma drop_zeros_spec (s : str) :
  exists k, s = repeat ZERO k ++ drop_zeros s /\ (forall b r, drop_zeros s = b :: r -> b <> ZERO).
Proof.
  induction s as [|b s IH]; cbn [drop_zeros].
  - exists O. split; [reflexivity | discriminate].
  - destruct (b =? ZERO) eqn:E.
    + apply N.eqb_eq in E. subst b. destruct IH as (k & H1 & H2).
      exists (S k). split; [cbn [repeat app]; rewrite <- H1; reflexivity | exact H2].
    + apply N.eqb_neq in E. exists O. split; [reflexivity|].
      intros b' r H. inversion H; subst. exact E.
Qed.

Lemma trim_spec (t : str) :
  exists k, t = trim_end_zeros t ++ repeat ZERO k /\
            (trim_end_zeros t <> [] -> last (trim_end_zeros t) 0 <> ZERO).
Proof.
  unfold trim_end_zeros. destruct (drop_zeros_spec (rev t)) as (k & H1 & H2).
  exists k. split.
  - rewrite <- (rev_involutive t) at 1. rewrite H1 at 1. rewrite rev_app_distr, rev_repeat. reflexivity.
  - destruct (drop_zeros (rev t)) as [|b r] eqn:E.
    + intros H. exfalso. apply H. reflexivity.
    + intros _. cbn [rev]. rewrite last_last. apply (H2 b r). reflexivity.
Qed.

Lemma render_length (n : N) (k : nat) : n <> 0 -> n < 10 ^ N.of_nat k -> (length (render n) <= k)%nat.
Proof.
  intros Hn Hlt. destruct (render_pos n Hn) as (b & r & H1 & H2 & H3 & H4). rewrite H1.
  cbn [forallb] in H3. apply andb_true_iff in H3. destruct H3 as [Hb Hr].
  rewrite denote_cons in H4. cbn [length].
  destruct (is_digit_val b Hb) as (d & Hd & Hbd & Hd').
  assert (Hd0 : d <> 0) by (unfold ZERO in H2; clear - H2 Hbd; lia).
  rewrite Hd' in H4.
  assert (Hp : 10 ^ N.of_nat (length r) < 10 ^ N.of_nat k).
  { eapply N.le_lt_trans; [|exact Hlt]. rewrite <- H4.
    generalize (10 ^ N.of_nat (length r)) (denote r). clear - Hd0. intros P x. nia. }
  apply N.pow_lt_mono_r_iff in Hp; try solve [reflexivity | apply N.le_0_l]. clear - Hp. lia.
Qed.

Lemma frac_digits (frac : N) : frac <> 0 -> frac < D ->
  forallb is_digit (trim_end_zeros (pad18 (render frac))) = true /\
  trim_end_zeros (pad18 (render frac)) <> [] /\
  (length (trim_end_zeros (pad18 (render frac))) <= 18)%nat /\
  last (trim_end_zeros (pad18 (render frac))) 0 <> ZERO /\
  denote (trim_end_zeros (pad18 (render frac))) *
    10 ^ (18 - N.of_nat (length (trim_end_zeros (pad18 (render frac))))) = frac.
Proof.
  intros Hn Hlt.
  assert (Hlen : (length (render frac) <= 18)%nat).
  { apply render_length; [exact Hn|]. rewrite D_eq in Hlt. exact Hlt. }
  destruct (render_canonical frac) as (Hdig & _ & _ & Hden).
  set (t := pad18 (render frac)).
  assert (Ht_len : length t = 18%nat).
  { unfold t, pad18. rewrite app_length, repeat_length. lia. }
  assert (Ht_dig : forallb is_digit t = true).
  { unfold t, pad18. rewrite forallb_app, digits_zeros, Hdig. reflexivity. }
  assert (Ht_den : denote t = frac).
  { unfold t, pad18. rewrite denote_app, denote_zeros, Hden. lia. }
  destruct (trim_spec t) as (k & H1 & H2).
  set (f := trim_end_zeros t) in *.
  assert (Hf_dig : forallb is_digit f = true).
  { rewrite H1, forallb_app in Ht_dig. apply andb_true_iff in Ht_dig. tauto. }
  assert (Hk : (length f + k = 18)%nat).
  { rewrite <- Ht_len. rewrite H1. rewrite app_length, repeat_length. reflexivity. }
  assert (Hf_den : denote f * 10 ^ N.of_nat k = frac).
  { rewrite <- Ht_den. rewrite H1. rewrite denote_app, denote_zeros, repeat_length. lia. }
  assert (Hf_ne : f <> []).
  { intros Hf. rewrite Hf in Hf_den. rewrite denote_nil in Hf_den. clear - Hf_den Hn. lia. }
  split; [exact Hf_dig|]. split; [exact Hf_ne|]. split; [clear - Hk; lia|].
  split; [exact (H2 Hf_ne)|].
  replace (18 - N.of_nat (length f)) with (N.of_nat k) by (clear - Hk; lia). exact Hf_den.
Qed.

Theorem dec_render_canonical : forall v,
  (v mod D = 0 -> dec_render v = render (v / D)) /\
  (v mod D <> 0 -> exists f, dec_render v = render (v / D) ++ [DOT] ++ f /\ forallb is_digit f = true /\ f <> [] /\
       (length f <= 18)%nat /\ last f 0 <> ZERO /\ denote f * 10 ^ (18 - N.of_nat (length f)) = v mod D).
Proof.
  intros v. unfold dec_render. split; intros H.
  - rewrite H. reflexivity.
  - apply N.eqb_neq in H. rewrite H. apply N.eqb_neq in H.
    exists (trim_end_zeros (pad18 (render (v mod D)))). split; [reflexivity|].
    apply frac_digits; [exact H|]. apply N.mod_lt. rewrite D_val. discriminate.
Qed.

(* ------------------------------------------------------------------ *)
(* Decimal256 round trips                                              *)
(* ------------------------------------------------------------------ *)

Lemma dec_render_text (v : N) : forallb is_text (dec_render v) = true.
Proof.
  destruct (dec_render_canonical v) as [H0 H1].
  destruct (render_canonical (v / D)) as (Hw & _).
  destruct (N.eq_dec (v mod D) 0) as [E|E].
  - rewrite (H0 E). apply digits_text. exact Hw.
  - destruct (H1 E) as (f & Hf & Hfd & _). rewrite Hf.
    rewrite !forallb_app. rewrite (digits_text _ Hw), (digits_text _ Hfd). reflexivity.
Qed.

Theorem dec_render_roundtrip : forall v, v < W256 -> dec_from_str (dec_render v) = Ok v.
Proof.
  intros v Hv.
  destruct (dec_render_canonical v) as [H0 H1].
  destruct (render_canonical (v / D)) as (Hw & _ & _ & Hwd).
  assert (HD : 0 < D) by exact D_pos.
  assert (Hdm : v = v / D * D + v mod D).
  { rewrite (N.mul_comm (v / D) D). apply N.div_mod'. }
  assert (Hwhole : v / D < W256).
  { eapply N.le_lt_trans; [apply div_le_self | exact Hv]. }
  destruct (N.eq_dec (v mod D) 0) as [E|E].
  - rewrite (H0 E). unfold dec_from_str.
    rewrite (split_dot_digits _ [] Hw). cbn [rev app].
    rewrite (render_roundtrip _ Hwhole). cbn [bind].
    unfold u256_mul.
    assert (Hm : v / D * D = v) by (rewrite E in Hdm; clear - Hdm; lia).
    rewrite Hm. apply N.ltb_lt in Hv. rewrite Hv. reflexivity.
  - destruct (H1 E) as (f & Hf & Hfd & Hfne & Hfl & _ & Hfv). rewrite Hf.
    unfold dec_from_str.
    rewrite (split_dot_dotted _ [] f Hw Hfd). cbn [rev app].
    rewrite (render_roundtrip _ Hwhole). cbn [bind].
    assert (Hfac : 0 < 10 ^ (18 - N.of_nat (length f))) by apply pow10_pos.
    assert (Hflt : denote f < W256).
    { eapply N.le_lt_trans; [|exact Hv].
      revert Hfv Hfac Hdm. generalize (10 ^ (18 - N.of_nat (length f))) (denote f) (v / D * D) (v mod D).
      clear. intros P x a b Hfv Hfac Hdm. nia. }
    rewrite (from_dec_str_complete f Hfd Hflt). cbn [bind].
    assert (E18 : (18 <? N.of_nat (length f)) = false) by (apply N.ltb_ge; clear - Hfl; lia).
    rewrite E18.
    unfold u256_mul, u256_add. rewrite Hfv.
    assert (L12 : v / D * D < W256 /\ v mod D < W256).
    { revert Hdm. generalize (v / D * D) (v mod D). clear - Hv. intros x y Hdm. lia. }
    destruct L12 as [L1 L2].
    assert (L3 : v / D * D + v mod D < W256) by (rewrite <- Hdm; exact Hv).
    apply N.ltb_lt in L1. rewrite L1. cbn [bind].
    apply N.ltb_lt in L2. rewrite L2. cbn [bind].
    apply N.ltb_lt in L3. rewrite L3. rewrite <- Hdm. reflexivity.
Qed.

Theorem json_roundtrip_dec : forall v, v < W256 -> dec_of_json (dec_to_json v) = Ok v.
Proof.
  intros v Hv. unfold dec_of_json, dec_to_json.
  rewrite (json_roundtrip_str _ (dec_render_text v)). cbn [bind]. apply dec_render_roundtrip. exact Hv.
Qed.

Theorem cwdec_roundtrip : forall a, a < W128 -> cwdec_to_dec256 a = Ok a.
Proof.
  intros a Ha. unfold cwdec_to_dec256. apply dec_render_roundtrip.
  eapply N.lt_trans; [exact Ha|]. reflexivity.
Qed.

Print Assumptions from_dec_str_sound.
Print Assumptions from_dec_str_complete.
Print Assumptions render_canonical.
Print Assumptions render_roundtrip.
Print Assumptions dec_render_canonical.
Print Assumptions dec_from_str_sound.
Print Assumptions dec_render_roundtrip.
Print Assumptions json_roundtrip_uint.
Print Assumptions json_roundtrip_dec.
Print Assumptions cwdec_roundtrip.
