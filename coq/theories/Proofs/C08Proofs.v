(* C08: every Uint256 / Decimal256 operator of math.rs returns exactly the
   mathematical result (floor-rounded where the type requires) or aborts, and
   aborts only in the stated cases. *)
From HT Require Import Base.Prelude Num.Arith Proofs.NumProofs Proofs.SwapSpec.

(* [r] is floor(p/q), stated as a sandwich, not by the division itself *)
Definition is_floor (r p q : N) : Prop := r * q <= p /\ p < (r + 1) * q.

(* the operation succeeds exactly when [ok] holds, its value satisfies [val];
   otherwise it aborts (panics) *)
Definition exact_or_abort (r : res N) (ok : Prop) (val : N -> Prop) : Prop :=
  (ok /\ exists v, r = Ok v /\ val v) \/ (~ ok /\ r = Err Panic).

Lemma floor_div p q : q <> 0 -> is_floor (p / q) p q.
Proof. intros Hq. unfold is_floor. pose proof (div_sandwich p q ltac:(lia)). tauto. Qed.

Lemma add_exact a b : exact_or_abort (uint_add a b) (a + b < W256) (fun v => v = a + b).
Proof.
  unfold exact_or_abort, uint_add, u256_add. destruct (a + b <? W256) eqn:E.
  - left. split; [lia|]. eauto.
  - right. split; [lia|reflexivity].
Qed.

Lemma sub_exact a b : exact_or_abort (uint_sub a b) (b <= a) (fun v => v + b = a).
Proof.
  unfold exact_or_abort, uint_sub, u256_sub. destruct (b <=? a) eqn:E.
  - left. split; [lia|]. eexists; split; [reflexivity|lia].
  - right. split; [lia|reflexivity].
Qed.

Lemma mul_exact a b : exact_or_abort (uint_mul a b) (a * b < W256) (fun v => v = a * b).
Proof.
  unfold exact_or_abort. destruct (N.lt_ge_cases (a * b) W256) as [H|H].
  - left. split; [exact H|]. rewrite uint_mul_ok by exact H. eauto.
  - right. split; [lia|]. now apply uint_mul_err.
Qed.

Lemma multiply_ratio_exact u n d :
  exact_or_abort (uint_multiply_ratio u n d) (d <> 0 /\ u * n < W256) (fun v => is_floor v (u * n) d).
Proof.
  unfold exact_or_abort. destruct (N.eq_dec d 0) as [->|Hd].
  { right. split; [tauto|reflexivity]. }
  destruct (N.lt_ge_cases (u * n) W256) as [H|H].
  - left. split; [tauto|]. rewrite uint_multiply_ratio_ok by assumption.
    eexists; split; [reflexivity|]. now apply floor_div.
  - right. split; [lia|]. unfold uint_multiply_ratio.
    destruct (d =? 0) eqn:E; [reflexivity|]. now rewrite u256_mul_err.
Qed.

Lemma mul_dec_exact u d :
  exact_or_abort (uint_mul_dec u d) (u * d < W256) (fun v => is_floor v (u * d) D).
Proof.
  unfold exact_or_abort. destruct (N.lt_ge_cases (u * d) W256) as [H|H].
  - left. split; [exact H|]. rewrite uint_mul_dec_ok by exact H.
    eexists; split; [reflexivity|]. apply floor_div. rewrite D_val. lia.
  - right. split; [lia|]. now apply uint_mul_dec_err.
Qed.

Lemma div_dec_exact u d :
  exact_or_abort (uint_div_dec u d) (d <> 0 /\ u * D < W256) (fun v => is_floor v (u * D) d).
Proof.
  unfold exact_or_abort, uint_div_dec. destruct (d =? 0) eqn:Ed.
  { right. split; [lia|reflexivity]. }
  assert (Hd : d <> 0) by lia.
  destruct (u =? 0) eqn:Eu.
  { assert (u = 0) by lia. subst u. left. split; [split; [exact Hd | rewrite W256_val; lia]|].
    exists 0. split; [reflexivity|]. unfold is_floor. lia. }
  destruct (N.lt_ge_cases (u * D) W256) as [H|H].
  - left. split; [tauto|]. rewrite uint_multiply_ratio_ok by assumption.
    eexists; split; [reflexivity|]. now apply floor_div.
  - right. split; [lia|]. unfold uint_multiply_ratio. rewrite Ed. now rewrite u256_mul_err.
Qed.

Lemma from_ratio_exact n d :
  exact_or_abort (dec_from_ratio n d) (d <> 0 /\ n * D < W256) (fun v => is_floor v (n * D) d).
Proof.
  unfold exact_or_abort. destruct (N.eq_dec d 0) as [->|Hd].
  { right. split; [tauto|reflexivity]. }
  destruct (N.lt_ge_cases (n * D) W256) as [H|H].
  - left. split; [tauto|]. rewrite dec_from_ratio_ok by assumption.
    eexists; split; [reflexivity|]. now apply floor_div.
  - right. split; [lia|]. now apply dec_from_ratio_ovf.
Qed.

Lemma from_uint256_exact v :
  exact_or_abort (dec_from_uint256 v) (v * D < W256) (fun r => r = v * D).
Proof.
  unfold exact_or_abort, dec_from_uint256. destruct (N.lt_ge_cases (v * D) W256) as [H|H].
  - left. split; [exact H|]. rewrite u256_mul_ok by exact H. eauto.
  - right. split; [lia|]. now apply u256_mul_err.
Qed.

Lemma dec_mul_exact a b :
  exact_or_abort (dec_mul a b) (a * b < W256) (fun v => is_floor v (a * b) D).
Proof.
  unfold exact_or_abort, dec_mul. destruct (N.lt_ge_cases (a * b) W256) as [H|H].
  - left. split; [exact H|]. rewrite u256_mul_ok by exact H. cbn [bind].
    eexists; split; [reflexivity|]. apply floor_div. rewrite D_val. lia.
  - right. split; [lia|]. now rewrite u256_mul_err.
Qed.

Lemma dec_div_exact a b :
  exact_or_abort (dec_div a b) (b <> 0 /\ a * D < W256) (fun v => is_floor v (a * D) b).
Proof.
  unfold exact_or_abort, dec_div. destruct (b =? 0) eqn:Eb.
  { right. split; [lia|reflexivity]. }
  destruct (N.lt_ge_cases (a * D) W256) as [H|H].
  - left. split; [split; [lia|exact H]|]. rewrite u256_mul_ok by exact H. cbn [bind].
    eexists; split; [reflexivity|]. apply floor_div. lia.
  - right. split; [lia|]. now rewrite u256_mul_err.
Qed.

Lemma to_u128_exact n :
  n < W256 -> exact_or_abort (uint_to_u128 n) (n < W128) (fun v => v = n).
Proof.
  intros Hn. unfold exact_or_abort. rewrite uint_to_u128_spec by exact Hn.
  destruct (n <? W128) eqn:E.
  - left. split; [lia|eauto].
  - right. split; [lia|reflexivity].
Qed.

(* a floor-rounded result is never off by a rounding step and never wraps: it is
   the unique integer in the sandwich *)
Lemma is_floor_unique r r' p q : is_floor r p q -> is_floor r' p q -> r = r'.
Proof. unfold is_floor. intros [A B] [A' B']. nia. Qed.

(* results of successful operations always fit 256 bits (nothing is silently dropped) *)
Lemma floor_fits r p q : q <> 0 -> p < W256 -> is_floor r p q -> r < W256.
Proof. unfold is_floor. intros Hq Hp [A _]. nia. Qed.
