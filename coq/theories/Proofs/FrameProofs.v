(* Frame properties (C07, frame half): an operation changes no balance of any account outside the
   accounts it may touch; and conservation of sums over rosters for payments and swaps. *)
From HT Require Import Base.Prelude Num.Arith Amm.Formulas Amm.Guards World.World Proofs.LedgerProofs.

Definition opt_list (o : option addr) : list addr := match o with Some x => [x] | None => [] end.
Definition route_pairs (w : world) (ops : list (asset * asset)) : list addr :=
  flat_map (fun o => match reg_find (w_reg w) (fst o) (snd o) with Some r => [f_pair r] | None => [] end) ops.
Definition hook_touched (w : world) (target sender : addr) (h : hook) : list addr :=
  match h with
  | HSwap _ _ _ _ to => target :: sender :: opt_list to
  | HWithdraw => [target; sender]
  | HRouterOps ops _ to => target :: sender :: route_pairs w ops ++ opt_list to
  | HGarbage => [target; sender]
  end.
(* the accounts an operation may touch: its caller, the contract it addresses (and the pairs on a
   route), the designated receiver; for a provision also the LP token's own address, which receives
   the locked reserved unit of LP supply *)
Definition touched (w : world) (o : op) : list addr :=
  match o with
  | OBankSend f t _ => [f; t]
  | OTransfer _ f t _ => [f; t]
  | OTransferFrom _ sp ow t _ => [sp; ow; t]
  | OIncreaseAllowance _ ow sp _ => [ow; sp]
  | OMint _ sd t _ => [sd; t]
  | OBurn _ sd _ => [sd]
  | OSend _ sd target _ h => hook_touched w target sd h
  | OProvide p c _ _ _ _ _ _ r => p :: c :: opt_list r ++ match w_pairs w p with Some ps => [p_lp ps] | None => [] end
  | OSwap p c _ _ _ _ _ t => p :: c :: opt_list t
  | OPairReceive p c _ cs _ h => c :: hook_touched w p cs h
  | OPairUpdateDecimals p c _ _ _ => [p; c]
  | ORouterOps c _ ops _ t => w_rtr w :: c :: route_pairs w ops ++ opt_list t
  | ORouterOp c _ of ak t => w_rtr w :: c :: route_pairs w [(of, ak)] ++ opt_list t
  | ORouterAssertMin c _ _ _ _ => [c]
  | ORouterReceive c cs _ h => c :: hook_touched w (w_rtr w) cs h
  | OFacUpdateConfig c _ => [c]
  | OFacCreatePair c _ _ _ _ _ _ _ => [c]
  | OFacAddNative c _ _ => [c]
  | OFacMigrate c _ => [c]
  | OSendFrom _ sp ow target _ h => ow :: hook_touched w target sp h
  | OBurnFrom _ sp ow _ => [sp; ow]
  | ODecreaseAllowance _ ow sp _ => [ow; sp]
  end.
(* balances of every account outside [l] are unchanged *)
Definition frame (l : list addr) (w w' : world) : Prop := forall a, ~ In a l -> forall x, bal w' x a = bal w x a.

(* ------------------------------------------------------------------------------------ *)
(* tactics                                                                               *)
(* ------------------------------------------------------------------------------------ *)
Ltac bnd H x E := apply bind_ok in H; destruct H as (x & E & H); cbv beta in H.

(* list-inclusion side conditions *)
Ltac incl_tac :=
  let a := fresh "a" in let H := fresh "H" in
  intros a H;
  cbn [opt_list hook_touched app In] in *; rewrite ?in_app_iff in *;
  cbn [opt_list app In] in *; rewrite ?in_app_iff in *; cbn [In] in *; tauto.

(* ------------------------------------------------------------------------------------ *)
(* building blocks                                                                       *)
(* ------------------------------------------------------------------------------------ *)
Theorem frame_refl : forall l w, frame l w w.
Proof. intros l w a _ x. reflexivity. Qed.

Theorem frame_trans : forall l w1 w2 w3, frame l w1 w2 -> frame l w2 w3 -> frame l w1 w3.
Proof. intros l w1 w2 w3 H1 H2 a Ha x. rewrite (H2 a Ha x). apply H1. exact Ha. Qed.

Theorem frame_mono : forall l l' w w', (forall a, In a l -> In a l') -> frame l w w' -> frame l' w w'.
Proof. intros l l' w w' Hi H a Ha x. apply H. intros Hin. apply Ha, Hi, Hin. Qed.

Lemma frame_step l l1 l2 w1 w2 w3 :
  frame l1 w1 w2 -> frame l2 w2 w3 ->
  (forall a, In a l1 -> In a l) -> (forall a, In a l2 -> In a l) -> frame l w1 w3.
Proof.
  intros H1 H2 I1 I2. apply (frame_trans l w1 w2 w3).
  - apply (frame_mono l1 l _ _ I1 H1).
  - apply (frame_mono l2 l _ _ I2 H2).
Qed.

(* no balance changes at all *)
Definition same_bal (w w' : world) : Prop := forall x a, bal w' x a = bal w x a.
Lemma same_bal_frame l w w' : same_bal w w' -> frame l w w'.
Proof. intros H a _ x. apply H. Qed.
Lemma same_bal_refl w : same_bal w w.
Proof. intros x a. reflexivity. Qed.
Lemma same_bal_trans w1 w2 w3 : same_bal w1 w2 -> same_bal w2 w3 -> same_bal w1 w3.
Proof. intros H1 H2 x a. rewrite H2. apply H1. Qed.

(* what routes depend on *)
Definition keeps (w w' : world) : Prop :=
  w_reg w' = w_reg w /\ w_rtr w' = w_rtr w /\ w_pairs w' = w_pairs w.
Lemma keeps_refl w : keeps w w.
Proof. repeat split. Qed.
Lemma keeps_trans w1 w2 w3 : keeps w1 w2 -> keeps w2 w3 -> keeps w1 w3.
Proof. unfold keeps. intros (A1 & A2 & A3) (B1 & B2 & B3). repeat split; congruence. Qed.

Theorem pay_asset_frame : forall w from x n to w', pay_asset w from x n to = Ok w' -> frame [from; to] w w'.
Proof.
  intros w from x n to w' H a Ha y. apply pay_asset_effect in H. destruct H as (_ & _ & _ & Hb). rewrite Hb.
  apply not_in_cons in Ha. destruct Ha as (Haf & Ha). apply not_in_cons in Ha. destruct Ha as (Hat & _).
  apply N.eqb_neq in Haf, Hat. rewrite Haf, Hat.
  destruct (asset_eqb y x) eqn:E; [|reflexivity]. apply asset_eqb_eq in E. subst.
  destruct (from =? to); reflexivity.
Qed.

Lemma bank_sub_all_other cs : forall b a b', bank_sub_all b a cs = Ok b' ->
  forall x d, x <> a -> b' x d = b x d.
Proof.
  induction cs as [|[d0 n] cs IH]; intros b a b' H x d Hx; cbn [bank_sub_all] in H.
  - inversion H. reflexivity.
  - destruct (n <=? b a d0); [|discriminate]. rewrite (IH _ _ _ H x d Hx).
    apply upd2_other. left. exact Hx.
Qed.
Lemma bank_add_all_other cs : forall b a b', bank_add_all b a cs = Ok b' ->
  forall x d, x <> a -> b' x d = b x d.
Proof.
  induction cs as [|[d0 n] cs IH]; intros b a b' H x d Hx; cbn [bank_add_all] in H.
  - inversion H. reflexivity.
  - destruct (b a d0 + n <? W128); [|discriminate]. rewrite (IH _ _ _ H x d Hx).
    apply upd2_other. left. exact Hx.
Qed.

Lemma bank_send_inv w from to cs w' : bank_send w from to cs = Ok w' ->
  exists nz b1 b2, bank_sub_all (w_bank w) from nz = Ok b1 /\ bank_add_all b1 to nz = Ok b2 /\ w' = set_bank w b2.
Proof.
  unfold bank_send. destruct (nonzero_coins cs) as [|c nz]; [discriminate|].
  intros H. bnd H b1 H1. bnd H b2 H2. inversion H.
  exists (c :: nz), b1, b2. split; [exact H1|]. split; [exact H2|reflexivity].
Qed.

Theorem bank_send_frame : forall w from to cs w', bank_send w from to cs = Ok w' -> frame [from; to] w w'.
Proof.
  intros w from to cs w' H a Ha y. apply bank_send_inv in H. destruct H as (nz & b1 & b2 & H1 & H2 & ->).
  apply not_in_cons in Ha. destruct Ha as (Haf & Ha). apply not_in_cons in Ha. destruct Ha as (Hat & _).
  destruct y as [d|t]; cbn [bal set_bank w_bank w_tokens]; [|reflexivity].
  rewrite (bank_add_all_other _ _ _ _ H2 a d Hat). apply (bank_sub_all_other _ _ _ _ H1 a d Haf).
Qed.

Theorem move_funds_frame : forall w from to cs w', move_funds w from to cs = Ok w' -> frame [from; to] w w'.
Proof.
  intros w from to cs w' H. unfold move_funds in H. destruct cs as [|c cs].
  - inversion H. apply frame_refl.
  - eapply bank_send_frame. exact H.
Qed.

Lemma bank_send_keeps w from to cs w' : bank_send w from to cs = Ok w' -> keeps w w'.
Proof. intros H. apply bank_send_inv in H. destruct H as (nz & b1 & b2 & _ & _ & ->). repeat split. Qed.
Lemma move_funds_keeps w from to cs w' : move_funds w from to cs = Ok w' -> keeps w w'.
Proof.
  intros H. unfold move_funds in H. destruct cs; [inversion H; apply keeps_refl | eapply bank_send_keeps; exact H].
Qed.
Lemma with_token_keeps w ta f w' : with_token w ta f = Ok w' -> keeps w w'.
Proof. intros H. apply with_token_inv in H. destruct H as (t & t' & _ & _ & ->). repeat split. Qed.
Lemma pay_asset_keeps w from x n to w' : pay_asset w from x n to = Ok w' -> keeps w w'.
Proof.
  intros H. destruct x; cbn [pay_asset] in H; [eapply bank_send_keeps | eapply with_token_keeps]; exact H.
Qed.

(* ------------------------------------------------------------------------------------ *)
(* cw20 entry points                                                                     *)
(* ------------------------------------------------------------------------------------ *)
Lemma with_token_frame w ta f w' l : with_token w ta f = Ok w' ->
  (forall t t', f t = Ok t' -> forall a, ~ In a l -> t_bal t' a = t_bal t a) -> frame l w w'.
Proof.
  intros H Hf a Ha y. apply with_token_inv in H. destruct H as (t & t' & Ht & Hft & ->).
  rewrite set_token_bal. destruct (asset_eqb y (AToken ta)) eqn:E; [|reflexivity].
  apply asset_eqb_eq in E. subst y. cbn [bal]. rewrite Ht. eapply Hf; eassumption.
Qed.

Lemma tok_debit_bal t a n t' : tok_debit t a n = Ok t' -> forall x, x <> a -> t_bal t' x = t_bal t x.
Proof.
  unfold tok_debit. destruct (n <=? t_bal t a); [|discriminate]. intros H. inversion H. subst t'.
  cbn [t_bal]. intros x Hx. apply upd_other. exact Hx.
Qed.
Lemma tok_credit_bal t a n t' : tok_credit t a n = Ok t' -> forall x, x <> a -> t_bal t' x = t_bal t x.
Proof.
  unfold tok_credit. destruct (t_bal t a + n <? W128); [|discriminate]. intros H. inversion H. subst t'.
  cbn [t_bal]. intros x Hx. apply upd_other. exact Hx.
Qed.

Lemma tok_transfer_bal t from to n t' : tok_transfer t from to n = Ok t' ->
  forall a, ~ In a [from; to] -> t_bal t' a = t_bal t a.
Proof.
  unfold tok_transfer. destruct (n =? 0); [discriminate|]. intros H a Ha. bnd H t1 H1.
  apply not_in_cons in Ha. destruct Ha as (Haf & Ha). apply not_in_cons in Ha. destruct Ha as (Hat & _).
  rewrite (tok_credit_bal _ _ _ _ H a Hat). apply (tok_debit_bal _ _ _ _ H1 a Haf).
Qed.

Theorem tok_transfer_frame : forall w ta from to n w', with_token w ta (fun t => tok_transfer t from to n) = Ok w' -> frame [from; to] w w'.
Proof.
  intros w ta from to n w' H. eapply with_token_frame; [exact H|].
  intros t t' Hf. cbv beta in Hf. eapply tok_transfer_bal. exact Hf.
Qed.

Lemma tok_transfer_from_bal t sp ow to n t' : tok_transfer_from t sp ow to n = Ok t' ->
  forall a, ~ In a [ow; to] -> t_bal t' a = t_bal t a.
Proof.
  unfold tok_transfer_from. destruct (t_allow t ow sp) as [al|]; [|discriminate].
  destruct (n <=? al); [|discriminate]. cbv zeta. intros H a Ha. bnd H t1 H1.
  apply not_in_cons in Ha. destruct Ha as (Haf & Ha). apply not_in_cons in Ha. destruct Ha as (Hat & _).
  rewrite (tok_credit_bal _ _ _ _ H a Hat). rewrite (tok_debit_bal _ _ _ _ H1 a Haf). reflexivity.
Qed.

Theorem tok_transfer_from_frame : forall w ta sp ow to n w', with_token w ta (fun t => tok_transfer_from t sp ow to n) = Ok w' -> frame [ow; to] w w'.
Proof.
  intros w ta sp ow to n w' H. eapply with_token_frame; [exact H|].
  intros t t' Hf. cbv beta in Hf. eapply tok_transfer_from_bal. exact Hf.
Qed.

Lemma tok_mint_bal t sd to n t' : tok_mint t sd to n = Ok t' ->
  forall a, ~ In a [to] -> t_bal t' a = t_bal t a.
Proof.
  unfold tok_mint. destruct (n =? 0); [discriminate|]. destruct (t_minter t) as [m|]; [|discriminate].
  destruct (negb (m =? sd)); [discriminate|]. destruct (t_supply t + n <? W128); [|discriminate].
  intros H a Ha. apply not_in_cons in Ha. destruct Ha as (Hat & _).
  rewrite (tok_credit_bal _ _ _ _ H a Hat). reflexivity.
Qed.

Theorem tok_mint_frame : forall w ta sd to n w', with_token w ta (fun t => tok_mint t sd to n) = Ok w' -> frame [to] w w'.
Proof.
  intros w ta sd to n w' H. eapply with_token_frame; [exact H|].
  intros t t' Hf. cbv beta in Hf. eapply tok_mint_bal. exact Hf.
Qed.

Lemma tok_burn_bal t sd n t' : tok_burn t sd n = Ok t' ->
  forall a, ~ In a [sd] -> t_bal t' a = t_bal t a.
Proof.
  intros H a Ha. apply tok_burn_effect in H. destruct H as (_ & _ & _ & _ & Hb).
  apply not_in_cons in Ha. destruct Ha as (Has & _). apply N.eqb_neq in Has. rewrite Hb, Has. reflexivity.
Qed.

Theorem tok_burn_frame : forall w ta sd n w', with_token w ta (fun t => tok_burn t sd n) = Ok w' -> frame [sd] w w'.
Proof.
  intros w ta sd n w' H. eapply with_token_frame; [exact H|].
  intros t t' Hf. cbv beta in Hf. eapply tok_burn_bal. exact Hf.
Qed.

Theorem tok_increase_allowance_frame : forall w ta ow sp n w', with_token w ta (fun t => tok_increase_allowance t ow sp n) = Ok w' -> frame [] w w'.
Proof.
  intros w ta ow sp n w' H. eapply with_token_frame; [exact H|].
  intros t t' Hf a _. cbv beta in Hf. unfold tok_increase_allowance in Hf.
  destruct (sp =? ow); [discriminate|]. cbv zeta in Hf.
  destruct (_ <? W128); [|discriminate]. inversion Hf. reflexivity.
Qed.

Theorem tok_burn_from_frame : forall w ta sp ow n w', with_token w ta (fun t => tok_burn_from t sp ow n) = Ok w' -> frame [ow] w w'.
Proof.
  intros w ta sp ow n w' H. eapply with_token_frame; [exact H|].
  intros t t' Hf a Ha. cbv beta in Hf. apply tok_burn_from_effect in Hf.
  destruct Hf as (al & _ & _ & _ & _ & _ & _ & _ & _ & Hb).
  apply not_in_cons in Ha. destruct Ha as (Ha & _). apply N.eqb_neq in Ha. rewrite Hb, Ha. reflexivity.
Qed.

Theorem tok_decrease_allowance_frame : forall w ta ow sp n w', with_token w ta (fun t => tok_decrease_allowance t ow sp n) = Ok w' -> frame [] w w'.
Proof.
  intros w ta ow sp n w' H. eapply with_token_frame; [exact H|].
  intros t t' Hf a _. cbv beta in Hf. apply tok_decrease_allowance_effect in Hf.
  destruct Hf as (_ & al & _ & Hb & _). rewrite Hb. reflexivity.
Qed.

(* ------------------------------------------------------------------------------------ *)
(* pair handlers                                                                         *)
(* ------------------------------------------------------------------------------------ *)
(* the only world change of a swap is the single settlement payment *)
Lemma pair_swap_pay w p ps funds sender offer amount bp ms to r :
  pair_swap w p ps funds sender offer amount bp ms to = Ok r ->
  fst r = w \/ exists ask ret, pay_asset w p ask ret (match to with Some t => t | None => sender end) = Ok (fst r).
Proof.
  intros H. unfold pair_swap in H.
  bnd H u Hf. bnd H r0 Hr0. bnd H r1 Hr1. bnd H sel Hsel.
  destruct sel as [[[[opool apool] ask] od] ad].
  bnd H out Hcs. destruct out as [[ret spread] comm].
  bnd H u2 Hms. cbv zeta in H. bnd H w'' Hpay. inversion H. subst r. clear H. cbn [fst].
  destruct (ret =? 0).
  - left. inversion Hpay. reflexivity.
  - right. exists ask, ret. exact Hpay.
Qed.

Theorem pair_swap_frame : forall w p ps funds sender offer amount bp ms to r,
  pair_swap w p ps funds sender offer amount bp ms to = Ok r -> frame (p :: sender :: opt_list to) w (fst r).
Proof.
  intros w p ps funds sender offer amount bp ms to r H. apply pair_swap_pay in H.
  destruct H as [->|(ask & ret & H)]; [apply frame_refl|].
  apply pay_asset_frame in H. eapply frame_mono; [|exact H].
  destruct to; incl_tac.
Qed.

Lemma pair_swap_keeps w p ps funds sender offer amount bp ms to r :
  pair_swap w p ps funds sender offer amount bp ms to = Ok r -> keeps w (fst r).
Proof.
  intros H. apply pair_swap_pay in H. destruct H as [->|(ask & ret & H)]; [apply keeps_refl|].
  eapply pay_asset_keeps. exact H.
Qed.

Theorem pair_withdraw_frame : forall w p ps sender amount w', pair_withdraw w p ps sender amount = Ok w' -> frame [p; sender] w w'.
Proof.
  intros w p ps sender amount w' H. apply pair_withdraw_structure in H.
  destruct H as (total & x0 & x1 & w1 & w2 & _ & _ & P1 & P2 & Pb).
  apply pay_asset_frame in P1. apply pay_asset_frame in P2. apply tok_burn_frame in Pb.
  eapply frame_trans; [exact P1|]. eapply frame_trans; [exact P2|].
  eapply frame_mono; [|exact Pb]. incl_tac.
Qed.

Lemma pair_withdraw_keeps w p ps sender amount w' : pair_withdraw w p ps sender amount = Ok w' -> keeps w w'.
Proof.
  intros H. apply pair_withdraw_structure in H.
  destruct H as (total & x0 & x1 & w1 & w2 & _ & _ & P1 & P2 & Pb).
  apply pay_asset_keeps in P1. apply pay_asset_keeps in P2. apply with_token_keeps in Pb.
  eapply keeps_trans; [exact P1|]. eapply keeps_trans; eassumption.
Qed.

Theorem pair_provide_frame : forall w p ps c funds l0 n0 l1 n1 tol rcv w',
  pair_provide w p ps c funds l0 n0 l1 n1 tol rcv = Ok w' -> frame (p :: c :: opt_list rcv ++ [p_lp ps]) w w'.
Proof.
  intros w p ps c funds l0 n0 l1 n1 tol rcv w' H. unfold pair_provide in H.
  repeat (apply bind_ok in H; destruct H as (? & _ & H); cbv beta in H).
  match type of H with (if ?b then _ else _) = _ => destruct b end; [discriminate|].
  cbv zeta in H. bnd H w1 H1. bnd H w2 H2.
  assert (F1 : frame [c; p] w w1).
  { destruct (p_a0 ps) as [d|ta]; [inversion H1; apply frame_refl|].
    eapply tok_transfer_from_frame. exact H1. }
  assert (F2 : frame [c; p] w1 w2).
  { destruct (p_a1 ps) as [d|ta]; [inversion H2; apply frame_refl|].
    eapply tok_transfer_from_frame. exact H2. }
  assert (F12 : frame [c; p] w w2) by (eapply frame_trans; eassumption).
  match type of H with (if ?b then _ else _) = _ => destruct b end.
  - bnd H w3 H3. bnd H sh Hs. apply tok_mint_frame in H3. apply tok_mint_frame in H.
    apply (frame_step _ [c; p] (p :: c :: opt_list rcv ++ [p_lp ps]) w w2 w');
      [exact F12 | | destruct rcv; incl_tac | auto].
    eapply frame_step; [exact H3 | exact H | |]; destruct rcv; incl_tac.
  - apply tok_mint_frame in H.
    eapply frame_step; [exact F12 | exact H | |]; destruct rcv; incl_tac.
Qed.

Theorem pair_receive_frame : forall w p ps c funds cs ca h w',
  pair_receive w p ps c funds cs ca h = Ok w' -> frame (hook_touched w p cs h) w w'.
Proof.
  intros w p ps c funds cs ca h w' H. destruct h as [offer amount bp ms to| |ops m to|]; cbn [pair_receive] in H;
    try discriminate; cbn [hook_touched].
  - destruct (negb (amount =? ca)); [discriminate|].
    bnd H b0 Hb0. bnd H b1 Hb1.
    destruct (negb _); [discriminate|]. destruct (negb _); [discriminate|].
    bnd H r Hs. inversion H. subst w'. eapply pair_swap_frame. exact Hs.
  - destruct (negb _); [discriminate|]. eapply pair_withdraw_frame. exact H.
Qed.

Lemma pair_receive_keeps w p ps c funds cs ca h w' :
  pair_receive w p ps c funds cs ca h = Ok w' -> keeps w w'.
Proof.
  intros H. destruct h as [offer amount bp ms to| |ops m to|]; cbn [pair_receive] in H; try discriminate.
  - destruct (negb (amount =? ca)); [discriminate|].
    bnd H b0 Hb0. bnd H b1 Hb1.
    destruct (negb _); [discriminate|]. destruct (negb _); [discriminate|].
    bnd H r Hs. inversion H. subst w'. eapply pair_swap_keeps. exact Hs.
  - destruct (negb _); [discriminate|]. eapply pair_withdraw_keeps. exact H.
Qed.

(* ------------------------------------------------------------------------------------ *)
(* router                                                                                *)
(* ------------------------------------------------------------------------------------ *)
Lemma route_pairs_cons w o ops : route_pairs w (o :: ops) = route_pairs w [o] ++ route_pairs w ops.
Proof. unfold route_pairs. cbn [flat_map]. rewrite app_nil_r. reflexivity. Qed.
Lemma route_pairs_reg w w' ops : w_reg w' = w_reg w -> route_pairs w' ops = route_pairs w ops.
Proof. intros H. unfold route_pairs. rewrite H. reflexivity. Qed.

Lemma router_hop_both w offer ask to w' : router_hop w offer ask to = Ok w' ->
  frame (w_rtr w :: route_pairs w [(offer, ask)] ++ opt_list to) w w' /\ keeps w w'.
Proof.
  intros H. unfold router_hop in H.
  unfold route_pairs. cbn [flat_map fst snd].
  destruct (reg_find (w_reg w) offer ask) as [r|]; [|discriminate]. cbv zeta in H.
  destruct (w_pairs w (f_pair r)) as [ps|]; [|discriminate].
  bnd H amount Ha. destruct offer as [d|ta].
  - bnd H w1 H1. bnd H rr Hs. inversion H. subst w'. clear H.
    pose proof (move_funds_frame _ _ _ _ _ H1) as F1. pose proof (move_funds_keeps _ _ _ _ _ H1) as K1.
    pose proof (pair_swap_frame _ _ _ _ _ _ _ _ _ _ _ Hs) as F2. pose proof (pair_swap_keeps _ _ _ _ _ _ _ _ _ _ _ Hs) as K2.
    split; [|eapply keeps_trans; eassumption].
    eapply frame_step; [exact F1 | exact F2 | |]; destruct to; incl_tac.
  - bnd H w1 H1.
    pose proof (tok_transfer_frame _ _ _ _ _ _ H1) as F1. pose proof (with_token_keeps _ _ _ _ H1) as K1.
    pose proof (pair_receive_frame _ _ _ _ _ _ _ _ _ H) as F2. pose proof (pair_receive_keeps _ _ _ _ _ _ _ _ _ H) as K2.
    split; [|eapply keeps_trans; eassumption].
    cbn [hook_touched] in F2.
    eapply frame_step; [exact F1 | exact F2 | |]; destruct to; incl_tac.
Qed.

Theorem router_hop_frame : forall w offer ask to w', router_hop w offer ask to = Ok w' ->
  frame (w_rtr w :: route_pairs w [(offer, ask)] ++ opt_list to) w w' /\ w_reg w' = w_reg w /\ w_rtr w' = w_rtr w.
Proof.
  intros w offer ask to w' H. apply router_hop_both in H. destruct H as (F & K1 & K2 & _). auto.
Qed.

Lemma router_hops_cons2 w p q rest to :
  router_hops w (p :: q :: rest) to =
  (let* w1 := router_hop w (fst p) (snd p) None in router_hops w1 (q :: rest) to).
Proof. destruct p; reflexivity. Qed.

Lemma router_hops_both ops : forall w to w', router_hops w ops to = Ok w' ->
  frame (w_rtr w :: to :: route_pairs w ops) w w' /\ keeps w w'.
Proof.
  induction ops as [|p ops IH]; intros w to w' H.
  - cbn [router_hops] in H. inversion H. split; [apply frame_refl | apply keeps_refl].
  - destruct ops as [|q rest].
    + destruct p as [o a]. cbn [router_hops] in H. apply router_hop_both in H. destruct H as (F & K).
      split; [|exact K]. eapply frame_mono; [|exact F]. incl_tac.
    + rewrite router_hops_cons2 in H. bnd H w1 H1. destruct p as [o a]. cbn [fst snd] in H1.
      apply router_hop_both in H1. destruct H1 as (F1 & K1).
      apply IH in H. destruct H as (F2 & K2).
      split; [|eapply keeps_trans; eassumption].
      destruct K1 as (Kreg & Krtr & _). rewrite Krtr, (route_pairs_reg _ _ _ Kreg) in F2.
      rewrite (route_pairs_cons w (o, a)).
      eapply frame_step; [exact F1 | exact F2 | |]; incl_tac.
Qed.

Lemma router_assert_min_same w t prev m r w' : router_assert_min w t prev m r = Ok w' -> w' = w.
Proof.
  unfold router_assert_min. intros H. bnd H now Hn. bnd H got Hg.
  destruct (got <? m); [discriminate|]. inversion H. reflexivity.
Qed.

Lemma router_exec_ops_both w sender ops m to w' : router_exec_ops w sender ops m to = Ok w' ->
  frame (w_rtr w :: sender :: route_pairs w ops ++ opt_list to) w w' /\ keeps w w'.
Proof.
  intros H. unfold router_exec_ops in H. destruct ops as [|p ops]; [discriminate|].
  bnd H u Hu. cbv zeta in H.
  assert (Hh : exists w1, router_hops w (p :: ops) (match to with Some t => t | None => sender end) = Ok w1 /\ w' = w1).
  { destruct m as [m|].
    - bnd H prev Hp. bnd H w1 H1. apply router_assert_min_same in H. eauto.
    - eauto. }
  destruct Hh as (w1 & Hh & ->). apply router_hops_both in Hh. destruct Hh as (F & K).
  split; [|exact K]. eapply frame_mono; [|exact F]. destruct to; incl_tac.
Qed.

Theorem router_exec_ops_frame : forall w sender ops m to w', router_exec_ops w sender ops m to = Ok w' ->
  frame (w_rtr w :: sender :: route_pairs w ops ++ opt_list to) w w'.
Proof. intros w sender ops m to w' H. apply router_exec_ops_both in H. apply H. Qed.

Theorem cw20_send_frame : forall w ta sd target n h w', cw20_send w ta sd target n h = Ok w' -> frame (hook_touched w target sd h) w w'.
Proof.
  intros w ta sd target n h w' H. unfold cw20_send in H. bnd H w1 H1.
  pose proof (tok_transfer_frame _ _ _ _ _ _ H1) as F1. pose proof (with_token_keeps _ _ _ _ H1) as (Kreg & Krtr & _).
  assert (I1 : forall a, In a [sd; target] -> In a (hook_touched w target sd h)) by (destruct h; incl_tac).
  destruct (w_pairs w1 target) as [ps|].
  - apply pair_receive_frame in H.
    assert (E : hook_touched w1 target sd h = hook_touched w target sd h).
    { destruct h; cbn [hook_touched]; try reflexivity. rewrite (route_pairs_reg _ _ _ Kreg). reflexivity. }
    rewrite E in H. eapply frame_step; [exact F1 | exact H | exact I1 | auto].
  - destruct (target =? w_rtr w1) eqn:Et; [|discriminate]. apply N.eqb_eq in Et.
    destruct h as [| |ops m to|]; try discriminate.
    apply router_exec_ops_frame in H. rewrite <- Et, (route_pairs_reg _ _ _ Kreg) in H.
    cbn [hook_touched] in *. eapply frame_step; [exact F1 | exact H | exact I1 | auto].
Qed.

Lemma cw20_dispatch_frame w1 ta sd target n h w' : cw20_dispatch w1 ta sd target n h = Ok w' ->
  frame (hook_touched w1 target sd h) w1 w'.
Proof.
  intros H. unfold cw20_dispatch in H. destruct (w_pairs w1 target) as [ps|].
  - apply pair_receive_frame in H. exact H.
  - destruct (target =? w_rtr w1) eqn:Et; [|discriminate]. apply N.eqb_eq in Et.
    destruct h as [| |ops m to|]; try discriminate.
    apply router_exec_ops_frame in H. rewrite <- Et in H. cbn [hook_touched]. exact H.
Qed.

Theorem cw20_send_from_frame : forall w ta sp ow target n h w', cw20_send_from w ta sp ow target n h = Ok w' ->
  frame (ow :: hook_touched w target sp h) w w'.
Proof.
  intros w ta sp ow target n h w' H. apply cw20_send_from_inv in H. destruct H as (w1 & H1 & H).
  pose proof (tok_transfer_from_frame _ _ _ _ _ _ _ H1) as F1. pose proof (with_token_keeps _ _ _ _ H1) as (Kreg & Krtr & _).
  apply cw20_dispatch_frame in H.
  assert (E : hook_touched w1 target sp h = hook_touched w target sp h).
  { destruct h; cbn [hook_touched]; try reflexivity. rewrite (route_pairs_reg _ _ _ Kreg). reflexivity. }
  rewrite E in H. eapply frame_step; [exact F1 | exact H | | ].
  - destruct h; incl_tac.
  - intros a Ha. right. exact Ha.
Qed.

(* ------------------------------------------------------------------------------------ *)
(* factory                                                                               *)
(* ------------------------------------------------------------------------------------ *)
Lemma pair_update_decimals_same_bal w p ps c dn d0 d1 w' :
  pair_update_decimals w p ps c dn d0 d1 = Ok w' -> same_bal w w'.
Proof.
  unfold pair_update_decimals. destruct (negb _); [discriminate|].
  destruct (_ || _); intros H; inversion H; intros x a; destruct x; reflexivity.
Qed.

Lemma fac_update_records_same_bal dn k todo : forall w done w',
  fac_update_records w dn k todo done = Ok w' -> same_bal w w'.
Proof.
  induction todo as [|r todo IH]; intros w done w' H; cbn [fac_update_records] in H.
  - inversion H. intros x a. destruct x; reflexivity.
  - cbv zeta in H. bnd H w1 H1. bnd H w2 H2. apply IH in H.
    assert (S1 : same_bal w w1).
    { destruct (asset_eqb (f_a0 r) (ANative dn)); [|inversion H1; apply same_bal_refl].
      destruct (w_pairs w (f_pair r)); [|discriminate]. eapply pair_update_decimals_same_bal. exact H1. }
    assert (S2 : same_bal w1 w2).
    { destruct (asset_eqb (f_a1 r) (ANative dn)); [|inversion H2; apply same_bal_refl].
      destruct (w_pairs w1 (f_pair r)); [|discriminate]. eapply pair_update_decimals_same_bal. exact H2. }
    eapply same_bal_trans; [exact S1|]. eapply same_bal_trans; eassumption.
Qed.

Lemma fac_add_native_same_bal w c dn k w' : fac_add_native w c dn k = Ok w' -> same_bal w w'.
Proof.
  unfold fac_add_native. cbv zeta. destruct (negb _); [discriminate|].
  destruct (_ =? 0); [discriminate|].
  destruct (w_natives w dn); intros H.
  - apply fac_update_records_same_bal in H. intros x a. rewrite H. destruct x; reflexivity.
  - inversion H. intros x a. destruct x; reflexivity.
Qed.

Lemma fac_update_config_same_bal w c o w' : fac_update_config w c o = Ok w' -> same_bal w w'.
Proof.
  unfold fac_update_config. destruct (negb _); [discriminate|]. intros H. inversion H.
  intros x a. destruct o, x; reflexivity.
Qed.

Lemma fac_migrate_pair_same_bal w c ct w' : fac_migrate_pair w c ct = Ok w' -> same_bal w w'.
Proof.
  unfold fac_migrate_pair. destruct (negb _); [discriminate|]. destruct (w_pairs w ct); [|discriminate].
  intros H. inversion H. apply same_bal_refl.
Qed.

(* creation is balance-neutral provided the fresh LP address is unused *)
Lemma fac_create_pair_same_bal w c a0 a1 wl m0 m1 cm ld w' :
  w_tokens w (w_next w + 1) = None ->
  fac_create_pair w c a0 a1 wl m0 m1 cm ld = Ok w' -> same_bal w w'.
Proof.
  intros Hfresh H. unfold fac_create_pair in H.
  destruct (negb _); [discriminate|]. destruct (asset_eqb a0 a1); [discriminate|].
  destruct (match cm with Some c0 => D <? c0 | None => false end); [discriminate|].
  bnd H d0 Hd0. bnd H d1 Hd1. destruct (reg_find _ _ _); [discriminate|]. cbv zeta in H.
  destruct (18 <? _); [discriminate|]. inversion H. clear H.
  intros x a. destruct x as [d|t]; cbn [bal set_next set_reg set_token set_pair w_bank w_tokens]; [reflexivity|].
  destruct (N.eq_dec t (w_next w + 1)) as [->|Ht].
  - rewrite upd_same, Hfresh. reflexivity.
  - rewrite upd_other by exact Ht. reflexivity.
Qed.

(* ORIGINAL STATEMENT (false for OFacCreatePair, see [fac_ops_frame_false] below):
   Theorem fac_ops_frame : forall w o w', exec w o = Ok w' ->
     match o with OFacUpdateConfig _ _ | OFacCreatePair _ _ _ _ _ _ _ _ | OFacAddNative _ _ _ | OFacMigrate _ _ => frame [] w w' | _ => True end. *)
Theorem fac_ops_frame_variant : forall w o w', (forall q, w_next w <= q -> w_tokens w q = None) -> exec w o = Ok w' ->
  match o with OFacUpdateConfig _ _ | OFacCreatePair _ _ _ _ _ _ _ _ | OFacAddNative _ _ _ | OFacMigrate _ _ => frame [] w w' | _ => True end.
Proof.
  intros w o w' Hfresh H. destruct o; try exact I; cbn [exec] in H; apply same_bal_frame.
  - eapply fac_update_config_same_bal. exact H.
  - eapply fac_create_pair_same_bal; [|exact H]. apply Hfresh. lia.
  - eapply fac_add_native_same_bal. exact H.
  - eapply fac_migrate_pair_same_bal. exact H.
Qed.

(* the three factory operations other than creation need no side condition *)
Theorem fac_ops_frame_nocreate : forall w o w', exec w o = Ok w' ->
  match o with OFacUpdateConfig _ _ | OFacAddNative _ _ _ | OFacMigrate _ _ => frame [] w w' | _ => True end.
Proof.
  intros w o w' H. destruct o; try exact I; cbn [exec] in H; apply same_bal_frame.
  - eapply fac_update_config_same_bal. exact H.
  - eapply fac_add_native_same_bal. exact H.
  - eapply fac_migrate_pair_same_bal. exact H.
Qed.

(* counterexample to the unconditional statements: a token with non-zero balances already sits at the
   address the next LP token will get; creation overwrites it, so all its balances drop to 0 *)
Definition tk_bad : token := mkToken (fun _ => 5) (fun _ _ => None) 0 None 6.
Definition w_bad : world :=
  mkWorld (fun _ _ => 0) (fun _ => Some tk_bad) (fun _ => None) 0 1 7 (fun _ => Some 6) [] 10.
Definition o_bad : op := OFacCreatePair 7 (ANative 0) (ANative 1) [] 0 0 None None.

Theorem fac_ops_frame_false : ~ (forall w o w', exec w o = Ok w' ->
  match o with OFacUpdateConfig _ _ | OFacCreatePair _ _ _ _ _ _ _ _ | OFacAddNative _ _ _ | OFacMigrate _ _ => frame [] w w' | _ => True end).
Proof.
  intros Hall.
  destruct (exec w_bad o_bad) as [w'|e] eqn:E; [|vm_compute in E; discriminate].
  specialize (Hall w_bad o_bad w' E). cbn [o_bad] in Hall.
  specialize (Hall 0 (fun f => f) (AToken 11)).
  vm_compute in E. inversion E. subst w'. vm_compute in Hall. discriminate.
Qed.

(* ------------------------------------------------------------------------------------ *)
(* THE theorem                                                                           *)
(* ------------------------------------------------------------------------------------ *)
(* every operation except pair creation: unconditional *)
Theorem exec_frame_nocreate : forall w o w', exec w o = Ok w' ->
  match o with OFacCreatePair _ _ _ _ _ _ _ _ => True | _ => frame (touched w o) w w' end.
Proof.
  intros w o w' H. destruct o; cbn [exec] in H; cbn [touched]; try exact I.
  - (* OBankSend *) eapply bank_send_frame. exact H.
  - (* OTransfer *) eapply tok_transfer_frame. exact H.
  - (* OTransferFrom *) apply tok_transfer_from_frame in H. eapply frame_mono; [|exact H]. incl_tac.
  - (* OIncreaseAllowance *) apply tok_increase_allowance_frame in H. eapply frame_mono; [|exact H]. incl_tac.
  - (* OMint *) apply tok_mint_frame in H. eapply frame_mono; [|exact H]. incl_tac.
  - (* OBurn *) eapply tok_burn_frame. exact H.
  - (* OSend *) eapply cw20_send_frame. exact H.
  - (* OProvide *)
    destruct (w_pairs w p) as [ps|]; [|discriminate]. bnd H w1 H1.
    apply move_funds_frame in H1. apply pair_provide_frame in H.
    eapply frame_step; [exact H1 | exact H | |]; destruct receiver; incl_tac.
  - (* OSwap *)
    destruct (w_pairs w p) as [ps|]; [|discriminate]. bnd H w1 H1.
    destruct (negb _); [discriminate|]. bnd H r Hs. inversion H. subst w'.
    apply move_funds_frame in H1. apply pair_swap_frame in Hs.
    eapply frame_step; [exact H1 | exact Hs | |]; destruct to; incl_tac.
  - (* OPairReceive *)
    destruct (w_pairs w p) as [ps|]; [|discriminate]. bnd H w1 H1.
    pose proof (move_funds_keeps _ _ _ _ _ H1) as (Kreg & _ & _).
    apply move_funds_frame in H1. apply pair_receive_frame in H.
    assert (E : hook_touched w1 p cw_sender h = hook_touched w p cw_sender h).
    { destruct h; cbn [hook_touched]; try reflexivity. rewrite (route_pairs_reg _ _ _ Kreg). reflexivity. }
    rewrite E in H.
    eapply frame_step; [exact H1 | exact H | |]; destruct h; incl_tac.
  - (* OPairUpdateDecimals *)
    destruct (w_pairs w p) as [ps|]; [|discriminate].
    apply same_bal_frame. eapply pair_update_decimals_same_bal. exact H.
  - (* ORouterOps *)
    bnd H w1 H1. pose proof (move_funds_keeps _ _ _ _ _ H1) as (Kreg & Krtr & _).
    apply move_funds_frame in H1. apply router_exec_ops_frame in H.
    rewrite Krtr, (route_pairs_reg _ _ _ Kreg) in H.
    eapply frame_step; [exact H1 | exact H | |]; incl_tac.
  - (* ORouterOp *)
    bnd H w1 H1. destruct (negb _); [discriminate|].
    pose proof (move_funds_keeps _ _ _ _ _ H1) as (Kreg & Krtr & _).
    apply move_funds_frame in H1. apply router_hop_frame in H. destruct H as (H & _).
    rewrite Krtr, (route_pairs_reg _ _ _ Kreg) in H.
    eapply frame_step; [exact H1 | exact H | |]; incl_tac.
  - (* ORouterAssertMin *)
    destruct (negb _); [discriminate|]. apply router_assert_min_same in H. subst w'. apply frame_refl.
  - (* ORouterReceive *)
    destruct h as [| |ops m to|]; try discriminate. apply router_exec_ops_frame in H.
    eapply frame_mono; [|exact H]. incl_tac.
  - (* OFacUpdateConfig *) apply same_bal_frame. eapply fac_update_config_same_bal. exact H.
  - (* OFacAddNative *) apply same_bal_frame. eapply fac_add_native_same_bal. exact H.
  - (* OFacMigrate *) apply same_bal_frame. eapply fac_migrate_pair_same_bal. exact H.
  - (* OSendFrom *) eapply cw20_send_from_frame. exact H.
  - (* OBurnFrom *) apply tok_burn_from_frame in H. eapply frame_mono; [|exact H]. incl_tac.
  - (* ODecreaseAllowance *) apply tok_decrease_allowance_frame in H. eapply frame_mono; [|exact H]. incl_tac.
Qed.

(* ORIGINAL STATEMENT (false for OFacCreatePair, see [exec_frame_false] below):
   Theorem exec_frame : forall w o w', exec w o = Ok w' -> frame (touched w o) w w'. *)
Theorem exec_frame_variant : forall w o w', (forall q, w_next w <= q -> w_tokens w q = None) ->
  exec w o = Ok w' -> frame (touched w o) w w'.
Proof.
  intros w o w' Hfresh H.
  pose proof (exec_frame_nocreate w o w' H) as Hn.
  destruct o; try exact Hn.
  cbn [exec] in H. apply same_bal_frame. eapply fac_create_pair_same_bal; [|exact H]. apply Hfresh. lia.
Qed.

Theorem exec_frame_false : ~ (forall w o w', exec w o = Ok w' -> frame (touched w o) w w').
Proof.
  intros Hall.
  destruct (exec w_bad o_bad) as [w'|e] eqn:E; [|vm_compute in E; discriminate].
  specialize (Hall w_bad o_bad w' E 0).
  assert (Hn : ~ In 0 (touched w_bad o_bad)).
  { cbn [touched o_bad In]. intros [Hc|[]]. discriminate Hc. }
  specialize (Hall Hn (AToken 11)).
  vm_compute in E. inversion E. subst w'. vm_compute in Hall. discriminate.
Qed.

(* ------------------------------------------------------------------------------------ *)
(* conservation                                                                          *)
(* ------------------------------------------------------------------------------------ *)
Definition sum_bal (w : world) (x : asset) (l : list addr) : N := fold_right (fun a acc => bal w x a + acc) 0 l.

Definition sumf (f : addr -> N) (l : list addr) : N := fold_right (fun a acc => f a + acc) 0 l.
Lemma sum_bal_sumf w x l : sum_bal w x l = sumf (bal w x) l.
Proof. reflexivity. Qed.

Lemma sumf_ext f g l : (forall a, In a l -> g a = f a) -> sumf g l = sumf f l.
Proof.
  induction l as [|b l IH]; intros H; [reflexivity|]. cbn [sumf fold_right].
  fold (sumf g l). fold (sumf f l).
  rewrite IH by (intros a Ha; apply H; cbn [In]; auto).
  rewrite (H b) by (cbn [In]; auto). reflexivity.
Qed.

Lemma sumf_inc f g l k n : NoDup l -> In k l ->
  (forall a, In a l -> g a = if a =? k then f a + n else f a) -> sumf g l = sumf f l + n.
Proof.
  induction l as [|b l IH]; intros Hnd Hk Hg; [destruct Hk|].
  apply NoDup_cons_iff in Hnd. destruct Hnd as (Hb & Hnd).
  cbn [sumf fold_right]. fold (sumf g l). fold (sumf f l).
  destruct (N.eq_dec b k) as [->|Hbk].
  - rewrite (Hg k) by (cbn [In]; auto). rewrite N.eqb_refl.
    rewrite (sumf_ext f g l).
    + lia.
    + intros a Ha. rewrite Hg by (cbn [In]; auto).
      destruct (a =? k) eqn:E; [|reflexivity]. apply N.eqb_eq in E. subst. contradiction.
  - destruct Hk as [Hk|Hk]; [contradiction|].
    rewrite (Hg b) by (cbn [In]; auto). apply N.eqb_neq in Hbk. rewrite Hbk.
    rewrite IH; [lia | exact Hnd | exact Hk |]. intros a Ha. apply Hg. cbn [In]. auto.
Qed.

Lemma sumf_dec f g l k n : NoDup l -> In k l -> n <= f k ->
  (forall a, In a l -> g a = if a =? k then f a - n else f a) -> sumf g l + n = sumf f l.
Proof.
  induction l as [|b l IH]; intros Hnd Hk Hn Hg; [destruct Hk|].
  apply NoDup_cons_iff in Hnd. destruct Hnd as (Hb & Hnd).
  cbn [sumf fold_right]. fold (sumf g l). fold (sumf f l).
  destruct (N.eq_dec b k) as [->|Hbk].
  - rewrite (Hg k) by (cbn [In]; auto). rewrite N.eqb_refl.
    rewrite (sumf_ext f g l).
    + lia.
    + intros a Ha. rewrite Hg by (cbn [In]; auto).
      destruct (a =? k) eqn:E; [|reflexivity]. apply N.eqb_eq in E. subst. contradiction.
  - destruct Hk as [Hk|Hk]; [contradiction|].
    rewrite (Hg b) by (cbn [In]; auto). apply N.eqb_neq in Hbk. rewrite Hbk.
    rewrite <- (IH Hnd Hk Hn); [lia|]. intros a Ha. apply Hg. cbn [In]. auto.
Qed.

Lemma sumf_transfer f g l from to n : NoDup l -> In from l -> In to l -> from <> to -> n <= f from ->
  (forall a, g a = if a =? from then f a - n else if a =? to then f a + n else f a) ->
  sumf g l = sumf f l.
Proof.
  intros Hnd Hf Ht Hne Hn Hg.
  pose (h := fun a => if a =? from then f a - n else f a).
  assert (H1 : sumf h l + n = sumf f l).
  { apply (sumf_dec f h l from n Hnd Hf Hn). intros a _. reflexivity. }
  assert (H2 : sumf g l = sumf h l + n).
  { apply (sumf_inc h g l to n Hnd Ht). intros a _. rewrite Hg. unfold h.
    destruct (a =? from) eqn:Ea.
    - apply N.eqb_eq in Ea. subst a. apply N.eqb_neq in Hne. rewrite Hne. reflexivity.
    - reflexivity. }
  lia.
Qed.

Theorem pay_asset_conserves : forall w from x n to w' l, pay_asset w from x n to = Ok w' ->
  NoDup l -> In from l -> In to l -> forall y, sum_bal w' y l = sum_bal w y l.
Proof.
  intros w from x n to w' l H Hnd Hf Ht y. rewrite !sum_bal_sumf.
  apply pay_asset_effect in H. destruct H as (_ & Hle & _ & Hb).
  destruct (asset_eqb y x) eqn:Ey.
  - apply asset_eqb_eq in Ey. subst y.
    destruct (from =? to) eqn:Eft.
    + apply sumf_ext. intros a _. rewrite Hb, asset_eqb_refl. reflexivity.
    + apply N.eqb_neq in Eft. apply (sumf_transfer _ _ l from to n Hnd Hf Ht Eft Hle).
      intros a. rewrite Hb, asset_eqb_refl. reflexivity.
  - apply sumf_ext. intros a _. rewrite Hb, Ey. reflexivity.
Qed.

Theorem pair_swap_conserves : forall w p ps funds sender offer amount bp ms to r l,
  pair_swap w p ps funds sender offer amount bp ms to = Ok r ->
  NoDup l -> In p l -> In sender l -> (forall t, to = Some t -> In t l) -> forall y, sum_bal (fst r) y l = sum_bal w y l.
Proof.
  intros w p ps funds sender offer amount bp ms to r l H Hnd Hp Hs Ht y.
  apply pair_swap_pay in H. destruct H as [->|(ask & ret & H)]; [reflexivity|].
  eapply pay_asset_conserves; [exact H | exact Hnd | exact Hp |].
  destruct to as [t|]; [apply Ht; reflexivity | exact Hs].
Qed.

Print Assumptions frame_refl.
Print Assumptions frame_trans.
Print Assumptions frame_mono.
Print Assumptions pay_asset_frame.
Print Assumptions bank_send_frame.
Print Assumptions move_funds_frame.
Print Assumptions tok_transfer_frame.
Print Assumptions tok_transfer_from_frame.
Print Assumptions tok_mint_frame.
Print Assumptions tok_burn_frame.
Print Assumptions tok_increase_allowance_frame.
Print Assumptions pair_swap_frame.
Print Assumptions pair_withdraw_frame.
Print Assumptions pair_provide_frame.
Print Assumptions pair_receive_frame.
Print Assumptions router_hop_frame.
Print Assumptions router_exec_ops_frame.
Print Assumptions cw20_send_frame.
Print Assumptions fac_ops_frame_variant.
Print Assumptions fac_ops_frame_nocreate.
Print Assumptions fac_ops_frame_false.
Print Assumptions exec_frame_nocreate.
Print Assumptions exec_frame_variant.
Print Assumptions exec_frame_false.
Print Assumptions pay_asset_conserves.
Print Assumptions pair_swap_conserves.
