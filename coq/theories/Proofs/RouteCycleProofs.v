(* C13, delivery half, for routes that REVISIT assets (cycles such as A -> B -> C -> A, or A -> B -> C -> A -> D):
   a chain route whose hops use pairwise distinct PAIRS, executed while the router holds the input and none of
   the other route assets, delivers to the recipient exactly the amount the router's own simulation quotes in
   the same state, and leaves the router holding none of the route's assets.  The assets themselves may repeat.
   Generalises [RouteNProofs.route_inv]: the invariant on the router's balances is "none of the later route
   assets, except possibly the current offer asset". *)
From HT Require Import Base.Prelude Num.Arith Amm.Formulas Amm.Guards World.World Proofs.LedgerProofs Proofs.RouterProofs Proofs.FrameProofs Proofs.RouteQuoteProofs Proofs.RouteNProofs.

(* membership in a list of assets is decidable *)
Lemma asset_in_dec (x : asset) : forall l : list asset, In x l \/ ~ In x l.
Proof.
  induction l as [|y l IH]; [right; intros []|].
  destruct (asset_eqb x y) eqn:E.
  - apply LedgerProofs.asset_eqb_eq in E. left. left. symmetry. exact E.
  - apply LedgerProofs.asset_eqb_neq in E. destruct IH as [IH|IH].
    + left. right. exact IH.
    + right. intros [X|X]; [apply E; symmetry; exact X | exact (IH X)].
Qed.

(* ------------------------------------------------------------------------------------------ *)
(* the invariant, by induction on the route: [wc] is the current world, [w] the initial one     *)
(* ------------------------------------------------------------------------------------------ *)
Lemma route_inv_revisit : forall ops pairs w wc rcv a w',
  ops <> [] ->
  router_hops wc ops rcv = Ok w' ->
  chain_from a ops ->
  same_config w wc ->
  rcv <> w_rtr w ->
  Forall2 (hop_ok w rcv) ops pairs ->
  NoDup pairs ->
  (forall p x, In p pairs -> bal wc x p = bal w x p) ->       (* pairs still to visit: reserves as in [w] *)
  (forall x, In x (map snd ops) -> asset_eqb x a = false -> bal wc x (w_rtr w) = 0) ->
                                                              (* later route assets other than the offer: none in the router *)
  exists q, q_router_simulate w (bal wc a (w_rtr w)) ops = Ok q /\
    bal w' (snd (last ops (a, a))) rcv = bal wc (snd (last ops (a, a))) rcv + q /\
    (forall x, In x (route_assets a ops) -> bal w' x (w_rtr w) = 0) /\
    (forall z ad, ~ In z (route_assets a ops) -> bal w' z ad = bal wc z ad).
Proof.
  induction ops as [|[o k] rest IH]; intros pairs w wc rcv a w' Hne H Hch C Hrr HF Hnp Hres Hz;
    [contradiction|].
  destruct Hch as [-> Hch].
  inversion HF as [|x0 p l1 pairs' Hok HF' E1 E2]. subst x0 l1 pairs. clear HF.
  inversion Hnp as [|p0 l0 Hpnin Hnp' E]. subst p0 l0. clear Hnp.
  assert (Hprtr : p <> w_rtr w) by (destruct Hok as (? & ? & _ & _ & _ & _ & X & _); exact X).
  assert (Hprcv : p <> rcv) by (destruct Hok as (? & ? & _ & _ & _ & _ & _ & X & _); exact X).
  assert (Erp : (w_rtr w =? p) = false) by (apply N.eqb_neq; congruence).
  assert (Ercp : (rcv =? p) = false) by (apply N.eqb_neq; congruence).
  assert (Ercr : (rcv =? w_rtr w) = false) by (apply N.eqb_neq; congruence).
  destruct rest as [|op2 rest'].
  - (* last hop: paid to the recipient *)
    cbn [router_hops] in H.
    assert (Hdp : (match Some rcv with Some t => t | None => w_rtr w end) <> p) by congruence.
    destruct (hop_step _ _ _ _ _ _ _ _ H C Hok Hdp (fun x => Hres p x (or_introl eq_refl)))
      as (ret & Hq & C1 & Hoa & Bo & Ba & Bz).
    assert (Errc : (w_rtr w =? rcv) = false) by (apply N.eqb_neq; congruence).
    assert (Hka : asset_eqb k a = false) by (rewrite asset_eqb_sym; exact Hoa).
    exists ret. split; [exact Hq|]. cbn [last snd].
    split; [rewrite Ba, Ercp, N.eqb_refl; reflexivity|].
    split.
    + intros x Hx. unfold route_assets in Hx. cbn [map snd In] in Hx. destruct Hx as [<-|[<-|[]]].
      * rewrite Bo, N.eqb_refl. reflexivity.
      * rewrite Ba, Erp, Errc. apply Hz; [left; reflexivity | exact Hka].
    + intros z ad Hzn. unfold route_assets in Hzn. cbn [map snd In] in Hzn.
      apply Bz; apply LedgerProofs.asset_eqb_neq; intros ->; apply Hzn; auto.
  - (* an intermediate hop: the output stays with the router *)
    set (R := op2 :: rest') in *.
    assert (HR : R <> []) by discriminate.
    unfold R in H. rewrite router_hops_cons2 in H. fold R in H. cbn [fst snd] in H. bnd H w1 H1.
    assert (Hdp : (match @None addr with Some t => t | None => w_rtr w end) <> p) by congruence.
    destruct (hop_step _ _ _ _ _ _ _ _ H1 C Hok Hdp (fun x => Hres p x (or_introl eq_refl)))
      as (ret & Hq & C1 & Hoa & Bo & Ba & Bz).
    cbn match in Ba.
    assert (Hka : asset_eqb k a = false) by (rewrite asset_eqb_sym; exact Hoa).
    change (route_assets a ((a, k) :: R)) with (a :: route_assets k R) in *.
    (* the router's balance of the next offer asset is this hop's output *)
    assert (Hamt : bal w1 k (w_rtr w) = ret).
    { rewrite Ba, Erp, N.eqb_refl, (Hz k (or_introl eq_refl) Hka). apply N.add_0_l. }
    (* the recipient's account is not touched by an intermediate hop *)
    assert (Hrcv1 : forall z, bal w1 z rcv = bal wc z rcv).
    { intros z.
      destruct (asset_eqb z a) eqn:Eza.
      { apply LedgerProofs.asset_eqb_eq in Eza. subst z. rewrite Bo, Ercr, Ercp. reflexivity. }
      destruct (asset_eqb z k) eqn:Ezk.
      { apply LedgerProofs.asset_eqb_eq in Ezk. subst z. rewrite Ba, Ercp, Ercr. reflexivity. }
      apply Bz; assumption. }
    (* the pairs still to visit are untouched *)
    assert (Hres1 : forall p' x, In p' pairs' -> bal w1 x p' = bal w x p').
    { intros p' x Hin.
      destruct (forall2_in_r _ _ _ _ HF' Hin) as (o' & _ & (? & ? & _ & _ & _ & _ & Hp'r & _)).
      assert (Ep'r : (p' =? w_rtr w) = false) by (apply N.eqb_neq; congruence).
      assert (Ep'p : (p' =? p) = false) by (apply N.eqb_neq; intros ->; contradiction).
      rewrite <- (Hres p' x (or_intror Hin)).
      destruct (asset_eqb x a) eqn:Exa.
      { apply LedgerProofs.asset_eqb_eq in Exa. subst x. rewrite Bo, Ep'r, Ep'p. reflexivity. }
      destruct (asset_eqb x k) eqn:Exk.
      { apply LedgerProofs.asset_eqb_eq in Exk. subst x. rewrite Ba, Ep'p, Ep'r. reflexivity. }
      apply Bz; assumption. }
    (* the router holds none of the later assets other than the new offer asset [k] *)
    assert (Hz1 : forall x, In x (map snd R) -> asset_eqb x k = false -> bal w1 x (w_rtr w) = 0).
    { intros x Hx Exk.
      destruct (asset_eqb x a) eqn:Exa.
      { apply LedgerProofs.asset_eqb_eq in Exa. subst x. rewrite Bo, N.eqb_refl. reflexivity. }
      rewrite (Bz x _ Exa Exk). apply Hz; [right; exact Hx | exact Exa]. }
    destruct (IH pairs' w w1 rcv k w' HR H Hch C1 Hrr HF' Hnp' Hres1 Hz1)
      as (q & Hq2 & Hdel & Hzero & Hframe).
    rewrite Hamt in Hq2.
    exists q. split.
    { change ((a, k) :: R) with ([(a, k)] ++ R). rewrite q_router_simulate_app, Hq. cbn [bind]. exact Hq2. }
    assert (Elast : last ((a, k) :: R) (a, a) = last R (k, k)).
    { change (last ((a, k) :: R) (a, a)) with (last R (a, a)). apply last_default. exact HR. }
    rewrite Elast.
    split.
    { rewrite Hdel, Hrcv1. reflexivity. }
    split.
    { intros x [<-|Hx]; [|apply Hzero; exact Hx].
      destruct (asset_in_dec a (route_assets k R)) as [Hin|Hanin]; [apply Hzero; exact Hin|].
      rewrite (Hframe a (w_rtr w) Hanin), Bo, N.eqb_refl. reflexivity. }
    intros z ad Hzn.
    assert (Hzn' : ~ In z (route_assets k R)) by (intros X; apply Hzn; right; exact X).
    rewrite (Hframe z ad Hzn').
    apply Bz; apply LedgerProofs.asset_eqb_neq; intros ->; apply Hzn; [left; reflexivity|].
    right. left. reflexivity.
Qed.

(* ------------------------------------------------------------------------------------------ *)
(* the theorems                                                                                *)
(* ------------------------------------------------------------------------------------------ *)
Theorem route_delivers_quote_revisit : forall ops w sender a0 to w' amount pairs,
  ops <> [] ->
  router_hops w ops (match to with Some t => t | None => sender end) = Ok w' ->
  chain_from a0 ops ->
  let rcv := match to with Some t => t | None => sender end in
  rcv <> w_rtr w ->
  length pairs = length ops ->
  (forall i o p, nth_error ops i = Some o -> nth_error pairs i = Some p -> hop_ok w rcv o p) ->
  NoDup pairs ->                                               (* hops use distinct pairs; assets may repeat *)
  asset_balance w a0 (w_rtr w) = Ok amount ->                   (* the router holds the input ... *)
  (forall x, In x (map snd ops) -> asset_eqb x a0 = false -> bal w x (w_rtr w) = 0) ->  (* ... and none of the OTHER route assets *)
  exists q, q_router_simulate w amount ops = Ok q /\
            bal w' (snd (last ops (a0, a0))) rcv = bal w (snd (last ops (a0, a0))) rcv + q /\
            (forall x, In x (route_assets a0 ops) -> bal w' x (w_rtr w) = 0).
Proof.
  intros ops w sender a0 to w' amount pairs Hne H Hch rcv Hrr Hlen Hok Hnp Hb Hz.
  fold rcv in H.
  pose proof (forall2_of_nth (hop_ok w rcv) ops pairs Hlen Hok) as HF.
  destruct (route_inv_revisit ops pairs w w rcv a0 w' Hne H Hch (same_config_refl w) Hrr HF Hnp
              (fun _ _ _ => eq_refl) Hz) as (q & Hq & Hdel & Hzero & _).
  apply asset_balance_bal in Hb. rewrite <- Hb in Hq.
  exists q. split; [exact Hq|]. split; [exact Hdel | exact Hzero].
Qed.

Theorem router_exec_ops_delivers_quote_revisit : forall ops w sender a0 to w' amount pairs,
  router_exec_ops w sender ops None to = Ok w' ->
  chain_from a0 ops ->
  let rcv := match to with Some t => t | None => sender end in
  rcv <> w_rtr w -> length pairs = length ops ->
  (forall i o p, nth_error ops i = Some o -> nth_error pairs i = Some p -> hop_ok w rcv o p) ->
  NoDup pairs ->
  asset_balance w a0 (w_rtr w) = Ok amount ->
  (forall x, In x (map snd ops) -> asset_eqb x a0 = false -> bal w x (w_rtr w) = 0) ->
  exists q, q_router_simulate_ops w amount ops = Ok q /\
            bal w' (snd (last ops (a0, a0))) rcv = bal w (snd (last ops (a0, a0))) rcv + q /\
            (forall x, In x (route_assets a0 ops) -> bal w' x (w_rtr w) = 0).
Proof.
  intros ops w sender a0 to w' amount pairs H Hch rcv Hrr Hlen Hok Hnp Hb Hz.
  destruct ops as [|op0 ops0]; [discriminate|].
  unfold router_exec_ops in H. bnd H u Hu. cbv zeta in H.
  assert (Hne : op0 :: ops0 <> []) by discriminate.
  destruct (route_delivers_quote_revisit (op0 :: ops0) w sender a0 to w' amount pairs Hne H Hch Hrr Hlen Hok Hnp Hb Hz)
    as (q & Hq & Hrest).
  exists q. split; [exact Hq | exact Hrest].
Qed.

(* ------------------------------------------------------------------------------------------ *)
(* non-vacuity: a concrete route that really revisits an asset                                  *)
(* ------------------------------------------------------------------------------------------ *)
From HT Require Import World.Observe.

(* from [init_world]: user 1000 (the factory owner) registers denom 0, creates the triangle of pairs
   5 = (native 0, token 2), 7 = (native 0, token 3), 9 = (token 2, token 3) and provisions each of them;
   user 1001 then sends 5000 of native 0 to the router (contract 1) *)
Definition rv_L : layout := mkLayout 3 2 3 4.
Definition rv_w0 : world := init_world rv_L 1000000000000 1000 (fun _ => 6).
Definition rv_setup : list op :=
  [ OFacAddNative 1000 0 6;
    OFacCreatePair 1000 (ANative 0) (AToken 2) [1000] 0 0 None None;
    OIncreaseAllowance 2 1000 5 1000000;
    OProvide 5 1000 [(0, 1000000)] (ANative 0) 1000000 (AToken 2) 1000000 None None;
    OFacCreatePair 1000 (ANative 0) (AToken 3) [1000] 0 0 None None;
    OIncreaseAllowance 3 1000 7 1000000;
    OProvide 7 1000 [(0, 1000000)] (ANative 0) 1000000 (AToken 3) 1000000 None None;
    OFacCreatePair 1000 (AToken 2) (AToken 3) [1000] 0 0 None None;
    OIncreaseAllowance 2 1000 9 2000000;
    OIncreaseAllowance 3 1000 9 1000000;
    OProvide 9 1000 [] (AToken 2) 2000000 (AToken 3) 1000000 None None;
    OBankSend 1001 1 [(0, 5000)] ].
Definition rv_w : world := run rv_w0 rv_setup.
(* the cycle native 0 -> token 2 -> token 3 -> native 0, through the pairs 5, 9, 7, paid to user 1002 *)
Definition rv_ops : list (asset * asset) :=
  [(ANative 0, AToken 2); (AToken 2, AToken 3); (AToken 3, ANative 0)].
Definition rv_pairs : list addr := [5; 9; 7].
Definition rv_rcv : addr := 1002.

Lemma rv_hop_ok : forall i o p, nth_error rv_ops i = Some o -> nth_error rv_pairs i = Some p ->
  hop_ok rv_w rv_rcv o p.
Proof.
  intros i o p Ho Hp.
  unfold rv_ops in Ho. unfold rv_pairs in Hp.
  destruct i as [|[|[|i]]]; cbn [nth_error] in Ho, Hp; try (destruct i; discriminate Ho);
    injection Ho as Ho; injection Hp as Hp; subst o p; unfold hop_ok; cbn [fst snd].
  - eexists; eexists. split; [vm_compute; reflexivity|]. split; [vm_compute; reflexivity|].
    split; [vm_compute; reflexivity|]. split; [vm_compute; reflexivity|].
    split; [vm_compute; intros E; discriminate E|]. split; [vm_compute; intros E; discriminate E|].
    left. split; vm_compute; reflexivity.
  - eexists; eexists. split; [vm_compute; reflexivity|]. split; [vm_compute; reflexivity|].
    split; [vm_compute; reflexivity|]. split; [vm_compute; reflexivity|].
    split; [vm_compute; intros E; discriminate E|]. split; [vm_compute; intros E; discriminate E|].
    left. split; vm_compute; reflexivity.
  - eexists; eexists. split; [vm_compute; reflexivity|]. split; [vm_compute; reflexivity|].
    split; [vm_compute; reflexivity|]. split; [vm_compute; reflexivity|].
    split; [vm_compute; intros E; discriminate E|]. split; [vm_compute; intros E; discriminate E|].
    right. split; vm_compute; reflexivity.
Qed.

(* every hypothesis of [route_delivers_quote_revisit] holds of this route (with [to = Some rv_rcv],
   [a0 = ANative 0], [amount = 5000]); the route revisits its input asset, so [RouteNProofs.route_delivers_quote]
   does not apply; and the conclusion, with the quote 2453, is confirmed by evaluation *)
Example route_revisit_example :
  exists w',
    rv_ops <> [] /\
    router_hops rv_w rv_ops rv_rcv = Ok w' /\
    chain_from (ANative 0) rv_ops /\
    rv_rcv <> w_rtr rv_w /\
    length rv_pairs = length rv_ops /\
    (forall i o p, nth_error rv_ops i = Some o -> nth_error rv_pairs i = Some p -> hop_ok rv_w rv_rcv o p) /\
    NoDup rv_pairs /\
    asset_balance rv_w (ANative 0) (w_rtr rv_w) = Ok 5000 /\
    (forall x, In x (map snd rv_ops) -> asset_eqb x (ANative 0) = false -> bal rv_w x (w_rtr rv_w) = 0) /\
    ~ NoDup (route_assets (ANative 0) rv_ops) /\
    snd (last rv_ops (ANative 0, ANative 0)) = ANative 0 /\
    q_router_simulate rv_w 5000 rv_ops = Ok 2453 /\
    bal w' (ANative 0) rv_rcv = bal rv_w (ANative 0) rv_rcv + 2453 /\
    bal w' (ANative 0) (w_rtr rv_w) = 0 /\ bal w' (AToken 2) (w_rtr rv_w) = 0 /\ bal w' (AToken 3) (w_rtr rv_w) = 0.
Proof.
  destruct (router_hops rv_w rv_ops rv_rcv) as [w'|e] eqn:E; [|vm_compute in E; discriminate E].
  exists w'.
  split; [discriminate|].
  split; [reflexivity|].
  split; [cbn; repeat split|].
  split; [vm_compute; intros X; discriminate X|].
  split; [reflexivity|].
  split; [exact rv_hop_ok|].
  split.
  { unfold rv_pairs. repeat constructor; cbn [In]; intros X;
      repeat (destruct X as [X|X]; [discriminate X|]); exact X. }
  split; [vm_compute; reflexivity|].
  split.
  { intros x [<-|[<-|[<-|[]]]] Ex; [vm_compute; reflexivity | vm_compute; reflexivity | vm_compute in Ex; discriminate Ex]. }
  split.
  { intros X. inversion X as [|y l Hnin _ Ey]. apply Hnin. cbn. right. right. left. reflexivity. }
  split; [reflexivity|].
  split; [vm_compute; reflexivity|].
  vm_compute in E. injection E as <-.
  repeat split; vm_compute; reflexivity.
Qed.

(* the general theorem applied to the example: the same facts, obtained from the proof rather than by evaluation *)
Example route_revisit_example_by_theorem : forall w', router_hops rv_w rv_ops rv_rcv = Ok w' ->
  exists q, q_router_simulate rv_w 5000 rv_ops = Ok q /\
            bal w' (ANative 0) rv_rcv = bal rv_w (ANative 0) rv_rcv + q /\
            (forall x, In x (route_assets (ANative 0) rv_ops) -> bal w' x (w_rtr rv_w) = 0).
Proof.
  intros w' H.
  destruct route_revisit_example as (w2 & Hne & H2 & Hch & Hrr & Hlen & Hok & Hnp & Hb & Hz & _).
  exact (route_delivers_quote_revisit rv_ops rv_w rv_rcv (ANative 0) (Some rv_rcv) w' 5000 rv_pairs
           Hne H Hch Hrr Hlen Hok Hnp Hb Hz).
Qed.

Print Assumptions route_delivers_quote_revisit.
Print Assumptions router_exec_ops_delivers_quote_revisit.
Print Assumptions route_revisit_example.
Print Assumptions route_revisit_example_by_theorem.
