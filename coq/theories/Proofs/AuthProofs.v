(* Authorisation (who may call what), ownership history, "a failed call changes nothing",
   and C09 (declared native amount = attached coin) over the world model. *)
From HT Require Import Base.Prelude Num.Arith Amm.Formulas Amm.Guards World.World.

(* ------------------------------------------------------------------------------------ *)
(* generic inversion machinery                                                           *)
(* ------------------------------------------------------------------------------------ *)

Lemma Ok_inj {A} (a b : A) : Ok a = Ok b -> a = b.
Proof. congruence. Qed.

Lemma negb_eqb_false (a b : N) : negb (a =? b) = false -> a = b.
Proof. intros H. apply negb_false_iff in H. now apply N.eqb_eq in H. Qed.

Lemma asset_eqb_eq (x y : asset) : asset_eqb x y = true -> x = y.
Proof.
  destruct x, y; cbn; intros H; try discriminate; apply N.eqb_eq in H; now subst.
Qed.

(* one inversion step on some hypothesis [_ = Ok _] *)
Ltac inv_step :=
  match goal with
  | H : Err _ = Ok _ |- _ => discriminate H
  | H : Ok _ = Ok _ |- _ => apply Ok_inj in H; subst
  | H : bind _ _ = Ok _ |- _ =>
      let a := fresh "v" in let E := fresh "E" in
      apply bind_ok in H; destruct H as (a & E & H); cbv beta in H
  | H : (if ?c then _ else _) = Ok _ |- _ => destruct c eqn:?
  | H : (match ?c with _ => _ end) = Ok _ |- _ => destruct c eqn:?
  end.
Ltac inv_all := repeat inv_step.

(* ------------------------------------------------------------------------------------ *)
(* ownership is preserved by everything except UpdateConfig                              *)
(* ------------------------------------------------------------------------------------ *)

Definition same_owner (w w' : world) : Prop := w_owner w' = w_owner w.

Lemma same_owner_refl w : same_owner w w.
Proof. reflexivity. Qed.
Lemma same_owner_trans w1 w2 w3 : same_owner w1 w2 -> same_owner w2 w3 -> same_owner w1 w3.
Proof. unfold same_owner; congruence. Qed.

Lemma set_bank_owner w b : w_owner (set_bank w b) = w_owner w.       Proof. reflexivity. Qed.
Lemma set_token_owner w a t : w_owner (set_token w a t) = w_owner w. Proof. reflexivity. Qed.
Lemma set_pair_owner w a p : w_owner (set_pair w a p) = w_owner w.   Proof. reflexivity. Qed.
Lemma set_natives_owner w n : w_owner (set_natives w n) = w_owner w. Proof. reflexivity. Qed.
Lemma set_reg_owner w r : w_owner (set_reg w r) = w_owner w.         Proof. reflexivity. Qed.
Lemma set_next_owner w n : w_owner (set_next w n) = w_owner w.       Proof. reflexivity. Qed.
Lemma set_owner_owner w o : w_owner (set_owner w o) = o.             Proof. reflexivity. Qed.

(* turn a known successful call into an equation between owners; extended below *)
Ltac own_fact H := fail.
Ltac own_facts :=
  repeat match goal with
         | H : _ = Ok _ |- _ => own_fact H
         end.
Ltac own_fin :=
  own_facts;
  cbn [fst snd w_owner set_bank set_token set_pair set_natives set_reg set_next] in *;
  try congruence.
Ltac own_solve := inv_all; own_fin.

Lemma bank_send_owner w from to cs w' : bank_send w from to cs = Ok w' -> w_owner w' = w_owner w.
Proof. intros H. unfold bank_send in H. own_solve. Qed.

Ltac own_fact H ::=
  first [ apply bank_send_owner in H ].

Lemma move_funds_owner w from to funds w' : move_funds w from to funds = Ok w' -> w_owner w' = w_owner w.
Proof. intros H. unfold move_funds in H. own_solve. Qed.

Lemma with_token_owner w ta f w' : with_token w ta f = Ok w' -> w_owner w' = w_owner w.
Proof. intros H. unfold with_token in H. own_solve. Qed.

Ltac own_fact H ::=
  first [ apply bank_send_owner in H | apply move_funds_owner in H | apply with_token_owner in H ].

Lemma pay_asset_owner w from a n to w' : pay_asset w from a n to = Ok w' -> w_owner w' = w_owner w.
Proof. intros H. unfold pay_asset in H. own_solve. Qed.

Ltac own_fact H ::=
  first [ apply bank_send_owner in H | apply move_funds_owner in H | apply with_token_owner in H
        | apply pay_asset_owner in H ].

Lemma pair_swap_owner w p ps funds sender offer amount bp ms to r :
  pair_swap w p ps funds sender offer amount bp ms to = Ok r -> w_owner (fst r) = w_owner w.
Proof. intros H. unfold pair_swap in H. cbv beta zeta in H. own_solve. Qed.

Lemma pair_withdraw_owner w p ps sender amount w' :
  pair_withdraw w p ps sender amount = Ok w' -> w_owner w' = w_owner w.
Proof. intros H. unfold pair_withdraw in H. cbv beta zeta in H. own_solve. Qed.

Lemma pair_provide_owner w p ps c funds l0 n0 l1 n1 tol rcv w' :
  pair_provide w p ps c funds l0 n0 l1 n1 tol rcv = Ok w' -> w_owner w' = w_owner w.
Proof. intros H. unfold pair_provide in H. cbv beta zeta in H. own_solve. Qed.

Lemma pair_update_decimals_owner w p ps c dn d0 d1 w' :
  pair_update_decimals w p ps c dn d0 d1 = Ok w' -> w_owner w' = w_owner w.
Proof. intros H. unfold pair_update_decimals in H. cbv beta zeta in H. own_solve. Qed.

Ltac own_fact H ::=
  first [ apply bank_send_owner in H | apply move_funds_owner in H | apply with_token_owner in H
        | apply pay_asset_owner in H | apply pair_swap_owner in H | apply pair_withdraw_owner in H
        | apply pair_provide_owner in H | apply pair_update_decimals_owner in H ].

Lemma pair_receive_owner w p ps c funds cs ca h w' :
  pair_receive w p ps c funds cs ca h = Ok w' -> w_owner w' = w_owner w.
Proof. intros H. unfold pair_receive in H. cbv beta zeta in H. own_solve. Qed.

Lemma fac_create_pair_owner w c a0 a1 wl m0 m1 cm ld w' :
  fac_create_pair w c a0 a1 wl m0 m1 cm ld = Ok w' -> w_owner w' = w_owner w.
Proof. intros H. unfold fac_create_pair in H. cbv beta zeta in H. own_solve. Qed.

Ltac own_fact H ::=
  first [ apply bank_send_owner in H | apply move_funds_owner in H | apply with_token_owner in H
        | apply pay_asset_owner in H | apply pair_swap_owner in H | apply pair_withdraw_owner in H
        | apply pair_provide_owner in H | apply pair_update_decimals_owner in H
        | apply pair_receive_owner in H | apply fac_create_pair_owner in H ].

Lemma fac_update_records_owner dn k todo : forall w done w',
  fac_update_records w dn k todo done = Ok w' -> w_owner w' = w_owner w.
Proof.
  induction todo as [|r todo IH]; intros w done w' H.
  - cbn [fac_update_records] in H. own_solve.
  - cbn [fac_update_records] in H. cbv beta zeta in H.
    inv_step. inv_step. apply IH in H.
    assert (w_owner v = w_owner w) by own_solve.
    assert (w_owner v0 = w_owner v) by own_solve.
    congruence.
Qed.

Lemma fac_add_native_owner w c dn k w' : fac_add_native w c dn k = Ok w' -> w_owner w' = w_owner w.
Proof.
  intros H. unfold fac_add_native in H. cbv beta zeta in H. inv_all.
  - apply fac_update_records_owner in H. exact H.
  - reflexivity.
Qed.

Lemma router_hop_owner w offer ask to w' : router_hop w offer ask to = Ok w' -> w_owner w' = w_owner w.
Proof. intros H. unfold router_hop in H. cbv beta zeta in H. own_solve. Qed.

Ltac own_fact H ::=
  first [ apply bank_send_owner in H | apply move_funds_owner in H | apply with_token_owner in H
        | apply pay_asset_owner in H | apply pair_swap_owner in H | apply pair_withdraw_owner in H
        | apply pair_provide_owner in H | apply pair_update_decimals_owner in H
        | apply pair_receive_owner in H | apply fac_create_pair_owner in H
        | apply fac_add_native_owner in H | apply router_hop_owner in H ].

Lemma router_hops_cons2 w p q rest to :
  router_hops w (p :: q :: rest) to =
  (let* w1 := router_hop w (fst p) (snd p) None in router_hops w1 (q :: rest) to).
Proof. destruct p; reflexivity. Qed.

Lemma router_hops_owner ops : forall w to w', router_hops w ops to = Ok w' -> w_owner w' = w_owner w.
Proof.
  induction ops as [|p ops IH]; intros w to w' H.
  - cbn in H. own_solve.
  - destruct ops as [|q rest].
    + destruct p as [o a]. cbn [router_hops] in H. own_solve.
    + rewrite router_hops_cons2 in H. inv_step. apply IH in H. own_fin.
Qed.

Lemma router_assert_min_owner w t prev m r w' : router_assert_min w t prev m r = Ok w' -> w' = w.
Proof. intros H. unfold router_assert_min in H. inv_all. reflexivity. Qed.

Lemma router_exec_ops_owner w s ops m to w' : router_exec_ops w s ops m to = Ok w' -> w_owner w' = w_owner w.
Proof.
  intros H. unfold router_exec_ops in H. cbv beta zeta in H.
  destruct ops as [|p ops]; [discriminate|].
  inv_step. destruct m as [m|].
  - inv_step. inv_step. apply router_hops_owner in E1. apply router_assert_min_owner in H. congruence.
  - apply router_hops_owner in H. exact H.
Qed.

Ltac own_fact H ::=
  first [ apply bank_send_owner in H | apply move_funds_owner in H | apply with_token_owner in H
        | apply pay_asset_owner in H | apply pair_swap_owner in H | apply pair_withdraw_owner in H
        | apply pair_provide_owner in H | apply pair_update_decimals_owner in H
        | apply pair_receive_owner in H | apply fac_create_pair_owner in H
        | apply fac_add_native_owner in H | apply router_hop_owner in H
        | apply router_exec_ops_owner in H ].

Lemma cw20_send_owner w ta s target n h w' : cw20_send w ta s target n h = Ok w' -> w_owner w' = w_owner w.
Proof. intros H. unfold cw20_send in H. cbv beta zeta in H. own_solve. Qed.

Ltac own_fact H ::=
  first [ apply bank_send_owner in H | apply move_funds_owner in H | apply with_token_owner in H
        | apply pay_asset_owner in H | apply pair_swap_owner in H | apply pair_withdraw_owner in H
        | apply pair_provide_owner in H | apply pair_update_decimals_owner in H
        | apply pair_receive_owner in H | apply fac_create_pair_owner in H
        | apply fac_add_native_owner in H | apply router_hop_owner in H
        | apply router_exec_ops_owner in H | apply cw20_send_owner in H
        | apply router_assert_min_owner in H ].

Lemma cw20_send_from_owner w ta sp ow target n h w' : cw20_send_from w ta sp ow target n h = Ok w' -> w_owner w' = w_owner w.
Proof. intros H. unfold cw20_send_from in H. cbv beta zeta in H. own_solve. Qed.

Ltac own_fact H ::=
  first [ apply bank_send_owner in H | apply move_funds_owner in H | apply with_token_owner in H
        | apply pay_asset_owner in H | apply pair_swap_owner in H | apply pair_withdraw_owner in H
        | apply pair_provide_owner in H | apply pair_update_decimals_owner in H
        | apply pair_receive_owner in H | apply fac_create_pair_owner in H
        | apply fac_add_native_owner in H | apply router_hop_owner in H
        | apply router_exec_ops_owner in H | apply cw20_send_owner in H
        | apply cw20_send_from_owner in H
        | apply router_assert_min_owner in H ].

(* ------------------------------------------------------------------------------------ *)
(* privileged factory entry points                                                       *)
(* ------------------------------------------------------------------------------------ *)

Theorem fac_update_config_auth : forall w c o w', fac_update_config w c o = Ok w' ->
  c = w_owner w /\ w_owner w' = match o with Some x => x | None => w_owner w end.
Proof.
  intros w c o w' H. unfold fac_update_config in H.
  destruct (negb (c =? w_owner w)) eqn:E; [discriminate|].
  apply negb_eqb_false in E. apply Ok_inj in H. subst w'. split; [exact E|].
  destruct o; reflexivity.
Qed.

Theorem fac_create_pair_auth : forall w c a0 a1 wl m0 m1 cm ld w',
  fac_create_pair w c a0 a1 wl m0 m1 cm ld = Ok w' -> c = w_owner w.
Proof.
  intros w c a0 a1 wl m0 m1 cm ld w' H. unfold fac_create_pair in H.
  destruct (negb (c =? w_owner w)) eqn:E; [discriminate|]. now apply negb_eqb_false in E.
Qed.

Theorem fac_add_native_auth : forall w c dn k w', fac_add_native w c dn k = Ok w' -> c = w_owner w.
Proof.
  intros w c dn k w' H. unfold fac_add_native in H. cbv beta zeta in H.
  destruct (negb (c =? w_owner w)) eqn:E; [discriminate|]. now apply negb_eqb_false in E.
Qed.

Theorem fac_migrate_auth : forall w c ct w', fac_migrate_pair w c ct = Ok w' -> c = w_owner w /\ w' = w.
Proof.
  intros w c ct w' H. unfold fac_migrate_pair in H.
  destruct (negb (c =? w_owner w)) eqn:E; [discriminate|]. apply negb_eqb_false in E.
  destruct (w_pairs w ct); [|discriminate]. apply Ok_inj in H. auto.
Qed.

(* ------------------------------------------------------------------------------------ *)
(* pair                                                                                  *)
(* ------------------------------------------------------------------------------------ *)

Theorem pair_update_decimals_auth : forall w p ps c dn d0 d1 w',
  pair_update_decimals w p ps c dn d0 d1 = Ok w' -> c = p_fac ps.
Proof.
  intros w p ps c dn d0 d1 w' H. unfold pair_update_decimals in H.
  destruct (negb (c =? p_fac ps)) eqn:E; [discriminate|]. now apply negb_eqb_false in E.
Qed.

Theorem pair_receive_withdraw_auth : forall w p ps c funds cs ca w',
  pair_receive w p ps c funds cs ca HWithdraw = Ok w' -> c = p_lp ps.
Proof.
  intros w p ps c funds cs ca w' H. unfold pair_receive in H.
  destruct (negb (c =? p_lp ps)) eqn:E; [discriminate|]. now apply negb_eqb_false in E.
Qed.

Theorem pair_receive_swap_auth : forall w p ps c funds cs ca offer amount bp ms to w',
  pair_receive w p ps c funds cs ca (HSwap offer amount bp ms to) = Ok w' ->
  (p_a0 ps = AToken c \/ p_a1 ps = AToken c) /\ offer = AToken c /\ amount = ca.
Proof.
  intros w p ps c funds cs ca offer amount bp ms to w' H. unfold pair_receive in H. cbv beta zeta in H.
  destruct (negb (amount =? ca)) eqn:E1; [discriminate|]. apply negb_eqb_false in E1.
  inv_step. inv_step.
  destruct (negb (asset_eqb (p_a0 ps) (AToken c) || asset_eqb (p_a1 ps) (AToken c))) eqn:E2; [discriminate|].
  destruct (negb (asset_eqb offer (AToken c))) eqn:E3; [discriminate|].
  apply negb_false_iff in E2, E3. apply asset_eqb_eq in E3.
  apply orb_true_iff in E2.
  split; [|split; assumption].
  destruct E2 as [E2|E2]; apply asset_eqb_eq in E2; auto.
Qed.

Theorem pair_receive_other_rejected : forall w p ps c funds cs ca h,
  (h = HGarbage \/ exists ops m to, h = HRouterOps ops m to) ->
  exists e, pair_receive w p ps c funds cs ca h = Err e.
Proof.
  intros w p ps c funds cs ca h [->|(ops & m & to & ->)]; exists EStd; reflexivity.
Qed.

(* ------------------------------------------------------------------------------------ *)
(* router internal messages                                                              *)
(* ------------------------------------------------------------------------------------ *)

Theorem router_op_auth : forall w c funds offer ask to w',
  exec w (ORouterOp c funds offer ask to) = Ok w' -> c = w_rtr w.
Proof.
  intros w c funds offer ask to w' H. unfold exec in H. inv_step.
  destruct (negb (c =? w_rtr w)) eqn:E1; [discriminate|]. now apply negb_eqb_false in E1.
Qed.

Theorem router_assert_min_auth : forall w c t prev m r w',
  exec w (ORouterAssertMin c t prev m r) = Ok w' -> c = w_rtr w /\ w' = w.
Proof.
  intros w c t prev m r w' H. unfold exec in H.
  destruct (negb (c =? w_rtr w)) eqn:E1; [discriminate|]. apply negb_eqb_false in E1.
  apply router_assert_min_owner in H. auto.
Qed.

(* ------------------------------------------------------------------------------------ *)
(* exec-level corollaries                                                                *)
(* ------------------------------------------------------------------------------------ *)

Theorem exec_fac_auth : forall w o w', exec w o = Ok w' ->
  match o with
  | OFacUpdateConfig c _ | OFacCreatePair c _ _ _ _ _ _ _ | OFacAddNative c _ _ | OFacMigrate c _ => c = w_owner w
  | _ => True end.
Proof.
  intros w o w' H. destruct o; try exact I; unfold exec in H.
  - eapply fac_update_config_auth; exact H.
  - eapply fac_create_pair_auth; exact H.
  - eapply fac_add_native_auth; exact H.
  - eapply fac_migrate_auth; exact H.
Qed.

Theorem exec_pair_update_decimals_auth : forall w p c dn d0 d1 w',
  exec w (OPairUpdateDecimals p c dn d0 d1) = Ok w' ->
  exists ps, w_pairs w p = Some ps /\ c = p_fac ps.
Proof.
  intros w p c dn d0 d1 w' H. unfold exec in H.
  destruct (w_pairs w p) as [ps|]; [|discriminate].
  exists ps. split; [reflexivity|]. eapply pair_update_decimals_auth; exact H.
Qed.

(* ------------------------------------------------------------------------------------ *)
(* failed step                                                                           *)
(* ------------------------------------------------------------------------------------ *)

Theorem step_failed_unchanged : forall w o e, exec w o = Err e -> step w o = w.
Proof. intros w o e H. unfold step. rewrite H. reflexivity. Qed.

(* ------------------------------------------------------------------------------------ *)
(* ownership history                                                                     *)
(* ------------------------------------------------------------------------------------ *)

Lemma exec_owner w o w' : exec w o = Ok w' ->
  match o with OFacUpdateConfig _ _ => True | _ => w_owner w' = w_owner w end.
Proof.
  intros H. destruct o; try exact I; unfold exec in H; own_solve.
  unfold fac_migrate_pair in H. own_solve.
Qed.

Theorem owner_changes_only_by_update_config : forall w o, w_owner (step w o) <> w_owner w ->
  exists x, o = OFacUpdateConfig (w_owner w) (Some x) /\ w_owner (step w o) = x.
Proof.
  intros w o Hne. unfold step in *. destruct (exec w o) as [w'|e] eqn:E; [|congruence].
  pose proof (exec_owner _ _ _ E) as Ho.
  destruct o; try contradiction.
  unfold exec in E. apply fac_update_config_auth in E. destruct E as [-> E].
  destruct new_owner as [x|]; [|contradiction].
  exists x. auto.
Qed.

Lemma step_owner_other w o :
  match o with OFacUpdateConfig _ _ => False | _ => True end -> w_owner (step w o) = w_owner w.
Proof.
  intros H. destruct (N.eq_dec (w_owner (step w o)) (w_owner w)) as [e|n]; [exact e|].
  apply owner_changes_only_by_update_config in n. destruct n as (x & -> & _). contradiction.
Qed.

Theorem owner_after_run : forall ops w,
  (forall o, In o ops -> match o with OFacUpdateConfig _ _ => False | _ => True end) ->
  w_owner (run w ops) = w_owner w.
Proof.
  induction ops as [|o ops IH]; intros w H.
  - reflexivity.
  - change (run w (o :: ops)) with (run (step w o) ops).
    rewrite IH.
    + apply step_owner_other. apply H. left. reflexivity.
    + intros o' Hin. apply H. right. exact Hin.
Qed.

(* ------------------------------------------------------------------------------------ *)
(* C09                                                                                   *)
(* ------------------------------------------------------------------------------------ *)

Theorem funds_of_spec : forall d funds v, funds_of (ANative d) funds v = Ok tt <->
  (exists c, find (fun c => fst c =? d) funds = Some c /\ snd c = v) \/ (find (fun c => fst c =? d) funds = None /\ v = 0).
Proof.
  intros d funds v. unfold funds_of.
  destruct (find (fun c => fst c =? d) funds) as [c|].
  - destruct (v =? snd c) eqn:E.
    + apply N.eqb_eq in E. split; [|reflexivity]. intros _. left. exists c. auto.
    + apply N.eqb_neq in E. split; [discriminate|].
      intros [(c' & H1 & H2)|[H1 _]]; [|discriminate]. apply (f_equal (fun x => match x with Some y => snd y | None => 0 end)) in H1.
      cbn in H1. congruence.
  - destruct (v =? 0) eqn:E.
    + apply N.eqb_eq in E. split; [|reflexivity]. intros _. right. auto.
    + apply N.eqb_neq in E. split; [discriminate|].
      intros [(c' & H1 & H2)|[_ H1]]; [discriminate|contradiction].
Qed.

Theorem funds_of_token : forall t funds v, funds_of (AToken t) funds v = Ok tt.
Proof. reflexivity. Qed.

Theorem pair_swap_funds : forall w p ps funds sender offer amount bp ms to r,
  pair_swap w p ps funds sender offer amount bp ms to = Ok r -> funds_of offer funds amount = Ok tt.
Proof.
  intros w p ps funds sender offer amount bp ms to r H. unfold pair_swap in H.
  inv_step. destruct v. exact E.
Qed.

Theorem pair_provide_funds : forall w p ps c funds l0 n0 l1 n1 tol rcv w',
  pair_provide w p ps c funds l0 n0 l1 n1 tol rcv = Ok w' ->
  funds_of l0 funds n0 = Ok tt /\ funds_of l1 funds n1 = Ok tt.
Proof.
  intros w p ps c funds l0 n0 l1 n1 tol rcv w' H. unfold pair_provide in H.
  inv_step. inv_step. destruct v, v0. auto.
Qed.

Theorem exec_swap_native_only : forall w p c funds offer amount bp ms to w',
  exec w (OSwap p c funds offer amount bp ms to) = Ok w' ->
  asset_is_native offer = true /\ funds_of offer funds amount = Ok tt.
Proof.
  intros w p c funds offer amount bp ms to w' H. unfold exec in H.
  destruct (w_pairs w p) as [ps|]; [|discriminate].
  inv_step.
  destruct (negb (asset_is_native offer)) eqn:E1; [discriminate|]. apply negb_false_iff in E1.
  inv_step. split; [exact E1|]. eapply pair_swap_funds; exact E0.
Qed.

Theorem exec_provide_funds : forall w p c funds l0 n0 l1 n1 tol rcv w',
  exec w (OProvide p c funds l0 n0 l1 n1 tol rcv) = Ok w' ->
  funds_of l0 funds n0 = Ok tt /\ funds_of l1 funds n1 = Ok tt.
Proof.
  intros w p c funds l0 n0 l1 n1 tol rcv w' H. unfold exec in H.
  destruct (w_pairs w p) as [ps|]; [|discriminate].
  inv_step. eapply pair_provide_funds; exact H.
Qed.

Print Assumptions fac_update_config_auth.
Print Assumptions fac_create_pair_auth.
Print Assumptions fac_add_native_auth.
Print Assumptions fac_migrate_auth.
Print Assumptions pair_update_decimals_auth.
Print Assumptions pair_receive_withdraw_auth.
Print Assumptions pair_receive_swap_auth.
Print Assumptions pair_receive_other_rejected.
Print Assumptions router_op_auth.
Print Assumptions router_assert_min_auth.
Print Assumptions exec_fac_auth.
Print Assumptions exec_pair_update_decimals_auth.
Print Assumptions step_failed_unchanged.
Print Assumptions owner_changes_only_by_update_config.
Print Assumptions owner_after_run.
Print Assumptions funds_of_spec.
Print Assumptions funds_of_token.
Print Assumptions pair_swap_funds.
Print Assumptions pair_provide_funds.
Print Assumptions exec_swap_native_only.
Print Assumptions exec_provide_funds.
