(* Model of packages/bignumber/src/math.rs (Uint256, Decimal256 over
   bigint::U256) and of the cosmwasm-std Uint128 / Decimal pieces the
   contracts use.  Values are N; every operation that can abort returns
   [res].  One definition per Rust operator, named after it. *)
From HT Require Import Base.Prelude.

(* ---- bigint::U256 : + - * / pow panic on overflow / underflow / zero ---- *)
Definition u256_add (a b : N) : res N := if a + b <? W256 then Ok (a + b) else Err Panic.
Definition u256_sub (a b : N) : res N := if b <=? a then Ok (a - b) else Err Panic.
Definition u256_mul (a b : N) : res N := if a * b <? W256 then Ok (a * b) else Err Panic.
Definition u256_div (a b : N) : res N := if b =? 0 then Err Panic else Ok (a / b).
Definition u256_rem (a b : N) : res N := if b =? 0 then Err Panic else Ok (a mod b).

(* ---- Uint256 (math.rs) ---- *)
Definition uint_add := u256_add.                      (* ops::Add, AddAssign *)
Definition uint_sub := u256_sub.                      (* assert!(self.0 >= rhs.0); self.0 - rhs.0 *)
Definition uint_mul (a b : N) : res N :=              (* ops::Mul<Uint256>: zero shortcut *)
  if (a =? 0) || (b =? 0) then Ok 0 else u256_mul a b.
Definition uint_multiply_ratio (u nom den : N) : res N :=
  if den =? 0 then Err Panic else
  let* p := u256_mul u nom in Ok (p / den).
Definition uint_mul_dec (u d : N) : res N :=          (* Uint256 * Decimal256, Decimal256 * Uint256 *)
  if (u =? 0) || (d =? 0) then Ok 0 else uint_multiply_ratio u d D.
Definition uint_div_dec (u d : N) : res N :=          (* Uint256 / Decimal256 *)
  if d =? 0 then Err Panic else
  if u =? 0 then Ok 0 else uint_multiply_ratio u D d.

(* ---- Decimal256 (math.rs); a decimal is its atomics ---- *)
Definition dec_one : N := D.
Definition dec_percent (x : N) : res N := u256_mul x 10000000000000000.
Definition dec_permille (x : N) : res N := u256_mul x 1000000000000000.
Definition dec_from_ratio (nom den : N) : res N :=
  if den =? 0 then Err Panic else
  let* p := u256_mul nom D in Ok (p / den).
Definition dec_from_uint256 (v : N) : res N := u256_mul v D.
Definition dec_add := u256_add.
Definition dec_sub := u256_sub.
Definition dec_mul (a b : N) : res N := let* p := u256_mul a b in Ok (p / D).
Definition dec_div (a b : N) : res N :=
  if b =? 0 then Err Panic else let* p := u256_mul a D in Ok (p / b).

(* ---- width conversions ---- *)
(* From<u128> for Uint256 builds limbs [low, hi, 0, 0] *)
Definition limbs := (N * N * N * N)%type.
Definition limbs_value (l : limbs) : N :=
  let '(l0, l1, l2, l3) := l in l0 + l1 * W64 + l2 * (W64 * W64) + l3 * (W64 * W64 * W64).
Definition limbs_of (n : N) : limbs :=
  (n mod W64, (n / W64) mod W64, (n / (W64 * W64)) mod W64, n / (W64 * W64 * W64)).
Definition split_u128 (a : N) : N * N := (a / W64, a mod W64).      (* (hi, low) *)
Definition uint_from_u128 (a : N) : limbs :=
  let '(hi, low) := split_u128 a in (low, hi, 0, 0).
(* From<Uint256> for u128: assert limbs 2,3 zero; (hi << 64) + low *)
Definition uint_to_u128_limbs (l : limbs) : res N :=
  let '(l0, l1, l2, l3) := l in
  if (l2 =? 0) && (l3 =? 0) then Ok (l1 * W64 + l0) else Err Panic.
Definition uint_to_u128 (n : N) : res N := uint_to_u128_limbs (limbs_of n).

(* ---- cosmwasm-std Uint128 / Decimal ---- *)
Definition u128_checked_add (a b : N) : res N := if a + b <? W128 then Ok (a + b) else Err EStd.
Definition u128_checked_sub (a b : N) : res N := if b <=? a then Ok (a - b) else Err EStd.
Definition u128_checked_mul (a b : N) : res N := if a * b <? W128 then Ok (a * b) else Err EStd.
(* Uint128::multiply_ratio: full 256-bit product, panics on zero denominator
   and when the quotient does not fit 128 bits *)
Definition u128_multiply_ratio (u nom den : N) : res N :=
  if den =? 0 then Err Panic else
  if u * nom / den <? W128 then Ok (u * nom / den) else Err Panic.
(* Decimal::from_ratio(a, b) = a * 10^18 / b; panics on zero denominator or
   when the result does not fit 128 bits *)
Definition cwdec_from_ratio (a b : N) : res N :=
  if b =? 0 then Err Panic else
  if a * D / b <? W128 then Ok (a * D / b) else Err Panic.
(* Uint128 * Decimal: zero shortcut, then multiply_ratio(atomics, 10^18) *)
Definition u128_mul_dec (u d : N) : res N :=
  if (u =? 0) || (d =? 0) then Ok 0 else u128_multiply_ratio u d D.
(* u128 `*` with overflow-checks = true *)
Definition u128_mul_panic (a b : N) : res N := if a * b <? W128 then Ok (a * b) else Err Panic.
Definition u64_pow10 (e : N) : res N := if 10 ^ e <? W64 then Ok (10 ^ e) else Err Panic.
