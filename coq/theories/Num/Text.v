(* Model of the text, JSON and width conversions of packages/bignumber/src/math.rs:
   bigint's U256::from_dec_str / Display, Decimal256::from_str / Display, the serde impls
   (JSON string of Display; deserialise = from_str / from_dec_str) and Decimal <-> Decimal256.
   Strings are lists of bytes (N). *)
From HT Require Import Base.Prelude Num.Arith.

Definition str := list N.
Definition DOT : N := 46.      (* '.' *)
Definition ZERO : N := 48.     (* '0' *)
Definition QUOTE : N := 34.    (* double quote *)
Definition BACKSLASH : N := 92.

Definition is_digit (b : N) : bool := (48 <=? b) && (b <=? 57).

(* ---- U256::from_dec_str ---- *)
Fixpoint from_dec_loop (s : str) (acc : N) : res N :=
  match s with
  | [] => Ok acc
  | b :: s =>
      let r := acc * 10 in
      if W256 <=? r then Err EStd else
      let r2 := r + (b - 48) in
      if W256 <=? r2 then Err EStd else from_dec_loop s r2
  end.
Definition from_dec_str (s : str) : res N :=
  if forallb is_digit s then from_dec_loop s 0 else Err EStd.

(* positional value of a digit string (independent semantics used by the theorems) *)
Definition denote (s : str) : N := fold_left (fun acc b => acc * 10 + (b - 48)) s 0.

(* ---- Display for U256: canonical decimal numeral ---- *)
Fixpoint digits_fuel (fuel : nat) (n : N) (acc : str) : str :=
  match fuel with
  | O => acc
  | S fuel =>
      let acc' := (48 + n mod 10) :: acc in
      if n / 10 =? 0 then acc' else digits_fuel fuel (n / 10) acc'
  end.
Definition render (n : N) : str := digits_fuel (S (N.size_nat n)) n [].

(* ---- str::split('.') ---- *)
Fixpoint split_dot (s : str) (cur : str) : list str :=
  match s with
  | [] => [rev cur]
  | b :: s => if b =? DOT then rev cur :: split_dot s [] else split_dot s (b :: cur)
  end.

(* ---- Decimal256::from_str ---- *)
Definition dec_from_str (s : str) : res N :=
  match split_dot s [] with
  | [w] =>
      let* whole := from_dec_str w in
      u256_mul whole D
  | [w; f] =>
      let* whole := from_dec_str w in
      let* frac := from_dec_str f in
      if 18 <? N.of_nat (length f) then Err EStd else
      let factor := 10 ^ (18 - N.of_nat (length f)) in
      let* wa := u256_mul whole D in
      let* fa := u256_mul frac factor in
      u256_add wa fa
  | _ => Err EStd
  end.

(* ---- Display for Decimal256 ---- *)
Fixpoint drop_zeros (s : str) : str :=          (* on the reversed string: trim_end_matches('0') *)
  match s with
  | b :: s' => if b =? ZERO then drop_zeros s' else s
  | [] => []
  end.
Definition trim_end_zeros (s : str) : str := rev (drop_zeros (rev s)).
Definition pad18 (s : str) : str := repeat ZERO (18 - length s) ++ s.
Definition dec_render (v : N) : str :=
  let whole := v / D in
  let frac := v mod D in
  if frac =? 0 then render whole
  else render whole ++ [DOT] ++ trim_end_zeros (pad18 (render frac)).

(* ---- serde: serialize_str(to_string) / deserialize_str -> from_str ---- *)
Definition json_encode (s : str) : str := [QUOTE] ++ s ++ [QUOTE].
Definition clean (s : str) : bool := forallb (fun b => negb (b =? QUOTE) && negb (b =? BACKSLASH)) s.
(* only the shape the contracts exchange is modelled: a quoted string without escapes *)
Definition json_decode (j : str) : res str :=
  match j with
  | q :: rest =>
      match rev rest with
      | q' :: body_rev =>
          if (q =? QUOTE) && (q' =? QUOTE) && clean body_rev then Ok (rev body_rev) else Err EStd
      | [] => Err EStd
      end
  | [] => Err EStd
  end.
(* ---- the same decoder WITH JSON escapes (RFC 8259 section 7; what serde-json-wasm hands to the visitor is the
   unescaped string): backslash followed by a double quote, a backslash, a slash, one of b f n r t, or by u and four hex digits.  A code point below
   128 is its byte; any other code point (and each half of a surrogate pair) is represented by the byte 255 - it is
   some non-ASCII text, which no numeral contains, so every such document is refused by the numeral parsers whatever
   the exact UTF-8 bytes (or the decoder's own refusal of a lone surrogate) would have been.  A raw double quote or a
   raw control byte inside the body, a backslash at the end, an unknown escape letter or fewer than four hex digits make
   the document malformed. *)
Definition hexv (b : N) : option N :=
  if (48 <=? b) && (b <=? 57) then Some (b - 48)
  else if (97 <=? b) && (b <=? 102) then Some (b - 87)
  else if (65 <=? b) && (b <=? 70) then Some (b - 55)
  else None.
Definition simple_escape (e : N) : option N :=
  if e =? QUOTE then Some QUOTE else if e =? BACKSLASH then Some BACKSLASH else if e =? 47 then Some 47
  else if e =? 98 then Some 8 else if e =? 102 then Some 12 else if e =? 110 then Some 10
  else if e =? 114 then Some 13 else if e =? 116 then Some 9 else None.
Definition code_point_byte (cp : N) : N := if cp <? 128 then cp else 255.
Fixpoint unescape (s : str) : res str :=
  match s with
  | [] => Ok []
  | c :: rest =>
      if c =? BACKSLASH then
        match rest with
        | [] => Err EStd
        | e :: rest1 =>
            if e =? 117 then
              match rest1 with
              | h1 :: h2 :: h3 :: h4 :: rest2 =>
                  match hexv h1, hexv h2, hexv h3, hexv h4 with
                  | Some a, Some b, Some c', Some d =>
                      match unescape rest2 with
                      | Ok t => Ok (code_point_byte (((a * 16 + b) * 16 + c') * 16 + d) :: t)
                      | Err x => Err x
                      end
                  | _, _, _, _ => Err EStd
                  end
              | _ => Err EStd
              end
            else
              match simple_escape e with
              | Some b => match unescape rest1 with Ok t => Ok (b :: t) | Err x => Err x end
              | None => Err EStd
              end
        end
      else if (c =? QUOTE) || (c <? 32) then Err EStd
      else match unescape rest with Ok t => Ok (c :: t) | Err x => Err x end
  end.
Definition json_decode_esc (j : str) : res str :=
  match j with
  | q :: rest =>
      match rev rest with
      | q' :: body_rev => if (q =? QUOTE) && (q' =? QUOTE) then unescape (rev body_rev) else Err EStd
      | [] => Err EStd
      end
  | [] => Err EStd
  end.
Definition uint_of_json_esc (j : str) : res N := let* s := json_decode_esc j in from_dec_str s.
Definition dec_of_json_esc (j : str) : res N := let* s := json_decode_esc j in dec_from_str s.
(* one byte spelled as the escape \u00XY *)
Definition hexdigit (k : N) : N := if k <? 10 then 48 + k else 87 + k.
Definition esc_byte (b : N) : str := [BACKSLASH; 117; 48; 48; hexdigit (b / 16); hexdigit (b mod 16)].
(* a spelling of a text: every byte written plainly or as an escape *)
Definition spell (l : list (N * bool)) : str := flat_map (fun be : N * bool => if snd be then esc_byte (fst be) else [fst be]) l.

Definition uint_to_json (n : N) : str := json_encode (render n).
Definition uint_of_json (j : str) : res N := let* s := json_decode j in from_dec_str s.
Definition dec_to_json (v : N) : str := json_encode (dec_render v).
Definition dec_of_json (j : str) : res N := let* s := json_decode j in dec_from_str s.

(* ---- Decimal <-> Decimal256 ---- *)
(* From<Decimal256> for Decimal: assert limbs 2,3 zero; Decimal::from_str(to_string()) *)
Definition dec256_to_cwdec (v : N) : res N := uint_to_u128 v.
(* From<Decimal> for Decimal256: Decimal256::from_str(to_string()).unwrap(); cosmwasm's Decimal
   Display renders the same canonical numeral as Decimal256's *)
Definition cwdec_to_dec256 (a : N) : res N := dec_from_str (dec_render a).
