(* Executable checkers used by the correspondence check.  The harness writes,
   for every case, the input AND the implementation's observed result; the
   functions here recompute the model's answer inside Coq ([v_agree]) and
   evaluate the property's decidable checker on the implementation's output
   ([v_prop]); [v_known] marks cases inside a recorded known-finding class. *)
From HT Require Import Base.Prelude Num.Arith Amm.Formulas.

Record verdict := V { v_agree : bool; v_prop : bool; v_known : bool; v_nontriv : bool }.

(* agreement on failures: every refusal is the same observable outcome (the call aborts and the transaction reverts)
   - a Rust panic, a generic StdError, one of the contracts' typed errors.  WHICH error a refused call reports is not
   part of any property, and rewrites that turn one kind into another (a panic into a returned error, a typed variant
   into a generic error with a text) are common and harmless, so the kinds are not compared; the property monitors
   below judge a refusal by whether the INPUT justifies one, not by its kind *)
Definition abort_eqb (e1 e2 : err) : bool := true.
Definition res_eqb {A} (eqb : A -> A -> bool) (r1 r2 : res A) : bool :=
  match r1, r2 with
  | Ok a, Ok b => eqb a b
  | Err e1, Err e2 => abort_eqb e1 e2
  | _, _ => false
  end.
Definition n3_eqb (p q : N * N * N) : bool :=
  let '(a, b, c) := p in let '(a', b', c') := q in (a =? a') && (b =? b') && (c =? c').
Definition n2_eqb (p q : N * N) : bool :=
  let '(a, b) := p in let '(a', b') := q in (a =? a') && (b =? b').
Definition unit_eqb (_ _ : unit) : bool := true.
Fixpoint nlist_eqb (l1 l2 : list N) : bool :=
  match l1, l2 with
  | [], [] => true
  | a :: l1, b :: l2 => (a =? b) && nlist_eqb l1 l2
  | _, _ => false
  end.

(* summary = (indices where model <> implementation,
              indices where the property fails outside every known class,
              indices where it fails inside a known class,
              number of non-trivial cases) *)
Fixpoint summarize_aux (i : N) (vs : list verdict) (acc : list N * list N * list N * N)
  : list N * list N * list N * N :=
  match vs with
  | [] => let '(d, p, k, n) := acc in (rev d, rev p, rev k, n)
  | v :: vs =>
      let '(d, p, k, n) := acc in
      let d' := if v_agree v then d else i :: d in
      let p' := if v_prop v || v_known v then p else i :: p in
      let k' := if negb (v_prop v) && v_known v then i :: k else k in
      let n' := if v_nontriv v then n + 1 else n in
      summarize_aux (i + 1) vs (d', p', k', n')
  end.
Definition summarize (vs : list verdict) := summarize_aux 0 vs ([], [], [], 0).

(* ------------------------------------------------------------------ *)
(* compute_swap                                                        *)
(* ------------------------------------------------------------------ *)
Definition agree_compute_swap x y a c (out : res (N * N * N)) : bool :=
  res_eqb n3_eqb (compute_swap x y a c) out.

(* C06 on the implementation's output *)
Definition c06_ok (x y a c : N) (out : res (N * N * N)) : bool :=
  match out with
  | Ok (n, s, m) =>
      (n * D * (x + a) <? y * a * (D - c) + D * (x + a)) &&
      (y * a * (D - c) <? n * D * (x + a) + D * (x + a)) &&
      (m =? c * (n + m) / D) && (n + m <=? y) &&
      (negb (x =? 0)) && (n + m + s =? a * y / x)
  | Err _ => true
  end.
Definition chk_C06_compute_swap x y a c out : verdict :=
  V (agree_compute_swap x y a c out) (c06_ok x y a c out) false (is_ok out).

(* monotonicity: two offers a <= a' against the same reserves *)
Definition chk_C06_swap_mono x y a a' c (out out' : res (N * N * N)) : verdict :=
  V (agree_compute_swap x y a c out && agree_compute_swap x y a' c out')
    (match out, out' with
     | Ok (n, _, _), Ok (n', _, _) => if a <=? a' then n <=? n' else n' <=? n
     | _, _ => true
     end)
    false (is_ok out && is_ok out').

(* C01 on the implementation's output; the known class is computed from the inputs *)
From HT Require Import Amm.Known.
Definition c01_ok (x y a : N) (out : res (N * N * N)) : bool :=
  match out with
  | Ok (n, _, _) => (n * (x + a) <=? y * a) && (n <=? y) && ((y =? 0) || (n <? y))
  | Err _ => true
  end.
Definition chk_C01_compute_swap x y a c out : verdict :=
  (* the recorded class covers inputs on which the UNCHANGED code pays too much; inputs of the same arithmetic shape
     that the unchanged code refuses (the model's compute_swap aborts) are not in it *)
  V (agree_compute_swap x y a c out) (c01_ok x y a out) (kf_c01 x y a c && is_ok (compute_swap x y a c)) (is_ok out).

(* ------------------------------------------------------------------ *)
(* C08: Uint256 / Decimal256 operators                                 *)
(* ------------------------------------------------------------------ *)
Definition floor_b (r p q : N) : bool := (r * q <=? p) && (p <? (r + 1) * q).
(* exact-or-abort on the implementation's output *)
Definition eoa_b (out : res N) (ok : bool) (val : N -> bool) : bool :=
  match out with
  | Ok v => ok && val v && (v <? W256)
  | Err _ => negb ok
  end.
Definition nres_eqb := res_eqb N.eqb.
Definition mk (model out : res N) (p : bool) : verdict := V (nres_eqb model out) p false (is_ok out).

Definition chk_C08_u_add a b out := mk (uint_add a b) out (eoa_b out (a + b <? W256) (fun v => v =? a + b)).
Definition chk_C08_u_addassign := chk_C08_u_add.
Definition chk_C08_u_sub a b out := mk (uint_sub a b) out (eoa_b out (b <=? a) (fun v => v + b =? a)).
Definition chk_C08_u_mul a b out := mk (uint_mul a b) out (eoa_b out (a * b <? W256) (fun v => v =? a * b)).
Definition chk_C08_u_mulratio u n d out :=
  mk (uint_multiply_ratio u n d) out
     (eoa_b out (negb (d =? 0) && (u * n <? W256)) (fun v => floor_b v (u * n) d)).
Definition chk_C08_u_muldec u d out :=
  mk (uint_mul_dec u d) out (eoa_b out (u * d <? W256) (fun v => floor_b v (u * d) D)).
Definition chk_C08_d_muluint d u out := chk_C08_u_muldec u d out.
Definition chk_C08_u_divdec u d out :=
  mk (uint_div_dec u d) out
     (eoa_b out (negb (d =? 0) && (u * D <? W256)) (fun v => floor_b v (u * D) d)).
Definition chk_C08_d_add a b out := mk (dec_add a b) out (eoa_b out (a + b <? W256) (fun v => v =? a + b)).
Definition chk_C08_d_addassign := chk_C08_d_add.
Definition chk_C08_d_sub a b out := mk (dec_sub a b) out (eoa_b out (b <=? a) (fun v => v + b =? a)).
Definition chk_C08_d_mul a b out :=
  mk (dec_mul a b) out (eoa_b out (a * b <? W256) (fun v => floor_b v (a * b) D)).
Definition chk_C08_d_div a b out :=
  mk (dec_div a b) out (eoa_b out (negb (b =? 0) && (a * D <? W256)) (fun v => floor_b v (a * D) b)).
Definition chk_C08_d_from_ratio n d out :=
  mk (dec_from_ratio n d) out
     (eoa_b out (negb (d =? 0) && (n * D <? W256)) (fun v => floor_b v (n * D) d)).
Definition chk_C08_d_from_uint v out :=
  mk (dec_from_uint256 v) out (eoa_b out (v * D <? W256) (fun r => r =? v * D)).
Definition chk_C08_d_percent x out := mk (dec_percent x) out (eoa_b out true (fun r => r * 100 =? x * D)).
Definition chk_C08_d_permille x out := mk (dec_permille x) out (eoa_b out true (fun r => r * 1000 =? x * D)).

Definition b2n (b : bool) : N := if b then 1 else 0.
(* comparisons: lt le gt ge eq is_zero *)
Definition cmp_model (a b : N) : list N :=
  [b2n (a <? b); b2n (a <=? b); b2n (b <? a); b2n (b <=? a); b2n (a =? b); b2n (a =? 0)].
Definition chk_C08_cmp a b (out : res (list N)) : verdict :=
  V (res_eqb nlist_eqb (Ok (cmp_model a b)) out) (res_eqb nlist_eqb (Ok (cmp_model a b)) out) false true.
Definition chk_C08_u_cmp := chk_C08_cmp.
Definition chk_C08_d_cmp := chk_C08_cmp.

(* widening: value and limbs [l0,l1,l2,l3]; narrowing *)
Definition chk_C08_u_from_u128 a (out : res (list N)) : verdict :=
  let '(l0, l1, l2, l3) := uint_from_u128 a in
  V (res_eqb nlist_eqb (Ok [limbs_value (uint_from_u128 a); l0; l1; l2; l3]) out)
    (match out with Ok (v :: _) => v =? a | _ => false end) false true.
Definition chk_C08_u_from_uint128 := chk_C08_u_from_u128.
Definition chk_C08_u_from_u64 := chk_C08_u_from_u128.
Definition chk_C08_u_to_u128 n out := mk (uint_to_u128 n) out (eoa_b out (n <? W128) (fun v => v =? n)).
Definition chk_C08_u_to_uint128 := chk_C08_u_to_u128.

(* ------------------------------------------------------------------ *)
(* guards: assert_slippage_tolerance (C15), assert_max_spread (C10)     *)
(* ------------------------------------------------------------------ *)
From HT Require Import Amm.Guards.
Definition ures_eqb := res_eqb unit_eqb.

Definition c15_ok (tol : option N) (d0 d1 p0 p1 : N) (out : res unit) : bool :=
  match tol with
  | None => is_ok out
  | Some t =>
      match out with
      | Ok _ => (t <=? D) &&
                (d0 * (D - t) * p1 <? p0 * d1 * D + 2 * d1 * p1) &&
                (d1 * (D - t) * p0 <? p1 * d0 * D + 2 * d0 * p0)
      | Err _ =>      (* a refusal is justified by a tolerance above 100%, by a deposit pair outside the band, or by a zero divisor *)
          (D <? t) ||
          negb ((d0 * (D - t) * p1 + p1 * d1 <=? p0 * D * d1) &&
                (d1 * (D - t) * p0 + p0 * d0 <=? p1 * D * d0)) ||
          ((d0 =? 0) || (d1 =? 0) || (p0 =? 0) || (p1 =? 0))
      end
  end.
Definition chk_C15_slippage tol d0 d1 p0 p1 (out : res unit) : verdict :=
  V (ures_eqb (assert_slippage_tolerance tol d0 d1 p0 p1) out) (c15_ok tol d0 d1 p0 p1 out) false
    (match tol, out with Some _, Ok _ => true | Some _, Err _ => true | _, _ => false end).

Definition c10_ok (bp ms : option N) (offer ret spread od rd : N) (out : res unit) : bool :=
  match normalise_decimals offer ret spread od rd with
  | Err e => match out with Err e' => abort_eqb e e' | Ok _ => false end
  | Ok (o, r, s) =>
      match ms, bp with
      | None, _ => is_ok out
      | Some ms, Some bp =>
          match out with
          | Ok _ => negb (bp =? 0) &&
                    (let e := o * D / bp in (e <=? r) || ((e - r) * D <? (ms + 1) * e)) &&
                    (if (ms + 1 <=? D) && (bp <? o * D)
                     then (o * D - bp) * (D - ms - 1) <? r * D * bp else true)
          | Err _ => negb (o * (D - ms) <=? r * bp) || (bp =? 0)
          end
      | Some ms, None =>
          match out with
          | Ok _ => negb (r + s =? 0) && (s * D <? (ms + 1) * (r + s))
          | Err _ => (ms * (r + s) <? s * D) || (r + s =? 0)
          end
      end
  end.
Definition chk_C10_max_spread bp ms offer ret spread od rd (out : res unit) : verdict :=
  V (ures_eqb (assert_max_spread bp ms offer ret spread od rd) out)
    (c10_ok bp ms offer ret spread od rd out) false
    (match ms, out with Some _, Ok _ => true | Some _, Err _ => true | _, _ => false end).

(* ------------------------------------------------------------------ *)
(* compute_offer_amount (C12 reverse), lp_share (C05)                  *)
(* ------------------------------------------------------------------ *)
Definition agree_compute_offer_amount x y k c (out : res (N * N * N)) : bool :=
  res_eqb n3_eqb (compute_offer_amount x y k c) out.
(* the offer must lie between the closed form evaluated at the two ends of the rounding bound of t *)
Definition c12_rev_ok (x y k c : N) (out : res (N * N * N)) : bool :=
  match out with
  | Ok (o, _, m) =>
      (c <? D) &&
      (let t_hi := k * D / (D - c) in
       let t_lo := (k * D * D - k * (D - c)) / (D * (D - c)) in
       (t_lo <? y) && (x * y / (y - t_lo) - x <=? o) &&
       (if t_hi <? y then o <=? x * y / (y - t_hi) - x else true))
  | Err _ => true
  end.
Definition chk_C12_compute_offer_amount x y k c out : verdict :=
  V (agree_compute_offer_amount x y k c out) (c12_rev_ok x y k c out) false (is_ok out).

Definition c05_share_ok (wl : bool) (min0 min1 T d0 d1 r0 r1 : N) (out : res N) : bool :=
  match out with
  | Ok m =>
      if T =? 0 then
        wl && (min0 <=? d0) && (min1 <=? d1) && (m * m <=? d0 * d1) && (d0 * d1 <? (m + 1) * (m + 1))
      else
        (m * r0 <=? d0 * T) && (m * r1 <=? d1 * T) &&
        ((d0 * T <? (m + 1) * r0) || (d1 * T <? (m + 1) * r1))
  | Err Panic => true
  | Err _ => (T =? 0) && (negb wl || (d0 <? min0) || (d1 <? min1))
  end.
Definition chk_C05_lp_share (wl : bool) min0 min1 T d0 d1 r0 r1 (out : res N) : verdict :=
  V (nres_eqb (lp_share wl min0 min1 T d0 d1 r0 r1) out)
    (c05_share_ok wl min0 min1 T d0 d1 r0 r1 out) false (is_ok out).

(* ------------------------------------------------------------------ *)
(* registry (C16, C19)                                                  *)
(* ------------------------------------------------------------------ *)
From HT Require Import Reg.Registry.
Definition SEP : N := 999999.
Definition LOOPM : N := 888888.
Definition bres_eqb := res_eqb (fun a b : bytes => bytes_eqb a b).

(* store of entry indices built the way the harness builds PAIRS (later saves overwrite) *)
Fixpoint build_store (i : N) (entries : list (bytes * bytes)) (st : @store N) : @store N :=
  match entries with
  | [] => st
  | (a, b) :: rest => build_store (i + 1) rest (store_insert (pair_key a b) i st)
  end.
Definition entry_assets (entries : list (bytes * bytes)) (i : N) : bytes * bytes :=
  nth (N.to_nat i) entries ([], []).
Definition flatten_pages (pages : list (@store N)) : list N :=
  concat (map (fun p => map snd p ++ [SEP]) pages).
Definition model_walk (limit : option N) (entries : list (bytes * bytes)) : list N :=
  let st := build_store 0 entries [] in
  flatten_pages (walk (entry_assets entries) (S (length st)) st None limit).

Fixpoint count_occ_N (x : N) (l : list N) : N :=
  match l with [] => 0 | y :: l => (if x =? y then 1 else 0) + count_occ_N x l end.
(* longest run between separators *)
Fixpoint max_page (l : list N) (cur best : N) : N :=
  match l with
  | [] => N.max cur best
  | x :: l => if x =? SEP then max_page l 0 (N.max cur best) else max_page l (cur + 1) best
  end.
Definition c19_walk_ok (limit : option N) (entries : list (bytes * bytes)) (out : res (list N)) : bool :=
  match out with
  | Ok flat =>
      let st := build_store 0 entries [] in
      let visited := filter (fun x => negb (x =? SEP)) flat in
      (count_occ_N LOOPM flat =? 0) &&
      (N.of_nat (length visited) =? N.of_nat (length st)) &&
      forallb (fun e => count_occ_N (snd e) visited =? 1) st &&
      (max_page flat 0 0 <=? N.of_nat (page_limit limit))
  | Err _ => false
  end.
Definition chk_C19_reg_walk (limit : option N) (entries : list (bytes * bytes)) (out : res (list N)) : verdict :=
  V (res_eqb nlist_eqb (Ok (model_walk limit entries)) out) (c19_walk_ok limit entries out) false
    (1 <? N.of_nat (length entries)).

Definition chk_C19_reg_page (limit : option N) (cursor : option N) (swap : bool)
           (entries : list (bytes * bytes)) (out : res (list N)) : verdict :=
  let st := build_store 0 entries [] in
  let c := match cursor with
           | None => None
           | Some i => let '(a, b) := entry_assets entries i in Some (if swap then (b, a) else (a, b))
           end in
  V (res_eqb nlist_eqb (Ok (map snd (read_pairs st c limit))) out)
    (match out with Ok l => (N.of_nat (length l) <=? 30) && (N.of_nat (length l) <=? N.of_nat (page_limit limit))
                  | Err _ => false end)
    false true.

Definition chk_C16_reg_key (a b : bytes) (out : res bytes) : verdict :=
  V (bres_eqb (Ok (pair_key a b)) out) true false true.
(* two identifier sets: the keys coincide only for the same unordered set (else known class) *)
Definition chk_C16_reg_keyeq (a b c d : bytes) (out1 out2 out3 : res bytes) : verdict :=
  V (bres_eqb (Ok (pair_key a b)) out1 && bres_eqb (Ok (pair_key c d)) out2 && bres_eqb (Ok (pair_key b a)) out3)
    (match out1, out2, out3 with
     | Ok k1, Ok k2, Ok k3 => bytes_eqb k1 k3 && (if bytes_eqb k1 k2 then same_set a b c d else true)
     | _, _, _ => false
     end)
    (kf_key_collision a b c d) true.
(* lookup of (q1,q2) in a registry of entries: the record found must be one whose set is the queried set *)
Definition chk_C16_reg_lookup (q1 q2 : bytes) (entries : list (bytes * bytes)) (out : res N) : verdict :=
  let st := build_store 0 entries [] in
  let hit := existsb (fun e : bytes * bytes => let '(a, b) := e in same_set q1 q2 a b) entries in
  V (match store_get (pair_key q1 q2) st, out with
     | Some i, Ok j => i =? j
     | None, Err _ => true
     | _, _ => false
     end)
    (match out with
     | Ok j => let '(a, b) := entry_assets entries j in same_set q1 q2 a b
     | Err _ => negb hit
     end)
    (existsb (fun e : bytes * bytes => let '(a, b) := e in kf_key_collision q1 q2 a b) entries)
    true.

(* ------------------------------------------------------------------ *)
(* text / JSON / width (C18)                                            *)
(* ------------------------------------------------------------------ *)
From HT Require Import Num.Text.
Definition sres_eqb := res_eqb (fun a b : list N => nlist_eqb a b).
Definition canonical_int (s : str) : bool :=
  forallb is_digit s && negb (N.of_nat (length s) =? 0) &&
  (match s with b :: _ :: _ => negb (b =? ZERO) | _ => true end).
(* rendering: agree with the model; the text is canonical and denotes exactly the value *)
Definition chk_C18_u_display (n : N) (out : res str) : verdict :=
  V (sres_eqb (Ok (render n)) out)
    (match out with Ok s => canonical_int s && (denote s =? n) | Err _ => false end) false true.
Definition chk_C18_u_string := chk_C18_u_display.
(* value of an accepted decimal text: digit* ('.' digit{0,18})? *)
Definition denote_dec (s : str) : option N :=
  match split_dot s [] with
  | [w] => if forallb is_digit w then Some (denote w * D) else None
  | [w; f] => if forallb is_digit w && forallb is_digit f && (N.of_nat (length f) <=? 18)
              then Some (denote w * D + denote f * 10 ^ (18 - N.of_nat (length f))) else None
  | _ => None
  end.
Definition chk_C18_d_display (v : N) (out : res str) : verdict :=
  V (sres_eqb (Ok (dec_render v)) out)
    (match out with
     | Ok s => match denote_dec s with
               | Some x => (x =? v) &&
                           (match rev s with b :: _ => if existsb (N.eqb DOT) s then negb (b =? ZERO) && negb (b =? DOT) else true | [] => false end)
               | None => false end
     | Err _ => false end) false true.
(* parsing: accepted iff the text denotes a value < 2^256, and then exactly that value *)
Definition chk_C18_u_fromstr (s : str) (out : res N) : verdict :=
  V (nres_eqb (from_dec_str s) out)
    (match out with
     | Ok n => forallb is_digit s && (denote s =? n)
     | Err _ => negb (forallb is_digit s) || (W256 <=? denote s) end) false (is_ok out).
Definition chk_C18_u_tryfrom := chk_C18_u_fromstr.
Definition chk_C18_d_fromstr (s : str) (out : res N) : verdict :=
  V (nres_eqb (dec_from_str s) out)
    (match out, denote_dec s with
     | Ok v, Some x => x =? v
     | Ok _, None => false
     | Err _, Some x => existsb (fun p => W256 <=? denote p) (split_dot s []) || (W256 <=? x)
     | Err _, None => true end) false (is_ok out).
(* round trips through text and JSON on the real types *)
Definition chk_C18_u_roundtrip (n : N) (disp : res str) (back : res N) (js : res str) (unjs : res N) : verdict :=
  V (sres_eqb (Ok (render n)) disp && nres_eqb (from_dec_str (render n)) back &&
     sres_eqb (Ok (uint_to_json n)) js && nres_eqb (uint_of_json (uint_to_json n)) unjs)
    (nres_eqb (Ok n) back && nres_eqb (Ok n) unjs) false true.
Definition chk_C18_d_roundtrip (v : N) (disp : res str) (back : res N) (js : res str) (unjs : res N) : verdict :=
  V (sres_eqb (Ok (dec_render v)) disp && nres_eqb (dec_from_str (dec_render v)) back &&
     sres_eqb (Ok (dec_to_json v)) js && nres_eqb (dec_of_json (dec_to_json v)) unjs)
    (nres_eqb (Ok v) back && nres_eqb (Ok v) unjs) false true.
(* an ACCEPTED JSON document must denote the value it was read as: the numeral inside the quotes, or the bare document
   itself when it is not quoted *)
Definition unquote (j : str) : str :=
  match j with
  | q :: r => if q =? 34 then match rev r with q' :: r' => if q' =? 34 then rev r' else j | [] => j end else j
  | [] => j
  end.
Definition chk_C18_u_unjson (j : str) (out : res N) : verdict :=
  V (nres_eqb (uint_of_json_esc j) out)
    (match out with
     | Ok n => match json_decode_esc j with
               | Ok s => forallb is_digit s && (denote s =? n)      (* as for from_str: the empty text is read as 0 (pinned by the repository's own tests for the decimal type; recorded as a non-finding) *)
               | Err _ => false end
     (* a refusal needs a reason: the document is malformed, or the text it denotes (escapes resolved) is no numeral in range *)
     | Err _ => match json_decode_esc j with
                | Ok s => negb (forallb is_digit s) || (W256 <=? denote s)
                | Err _ => true end
     end) false (is_ok out).
Definition chk_C18_d_unjson (j : str) (out : res N) : verdict :=
  V (nres_eqb (dec_of_json_esc j) out)
    (match out with
     | Ok v => match json_decode_esc j with
               | Ok s => match denote_dec s with Some x => x =? v | None => false end
               | Err _ => false end
     | Err _ => match json_decode_esc j with
                | Ok s => match denote_dec s with
                          | Some x => existsb (fun p => W256 <=? denote p) (split_dot s []) || (W256 <=? x)
                          | None => true end
                | Err _ => true end
     end) false (is_ok out).
(* widths *)
Definition chk_C18_d_to_cwdec (v : N) (out : res N) : verdict :=
  mk (dec256_to_cwdec v) out (eoa_b out (v <? W128) (fun r => r =? v)).
Definition chk_C18_d_from_cwdec (a : N) (out : res N) : verdict :=
  mk (cwdec_to_dec256 a) out (nres_eqb (Ok a) out).
Definition chk_C18_u_from_u128 := chk_C08_u_from_u128.
Definition chk_C18_u_from_uint128 := chk_C08_u_from_u128.
Definition chk_C18_u_from_u64 := chk_C08_u_from_u128.
Definition chk_C18_u_to_u128 := chk_C08_u_to_u128.
Definition chk_C18_u_to_uint128 := chk_C08_u_to_u128.

(* ------------------------------------------------------------------ *)
(* world histories                                                      *)
(* ------------------------------------------------------------------ *)
From HT Require Import World.World World.Observe World.Monitors.
Definition chk_hist (mon : monitor) (L : layout) (ubal fbal : N) (tdecs : list N)
           (init_snap : list N) (steps : list hstep) : verdict :=
  let '(a, allp, allpk, nok) := hist_result mon L ubal fbal tdecs init_snap steps in
  V a allp (allpk && negb allp) (2 <=? nok).
Definition chk_C01_hist := chk_hist mon_C01.
Definition chk_C02_hist := chk_hist mon_C02.
Definition chk_C03_hist := chk_hist mon_C03.
Definition chk_C04_hist := chk_hist mon_C04.
Definition chk_C05_hist := chk_hist mon_C05.
Definition chk_C06_hist := chk_hist mon_C06.
(* C18 at system level: the commission rate travels as decimal TEXT through CreatePair, the pair's instantiate message and
   storage; what the pair describes afterwards is the number the text denotes (the creation clause of mon_C06) *)
Definition chk_C18_hist := chk_hist mon_C06.
Definition chk_C07_hist := chk_hist mon_C07.
Definition chk_C09_hist := chk_hist mon_C09.
Definition chk_C10_hist := chk_hist mon_C10.
Definition chk_C11_hist := chk_hist mon_C11.
Definition chk_C12_hist := chk_hist mon_C12.
Definition chk_C13_hist := chk_hist mon_C13.
Definition chk_C14_hist := chk_hist mon_C14.
Definition chk_C15_hist := chk_hist mon_C15.
Definition chk_C16_hist := chk_hist mon_C16.
Definition chk_C17_hist := chk_hist mon_C17.
Definition chk_C19_hist := chk_hist mon_C19.
Definition chk_C20_hist := chk_hist mon_C20.
(* queries: the model's answer against the implementation's *)
Definition chk_query (model out : res (list N)) : verdict :=
  V (match model, out with Ok a, Ok b => nlist_eqb a b | Err _, Err _ => true | _, _ => false end) true false (is_ok out).

(* ------------------------------------------------------------------ *)
(* Asset::assert_sent_native_token_balance at function level (C09)      *)
(* ------------------------------------------------------------------ *)
(* kind: true = native; identifiers and denoms are byte strings, compared exactly *)
Definition c09_helper_ok (native : bool) (id : list N) (amount : N) (funds : list (list N * N)) (out : res unit) : bool :=
  if native then
    match find (fun c => ident_eqb (fst c) id) funds with
    | Some c => if snd c =? amount then is_ok out else negb (is_ok out)
    | None => if amount =? 0 then is_ok out else negb (is_ok out)
    end
  else is_ok out.
Definition chk_C09_sent_native (native : bool) (id : list N) (amount : N) (funds : list (list N * N)) (out : res unit) : verdict :=
  V (ures_eqb (assert_sent_native (if native then Native id else Token id) amount funds) out)
    (c09_helper_ok native id amount funds out) false native.
