(* Executable checkers used by the correspondence check.  The harness writes,
   for every case, the input AND the implementation's observed result; the
   functions here recompute the model's answer inside Coq ([v_agree]) and
   evaluate the property's decidable checker on the implementation's output
   ([v_prop]); [v_known] marks cases inside a recorded known-finding class. *)
From HT Require Import Base.Prelude Num.Arith Amm.Formulas.

Record verdict := V { v_agree : bool; v_prop : bool; v_known : bool; v_nontriv : bool }.

Definition res_eqb {A} (eqb : A -> A -> bool) (r1 r2 : res A) : bool :=
  match r1, r2 with
  | Ok a, Ok b => eqb a b
  | Err e1, Err e2 => err_eqb e1 e2
  | _, _ => false
  end.
Definition n3_eqb (p q : N * N * N) : bool :=
  let '(a, b, c) := p in let '(a', b', c') := q in (a =? a') && (b =? b') && (c =? c').
Definition n2_eqb (p q : N * N) : bool :=
  let '(a, b) := p in let '(a', b') := q in (a =? a') && (b =? b').
Definition unit_eqb (_ _ : unit) : bool := true.
Fixpoint nlist_eqb (l1 l2 : list N) : bool :=
  match l1, l2 with
  | [], [] => true
  | a :: l1, b :: l2 => (a =? b) && nlist_eqb l1 l2
  | _, _ => false
  end.

(* summary = (indices where model <> implementation,
              indices where the property fails outside every known class,
              indices where it fails inside a known class,
              number of non-trivial cases) *)
Fixpoint summarize_aux (i : N) (vs : list verdict) (acc : list N * list N * list N * N)
  : list N * list N * list N * N :=
  match vs with
  | [] => let '(d, p, k, n) := acc in (rev d, rev p, rev k, n)
  | v :: vs =>
      let '(d, p, k, n) := acc in
      let d' := if v_agree v then d else i :: d in
      let p' := if v_prop v || v_known v then p else i :: p in
      let k' := if negb (v_prop v) && v_known v then i :: k else k in
      let n' := if v_nontriv v then n + 1 else n in
      summarize_aux (i + 1) vs (d', p', k', n')
  end.
Definition summarize (vs : list verdict) := summarize_aux 0 vs ([], [], [], 0).

(* ------------------------------------------------------------------ *)
(* compute_swap                                                        *)
(* ------------------------------------------------------------------ *)
Definition agree_compute_swap x y a c (out : res (N * N * N)) : bool :=
  res_eqb n3_eqb (compute_swap x y a c) out.

(* C06 on the implementation's output *)
Definition c06_ok (x y a c : N) (out : res (N * N * N)) : bool :=
  match out with
  | Ok (n, s, m) =>
      (n * D * (x + a) <? y * a * (D - c) + D * (x + a)) &&
      (y * a * (D - c) <? n * D * (x + a) + D * (x + a)) &&
      (m =? c * (n + m) / D) && (n + m <=? y) &&
      (negb (x =? 0)) && (n + m + s =? a * y / x)
  | Err _ => true
  end.
Definition chk_C06_compute_swap x y a c out : verdict :=
  V (agree_compute_swap x y a c out) (c06_ok x y a c out) false (is_ok out).

(* monotonicity: two offers a <= a' against the same reserves *)
Definition chk_C06_swap_mono x y a a' c (out out' : res (N * N * N)) : verdict :=
  V (agree_compute_swap x y a c out && agree_compute_swap x y a' c out')
    (match out, out' with
     | Ok (n, _, _), Ok (n', _, _) => if a <=? a' then n <=? n' else n' <=? n
     | _, _ => true
     end)
    false (is_ok out && is_ok out').
