(* C13 — Router is a pure pass-through and delivers what it quoted.
   Proved here: which routes are accepted, that only the last hop pays the recipient, that every hop
   swaps the router's whole balance of the offer asset through the pair the factory resolves, and
   (C12 block) that a hop's output equals the pair's simulation in the state before the offer arrived.
   End to end: [C13_hop_delivers] (one hop pays the pair's own simulation of the router's whole balance to
   the destination and leaves the router with none of the offer asset), [C13_one_hop_quote] and
   [C13_two_hops_quote] (the recipient receives exactly the router's quote, the router keeps nothing).
   [C13_route_quote] / [C13_exec_route_quote]: for a chain route of ANY number of hops through distinct
   pairs over pairwise distinct assets, entered with the router holding only the input, the recipient
   receives exactly the router's own quote and every route asset ends at zero in the router (induction
   over the hop list).  [chain_from a0 ops]: consecutive hops share the intermediate asset;
   [hop_ok w rcv o p]: hop o resolves through the factory registry to the existing pair p that trades
   exactly its two assets and is neither the router nor the recipient. *)
From HT Require Import Base.Prelude Num.Arith Amm.Formulas Amm.Guards World.World Proofs.LedgerProofs Proofs.RouterProofs Proofs.FrameProofs Proofs.RouteQuoteProofs Proofs.RouteNProofs.

Theorem C13_rejects_empty : forall w s m to, exists e, router_exec_ops w s [] m to = Err e.
Proof. exact router_rejects_empty. Qed.

Theorem C13_single_dangling_output : forall w s ops m to w', router_exec_ops w s ops m to = Ok w' ->
  ops <> [] /\ router_assert_operations ops = Ok tt /\
  length (ask_map (map (fun o => (to_guard_asset (fst o), to_guard_asset (snd o))) ops)) = 1%nat.
Proof. exact router_accepts_only_single_output. Qed.

Theorem C13_only_last_hop_pays_recipient : forall ops w o a to,
  router_hops w (ops ++ [(o, a)]) to = (let* w1 := hops_none w ops in router_hop w1 o a (Some to)).
Proof. exact router_hops_last. Qed.

Theorem C13_hop_swaps_whole_balance : forall w offer ask to w', router_hop w offer ask to = Ok w' ->
  exists r ps amount, reg_find (w_reg w) offer ask = Some r /\ w_pairs w (f_pair r) = Some ps /\
    asset_balance w offer (w_rtr w) = Ok amount /\
    match offer with
    | ANative d => exists w1 out, move_funds w (w_rtr w) (f_pair r) [(d, amount)] = Ok w1 /\
                     pair_swap w1 (f_pair r) ps [(d, amount)] (w_rtr w) offer amount None None to = Ok (w', out)
    | AToken ta => exists w1, with_token w ta (fun t => tok_transfer t (w_rtr w) (f_pair r) amount) = Ok w1 /\
                     pair_receive w1 (f_pair r) ps ta [] (w_rtr w) amount (HSwap offer amount None None to) = Ok w'
    end.
Proof. exact router_hop_structure. Qed.

Example C13_nonvacuous :
  router_assert_operations [(ANative 0, AToken 2); (AToken 2, ANative 1)] = Ok tt /\
  router_assert_operations [(ANative 0, AToken 2); (ANative 1, AToken 3)] = Err EStd /\
  router_assert_operations [] = Err EStd.
Proof. repeat split; vm_compute; reflexivity. Qed.

(* ---- end to end ---- *)
Theorem C13_hop_delivers : forall w offer ask to w' r ps amount,
  router_hop w offer ask to = Ok w' ->
  reg_find (w_reg w) offer ask = Some r -> w_pairs w (f_pair r) = Some ps ->
  asset_eqb (p_a0 ps) (p_a1 ps) = false ->
  asset_balance w offer (w_rtr w) = Ok amount ->
  let p := f_pair r in
  let dest := match to with Some t => t | None => w_rtr w end in
  p <> w_rtr w -> dest <> p ->
  asset_eqb offer ask = false ->
  (asset_eqb offer (p_a0 ps) = true /\ asset_eqb ask (p_a1 ps) = true) \/ (asset_eqb offer (p_a1 ps) = true /\ asset_eqb ask (p_a0 ps) = true) ->
  bal w ask p + 0 < W128 ->      (* harmless: keeps the statement about 128-bit balances explicit *)
  exists ret spread comm,
    q_simulation w p offer amount = Ok (ret, spread, comm) /\
    bal w' offer (w_rtr w) = (if dest =? w_rtr w then 0 else 0) /\
    (dest <> w_rtr w -> bal w' ask dest = bal w ask dest + ret) /\
    (dest = w_rtr w -> bal w' ask (w_rtr w) = bal w ask (w_rtr w) + ret) /\
    bal w' offer p = bal w offer p + amount /\ bal w' ask p + ret = bal w ask p /\
    w_reg w' = w_reg w /\ w_rtr w' = w_rtr w /\ w_pairs w' = w_pairs w.
Proof. exact router_hop_delivers. Qed.
Theorem C13_one_hop_quote : forall w sender offer ask to w' r ps amount,
  router_exec_ops w sender [(offer, ask)] None to = Ok w' ->
  reg_find (w_reg w) offer ask = Some r -> w_pairs w (f_pair r) = Some ps ->
  asset_eqb (p_a0 ps) (p_a1 ps) = false ->
  asset_balance w offer (w_rtr w) = Ok amount -> bal w ask (w_rtr w) = 0 ->
  let p := f_pair r in
  let rcv := match to with Some t => t | None => sender end in
  p <> w_rtr w -> rcv <> p -> rcv <> w_rtr w -> asset_eqb offer ask = false ->
  (asset_eqb offer (p_a0 ps) = true /\ asset_eqb ask (p_a1 ps) = true) \/ (asset_eqb offer (p_a1 ps) = true /\ asset_eqb ask (p_a0 ps) = true) ->
  exists q, q_router_simulate_ops w amount [(offer, ask)] = Ok q /\
            bal w' ask rcv = bal w ask rcv + q /\
            bal w' offer (w_rtr w) = 0 /\ bal w' ask (w_rtr w) = 0.
Proof. exact route_one_hop_delivers_quote. Qed.
Theorem C13_two_hops_quote : forall w sender a0 a1 a2 to w' r1 ps1 r2 ps2 amount,
  router_exec_ops w sender [(a0, a1); (a1, a2)] None to = Ok w' ->
  reg_find (w_reg w) a0 a1 = Some r1 -> w_pairs w (f_pair r1) = Some ps1 ->
  reg_find (w_reg w) a1 a2 = Some r2 -> w_pairs w (f_pair r2) = Some ps2 ->
  f_pair r1 <> f_pair r2 ->
  asset_eqb (p_a0 ps1) (p_a1 ps1) = false -> asset_eqb (p_a0 ps2) (p_a1 ps2) = false ->
  asset_balance w a0 (w_rtr w) = Ok amount -> bal w a1 (w_rtr w) = 0 -> bal w a2 (w_rtr w) = 0 ->
  let rcv := match to with Some t => t | None => sender end in
  f_pair r1 <> w_rtr w -> f_pair r2 <> w_rtr w -> rcv <> f_pair r1 -> rcv <> f_pair r2 -> rcv <> w_rtr w ->
  asset_eqb a0 a1 = false -> asset_eqb a1 a2 = false -> asset_eqb a0 a2 = false ->
  ((asset_eqb a0 (p_a0 ps1) = true /\ asset_eqb a1 (p_a1 ps1) = true) \/ (asset_eqb a0 (p_a1 ps1) = true /\ asset_eqb a1 (p_a0 ps1) = true)) ->
  ((asset_eqb a1 (p_a0 ps2) = true /\ asset_eqb a2 (p_a1 ps2) = true) \/ (asset_eqb a1 (p_a1 ps2) = true /\ asset_eqb a2 (p_a0 ps2) = true)) ->
  exists q, q_router_simulate_ops w amount [(a0, a1); (a1, a2)] = Ok q /\
            bal w' a2 rcv = bal w a2 rcv + q /\
            bal w' a0 (w_rtr w) = 0 /\ bal w' a1 (w_rtr w) = 0 /\ bal w' a2 (w_rtr w) = 0.
Proof. exact route_two_hops_deliver_quote. Qed.

Theorem C13_route_quote : forall ops w sender a0 to w' amount pairs,
  ops <> [] ->
  router_hops w ops (match to with Some t => t | None => sender end) = Ok w' ->
  chain_from a0 ops ->
  let rcv := match to with Some t => t | None => sender end in
  rcv <> w_rtr w ->
  length pairs = length ops ->
  (forall i o p, nth_error ops i = Some o -> nth_error pairs i = Some p -> hop_ok w rcv o p) ->
  NoDup pairs ->                                               (* hops use distinct pairs *)
  (forall x y, In x (route_assets a0 ops) -> In y (route_assets a0 ops) -> x = y \/ asset_eqb x y = false) ->
  NoDup (route_assets a0 ops) ->                               (* a simple path: pairwise distinct assets *)
  asset_balance w a0 (w_rtr w) = Ok amount ->                   (* the router holds the input ... *)
  (forall x, In x (map snd ops) -> bal w x (w_rtr w) = 0) ->    (* ... and none of the other route assets *)
  exists q, q_router_simulate w amount ops = Ok q /\
            bal w' (snd (last ops (a0, a0))) rcv = bal w (snd (last ops (a0, a0))) rcv + q /\
            (forall x, In x (route_assets a0 ops) -> bal w' x (w_rtr w) = 0).
Proof. exact route_delivers_quote. Qed.
Theorem C13_exec_route_quote : forall ops w sender a0 to w' amount pairs,
  router_exec_ops w sender ops None to = Ok w' ->
  chain_from a0 ops ->
  let rcv := match to with Some t => t | None => sender end in
  rcv <> w_rtr w -> length pairs = length ops ->
  (forall i o p, nth_error ops i = Some o -> nth_error pairs i = Some p -> hop_ok w rcv o p) ->
  NoDup pairs ->
  (forall x y, In x (route_assets a0 ops) -> In y (route_assets a0 ops) -> x = y \/ asset_eqb x y = false) ->
  NoDup (route_assets a0 ops) ->
  asset_balance w a0 (w_rtr w) = Ok amount ->
  (forall x, In x (map snd ops) -> bal w x (w_rtr w) = 0) ->
  exists q, q_router_simulate_ops w amount ops = Ok q /\
            bal w' (snd (last ops (a0, a0))) rcv = bal w (snd (last ops (a0, a0))) rcv + q /\
            (forall x, In x (route_assets a0 ops) -> bal w' x (w_rtr w) = 0).
Proof. exact router_exec_ops_delivers_quote. Qed.

Print Assumptions C13_route_quote.
Print Assumptions C13_exec_route_quote.
Print Assumptions C13_hop_delivers.
Print Assumptions C13_one_hop_quote.
Print Assumptions C13_two_hops_quote.
Print Assumptions C13_rejects_empty.
Print Assumptions C13_single_dangling_output.
Print Assumptions C13_only_last_hop_pays_recipient.
Print Assumptions C13_hop_swaps_whole_balance.
Print Assumptions C13_nonvacuous.

From HT Require Import Proofs.RouteCycleProofs.
Theorem C13_route_quote_revisit : forall ops w sender a0 to w' amount pairs,
  ops <> [] ->
  router_hops w ops (match to with Some t => t | None => sender end) = Ok w' ->
  chain_from a0 ops ->
  let rcv := match to with Some t => t | None => sender end in
  rcv <> w_rtr w ->
  length pairs = length ops ->
  (forall i o p, nth_error ops i = Some o -> nth_error pairs i = Some p -> hop_ok w rcv o p) ->
  NoDup pairs ->                                               (* hops use distinct pairs; assets may repeat *)
  asset_balance w a0 (w_rtr w) = Ok amount ->                   (* the router holds the input ... *)
  (forall x, In x (map snd ops) -> asset_eqb x a0 = false -> bal w x (w_rtr w) = 0) ->  (* ... and none of the OTHER route assets *)
  exists q, q_router_simulate w amount ops = Ok q /\
            bal w' (snd (last ops (a0, a0))) rcv = bal w (snd (last ops (a0, a0))) rcv + q /\
            (forall x, In x (route_assets a0 ops) -> bal w' x (w_rtr w) = 0).
Proof. exact route_delivers_quote_revisit. Qed.
Print Assumptions C13_route_quote_revisit.

Theorem C13_exec_route_quote_revisit : forall ops w sender a0 to w' amount pairs,
  router_exec_ops w sender ops None to = Ok w' ->
  chain_from a0 ops ->
  let rcv := match to with Some t => t | None => sender end in
  rcv <> w_rtr w -> length pairs = length ops ->
  (forall i o p, nth_error ops i = Some o -> nth_error pairs i = Some p -> hop_ok w rcv o p) ->
  NoDup pairs ->
  asset_balance w a0 (w_rtr w) = Ok amount ->
  (forall x, In x (map snd ops) -> asset_eqb x a0 = false -> bal w x (w_rtr w) = 0) ->
  exists q, q_router_simulate_ops w amount ops = Ok q /\
            bal w' (snd (last ops (a0, a0))) rcv = bal w (snd (last ops (a0, a0))) rcv + q /\
            (forall x, In x (route_assets a0 ops) -> bal w' x (w_rtr w) = 0).
Proof. exact router_exec_ops_delivers_quote_revisit. Qed.
Print Assumptions C13_exec_route_quote_revisit.

Theorem C13_route_revisit_example :
  exists w',
    rv_ops <> [] /\
    router_hops rv_w rv_ops rv_rcv = Ok w' /\
    chain_from (ANative 0) rv_ops /\
    rv_rcv <> w_rtr rv_w /\
    length rv_pairs = length rv_ops /\
    (forall i o p, nth_error rv_ops i = Some o -> nth_error rv_pairs i = Some p -> hop_ok rv_w rv_rcv o p) /\
    NoDup rv_pairs /\
    asset_balance rv_w (ANative 0) (w_rtr rv_w) = Ok 5000 /\
    (forall x, In x (map snd rv_ops) -> asset_eqb x (ANative 0) = false -> bal rv_w x (w_rtr rv_w) = 0) /\
    ~ NoDup (route_assets (ANative 0) rv_ops) /\
    snd (last rv_ops (ANative 0, ANative 0)) = ANative 0 /\
    q_router_simulate rv_w 5000 rv_ops = Ok 2453 /\
    bal w' (ANative 0) rv_rcv = bal rv_w (ANative 0) rv_rcv + 2453 /\
    bal w' (ANative 0) (w_rtr rv_w) = 0 /\ bal w' (AToken 2) (w_rtr rv_w) = 0 /\ bal w' (AToken 3) (w_rtr rv_w) = 0.
Proof. exact route_revisit_example. Qed.
Print Assumptions C13_route_revisit_example.
