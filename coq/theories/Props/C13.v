(* C13 — Router is a pure pass-through and delivers what it quoted.
   Proved here: which routes are accepted, that only the last hop pays the recipient, that every hop
   swaps the router's whole balance of the offer asset through the pair the factory resolves, and
   (C12 block) that a hop's output equals the pair's simulation in the state before the offer arrived.
   PARTIAL: the end-to-end equation "recipient receives exactly the router's quote" for distinct-pair
   routes is not proved as one theorem over the world model (it needs the frame invariants of C07 over
   the hop list); it is monitored on the real code on every route of every run (mon_C13). *)
From HT Require Import Base.Prelude Num.Arith Amm.Formulas Amm.Guards World.World Proofs.RouterProofs.

Theorem C13_rejects_empty : forall w s m to, exists e, router_exec_ops w s [] m to = Err e.
Proof. exact router_rejects_empty. Qed.

Theorem C13_single_dangling_output : forall w s ops m to w', router_exec_ops w s ops m to = Ok w' ->
  ops <> [] /\ router_assert_operations ops = Ok tt /\
  length (ask_map (map (fun o => (to_guard_asset (fst o), to_guard_asset (snd o))) ops)) = 1%nat.
Proof. exact router_accepts_only_single_output. Qed.

Theorem C13_only_last_hop_pays_recipient : forall ops w o a to,
  router_hops w (ops ++ [(o, a)]) to = (let* w1 := hops_none w ops in router_hop w1 o a (Some to)).
Proof. exact router_hops_last. Qed.

Theorem C13_hop_swaps_whole_balance : forall w offer ask to w', router_hop w offer ask to = Ok w' ->
  exists r ps amount, reg_find (w_reg w) offer ask = Some r /\ w_pairs w (f_pair r) = Some ps /\
    asset_balance w offer (w_rtr w) = Ok amount /\
    match offer with
    | ANative d => exists w1 out, move_funds w (w_rtr w) (f_pair r) [(d, amount)] = Ok w1 /\
                     pair_swap w1 (f_pair r) ps [(d, amount)] (w_rtr w) offer amount None None to = Ok (w', out)
    | AToken ta => exists w1, with_token w ta (fun t => tok_transfer t (w_rtr w) (f_pair r) amount) = Ok w1 /\
                     pair_receive w1 (f_pair r) ps ta [] (w_rtr w) amount (HSwap offer amount None None to) = Ok w'
    end.
Proof. exact router_hop_structure. Qed.

Example C13_nonvacuous :
  router_assert_operations [(ANative 0, AToken 2); (AToken 2, ANative 1)] = Ok tt /\
  router_assert_operations [(ANative 0, AToken 2); (ANative 1, AToken 3)] = Err EStd /\
  router_assert_operations [] = Err EStd.
Proof. repeat split; vm_compute; reflexivity. Qed.

Print Assumptions C13_rejects_empty.
Print Assumptions C13_single_dangling_output.
Print Assumptions C13_only_last_hop_pays_recipient.
Print Assumptions C13_hop_swaps_whole_balance.
Print Assumptions C13_nonvacuous.
