(* C15 — Provision succeeds only within the caller's slippage tolerance.
   t is the tolerance in atomics of 10^-18 (Decimal), d = deposits, p = reserves as the guard sees them. *)
From HT Require Import Base.Prelude Num.Arith Amm.Formulas Amm.Guards Proofs.SlippageProofs.

(* success implies (d0/d1)(1-t) < p0/p1 + 2*10^-18 and symmetrically (cross-multiplied) *)
Theorem C15_sound :
  forall t d0 d1 p0 p1 : N,
    d0 < W128 -> d1 < W128 -> p0 < W128 -> p1 < W128 ->
    assert_slippage_tolerance (Some t) d0 d1 p0 p1 = Ok tt ->
    t <= D /\
    d0 * (D - t) * p1 < p0 * d1 * D + 2 * d1 * p1 /\
    d1 * (D - t) * p0 < p1 * d0 * D + 2 * d0 * p0.
Proof. exact slippage_sound. Qed.

(* (d_i/d_j)(1-t) <= p_i/p_j - 10^-18 on both sides: never rejected by this guard *)
Theorem C15_complete :
  forall t d0 d1 p0 p1 : N,
    d0 < W128 -> d1 < W128 -> p0 < W128 -> p1 < W128 ->
    t <= D ->
    d0 * (D - t) * p1 + p1 * d1 <= p0 * D * d1 ->
    d1 * (D - t) * p0 + p0 * d0 <= p1 * D * d0 ->
    assert_slippage_tolerance (Some t) d0 d1 p0 p1 <> Err EMaxSlippage.
Proof. exact slippage_complete. Qed.

Theorem C15_over_100 :
  forall t d0 d1 p0 p1 : N,
    d0 < W128 -> d1 < W128 -> p0 < W128 -> p1 < W128 ->
    D < t -> assert_slippage_tolerance (Some t) d0 d1 p0 p1 = Err EStd.
Proof. exact slippage_over_100. Qed.

Theorem C15_no_abort :
  forall t d0 d1 p0 p1 : N,
    d0 < W128 -> d1 < W128 -> p0 < W128 -> p1 < W128 ->
    t <= D -> d0 <> 0 -> d1 <> 0 -> p0 <> 0 -> p1 <> 0 ->
    assert_slippage_tolerance (Some t) d0 d1 p0 p1 <> Err Panic.
Proof. exact slippage_no_abort. Qed.

Theorem C15_absent : forall d0 d1 p0 p1 : N, assert_slippage_tolerance None d0 d1 p0 p1 = Ok tt.
Proof. exact slippage_none. Qed.

Example C15_nonvacuous :
  assert_slippage_tolerance (Some 10000000000000000) 1000 2000 100000 200000 = Ok tt /\
  assert_slippage_tolerance (Some 10000000000000000) 1000 2000 100000 230000 = Err EMaxSlippage.
Proof. split; vm_compute; reflexivity. Qed.

Print Assumptions C15_sound.
Print Assumptions C15_complete.
Print Assumptions C15_over_100.
Print Assumptions C15_no_abort.
Print Assumptions C15_absent.
Print Assumptions C15_nonvacuous.
