(* C15 — Provision succeeds only within the caller's slippage tolerance.
   t is the tolerance in atomics of 10^-18 (Decimal), d = deposits, p = reserves as the guard sees them. *)
From HT Require Import Base.Prelude Num.Arith Amm.Formulas Amm.Guards World.World Proofs.SlippageProofs Proofs.GuardSysProofs.

(* success implies (d0/d1)(1-t) < p0/p1 + 2*10^-18 and symmetrically (cross-multiplied) *)
Theorem C15_sound :
  forall t d0 d1 p0 p1 : N,
    d0 < W128 -> d1 < W128 -> p0 < W128 -> p1 < W128 ->
    assert_slippage_tolerance (Some t) d0 d1 p0 p1 = Ok tt ->
    t <= D /\
    d0 * (D - t) * p1 < p0 * d1 * D + 2 * d1 * p1 /\
    d1 * (D - t) * p0 < p1 * d0 * D + 2 * d0 * p0.
Proof. exact slippage_sound. Qed.

(* (d_i/d_j)(1-t) <= p_i/p_j - 10^-18 on both sides: never rejected by this guard *)
Theorem C15_complete :
  forall t d0 d1 p0 p1 : N,
    d0 < W128 -> d1 < W128 -> p0 < W128 -> p1 < W128 ->
    t <= D ->
    d0 * (D - t) * p1 + p1 * d1 <= p0 * D * d1 ->
    d1 * (D - t) * p0 + p0 * d0 <= p1 * D * d0 ->
    assert_slippage_tolerance (Some t) d0 d1 p0 p1 <> Err EMaxSlippage.
Proof. exact slippage_complete. Qed.

Theorem C15_over_100 :
  forall t d0 d1 p0 p1 : N,
    d0 < W128 -> d1 < W128 -> p0 < W128 -> p1 < W128 ->
    D < t -> assert_slippage_tolerance (Some t) d0 d1 p0 p1 = Err EStd.
Proof. exact slippage_over_100. Qed.

Theorem C15_no_abort :
  forall t d0 d1 p0 p1 : N,
    d0 < W128 -> d1 < W128 -> p0 < W128 -> p1 < W128 ->
    t <= D -> d0 <> 0 -> d1 <> 0 -> p0 <> 0 -> p1 <> 0 ->
    assert_slippage_tolerance (Some t) d0 d1 p0 p1 <> Err Panic.
Proof. exact slippage_no_abort. Qed.

Theorem C15_absent : forall d0 d1 p0 p1 : N, assert_slippage_tolerance None d0 d1 p0 p1 = Ok tt.
Proof. exact slippage_none. Qed.

Example C15_nonvacuous :
  assert_slippage_tolerance (Some 10000000000000000) 1000 2000 100000 200000 = Ok tt /\
  assert_slippage_tolerance (Some 10000000000000000) 1000 2000 100000 230000 = Err EMaxSlippage.
Proof. split; vm_compute; reflexivity. Qed.

(* system level: a provision that succeeds passed the guard on its own deposits and on the reserves as the
   handler sees them, i.e. net of the caller's native deposit (cw20 reserves as observed); whatever other
   actors did before is the universal quantifier over [w] *)
Theorem C15_sys : forall w p ps c funds l0 n0 l1 n1 tol rcv w',
  pair_provide w p ps c funds l0 n0 l1 n1 tol rcv = Ok w' ->
  exists r0 r1 d0 d1 q0 q1,
    asset_balance w (p_a0 ps) p = Ok r0 /\ asset_balance w (p_a1 ps) p = Ok r1 /\
    deposit_of (p_a0 ps) l0 n0 l1 n1 = Ok d0 /\ deposit_of (p_a1 ps) l0 n0 l1 n1 = Ok d1 /\
    (q0 = if asset_is_native (p_a0 ps) then r0 - d0 else r0) /\
    (q1 = if asset_is_native (p_a1 ps) then r1 - d1 else r1) /\
    assert_slippage_tolerance tol d0 d1 q0 q1 = Ok tt.
Proof. exact pair_provide_guard. Qed.

Print Assumptions C15_sys.
Print Assumptions C15_sound.
Print Assumptions C15_complete.
Print Assumptions C15_over_100.
Print Assumptions C15_no_abort.
Print Assumptions C15_absent.
Print Assumptions C15_nonvacuous.
