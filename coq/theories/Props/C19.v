(* C19 — Pair listing pagination is complete and duplicate-free.
   [assets v] are the two identifiers (as_bytes) recorded in entry v; RegOK = the store is sorted
   strictly by key (cw-storage-plus iteration order) and every record sits under the key of its
   own assets.  The model follows the repaired calc_range_start (see KNOWN_FINDINGS.txt, fixed:). *)
From HT Require Import Base.Prelude Reg.Registry Proofs.RegistryProofs.

(* a page = the next min(limit|10, 30) entries strictly after the cursor entry *)
Theorem C19_page :
  forall (V : Type) (assets : V -> bytes * bytes) (done suf : @store V) (limit : option N),
    Sorted_store (done ++ suf) -> KeyOK assets (done ++ suf) ->
    read_pairs (done ++ suf) (cursor_of assets done) limit = firstn (page_limit limit) suf.
Proof. exact @read_pairs_after. Qed.

(* walking from no cursor with any page size >= 1 (or absent) yields pages whose concatenation is
   exactly the registered entries, each once, and the page after the last one is empty *)
Theorem C19_walk :
  forall (V : Type) (assets : V -> bytes * bytes) (st : @store V) (limit : option N),
    (0 < page_limit limit)%nat -> Sorted_store st -> KeyOK assets st ->
    concat (walk assets (S (length st)) st None limit) = st /\
    read_pairs st (cursor_of assets st) limit = [].
Proof. exact @walk_from_start. Qed.

Theorem C19_no_duplicates :
  forall (V : Type) (st : @store V), Sorted_store st -> NoDup (map fst st).
Proof. exact @sorted_keys_nodup. Qed.

Theorem C19_page_size :
  forall (V : Type) (st : @store V) c limit,
    (length (read_pairs st c limit) <= page_limit limit)%nat /\ (length (read_pairs st c limit) <= 30)%nat.
Proof. exact @read_pairs_size. Qed.

Theorem C19_default_page : page_limit None = 10%nat.
Proof. exact page_limit_default. Qed.

(* the registry the factory builds satisfies the hypotheses: insertion keeps the store sorted *)
Theorem C19_insert_sorted :
  forall (V : Type) k (v : V) (st : @store V), Sorted_store st -> Sorted_store (store_insert k v st).
Proof. exact @insert_sorted. Qed.

(* non-vacuity, and the pre-repair witness: keys "aaabbb" and "aaabbb\0", page size 1 *)
Example C19_nonvacuous :
  let st := store_insert [97;97;97;98;98;98;0] 1 (store_insert [97;97;97;98;98;98] 0 []) in
  let assets := fun i : N => if i =? 0 then ([97;97;97], [98;98;98]) else ([97;97;97], [98;98;98;0]) in
  concat (walk assets 3 st None (Some 1)) = st /\ length st = 2%nat.
Proof. vm_compute. split; reflexivity. Qed.

Print Assumptions C19_page.
Print Assumptions C19_walk.
Print Assumptions C19_no_duplicates.
Print Assumptions C19_page_size.
Print Assumptions C19_default_page.
Print Assumptions C19_insert_sorted.
Print Assumptions C19_nonvacuous.

From HT Require Import World.World World.Observe Proofs.FactoryProofs Proofs.RegHistProofs Proofs.WorldWalkProofs.
From Coq Require Import Sorting.Permutation.
Theorem C19_world_store : forall (enc : asset -> bytes) reg, NoDup (map (rec_key enc) reg) ->
    Sorted_store (store_of enc reg) /\ KeyOK (rec_assets enc) (store_of enc reg) /\
    Permutation (map snd (store_of enc reg)) reg /\ length (store_of enc reg) = length reg.
Proof. exact store_of_facts. Qed.
Print Assumptions C19_world_store.

Theorem C19_world_walk : forall (enc : asset -> bytes) reg limit,
    NoDup (map (rec_key enc) reg) -> (0 < page_limit limit)%nat -> NoDup (map f_pair reg) ->
    let st := store_of enc reg in
    Permutation (map snd (concat (walk (rec_assets enc) (S (length st)) st None limit))) reg /\
    NoDup (map f_pair (map snd (concat (walk (rec_assets enc) (S (length st)) st None limit)))).
Proof. exact world_walk_complete_nodup. Qed.
Print Assumptions C19_world_walk.

Theorem C19_reachable_walk : forall (enc : asset -> bytes) L ubal fbal tdec ops limit,
  let w := run (init_world L ubal fbal tdec) ops in
  no_factory_submitter (init_world L ubal fbal tdec) ops ->
  NoDup (map (rec_key enc) (w_reg w)) -> (0 < page_limit limit)%nat ->
  let st := store_of enc (w_reg w) in
  let listed := map f_pair (map snd (concat (walk (rec_assets enc) (S (length st)) st None limit))) in
  Permutation listed (map f_pair (w_reg w)) /\ NoDup listed.
Proof. exact reachable_walk_lists_every_pair_once. Qed.
Print Assumptions C19_reachable_walk.

Theorem C19_world_walk_example :
  let enc := fun a => match a with ANative d => [110; d] | AToken t => [116; t] end in
  let reg := [ mkRec (ANative 0) (AToken 2) 4 5 6 6 [] 0 0 30;
               mkRec (AToken 3) (ANative 0) 6 7 6 6 [] 0 0 30;
               mkRec (ANative 0) (ANative 1) 8 9 6 6 [] 0 0 30 ] in
  let st := store_of enc reg in
  let pages := fun limit => map (fun pg => map f_pair (map snd pg)) (walk (rec_assets enc) (S (length st)) st None limit) in
  let listed := fun limit => map f_pair (map snd (concat (walk (rec_assets enc) (S (length st)) st None limit))) in
  map f_pair reg = [4; 6; 8] /\
  map fst st = [[110; 0; 110; 1]; [110; 0; 116; 2]; [110; 0; 116; 3]] /\
  listed (Some 1) = [8; 4; 6] /\ listed (Some 2) = [8; 4; 6] /\ listed None = [8; 4; 6] /\
  pages (Some 1) = [[8]; [4]; [6]] /\ pages (Some 2) = [[8; 4]; [6]] /\ pages None = [[8; 4; 6]].
Proof. exact world_walk_example. Qed.
Print Assumptions C19_world_walk_example.
