(* C19 — Pair listing pagination is complete and duplicate-free.
   [assets v] are the two identifiers (as_bytes) recorded in entry v; RegOK = the store is sorted
   strictly by key (cw-storage-plus iteration order) and every record sits under the key of its
   own assets.  The model follows the repaired calc_range_start (see KNOWN_FINDINGS.txt, fixed:). *)
From HT Require Import Base.Prelude Reg.Registry Proofs.RegistryProofs.

(* a page = the next min(limit|10, 30) entries strictly after the cursor entry *)
Theorem C19_page :
  forall (V : Type) (assets : V -> bytes * bytes) (done suf : @store V) (limit : option N),
    Sorted_store (done ++ suf) -> KeyOK assets (done ++ suf) ->
    read_pairs (done ++ suf) (cursor_of assets done) limit = firstn (page_limit limit) suf.
Proof. exact @read_pairs_after. Qed.

(* walking from no cursor with any page size >= 1 (or absent) yields pages whose concatenation is
   exactly the registered entries, each once, and the page after the last one is empty *)
Theorem C19_walk :
  forall (V : Type) (assets : V -> bytes * bytes) (st : @store V) (limit : option N),
    (0 < page_limit limit)%nat -> Sorted_store st -> KeyOK assets st ->
    concat (walk assets (S (length st)) st None limit) = st /\
    read_pairs st (cursor_of assets st) limit = [].
Proof. exact @walk_from_start. Qed.

Theorem C19_no_duplicates :
  forall (V : Type) (st : @store V), Sorted_store st -> NoDup (map fst st).
Proof. exact @sorted_keys_nodup. Qed.

Theorem C19_page_size :
  forall (V : Type) (st : @store V) c limit,
    (length (read_pairs st c limit) <= page_limit limit)%nat /\ (length (read_pairs st c limit) <= 30)%nat.
Proof. exact @read_pairs_size. Qed.

Theorem C19_default_page : page_limit None = 10%nat.
Proof. exact page_limit_default. Qed.

(* the registry the factory builds satisfies the hypotheses: insertion keeps the store sorted *)
Theorem C19_insert_sorted :
  forall (V : Type) k (v : V) (st : @store V), Sorted_store st -> Sorted_store (store_insert k v st).
Proof. exact @insert_sorted. Qed.

(* non-vacuity, and the pre-repair witness: keys "aaabbb" and "aaabbb\0", page size 1 *)
Example C19_nonvacuous :
  let st := store_insert [97;97;97;98;98;98;0] 1 (store_insert [97;97;97;98;98;98] 0 []) in
  let assets := fun i : N => if i =? 0 then ([97;97;97], [98;98;98]) else ([97;97;97], [98;98;98;0]) in
  concat (walk assets 3 st None (Some 1)) = st /\ length st = 2%nat.
Proof. vm_compute. split; reflexivity. Qed.

Print Assumptions C19_page.
Print Assumptions C19_walk.
Print Assumptions C19_no_duplicates.
Print Assumptions C19_page_size.
Print Assumptions C19_default_page.
Print Assumptions C19_insert_sorted.
Print Assumptions C19_nonvacuous.
