(* C12 — Quotes are faithful to execution.
   Function level (this block): reverse simulation = documented closed form within its rounding bound.
   System level (forward simulation = execution, router folds) is stated over the world model in the
   second block, added with World/. *)
From HT Require Import Base.Prelude Num.Arith Amm.Formulas Proofs.ReverseProofs.

(* compute_offer_amount x y k c = Ok (o, _, m):  o = floor(x*y/(y - t)) - x  where t is the ask amount
   grossed up by 1/(1-c), with  k/(1-c) - k/10^18 - 1 < t <= k/(1-c)  (cross-multiplied) *)
Theorem C12_reverse :
  forall x y k c o s m : N,
    x < W128 -> y < W128 -> k < W128 ->
    compute_offer_amount x y k c = Ok (o, s, m) ->
    c < D /\
    exists t,
      t < y /\
      t * (D - c) <= k * D /\
      k * D * D < (t + 1) * D * (D - c) + k * (D - c) /\
      o = x * y / (y - t) - x /\
      m = t * c / D.
Proof. exact reverse_bounds. Qed.

(* never above the closed form: replacing t by anything larger (the exact k/(1-c)) only raises the quotient *)
Theorem C12_reverse_never_above :
  forall x y t t' : N, t <= t' -> t' < y -> x * y / (y - t) <= x * y / (y - t').
Proof. exact reverse_le_closed_form. Qed.

(* exact abort set and value in closed form *)
Theorem C12_reverse_closed_form :
  forall x y k c : N,
    x < W128 -> y < W128 -> k < W128 ->
    compute_offer_amount x y k c = compute_offer_amount_spec x y k c.
Proof. exact compute_offer_amount_eq_spec. Qed.

Example C12_nonvacuous :
  compute_offer_amount 30000000000 20000000000 949523810 3000000000000000 = Ok (1499999999, 47619047, 2857142).
Proof. vm_compute. reflexivity. Qed.

Print Assumptions C12_reverse.
Print Assumptions C12_reverse_never_above.
Print Assumptions C12_reverse_closed_form.
Print Assumptions C12_nonvacuous.
