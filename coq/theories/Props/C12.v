(* C12 — Quotes are faithful to execution.
   Function level (this block): reverse simulation = documented closed form within its rounding bound.
   System level (forward simulation = execution, router folds) is stated over the world model in the
   second block, added with World/. *)
From HT Require Import Base.Prelude Num.Arith Amm.Formulas Amm.Guards World.World Proofs.ReverseProofs Proofs.RouterProofs.

(* compute_offer_amount x y k c = Ok (o, _, m):  o = floor(x*y/(y - t)) - x  where t is the ask amount
   grossed up by 1/(1-c), with  k/(1-c) - k/10^18 - 1 < t <= k/(1-c)  (cross-multiplied) *)
Theorem C12_reverse :
  forall x y k c o s m : N,
    x < W128 -> y < W128 -> k < W128 ->
    compute_offer_amount x y k c = Ok (o, s, m) ->
    c < D /\
    exists t,
      t < y /\
      t * (D - c) <= k * D /\
      k * D * D < (t + 1) * D * (D - c) + k * (D - c) /\
      o = x * y / (y - t) - x /\
      m = t * c / D.
Proof. exact reverse_bounds. Qed.

(* never above the closed form: replacing t by anything larger (the exact k/(1-c)) only raises the quotient *)
Theorem C12_reverse_never_above :
  forall x y t t' : N, t <= t' -> t' < y -> x * y / (y - t) <= x * y / (y - t').
Proof. exact reverse_le_closed_form. Qed.

(* exact abort set and value in closed form *)
Theorem C12_reverse_closed_form :
  forall x y k c : N,
    x < W128 -> y < W128 -> k < W128 ->
    compute_offer_amount x y k c = compute_offer_amount_spec x y k c.
Proof. exact compute_offer_amount_eq_spec. Qed.

Example C12_nonvacuous :
  compute_offer_amount 30000000000 20000000000 949523810 3000000000000000 = Ok (1499999999, 47619047, 2857142).
Proof. vm_compute. reflexivity. Qed.

(* ---- system level ---- *)
(* forward simulation in the state before the offer arrives = what the immediately following swap computes *)
Theorem C12_forward : forall w w1 p ps funds sender offer amount bp ms to w' out r0 r1,
  w_pairs w p = Some ps -> asset_eqb (p_a0 ps) (p_a1 ps) = false ->
  asset_balance w (p_a0 ps) p = Ok r0 -> asset_balance w (p_a1 ps) p = Ok r1 ->
  asset_balance w1 (p_a0 ps) p = Ok (r0 + (if asset_eqb offer (p_a0 ps) then amount else 0)) ->
  asset_balance w1 (p_a1 ps) p = Ok (r1 + (if asset_eqb offer (p_a1 ps) then amount else 0)) ->
  pair_swap w1 p ps funds sender offer amount bp ms to = Ok (w', out) ->
  q_simulation w p offer amount = Ok out.
Proof. exact swap_matches_simulation. Qed.

(* the router's simulations are the hop-by-hop composition of the pair queries through the factory lookup *)
Theorem C12_router_forward_step : forall w o a amount,
  q_router_simulate w amount [(o, a)] =
  match reg_find (w_reg w) o a with
  | None => Err EStd
  | Some r => let* out := q_simulation w (f_pair r) o amount in let '(ret, _, _) := out in Ok ret
  end.
Proof. exact q_router_simulate_step. Qed.
Theorem C12_router_forward_compose : forall w ops1 ops2 amount,
  q_router_simulate w amount (ops1 ++ ops2) = (let* x := q_router_simulate w amount ops1 in q_router_simulate w x ops2).
Proof. exact q_router_simulate_app. Qed.
Theorem C12_router_reverse_compose : forall w l1 l2 amount,
  is_ok (q_router_reverse w amount (l1 ++ l2)) =
  is_ok (let* x := q_router_reverse w amount l1 in q_router_reverse w x l2) /\
  (forall v, q_router_reverse w amount (l1 ++ l2) = Ok v <->
             (let* x := q_router_reverse w amount l1 in q_router_reverse w x l2) = Ok v).
Proof. exact q_router_reverse_app. Qed.

Print Assumptions C12_forward.
Print Assumptions C12_router_forward_step.
Print Assumptions C12_router_forward_compose.
Print Assumptions C12_router_reverse_compose.
Print Assumptions C12_reverse.
Print Assumptions C12_reverse_never_above.
Print Assumptions C12_reverse_closed_form.
Print Assumptions C12_nonvacuous.
