(* C02 — Swap settlement moves exactly the declared asset and amounts.
   [bal w x a] is account a's balance of asset x; [same_config w w'] says nothing but balances moved
   (pairs, registry, owner, supplies, allowances, minters unchanged).  The model follows the repaired
   receive_cw20 (KNOWN_FINDINGS.txt, fixed: C02). *)
From HT Require Import Base.Prelude Num.Arith Amm.Formulas Amm.Guards World.World Proofs.AuthProofs Proofs.LedgerProofs.

(* a single payment moves exactly n of asset x from -> to and nothing else (aliasing included) *)
Theorem C02_payment : forall w from x n to w', pay_asset w from x n to = Ok w' ->
  n <> 0 /\ n <= bal w x from /\ same_config w w' /\
  (forall y a, bal w' y a =
     if asset_eqb y x then
       (if from =? to then bal w x a
        else if a =? from then bal w x a - n else if a =? to then bal w x a + n else bal w x a)
     else bal w y a).
Proof. exact pay_asset_effect. Qed.

(* the swap proper: priced on the reserves net of the delivered offer; exactly [ret] of the ask asset
   moves pair -> receiver; nothing else changes.  [w] already contains the delivered offer. *)
Theorem C02_settlement : forall w p ps funds sender offer amount bp ms to w' ret spread comm,
  pair_swap w p ps funds sender offer amount bp ms to = Ok (w', (ret, spread, comm)) ->
  let ask := if asset_eqb offer (p_a0 ps) then p_a1 ps else p_a0 ps in
  let rcv := match to with Some t => t | None => sender end in
  (asset_eqb offer (p_a0 ps) = true \/ asset_eqb offer (p_a1 ps) = true) /\
  (exists x y, compute_swap x y amount (p_comm ps) = Ok (ret, spread, comm) /\
               x + amount = bal w offer p /\ y = bal w ask p) /\
  same_config w w' /\
  (forall z a, bal w' z a =
     if asset_eqb z ask && negb (ret =? 0) && negb (p =? rcv) then
       (if a =? p then bal w ask a - ret else if a =? rcv then bal w ask a + ret else bal w ask a)
     else bal w z a).
Proof. exact pair_swap_settlement. Qed.

(* the two entry paths deliver exactly the named asset and amount in the same transaction:
   execute-swap: the offer is native and the attached coin of that denom equals the named amount *)
Theorem C02_delivered_execute : forall w p c funds offer amount bp ms to w',
  exec w (OSwap p c funds offer amount bp ms to) = Ok w' ->
  exists ps w1 out, w_pairs w p = Some ps /\ move_funds w c p funds = Ok w1 /\ asset_is_native offer = true /\
    funds_of offer funds amount = Ok tt /\ pair_swap w1 p ps funds c offer amount bp ms to = Ok (w', out).
Proof. exact exec_swap_decompose. Qed.
(* hook swap: the named asset IS the token that was sent, the named amount IS the amount sent *)
Theorem C02_delivered_hook : forall w ta sender p n offer amount bp ms to w' ps,
  w_pairs w p = Some ps ->
  cw20_send w ta sender p n (HSwap offer amount bp ms to) = Ok w' ->
  exists w1 out, with_token w ta (fun t => tok_transfer t sender p n) = Ok w1 /\
    offer = AToken ta /\ amount = n /\ (p_a0 ps = AToken ta \/ p_a1 ps = AToken ta) /\
    pair_swap w1 p ps [] sender offer amount bp ms to = Ok (w', out).
Proof. exact cw20_send_swap_decompose. Qed.
(* attached funds (pairwise distinct denoms) move exactly the attached coins caller -> pair *)
Theorem C02_attached_funds : forall w from to funds w', move_funds w from to funds = Ok w' ->
  NoDup (map fst funds) -> from <> to -> same_config w w' /\
  (forall t a, bal w' (AToken t) a = bal w (AToken t) a) /\
  (forall d a, let v := match find (fun c => fst c =? d) funds with Some c => snd c | None => 0 end in
     w_bank w' a d = if a =? from then w_bank w a d - v else if a =? to then w_bank w a d + v else w_bank w a d).
Proof. exact move_funds_effect. Qed.
(* a hook whose named asset differs from the calling token is rejected (the repaired defect) *)
Theorem C02_hook_confusion_rejected : forall w p ps c funds cs ca offer amount bp ms to w',
  pair_receive w p ps c funds cs ca (HSwap offer amount bp ms to) = Ok w' ->
  (p_a0 ps = AToken c \/ p_a1 ps = AToken c) /\ offer = AToken c /\ amount = ca.
Proof. exact pair_receive_swap_auth. Qed.

Print Assumptions C02_payment.
Print Assumptions C02_settlement.
Print Assumptions C02_delivered_execute.
Print Assumptions C02_delivered_hook.
Print Assumptions C02_attached_funds.
Print Assumptions C02_hook_confusion_rejected.

From HT Require Import Proofs.WFProofs Proofs.TxEffectProofs.
Theorem C02_tx_native : forall w p ps c d amount bp ms to w',
  WF w -> w_pairs w p = Some ps -> c <> p ->
  exec w (OSwap p c [(d, amount)] (ANative d) amount bp ms to) = Ok w' ->
  let offer := ANative d in
  let ask := if asset_eqb offer (p_a0 ps) then p_a1 ps else p_a0 ps in
  let rcv := match to with Some t => t | None => c end in
  rcv <> p ->
  exists ret spread comm,
    compute_swap (bal w offer p) (bal w ask p) amount (p_comm ps) = Ok (ret, spread, comm) /\
    bal w' offer p = bal w offer p + amount /\
    bal w' ask p + ret = bal w ask p /\
    (rcv <> c -> bal w' ask rcv = bal w ask rcv + ret /\ bal w' offer c + amount = bal w offer c /\ bal w' ask c = bal w ask c) /\
    (rcv = c -> bal w' ask c = bal w ask c + ret /\ bal w' offer c + amount = bal w offer c) /\
    (forall z a, a <> p -> a <> c -> a <> rcv -> bal w' z a = bal w z a).
Proof. exact tx_swap_native_effect. Qed.
Print Assumptions C02_tx_native.

Theorem C02_tx_hook : forall w ta sender p ps n offer amount bp ms to w',
  WF w -> w_pairs w p = Some ps -> sender <> p ->
  exec w (OSend ta sender p n (HSwap offer amount bp ms to)) = Ok w' ->
  let ask := if asset_eqb offer (p_a0 ps) then p_a1 ps else p_a0 ps in
  let rcv := match to with Some t => t | None => sender end in
  rcv <> p ->
  offer = AToken ta /\ amount = n /\
  exists ret spread comm,
    compute_swap (bal w offer p) (bal w ask p) amount (p_comm ps) = Ok (ret, spread, comm) /\
    bal w' offer p = bal w offer p + amount /\
    bal w' ask p + ret = bal w ask p /\
    (rcv <> sender -> bal w' ask rcv = bal w ask rcv + ret /\ bal w' offer sender + amount = bal w offer sender /\ bal w' ask sender = bal w ask sender) /\
    (rcv = sender -> bal w' ask sender = bal w ask sender + ret /\ bal w' offer sender + amount = bal w offer sender) /\
    (forall z a, a <> p -> a <> sender -> a <> rcv -> bal w' z a = bal w z a).
Proof. exact tx_swap_hook_effect. Qed.
Print Assumptions C02_tx_hook.
