From HT Require Import Base.Prelude World.World.
(* placeholder until the settlement theorems land *)
Theorem C02_failed_tx_unchanged : forall w o e, exec w o = Err e -> step w o = w.
Proof. intros w o e H. unfold step. now rewrite H. Qed.
Print Assumptions C02_failed_tx_unchanged.
