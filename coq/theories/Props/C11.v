(* C11 — Router delivers at least minimum_receive or the whole route reverts.
   [w] in [C11_min_receive] is the world after the entry transfer (attached funds / cw20 send) and
   before the first hop, so the bound is net of whatever the recipient itself paid. *)
From HT Require Import Base.Prelude Num.Arith Amm.Formulas Amm.Guards World.World Proofs.AuthProofs Proofs.RouterProofs.

Theorem C11_min_receive : forall w sender ops m to w',
  router_exec_ops w sender ops (Some m) to = Ok w' ->
  let rcv := match to with Some t => t | None => sender end in
  let target := last_ask ops in
  exists prev now, asset_balance w target rcv = Ok prev /\ asset_balance w' target rcv = Ok now /\ prev + m <= now.
Proof. exact router_min_receive. Qed.

Theorem C11_assert_message : forall w target prev m rcv w', router_assert_min w target prev m rcv = Ok w' ->
  w' = w /\ exists now, asset_balance w target rcv = Ok now /\ prev <= now /\ m <= now - prev.
Proof. exact router_assert_min_spec. Qed.

(* both entry points reduce to it *)
Theorem C11_entry_native : forall w c funds ops m to w', exec w (ORouterOps c funds ops (Some m) to) = Ok w' ->
  exists w1, move_funds w c (w_rtr w) funds = Ok w1 /\ router_exec_ops w1 c ops (Some m) to = Ok w'.
Proof. exact exec_router_ops_min. Qed.
Theorem C11_entry_cw20 : forall w ta sender n ops m to w',
  w_pairs w (w_rtr w) = None ->
  cw20_send w ta sender (w_rtr w) n (HRouterOps ops m to) = Ok w' ->
  exists w1, with_token w ta (fun t => tok_transfer t sender (w_rtr w) n) = Ok w1 /\
             router_exec_ops w1 sender ops m to = Ok w'.
Proof. exact cw20_send_router_decompose. Qed.

(* if the route would deliver less the whole transaction fails and nothing changes *)
Theorem C11_failed_unchanged : forall w o e, exec w o = Err e -> step w o = w.
Proof. exact step_failed_unchanged. Qed.

Print Assumptions C11_min_receive.
Print Assumptions C11_assert_message.
Print Assumptions C11_entry_native.
Print Assumptions C11_entry_cw20.
Print Assumptions C11_failed_unchanged.
