(* C11 — Router delivers at least minimum_receive or the whole route reverts.
   [w] in [C11_min_receive] is the world after the entry transfer (attached funds / cw20 send) and
   before the first hop, so the bound is net of whatever the recipient itself paid. *)
From HT Require Import Base.Prelude Num.Arith Amm.Formulas Amm.Guards World.World Proofs.AuthProofs Proofs.RouterProofs.

Theorem C11_min_receive : forall w sender ops m to w',
  router_exec_ops w sender ops (Some m) to = Ok w' ->
  let rcv := match to with Some t => t | None => sender end in
  let target := last_ask ops in
  exists prev now, asset_balance w target rcv = Ok prev /\ asset_balance w' target rcv = Ok now /\ prev + m <= now.
Proof. exact router_min_receive. Qed.

Theorem C11_assert_message : forall w target prev m rcv w', router_assert_min w target prev m rcv = Ok w' ->
  w' = w /\ exists now, asset_balance w target rcv = Ok now /\ prev <= now /\ m <= now - prev.
Proof. exact router_assert_min_spec. Qed.

(* both entry points reduce to it *)
Theorem C11_entry_native : forall w c funds ops m to w', exec w (ORouterOps c funds ops (Some m) to) = Ok w' ->
  exists w1, move_funds w c (w_rtr w) funds = Ok w1 /\ router_exec_ops w1 c ops (Some m) to = Ok w'.
Proof. exact exec_router_ops_min. Qed.
Theorem C11_entry_cw20 : forall w ta sender n ops m to w',
  w_pairs w (w_rtr w) = None ->
  cw20_send w ta sender (w_rtr w) n (HRouterOps ops m to) = Ok w' ->
  exists w1, with_token w ta (fun t => tok_transfer t sender (w_rtr w) n) = Ok w1 /\
             router_exec_ops w1 sender ops m to = Ok w'.
Proof. exact cw20_send_router_decompose. Qed.

(* if the route would deliver less the whole transaction fails and nothing changes *)
Theorem C11_failed_unchanged : forall w o e, exec w o = Err e -> step w o = w.
Proof. exact step_failed_unchanged. Qed.

Print Assumptions C11_min_receive.
Print Assumptions C11_assert_message.
Print Assumptions C11_entry_native.
Print Assumptions C11_entry_cw20.
Print Assumptions C11_failed_unchanged.

From HT Require Import World.Observe World.Monitors Proofs.LedgerProofs Proofs.FrameProofs Proofs.RouterTxProofs.
Theorem C11_tx_native : forall w c funds ops m to w',
  NoDup (map fst funds) ->
  exec w (ORouterOps c funds ops (Some m) to) = Ok w' ->
  let rcv := match to with Some t => t | None => c end in
  let target := last_ask ops in
  let paid := match target with ANative d => coins_of d funds | AToken _ => 0 end in
  exists before after,
    asset_balance w target rcv = Ok before /\ asset_balance w' target rcv = Ok after /\
    before + m <= after + (if rcv =? c then paid else 0).
Proof. exact router_tx_native_min. Qed.
Print Assumptions C11_tx_native.

Theorem C11_tx_native_total : forall w c funds ops m to w',
  exec w (ORouterOps c funds ops (Some m) to) = Ok w' ->
  let rcv := match to with Some t => t | None => c end in
  let target := last_ask ops in
  let paid := match target with ANative d => coins_total d funds | AToken _ => 0 end in
  exists before after,
    asset_balance w target rcv = Ok before /\ asset_balance w' target rcv = Ok after /\
    before + m <= after + (if rcv =? c then paid else 0).
Proof. exact router_tx_native_min_total. Qed.
Print Assumptions C11_tx_native_total.

Theorem C11_tx_native_other_recipient : forall w c funds ops m t w',
  t <> c ->
  exec w (ORouterOps c funds ops (Some m) (Some t)) = Ok w' ->
  exists before after,
    asset_balance w (last_ask ops) t = Ok before /\ asset_balance w' (last_ask ops) t = Ok after /\
    before + m <= after.
Proof. exact router_tx_native_min_other. Qed.
Print Assumptions C11_tx_native_other_recipient.

Theorem C11_tx_cw20 : forall w ta sender n ops m to w',
  w_pairs w (w_rtr w) = None ->
  exec w (OSend ta sender (w_rtr w) n (HRouterOps ops (Some m) to)) = Ok w' ->
  let rcv := match to with Some t => t | None => sender end in
  let target := last_ask ops in
  let paid := match target with AToken t => if t =? ta then n else 0 | ANative _ => 0 end in
  exists before after,
    asset_balance w target rcv = Ok before /\ asset_balance w' target rcv = Ok after /\
    before + m <= after + (if rcv =? sender then paid else 0).
Proof. exact router_tx_cw20_min. Qed.
Print Assumptions C11_tx_cw20.

Theorem C11_tx_example :
  (exists ps, w_pairs tx_w 4 = Some ps /\ p_a0 ps = ANative 0 /\ p_a1 ps = AToken 2 /\
              asset_balance tx_w (ANative 0) 4 = Ok 1000000 /\ asset_balance tx_w (AToken 2) 4 = Ok 1000000) /\
  q_router_simulate_ops tx_w 5000 tx_route = Ok 4961 /\
  asset_balance tx_w (AToken 2) 1001 = Ok 1000000000000 /\
  (exists w', exec tx_w (ORouterOps 1001 [(0, 5000)] tx_route (Some 4961) None) = Ok w' /\
              asset_balance w' (AToken 2) 1001 = Ok (1000000000000 + 4961)) /\
  (exists e, exec tx_w (ORouterOps 1001 [(0, 5000)] tx_route (Some (4961 + 1)) None) = Err e).
Proof. exact router_tx_example. Qed.
Print Assumptions C11_tx_example.

Theorem C11_tx_native_needs_distinct_coins : ~ (forall w c funds ops m to w',
  exec w (ORouterOps c funds ops (Some m) to) = Ok w' ->
  let rcv := match to with Some t => t | None => c end in
  let target := last_ask ops in
  let paid := match target with ANative d => coins_of d funds | AToken _ => 0 end in
  exists before after,
    asset_balance w target rcv = Ok before /\ asset_balance w' target rcv = Ok after /\
    before + m <= after + (if rcv =? c then paid else 0)).
Proof. exact router_tx_native_min_false. Qed.
Print Assumptions C11_tx_native_needs_distinct_coins.
