From HT Require Import Base.Prelude World.World.
(* placeholder until the registry-walk theorems land *)
Theorem C17_failed_tx_unchanged : forall w o e, exec w o = Err e -> step w o = w.
Proof. intros w o e H. unfold step. now rewrite H. Qed.
Print Assumptions C17_failed_tx_unchanged.
