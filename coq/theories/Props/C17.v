(* C17 — Native-decimals updates reach every affected pair.
   [RegOK w]: every factory record agrees field by field with the pair contract it names, the two
   assets of a record differ, pair addresses are distinct and no two records have the same asset set.
   [rec_updated dn k r] is r with decimals k in the position(s) holding native denom dn.
   The model follows the repaired execute_add_native_token_decimals (KNOWN_FINDINGS.txt, fixed: C17). *)
From HT Require Import Base.Prelude Num.Arith Amm.Formulas Amm.Guards World.World Proofs.FactoryProofs.

(* re-registration: the denom table, EVERY record and (through RegOK w') every pair's own description
   carry the new value in the denom's position; pairs without the denom, balances, owner untouched.
   Induction over the unbounded registry list. *)
Theorem C17_update : forall w c dn k w' old,
  RegOK w -> w_natives w dn = Some old -> fac_add_native w c dn k = Ok w' ->
  c = w_owner w /\ w_natives w' dn = Some k /\ (forall d, d <> dn -> w_natives w' d = w_natives w d) /\
  w_reg w' = map (rec_updated dn k) (w_reg w) /\ RegOK w' /\
  (forall q, (forall r, In r (w_reg w) -> f_pair r <> q) -> w_pairs w' q = w_pairs w q) /\
  w_bank w' = w_bank w /\ w_next w' = w_next w /\ w_owner w' = w_owner w.
Proof. exact fac_add_native_reaches_all. Qed.

Theorem C17_first_registration : forall w c dn k w',
  w_natives w dn = None -> fac_add_native w c dn k = Ok w' ->
  c = w_owner w /\ w_natives w' dn = Some k /\ w_reg w' = w_reg w /\ w_pairs w' = w_pairs w /\ w_bank w' = w_bank w.
Proof. exact fac_add_native_fresh. Qed.

(* record and self-description never diverge: RegOK holds initially and is kept by creations,
   registrations and by anything that leaves registry and pair descriptions alone *)
Theorem C17_consistent_init : forall w, w_reg w = [] -> RegOK w.
Proof. exact RegOK_empty. Qed.
Theorem C17_consistent_create : forall w c a0 a1 wl m0 m1 cm ld w',
  RegOK w -> (forall q, w_next w <= q -> w_pairs w q = None) ->
  fac_create_pair w c a0 a1 wl m0 m1 cm ld = Ok w' -> RegOK w' /\ (forall q, w_next w' <= q -> w_pairs w' q = None).
Proof. exact fac_create_pair_RegOK. Qed.
Theorem C17_consistent_frame : forall w w',
  RegOK w -> w_reg w' = w_reg w -> w_pairs w' = w_pairs w -> w_fac w' = w_fac w -> w_next w' = w_next w -> RegOK w'.
Proof. exact RegOK_same_config. Qed.

Print Assumptions C17_update.
Print Assumptions C17_first_registration.
Print Assumptions C17_consistent_init.
Print Assumptions C17_consistent_create.
Print Assumptions C17_consistent_frame.

From HT Require Import Proofs.WFProofs Proofs.RegHistProofs.
Theorem C17_step : forall w o w',
  WF w -> RegOK w -> submitter o <> w_fac w -> exec w o = Ok w' -> RegOK w'.
Proof. exact exec_preserves_RegOK. Qed.
Print Assumptions C17_step.

Theorem C17_history : forall ops w,
  WF w -> RegOK w -> no_factory_submitter w ops -> WF (run w ops) /\ RegOK (run w ops).
Proof. exact run_preserves_RegOK. Qed.
Print Assumptions C17_history.

From HT Require Import World.Observe Proofs.InitProofs.
Theorem C17_start : forall L ubal fbal tdec, RegOK (init_world L ubal fbal tdec).
Proof. exact init_world_RegOK. Qed.
Print Assumptions C17_start.

From HT Require Import Proofs.DecimalsHistProofs.
Theorem C17_decimals_step : forall w o w',
  WF w -> RegOK w -> DecOK w -> submitter o <> w_fac w -> exec w o = Ok w' -> DecOK w'.
Proof. exact exec_preserves_DecOK. Qed.
Print Assumptions C17_decimals_step.

Theorem C17_decimals_history : forall ops w,
  WF w -> RegOK w -> DecOK w -> no_factory_submitter w ops -> DecOK (run w ops).
Proof. exact run_preserves_DecOK. Qed.
Print Assumptions C17_decimals_history.

Theorem C17_decimals_start : forall L ubal fbal tdec, DecOK (init_world L ubal fbal tdec).
Proof. exact init_world_DecOK. Qed.
Print Assumptions C17_decimals_start.

Theorem C17_registered_decimals_reach_every_pair : forall L ubal fbal tdec ops r dn,
  let w0 := init_world L ubal fbal tdec in
  no_factory_submitter w0 ops ->
  let w := run w0 ops in
  In r (w_reg w) ->
  (f_a0 r = ANative dn -> w_natives w dn = Some (f_d0 r)) /\
  (f_a1 r = ANative dn -> w_natives w dn = Some (f_d1 r)) /\
  exists ps, w_pairs w (f_pair r) = Some ps /\ p_d0 ps = f_d0 r /\ p_d1 ps = f_d1 r.
Proof. exact registered_decimals_reach_every_pair. Qed.
Print Assumptions C17_registered_decimals_reach_every_pair.

Theorem C17_decimals_example :
  dh_all_ok dh_w0 (dh_setup ++ dh_later) = true /\
  no_factory_submitter dh_w0 (dh_setup ++ dh_later) /\
  DecOK (run dh_w0 (dh_setup ++ dh_later)) /\
  (* before the re-registrations: 6 everywhere *)
  map (dh_pair_view (run dh_w0 dh_setup)) [4; 6; 8] =
    [Some (ANative 0, AToken 2, 6, 6); Some (AToken 3, ANative 0, 6, 6); Some (ANative 0, ANative 1, 6, 6)] /\
  map (dh_rec_view (run dh_w0 dh_setup)) [4; 6; 8] =
    [Some (ANative 0, AToken 2, 6, 6); Some (AToken 3, ANative 0, 6, 6); Some (ANative 0, ANative 1, 6, 6)] /\
  (* after them: 12 in the slot of denom 0 (first, second, first), the other slots unchanged *)
  map (dh_pair_view (run dh_w0 (dh_setup ++ dh_later))) [4; 6; 8] =
    [Some (ANative 0, AToken 2, 12, 6); Some (AToken 3, ANative 0, 6, 12); Some (ANative 0, ANative 1, 12, 6)] /\
  map (dh_rec_view (run dh_w0 (dh_setup ++ dh_later))) [4; 6; 8] =
    [Some (ANative 0, AToken 2, 12, 6); Some (AToken 3, ANative 0, 6, 12); Some (ANative 0, ANative 1, 12, 6)] /\
  w_natives (run dh_w0 (dh_setup ++ dh_later)) 0 = Some 12 /\
  w_natives (run dh_w0 (dh_setup ++ dh_later)) 1 = Some 6.
Proof. exact decok_example. Qed.
Print Assumptions C17_decimals_example.
