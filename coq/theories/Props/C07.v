(* C07 — Operations never touch third-party balances and conserve token totals.
   [touched w o]: the caller, the contract addressed (and the pairs on a route), the designated
   receiver, and for a provision the LP token's own address (it receives the locked reserved unit of LP
   supply).  [frame l w w']: every account outside l keeps every balance of every asset.
   The hypothesis [forall q, w_next w <= q -> w_tokens w q = None] says contract addresses not yet
   allocated hold no contract (true of every reachable world: addresses are allocated in order); without
   it the model's CreatePair could overwrite a pre-existing token record ([exec_frame_false] in
   Proofs/FrameProofs.v is the machine-checked counterexample on such an unreachable world).
   [C07_conserves]: EVERY operation conserves the total of every asset over any duplicate-free roster
   containing the accounts it touches, except the assets in [supply_changing w o]: a cw20's own mint /
   burn and the LP token of the pair for a provision or a withdrawal.  "LP supply changes only by
   provision / withdrawal" is that exception list together with C04_sys and C05_supply (by exactly the
   burned / minted amount). *)
From HT Require Import Base.Prelude Num.Arith Amm.Formulas Amm.Guards World.World World.Observe Proofs.LedgerProofs Proofs.FrameProofs Proofs.AuthProofs Proofs.WFProofs Proofs.ReachProofs Proofs.ConserveProofs.

Theorem C07_frame : forall w o w', (forall q, w_next w <= q -> w_tokens w q = None) ->
  exec w o = Ok w' -> frame (touched w o) w w'.
Proof. exact exec_frame_variant. Qed.

(* every operation other than pair creation needs no hypothesis at all *)
Theorem C07_frame_unconditional : forall w o w', exec w o = Ok w' ->
  match o with OFacCreatePair _ _ _ _ _ _ _ _ => True | _ => frame (touched w o) w w' end.
Proof. exact exec_frame_nocreate. Qed.

(* factory operations move no balance *)
Theorem C07_factory_moves_nothing : forall w o w', (forall q, w_next w <= q -> w_tokens w q = None) -> exec w o = Ok w' ->
  match o with OFacUpdateConfig _ _ | OFacCreatePair _ _ _ _ _ _ _ _ | OFacAddNative _ _ _ | OFacMigrate _ _ => frame [] w w' | _ => True end.
Proof. exact fac_ops_frame_variant. Qed.

(* a route touches only the router, the sender, the pairs on the route and the recipient *)
Theorem C07_route_frame : forall w sender ops m to w', router_exec_ops w sender ops m to = Ok w' ->
  frame (w_rtr w :: sender :: route_pairs w ops ++ opt_list to) w w'.
Proof. exact router_exec_ops_frame. Qed.

(* conservation: over any duplicate-free roster containing both ends the per-asset total is unchanged *)
Theorem C07_payment_conserves : forall w from x n to w' l, pay_asset w from x n to = Ok w' ->
  NoDup l -> In from l -> In to l -> forall y, sum_bal w' y l = sum_bal w y l.
Proof. exact pay_asset_conserves. Qed.
Theorem C07_swap_conserves : forall w p ps funds sender offer amount bp ms to r l,
  pair_swap w p ps funds sender offer amount bp ms to = Ok r ->
  NoDup l -> In p l -> In sender l -> (forall t, to = Some t -> In t l) -> forall y, sum_bal (fst r) y l = sum_bal w y l.
Proof. exact pair_swap_conserves. Qed.

(* a failed transaction changes nothing *)
Theorem C07_failed_tx_unchanged : forall w o e, exec w o = Err e -> step w o = w.
Proof. exact step_failed_unchanged. Qed.

(* history level: the freshness hypothesis holds in every reachable world.  [WF] is the structural
   invariant (unallocated addresses hold no contract; every pair has its own LP token minted only by it,
   two different assets neither of which is the LP token, live asset tokens, commission <= 1, the
   factory as its factory); it holds for any world without pairs and is preserved by EVERY operation,
   hence by every history (induction over [run]). *)
Theorem C07_WF_start : forall w, (forall p, w_pairs w p = None) -> (forall q, w_next w <= q -> w_tokens w q = None) -> WF w.
Proof. exact WF_no_pairs. Qed.
(* non-vacuity: the initial world of every correspondence history satisfies it *)
Theorem C07_WF_harness_start : forall L ubal fbal tdec, WF (init_world L ubal fbal tdec).
Proof. exact init_world_WF. Qed.
Theorem C07_WF_preserved : forall w o w', WF w -> exec w o = Ok w' -> WF w'.
Proof. exact exec_preserves_WF. Qed.
Theorem C07_WF_history : forall ops w, WF w -> WF (run w ops).
Proof. exact run_preserves_WF. Qed.
Theorem C07_frame_reachable : forall w0 w o w',
  WF w0 -> reachable w0 w -> exec w o = Ok w' -> frame (touched w o) w w'.
Proof. exact exec_frame_reachable. Qed.

Print Assumptions C07_WF_start.
Print Assumptions C07_WF_harness_start.
Print Assumptions C07_WF_preserved.
Print Assumptions C07_WF_history.
Print Assumptions C07_frame_reachable.
Theorem C07_conserves : forall w o w' l, WF w -> exec w o = Ok w' ->
  NoDup l -> (forall a, In a (touched w o) -> In a l) ->
  forall y, ~ In y (supply_changing w o) -> sum_bal w' y l = sum_bal w y l.
Proof. exact exec_conserves. Qed.

Print Assumptions C07_conserves.
Print Assumptions C07_frame.
Print Assumptions C07_frame_unconditional.
Print Assumptions C07_factory_moves_nothing.
Print Assumptions C07_route_frame.
Print Assumptions C07_payment_conserves.
Print Assumptions C07_swap_conserves.
Print Assumptions C07_failed_tx_unchanged.

From HT Require Import Amm.Known World.World Proofs.WFProofs Proofs.ReachProofs Proofs.SolventProofs Proofs.ReachCorollaries.

Theorem C07_receiver_is_submitter_pays :
  exists w', exec rc_w (OSwap 10 5 [(0, 100)] (ANative 0) 100 None None (Some 5)) = Ok w' /\
             bal w' (ANative 0) 5 < bal rc_w (ANative 0) 5.
Proof. exact receiver_is_submitter_pays. Qed.
Print Assumptions C07_receiver_is_submitter_pays.

Theorem C07_failed_op_changes_nothing : forall w o e, exec w o = Err e -> step w o = w.
Proof. exact failed_op_changes_nothing. Qed.
Print Assumptions C07_failed_op_changes_nothing.

Theorem C07_run_app : forall ops1 ops2 w, run w (ops1 ++ ops2) = run (run w ops1) ops2.
Proof. exact run_app. Qed.
Print Assumptions C07_run_app.

Theorem C07_receiver_never_decreases : forall w0 w o w',
  WF w0 -> Solvent w0 -> reachable w0 w -> exec w o = Ok w' ->
  match o with
  | OSwap p c _ _ _ _ _ (Some r) =>
      r <> c -> r <> p -> forall z, bal w z r <= bal w' z r
  | OSend _ sender p _ (HSwap _ _ _ _ (Some r)) =>
      r <> sender -> r <> p -> forall z, bal w z r <= bal w' z r
  | OProvide p c _ _ _ _ _ _ (Some r) =>
      r <> c -> r <> p -> forall ps, w_pairs w p = Some ps ->
      (forall z, z <> AToken (p_lp ps) -> bal w' z r = bal w z r) /\
      bal w (AToken (p_lp ps)) r <= bal w' (AToken (p_lp ps)) r
  | _ => True
  end.
Proof. exact receiver_never_decreases. Qed.
Print Assumptions C07_receiver_never_decreases.

From HT Require Import World.Observe Proofs.WFProofs Proofs.ConserveProofs Proofs.ConserveHistProofs.
Theorem C07_history_conserves : forall ops w l y,
  WF w -> NoDup l -> hist_conservative w ops l y -> sum_bal (run w ops) y l = sum_bal w y l.
Proof. exact run_conserves. Qed.
Print Assumptions C07_history_conserves.

Theorem C07_native_never_minted : forall w o d, ~ In (ANative d) (supply_changing w o).
Proof. exact native_never_supply_changing. Qed.
Print Assumptions C07_native_never_minted.

Theorem C07_native_total_constant : forall ops w l d,
  WF w -> NoDup l -> hist_touches_within w ops l ->
  sum_bal (run w ops) (ANative d) l = sum_bal w (ANative d) l.
Proof. exact native_total_constant. Qed.
Print Assumptions C07_native_total_constant.

Theorem C07_native_total_example :
  outcomes cons_w0 cons_hist = [true; true; true; true; true; true; false] /\
  sum_bal cons_w0 (ANative 0) (accounts cons_L) = 3 * 1000000000000 + 1000 /\
  sum_bal (run cons_w0 cons_hist) (ANative 0) (accounts cons_L) = 3 * 1000000000000 + 1000 /\
  map (bal cons_w0 (ANative 0)) [1000; 1001; 1002; 0; 4] = [1000000000000; 1000000000000; 1000000000000; 1000; 0] /\
  map (bal (run cons_w0 cons_hist) (ANative 0)) [1000; 1001; 1002; 0; 4] <>
  map (bal cons_w0 (ANative 0)) [1000; 1001; 1002; 0; 4].
Proof. exact native_total_example. Qed.
Print Assumptions C07_native_total_example.
