(* C08 — 256-bit arithmetic is exact or aborts, never silently wrong.
   [exact_or_abort r ok val]: the operation succeeds exactly when [ok] holds and then its
   value satisfies [val]; otherwise it aborts.  [is_floor r p q]: r*q <= p < (r+1)*q.
   Honest scope: bigint::U256's own limb algorithms are third-party code, modelled as exact
   checked arithmetic and tied by the correspondence grid only (DESIGN.md, C08). *)
From HT Require Import Base.Prelude Num.Arith Proofs.NumProofs Proofs.C08Proofs.

Theorem C08_add : forall a b, exact_or_abort (uint_add a b) (a + b < W256) (fun v => v = a + b).
Proof. exact add_exact. Qed.
Theorem C08_sub : forall a b, exact_or_abort (uint_sub a b) (b <= a) (fun v => v + b = a).
Proof. exact sub_exact. Qed.
Theorem C08_mul : forall a b, exact_or_abort (uint_mul a b) (a * b < W256) (fun v => v = a * b).
Proof. exact mul_exact. Qed.
Theorem C08_multiply_ratio : forall u n d,
  exact_or_abort (uint_multiply_ratio u n d) (d <> 0 /\ u * n < W256) (fun v => is_floor v (u * n) d).
Proof. exact multiply_ratio_exact. Qed.
Theorem C08_uint_mul_decimal : forall u d,
  exact_or_abort (uint_mul_dec u d) (u * d < W256) (fun v => is_floor v (u * d) D).
Proof. exact mul_dec_exact. Qed.
Theorem C08_uint_div_decimal : forall u d,
  exact_or_abort (uint_div_dec u d) (d <> 0 /\ u * D < W256) (fun v => is_floor v (u * D) d).
Proof. exact div_dec_exact. Qed.
Theorem C08_from_ratio : forall n d,
  exact_or_abort (dec_from_ratio n d) (d <> 0 /\ n * D < W256) (fun v => is_floor v (n * D) d).
Proof. exact from_ratio_exact. Qed.
Theorem C08_from_uint256 : forall v,
  exact_or_abort (dec_from_uint256 v) (v * D < W256) (fun r => r = v * D).
Proof. exact from_uint256_exact. Qed.
Theorem C08_dec_add : forall a b, exact_or_abort (dec_add a b) (a + b < W256) (fun v => v = a + b).
Proof. exact add_exact. Qed.
Theorem C08_dec_sub : forall a b, exact_or_abort (dec_sub a b) (b <= a) (fun v => v + b = a).
Proof. exact sub_exact. Qed.
Theorem C08_dec_mul : forall a b,
  exact_or_abort (dec_mul a b) (a * b < W256) (fun v => is_floor v (a * b) D).
Proof. exact dec_mul_exact. Qed.
Theorem C08_dec_div : forall a b,
  exact_or_abort (dec_div a b) (b <> 0 /\ a * D < W256) (fun v => is_floor v (a * D) b).
Proof. exact dec_div_exact. Qed.
Theorem C08_narrow_u128 : forall n,
  n < W256 -> exact_or_abort (uint_to_u128 n) (n < W128) (fun v => v = n).
Proof. exact to_u128_exact. Qed.
Theorem C08_widen_u128 : forall a, a < W128 -> limbs_value (uint_from_u128 a) = a.
Proof. exact uint_from_u128_value. Qed.
Theorem C08_floor_unique : forall r r' p q, is_floor r p q -> is_floor r' p q -> r = r'.
Proof. exact is_floor_unique. Qed.
Theorem C08_no_wrap : forall r p q, q <> 0 -> p < W256 -> is_floor r p q -> r < W256.
Proof. exact floor_fits. Qed.

Example C08_nonvacuous :
  uint_mul_dec 123456789 1500000000000000000 = Ok 185185183 /\
  uint_mul_dec (W256 - 1) 2 = Err Panic /\ uint_div_dec 7 0 = Err Panic /\
  dec_from_ratio 1 3 = Ok 333333333333333333.
Proof. repeat split; vm_compute; reflexivity. Qed.

Print Assumptions C08_add.
Print Assumptions C08_sub.
Print Assumptions C08_mul.
Print Assumptions C08_multiply_ratio.
Print Assumptions C08_uint_mul_decimal.
Print Assumptions C08_uint_div_decimal.
Print Assumptions C08_from_ratio.
Print Assumptions C08_from_uint256.
Print Assumptions C08_dec_add.
Print Assumptions C08_dec_sub.
Print Assumptions C08_dec_mul.
Print Assumptions C08_dec_div.
Print Assumptions C08_narrow_u128.
Print Assumptions C08_widen_u128.
Print Assumptions C08_floor_unique.
Print Assumptions C08_no_wrap.
Print Assumptions C08_nonvacuous.
