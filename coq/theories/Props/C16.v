(* C16 — Factory registry: one pair per unordered asset set, consistent with the pair.
   Storage level (this block): the key function, creation and lookup over any history of creation
   attempts.  The unchanged code's key is an undelimited, untagged concatenation: different sets can
   collide (known finding KF-key-concat, class [kf_key_collision]); the theorems hold for identifier
   universes that are prefix-free (fixed-length canonical addresses; denom sets such as
   {uaura, uusdc, ibc/...}) and the collision is exhibited.  The world-level half (record = pair's
   self-description, true decimals, only registered natives / live cw20s) is stated over World/. *)
From HT Require Import Base.Prelude Num.Arith Amm.Formulas Amm.Guards Reg.Registry World.World Proofs.RegistryProofs Proofs.FactoryProofs.

Theorem C16_sym : forall a b : bytes, pair_key a b = pair_key b a.
Proof. exact pair_key_sym. Qed.

Theorem C16_inj :
  forall (U : bytes -> Prop) (a b c d : bytes),
    prefix_free U -> U a -> U b -> U c -> U d ->
    pair_key a b = pair_key c d -> (a = c /\ b = d) \/ (a = d /\ b = c).
Proof. exact pair_key_inj. Qed.

Theorem C16_refuted :
  let a := [97; 98; 99] in let b := [97; 98; 99; 100] in
  let c := [97; 98; 99; 97] in let d := [98; 99; 100] in
  pair_key a b = pair_key c d /\ a <> c /\ a <> d /\ kf_key_collision a b c d = true.
Proof. exact key_collision_witness. Qed.

Theorem C16_same_asset_rejected :
  forall (V : Type) (st : @store V) a v, reg_create st a a v = Err EStd.
Proof. exact @create_same_asset_rejected. Qed.

Theorem C16_duplicate_rejected :
  forall (V : Type) (st : @store V) a b v w,
    reg_lookup st a b = Some w -> reg_create st a b v = Err EStd /\ reg_create st b a v = Err EStd.
Proof. exact @create_duplicate_rejected. Qed.

Theorem C16_create_lookup :
  forall (V : Type) (st st' : @store V) a b v,
    reg_create st a b v = Ok st' ->
    reg_lookup st' a b = Some v /\ reg_lookup st' b a = Some v /\
    (forall c d, rkey c d <> rkey a b -> reg_lookup st' c d = reg_lookup st c d) /\
    (Sorted_store st -> Sorted_store st') /\ reg_lookup st a b = None.
Proof. exact @create_lookup. Qed.

(* any history of creation attempts over a prefix-free universe: every created set resolves, in either
   order, to its own record; every other set resolves to nothing; the store stays sorted *)
Theorem C16_hist :
  forall (V : Type) (U : bytes -> Prop), prefix_free U ->
  forall ops : list (rasset * rasset * V),
    ops_in_U U ops ->
    exists created, RegInv U (reg_run ops) created /\ incl created ops.
Proof. exact @reg_run_inv. Qed.

Example C16_nonvacuous :
  let ua := RA true [117;97] in let ub := RA true [117;98] in let t := RA false [1;2;3] in
  reg_lookup (reg_run [(ua, ub, 7); (ub, ua, 8); (t, t, 9); (t, ua, 10)]) ub ua = Some 7 /\
  reg_lookup (reg_run [(ua, ub, 7); (ub, ua, 8); (t, t, 9); (t, ua, 10)]) ua t = Some 10 /\
  reg_lookup (reg_run [(ua, ub, 7); (ub, ua, 8); (t, t, 9); (t, ua, 10)]) ub t = None.
Proof. vm_compute. repeat split; reflexivity. Qed.

(* ---- world level: the factory's CreatePair and Pair query on the world model ---- *)
(* creation succeeds only for the owner, two different assets, an unregistered set, registered native
   denoms / live cw20s whose true decimals are recorded; the record equals the new pair's description *)
Theorem C16_create_facts : forall w c a0 a1 wl m0 m1 cm ld w',
  fac_create_pair w c a0 a1 wl m0 m1 cm ld = Ok w' ->
  c = w_owner w /\ asset_eqb a0 a1 = false /\ reg_find (w_reg w) a0 a1 = None /\
  exists d0 d1, asset_decimals w a0 = Ok d0 /\ asset_decimals w a1 = Ok d1 /\
    let cr := match cm with Some x => x | None => DEFAULT_COMMISSION end in
    let r := mkRec a0 a1 (w_next w) (w_next w + 1) d0 d1 wl m0 m1 cr in
    cr <= D /\
    w_reg w' = w_reg w ++ [r] /\
    w_pairs w' (w_next w) = Some (mkPair a0 a1 d0 d1 (w_next w + 1) wl m0 m1 cr (w_fac w)) /\
    (forall q, q <> w_next w -> w_pairs w' q = w_pairs w q) /\
    w_next w' = w_next w + 2 /\ w_fac w' = w_fac w /\ w_owner w' = w_owner w /\ w_natives w' = w_natives w /\
    w_bank w' = w_bank w.
Proof. exact fac_create_pair_facts. Qed.
Theorem C16_world_duplicate_rejected : forall w c a0 a1 wl m0 m1 cm ld r,
  reg_find (w_reg w) a0 a1 = Some r ->
  (exists e, fac_create_pair w c a0 a1 wl m0 m1 cm ld = Err e) /\ (exists e, fac_create_pair w c a1 a0 wl m0 m1 cm ld = Err e).
Proof. exact fac_create_pair_duplicate_rejected. Qed.
Theorem C16_world_same_asset_rejected : forall w c a wl m0 m1 cm ld, exists e, fac_create_pair w c a a wl m0 m1 cm ld = Err e.
Proof. exact fac_create_pair_same_asset_rejected. Qed.
Theorem C16_world_lookup_either_order : forall w c a0 a1 wl m0 m1 cm ld w',
  RegOK w -> fac_create_pair w c a0 a1 wl m0 m1 cm ld = Ok w' ->
  exists r, reg_find (w_reg w') a0 a1 = Some r /\ reg_find (w_reg w') a1 a0 = Some r /\ f_pair r = w_next w /\
            f_a0 r = a0 /\ f_a1 r = a1 /\
            (forall c0 c1, same_assets a0 a1 c0 c1 = false -> reg_find (w_reg w') c0 c1 = reg_find (w_reg w) c0 c1).
Proof. exact fac_create_pair_lookup. Qed.
(* two different unordered asset sets never resolve to the same pair *)
Theorem C16_world_injective : forall reg a b c d r,
  reg_find reg a b = Some r -> reg_find reg c d = Some r -> same_assets a b c d = true.
Proof. exact reg_find_injective. Qed.
(* the record the factory returns is the pair's own description (RegOK), kept by every creation *)
Theorem C16_world_consistent : forall w c a0 a1 wl m0 m1 cm ld w',
  RegOK w -> (forall q, w_next w <= q -> w_pairs w q = None) ->
  fac_create_pair w c a0 a1 wl m0 m1 cm ld = Ok w' -> RegOK w' /\ (forall q, w_next w' <= q -> w_pairs w' q = None).
Proof. exact fac_create_pair_RegOK. Qed.

Print Assumptions C16_create_facts.
Print Assumptions C16_world_duplicate_rejected.
Print Assumptions C16_world_same_asset_rejected.
Print Assumptions C16_world_lookup_either_order.
Print Assumptions C16_world_injective.
Print Assumptions C16_world_consistent.
Print Assumptions C16_sym.
Print Assumptions C16_inj.
Print Assumptions C16_refuted.
Print Assumptions C16_same_asset_rejected.
Print Assumptions C16_duplicate_rejected.
Print Assumptions C16_create_lookup.
Print Assumptions C16_hist.
Print Assumptions C16_nonvacuous.

From HT Require Import Proofs.WFProofs Proofs.RegHistProofs.
Theorem C16_lookup_self_description : forall ops w a b r,
  WF w -> RegOK w -> no_factory_submitter w ops ->
  reg_find (w_reg (run w ops)) a b = Some r ->
  exists ps, w_pairs (run w ops) (f_pair r) = Some ps /\
    p_a0 ps = f_a0 r /\ p_a1 ps = f_a1 r /\ p_d0 ps = f_d0 r /\ p_d1 ps = f_d1 r /\ p_lp ps = f_lp r /\
    p_wl ps = f_wl r /\ p_min0 ps = f_min0 r /\ p_min1 ps = f_min1 r /\ p_comm ps = f_comm r /\
    same_assets (f_a0 r) (f_a1 r) a b = true.
Proof. exact lookup_is_self_description. Qed.
Print Assumptions C16_lookup_self_description.

From HT Require Import World.World World.Observe Proofs.WFProofs Proofs.PairConfigProofs.
Theorem C16_pair_config_immutable : forall w o w' p ps,
  WF w -> exec w o = Ok w' -> w_pairs w p = Some ps ->
  exists ps', w_pairs w' p = Some ps' /\ same_pair_config ps ps'.
Proof. exact exec_keeps_pair_config. Qed.
Print Assumptions C16_pair_config_immutable.

Theorem C16_pair_config_immutable_history : forall ops w p ps,
  WF w -> w_pairs w p = Some ps ->
  exists ps', w_pairs (run w ops) p = Some ps' /\ same_pair_config ps ps'.
Proof. exact run_keeps_pair_config. Qed.
Print Assumptions C16_pair_config_immutable_history.
