(* C16 — Factory registry: one pair per unordered asset set, consistent with the pair.
   Storage level (this block): the key function, creation and lookup over any history of creation
   attempts.  The unchanged code's key is an undelimited, untagged concatenation: different sets can
   collide (known finding KF-key-concat, class [kf_key_collision]); the theorems hold for identifier
   universes that are prefix-free (fixed-length canonical addresses; denom sets such as
   {uaura, uusdc, ibc/...}) and the collision is exhibited.  The world-level half (record = pair's
   self-description, true decimals, only registered natives / live cw20s) is stated over World/. *)
From HT Require Import Base.Prelude Reg.Registry Proofs.RegistryProofs.

Theorem C16_sym : forall a b : bytes, pair_key a b = pair_key b a.
Proof. exact pair_key_sym. Qed.

Theorem C16_inj :
  forall (U : bytes -> Prop) (a b c d : bytes),
    prefix_free U -> U a -> U b -> U c -> U d ->
    pair_key a b = pair_key c d -> (a = c /\ b = d) \/ (a = d /\ b = c).
Proof. exact pair_key_inj. Qed.

Theorem C16_refuted :
  let a := [97; 98; 99] in let b := [97; 98; 99; 100] in
  let c := [97; 98; 99; 97] in let d := [98; 99; 100] in
  pair_key a b = pair_key c d /\ a <> c /\ a <> d /\ kf_key_collision a b c d = true.
Proof. exact key_collision_witness. Qed.

Theorem C16_same_asset_rejected :
  forall (V : Type) (st : @store V) a v, reg_create st a a v = Err EStd.
Proof. exact @create_same_asset_rejected. Qed.

Theorem C16_duplicate_rejected :
  forall (V : Type) (st : @store V) a b v w,
    reg_lookup st a b = Some w -> reg_create st a b v = Err EStd /\ reg_create st b a v = Err EStd.
Proof. exact @create_duplicate_rejected. Qed.

Theorem C16_create_lookup :
  forall (V : Type) (st st' : @store V) a b v,
    reg_create st a b v = Ok st' ->
    reg_lookup st' a b = Some v /\ reg_lookup st' b a = Some v /\
    (forall c d, rkey c d <> rkey a b -> reg_lookup st' c d = reg_lookup st c d) /\
    (Sorted_store st -> Sorted_store st') /\ reg_lookup st a b = None.
Proof. exact @create_lookup. Qed.

(* any history of creation attempts over a prefix-free universe: every created set resolves, in either
   order, to its own record; every other set resolves to nothing; the store stays sorted *)
Theorem C16_hist :
  forall (V : Type) (U : bytes -> Prop), prefix_free U ->
  forall ops : list (rasset * rasset * V),
    ops_in_U U ops ->
    exists created, RegInv U (reg_run ops) created /\ incl created ops.
Proof. exact @reg_run_inv. Qed.

Example C16_nonvacuous :
  let ua := RA true [117;97] in let ub := RA true [117;98] in let t := RA false [1;2;3] in
  reg_lookup (reg_run [(ua, ub, 7); (ub, ua, 8); (t, t, 9); (t, ua, 10)]) ub ua = Some 7 /\
  reg_lookup (reg_run [(ua, ub, 7); (ub, ua, 8); (t, t, 9); (t, ua, 10)]) ua t = Some 10 /\
  reg_lookup (reg_run [(ua, ub, 7); (ub, ua, 8); (t, t, 9); (t, ua, 10)]) ub t = None.
Proof. vm_compute. repeat split; reflexivity. Qed.

Print Assumptions C16_sym.
Print Assumptions C16_inj.
Print Assumptions C16_refuted.
Print Assumptions C16_same_asset_rejected.
Print Assumptions C16_duplicate_rejected.
Print Assumptions C16_create_lookup.
Print Assumptions C16_hist.
Print Assumptions C16_nonvacuous.
