(* C18 — Decimal and integer text, JSON and width conversions are lossless.
   Strings are byte lists; [denote] is the positional value of a digit string (an independent
   semantics); the grammar accepted by Decimal256::from_str is digit* ('.' digit{0,18})? with an
   empty digit run denoting 0 (the behaviour pinned by the repository's own tests for "" and "1."). *)
From HT Require Import Base.Prelude Num.Arith Num.Text Proofs.NumProofs Proofs.TextProofs.

Theorem C18_u256_roundtrip : forall n, n < W256 -> from_dec_str (render n) = Ok n.
Proof. exact render_roundtrip. Qed.

Theorem C18_render_canonical : forall n,
  forallb is_digit (render n) = true /\ render n <> [] /\
  (forall b rest, render n = b :: rest -> rest <> [] -> b <> ZERO) /\
  denote (render n) = n.
Proof. exact render_canonical. Qed.

Theorem C18_int_parse_sound : forall s n,
  from_dec_str s = Ok n -> forallb is_digit s = true /\ denote s = n /\ n < W256.
Proof. exact from_dec_str_sound. Qed.

Theorem C18_int_parse_complete : forall s,
  forallb is_digit s = true -> denote s < W256 -> from_dec_str s = Ok (denote s).
Proof. exact from_dec_str_complete. Qed.

Theorem C18_dec_roundtrip : forall v, v < W256 -> dec_from_str (dec_render v) = Ok v.
Proof. exact dec_render_roundtrip. Qed.

Theorem C18_dec_canonical : forall v,
  (v mod D = 0 -> dec_render v = render (v / D)) /\
  (v mod D <> 0 -> exists f, dec_render v = render (v / D) ++ [DOT] ++ f /\ forallb is_digit f = true /\ f <> [] /\
       (length f <= 18)%nat /\ last f 0 <> ZERO /\ denote f * 10 ^ (18 - N.of_nat (length f)) = v mod D).
Proof. exact dec_render_canonical. Qed.

Theorem C18_parse_sound : forall s v, dec_from_str s = Ok v ->
  (forallb is_digit s = true /\ v = denote s * D) \/
  (exists w f, s = w ++ [DOT] ++ f /\ forallb is_digit w = true /\ forallb is_digit f = true /\
       (length f <= 18)%nat /\ v = denote w * D + denote f * 10 ^ (18 - N.of_nat (length f))).
Proof. exact dec_from_str_sound. Qed.

Theorem C18_json_uint : forall n, n < W256 -> uint_of_json (uint_to_json n) = Ok n.
Proof. exact json_roundtrip_uint. Qed.
Theorem C18_json_dec : forall v, v < W256 -> dec_of_json (dec_to_json v) = Ok v.
Proof. exact json_roundtrip_dec. Qed.

Theorem C18_width_narrow :
  forall n : N, n < W256 -> uint_to_u128 n = if n <? W128 then Ok n else Err Panic.
Proof. exact uint_to_u128_spec. Qed.
Theorem C18_width_widen : forall a : N, a < W128 -> limbs_value (uint_from_u128 a) = a.
Proof. exact uint_from_u128_value. Qed.
Theorem C18_decimal_widen : forall a, a < W128 -> cwdec_to_dec256 a = Ok a.
Proof. exact cwdec_roundtrip. Qed.
Theorem C18_decimal_narrow :
  forall v : N, v < W256 -> dec256_to_cwdec v = if v <? W128 then Ok v else Err Panic.
Proof. exact uint_to_u128_spec. Qed.

Example C18_nonvacuous :
  dec_render 1500000000000000000 = [49; 46; 53] /\ dec_from_str [49; 46; 53] = Ok 1500000000000000000 /\
  dec_from_str [49; 46; 46] = Err EStd /\ render 0 = [48].
Proof. vm_compute. repeat split; reflexivity. Qed.

Print Assumptions C18_u256_roundtrip.
Print Assumptions C18_render_canonical.
Print Assumptions C18_int_parse_sound.
Print Assumptions C18_int_parse_complete.
Print Assumptions C18_dec_roundtrip.
Print Assumptions C18_dec_canonical.
Print Assumptions C18_parse_sound.
Print Assumptions C18_json_uint.
Print Assumptions C18_json_dec.
Print Assumptions C18_width_narrow.
Print Assumptions C18_width_widen.
Print Assumptions C18_decimal_widen.
Print Assumptions C18_decimal_narrow.
Print Assumptions C18_nonvacuous.

From HT Require Import Proofs.JsonEscProofs.
Theorem C18_json_spelling_uint : forall l,
  forallb (fun be : N * bool => plain_byte (fst be)) l = true ->
  uint_of_json_esc ([QUOTE] ++ spell l ++ [QUOTE]) = from_dec_str (map fst l).
Proof. exact uint_json_spelling_invariant. Qed.
Print Assumptions C18_json_spelling_uint.

Theorem C18_json_spelling_dec : forall l,
  forallb (fun be : N * bool => plain_byte (fst be)) l = true ->
  dec_of_json_esc ([QUOTE] ++ spell l ++ [QUOTE]) = dec_from_str (map fst l).
Proof. exact dec_json_spelling_invariant. Qed.
Print Assumptions C18_json_spelling_dec.

Theorem C18_json_esc_uint : forall n, n < W256 -> uint_of_json_esc (uint_to_json n) = Ok n.
Proof. exact json_esc_roundtrip_uint. Qed.
Print Assumptions C18_json_esc_uint.

Theorem C18_json_esc_dec : forall v, v < W256 -> dec_of_json_esc (dec_to_json v) = Ok v.
Proof. exact json_esc_roundtrip_dec. Qed.
Print Assumptions C18_json_esc_dec.

Theorem C18_json_respelled_uint : forall n (mask : list bool), n < W256 ->
  uint_of_json_esc ([QUOTE] ++ spell (combine (render n) (mask ++ repeat false (length (render n)))) ++ [QUOTE]) = Ok n.
Proof. exact json_esc_roundtrip_uint_respelled. Qed.
Print Assumptions C18_json_respelled_uint.

Theorem C18_json_respelled_dec : forall v (mask : list bool), v < W256 ->
  dec_of_json_esc ([QUOTE] ++ spell (combine (dec_render v) (mask ++ repeat false (length (dec_render v)))) ++ [QUOTE]) = Ok v.
Proof. exact json_esc_roundtrip_dec_respelled. Qed.
Print Assumptions C18_json_respelled_dec.

Theorem C18_json_spelling_example :
  dec_of_json_esc [34; 48; 92; 117; 48; 48; 50; 101; 48; 48; 51; 34] = Ok 3000000000000000 /\
  dec_of_json_esc [34; 48; 92; 117; 48; 48; 50; 101; 48; 48; 51; 34] = dec_of_json_esc [34; 48; 46; 48; 48; 51; 34] /\
  uint_of_json_esc [34; 92; 117; 48; 48; 51; 49; 92; 117; 48; 48; 51; 50; 34] = Ok 12 /\
  uint_of_json_esc [34; 49; 50; 34] = Ok 12 /\
  is_ok (uint_of_json_esc [34; 49; 92; 117; 48; 48; 51; 34]) = false /\
  is_ok (uint_of_json_esc [34; 49; 92; 120; 51; 49; 34]) = false /\
  is_ok (uint_of_json_esc [34; 49; 92; 34]) = false /\
  is_ok (dec_of_json_esc [34; 49; 92; 117; 48; 48; 51; 34]) = false /\
  is_ok (dec_of_json_esc [34; 49; 92; 120; 51; 49; 34]) = false /\
  is_ok (dec_of_json_esc [34; 49; 92; 34]) = false /\
  json_decode_esc [34; 49; 92; 117; 48; 48; 51; 34] = Err EStd /\
  json_decode_esc [34; 49; 92; 120; 51; 49; 34] = Err EStd /\
  json_decode_esc [34; 49; 92; 34] = Err EStd.
Proof. exact json_spelling_example. Qed.
Print Assumptions C18_json_spelling_example.
