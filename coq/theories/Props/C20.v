(* C20 — Liquidity can always be withdrawn.
   For any world state (whatever other actors did before: the statement quantifies over the state),
   a holder of LP tokens can withdraw any amount a up to their balance whose pro-rata entitlement is at
   least r_i/10^18 + 2 units of each asset.  Hypotheses that stand for the reachability invariants
   (DESIGN.md Appendix B, WF): the LP token exists and is neither pool asset, the two pool assets
   differ, the asset tokens exist, balances are 128-bit (E-supply: per-asset totals < 2^128, which
   bounds both the reserves and any credit), the holder's balance is part of the supply.
   [C20_reachable] discharges all the structural hypotheses through the invariant WF, which holds in
   every world reachable by any history ([run]) from a well-formed start: "whatever other actors did
   before".  What remains as hypotheses are the numeric ones: 128-bit balances (E-supply: per-asset
   totals below 2^128, an environment assumption about the bank and the cw20 supplies), the holder's
   balance being part of the supply, and the entitlement condition itself. *)
From HT Require Import Base.Prelude Num.Arith Amm.Formulas Amm.Guards World.World
  Proofs.LiquidityProofs Proofs.LedgerProofs Proofs.LivenessProofs Proofs.WFProofs Proofs.ReachProofs.

(* the entitlement condition forces each refund to be at least 2 units, so no zero transfer can abort it *)
Theorem C20_refund_positive : forall r a T x,
  T <> 0 -> x = r * (a * D / T) / D -> r * T + 2 * T * D <= r * a * D -> 2 <= x.
Proof. exact entitled_refund_positive. Qed.

(* the handler cannot fail once the LP tokens have arrived at the pair *)
Theorem C20_handler : forall w p ps sender a lt,
  w_tokens w (p_lp ps) = Some lt ->
  1 <= a -> a <= t_supply lt -> a <= t_bal lt p ->
  asset_eqb (p_a0 ps) (p_a1 ps) = false ->
  asset_eqb (p_a0 ps) (AToken (p_lp ps)) = false -> asset_eqb (p_a1 ps) (AToken (p_lp ps)) = false ->
  sender <> p ->
  (forall t, p_a0 ps = AToken t \/ p_a1 ps = AToken t -> w_tokens w t <> None) ->
  bal w (p_a0 ps) p < W128 -> bal w (p_a1 ps) p < W128 ->
  bal w (p_a0 ps) sender + bal w (p_a0 ps) p < W128 ->
  bal w (p_a1 ps) sender + bal w (p_a1 ps) p < W128 ->
  bal w (p_a0 ps) p * t_supply lt + 2 * t_supply lt * D <= bal w (p_a0 ps) p * a * D ->
  bal w (p_a1 ps) p * t_supply lt + 2 * t_supply lt * D <= bal w (p_a1 ps) p * a * D ->
  exists w', pair_withdraw w p ps sender a = Ok w'.
Proof. exact pair_withdraw_succeeds. Qed.

(* the whole transaction: cw20 Send of a LP tokens to the pair with the WithdrawLiquidity hook *)
Theorem C20 : forall w p ps holder a lt,
  w_pairs w p = Some ps -> w_tokens w (p_lp ps) = Some lt ->
  holder <> p -> 1 <= a -> a <= t_bal lt holder -> t_bal lt holder <= t_supply lt ->
  t_bal lt p + a < W128 ->
  asset_eqb (p_a0 ps) (p_a1 ps) = false ->
  asset_eqb (p_a0 ps) (AToken (p_lp ps)) = false -> asset_eqb (p_a1 ps) (AToken (p_lp ps)) = false ->
  (forall t, p_a0 ps = AToken t \/ p_a1 ps = AToken t -> w_tokens w t <> None) ->
  bal w (p_a0 ps) p < W128 -> bal w (p_a1 ps) p < W128 ->
  bal w (p_a0 ps) holder + bal w (p_a0 ps) p < W128 ->
  bal w (p_a1 ps) holder + bal w (p_a1 ps) p < W128 ->
  bal w (p_a0 ps) p * t_supply lt + 2 * t_supply lt * D <= bal w (p_a0 ps) p * a * D ->
  bal w (p_a1 ps) p * t_supply lt + 2 * t_supply lt * D <= bal w (p_a1 ps) p * a * D ->
  exists w', cw20_send w (p_lp ps) holder p a HWithdraw = Ok w'.
Proof. exact withdraw_tx_succeeds. Qed.

(* the arithmetic can never abort for 1 <= a <= T *)
Theorem C20_arithmetic_total : forall r0 r1 a T : N,
  r0 < W128 -> r1 < W128 -> T <> 0 -> a <= T -> exists x0 x1, withdraw_amounts r0 r1 a T = Ok (x0, x1).
Proof. exact withdraw_total. Qed.

Theorem C20_reachable : forall w0 w p ps holder a lt,
  WF w0 -> reachable w0 w -> w_pairs w p = Some ps -> w_tokens w (p_lp ps) = Some lt ->
  holder <> p -> 1 <= a -> a <= t_bal lt holder -> t_bal lt holder <= t_supply lt ->
  t_bal lt p + a < W128 ->
  bal w (p_a0 ps) p < W128 -> bal w (p_a1 ps) p < W128 ->
  bal w (p_a0 ps) holder + bal w (p_a0 ps) p < W128 ->
  bal w (p_a1 ps) holder + bal w (p_a1 ps) p < W128 ->
  bal w (p_a0 ps) p * t_supply lt + 2 * t_supply lt * D <= bal w (p_a0 ps) p * a * D ->
  bal w (p_a1 ps) p * t_supply lt + 2 * t_supply lt * D <= bal w (p_a1 ps) p * a * D ->
  exists w', cw20_send w (p_lp ps) holder p a HWithdraw = Ok w'.
Proof. exact withdraw_tx_succeeds_reachable. Qed.
Theorem C20_invariant_history : forall ops w, WF w -> WF (run w ops).
Proof. exact run_preserves_WF. Qed.

Print Assumptions C20_reachable.
Print Assumptions C20_invariant_history.
Print Assumptions C20_refund_positive.
Print Assumptions C20_handler.
Print Assumptions C20.
Print Assumptions C20_arithmetic_total.

From HT Require Import Proofs.SolventProofs.
Theorem C20_solvent_step : forall w o w', WF w -> Solvent w -> exec w o = Ok w' -> Solvent w'.
Proof. exact exec_preserves_Solvent. Qed.
Print Assumptions C20_solvent_step.

Theorem C20_solvent_history : forall ops w, WF w -> Solvent w -> WF (run w ops) /\ Solvent (run w ops).
Proof. exact run_preserves_Solvent. Qed.
Print Assumptions C20_solvent_history.

Theorem C20_invariants : forall w0 w p ps holder a lt,
  WF w0 -> Solvent w0 -> reachable w0 w ->
  w_pairs w p = Some ps -> w_tokens w (p_lp ps) = Some lt ->
  holder <> p -> 1 <= a -> a <= t_bal lt holder ->
  bal w (p_a0 ps) p * t_supply lt + 2 * t_supply lt * D <= bal w (p_a0 ps) p * a * D ->
  bal w (p_a1 ps) p * t_supply lt + 2 * t_supply lt * D <= bal w (p_a1 ps) p * a * D ->
  exists w', cw20_send w (p_lp ps) holder p a HWithdraw = Ok w'.
Proof. exact withdraw_tx_succeeds_invariants. Qed.
Print Assumptions C20_invariants.

From HT Require Import World.Observe Proofs.InitProofs.
Theorem C20_start_solvent : forall L ubal fbal tdec,
  ubal * l_users L + fbal < W128 -> Solvent (init_world L ubal fbal tdec).
Proof. exact init_world_Solvent. Qed.
Print Assumptions C20_start_solvent.
