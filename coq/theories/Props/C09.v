(* C09 — Declared native amounts must equal the attached funds exactly.
   [funds_of (ANative d) funds v = Ok tt] is the model of Asset::assert_sent_native_token_balance;
   under E-funds (pairwise distinct denoms in the attached funds, Cosmos SDK Coins.Validate) the first
   coin of a denom is the only one, so "the first coin equals v" is "exactly v attached". *)
From HT Require Import Base.Prelude Num.Arith Amm.Formulas Amm.Guards World.World Proofs.AuthProofs.

Theorem C09_helper : forall d funds v, funds_of (ANative d) funds v = Ok tt <->
  (exists c, find (fun c => fst c =? d) funds = Some c /\ snd c = v) \/
  (find (fun c => fst c =? d) funds = None /\ v = 0).
Proof. exact funds_of_spec. Qed.
Theorem C09_helper_token : forall t funds v, funds_of (AToken t) funds v = Ok tt.
Proof. exact funds_of_token. Qed.

Theorem C09_swap : forall w p ps funds sender offer amount bp ms to r,
  pair_swap w p ps funds sender offer amount bp ms to = Ok r -> funds_of offer funds amount = Ok tt.
Proof. exact pair_swap_funds. Qed.
Theorem C09_provide : forall w p ps c funds l0 n0 l1 n1 tol rcv w',
  pair_provide w p ps c funds l0 n0 l1 n1 tol rcv = Ok w' ->
  funds_of l0 funds n0 = Ok tt /\ funds_of l1 funds n1 = Ok tt.
Proof. exact pair_provide_funds. Qed.
(* whole transactions *)
Theorem C09_exec_swap : forall w p c funds offer amount bp ms to w',
  exec w (OSwap p c funds offer amount bp ms to) = Ok w' ->
  asset_is_native offer = true /\ funds_of offer funds amount = Ok tt.
Proof. exact exec_swap_native_only. Qed.
Theorem C09_exec_provide : forall w p c funds l0 n0 l1 n1 tol rcv w',
  exec w (OProvide p c funds l0 n0 l1 n1 tol rcv) = Ok w' ->
  funds_of l0 funds n0 = Ok tt /\ funds_of l1 funds n1 = Ok tt.
Proof. exact exec_provide_funds. Qed.
(* otherwise it fails and nothing changes *)
Theorem C09_failed_unchanged : forall w o e, exec w o = Err e -> step w o = w.
Proof. exact step_failed_unchanged. Qed.

Example C09_nonvacuous :
  funds_of (ANative 0) [(1, 5); (0, 7)] 7 = Ok tt /\ funds_of (ANative 0) [(1, 5); (0, 7)] 8 = Err EStd /\
  funds_of (ANative 0) [(1, 5)] 0 = Ok tt /\ funds_of (ANative 0) [] 1 = Err EStd.
Proof. repeat split; vm_compute; reflexivity. Qed.

Print Assumptions C09_helper.
Print Assumptions C09_helper_token.
Print Assumptions C09_swap.
Print Assumptions C09_provide.
Print Assumptions C09_exec_swap.
Print Assumptions C09_exec_provide.
Print Assumptions C09_failed_unchanged.
Print Assumptions C09_nonvacuous.
