(* C05 — Provision mints a fair share and pulls exactly the declared deposits.
   Function level (this block): the share computed by calculate_lp_token_amount_to_user.
   System level (ledger effect, reserved unit, zero-share rejection) is stated over the world model. *)
From HT Require Import Base.Prelude Num.Arith Amm.Formulas Amm.Guards World.World Proofs.LiquidityProofs Proofs.LedgerProofs Proofs.LivenessProofs.

(* positive supply T: m = min_i floor(d_i*T/r_i), i.e. m*r_i <= d_i*T for both i and
   (m+1)*r_j > d_j*T for the minimising j:  min_i(d_i*T/r_i) - 1 < m <= min_i(d_i*T/r_i) *)
Theorem C05_share :
  forall (wl : bool) (min0 min1 T d0 d1 r0 r1 m : N),
    T <> 0 -> lp_share wl min0 min1 T d0 d1 r0 r1 = Ok m ->
    r0 <> 0 /\ r1 <> 0 /\
    m * r0 <= d0 * T /\ m * r1 <= d1 * T /\
    (d0 * T < (m + 1) * r0 \/ d1 * T < (m + 1) * r1).
Proof. exact share_later. Qed.

(* empty pair: only a whitelisted caller meeting both minimums; supply becomes floor(sqrt(d0*d1)) *)
Theorem C05_first :
  forall (wl : bool) (min0 min1 d0 d1 r0 r1 m : N),
    lp_share wl min0 min1 0 d0 d1 r0 r1 = Ok m ->
    wl = true /\ min0 <= d0 /\ min1 <= d1 /\ d0 * d1 < W128 /\
    m * m <= d0 * d1 /\ d0 * d1 < (m + 1) * (m + 1).
Proof. exact share_first. Qed.

Example C05_nonvacuous :
  lp_share true 10 10 0 1000 4000 0 0 = Ok 2000 /\
  lp_share false 0 0 2000 100 400 1000 4000 = Ok 200.
Proof. split; vm_compute; reflexivity. Qed.

(* ---- system level: the provision handler on the world model ([w] already holds the attached funds) ---- *)
(* exactly the declared deposits are pulled from the caller (cw20: transfer_from with owner = caller,
   recipient = pair; native: must equal the attached coin, see C09, and is netted from the observed
   reserve), the share is computed on the netted reserves, a zero share is rejected, on an empty pair
   one unit goes to the LP token's own address and share-1 to the receiver *)
Theorem C05_structure : forall w p ps c funds l0 n0 l1 n1 tol rcv w',
  pair_provide w p ps c funds l0 n0 l1 n1 tol rcv = Ok w' ->
  exists r0 r1 d0 d1 q0 q1 total share,
    asset_balance w (p_a0 ps) p = Ok r0 /\ asset_balance w (p_a1 ps) p = Ok r1 /\
    deposit_of (p_a0 ps) l0 n0 l1 n1 = Ok d0 /\ deposit_of (p_a1 ps) l0 n0 l1 n1 = Ok d1 /\
    (q0 = if asset_is_native (p_a0 ps) then r0 - d0 else r0) /\ (asset_is_native (p_a0 ps) = true -> d0 <= r0) /\
    (q1 = if asset_is_native (p_a1 ps) then r1 - d1 else r1) /\ (asset_is_native (p_a1 ps) = true -> d1 <= r1) /\
    assert_slippage_tolerance tol d0 d1 q0 q1 = Ok tt /\
    token_supply w (p_lp ps) = Ok total /\
    lp_share (mem_addr c (p_wl ps)) (p_min0 ps) (p_min1 ps) total d0 d1 q0 q1 = Ok share /\ share <> 0 /\
    exists w1 w2,
      (match p_a0 ps with AToken ta => with_token w ta (fun t => tok_transfer_from t p c p d0) | ANative _ => Ok w end) = Ok w1 /\
      (match p_a1 ps with AToken ta => with_token w1 ta (fun t => tok_transfer_from t p c p d1) | ANative _ => Ok w1 end) = Ok w2 /\
      let r := match rcv with Some x => x | None => c end in
      if total =? 0 then
        exists w3, with_token w2 (p_lp ps) (fun t => tok_mint t p (p_lp ps) 1) = Ok w3 /\ 1 <= share /\
                   with_token w3 (p_lp ps) (fun t => tok_mint t p r (share - 1)) = Ok w'
      else with_token w2 (p_lp ps) (fun t => tok_mint t p r share) = Ok w'.
Proof. exact pair_provide_structure. Qed.

Theorem C05_supply : forall w p ps c funds l0 n0 l1 n1 tol rcv w',
  pair_provide w p ps c funds l0 n0 l1 n1 tol rcv = Ok w' ->
  asset_eqb (p_a0 ps) (AToken (p_lp ps)) = false -> asset_eqb (p_a1 ps) (AToken (p_lp ps)) = false ->
  exists total share, token_supply w (p_lp ps) = Ok total /\ share <> 0 /\ supply w' (p_lp ps) = total + share /\
    (total = 0 -> bal w' (AToken (p_lp ps)) (p_lp ps) = bal w (AToken (p_lp ps)) (p_lp ps) + 1 \/
                  (match rcv with Some x => x | None => c end) = p_lp ps).
Proof. exact pair_provide_supply. Qed.

Print Assumptions C05_structure.
Print Assumptions C05_supply.
Print Assumptions C05_share.
Print Assumptions C05_first.
Print Assumptions C05_nonvacuous.

From HT Require Import Proofs.WFProofs Proofs.LockedProofs.
Theorem C05_inert_step : forall w o w',
  WF w -> Inert' w -> ~ is_contract w (caller_of o) -> room w o -> exec w o = Ok w' -> Inert' w'.
Proof. exact exec_preserves_Inert_variant. Qed.
Print Assumptions C05_inert_step.

Theorem C05_inert_history : forall ops w,
  WF w -> Inert' w -> user_ops w ops -> w_next (run w ops) <= 1000 -> WF (run w ops) /\ Inert' (run w ops).
Proof. exact run_preserves_Inert_variant. Qed.
Print Assumptions C05_inert_history.

Theorem C05_locked_unit : forall w o w' p ps,
  WF w -> Inert' w -> ~ is_contract w (caller_of o) -> exec w o = Ok w' -> w_pairs w p = Some ps ->
  bal w (AToken (p_lp ps)) (p_lp ps) <= bal w' (AToken (p_lp ps)) (p_lp ps).
Proof. exact locked_unit_never_decreases_variant. Qed.
Print Assumptions C05_locked_unit.

Theorem C05_lp_address_never_debited : forall w o w' p ps y,
  WF w -> Inert' w -> ~ is_contract w (caller_of o) -> exec w o = Ok w' -> w_pairs w p = Some ps ->
  bal w y (p_lp ps) <= bal w' y (p_lp ps).
Proof. exact lp_address_never_debited. Qed.
Print Assumptions C05_lp_address_never_debited.

From HT Require Import World.Observe Proofs.InitProofs.
Theorem C05_inert_start : forall L ubal fbal tdec, Inert' (init_world L ubal fbal tdec).
Proof. exact init_world_Inert'. Qed.
Print Assumptions C05_inert_start.
