(* C05 — Provision mints a fair share and pulls exactly the declared deposits.
   Function level (this block): the share computed by calculate_lp_token_amount_to_user.
   System level (ledger effect, reserved unit, zero-share rejection) is stated over the world model. *)
From HT Require Import Base.Prelude Num.Arith Amm.Formulas Proofs.LiquidityProofs.

(* positive supply T: m = min_i floor(d_i*T/r_i), i.e. m*r_i <= d_i*T for both i and
   (m+1)*r_j > d_j*T for the minimising j:  min_i(d_i*T/r_i) - 1 < m <= min_i(d_i*T/r_i) *)
Theorem C05_share :
  forall (wl : bool) (min0 min1 T d0 d1 r0 r1 m : N),
    T <> 0 -> lp_share wl min0 min1 T d0 d1 r0 r1 = Ok m ->
    r0 <> 0 /\ r1 <> 0 /\
    m * r0 <= d0 * T /\ m * r1 <= d1 * T /\
    (d0 * T < (m + 1) * r0 \/ d1 * T < (m + 1) * r1).
Proof. exact share_later. Qed.

(* empty pair: only a whitelisted caller meeting both minimums; supply becomes floor(sqrt(d0*d1)) *)
Theorem C05_first :
  forall (wl : bool) (min0 min1 d0 d1 r0 r1 m : N),
    lp_share wl min0 min1 0 d0 d1 r0 r1 = Ok m ->
    wl = true /\ min0 <= d0 /\ min1 <= d1 /\ d0 * d1 < W128 /\
    m * m <= d0 * d1 /\ d0 * d1 < (m + 1) * (m + 1).
Proof. exact share_first. Qed.

Example C05_nonvacuous :
  lp_share true 10 10 0 1000 4000 0 0 = Ok 2000 /\
  lp_share false 0 0 2000 100 400 1000 4000 = Ok 200.
Proof. split; vm_compute; reflexivity. Qed.

Print Assumptions C05_share.
Print Assumptions C05_first.
Print Assumptions C05_nonvacuous.
