(* C10 — A swap that succeeds honours max_spread and belief_price.
   bp = belief price, ms = max spread (atomics of 10^-18); (o, r, s) = offer, return, spread
   after the decimals normalisation of assert_max_spread ([C10_normalise] says what that is). *)
From HT Require Import Base.Prelude Num.Arith Amm.Formulas Amm.Guards World.World Proofs.SpreadProofs Proofs.GuardSysProofs.

Theorem C10_structure :
  forall bp ms offer ret spread od rd,
    assert_max_spread bp ms offer ret spread od rd =
    let* ors := normalise_decimals offer ret spread od rd in
    let '(o, r, s) := ors in spread_core bp ms o r s.
Proof. exact assert_max_spread_unfold. Qed.

Theorem C10_normalise :
  forall offer ret spread od rd o r s,
    normalise_decimals offer ret spread od rd = Ok (o, r, s) ->
    (rd < od /\ o = offer /\ r = ret * 10 ^ (od - rd) /\ s = spread * 10 ^ (od - rd)
     /\ 10 ^ (od - rd) < W64 /\ r < W128 /\ s < W128) \/
    (od < rd /\ o = offer * 10 ^ (rd - od) /\ r = ret /\ s = spread /\ 10 ^ (rd - od) < W64 /\ o < W128) \/
    (od = rd /\ o = offer /\ r = ret /\ s = spread).
Proof. exact normalise_inv. Qed.

Theorem C10_belief_sound :
  forall o r s, o < W128 -> r < W128 -> s < W128 -> forall bp ms,
    spread_core (Some bp) (Some ms) o r s = Ok tt ->
    bp <> 0 /\ let e := o * D / bp in (e <= r \/ (e - r) * D < (ms + 1) * e).
Proof. exact belief_sound. Qed.

(* R > (O/p - 1) * (1 - s - 10^-18), cross-multiplied by D*bp *)
Theorem C10_belief_sound_rational :
  forall o r s, o < W128 -> r < W128 -> s < W128 -> forall bp ms,
    spread_core (Some bp) (Some ms) o r s = Ok tt ->
    ms + 1 <= D -> bp < o * D ->
    (o * D - bp) * (D - ms - 1) < r * D * bp.
Proof. exact belief_sound_rational. Qed.

(* R*p >= O*(1-s): never rejected by this guard *)
Theorem C10_belief_complete :
  forall o r s, o < W128 -> r < W128 -> s < W128 -> forall bp ms,
    o * (D - ms) <= r * bp ->
    spread_core (Some bp) (Some ms) o r s <> Err EMaxSpread.
Proof. exact belief_complete. Qed.

Theorem C10_spread_sound :
  forall o r s, o < W128 -> r < W128 -> s < W128 -> forall ms,
    spread_core None (Some ms) o r s = Ok tt -> r + s <> 0 /\ s * D < (ms + 1) * (r + s).
Proof. exact spread_sound. Qed.

Theorem C10_spread_complete :
  forall o r s, o < W128 -> r < W128 -> s < W128 -> forall ms,
    spread_core None (Some ms) o r s = Err EMaxSpread -> ms * (r + s) < s * D.
Proof. exact spread_complete. Qed.

Theorem C10_abort_set :
  forall o r s, o < W128 -> r < W128 -> s < W128 -> forall bp ms,
    spread_core bp ms o r s = Err Panic <->
    match ms, bp with
    | Some _, Some bp => bp = 0
    | Some _, None => r + s = 0
    | None, _ => False
    end.
Proof. exact spread_abort_set. Qed.

Theorem C10_no_limit : forall bp o r s, spread_core bp None o r s = Ok tt.
Proof. exact spread_none_ok. Qed.

Example C10_nonvacuous :
  assert_max_spread (Some 1000000000000000000) (Some 10000000000000000) 1000000 990000 5000 6 6 = Ok tt /\
  assert_max_spread (Some 1000000000000000000) (Some 10000000000000000) 1000000 989999 5000 6 6 = Err EMaxSpread /\
  assert_max_spread None (Some 10000000000000000) 1000000 989999 9999 6 18 = Ok tt.
Proof. repeat split; vm_compute; reflexivity. Qed.

(* system level: whatever state other traders left, a swap that succeeds passed the guard evaluated on
   ITS OWN executed offer / return / spread with the decimals of the offered and asked asset (by position);
   the quantifier over interleavings is the universal quantifier over the pre-state [w] *)
Theorem C10_sys : forall w p ps funds sender offer amount bp ms to w' ret spread comm,
  pair_swap w p ps funds sender offer amount bp ms to = Ok (w', (ret, spread, comm)) ->
  let first := asset_eqb offer (p_a0 ps) in
  let od := if first then p_d0 ps else p_d1 ps in
  let ad := if first then p_d1 ps else p_d0 ps in
  assert_max_spread bp ms amount ret spread od ad = Ok tt.
Proof. exact pair_swap_guard. Qed.

Print Assumptions C10_sys.
Print Assumptions C10_structure.
Print Assumptions C10_normalise.
Print Assumptions C10_belief_sound.
Print Assumptions C10_belief_sound_rational.
Print Assumptions C10_belief_complete.
Print Assumptions C10_spread_sound.
Print Assumptions C10_spread_complete.
Print Assumptions C10_abort_set.
Print Assumptions C10_no_limit.
Print Assumptions C10_nonvacuous.
