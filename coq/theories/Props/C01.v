(* C01 — A swap never lowers the reserve product nor empties a reserve (function level).
   The unchanged code violates the statement on the class [kf_c01] (known finding
   KF-ceil-window); the theorem covers everything outside it, the class is shown to be
   exactly the violating set, and the witnesses are replayed on the real code on every run. *)
From HT Require Import Base.Prelude Num.Arith Amm.Formulas Amm.Known Proofs.C01Proofs.

Theorem C01_fn :
  forall x y a c n s m : N,
    x < W128 -> y < W128 -> a < W128 -> c <= D ->
    compute_swap x y a c = Ok (n, s, m) ->
    kf_c01 x y a c = false ->
    n * (x + a) <= y * a /\            (* paid out <= ask_reserve*offer/(offer_reserve+offer) *)
    x * y <= (x + a) * (y - n) /\      (* reserve product does not fall *)
    (0 < y -> n < y).                  (* the ask reserve stays positive *)
Proof. exact c01_fn. Qed.

Theorem C01_fn_window_exact :
  forall x y a c n s m : N,
    x < W128 -> y < W128 -> a < W128 -> c <= D ->
    compute_swap x y a c = Ok (n, s, m) ->
    kf_c01 x y a c = true ->
    y * a < n * (x + a) /\ (x + a) * (y - n) < x * y.
Proof. exact c01_window_exact. Qed.

(* the full statement is false of the faithful model: the repository's own pinned test vector *)
Theorem C01_refuted :
  exists x y a c n s m : N,
    x < W128 /\ y < W128 /\ a < W128 /\ c <= D /\
    compute_swap x y a c = Ok (n, s, m) /\ (x + a) * (y - n) < x * y.
Proof. exact c01_refuted_product. Qed.

Theorem C01_drain_refuted :
  exists x y a c n s m : N,
    x < W128 /\ y < W128 /\ a < W128 /\ c <= D /\ 0 < y /\
    compute_swap x y a c = Ok (n, s, m) /\ n = y.
Proof. exact c01_refuted_drain. Qed.

Example C01_nonvacuous :
  compute_swap 30000000000 20000000000 1500000000 3000000000000000 = Ok (949523810, 47619048, 2857142)
  /\ kf_c01 30000000000 20000000000 1500000000 3000000000000000 = false.
Proof. split; vm_compute; reflexivity. Qed.

Print Assumptions C01_fn.
Print Assumptions C01_fn_window_exact.
Print Assumptions C01_refuted.
Print Assumptions C01_drain_refuted.
Print Assumptions C01_nonvacuous.
