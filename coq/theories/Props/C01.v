(* C01 — A swap never lowers the reserve product nor empties a reserve (function level).
   The unchanged code violates the statement on the class [kf_c01] (known finding
   KF-ceil-window); the theorem covers everything outside it, the class is shown to be
   exactly the violating set, and the witnesses are replayed on the real code on every run. *)
From HT Require Import Base.Prelude Num.Arith Amm.Formulas Amm.Guards Amm.Known World.World Proofs.C01Proofs Proofs.LedgerProofs Proofs.SystemPoolProofs.

Theorem C01_fn :
  forall x y a c n s m : N,
    x < W128 -> y < W128 -> a < W128 -> c <= D ->
    compute_swap x y a c = Ok (n, s, m) ->
    kf_c01 x y a c = false ->
    n * (x + a) <= y * a /\            (* paid out <= ask_reserve*offer/(offer_reserve+offer) *)
    x * y <= (x + a) * (y - n) /\      (* reserve product does not fall *)
    (0 < y -> n < y).                  (* the ask reserve stays positive *)
Proof. exact c01_fn. Qed.

Theorem C01_fn_window_exact :
  forall x y a c n s m : N,
    x < W128 -> y < W128 -> a < W128 -> c <= D ->
    compute_swap x y a c = Ok (n, s, m) ->
    kf_c01 x y a c = true ->
    y * a < n * (x + a) /\ (x + a) * (y - n) < x * y.
Proof. exact c01_window_exact. Qed.

(* the full statement is false of the faithful model: the repository's own pinned test vector *)
Theorem C01_refuted :
  exists x y a c n s m : N,
    x < W128 /\ y < W128 /\ a < W128 /\ c <= D /\
    compute_swap x y a c = Ok (n, s, m) /\ (x + a) * (y - n) < x * y.
Proof. exact c01_refuted_product. Qed.

Theorem C01_drain_refuted :
  exists x y a c n s m : N,
    x < W128 /\ y < W128 /\ a < W128 /\ c <= D /\ 0 < y /\
    compute_swap x y a c = Ok (n, s, m) /\ n = y.
Proof. exact c01_refuted_drain. Qed.

Example C01_nonvacuous :
  compute_swap 30000000000 20000000000 1500000000 3000000000000000 = Ok (949523810, 47619048, 2857142)
  /\ kf_c01 30000000000 20000000000 1500000000 3000000000000000 = false.
Proof. split; vm_compute; reflexivity. Qed.

(* ---- system level: the pair contract's swap on the world model (entered directly, through the cw20 hook
   or as a router hop: all three reduce to [pair_swap], see C02_delivered_execute / C02_delivered_hook /
   C13_hop_swaps_whole_balance).  [w] already holds the delivered offer, so the reserves before the swap are
   (bal w offer p - amount, bal w ask p); outside the known rounding class the product of the two actual
   reserves does not fall and the reserve paid from stays positive. *)
Theorem C01_sys : forall w p ps funds sender offer amount bp ms to w' ret spread comm,
  pair_swap w p ps funds sender offer amount bp ms to = Ok (w', (ret, spread, comm)) ->
  let ask := if asset_eqb offer (p_a0 ps) then p_a1 ps else p_a0 ps in
  let rcv := match to with Some t => t | None => sender end in
  asset_eqb (p_a0 ps) (p_a1 ps) = false -> rcv <> p ->
  bal w offer p < W128 -> bal w ask p < W128 -> amount < W128 -> p_comm ps <= D ->
  kf_c01 (bal w offer p - amount) (bal w ask p) amount (p_comm ps) = false ->
  amount <= bal w offer p /\
  bal w' offer p = bal w offer p /\ bal w' ask p = bal w ask p - ret /\ ret <= bal w ask p /\
  (bal w offer p - amount) * bal w ask p <= bal w' offer p * bal w' ask p /\
  (0 < bal w ask p -> 0 < bal w' ask p).
Proof. exact pair_swap_product. Qed.

Print Assumptions C01_sys.
Print Assumptions C01_fn.
Print Assumptions C01_fn_window_exact.
Print Assumptions C01_refuted.
Print Assumptions C01_drain_refuted.
Print Assumptions C01_nonvacuous.

From HT Require Import Amm.Known World.World Proofs.WFProofs Proofs.ReachProofs Proofs.SolventProofs Proofs.ReachCorollaries.
Theorem C01_tx_reachable : forall w0 w p ps c d amount bp ms to w',
  WF w0 -> Solvent w0 -> reachable w0 w ->
  w_pairs w p = Some ps -> c <> p ->
  exec w (OSwap p c [(d, amount)] (ANative d) amount bp ms to) = Ok w' ->
  let offer := ANative d in
  let ask := if asset_eqb offer (p_a0 ps) then p_a1 ps else p_a0 ps in
  let rcv := match to with Some t => t | None => c end in
  rcv <> p ->
  kf_c01 (bal w offer p) (bal w ask p) amount (p_comm ps) = false ->
  bal w offer p * bal w ask p <= bal w' offer p * bal w' ask p /\
  (0 < bal w ask p -> 0 < bal w' ask p) /\
  (bal w ask p - bal w' ask p) * (bal w offer p + amount) <= bal w ask p * amount.
Proof. exact swap_tx_product_reachable. Qed.
Print Assumptions C01_tx_reachable.

Theorem C01_tx_hook_reachable : forall w0 w ta sender p ps n offer amount bp ms to w',
  WF w0 -> Solvent w0 -> reachable w0 w ->
  w_pairs w p = Some ps -> sender <> p ->
  exec w (OSend ta sender p n (HSwap offer amount bp ms to)) = Ok w' ->
  let ask := if asset_eqb offer (p_a0 ps) then p_a1 ps else p_a0 ps in
  let rcv := match to with Some t => t | None => sender end in
  rcv <> p ->
  kf_c01 (bal w offer p) (bal w ask p) amount (p_comm ps) = false ->
  bal w offer p * bal w ask p <= bal w' offer p * bal w' ask p /\
  (0 < bal w ask p -> 0 < bal w' ask p) /\
  (bal w ask p - bal w' ask p) * (bal w offer p + amount) <= bal w ask p * amount.
Proof. exact swap_hook_tx_product_reachable. Qed.
Print Assumptions C01_tx_hook_reachable.

Theorem C01_offer_reserve_reachable : forall w0 w p ps c d amount bp ms to w',
  WF w0 -> Solvent w0 -> reachable w0 w ->
  w_pairs w p = Some ps -> c <> p ->
  exec w (OSwap p c [(d, amount)] (ANative d) amount bp ms to) = Ok w' ->
  (match to with Some t => t | None => c end) <> p ->
  0 < bal w (ANative d) p /\ bal w' (ANative d) p = bal w (ANative d) p + amount /\ amount < W128.
Proof. exact swap_tx_offer_reserve_reachable. Qed.
Print Assumptions C01_offer_reserve_reachable.
