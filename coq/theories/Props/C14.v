(* C14 — Privileged and internal entry points reject every other caller.
   [exec w o = Ok w'] is a successful top-level transaction on the world model; a failed one leaves
   the world unchanged ([step]). *)
From HT Require Import Base.Prelude Num.Arith Amm.Formulas Amm.Guards World.World Proofs.AuthProofs.

Theorem C14_factory_update_config : forall w c o w', fac_update_config w c o = Ok w' ->
  c = w_owner w /\ w_owner w' = match o with Some x => x | None => w_owner w end.
Proof. exact fac_update_config_auth. Qed.
Theorem C14_factory_create_pair : forall w c a0 a1 wl m0 m1 cm ld w',
  fac_create_pair w c a0 a1 wl m0 m1 cm ld = Ok w' -> c = w_owner w.
Proof. exact fac_create_pair_auth. Qed.
Theorem C14_factory_add_native : forall w c dn k w', fac_add_native w c dn k = Ok w' -> c = w_owner w.
Proof. exact fac_add_native_auth. Qed.
Theorem C14_factory_migrate : forall w c ct w', fac_migrate_pair w c ct = Ok w' -> c = w_owner w /\ w' = w.
Proof. exact fac_migrate_auth. Qed.
Theorem C14_factory_exec : forall w o w', exec w o = Ok w' ->
  match o with
  | OFacUpdateConfig c _ | OFacCreatePair c _ _ _ _ _ _ _ | OFacAddNative c _ _ | OFacMigrate c _ => c = w_owner w
  | _ => True end.
Proof. exact exec_fac_auth. Qed.

Theorem C14_pair_update_decimals : forall w p c dn d0 d1 w', exec w (OPairUpdateDecimals p c dn d0 d1) = Ok w' ->
  exists ps, w_pairs w p = Some ps /\ c = p_fac ps.
Proof. exact exec_pair_update_decimals_auth. Qed.
Theorem C14_pair_withdraw_hook : forall w p ps c funds cs ca w',
  pair_receive w p ps c funds cs ca HWithdraw = Ok w' -> c = p_lp ps.
Proof. exact pair_receive_withdraw_auth. Qed.
Theorem C14_pair_swap_hook : forall w p ps c funds cs ca offer amount bp ms to w',
  pair_receive w p ps c funds cs ca (HSwap offer amount bp ms to) = Ok w' ->
  (p_a0 ps = AToken c \/ p_a1 ps = AToken c) /\ offer = AToken c /\ amount = ca.
Proof. exact pair_receive_swap_auth. Qed.
Theorem C14_pair_other_hooks_rejected : forall w p ps c funds cs ca h,
  (h = HGarbage \/ exists ops m to, h = HRouterOps ops m to) -> exists e, pair_receive w p ps c funds cs ca h = Err e.
Proof. exact pair_receive_other_rejected. Qed.

Theorem C14_router_single_hop : forall w c funds offer ask to w',
  exec w (ORouterOp c funds offer ask to) = Ok w' -> c = w_rtr w.
Proof. exact router_op_auth. Qed.
Theorem C14_router_assert_min : forall w c t prev m r w',
  exec w (ORouterAssertMin c t prev m r) = Ok w' -> c = w_rtr w /\ w' = w.
Proof. exact router_assert_min_auth. Qed.

(* a rejected call changes no state and no balance *)
Theorem C14_rejected_unchanged : forall w o e, exec w o = Err e -> step w o = w.
Proof. exact step_failed_unchanged. Qed.

(* history level: ownership moves only by a successful UpdateConfig submitted by the current owner *)
Theorem C14_owner_changes_only_by_update_config : forall w o, w_owner (step w o) <> w_owner w ->
  exists x, o = OFacUpdateConfig (w_owner w) (Some x) /\ w_owner (step w o) = x.
Proof. exact owner_changes_only_by_update_config. Qed.
Theorem C14_owner_after_run : forall ops w,
  (forall o, In o ops -> match o with OFacUpdateConfig _ _ => False | _ => True end) -> w_owner (run w ops) = w_owner w.
Proof. exact owner_after_run. Qed.

Print Assumptions C14_factory_update_config.
Print Assumptions C14_factory_create_pair.
Print Assumptions C14_factory_add_native.
Print Assumptions C14_factory_migrate.
Print Assumptions C14_factory_exec.
Print Assumptions C14_pair_update_decimals.
Print Assumptions C14_pair_withdraw_hook.
Print Assumptions C14_pair_swap_hook.
Print Assumptions C14_pair_other_hooks_rejected.
Print Assumptions C14_router_single_hop.
Print Assumptions C14_router_assert_min.
Print Assumptions C14_rejected_unchanged.
Print Assumptions C14_owner_changes_only_by_update_config.
Print Assumptions C14_owner_after_run.
