(* C04 — Withdrawal pays the pro-rata share: never more, at most dust less.
   Function level (this block): the arithmetic of withdraw_liquidity (Decimal::from_ratio(a, T), reserve * ratio).
   System level (ledger effect, burn of exactly a, nobody else touched) is stated over the world model. *)
From HT Require Import Base.Prelude Num.Arith Amm.Formulas Proofs.LiquidityProofs.

(* r_i*a/T - r_i/10^18 - 1 < x_i <= r_i*a/T, cross-multiplied *)
Theorem C04_fn :
  forall r0 r1 a T x0 x1 : N,
    withdraw_amounts r0 r1 a T = Ok (x0, x1) ->
    (x0 * T <= r0 * a /\ r0 * a * D < (x0 + 1) * T * D + r0 * T) /\
    (x1 * T <= r1 * a /\ r1 * a * D < (x1 + 1) * T * D + r1 * T).
Proof. exact withdraw_bounds. Qed.

Theorem C04_le_reserve :
  forall r0 r1 a T x0 x1 : N,
    withdraw_amounts r0 r1 a T = Ok (x0, x1) -> a <= T -> x0 <= r0 /\ x1 <= r1.
Proof. exact withdraw_le_reserve. Qed.

(* the arithmetic never aborts for a <= T, T > 0 (used by C20) *)
Theorem C04_total :
  forall r0 r1 a T : N,
    r0 < W128 -> r1 < W128 -> T <> 0 -> a <= T ->
    exists x0 x1, withdraw_amounts r0 r1 a T = Ok (x0, x1).
Proof. exact withdraw_total. Qed.

Example C04_nonvacuous : withdraw_amounts 1000000 3000001 333 1000 = Ok (333000, 999000).
Proof. vm_compute. reflexivity. Qed.

Print Assumptions C04_fn.
Print Assumptions C04_le_reserve.
Print Assumptions C04_total.
Print Assumptions C04_nonvacuous.
